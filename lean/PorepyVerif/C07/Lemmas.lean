/-
C07 — helper lemmas about the row / column bookkeeping of `Model.lean`.
-/
import PorepyVerif.C07.Model
import Mathlib.Data.List.Perm.Basic
import Mathlib.Data.List.Range
import Mathlib.Data.List.Nodup

namespace PorepyVerif.C07

/-! ### generic list facts -/

/-- appending rearranged pieces: used to combine per-equation partitions -/
theorem perm_interleave {a p b x c s r1 r2 : List Nat}
    (h1 : (a ++ (b ++ c)).Perm r1) (h2 : (p ++ (x ++ s)).Perm r2) :
    ((a ++ p) ++ ((b ++ x) ++ (c ++ s))).Perm (r1 ++ r2) := by
  rw [List.perm_iff_count]
  intro n
  have e1 := h1.count_eq n
  have e2 := h2.count_eq n
  simp only [List.count_append] at e1 e2 ⊢
  omega

/-- a duplicate-free part of a duplicate-free list, together with its complement, is the list -/
theorem nodup_sub_perm {idx all : List Nat} (hn : idx.Nodup) (ha : all.Nodup) (hsub : idx ⊆ all) :
    (idx ++ all.filter (fun i => decide (i ∉ idx))).Perm all := by
  have h1 : idx.Perm (all.filter (fun i => decide (i ∈ idx))) := by
    rw [List.perm_ext_iff_of_nodup hn (ha.filter _)]
    intro a
    simp only [List.mem_filter, decide_eq_true_eq]
    exact ⟨fun h => ⟨hsub h, h⟩, fun h => h.2⟩
  have h2 := List.filter_append_perm (fun i => decide (i ∈ idx)) all
  have h3 : (all.filter (fun i => decide (i ∉ idx))) = all.filter (fun x => !(decide (x ∈ idx))) := by
    congr 1; funext x; simp
  rw [h3]
  exact (h1.append_right _).trans h2

theorem map_add_range (off m : Nat) : (List.range m).map (· + off) = List.range' off m := by
  rw [List.range'_eq_map_range]
  apply List.map_congr_left
  intro a _
  omega

/-! ### rows -/

theorem selectIdx_sublist (gs : List Nat) (e : EqLayout) (off : Nat) :
    (selectIdx gs (blocksFrom off e)).Sublist (List.range' off (eqSize e)) := by
  induction e generalizing off with
  | nil => simp [blocksFrom, selectIdx, eqSize]
  | cons b rest ih =>
    obtain ⟨g, s⟩ := b
    simp only [blocksFrom, selectIdx, eqSize]
    rw [← List.range'_append_1]
    split
    · exact List.Sublist.append (List.Sublist.refl _) (ih _)
    · exact (ih _).trans (List.sublist_append_right _ _)

theorem localSel_nodup (e : EqLayout) (gs : List Nat) : (localSel e gs).Nodup :=
  (selectIdx_sublist gs e 0).nodup (List.nodup_range' (s := 0) (n := eqSize e))

theorem localSel_subset (e : EqLayout) (gs : List Nat) : localSel e gs ⊆ List.range (eqSize e) := by
  have := (selectIdx_sublist gs e 0).subset
  rw [List.range_eq_range']
  exact this

/-- one grid-restricted equation: requested rows + excluded rows = the equation's rows -/
theorem eq_rows_partition (e : EqLayout) (gs : List Nat) (off : Nat) :
    ((localSel e gs).map (· + off) ++ (complementIdx (eqSize e) (localSel e gs)).map (· + off)).Perm
      (List.range' off (eqSize e)) := by
  rw [← List.map_append, ← map_add_range]
  apply List.Perm.map
  exact nodup_sub_perm (localSel_nodup e gs) List.nodup_range (localSel_subset e gs)

/-- the three row lists of the model partition the rows of the equations they were built from -/
theorem rows_partition_aux (req : EqReq) (eqs : List EqLayout) (k off : Nat) :
    (primRows req k off eqs ++ (exclRows req k off eqs ++ secEqRows req k off eqs)).Perm
      (List.range' off (totalRows eqs)) := by
  induction eqs generalizing k off with
  | nil => simp [primRows, exclRows, secEqRows, totalRows]
  | cons e rest ih =>
    simp only [primRows, exclRows, secEqRows, totalRows]
    rw [← List.range'_append_1]
    apply perm_interleave _ (ih (k + 1) (off + eqSize e))
    cases req.sel k with
    | no => simp
    | all => simp
    | grids gs => simpa using eq_rows_partition e gs off

/-! ### columns -/

theorem insertSorted_perm (a : Nat) (l : List Nat) : (insertSorted a l).Perm (a :: l) := by
  induction l with
  | nil => simp [insertSorted]
  | cons b l ih =>
    simp only [insertSorted]
    split
    · exact List.Perm.refl _
    · exact ((List.Perm.cons b ih).trans (List.Perm.swap a b l))

theorem isort_perm (l : List Nat) : (isort l).Perm l := by
  induction l with
  | nil => simp [isort]
  | cons a l ih => exact (insertSorted_perm a (isort l)).trans (List.Perm.cons a ih)

theorem dofsOf_append (l1 l2 : List Block) : dofsOf (l1 ++ l2) = dofsOf l1 ++ dofsOf l2 := by
  induction l1 with
  | nil => rfl
  | cons b l ih => simp [dofsOf, ih]

theorem dofsOf_perm {l1 l2 : List Block} (h : l1.Perm l2) : (dofsOf l1).Perm (dofsOf l2) := by
  induction h with
  | nil => exact List.Perm.refl _
  | cons b _ ih => exact List.Perm.append_left _ ih
  | swap a b l =>
    simp only [dofsOf]
    rw [← List.append_assoc, ← List.append_assoc]
    exact List.Perm.append_right _ List.perm_append_comm
  | trans _ _ ih1 ih2 => exact ih1.trans ih2

theorem dofsOf_varBlocks (vars : List Var) (j off : Nat) :
    dofsOf (varBlocks j off vars) = List.range' off (totalDofs vars) := by
  induction vars generalizing j off with
  | nil => simp [varBlocks, dofsOf, totalDofs]
  | cons v rest ih =>
    simp only [varBlocks, dofsOf, totalDofs]
    rw [ih, List.range'_append_1]

theorem idx_varBlocks (vars : List Var) (j off : Nat) :
    (varBlocks j off vars).map (·.idx) = List.range' j vars.length := by
  induction vars generalizing j off with
  | nil => simp [varBlocks]
  | cons v rest ih =>
    simp only [varBlocks, List.map_cons, List.length_cons]
    rw [ih, List.range'_succ]

theorem parseVars_subset (blocks : List Block) (items : List VarItem) :
    parseVars blocks items ⊆ blocks := by
  induction items with
  | nil => simp [parseVars]
  | cons it rest ih =>
    simp only [parseVars]
    intro b hb
    rcases List.mem_append.mp hb with h | h
    · exact (List.mem_filter.mp h).1
    · exact ih h

/-- a duplicate-free selection of blocks plus the blocks that were not selected = all blocks -/
theorem blocks_partition (blocks active : List Block) (hb : (blocks.map (·.idx)).Nodup)
    (ha : (active.map (·.idx)).Nodup) (hsub : active ⊆ blocks) :
    (active ++ secBlocks blocks active).Perm blocks := by
  have hbn : blocks.Nodup := List.Nodup.of_map _ hb
  have han : active.Nodup := List.Nodup.of_map _ ha
  have hinj : ∀ b ∈ blocks, ∀ b' ∈ blocks, b.idx = b'.idx → b = b' :=
    fun b hb1 b' hb2 h => List.inj_on_of_nodup_map hb hb1 hb2 h
  have h1 : active.Perm (blocks.filter (fun b => decide (b.idx ∈ active.map (·.idx)))) := by
    rw [List.perm_ext_iff_of_nodup han (hbn.filter _)]
    intro b
    simp only [List.mem_filter, decide_eq_true_eq, List.mem_map]
    constructor
    · exact fun h => ⟨hsub h, b, h, rfl⟩
    · rintro ⟨hbm, b', hb', he⟩
      have := hinj b' (hsub hb') b hbm he
      exact this ▸ hb'
  have h2 := List.filter_append_perm (fun b => decide (b.idx ∈ active.map (·.idx))) blocks
  have h3 : secBlocks blocks active
      = blocks.filter (fun x => !(decide (x.idx ∈ active.map (·.idx)))) := by
    unfold secBlocks
    congr 1; funext x
    by_cases hx : x.idx ∈ active.map (·.idx) <;> simp [hx]
  rw [h3]
  exact (h1.append_right _).trans h2

/-! ### expansion -/

theorem scatterAt_not_mem (idx : List Nat) (vals : List Rat) (j : Nat) (h : j ∉ idx) :
    scatterAt idx vals j = 0 := by
  induction idx generalizing vals with
  | nil => cases vals <;> rfl
  | cons i is ih =>
    cases vals with
    | nil => rfl
    | cons v vs =>
      have hne : i ≠ j := fun e => h (e ▸ List.mem_cons_self)
      have hj : j ∉ is := fun hm => h (List.mem_cons_of_mem _ hm)
      simp [scatterAt, hne, ih vs hj, Rat.add_zero]

theorem scatterAt_get (idx : List Nat) (vals : List Rat) (i j : Nat) (hn : idx.Nodup)
    (hlen : vals.length = idx.length) (hj : idx[i]? = some j) :
    some (scatterAt idx vals j) = vals[i]? := by
  induction idx generalizing vals i with
  | nil => simp at hj
  | cons a is ih =>
    cases vals with
    | nil => simp at hlen
    | cons v vs =>
      have hn' := List.nodup_cons.mp hn
      cases i with
      | zero =>
        simp only [List.getElem?_cons_zero, Option.some.injEq] at hj
        subst hj
        simp [scatterAt, scatterAt_not_mem is vs a hn'.1, Rat.add_zero]
      | succ i =>
        simp only [List.getElem?_cons_succ] at hj
        have hmem : j ∈ is := List.mem_of_getElem? hj
        have hne : a ≠ j := fun e => hn'.1 (e ▸ hmem)
        have := ih vs i hn'.2 (by simpa using hlen) hj
        simp [scatterAt, hne, Rat.zero_add, this]

end PorepyVerif.C07
