/-
C07 — executable model of the Schur-complement reduction of `EquationSystem`
(`assemble_schur_complement_system`, `expand_schur_complement_solution`,
`_parse_equations`, `_gridbased_equation_complement`, `projection_to`), core Lean only.

Two layers:

* the *bookkeeping* (which rows / columns of the full linearised system go into the primary and the
  secondary block, in which order, and where `expand` puts the two partial solutions), transcribed
  branch for branch from the code — this is what `Props.lean` proves partition theorems about;
* the *arithmetic* (sub-matrices, the reduced system and the expanded solution) used by the driver;
  inverses are computed by the exact Gauss–Jordan elimination `C37.inverse` (shared with property
  C37, where it is proved to return a two-sided inverse whenever it returns anything).  `Props.lean`
  proves that whatever `schurSolve` answers solves the full system — nothing is re-checked at run time.

The full system `J x = r` is the one `EquationSystem.assemble()` returns: row blocks in the order in
which equations were stored, inside an equation one block per grid in md-grid order; columns in
global dof order.
-/
import PorepyVerif.C37.Model

namespace PorepyVerif.C07

/-! ## Layout of an equation system -/

/-- an atomic variable: name id, grid id, number of dofs; the list of variables is in dof order -/
structure Var where
  name : Nat
  grid : Nat
  size : Nat

/-- image-space composition of one equation: `(grid id, number of rows)` per grid, in md-grid order
    (`_equation_image_space_composition[name]`, as built by `set_equation`) -/
abbrev EqLayout := List (Nat × Nat)

def eqSize : EqLayout → Nat
  | [] => 0
  | (_, s) :: rest => s + eqSize rest

/-- the index blocks `np.arange(num) + total` of `set_equation` -/
def blocksFrom : Nat → EqLayout → List (Nat × List Nat)
  | _, [] => []
  | off, (g, s) :: rest => (g, List.range' off s) :: blocksFrom (off + s) rest

/-- `_parse_single_equation`, dict branch: loop over the image info (not over the requested grids)
    and concatenate the blocks of requested grids -/
def selectIdx (grids : List Nat) : List (Nat × List Nat) → List Nat
  | [] => []
  | (g, idx) :: rest =>
    if g ∈ grids then idx ++ selectIdx grids rest else selectIdx grids rest

/-- local row indices of equation `e` restricted to `gs` -/
def localSel (e : EqLayout) (gs : List Nat) : List Nat := selectIdx gs (blocksFrom 0 e)

/-- `_gridbased_equation_complement`: `np.delete(all_idx, idx)` with `all_idx = 0..m-1` -/
def complementIdx (m : Nat) (idx : List Nat) : List Nat :=
  (List.range m).filter (fun i => decide (i ∉ idx))

/-! ## Requests -/

/-- primary equations: a list of names (no restriction) or a dict name ↦ grids -/
inductive EqReq where
  | names (l : List Nat)
  | restricted (l : List (Nat × List Nat))

/-- what a request says about equation number `k` -/
inductive Sel where
  | no
  | all
  | grids (gs : List Nat)

def lookupReq : List (Nat × List Nat) → Nat → Option (List Nat)
  | [], _ => none
  | (n, gs) :: rest, k => if n = k then some gs else lookupReq rest k

def EqReq.sel : EqReq → Nat → Sel
  | .names l, k => if k ∈ l then .all else .no
  | .restricted l, k =>
    match lookupReq l k with
    | some gs => .grids gs
    | none => .no

/-- `_parse_equations` raises `ValueError` for unknown names and for grids outside an equation's domain -/
def parseOk (eqs : List EqLayout) : EqReq → Bool
  | .names l => l.all (fun n => decide (n < eqs.length))
  | .restricted l =>
    l.all (fun p => decide (p.1 < eqs.length) &&
      p.2.all (fun g => decide (g ∈ ((eqs.getD p.1 []).map (·.1)))))

/-- `_gridbased_equation_complement` raises `ValueError` (`np.hstack` of an empty list) for a
    grid-restricted equation that was registered with an empty grid list -/
def complementOk (eqs : List EqLayout) : EqReq → Bool
  | .names _ => true
  | .restricted l => l.all (fun p => !(eqs.getD p.1 []).isEmpty)

/-! ## Row split (global row numbers of the full system) -/

/-- rows of the primary block, in block order: stored order of equations, inside a restricted
    equation the requested grids in md order -/
def primRows (req : EqReq) : Nat → Nat → List EqLayout → List Nat
  | _, _, [] => []
  | k, off, e :: rest =>
    (match req.sel k with
     | .no => []
     | .all => List.range' off (eqSize e)
     | .grids gs => (localSel e gs).map (· + off))
    ++ primRows req (k + 1) (off + eqSize e) rest

/-- rows of primary equations on grids that were filtered out ("top rows of the secondary block") -/
def exclRows (req : EqReq) : Nat → Nat → List EqLayout → List Nat
  | _, _, [] => []
  | k, off, e :: rest =>
    (match req.sel k with
     | .no => []
     | .all => []
     | .grids gs => (complementIdx (eqSize e) (localSel e gs)).map (· + off))
    ++ exclRows req (k + 1) (off + eqSize e) rest

/-- rows of the equations that are not primary at all -/
def secEqRows (req : EqReq) : Nat → Nat → List EqLayout → List Nat
  | _, _, [] => []
  | k, off, e :: rest =>
    (match req.sel k with
     | .no => List.range' off (eqSize e)
     | .all => []
     | .grids _ => [])
    ++ secEqRows req (k + 1) (off + eqSize e) rest

/-- rows of the secondary block `A_s`, in block order -/
def secRows (req : EqReq) (eqs : List EqLayout) : List Nat :=
  exclRows req 0 0 eqs ++ secEqRows req 0 0 eqs

def totalRows : List EqLayout → Nat
  | [] => 0
  | e :: rest => eqSize e + totalRows rest

/-- number of requested equations (`len(primary_rows)`) -/
def numPrimaryEqs (req : EqReq) : Nat → List EqLayout → Nat
  | _, [] => 0
  | k, _ :: rest =>
    (match req.sel k with
     | .no => 0
     | _ => 1) + numPrimaryEqs req (k + 1) rest

/-- number of matrices appended to `A_sec` (zero of them makes `sps.vstack` raise) -/
def numSecBlocks (req : EqReq) : Nat → List EqLayout → Nat
  | _, [] => 0
  | k, _ :: rest =>
    (match req.sel k with
     | .all => 0
     | _ => 1) + numSecBlocks req (k + 1) rest

/-- `assembled_equation_indices` after a Schur assembly: positions inside the primary block -/
def eqIndices (req : EqReq) : Nat → Nat → List EqLayout → List (Nat × List Nat)
  | _, _, [] => []
  | k, start, e :: rest =>
    match req.sel k with
    | .no => eqIndices req (k + 1) start rest
    | .all => (k, List.range' start (eqSize e)) :: eqIndices req (k + 1) (start + eqSize e) rest
    | .grids gs =>
      (k, List.range' start (localSel e gs).length)
        :: eqIndices req (k + 1) (start + (localSel e gs).length) rest

/-! ## Column split -/

/-- a variable with its position in dof order and its dofs -/
structure Block where
  idx : Nat
  var : Var
  dofs : List Nat

/-- `dofs_of` of every variable: consecutive ranges in variable-number order -/
def varBlocks : Nat → Nat → List Var → List Block
  | _, _, [] => []
  | j, off, v :: rest => ⟨j, v, List.range' off v.size⟩ :: varBlocks (j + 1) (off + v.size) rest

def totalDofs : List Var → Nat
  | [] => 0
  | v :: rest => v.size + totalDofs rest

/-- one entry of a `VariableList`: a name (string / md-variable: all grids) or a name on some grids
    (an atomic variable, or an md-variable restricted to grids) -/
structure VarItem where
  name : Nat
  grids : Option (List Nat)

def VarItem.hits (it : VarItem) (v : Var) : Bool :=
  decide (v.name = it.name) &&
    (match it.grids with
     | none => true
     | some gs => decide (v.grid ∈ gs))

/-- `_parse_variable_type`: concatenation, NOT uniquified -/
def parseVars (blocks : List Block) : List VarItem → List Block
  | [] => []
  | it :: rest => blocks.filter (fun b => it.hits b.var) ++ parseVars blocks rest

def dofsOf : List Block → List Nat
  | [] => []
  | b :: rest => b.dofs ++ dofsOf rest

def insertSorted (a : Nat) : List Nat → List Nat
  | [] => [a]
  | b :: l => if a ≤ b then a :: b :: l else b :: insertSorted a l

/-- `np.sort` (insertion sort: structural recursion) -/
def isort : List Nat → List Nat
  | [] => []
  | a :: l => insertSorted a (isort l)

/-- columns of the primary block = `np.sort(dofs_of(active))` (rows of `projection_to`) -/
def primCols (active : List Block) : List Nat := isort (dofsOf active)

/-- `set(self.variables).difference(active_variables)` -/
def secBlocks (blocks active : List Block) : List Block :=
  blocks.filter (fun b => decide (b.idx ∉ active.map (·.idx)))

def secCols (blocks active : List Block) : List Nat := isort (dofsOf (secBlocks blocks active))

/-! ## Expansion: `X = prolong_p * x_p + prolong_s * x_s` -/

/-- entry `j` of `Pᵀ v` for the projection `P` with `P[i, idx[i]] = 1` -/
def scatterAt : List Nat → List Rat → Nat → Rat
  | i :: is, v :: vs, j => (if i = j then v else 0) + scatterAt is vs j
  | _, _, _ => 0

def expand (n : Nat) (pcols scols : List Nat) (xp xs : List Rat) : List Rat :=
  (List.range n).map (fun j => scatterAt pcols xp j + scatterAt scols xs j)

/-! ## Arithmetic on lists of rationals (driver) -/

abbrev Vec := List Rat
abbrev Mat := List Vec

def dot : Vec → Vec → Rat
  | a :: as, b :: bs => a * b + dot as bs
  | _, _ => 0

def mulVec (A : Mat) (x : Vec) : Vec := A.map (fun row => dot row x)
def vsub (a b : Vec) : Vec := List.zipWith (· - ·) a b
def msub (A B : Mat) : Mat := List.zipWith vsub A B
def pick (v : Vec) (idx : List Nat) : Vec := idx.map (fun i => v.getD i 0)
def pickRows (A : Mat) (rows : List Nat) : Mat := rows.map (fun i => A.getD i [])
def pickCols (A : Mat) (cols : List Nat) : Mat := A.map (fun row => pick row cols)
def transpose (A : Mat) (ncols : Nat) : Mat := (List.range ncols).map (fun j => A.map (fun row => row.getD j 0))
/-- `A * B` where `B` has `ncols` columns -/
def matMul (A B : Mat) (ncols : Nat) : Mat :=
  let bt := transpose B ncols
  A.map (fun row => bt.map (fun c => dot row c))
/-- what `assemble_schur_complement_system` keeps in `self._Schur_complement` -/
structure Stored where
  inv : Mat
  bs : Vec
  Asp : Mat
  pcols : List Nat
  scols : List Nat
  n : Nat

/-- the blocks of one split -/
structure Blocks where
  App : Mat
  Aps : Mat
  Asp : Mat
  Ass : Mat
  bp : Vec
  bs : Vec

def blocksOf (J : Mat) (r : Vec) (prows srows pcols scols : List Nat) : Blocks :=
  let Ap := pickRows J prows
  let As := pickRows J srows
  ⟨pickCols Ap pcols, pickCols Ap scols, pickCols As pcols, pickCols As scols, pick r prows, pick r srows⟩

/-- `S = A_pp - A_ps * inv * A_sp`, `rhs_S = b_p - A_ps * inv * b_s` -/
def reduced (b : Blocks) (inv : Mat) (np ns : Nat) : Mat × Vec :=
  let ApsInv := matMul b.Aps inv ns
  (msub b.App (matMul ApsInv b.Asp np), vsub b.bp (mulVec ApsInv b.bs))

/-- `expand_schur_complement_solution` -/
def expandStored (s : Stored) (xp : Vec) : Vec :=
  expand s.n s.pcols s.scols xp (mulVec s.inv (vsub s.bs (mulVec s.Asp xp)))

/-- one successful `assemble_schur_complement_system`: reduced system + what is stored -/
structure SplitResult where
  S : Mat
  rhs : Vec
  stored : Stored

/-- the numerical part of `assemble_schur_complement_system` for given row / column lists;
    `none` = the secondary block is not square (the code's last assertion) or singular -/
def assembleSplit (J : Mat) (r : Vec) (n : Nat) (prows srows pcols scols : List Nat) :
    Option SplitResult :=
  if srows.length != scols.length then none else
  let b := blocksOf J r prows srows pcols scols
  match C37.inverse b.Ass with
  | none => none
  | some inv =>
    some ⟨(reduced b inv pcols.length scols.length).1, (reduced b inv pcols.length scols.length).2,
      ⟨inv, b.bs, b.Asp, pcols, scols, n⟩⟩

/-- exact solve of the reduced system (`none`: not square or singular) -/
def solveReduced (S : Mat) (rhs : Vec) (np : Nat) : Option Vec :=
  if S.length != np then none else
  match C37.inverse S with
  | none => none
  | some Sinv => some (mulVec Sinv rhs)

/-- reduce, solve, expand -/
def schurSolve (J : Mat) (r : Vec) (n : Nat) (prows srows pcols scols : List Nat) : Option Vec :=
  match assembleSplit J r n prows srows pcols scols with
  | none => none
  | some sp =>
    match solveReduced sp.S sp.rhs pcols.length with
    | none => none
    | some xp => some (expandStored sp.stored xp)

/-! ## The calls as a state machine (one `EquationSystem` instance, any history of calls) -/

inductive SplitErr where
  | valueError
  | assertionError
deriving DecidableEq

/-- the request part of `assemble_schur_complement_system`, error branches in the order of the code:
    `_parse_equations`, `_gridbased_equation_complement` (ValueError), the three non-emptiness
    assertions, `sps.vstack([])` (ValueError), the squareness assertion -/
def splitLists (eqs : List EqLayout) (vars : List Var) (req : EqReq) (items : List VarItem) :
    Except SplitErr (List Nat × List Nat × List Nat × List Nat) :=
  if !parseOk eqs req then .error .valueError else
  if !complementOk eqs req then .error .valueError else
  if numPrimaryEqs req 0 eqs == 0 then .error .assertionError else
  if (primCols (parseVars (varBlocks 0 0 vars) items)).length == 0 then .error .assertionError else
  if (secCols (varBlocks 0 0 vars) (parseVars (varBlocks 0 0 vars) items)).length == 0 then
    .error .assertionError else
  if numSecBlocks req 0 eqs == 0 then .error .valueError else
  if (secRows req eqs).length
      != (secCols (varBlocks 0 0 vars) (parseVars (varBlocks 0 0 vars) items)).length then
    .error .assertionError else
  .ok (primRows req 0 0 eqs, secRows req eqs, primCols (parseVars (varBlocks 0 0 vars) items),
    secCols (varBlocks 0 0 vars) (parseVars (varBlocks 0 0 vars) items))

/-- state of the instance as far as the Schur methods are concerned -/
structure MState where
  /-- full system at the stored iterate -/
  J : Mat
  r : Vec
  /-- `_Schur_complement`: outer `none` = never assembled, inner `none` = assembled with a singular
      block (the code then keeps garbage; the model keeps nothing) -/
  stored : Option (Option Stored)
  /-- reduced system returned by the last successful assembly -/
  last : Option (Mat × Vec)
  /-- ghost: the full system the stored data was assembled from (it differs from `J, r` after a
      change of the iterate, after a failing call, or when the `state` argument was used) -/
  sysAt : Mat × Vec

inductive MOp where
  /-- new iterate: the full system changes, the stored Schur data does not -/
  | setSystem (J : Mat) (r : Vec)
  /-- `assemble_schur_complement_system`; `sys` = the full system at the `state` argument, if given -/
  | split (req : EqReq) (items : List VarItem) (sys : Option (Mat × Vec))
  /-- solve the reduced system of the last successful assembly exactly and expand -/
  | expandSolve
  /-- `expand_schur_complement_solution(x)` -/
  | expand (x : Vec)

inductive MOut where
  | done
  | splitErr (e : SplitErr)
  | singular
  | assembled
  | valueError
  | skip
  | vec (X : Vec)
deriving DecidableEq

def mstep (eqs : List EqLayout) (vars : List Var) (st : MState) : MOp → MState × MOut
  | .setSystem J r => ({ st with J := J, r := r }, .done)
  | .split req items sys =>
    match splitLists eqs vars req items with
    | .error e => (st, .splitErr e)   -- a failing call leaves `_Schur_complement` untouched
    | .ok (prows, srows, pcols, scols) =>
      let Jr := sys.getD (st.J, st.r)
      match assembleSplit Jr.1 Jr.2 (totalDofs vars) prows srows pcols scols with
      | none => ({ st with stored := some none, last := none }, .singular)
      | some sp =>
        ({ st with stored := some (some sp.stored), last := some (sp.S, sp.rhs), sysAt := Jr },
          .assembled)
  | .expandSolve =>
    match st.stored, st.last with
    | none, _ => (st, .valueError)
    | some none, _ => (st, .skip)
    | some (some _), none => (st, .skip)
    | some (some s), some (S, rhs) =>
      match solveReduced S rhs s.pcols.length with
      | none => (st, .skip)
      | some xp => (st, .vec (expandStored s xp))
  | .expand x =>
    match st.stored with
    | none => (st, .valueError)
    | some none => (st, .skip)
    | some (some s) =>
      if x.length != s.pcols.length then (st, .valueError) else (st, .vec (expandStored s x))

def mrun (eqs : List EqLayout) (vars : List Var) (st : MState) : List MOp → MState
  | [] => st
  | op :: ops => mrun eqs vars (mstep eqs vars st op).1 ops

def MState.init : MState := ⟨[], [], none, none, ([], [])⟩

end PorepyVerif.C07
