/- C07 line-protocol driver: `lake env lean --run PorepyVerif/C07/Driver.lean`

ops
  {"op":"layout","eqs":[[[grid,rows],…],…],"vars":[[name,grid,size],…]}           → "ok"
  {"op":"state","J":[[q,…],…],"r":[q,…]}                                          → "ok"
  {"op":"split","form":"list","eqs":[name,…],"vars":[[name,null|[grid,…]],…]}
  {"op":"split","form":"dict","eqs":[[name,[grid,…]],…],"vars":…}
      → {"err":…} | {"singular":true} | {"S":…,"rhs":…,"bs":…,"Asp":…,"pcols":…,"scols":…,"eqidx":…,"eqidx_asis":…}
  {"op":"expand","x":[q,…]} | {"op":"expand","solve":true}
      → {"err":"ValueError"} | {"skip":…} | {"X":[q,…]}
No certificate is computed here: that the answers solve the full system is `schurSolve_solves_full` (Props).
-/
import PorepyVerif.Common.Wire
import PorepyVerif.C07.Model
open Lean PV PorepyVerif.C07

structure St where
  eqs : List EqLayout := []
  vars : List Var := []
  m : MState := MState.init

def jPair {α β : Type} (f : Json → R α) (g : Json → R β) (j : Json) : R (α × β) :=
  match j with
  | .arr #[a, b] => do pure (← f a, ← g b)
  | _ => throw s!"not a pair: {j.compress}"

def jTriple (j : Json) : R Var := do
  match ← jList jNat j with
  | [a, b, c] => pure ⟨a, b, c⟩
  | _ => throw "not a triple"

def ofMat (m : Mat) : Json := ofList ofRats m

/-- `assembled_equation_indices` as the code leaves it: the `assemble(equations=[name])` calls of the
    secondary loop overwrite the primary-block indices stored just before, so that after the call
    the attribute only describes the last secondary equation (if there is one). -/
def indicesAsCoded (req : EqReq) (eqs : List EqLayout) : List (Nat × List Nat) :=
  let secs := (List.range eqs.length).filter (fun k => match req.sel k with | .no => true | _ => false)
  match secs.getLast? with
  | some k => [(k, List.range' 0 (eqSize (eqs.getD k [])))]
  | none => eqIndices req 0 0 eqs

def errName : SplitErr → String
  | .valueError => "ValueError"
  | .assertionError => "AssertionError"

/-- every op goes through the model's `mstep` (the function the history theorem is about) -/
def doSplit (st : St) (j : Json) : R (St × Json) := do
  let form ← fStr j "form"
  let req : EqReq ←
    if form == "list" then EqReq.names <$> fNats j "eqs"
    else EqReq.restricted <$> (field j "eqs" >>= jList (jPair jNat (jList jNat)))
  let items ← field j "vars" >>= jList (jPair jNat (jOpt (jList jNat)))
  let items : List VarItem := items.map (fun p => ⟨p.1, p.2⟩)
  -- the `state` argument: the call linearises at another point than the stored iterate
  let sys : Option (Mat × Vec) ← match j.getObjVal? "J" with
    | .ok _ => do pure (some (← fRatss j "J", ← fRats j "r"))
    | .error _ => pure none
  let (m', out) := mstep st.eqs st.vars st.m (.split req items sys)
  match out, m'.stored, m'.last with
  | .splitErr e, _, _ => return (st, err (errName e))
  | .singular, _, _ => return ({ st with m := m' }, obj [("singular", .bool true)])
  | .assembled, some (some s), some (S, rhs) =>
    let o := obj [("S", ofMat S), ("rhs", ofRats rhs), ("bs", ofRats s.bs),
      ("Asp", ofMat s.Asp), ("pcols", ofNats s.pcols), ("scols", ofNats s.scols),
      ("eqidx", ofList (fun p => Json.arr #[ofNat p.1, ofNats p.2]) (eqIndices req 0 0 st.eqs)),
      ("eqidx_asis", ofList (fun p => Json.arr #[ofNat p.1, ofNats p.2]) (indicesAsCoded req st.eqs))]
    return ({ st with m := m' }, o)
  | _, _, _ => throw "unexpected model output"

def ofOut : MOut → R Json
  | .valueError => pure (err "ValueError")
  | .skip => pure (obj [("skip", .str "no usable reduced system / stored data")])
  | .vec X => pure (obj [("X", ofRats X)])
  | _ => throw "unexpected model output"

def doExpand (st : St) (j : Json) : R (St × Json) := do
  if (fieldD j "solve" (.bool false)) == .bool true then
    return (st, ← ofOut (mstep st.eqs st.vars st.m .expandSolve).2)
  else
    let x ← fRats j "x"
    return (st, ← ofOut (mstep st.eqs st.vars st.m (.expand x)).2)

def step (st : St) (j : Json) : R (St × Json) := do
  let op ← fStr j "op"
  match op with
  | "layout" =>
    let eqs ← field j "eqs" >>= jList (jList (jPair jNat jNat))
    let vars ← field j "vars" >>= jList jTriple
    pure ({ eqs := eqs, vars := vars }, Json.str "ok")
  | "state" =>
    let J ← fRatss j "J"
    let r ← fRats j "r"
    pure ({ st with m := (mstep st.eqs st.vars st.m (.setSystem J r)).1 }, Json.str "ok")
  | "split" => doSplit st j
  | "expand" => doExpand st j
  | _ => throw s!"unknown op {op}"

def main : IO Unit := runDriver ({} : St) step
