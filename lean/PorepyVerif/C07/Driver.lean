/- C07 line-protocol driver: `lake env lean --run PorepyVerif/C07/Driver.lean`

ops
  {"op":"layout","eqs":[[[grid,rows],…],…],"vars":[[name,grid,size],…]}           → "ok"
  {"op":"state","J":[[q,…],…],"r":[q,…]}                                          → "ok"
  {"op":"split","form":"list","eqs":[name,…],"vars":[[name,null|[grid,…]],…]}
  {"op":"split","form":"dict","eqs":[[name,[grid,…]],…],"vars":…}
      → {"err":…} | {"singular":true} | {"S":…,"rhs":…,"bs":…,"Asp":…,"pcols":…,"scols":…,"eqidx":…,"eqidx_asis":…}
  {"op":"expand","x":[q,…]} | {"op":"expand","solve":true}
      → {"err":"ValueError"} | {"skip":…} | {"X":[q,…]}
No certificate is computed here: that the answers solve the full system is `schurSolve_solves_full` (Props).
-/
import PorepyVerif.Common.Wire
import PorepyVerif.C07.Model
open Lean PV PorepyVerif.C07

structure St where
  eqs : List EqLayout := []
  vars : List Var := []
  J : Mat := []
  r : Vec := []
  /-- `_Schur_complement` (outer `none`: never assembled; inner `none`: last block was singular) -/
  stored : Option (Option Stored) := none
  /-- reduced system of the last assembly (for `solve`) -/
  last : Option (Mat × Vec) := none

def jPair {α β : Type} (f : Json → R α) (g : Json → R β) (j : Json) : R (α × β) :=
  match j with
  | .arr #[a, b] => do pure (← f a, ← g b)
  | _ => throw s!"not a pair: {j.compress}"

def jTriple (j : Json) : R Var := do
  match ← jList jNat j with
  | [a, b, c] => pure ⟨a, b, c⟩
  | _ => throw "not a triple"

def ofMat (m : Mat) : Json := ofList ofRats m

/-- `assembled_equation_indices` as the code leaves it: the `assemble(equations=[name])` calls of the
    secondary loop overwrite the primary-block indices stored just before, so that after the call
    the attribute only describes the last secondary equation (if there is one). -/
def indicesAsCoded (req : EqReq) (eqs : List EqLayout) : List (Nat × List Nat) :=
  let secs := (List.range eqs.length).filter (fun k => match req.sel k with | .no => true | _ => false)
  match secs.getLast? with
  | some k => [(k, List.range' 0 (eqSize (eqs.getD k [])))]
  | none => eqIndices req 0 0 eqs

def doSplit (st : St) (j : Json) : R (St × Json) := do
  let form ← fStr j "form"
  let req : EqReq ←
    if form == "list" then EqReq.names <$> fNats j "eqs"
    else EqReq.restricted <$> (field j "eqs" >>= jList (jPair jNat (jList jNat)))
  let items ← field j "vars" >>= jList (jPair jNat (jOpt (jList jNat)))
  let items : List VarItem := items.map (fun p => ⟨p.1, p.2⟩)
  -- _parse_equations
  if !parseOk st.eqs req then return (st, err "ValueError")
  -- _gridbased_equation_complement
  if !complementOk st.eqs req then return (st, err "ValueError")
  let blocks := varBlocks 0 0 st.vars
  let active := parseVars blocks items
  let pcols := primCols active
  if numPrimaryEqs req 0 st.eqs == 0 then return (st, err "AssertionError")
  if pcols.length == 0 then return (st, err "AssertionError")
  let scols := secCols blocks active
  if scols.length == 0 then return (st, err "AssertionError")
  let prows := primRows req 0 0 st.eqs
  let srows := secRows req st.eqs
  -- sps.vstack of an empty list of secondary blocks
  if numSecBlocks req 0 st.eqs == 0 then return (st, err "ValueError")
  if srows.length != scols.length then return (st, err "AssertionError")
  match assembleSplit st.J st.r (totalDofs st.vars) prows srows pcols scols with
  | none => return ({ st with stored := some none, last := none }, obj [("singular", .bool true)])
  | some sp =>
    let out := obj [("S", ofMat sp.S), ("rhs", ofRats sp.rhs), ("bs", ofRats sp.stored.bs),
      ("Asp", ofMat sp.stored.Asp), ("pcols", ofNats pcols), ("scols", ofNats scols),
      ("eqidx", ofList (fun p => Json.arr #[ofNat p.1, ofNats p.2]) (eqIndices req 0 0 st.eqs)),
      ("eqidx_asis", ofList (fun p => Json.arr #[ofNat p.1, ofNats p.2]) (indicesAsCoded req st.eqs))]
    return ({ st with stored := some (some sp.stored), last := some (sp.S, sp.rhs) }, out)

def doExpand (st : St) (j : Json) : R (St × Json) := do
  match st.stored with
  | none => return (st, err "ValueError")
  | some none => return (st, obj [("skip", .str "singular")])
  | some (some s) =>
    if (fieldD j "solve" (.bool false)) == .bool true then
      match st.last with
      | none => return (st, obj [("skip", .str "no reduced system")])
      | some (S, rhs) =>
        match solveReduced S rhs s.pcols.length with
        | none => return (st, obj [("skip", .str "reduced system not square or singular")])
        | some xp => return (st, obj [("X", ofRats (expandStored s xp))])
    else
      let x ← fRats j "x"
      if x.length != s.pcols.length then return (st, err "ValueError")
      return (st, obj [("X", ofRats (expandStored s x))])

def step (st : St) (j : Json) : R (St × Json) := do
  let op ← fStr j "op"
  match op with
  | "layout" =>
    let eqs ← field j "eqs" >>= jList (jList (jPair jNat jNat))
    let vars ← field j "vars" >>= jList jTriple
    pure ({ eqs := eqs, vars := vars }, Json.str "ok")
  | "state" =>
    let J ← fRatss j "J"
    let r ← fRats j "r"
    pure ({ st with J := J, r := r }, Json.str "ok")
  | "split" => doSplit st j
  | "expand" => doExpand st j
  | _ => throw s!"unknown op {op}"

def main : IO Unit := runDriver ({} : St) step
