/-
C07 — property theorems.

Property: for any choice of primary equations (optionally restricted to grids) and primary variables
whose complementary block is square and invertible, solving the reduced (Schur complement) system and
expanding the result gives the same increment as solving the full linearised system.

Part (a): the algebra, with Mathlib matrices over any commutative ring `K` (in particular any field),
for arbitrary finite index types — the primary block need not be square, the inverse `Ainv` is
whatever the inverter returned (only the side of the inverse identity that is needed is assumed).
Part (b): the bookkeeping of `Model.lean` (transcribed from `assemble_schur_complement_system` /
`expand_schur_complement_solution`): the row lists and the column lists are partitions, they give
the bijections part (a) is stated with, and `expand` puts the partial solutions at those indices.
-/
import PorepyVerif.C07.Lemmas
import Mathlib.LinearAlgebra.Matrix.SchurComplement

namespace PorepyVerif.C07

open Matrix

/-! ## (a) algebra -/

section Algebra

variable {K : Type*} [CommRing K]
variable {p q s t : Type*} [Fintype q] [Fintype s] [Fintype t]

/-- `schur_expand_solves`: if `x_p` solves the reduced system `S x_p = b_p − A_ps A_ss⁻¹ b_s` with
    `S = A_pp − A_ps A_ss⁻¹ A_sp`, then `(x_p, x_s)` with `x_s = A_ss⁻¹ (b_s − A_sp x_p)` solves the
    full 2×2 block system.  `Ainv` only has to be a right inverse of `A_ss`. -/
theorem schur_expand_solves [DecidableEq s]
    (App : Matrix p q K) (Aps : Matrix p t K) (Asp : Matrix s q K) (Ass : Matrix s t K)
    (Ainv : Matrix t s K) (bp : p → K) (bs : s → K) (xp : q → K)
    (hR : Ass * Ainv = 1)
    (hS : (App - Aps * Ainv * Asp) *ᵥ xp = bp - (Aps * Ainv) *ᵥ bs) :
    fromBlocks App Aps Asp Ass *ᵥ Sum.elim xp (Ainv *ᵥ (bs - Asp *ᵥ xp)) = Sum.elim bp bs := by
  rw [fromBlocks_mulVec]
  simp only [Sum.elim_comp_inl, Sum.elim_comp_inr]
  congr 1
  · have h := hS
    simp only [sub_mulVec, ← mulVec_mulVec, mulVec_sub] at h ⊢
    rw [sub_eq_sub_iff_add_eq_add] at h
    rw [← sub_eq_zero] at h ⊢
    rw [← h]; abel
  · rw [mulVec_mulVec, hR, one_mulVec]; abel

/-- Converse: every solution `(x_p, x_s)` of the full system solves the reduced system, and its
    secondary part is the one `expand` computes.  `Ainv` only has to be a left inverse of `A_ss`. -/
theorem schur_reduced_of_full [DecidableEq t]
    (App : Matrix p q K) (Aps : Matrix p t K) (Asp : Matrix s q K) (Ass : Matrix s t K)
    (Ainv : Matrix t s K) (bp : p → K) (bs : s → K) (xp : q → K) (xs : t → K)
    (hL : Ainv * Ass = 1)
    (h : fromBlocks App Aps Asp Ass *ᵥ Sum.elim xp xs = Sum.elim bp bs) :
    (App - Aps * Ainv * Asp) *ᵥ xp = bp - (Aps * Ainv) *ᵥ bs ∧ xs = Ainv *ᵥ (bs - Asp *ᵥ xp) := by
  rw [fromBlocks_mulVec] at h
  have h1 : App *ᵥ xp + Aps *ᵥ xs = bp := by
    have := congrArg (fun f => f ∘ Sum.inl) h; simpa using this
  have h2 : Asp *ᵥ xp + Ass *ᵥ xs = bs := by
    have := congrArg (fun f => f ∘ Sum.inr) h; simpa using this
  have hx : xs = Ainv *ᵥ (bs - Asp *ᵥ xp) := by
    rw [← h2, add_sub_cancel_left, mulVec_mulVec, hL, one_mulVec]
  refine ⟨?_, hx⟩
  rw [← h1, ← h2]
  simp only [sub_mulVec, ← mulVec_mulVec, mulVec_add]
  have hxs : Ainv *ᵥ (Ass *ᵥ xs) = xs := by rw [mulVec_mulVec, hL, one_mulVec]
  rw [hxs]
  abel

/-- The statement for the code's situation: `A x = b` is the full system, `er` / `ec` say which row
    (column) of it is the `i`-th primary or secondary row (column) — i.e. the row order of the blocks
    `A_p`, `A_s` and the prolongations `P_pᵀ`, `P_sᵀ`.  The vector `P_pᵀ x_p + P_sᵀ x_s` that
    `expand_schur_complement_solution` returns solves the full system. -/
theorem schur_expand_solves_full [DecidableEq s] {r c : Type*} [Fintype c]
    (A : Matrix r c K) (b : r → K) (er : p ⊕ s ≃ r) (ec : q ⊕ t ≃ c)
    (Ainv : Matrix t s K) (xp : q → K)
    (hR : A.submatrix (er ∘ Sum.inr) (ec ∘ Sum.inr) * Ainv = 1)
    (hS : (A.submatrix (er ∘ Sum.inl) (ec ∘ Sum.inl)
            - A.submatrix (er ∘ Sum.inl) (ec ∘ Sum.inr) * Ainv
              * A.submatrix (er ∘ Sum.inr) (ec ∘ Sum.inl)) *ᵥ xp
          = b ∘ er ∘ Sum.inl
            - (A.submatrix (er ∘ Sum.inl) (ec ∘ Sum.inr) * Ainv) *ᵥ (b ∘ er ∘ Sum.inr)) :
    A *ᵥ (Sum.elim xp (Ainv *ᵥ (b ∘ er ∘ Sum.inr
            - A.submatrix (er ∘ Sum.inr) (ec ∘ Sum.inl) *ᵥ xp)) ∘ ec.symm) = b := by
  have h := schur_expand_solves _ _ _ _ Ainv _ _ xp hR hS
  have hA : fromBlocks (A.submatrix (er ∘ Sum.inl) (ec ∘ Sum.inl))
      (A.submatrix (er ∘ Sum.inl) (ec ∘ Sum.inr))
      (A.submatrix (er ∘ Sum.inr) (ec ∘ Sum.inl))
      (A.submatrix (er ∘ Sum.inr) (ec ∘ Sum.inr)) = A.submatrix er ec := by
    ext i j; rcases i with i | i <;> rcases j with j | j <;> rfl
  rw [hA, submatrix_mulVec_equiv] at h
  have hb : Sum.elim (b ∘ er ∘ Sum.inl) (b ∘ er ∘ Sum.inr) = b ∘ er := by
    ext i; rcases i with i | i <;> rfl
  rw [hb] at h
  funext i
  have := congrFun h (er.symm i)
  simpa using this

end Algebra

section Square

variable {K : Type*} [CommRing K]
variable {p s : Type*} [Fintype p] [Fintype s] [DecidableEq p] [DecidableEq s]

omit [Fintype p] [DecidableEq p] in
/-- `schur_expand_solves` with the nonsingular inverse of a square secondary block. -/
theorem schur_expand_solves_inv {q : Type*} [Fintype q]
    (App : Matrix p q K) (Aps : Matrix p s K) (Asp : Matrix s q K) (Ass : Matrix s s K)
    (bp : p → K) (bs : s → K) (xp : q → K) (hs : IsUnit Ass.det)
    (hS : (App - Aps * Ass⁻¹ * Asp) *ᵥ xp = bp - (Aps * Ass⁻¹) *ᵥ bs) :
    fromBlocks App Aps Asp Ass *ᵥ Sum.elim xp (Ass⁻¹ *ᵥ (bs - Asp *ᵥ xp)) = Sum.elim bp bs :=
  schur_expand_solves App Aps Asp Ass Ass⁻¹ bp bs xp (mul_nonsing_inv _ hs) hS

/-- With an invertible Jacobian and an invertible secondary block the Schur complement is
    invertible: the reduced system has exactly one solution. -/
theorem schur_complement_isUnit
    (App : Matrix p p K) (Aps : Matrix p s K) (Asp : Matrix s p K) (Ass : Matrix s s K)
    (hs : IsUnit Ass.det) (hA : IsUnit (fromBlocks App Aps Asp Ass).det) :
    IsUnit (App - Aps * Ass⁻¹ * Asp).det := by
  let _ := invertibleOfIsUnitDet Ass hs
  rw [det_fromBlocks₂₂, invOf_eq_nonsing_inv] at hA
  exact (IsUnit.mul_iff.mp hA).2

/-- The increments coincide: the expanded solution of the reduced system IS the solution
    `A⁻¹ b` of the full system. -/
theorem schur_increment_eq_full_solve
    (App : Matrix p p K) (Aps : Matrix p s K) (Asp : Matrix s p K) (Ass : Matrix s s K)
    (bp : p → K) (bs : s → K) (xp : p → K)
    (hs : IsUnit Ass.det) (hA : IsUnit (fromBlocks App Aps Asp Ass).det)
    (hS : (App - Aps * Ass⁻¹ * Asp) *ᵥ xp = bp - (Aps * Ass⁻¹) *ᵥ bs) :
    Sum.elim xp (Ass⁻¹ *ᵥ (bs - Asp *ᵥ xp)) = (fromBlocks App Aps Asp Ass)⁻¹ *ᵥ Sum.elim bp bs := by
  have h := schur_expand_solves_inv App Aps Asp Ass bp bs xp hs hS
  rw [← h, mulVec_mulVec, nonsing_inv_mul _ hA, one_mulVec]

/-- … and the reduced solution itself is `S⁻¹ (b_p − A_ps A_ss⁻¹ b_s)`. -/
theorem schur_reduced_solution_unique
    (App : Matrix p p K) (Aps : Matrix p s K) (Asp : Matrix s p K) (Ass : Matrix s s K)
    (bp : p → K) (bs : s → K) (xp : p → K)
    (hs : IsUnit Ass.det) (hA : IsUnit (fromBlocks App Aps Asp Ass).det)
    (hS : (App - Aps * Ass⁻¹ * Asp) *ᵥ xp = bp - (Aps * Ass⁻¹) *ᵥ bs) :
    xp = (App - Aps * Ass⁻¹ * Asp)⁻¹ *ᵥ (bp - (Aps * Ass⁻¹) *ᵥ bs) := by
  rw [← hS, mulVec_mulVec, nonsing_inv_mul _ (schur_complement_isUnit App Aps Asp Ass hs hA),
    one_mulVec]

end Square

section Inverter

variable {K : Type*} [CommRing K]

/-- default inverter, step 3 ("undo the permutations"): if `B` is a right inverse of the permuted
    matrix `A[row_perm, :][:, col_perm]`, then `B` un-permuted is a right inverse of `A`. -/
theorem permuted_inverse {m n m' n' : Type*} [Fintype n] [Fintype n'] [DecidableEq m]
    [DecidableEq m']
    (A : Matrix m n K) (σ : m' ≃ m) (τ : n' ≃ n) (B : Matrix n' m' K)
    (hB : A.submatrix σ τ * B = 1) : A * B.submatrix τ.symm σ.symm = 1 := by
  have : A = (A.submatrix σ τ).submatrix σ.symm τ.symm := by simp
  rw [this, submatrix_mul_equiv, hB, submatrix_one_equiv]

/-- default inverter, step 2: a block-diagonal matrix (blocks of arbitrary, different sizes) is
    inverted block by block. -/
theorem block_diagonal_inverse {o : Type*} [Fintype o] [DecidableEq o] {m' n' : o → Type*}
    [∀ k, Fintype (m' k)] [∀ k, Fintype (n' k)] [∀ k, DecidableEq (m' k)]
    (M : ∀ k, Matrix (m' k) (n' k) K) (N : ∀ k, Matrix (n' k) (m' k) K)
    (h : ∀ k, M k * N k = 1) :
    blockDiagonal' M * blockDiagonal' N = 1 := by
  rw [← blockDiagonal'_mul]
  simp only [h]
  exact blockDiagonal'_one

/-- The default inverter as a whole: if the permutations bring `A` to block-diagonal form and every
    block is inverted, the un-permuted block inverse is a right inverse of `A` — which is all
    `schur_expand_solves_full` needs. -/
theorem default_inverter_correct {m n o : Type*} [Fintype n] [DecidableEq m] [Fintype o]
    [DecidableEq o] {m' n' : o → Type*} [∀ k, Fintype (m' k)] [∀ k, Fintype (n' k)]
    [∀ k, DecidableEq (m' k)]
    (A : Matrix m n K) (σ : (Σ k, m' k) ≃ m) (τ : (Σ k, n' k) ≃ n)
    (M : ∀ k, Matrix (m' k) (n' k) K) (N : ∀ k, Matrix (n' k) (m' k) K)
    (hperm : A.submatrix σ τ = blockDiagonal' M) (h : ∀ k, M k * N k = 1) :
    A * (blockDiagonal' N).submatrix τ.symm σ.symm = 1 :=
  permuted_inverse A σ τ _ (by rw [hperm]; exact block_diagonal_inverse M N h)

end Inverter

/-! ### non-vacuity of part (a): a concrete 2×2 system over ℚ

`[[3,1],[2,2]] (x_p, x_s) = (5, 4)`: `S = 2`, `rhs_S = 3`, `x_p = 3/2`, `x_s = 1/2`. -/
example :
    let App : Matrix (Fin 1) (Fin 1) ℚ := !![3]
    let Aps : Matrix (Fin 1) (Fin 1) ℚ := !![1]
    let Asp : Matrix (Fin 1) (Fin 1) ℚ := !![2]
    let Ass : Matrix (Fin 1) (Fin 1) ℚ := !![2]
    let Ainv : Matrix (Fin 1) (Fin 1) ℚ := !![1 / 2]
    Ass * Ainv = 1 ∧ Ainv * Ass = 1 ∧ IsUnit Ass.det ∧ IsUnit (fromBlocks App Aps Asp Ass).det ∧
      (App - Aps * Ainv * Asp) *ᵥ ![3 / 2] = ![5] - (Aps * Ainv) *ᵥ ![4] ∧
      Ainv *ᵥ (![4] - Asp *ᵥ ![3 / 2]) = ![1 / 2] := by
  intro App Aps Asp Ass Ainv
  refine ⟨?_, ?_, ?_, ?_, ?_, ?_⟩
  · ext i j; fin_cases i; fin_cases j; simp [Ass, Ainv, Matrix.mul_apply]
  · ext i j; fin_cases i; fin_cases j; simp [Ass, Ainv, Matrix.mul_apply]
  · simp [Ass]
  · have hR : Ass * Ainv = 1 := by
      ext i j; fin_cases i; fin_cases j; simp [Ass, Ainv, Matrix.mul_apply]
    let _ : Invertible Ass := invertibleOfRightInverse Ass Ainv hR
    have hinv : ⅟Ass = Ainv := invOf_eq_right_inv hR
    rw [det_fromBlocks₂₂, hinv]
    simp [App, Aps, Asp, Ass, Ainv]; norm_num
  · ext i; fin_cases i
    simp [App, Aps, Asp, Ainv, Matrix.mulVec, dotProduct]; norm_num
  · ext i; fin_cases i
    simp [Asp, Ainv, Matrix.mulVec, dotProduct]; norm_num

/-! ## (b) bookkeeping -/

/-- `row_split_is_partition`: for EVERY equation layout and EVERY request (names or grid-restricted
    dict, also empty / unknown / repeated entries), the rows of the primary block followed by the
    rows of the secondary block (excluded primary rows first, then the secondary equations) are a
    permutation of all rows of the full system: the two sets are disjoint and cover every row. -/
theorem row_split_is_partition (req : EqReq) (eqs : List EqLayout) :
    (primRows req 0 0 eqs ++ secRows req eqs).Perm (List.range (totalRows eqs)) := by
  rw [List.range_eq_range']
  exact rows_partition_aux req eqs 0 0

/-- the same, spelled out: no row twice, and a row number occurs iff it is a row of the system -/
theorem row_split_disjoint_cover (req : EqReq) (eqs : List EqLayout) :
    (primRows req 0 0 eqs ++ secRows req eqs).Nodup ∧
      (∀ i, i ∈ primRows req 0 0 eqs ++ secRows req eqs ↔ i < totalRows eqs) ∧
      (primRows req 0 0 eqs).length + (secRows req eqs).length = totalRows eqs := by
  have h := row_split_is_partition req eqs
  refine ⟨h.nodup_iff.mpr List.nodup_range, fun i => ?_, ?_⟩
  · rw [h.mem_iff, List.mem_range]
  · simpa using h.length_eq

/-- `col_split_is_partition`: if the parsed list of primary variables names no variable twice
    (`_parse_variable_type` does not uniquify), primary and secondary columns — each sorted, as
    `projection_to` does — are a permutation of all dofs. -/
theorem col_split_is_partition (vars : List Var) (items : List VarItem)
    (hnd : ((parseVars (varBlocks 0 0 vars) items).map (·.idx)).Nodup) :
    (primCols (parseVars (varBlocks 0 0 vars) items)
      ++ secCols (varBlocks 0 0 vars) (parseVars (varBlocks 0 0 vars) items)).Perm
      (List.range (totalDofs vars)) := by
  have hb : ((varBlocks 0 0 vars).map (·.idx)).Nodup := by
    rw [idx_varBlocks]; exact List.nodup_range' (s := 0) (n := vars.length)
  have h := blocks_partition _ _ hb hnd (parseVars_subset _ items)
  have h2 := dofsOf_perm h
  rw [dofsOf_append, dofsOf_varBlocks, ← List.range_eq_range'] at h2
  exact ((isort_perm _).append (isort_perm _)).trans h2

/-- A split into two index lists that together are a permutation of `0..n-1` is exactly a bijection
    `primary positions ⊕ secondary positions ≃ rows` — the `er` / `ec` of
    `schur_expand_solves_full` — sending position `i` of a block to the listed index. -/
theorem split_gives_equiv (p s : List Nat) (n : Nat) (h : (p ++ s).Perm (List.range n)) :
    ∃ e : Fin p.length ⊕ Fin s.length ≃ Fin n,
      (∀ i : Fin p.length, (e (Sum.inl i) : Nat) = p[i]) ∧
      (∀ j : Fin s.length, (e (Sum.inr j) : Nat) = s[j]) := by
  have hlt : ∀ x ∈ p ++ s, x < n := fun x hx => List.mem_range.mp (h.subset hx)
  have hnd : (p ++ s).Nodup := h.nodup_iff.mpr List.nodup_range
  have hlen : p.length + s.length = n := by simpa using h.length_eq
  obtain ⟨hp, hs, hd⟩ := List.nodup_append.mp hnd
  let f : Fin p.length ⊕ Fin s.length → Fin n :=
    Sum.elim (fun i => ⟨p[i], hlt _ (List.mem_append_left _ (List.getElem_mem _))⟩)
      (fun j => ⟨s[j], hlt _ (List.mem_append_right _ (List.getElem_mem _))⟩)
  have hinj : Function.Injective f := by
    rintro (a | a) (b | b) hab <;>
      simp only [f, Sum.elim_inl, Sum.elim_inr, Fin.mk.injEq] at hab
    · exact congrArg Sum.inl (Fin.ext (hp.getElem_inj_iff.mp hab))
    · exact absurd hab (hd _ (List.getElem_mem _) _ (List.getElem_mem _))
    · exact absurd hab.symm (hd _ (List.getElem_mem _) _ (List.getElem_mem _))
    · exact congrArg Sum.inr (Fin.ext (hs.getElem_inj_iff.mp hab))
  have hbij : Function.Bijective f :=
    (Fintype.bijective_iff_injective_and_card f).mpr ⟨hinj, by simp [hlen]⟩
  exact ⟨Equiv.ofBijective f hbij, fun _ => rfl, fun _ => rfl⟩

/-- `expand_places`: `X = P_pᵀ x_p + P_sᵀ x_s` has `x_p[i]` at dof `pcols[i]`, `x_s[i]` at dof
    `scols[i]`, and length `num_dofs`. -/
theorem expand_places (n : Nat) (pcols scols : List Nat) (xp xs : List Rat)
    (h : (pcols ++ scols).Perm (List.range n))
    (hp : xp.length = pcols.length) (hs : xs.length = scols.length) :
    (expand n pcols scols xp xs).length = n ∧
      (∀ i j : Nat, pcols[i]? = some j → (expand n pcols scols xp xs)[j]? = xp[i]?) ∧
      (∀ i j : Nat, scols[i]? = some j → (expand n pcols scols xp xs)[j]? = xs[i]?) := by
  have hnd : (pcols ++ scols).Nodup := h.nodup_iff.mpr List.nodup_range
  obtain ⟨hpn, hsn, hd⟩ := List.nodup_append.mp hnd
  have hlt : ∀ x ∈ pcols ++ scols, x < n := fun x hx => List.mem_range.mp (h.subset hx)
  refine ⟨by simp [expand], fun i j hj => ?_, fun i j hj => ?_⟩
  · have hm : j ∈ pcols := List.mem_of_getElem? hj
    have hjn : j < n := hlt j (List.mem_append_left _ hm)
    have h0 : scatterAt scols xs j = 0 :=
      scatterAt_not_mem scols xs j (fun hm' => hd j hm j hm' rfl)
    simp only [expand, List.getElem?_map, List.getElem?_range hjn, Option.map_some, h0,
      Rat.add_zero]
    exact scatterAt_get pcols xp i j hpn hp hj
  · have hm : j ∈ scols := List.mem_of_getElem? hj
    have hjn : j < n := hlt j (List.mem_append_right _ hm)
    have h0 : scatterAt pcols xp j = 0 :=
      scatterAt_not_mem pcols xp j (fun hm' => hd j hm' j hm rfl)
    simp only [expand, List.getElem?_map, List.getElem?_range hjn, Option.map_some, h0,
      Rat.zero_add]
    exact scatterAt_get scols xs i j hsn hs hj

/-- End to end: for every layout, every equation request and every duplicate-free variable request, the
    model's row lists and column lists ARE bijections `er`, `ec` (position `i` of a block ↦ the listed
    row / dof), and for every full system `A x = b` of that shape, every right inverse `Ainv` of the
    secondary block and every solution `x_p` of the reduced system, the expanded vector solves
    `A x = b`. -/
theorem model_split_solves {K : Type*} [CommRing K] (req : EqReq) (eqs : List EqLayout)
    (vars : List Var) (items : List VarItem)
    (hnd : ((parseVars (varBlocks 0 0 vars) items).map (·.idx)).Nodup) :
    ∃ (er : Fin (primRows req 0 0 eqs).length ⊕ Fin (secRows req eqs).length ≃ Fin (totalRows eqs))
      (ec : Fin (primCols (parseVars (varBlocks 0 0 vars) items)).length
            ⊕ Fin (secCols (varBlocks 0 0 vars) (parseVars (varBlocks 0 0 vars) items)).length
          ≃ Fin (totalDofs vars)),
      (∀ i, (er (Sum.inl i) : Nat) = (primRows req 0 0 eqs)[i]) ∧
      (∀ i, (er (Sum.inr i) : Nat) = (secRows req eqs)[i]) ∧
      (∀ i, (ec (Sum.inl i) : Nat) = (primCols (parseVars (varBlocks 0 0 vars) items))[i]) ∧
      (∀ i, (ec (Sum.inr i) : Nat)
        = (secCols (varBlocks 0 0 vars) (parseVars (varBlocks 0 0 vars) items))[i]) ∧
      ∀ (A : Matrix (Fin (totalRows eqs)) (Fin (totalDofs vars)) K) (b : Fin (totalRows eqs) → K)
        (Ainv : Matrix _ _ K) (xp : _ → K),
        A.submatrix (er ∘ Sum.inr) (ec ∘ Sum.inr) * Ainv = 1 →
        (A.submatrix (er ∘ Sum.inl) (ec ∘ Sum.inl)
            - A.submatrix (er ∘ Sum.inl) (ec ∘ Sum.inr) * Ainv
              * A.submatrix (er ∘ Sum.inr) (ec ∘ Sum.inl)) *ᵥ xp
          = b ∘ er ∘ Sum.inl
            - (A.submatrix (er ∘ Sum.inl) (ec ∘ Sum.inr) * Ainv) *ᵥ (b ∘ er ∘ Sum.inr) →
        A *ᵥ (Sum.elim xp (Ainv *ᵥ (b ∘ er ∘ Sum.inr
            - A.submatrix (er ∘ Sum.inr) (ec ∘ Sum.inl) *ᵥ xp)) ∘ ec.symm) = b := by
  obtain ⟨er, h1, h2⟩ := split_gives_equiv _ _ _ (row_split_is_partition req eqs)
  obtain ⟨ec, h3, h4⟩ := split_gives_equiv _ _ _ (col_split_is_partition vars items hnd)
  exact ⟨er, ec, h1, h2, h3, h4, fun A b Ainv xp hR hS =>
    schur_expand_solves_full A b er ec Ainv xp hR hS⟩

/-! ### the model's arithmetic solves the full system (no run-time hypothesis)

`toM a b L` / `toV a v` read a list of rows / a list as an `a × b` Mathlib matrix / a vector over ℚ.
The inverses are computed by `C37.inverse` (exact Gauss–Jordan), which is proved in C37's lemmas to
return a left inverse whenever it returns anything; `inverse_toM` turns that into a two-sided
Mathlib inverse. -/

theorem split_gives_equiv' (p s : List Nat) (n a b : Nat) (hp : p.length = a) (hs : s.length = b)
    (h : (p ++ s).Perm (List.range n)) :
    ∃ e : Fin a ⊕ Fin b ≃ Fin n,
      (∀ i : Fin a, (e (Sum.inl i) : Nat) = p.getD i 0) ∧
      (∀ j : Fin b, (e (Sum.inr j) : Nat) = s.getD j 0) := by
  subst hp; subst hs
  obtain ⟨e, h1, h2⟩ := split_gives_equiv p s n h
  exact ⟨e, fun i => by simp [h1 i], fun j => by simp [h2 j]⟩

theorem toV_expand (n a b : Nat) (pcols scols : List Nat) (xp xs : Vec)
    (hpa : pcols.length = a) (hsb : scols.length = b)
    (h : (pcols ++ scols).Perm (List.range n)) (hp : xp.length = a) (hs : xs.length = b)
    (ec : Fin a ⊕ Fin b ≃ Fin n)
    (h1 : ∀ i : Fin a, (ec (Sum.inl i) : Nat) = pcols.getD i 0)
    (h2 : ∀ j : Fin b, (ec (Sum.inr j) : Nat) = scols.getD j 0) :
    toV n (expand n pcols scols xp xs) = Sum.elim (toV a xp) (toV b xs) ∘ ec.symm := by
  subst hpa; subst hsb
  obtain ⟨_, hP, hS⟩ := expand_places n pcols scols xp xs h hp hs
  funext c
  obtain ⟨y, rfl⟩ := ec.surjective c
  simp only [Function.comp_apply, Equiv.symm_apply_apply, toV]
  rcases y with i | j
  · have hi : pcols[(i : Nat)]? = some (ec (Sum.inl i) : Nat) := by
      rw [h1 i]; simp
    have := hP i _ hi
    simp [List.getD_eq_getElem?_getD, this, toV]
  · have hj : scols[(j : Nat)]? = some (ec (Sum.inr j) : Nat) := by
      rw [h2 j]; simp
    have := hS j _ hj
    simp [List.getD_eq_getElem?_getD, this, toV]

/-- core of the end-to-end statement, with the block sizes as variables -/
theorem schurSolve_core (J : Mat) (r : Vec) (nr nc np ns : Nat)
    (prows srows pcols scols : List Nat)
    (hpr : prows.length = np) (hpc : pcols.length = np)
    (hsr : srows.length = ns) (hsc : scols.length = ns)
    (hrow : (prows ++ srows).Perm (List.range nr)) (hcol : (pcols ++ scols).Perm (List.range nc))
    (inv Sinv : Mat)
    (hinv : C37.inverse (blocksOf J r prows srows pcols scols).Ass = some inv)
    (hSinv : C37.inverse (reduced (blocksOf J r prows srows pcols scols) inv np ns).1 = some Sinv) :
    toM nr nc J *ᵥ toV nc (expandStored
        ⟨inv, (blocksOf J r prows srows pcols scols).bs, (blocksOf J r prows srows pcols scols).Asp,
          pcols, scols, nc⟩
        (mulVec Sinv (reduced (blocksOf J r prows srows pcols scols) inv np ns).2)) = toV nr r := by
  obtain ⟨er, her1, her2⟩ := split_gives_equiv' prows srows nr np ns hpr hsr hrow
  obtain ⟨ec, hec1, hec2⟩ := split_gives_equiv' pcols scols nc np ns hpc hsc hcol
  -- the blocks
  have eApp : (blocksOf J r prows srows pcols scols).App = pickCols (pickRows J prows) pcols := rfl
  have eAps : (blocksOf J r prows srows pcols scols).Aps = pickCols (pickRows J prows) scols := rfl
  have eAsp : (blocksOf J r prows srows pcols scols).Asp = pickCols (pickRows J srows) pcols := rfl
  have eAss : (blocksOf J r prows srows pcols scols).Ass = pickCols (pickRows J srows) scols := rfl
  have ebp : (blocksOf J r prows srows pcols scols).bp = pick r prows := rfl
  have ebs : (blocksOf J r prows srows pcols scols).bs = pick r srows := rfl
  generalize (blocksOf J r prows srows pcols scols) = b at *
  have shApp : Shape np np b.App := eApp ▸ shape_pick' J prows pcols np np hpr hpc
  have shAps : Shape np ns b.Aps := eAps ▸ shape_pick' J prows scols np ns hpr hsc
  have shAsp : Shape ns np b.Asp := eAsp ▸ shape_pick' J srows pcols ns np hsr hpc
  have shAss : Shape ns ns b.Ass := eAss ▸ shape_pick' J srows scols ns ns hsr hsc
  have lbp : b.bp.length = np := by rw [ebp, length_pick, hpr]
  have lbs : b.bs.length = ns := by rw [ebs, length_pick, hsr]
  -- the blocks as sub-matrices of the full system
  have hPP : (toM nr nc J).submatrix (er ∘ Sum.inl) (ec ∘ Sum.inl) = toM np np b.App := by
    ext i j; rw [eApp, toM_pick J prows pcols np np hpr hpc]; simp [toM, her1, hec1]
  have hPS : (toM nr nc J).submatrix (er ∘ Sum.inl) (ec ∘ Sum.inr) = toM np ns b.Aps := by
    ext i j; rw [eAps, toM_pick J prows scols np ns hpr hsc]; simp [toM, her1, hec2]
  have hSP : (toM nr nc J).submatrix (er ∘ Sum.inr) (ec ∘ Sum.inl) = toM ns np b.Asp := by
    ext i j; rw [eAsp, toM_pick J srows pcols ns np hsr hpc]; simp [toM, her2, hec1]
  have hSS : (toM nr nc J).submatrix (er ∘ Sum.inr) (ec ∘ Sum.inr) = toM ns ns b.Ass := by
    ext i j; rw [eAss, toM_pick J srows scols ns ns hsr hsc]; simp [toM, her2, hec2]
  have hbP : toV nr r ∘ er ∘ Sum.inl = toV np b.bp := by
    funext i; rw [ebp, toV_pick r prows np hpr]; simp [toV, her1]
  have hbS : toV nr r ∘ er ∘ Sum.inr = toV ns b.bs := by
    funext i; rw [ebs, toV_pick r srows ns hsr]; simp [toV, her2]
  -- the inverse of the secondary block
  obtain ⟨hR, _⟩ := inverse_toM b.Ass inv ns ns shAss.1 shAss.1 hinv
  obtain ⟨linv, rinv⟩ := C37.inverse_length b.Ass inv hinv
  rw [shAss.1] at linv rinv
  have shinv : Shape ns ns inv := ⟨linv, rinv⟩
  -- the reduced system
  have shAI : Shape np ns (matMul b.Aps inv ns) :=
    ⟨by rw [(shape_matMul b.Aps inv ns).1, shAps.1], (shape_matMul b.Aps inv ns).2⟩
  have shAIA : Shape np np (matMul (matMul b.Aps inv ns) b.Asp np) :=
    ⟨by rw [(shape_matMul _ b.Asp np).1, shAI.1], (shape_matMul _ b.Asp np).2⟩
  obtain ⟨mS, mrhs⟩ := reduced_toM b inv np np ns shApp shAps lbp
  have lS : (reduced b inv np ns).1.length = np := by
    show (msub b.App (matMul (matMul b.Aps inv ns) b.Asp np)).length = np
    rw [length_msub _ _ (by rw [shApp.1, shAIA.1]), shApp.1]
  -- its solution
  obtain ⟨hSR, _⟩ := inverse_toM _ Sinv np np lS lS hSinv
  obtain ⟨lSinv, rSinv⟩ := C37.inverse_length _ Sinv hSinv
  rw [lS] at lSinv rSinv
  have mxp : toV np (mulVec Sinv (reduced b inv np ns).2)
      = toM np np Sinv *ᵥ toV np (reduced b inv np ns).2 :=
    toV_mulVec np np Sinv _ (fun row h => le_of_eq (rSinv row h))
  have hSx : toM np np (reduced b inv np ns).1 *ᵥ toV np (mulVec Sinv (reduced b inv np ns).2)
      = toV np (reduced b inv np ns).2 := by
    rw [mxp, mulVec_mulVec, hSR, one_mulVec]
  generalize hxp : mulVec Sinv (reduced b inv np ns).2 = xp at *
  have lxp : xp.length = np := by rw [← hxp, length_mulVec, lSinv]
  -- the expansion
  have mxs : toV ns (mulVec inv (vsub b.bs (mulVec b.Asp xp)))
      = toM ns ns inv *ᵥ (toV ns b.bs - toM ns np b.Asp *ᵥ toV np xp) := by
    rw [toV_mulVec ns ns inv _ (shape_le shinv),
      toV_vsub ns _ _ (by rw [lbs, length_mulVec, shAsp.1]),
      toV_mulVec ns np b.Asp xp (shape_le shAsp)]
  have lxs : (mulVec inv (vsub b.bs (mulVec b.Asp xp))).length = ns := by
    rw [length_mulVec, linv]
  have hX := toV_expand nc np ns pcols scols xp _ hpc hsc hcol lxp lxs ec hec1 hec2
  show toM nr nc J *ᵥ toV nc (expand nc pcols scols xp (mulVec inv (vsub b.bs (mulVec b.Asp xp)))) = _
  rw [hX, mxs]
  have key := schur_expand_solves_full (toM nr nc J) (toV nr r) er ec (toM ns ns inv) (toV np xp)
    (by rw [hSS]; exact hR)
    (by rw [hPP, hPS, hSP, hbP, hbS, ← mS, ← mrhs]; exact hSx)
  rw [hbS, hSP] at key
  exact key

theorem length_reduced (J : Mat) (r : Vec) (prows srows pcols scols : List Nat) (inv : Mat) (np ns : Nat) :
    (reduced (blocksOf J r prows srows pcols scols) inv np ns).1.length = prows.length := by
  simp [reduced, msub, matMul, blocksOf, pickCols, pickRows]

/-- `schurSolve_solves_full`: whenever the model answers — i.e. both exact eliminations succeed —
    the expanded vector solves the full system `J X = r`.  No invertibility hypothesis, no
    run-time certificate: only that the row lists and the column lists are partitions (which
    `row_split_is_partition` / `col_split_is_partition` prove for the lists of the model). -/
theorem schurSolve_solves_full (J : Mat) (r : Vec) (nr nc : Nat)
    (prows srows pcols scols : List Nat) (X : Vec)
    (hrow : (prows ++ srows).Perm (List.range nr)) (hcol : (pcols ++ scols).Perm (List.range nc))
    (h : schurSolve J r nc prows srows pcols scols = some X) :
    toM nr nc J *ᵥ toV nc X = toV nr r := by
  unfold schurSolve at h
  split at h
  · cases h
  rename_i sp hsp
  split at h
  · cases h
  rename_i xp hxp
  simp only [Option.some.injEq] at h
  subst h
  unfold assembleSplit at hsp
  split at hsp
  · cases hsp
  rename_i hsq
  simp only at hsp
  split at hsp
  · cases hsp
  rename_i inv hinv
  simp only [Option.some.injEq] at hsp
  subst hsp
  unfold solveReduced at hxp
  simp only at hxp
  split at hxp
  · cases hxp
  rename_i hsq2
  split at hxp
  · cases hxp
  rename_i Sinv hSinv
  simp only [Option.some.injEq] at hxp
  subst hxp
  have hs : srows.length = scols.length := by simpa using hsq
  have hp : prows.length = pcols.length := by
    have : (reduced (blocksOf J r prows srows pcols scols) inv pcols.length scols.length).1.length
        = pcols.length := by simpa using hsq2
    rw [length_reduced] at this; exact this
  exact schurSolve_core J r nr nc pcols.length scols.length prows srows pcols scols hp rfl hs rfl
    hrow hcol inv Sinv hinv hSinv

/-- … and if the full Jacobian is square and invertible, the model's answer IS the full solve
    `J⁻¹ r`: the increments coincide. -/
theorem schurSolve_eq_full_solve (J : Mat) (r : Vec) (n : Nat)
    (prows srows pcols scols : List Nat) (X : Vec)
    (hrow : (prows ++ srows).Perm (List.range n)) (hcol : (pcols ++ scols).Perm (List.range n))
    (hJ : IsUnit (toM n n J).det)
    (h : schurSolve J r n prows srows pcols scols = some X) :
    toV n X = (toM n n J)⁻¹ *ᵥ toV n r := by
  rw [← schurSolve_solves_full J r n n prows srows pcols scols X hrow hcol h, mulVec_mulVec,
    nonsing_inv_mul _ hJ, one_mulVec]

/-- The reduced system the model answers IS the Schur complement system: whenever `assembleSplit`
    answers, the secondary block is square and invertible (as a Mathlib matrix), the stored
    inverse is its inverse, and `S = A_pp − A_ps A_ss⁻¹ A_sp`, `rhs_S = b_p − A_ps A_ss⁻¹ b_s`. -/
theorem assembleSplit_reduced (J : Mat) (r : Vec) (n : Nat) (prows srows pcols scols : List Nat)
    (sp : SplitResult) (h : assembleSplit J r n prows srows pcols scols = some sp) :
    srows.length = scols.length ∧
    IsUnit (toM scols.length scols.length (blocksOf J r prows srows pcols scols).Ass).det ∧
    toM scols.length scols.length sp.stored.inv
      = (toM scols.length scols.length (blocksOf J r prows srows pcols scols).Ass)⁻¹ ∧
    toM prows.length pcols.length sp.S
      = toM prows.length pcols.length (blocksOf J r prows srows pcols scols).App
        - toM prows.length scols.length (blocksOf J r prows srows pcols scols).Aps
          * (toM scols.length scols.length (blocksOf J r prows srows pcols scols).Ass)⁻¹
          * toM scols.length pcols.length (blocksOf J r prows srows pcols scols).Asp ∧
    toV prows.length sp.rhs
      = toV prows.length (blocksOf J r prows srows pcols scols).bp
        - (toM prows.length scols.length (blocksOf J r prows srows pcols scols).Aps
            * (toM scols.length scols.length (blocksOf J r prows srows pcols scols).Ass)⁻¹)
          *ᵥ toV scols.length (blocksOf J r prows srows pcols scols).bs := by
  unfold assembleSplit at h
  split at h
  · cases h
  rename_i hsq
  simp only at h
  split at h
  · cases h
  rename_i inv hinv
  simp only [Option.some.injEq] at h
  subst h
  have hs : srows.length = scols.length := by simpa using hsq
  have shAss : Shape scols.length scols.length (blocksOf J r prows srows pcols scols).Ass :=
    shape_pick' J srows scols _ _ hs rfl
  obtain ⟨hR, hL⟩ := inverse_toM _ inv scols.length scols.length shAss.1 shAss.1 hinv
  have hinvEq := (Matrix.inv_eq_right_inv hR).symm
  obtain ⟨mS, mrhs⟩ := reduced_toM (blocksOf J r prows srows pcols scols) inv prows.length
    pcols.length scols.length (shape_pick' J prows pcols _ _ rfl rfl)
    (shape_pick' J prows scols _ _ rfl rfl) (length_pick r prows)
  refine ⟨hs, ?_, hinvEq, ?_, ?_⟩
  · exact (Matrix.isUnit_iff_isUnit_det _).mp ⟨⟨_, _, hR, hL⟩, rfl⟩
  · rw [← hinvEq]; exact mS
  · rw [← hinvEq]; exact mrhs

/-- End to end on the model's own bookkeeping: for every layout, every equation request and every
    duplicate-free variable request, whenever the model answers a solution for a full system `J, r`,
    that solution solves `J X = r`. -/
theorem model_schurSolve_solves_full (req : EqReq) (eqs : List EqLayout) (vars : List Var)
    (items : List VarItem) (J : Mat) (r X : Vec)
    (hnd : ((parseVars (varBlocks 0 0 vars) items).map (·.idx)).Nodup)
    (h : schurSolve J r (totalDofs vars) (primRows req 0 0 eqs) (secRows req eqs)
        (primCols (parseVars (varBlocks 0 0 vars) items))
        (secCols (varBlocks 0 0 vars) (parseVars (varBlocks 0 0 vars) items)) = some X) :
    toM (totalRows eqs) (totalDofs vars) J *ᵥ toV (totalDofs vars) X = toV (totalRows eqs) r :=
  schurSolve_solves_full J r _ _ _ _ _ _ X (row_split_is_partition req eqs)
    (col_split_is_partition vars items hnd) h

/-- non-vacuity: the model answers on the 2×2 system of part (a), with the answer computed there -/
example : schurSolve [[3, 1], [2, 2]] [5, 4] 2 [0] [1] [0] [1] = some [3 / 2, 1 / 2] := by
  decide +kernel

/-! ### histories of calls on one instance -/

/-- decidable input condition on one call: a split names no variable twice -/
def opOK (vars : List Var) : MOp → Prop
  | .split _ items _ => ((parseVars (varBlocks 0 0 vars) items).map (·.idx)).Nodup
  | _ => True

/-- invariant of the instance: whatever is stored was assembled, by the model's `assembleSplit`, from the
    ghost system `sysAt` with row / column lists that are partitions -/
def StoredInv (eqs : List EqLayout) (vars : List Var) (st : MState) : Prop :=
  ∀ s S rhs, st.stored = some (some s) → st.last = some (S, rhs) →
    ∃ prows srows, (prows ++ srows).Perm (List.range (totalRows eqs)) ∧
      (s.pcols ++ s.scols).Perm (List.range (totalDofs vars)) ∧
      assembleSplit st.sysAt.1 st.sysAt.2 (totalDofs vars) prows srows s.pcols s.scols
        = some ⟨S, rhs, s⟩

theorem splitLists_ok (eqs : List EqLayout) (vars : List Var) (req : EqReq) (items : List VarItem)
    (a b c d : List Nat) (h : splitLists eqs vars req items = .ok (a, b, c, d)) :
    a = primRows req 0 0 eqs ∧ b = secRows req eqs ∧
      c = primCols (parseVars (varBlocks 0 0 vars) items) ∧
      d = secCols (varBlocks 0 0 vars) (parseVars (varBlocks 0 0 vars) items) := by
  unfold splitLists at h
  iterate 7 (split at h; · simp at h)
  simp only [Except.ok.injEq, Prod.mk.injEq] at h
  obtain ⟨h1, h2, h3, h4⟩ := h
  exact ⟨h1.symm, h2.symm, h3.symm, h4.symm⟩

theorem assembleSplit_cols (J : Mat) (r : Vec) (n : Nat) (prows srows pcols scols : List Nat)
    (sp : SplitResult) (h : assembleSplit J r n prows srows pcols scols = some sp) :
    sp.stored.pcols = pcols ∧ sp.stored.scols = scols := by
  unfold assembleSplit at h
  split at h
  · cases h
  simp only at h
  split at h
  · cases h
  simp only [Option.some.injEq] at h
  subst h
  exact ⟨rfl, rfl⟩

theorem storedInv_step (eqs : List EqLayout) (vars : List Var) (st : MState) (op : MOp)
    (hinv : StoredInv eqs vars st) (hop : opOK vars op) :
    StoredInv eqs vars (mstep eqs vars st op).1 := by
  cases op with
  | setSystem J r => exact hinv
  | expandSolve =>
    simp only [mstep]
    repeat' split
    all_goals exact hinv
  | expand x =>
    simp only [mstep]
    repeat' split
    all_goals exact hinv
  | split req items sys =>
    simp only [mstep]
    split
    · exact hinv
    · rename_i prows srows pcols scols hl
      obtain ⟨rfl, rfl, rfl, rfl⟩ := splitLists_ok eqs vars req items _ _ _ _ hl
      split
      · intro s S rhs h1 _
        simp at h1
      · rename_i sp hsp
        intro s S rhs h1 h2
        simp only [Option.some.injEq] at h1 h2
        obtain ⟨hc1, hc2⟩ := assembleSplit_cols _ _ _ _ _ _ _ sp hsp
        subst h1
        refine ⟨primRows req 0 0 eqs, secRows req eqs, row_split_is_partition req eqs, ?_, ?_⟩
        · rw [hc1, hc2]; exact col_split_is_partition vars items hop
        · simp only
          rw [hc1, hc2, hsp]
          cases sp
          simp only [Prod.mk.injEq] at h2
          obtain ⟨rfl, rfl⟩ := h2
          rfl

theorem storedInv_run (eqs : List EqLayout) (vars : List Var) (ops : List MOp) (st : MState)
    (hinv : StoredInv eqs vars st) (hok : ∀ op ∈ ops, opOK vars op) :
    StoredInv eqs vars (mrun eqs vars st ops) := by
  induction ops generalizing st with
  | nil => exact hinv
  | cons op ops ih =>
    exact ih _ (storedInv_step eqs vars st op hinv (hok op List.mem_cons_self))
      (fun o ho => hok o (List.mem_cons_of_mem _ ho))

/-- `history_expand_solves`: for EVERY history of calls on one instance (new iterates, splits of any
    kind with or without `state` argument, failing splits, expansions), whatever "solve the reduced
    system of the last successful assembly and expand" answers solves the full system that assembly
    was made from — the stored Schur data is never mixed with another state or another split. -/
theorem history_expand_solves (eqs : List EqLayout) (vars : List Var) (ops : List MOp)
    (hok : ∀ op ∈ ops, opOK vars op) (X : Vec)
    (h : (mstep eqs vars (mrun eqs vars MState.init ops) .expandSolve).2 = .vec X) :
    toM (totalRows eqs) (totalDofs vars) (mrun eqs vars MState.init ops).sysAt.1
        *ᵥ toV (totalDofs vars) X
      = toV (totalRows eqs) (mrun eqs vars MState.init ops).sysAt.2 := by
  have hinv : StoredInv eqs vars (mrun eqs vars MState.init ops) :=
    storedInv_run eqs vars ops _ (by intro s S rhs h1 _; simp [MState.init] at h1) hok
  generalize mrun eqs vars MState.init ops = st at *
  simp only [mstep] at h
  split at h
  all_goals try (simp at h)
  rename_i s S rhs hs hl
  split at h
  · simp at h
  rename_i xp hxp
  simp only [MOut.vec.injEq] at h
  subst h
  obtain ⟨prows, srows, hrow, hcol, hasm⟩ := hinv s S rhs hs hl
  apply schurSolve_solves_full _ _ _ _ prows srows s.pcols s.scols _ hrow hcol
  unfold schurSolve
  rw [hasm]
  simp only
  rw [hxp]

/-- error branches: a failing `assemble_schur_complement_system` changes nothing -/
theorem failed_split_keeps_state (eqs : List EqLayout) (vars : List Var) (st : MState)
    (req : EqReq) (items : List VarItem) (sys : Option (Mat × Vec)) (e : SplitErr)
    (h : (mstep eqs vars st (.split req items sys)).2 = .splitErr e) :
    (mstep eqs vars st (.split req items sys)).1 = st := by
  simp only [mstep] at h ⊢
  split
  · rfl
  · rename_i hl
    simp only [hl] at h
    split at h <;> simp at h

/-- non-vacuity: assemble (e0; v0) on `[[3,1],[2,2]] x = (5,4)`, then a failing request (unknown
    equation), then a new iterate with another system: solve-and-expand still answers the solution
    of the system the stored data was assembled from. -/
example :
    let eqs : List EqLayout := [[(0, 1)], [(0, 1)]]
    let vars : List Var := [⟨0, 0, 1⟩, ⟨1, 0, 1⟩]
    let ops : List MOp := [.setSystem [[3, 1], [2, 2]] [5, 4], .split (.names [0]) [⟨0, none⟩] none,
      .split (.names [7]) [⟨0, none⟩] none, .setSystem [[1, 0], [0, 1]] [0, 0]]
    (mstep eqs vars (mrun eqs vars MState.init ops) .expandSolve).2 = .vec [3 / 2, 1 / 2] ∧
      (mrun eqs vars MState.init ops).sysAt = ([[3, 1], [2, 2]], [5, 4]) ∧
      (mstep eqs vars (mrun eqs vars MState.init ops) (.split (.names [7]) [⟨0, none⟩] none)).2
        = .splitErr .valueError := by
  decide +kernel

/-! ### non-vacuity of part (b)

Three equations: `e0` on grids 0,1 (2 + 3 rows), `e1` on grid 0 (2 rows), `e2` on grids 1,2 (3 + 1
rows).  Request `{e0: [1], e2: [2, 1]}`: primary rows are `e0`'s rows on grid 1 and all of `e2`
(in md order, whatever the order in the request); `e0`'s rows on grid 0 are excluded primary rows and
come first in the secondary block, followed by `e1`. -/
example :
    let eqs : List EqLayout := [[(0, 2), (1, 3)], [(0, 2)], [(1, 3), (2, 1)]]
    let req := EqReq.restricted [(2, [2, 1]), (0, [1])]
    primRows req 0 0 eqs = [2, 3, 4, 7, 8, 9, 10] ∧ secRows req eqs = [0, 1, 5, 6] ∧
      totalRows eqs = 11 := by decide

/-- variables in dof order `a@0 b@0 a@1 b@1 c@2`, request `["b", a on grid 1]` -/
example :
    let vars : List Var := [⟨0, 0, 2⟩, ⟨1, 0, 2⟩, ⟨0, 1, 3⟩, ⟨1, 1, 3⟩, ⟨2, 2, 1⟩]
    let active := parseVars (varBlocks 0 0 vars) [⟨1, none⟩, ⟨0, some [1]⟩]
    (active.map (·.idx)).Nodup ∧ primCols active = [2, 3, 4, 5, 6, 7, 8, 9] ∧
      secCols (varBlocks 0 0 vars) active = [0, 1, 10] := by decide

example : expand 5 [1, 3] [0, 2, 4] [10, 30] [0, 20, 40] = [0, 10, 20, 30, 40] := by decide +kernel

end PorepyVerif.C07
