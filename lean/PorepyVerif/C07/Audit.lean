import PorepyVerif.C07.Props
#print axioms PorepyVerif.C07.schur_expand_solves
#print axioms PorepyVerif.C07.schur_reduced_of_full
#print axioms PorepyVerif.C07.schur_expand_solves_full
#print axioms PorepyVerif.C07.schur_expand_solves_inv
#print axioms PorepyVerif.C07.schur_complement_isUnit
#print axioms PorepyVerif.C07.schur_increment_eq_full_solve
#print axioms PorepyVerif.C07.schur_reduced_solution_unique
#print axioms PorepyVerif.C07.permuted_inverse
#print axioms PorepyVerif.C07.block_diagonal_inverse
#print axioms PorepyVerif.C07.default_inverter_correct
#print axioms PorepyVerif.C07.row_split_is_partition
#print axioms PorepyVerif.C07.row_split_disjoint_cover
#print axioms PorepyVerif.C07.col_split_is_partition
#print axioms PorepyVerif.C07.split_gives_equiv
#print axioms PorepyVerif.C07.expand_places
#print axioms PorepyVerif.C07.model_split_solves
