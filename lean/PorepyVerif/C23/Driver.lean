/- C23 line-protocol driver: `lake env lean --run PorepyVerif/C23/Driver.lean` -/
import PorepyVerif.Common.Wire
import PorepyVerif.C23.Model
open Lean PV PorepyVerif.C23

def toV3 (l : List Rat) : R V3 :=
  match l with
  | [x, y, z] => pure ⟨x, y, z⟩
  | [x, y] => pure ⟨x, y, 0⟩
  | _ => throw "point needs 2 or 3 coordinates"

def toP2 (l : List Rat) : R P2 :=
  match l with
  | [x, y] => pure ⟨x, y⟩
  | [x, y, _] => pure ⟨x, y⟩
  | _ => throw "point needs 2 coordinates"

def toPair (l : List Nat) : R (Nat × Nat) :=
  match l with
  | [a, b] => pure (a, b)
  | _ => throw "pair expected"

def toTriple (l : List Nat) : R (Nat × Nat × Nat) :=
  match l with
  | [a, b, c] => pure (a, b, c)
  | _ => throw "triple expected"

def ofV3 (p : V3) : Json := ofRats [p.x, p.y, p.z]
def ofP2 (p : P2) : Json := ofRats [p.x, p.y]
def ofPair (p : Nat × Nat) : Json := ofNats [p.1, p.2]
def ofFaceSign (p : Nat × Int) : Json := Json.arr #[ofNat p.1, ofInt p.2]

def step (_ : Unit) (j : Json) : R (Unit × Json) := do
  let op ← fStr j "op"
  match op with
  | "refine1d" =>
    let nodes ← (← fRatss j "nodes").mapM toV3
    let cells ← (← fNatss j "cells").mapM toPair
    let r ← fNat j "ratio"
    if r == 0 then throw "ratio 0" else
    let out := refine1d nodes cells r
    let fine := fineCells out.2
    pure ((), obj [("nodes", ofList ofV3 out.1), ("cells", ofList ofPair fine),
                   ("signs", ofInts (refineSigns fine)),
                   ("parent", ofNats ((List.range fine.length).map (parent1d r)))])
  | "remesh1d" =>
    let s ← toV3 (← fRats j "start")
    let e ← toV3 (← fRats j "end")
    let n ← fNat j "n"
    pure ((), obj [("nodes", ofList ofV3 (remeshNodes s e n))])
  | "tri" =>
    let nodes ← (← fRatss j "nodes").mapM toP2
    let fn ← (← fNatss j "fn").mapM toPair
    let cf ← (← fNatss j "cf").mapM toTriple
    let tris := triRefine nodes.length fn cf
    pure ((), obj [("nodes", ofList ofP2 (triNewNodes nodes fn)),
                   ("tri", ofList (fun (t : Tri) => ofNats [t.1, t.2.1, t.2.2]) tris),
                   ("parent", ofNats (triParents cf.length)),
                   ("input_ok", Json.bool (cf.all (triCellOk nodes.length fn)))])
  | "sref1d" =>
    let cells ← (← fRatss j "cells").mapM (fun l => match l with
      | [a, b] => pure (a, b)
      | _ => throw "interval expected")
    let pts ← fRats j "pts"
    let cols := assign inside1d cells (enum pts)
    pure ((), obj [("cols", ofList ofNats cols), ("count", ofNat (assignedCount cols)),
                   ("input_ok", Json.bool (uniqueB inside1d cells pts))])
  | "sref2d" =>
    let cells ← (← fRatss j "cells").mapM (fun l => match l with
      | [ax, ay, bx, by', cx, cy] => pure ((⟨ax, ay⟩ : P2), (⟨bx, by'⟩ : P2), (⟨cx, cy⟩ : P2))
      | _ => throw "triangle expected")
    let pts ← (← fRatss j "pts").mapM toP2
    let cols := assign inside2d cells (enum pts)
    pure ((), obj [("cols", ofList ofNats cols), ("count", ofNat (assignedCount cols)),
                   ("input_ok", Json.bool (uniqueB inside2d cells pts))])
  | "extrude" =>
    let dim ← fNat j "dim"
    let nodes ← (← fRatss j "nodes").mapM toV3
    let fn ← fNatss j "fn"
    let cn ← fNatss j "cn"
    let cff ← fNatss j "cf_faces"
    let cfs ← fIntss j "cf_signs"
    let z ← fRats j "z"
    if cff.length != cfs.length then throw "cf mismatch" else
    let b : Base := ⟨dim, nodes, fn, cn, (cff.zip cfs).map (fun fs => fs.1.zip fs.2)⟩
    match extrudeChecked b z with
    | none => pure ((), err "ValueError")
    | some e =>
    pure ((), obj [("nodes", ofList ofV3 e.nodes), ("fn", ofList ofNats e.fn),
                   ("cf", ofList (ofList ofFaceSign) e.cf),
                   ("cell_map", ofList ofNats e.cellMap), ("face_map", ofList ofNats e.faceMap),
                   ("fn_ord", if dim == 2 then ofList ofNats (facesOrdered b z) else Json.null),
                   ("input_ok", Json.bool (zOk z && (dim == 0 || cn.length == cff.length)))])
  | "mdg_interface" =>
    let cells ← fNats j "cells"
    let faces ← fNats j "faces"
    let ncLow ← fNat j "nc_low"
    let nfHigh ← fNat j "nf_high"
    let L ← fNat j "layers"
    if cells.length != faces.length then throw "length mismatch" else
    let pairs := cells.zip faces
    let other := otherSide nfHigh L pairs
    let sides := if other.isEmpty then 1 else 2
    pure ((), obj [("pairs", ofList ofPair (coupleLayers ncLow nfHigh L pairs)), ("other_side", ofNats other),
                   ("sides", ofNat sides), ("mortar_cells", ofNat (mortarCells sides ncLow L))])
  | "srefcart" =>
    let t3 (l : List Rat) : R R3 := match l with
      | [a, b, c] => pure (a, b, c)
      | _ => throw "3 rationals expected"
    let o ← t3 (← fRats j "o")
    let h ← t3 (← fRats j "h")
    let n ← toTriple (← fNats j "n")
    let r ← toTriple (← fNats j "r")
    let cols := cartSweep o h n r
    pure ((), obj [("cols", ofList ofNats cols), ("count", ofNat (assignedCount cols))])
  | "sref_entry" =>
    let e := srefEntry (← fNat j "dim_c") (← fNat j "dim_f") (← fNat j "nc_c") (← fNat j "nc_f")
    match e with
    | .point => pure ((), obj [("entry", Json.str "point")])
    | .assertion => pure ((), err "AssertionError")
    | .sweep => pure ((), obj [("entry", Json.str "sweep")])
  | "refine1d_twice" =>
    let nodes ← (← fRatss j "nodes").mapM toV3
    let cells ← (← fNatss j "cells").mapM toPair
    let r1 ← fNat j "r1"
    let r2 ← fNat j "r2"
    if r1 == 0 || r2 == 0 then throw "ratio 0" else
    let out := refine1dTwice nodes cells r1 r2
    let fine := fineCells out.2
    pure ((), obj [("nodes", ofList ofV3 out.1), ("cells", ofList ofPair fine),
                   ("signs", ofInts (refineSigns fine)),
                   ("parent", ofNats ((List.range fine.length).map (fun i => parent1d r1 (parent1d r2 i))))])
  | "echo" => pure ((), Json.str "ok")
  | _ => throw s!"unknown op {op}"

def main : IO Unit := runDriver () step
