/-
C23 — executable model of grid refinement and extrusion (core Lean only).

Anchors: `porepy/grids/refinement.py` (`refine_grid_1d`, `remesh_1d`, `refine_triangle_grid`,
`structured_refinement`) and `porepy/grids/grid_extrusion.py` (`extrude_grid`, `_extrude_0d/_1d/_2d`,
`_create_mappings`).  Numbers are rationals (every binary64 is one); lengths are carried as vectors
/ squared norms, so no square root occurs in the model.

Modelled (branch for branch where the property depends on it):
  `refine1d`      the cell loop of `refine_grid_1d`: node counter, `old_2_new_nodes`, first-occurrence
                  test, the `ratio-1` interior nodes `start*(1-θ)+end*θ`, the local index chain,
                  the ±1 pattern of the new cell-face relation
  `remeshNodes`   `remesh_1d`: `start*θ + end*(1-θ)`, θ = linspace(0,1,num_nodes)
  `triRefine`     `refine_triangle_grid`: new nodes = nodes ++ face centres, the three corner children
                  (shared node of two faces, then the two face midpoints) and the centre child, column
                  layout `4*c + t`, parent map
  `assign`        the sequential sweep of `structured_refinement` (each coarse cell takes the still
                  untested fine centres inside it); 1-D test `searchsorted(...)==1`, 2-D strict
                  triangle test
  `extrude`       `_extrude_0d/_1d/_2d` numbering: node (n,layer) ↦ n + layer·N, vertical faces first
                  (layer-major), then horizontal faces, cell (c,layer) ↦ c + layer·C, cell/face maps
                  `arange(c, C·L, C)`, `arange(f, F·L, F)`

The model follows the PROPERTY where the code at the pinned commit deviates from it (recorded in
known_findings.d/C23.json, repairs in fixes/C23-*.diff):
  * `refine_triangle_grid` pairs the shared corner node with the wrong cell when the duplicated
    node does not sit at the same sorted position in all cells (`np.argwhere` is row-major);
    the model uses the shared node of the cell's own two faces;
  * `refine_triangle_grid` returns `parent = tile(arange(nc), 4)` although the children of cell `c`
    are the columns `4c … 4c+3`; the model returns `j / 4`;
  * `_extrude_1d` signs the vertical faces by their stored position (−1, +1) instead of inheriting
    the base grid's signs, and raises for base grids that store some cell's faces as (+1, −1).
-/
namespace PorepyVerif.C23

/-! ### vectors -/

structure V3 where
  x : Rat
  y : Rat
  z : Rat
deriving DecidableEq, Repr

namespace V3
def zero : V3 := ⟨0, 0, 0⟩
def add (a b : V3) : V3 := ⟨a.x + b.x, a.y + b.y, a.z + b.z⟩
def sub (a b : V3) : V3 := ⟨a.x - b.x, a.y - b.y, a.z - b.z⟩
def smul (t : Rat) (a : V3) : V3 := ⟨t * a.x, t * a.y, t * a.z⟩
def dot (a b : V3) : Rat := a.x * b.x + a.y * b.y + a.z * b.z
/-- squared Euclidean norm -/
def nsq (a : V3) : Rat := dot a a
def cross (a b : V3) : V3 :=
  ⟨a.y * b.z - a.z * b.y, a.z * b.x - a.x * b.z, a.x * b.y - a.y * b.x⟩
end V3

/-- `a*(1-t) + b*t`, the parametrisation used by `refine_grid_1d` -/
def lerp (a b : V3) (t : Rat) : V3 := V3.add (V3.smul (1 - t) a) (V3.smul t b)

def nodeAt (nodes : List V3) (k : Nat) : V3 := nodes.getD k V3.zero

/-! ### refine_grid_1d -/

/-- loop state: the new node array filled so far (`node_counter = xs.length`) and `old_2_new_nodes` -/
structure RSt where
  xs : List V3
  map : List (Nat × Nat)
deriving Repr

def lookup (k : Nat) : List (Nat × Nat) → Option Nat
  | [] => none
  | (k', i) :: rest => if k' = k then some i else lookup k rest

/-- An end node of an old cell: register it the first time it is met, else look it up. -/
def addOld (nodes : List V3) (st : RSt) (k : Nat) : RSt × Nat :=
  match lookup k st.map with
  | some i => (st, i)
  | none => (⟨st.xs ++ [nodeAt nodes k], (k, st.xs.length) :: st.map⟩, st.xs.length)

/-- the `ratio-1` new nodes `a*(1-θ_j) + b*θ_j`, θ_j = (j+1)/ratio -/
def interior (a b : V3) (r : Nat) : List V3 :=
  (List.range (r - 1)).map (fun j => lerp a b (((j + 1 : Nat) : Rat) / (r : Rat)))

/-- One old cell `(start, end)`: returns the chain of `r+1` new node indices from start to end
    (`loc_new_ind` without the doubled interior entries). -/
def refineCell (nodes : List V3) (r : Nat) (st : RSt) (se : Nat × Nat) : RSt × List Nat :=
  let r1 := addOld nodes st se.1
  let base := r1.1.xs.length
  let st2 : RSt := ⟨r1.1.xs ++ interior (nodeAt nodes se.1) (nodeAt nodes se.2) r, r1.1.map⟩
  let r3 := addOld nodes st2 se.2
  (r3.1, r1.2 :: (List.range' base (r - 1) ++ [r3.2]))

def refineAll (nodes : List V3) (r : Nat) : List (Nat × Nat) → RSt → RSt × List (List Nat)
  | [], st => (st, [])
  | c :: cs, st =>
    let rc := refineCell nodes r st c
    let rest := refineAll nodes r cs rc.1
    (rest.1, rc.2 :: rest.2)

/-- `refine_grid_1d`: new node coordinates and, per old cell, the chain of new node indices. -/
def refine1d (nodes : List V3) (cells : List (Nat × Nat)) (r : Nat) : List V3 × List (List Nat) :=
  let res := refineAll nodes r cells ⟨[], []⟩
  (res.1.xs, res.2)

/-- the fine cells of one chain: consecutive index pairs -/
def chainCells : List Nat → List (Nat × Nat)
  | a :: b :: rest => (a, b) :: chainCells (b :: rest)
  | _ => []

/-- fine cell list of the refined grid (cell `i` has parent `i / r`) -/
def fineCells (chains : List (List Nat)) : List (Nat × Nat) := (chains.map chainCells).flatten

/-- `signs`: +1 at the first occurrence of a node in the flattened cell-face indices, else -1 -/
def signsAux : List Nat → List Nat → List Int
  | [], _ => []
  | i :: rest, seen => (if i ∈ seen then (-1 : Int) else 1) :: signsAux rest (i :: seen)

def flatPairs : List (Nat × Nat) → List Nat
  | [] => []
  | (a, b) :: rest => a :: b :: flatPairs rest

def refineSigns (cells : List (Nat × Nat)) : List Int := signsAux (flatPairs cells) []

/-- parent of fine cell `i` -/
def parent1d (r i : Nat) : Nat := i / r

/-! ### remesh_1d -/

/-- nodes `start*θ_k + end*(1-θ_k)`, θ_k = k/(n-1), k < n -/
def remeshNodes (s e : V3) (n : Nat) : List V3 :=
  (List.range n).map (fun (k : Nat) => lerp e s ((k : Rat) / ((n - 1 : Nat) : Rat)))

/-! ### refine_triangle_grid -/

structure P2 where
  x : Rat
  y : Rat
deriving DecidableEq, Repr

def P2.mid (a b : P2) : P2 := ⟨(a.x + b.x) / 2, (a.y + b.y) / 2⟩

/-- twice the signed area of the triangle (a, b, c) -/
def area2 (a b c : P2) : Rat := (b.x - a.x) * (c.y - a.y) - (b.y - a.y) * (c.x - a.x)

def p2At (nodes : List P2) (k : Nat) : P2 := nodes.getD k ⟨0, 0⟩
def faceAt (fn : List (Nat × Nat)) (f : Nat) : Nat × Nat := fn.getD f (0, 0)

/-- the node two faces have in common (the duplicate found by sort + diff in the code) -/
def sharedNode (f g : Nat × Nat) : Nat :=
  if f.1 = g.1 ∨ f.1 = g.2 then f.1 else f.2

/-- new node array: old nodes, then one node per face (its centre) -/
def triNewNodes (nodes : List P2) (fn : List (Nat × Nat)) : List P2 :=
  nodes ++ fn.map (fun f => P2.mid (p2At nodes f.1) (p2At nodes f.2))

abbrev Tri := Nat × Nat × Nat

/-- the four children of the cell with faces `(f0, f1, f2)`; `off` = number of old nodes.
    Face combinations `binom = ((1,0),(2,1),(0,2))`, then the centre child. -/
def triChildren (fn : List (Nat × Nat)) (off : Nat) (c : Nat × Nat × Nat) : List Tri :=
  let f0 := c.1
  let f1 := c.2.1
  let f2 := c.2.2
  [ (sharedNode (faceAt fn f1) (faceAt fn f0), off + f1, off + f0),
    (sharedNode (faceAt fn f2) (faceAt fn f1), off + f2, off + f1),
    (sharedNode (faceAt fn f0) (faceAt fn f2), off + f0, off + f2),
    (off + f0, off + f1, off + f2) ]

/-- all new triangles, column `4*c + t` = child `t` of cell `c` -/
def triRefine (nnodes : Nat) (fn : List (Nat × Nat)) (cf : List (Nat × Nat × Nat)) : List Tri :=
  (cf.map (triChildren fn nnodes)).flatten

/-- parent of new cell `j` -/
def triParent (j : Nat) : Nat := j / 4

def triParents (ncells : Nat) : List Nat := (List.range (4 * ncells)).map triParent

/-! ### structured_refinement -/

/-- One coarse cell of the sweep: indices of the still untested points inside it, and the rest. -/
def assignStep {α β : Type} (inside : α → β → Bool) (cell : α) (untested : List (Nat × β)) :
    List Nat × List (Nat × β) :=
  ((untested.filter (fun ip => inside cell ip.2)).map (·.1),
   untested.filter (fun ip => !inside cell ip.2))

/-- the columns of the coarse→fine matrix: for each coarse cell the fine cells assigned to it -/
def assign {α β : Type} (inside : α → β → Bool) : List α → List (Nat × β) → List (List Nat)
  | [], _ => []
  | c :: cs, u =>
    let s := assignStep inside c u
    s.1 :: assign inside cs s.2

/-- number of fine cells that found a coarse cell; the code asserts this equals `g_ref.num_cells` -/
def assignedCount (cols : List (List Nat)) : Nat := (cols.map List.length).foldl (· + ·) 0

def enum {β : Type} (l : List β) : List (Nat × β) := (List.range l.length).zip l

/-- 1-D test: `np.searchsorted(sort(line), p, side="left") == 1`, i.e. `lo < p ≤ hi` -/
def inside1d (cell : Rat × Rat) (p : Rat) : Bool :=
  let lo := if cell.1 ≤ cell.2 then cell.1 else cell.2
  let hi := if cell.1 ≤ cell.2 then cell.2 else cell.1
  decide (lo < p) && decide (p ≤ hi)

/-- 2-D test for a triangle: strictly inside (all three edge orientations of the same strict sign) -/
def inside2d (cell : P2 × P2 × P2) (p : P2) : Bool :=
  let a := cell.1
  let b := cell.2.1
  let c := cell.2.2
  let d1 := area2 a b p
  let d2 := area2 b c p
  let d3 := area2 c a p
  (decide (0 < d1) && decide (0 < d2) && decide (0 < d3)) ||
  (decide (d1 < 0) && decide (d2 < 0) && decide (d3 < 0))

/-! ### extrude_grid -/

/-- topology of the base grid as the extrusion reads it -/
structure Base where
  dim : Nat
  nodes : List V3                       -- only x, y are used
  fn : List (List Nat)                  -- nodes of each face
  cn : List (List Nat)                  -- nodes of each cell
  cf : List (List (Nat × Int))          -- faces of each cell with sign
deriving DecidableEq, Repr

structure Extruded where
  nodes : List V3
  fn : List (List Nat)
  cf : List (List (Nat × Int))
  cellMap : List (List Nat)
  faceMap : List (List Nat)
deriving DecidableEq, Repr

/-- `arange(start, stop, step)` for step ≥ 1, as a count -/
def arange (start step count : Nat) : List Nat := (List.range count).map (fun k => start + k * step)

/-- node layers: node `(n, k)` is number `n + k·N`, coordinates `(x_n, y_n, z_k)` -/
def extrudeNodes (nodes : List V3) (z : List Rat) : List V3 :=
  (z.map (fun zk => nodes.map (fun p => (⟨p.x, p.y, zk⟩ : V3)))).flatten

/-- vertical faces (layer-major): face `(f, k)` is number `f + k·F`, its nodes are those of `f`
    in node layers `k` and `k+1` -/
def verticalFaces (nn : Nat) (fn : List (List Nat)) (layers : Nat) : List (List Nat) :=
  ((List.range layers).map (fun k =>
    fn.map (fun ns => ns.map (· + k * nn) ++ ns.map (· + (k + 1) * nn)))).flatten

/-- horizontal faces, one set per node layer: face `(c, j)` is number `Fv + c + j·C` -/
def horizontalFaces (nn : Nat) (cn : List (List Nat)) (nodeLayers : Nat) : List (List Nat) :=
  ((List.range nodeLayers).map (fun j => cn.map (fun ns => ns.map (· + j * nn)))).flatten

/-- cell `(c, k)` = number `c + k·C`: its vertical faces are the base cell's faces shifted by
    `k·stride` with the base cell's signs, plus the horizontal faces below (−1) and above (+1).
    `stride` is `num_faces` in `_extrude_2d` and `num_nodes` in `_extrude_1d` (equal for 1-d grids).
    (`_extrude_1d` at the pinned commit replaces the inherited signs by the positional pattern
    (−1, +1); that is only consistent if every base cell stores its faces in that order — recorded
    as a finding, the model follows the repaired behaviour, which is that of `_extrude_2d`.) -/
def extrudeCells (b : Base) (layers : Nat) : List (List (Nat × Int)) :=
  let nc := b.cf.length
  let fv := b.fn.length * layers
  let stride := if b.dim = 1 then b.nodes.length else b.fn.length
  ((List.range layers).map (fun k =>
    (List.range nc).map (fun c =>
      ((b.cf.getD c []).map (fun fsg => (fsg.1 + k * stride, fsg.2)))
        ++ [(fv + k * nc + c, (-1 : Int)), (fv + (k + 1) * nc + c, (1 : Int))]))).flatten

/-- cell map row of base cell `c`: `arange(c, C·L, C)` -/
def cellMapRow (nc layers c : Nat) : List Nat := arange c nc layers

def extrude (b : Base) (z : List Rat) : Extruded :=
  let layers := z.length - 1
  let nn := b.nodes.length
  let nc := b.cf.length
  let nf := b.fn.length
  if b.dim = 0 then
    -- `_extrude_0d`: a 1-d tensor grid along z through the point; faces = nodes
    let p := nodeAt b.nodes 0
    { nodes := z.map (fun zk => (⟨p.x, p.y, zk⟩ : V3)),
      fn := (List.range z.length).map (fun k => [k]),
      cf := (List.range layers).map (fun k => [(k, (-1 : Int)), (k + 1, (1 : Int))]),
      cellMap := [List.range layers],
      faceMap := [] }
  else
    { nodes := extrudeNodes b.nodes z,
      fn := verticalFaces nn b.fn layers ++ horizontalFaces nn b.cn (layers + 1),
      cf := extrudeCells b layers,
      cellMap := (List.range nc).map (cellMapRow nc layers),
      faceMap := (List.range nf).map (fun f => arange f nf layers) }

/-- `extrude_grid` rejects layer coordinates of mixed sign (`ValueError`) -/
def zSignOk (z : List Rat) : Bool := z.all (fun v => decide (0 ≤ v)) || z.all (fun v => decide (v ≤ 0))

/-- `extrude_grid` with its argument checks: mixed-sign `z` and base dimension > 2 are errors -/
def extrudeChecked (b : Base) (z : List Rat) : Option Extruded :=
  if !zSignOk z then none else if 2 < b.dim then none else some (extrude b z)

/-- layer heights `z_{k+1} - z_k` -/
def heights : List Rat → List Rat
  | a :: b :: rest => (b - a) :: heights (b :: rest)
  | _ => []

def rsum : List Rat → Rat
  | [] => 0
  | x :: xs => x + rsum xs

/-- measures of the extruded cells, layer-major: `m_c · (z_{k+1} - z_k)` -/
def extrudedMeasures (base : List Rat) (z : List Rat) : List Rat :=
  ((heights z).map (fun h => base.map (fun m => m * h))).flatten

/-- six times the signed volume of the tetrahedron (a, b, c, d) -/
def tet6 (a b c d : V3) : Rat := V3.dot (V3.cross (V3.sub b a) (V3.sub c a)) (V3.sub d a)

end PorepyVerif.C23
