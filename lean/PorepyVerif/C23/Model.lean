/-
C23 — executable model of grid refinement and extrusion (core Lean only).

Anchors: `porepy/grids/refinement.py` (`refine_grid_1d`, `remesh_1d`, `refine_triangle_grid`,
`structured_refinement`) and `porepy/grids/grid_extrusion.py` (`extrude_grid`, `_extrude_0d/_1d/_2d`,
`_create_mappings`).  Numbers are rationals (every binary64 is one); lengths are carried as vectors
/ squared norms, so no square root occurs in the model.

Modelled (branch for branch where the property depends on it):
  `refine1d`      the cell loop of `refine_grid_1d`: node counter, `old_2_new_nodes`, first-occurrence
                  test, the `ratio-1` interior nodes `start*(1-θ)+end*θ`, the local index chain,
                  the ±1 pattern of the new cell-face relation
  `remeshNodes`   `remesh_1d`: `start*θ + end*(1-θ)`, θ = linspace(0,1,num_nodes)
  `triRefine`     `refine_triangle_grid`: new nodes = nodes ++ face centres, the three corner children
                  (shared node of two faces, then the two face midpoints) and the centre child, column
                  layout `4*c + t`, parent map
  `assign`        the sequential sweep of `structured_refinement` (each coarse cell takes the still
                  untested fine centres inside it); 1-D test `searchsorted(...)==1`, 2-D strict
                  triangle test
  `extrude`       `_extrude_0d/_1d/_2d` numbering: node (n,layer) ↦ n + layer·N, vertical faces first
                  (layer-major), then horizontal faces, cell (c,layer) ↦ c + layer·C, cell/face maps
                  `arange(c, C·L, C)`, `arange(f, F·L, F)`

  `coupleLayers`  `extrude_mdg`: new interface face-cell pairs = old pairs copied layer by layer through
                  the cell map of the low-dimensional and the face map of the high-dimensional grid;
                  faces on the second mortar side (`faces > median(faces)`), mortar cell count
  `cartBox` …     nested Cartesian grids for the sweep: coarse boxes, fine cell centres, `coarseOf`
  `facesOrdered`  cyclic node order of the faces of the extruded 3-d grid: vertical faces
                  `(a_k, b_k, b_{k+1}, a_{k+1})`, flipped according to sign / `is_ccw_polyline` / direction
                  of extrusion; horizontal faces = the cell's node cycle, counter-clockwise for upward
                  and clockwise for downward extrusion

Three deviations of the code from the property were found with this model and repaired in /repo
(fixes/C23-*.diff, applied): the corner nodes of `refine_triangle_grid` were paired with the wrong
cell (`np.argwhere` is row-major), its parent map was `tile` instead of `repeat`, and `_extrude_1d`
signed vertical faces by stored position instead of inheriting the base grid's signs.  The model is
the repaired behaviour, which is now also the code's.
-/
namespace PorepyVerif.C23

/-! ### vectors -/

structure V3 where
  x : Rat
  y : Rat
  z : Rat
deriving DecidableEq, Repr

namespace V3
def zero : V3 := ⟨0, 0, 0⟩
def add (a b : V3) : V3 := ⟨a.x + b.x, a.y + b.y, a.z + b.z⟩
def sub (a b : V3) : V3 := ⟨a.x - b.x, a.y - b.y, a.z - b.z⟩
def smul (t : Rat) (a : V3) : V3 := ⟨t * a.x, t * a.y, t * a.z⟩
def dot (a b : V3) : Rat := a.x * b.x + a.y * b.y + a.z * b.z
/-- squared Euclidean norm -/
def nsq (a : V3) : Rat := dot a a
def cross (a b : V3) : V3 :=
  ⟨a.y * b.z - a.z * b.y, a.z * b.x - a.x * b.z, a.x * b.y - a.y * b.x⟩
end V3

/-- `a*(1-t) + b*t`, the parametrisation used by `refine_grid_1d` -/
def lerp (a b : V3) (t : Rat) : V3 := V3.add (V3.smul (1 - t) a) (V3.smul t b)

def nodeAt (nodes : List V3) (k : Nat) : V3 := nodes.getD k V3.zero

/-! ### refine_grid_1d -/

/-- loop state: the new node array filled so far (`node_counter = xs.length`) and `old_2_new_nodes` -/
structure RSt where
  xs : List V3
  map : List (Nat × Nat)
deriving Repr

def lookup (k : Nat) : List (Nat × Nat) → Option Nat
  | [] => none
  | (k', i) :: rest => if k' = k then some i else lookup k rest

/-- An end node of an old cell: register it the first time it is met, else look it up. -/
def addOld (nodes : List V3) (st : RSt) (k : Nat) : RSt × Nat :=
  match lookup k st.map with
  | some i => (st, i)
  | none => (⟨st.xs ++ [nodeAt nodes k], (k, st.xs.length) :: st.map⟩, st.xs.length)

/-- the `ratio-1` new nodes `a*(1-θ_j) + b*θ_j`, θ_j = (j+1)/ratio -/
def interior (a b : V3) (r : Nat) : List V3 :=
  (List.range (r - 1)).map (fun j => lerp a b (((j + 1 : Nat) : Rat) / (r : Rat)))

/-- One old cell `(start, end)`: returns the chain of `r+1` new node indices from start to end
    (`loc_new_ind` without the doubled interior entries). -/
def refineCell (nodes : List V3) (r : Nat) (st : RSt) (se : Nat × Nat) : RSt × List Nat :=
  let r1 := addOld nodes st se.1
  let base := r1.1.xs.length
  let st2 : RSt := ⟨r1.1.xs ++ interior (nodeAt nodes se.1) (nodeAt nodes se.2) r, r1.1.map⟩
  let r3 := addOld nodes st2 se.2
  (r3.1, r1.2 :: (List.range' base (r - 1) ++ [r3.2]))

def refineAll (nodes : List V3) (r : Nat) : List (Nat × Nat) → RSt → RSt × List (List Nat)
  | [], st => (st, [])
  | c :: cs, st =>
    let rc := refineCell nodes r st c
    let rest := refineAll nodes r cs rc.1
    (rest.1, rc.2 :: rest.2)

/-- `refine_grid_1d`: new node coordinates and, per old cell, the chain of new node indices. -/
def refine1d (nodes : List V3) (cells : List (Nat × Nat)) (r : Nat) : List V3 × List (List Nat) :=
  let res := refineAll nodes r cells ⟨[], []⟩
  (res.1.xs, res.2)

/-- the fine cells of one chain: consecutive index pairs -/
def chainCells : List Nat → List (Nat × Nat)
  | a :: b :: rest => (a, b) :: chainCells (b :: rest)
  | _ => []

/-- fine cell list of the refined grid (cell `i` has parent `i / r`) -/
def fineCells (chains : List (List Nat)) : List (Nat × Nat) := (chains.map chainCells).flatten

/-- `signs`: +1 at the first occurrence of a node in the flattened cell-face indices, else -1 -/
def signsAux : List Nat → List Nat → List Int
  | [], _ => []
  | i :: rest, seen => (if i ∈ seen then (-1 : Int) else 1) :: signsAux rest (i :: seen)

def flatPairs : List (Nat × Nat) → List Nat
  | [] => []
  | (a, b) :: rest => a :: b :: flatPairs rest

def refineSigns (cells : List (Nat × Nat)) : List Int := signsAux (flatPairs cells) []

/-- parent of fine cell `i` -/
def parent1d (r i : Nat) : Nat := i / r

/-! ### remesh_1d -/

/-- nodes `start*θ_k + end*(1-θ_k)`, θ_k = k/(n-1), k < n -/
def remeshNodes (s e : V3) (n : Nat) : List V3 :=
  (List.range n).map (fun (k : Nat) => lerp e s ((k : Rat) / ((n - 1 : Nat) : Rat)))

/-! ### refine_triangle_grid -/

structure P2 where
  x : Rat
  y : Rat
deriving DecidableEq, Repr

def P2.mid (a b : P2) : P2 := ⟨(a.x + b.x) / 2, (a.y + b.y) / 2⟩

/-- twice the signed area of the triangle (a, b, c) -/
def area2 (a b c : P2) : Rat := (b.x - a.x) * (c.y - a.y) - (b.y - a.y) * (c.x - a.x)

def p2At (nodes : List P2) (k : Nat) : P2 := nodes.getD k ⟨0, 0⟩
def faceAt (fn : List (Nat × Nat)) (f : Nat) : Nat × Nat := fn.getD f (0, 0)

/-- the node two faces have in common (the duplicate found by sort + diff in the code) -/
def sharedNode (f g : Nat × Nat) : Nat :=
  if f.1 = g.1 ∨ f.1 = g.2 then f.1 else f.2

/-- new node array: old nodes, then one node per face (its centre) -/
def triNewNodes (nodes : List P2) (fn : List (Nat × Nat)) : List P2 :=
  nodes ++ fn.map (fun f => P2.mid (p2At nodes f.1) (p2At nodes f.2))

abbrev Tri := Nat × Nat × Nat

/-- the four children of the cell with faces `(f0, f1, f2)`; `off` = number of old nodes.
    Face combinations `binom = ((1,0),(2,1),(0,2))`, then the centre child. -/
def triChildren (fn : List (Nat × Nat)) (off : Nat) (c : Nat × Nat × Nat) : List Tri :=
  let f0 := c.1
  let f1 := c.2.1
  let f2 := c.2.2
  [ (sharedNode (faceAt fn f1) (faceAt fn f0), off + f1, off + f0),
    (sharedNode (faceAt fn f2) (faceAt fn f1), off + f2, off + f1),
    (sharedNode (faceAt fn f0) (faceAt fn f2), off + f0, off + f2),
    (off + f0, off + f1, off + f2) ]

/-- all new triangles, column `4*c + t` = child `t` of cell `c` -/
def triRefine (nnodes : Nat) (fn : List (Nat × Nat)) (cf : List (Nat × Nat × Nat)) : List Tri :=
  (cf.map (triChildren fn nnodes)).flatten

/-- parent of new cell `j` -/
def triParent (j : Nat) : Nat := j / 4

def triParents (ncells : Nat) : List Nat := (List.range (4 * ncells)).map triParent

/-! ### structured_refinement -/

/-- One coarse cell of the sweep: indices of the still untested points inside it, and the rest. -/
def assignStep {α β : Type} (inside : α → β → Bool) (cell : α) (untested : List (Nat × β)) :
    List Nat × List (Nat × β) :=
  ((untested.filter (fun ip => inside cell ip.2)).map (·.1),
   untested.filter (fun ip => !inside cell ip.2))

/-- the columns of the coarse→fine matrix: for each coarse cell the fine cells assigned to it -/
def assign {α β : Type} (inside : α → β → Bool) : List α → List (Nat × β) → List (List Nat)
  | [], _ => []
  | c :: cs, u =>
    let s := assignStep inside c u
    s.1 :: assign inside cs s.2

/-- number of fine cells that found a coarse cell; the code asserts this equals `g_ref.num_cells` -/
def assignedCount (cols : List (List Nat)) : Nat := (cols.map List.length).foldl (· + ·) 0

def enum {β : Type} (l : List β) : List (Nat × β) := (List.range l.length).zip l

/-- 1-D test: `np.searchsorted(sort(line), p, side="left") == 1`, i.e. `lo < p ≤ hi` -/
def inside1d (cell : Rat × Rat) (p : Rat) : Bool :=
  let lo := if cell.1 ≤ cell.2 then cell.1 else cell.2
  let hi := if cell.1 ≤ cell.2 then cell.2 else cell.1
  decide (lo < p) && decide (p ≤ hi)

/-- 2-D test for a triangle: strictly inside (all three edge orientations of the same strict sign) -/
def inside2d (cell : P2 × P2 × P2) (p : P2) : Bool :=
  let a := cell.1
  let b := cell.2.1
  let c := cell.2.2
  let d1 := area2 a b p
  let d2 := area2 b c p
  let d3 := area2 c a p
  (decide (0 < d1) && decide (0 < d2) && decide (0 < d3)) ||
  (decide (d1 < 0) && decide (d2 < 0) && decide (d3 < 0))

/-! ### extrude_grid -/

/-- topology of the base grid as the extrusion reads it -/
structure Base where
  dim : Nat
  nodes : List V3                       -- only x, y are used
  fn : List (List Nat)                  -- nodes of each face
  cn : List (List Nat)                  -- nodes of each cell
  cf : List (List (Nat × Int))          -- faces of each cell with sign
deriving DecidableEq, Repr

structure Extruded where
  nodes : List V3
  fn : List (List Nat)
  cf : List (List (Nat × Int))
  cellMap : List (List Nat)
  faceMap : List (List Nat)
deriving DecidableEq, Repr

/-- `arange(start, stop, step)` for step ≥ 1, as a count -/
def arange (start step count : Nat) : List Nat := (List.range count).map (fun k => start + k * step)

/-- node layers: node `(n, k)` is number `n + k·N`, coordinates `(x_n, y_n, z_k)` -/
def extrudeNodes (nodes : List V3) (z : List Rat) : List V3 :=
  (z.map (fun zk => nodes.map (fun p => (⟨p.x, p.y, zk⟩ : V3)))).flatten

/-- vertical faces (layer-major): face `(f, k)` is number `f + k·F`, its nodes are those of `f`
    in node layers `k` and `k+1` -/
def verticalFaces (nn : Nat) (fn : List (List Nat)) (layers : Nat) : List (List Nat) :=
  ((List.range layers).map (fun k =>
    fn.map (fun ns => ns.map (· + k * nn) ++ ns.map (· + (k + 1) * nn)))).flatten

/-- horizontal faces, one set per node layer: face `(c, j)` is number `Fv + c + j·C` -/
def horizontalFaces (nn : Nat) (cn : List (List Nat)) (nodeLayers : Nat) : List (List Nat) :=
  ((List.range nodeLayers).map (fun j => cn.map (fun ns => ns.map (· + j * nn)))).flatten

/-- cell `(c, k)` = number `c + k·C`: its vertical faces are the base cell's faces shifted by
    `k·stride` with the base cell's signs, plus the horizontal faces below (−1) and above (+1).
    `stride` is `num_faces` in `_extrude_2d` and `num_nodes` in `_extrude_1d` (equal for 1-d grids).
    Both inherit the base grid's signs for the vertical faces. -/
def extrudeCells (b : Base) (layers : Nat) : List (List (Nat × Int)) :=
  let nc := b.cf.length
  let fv := b.fn.length * layers
  let stride := if b.dim = 1 then b.nodes.length else b.fn.length
  ((List.range layers).map (fun k =>
    (List.range nc).map (fun c =>
      ((b.cf.getD c []).map (fun fsg => (fsg.1 + k * stride, fsg.2)))
        ++ [(fv + k * nc + c, (-1 : Int)), (fv + (k + 1) * nc + c, (1 : Int))]))).flatten

/-- cell map row of base cell `c`: `arange(c, C·L, C)` -/
def cellMapRow (nc layers c : Nat) : List Nat := arange c nc layers

def extrude (b : Base) (z : List Rat) : Extruded :=
  let layers := z.length - 1
  let nn := b.nodes.length
  let nc := b.cf.length
  let nf := b.fn.length
  if b.dim = 0 then
    -- `_extrude_0d`: a 1-d tensor grid along z through the point; faces = nodes
    let p := nodeAt b.nodes 0
    { nodes := z.map (fun zk => (⟨p.x, p.y, zk⟩ : V3)),
      fn := (List.range z.length).map (fun k => [k]),
      cf := (List.range layers).map (fun k => [(k, (-1 : Int)), (k + 1, (1 : Int))]),
      cellMap := [List.range layers],
      faceMap := [] }
  else
    { nodes := extrudeNodes b.nodes z,
      fn := verticalFaces nn b.fn layers ++ horizontalFaces nn b.cn (layers + 1),
      cf := extrudeCells b layers,
      cellMap := (List.range nc).map (cellMapRow nc layers),
      faceMap := (List.range nf).map (fun f => arange f nf layers) }

/-- `extrude_grid` rejects layer coordinates of mixed sign (`ValueError`) -/
def zSignOk (z : List Rat) : Bool := z.all (fun v => decide (0 ≤ v)) || z.all (fun v => decide (v ≤ 0))

/-- `extrude_grid` with its argument checks: mixed-sign `z` and base dimension > 2 are errors -/
def extrudeChecked (b : Base) (z : List Rat) : Option Extruded :=
  if !zSignOk z then none else if 2 < b.dim then none else some (extrude b z)

/-- layer heights `z_{k+1} - z_k` -/
def heights : List Rat → List Rat
  | a :: b :: rest => (b - a) :: heights (b :: rest)
  | _ => []

def rsum : List Rat → Rat
  | [] => 0
  | x :: xs => x + rsum xs

/-- measures of the extruded cells, layer-major: `m_c · (z_{k+1} - z_k)` -/
def extrudedMeasures (base : List Rat) (z : List Rat) : List Rat :=
  ((heights z).map (fun h => base.map (fun m => m * h))).flatten

/-- six times the signed volume of the tetrahedron (a, b, c, d) -/
def tet6 (a b c d : V3) : Rat := V3.dot (V3.cross (V3.sub b a) (V3.sub c a)) (V3.sub d a)

/-! ### extrude_mdg: interface bookkeeping -/

/-- new (low-dim cell, high-dim face) pairs: every old pair `(c, f)` is replaced by the pairs
    `(cell_map[c][k], face_map[f][k])`, `k < L` (`rows`/`cols` of the new face-cell matrix) -/
def coupleLayers (ncLow nfHigh L : Nat) (pairs : List (Nat × Nat)) : List (Nat × Nat) :=
  (pairs.map (fun cf => (List.range L).map (fun k => (cf.1 + k * ncLow, cf.2 + k * nfHigh)))).flatten

def insertSorted (x : Nat) : List Nat → List Nat
  | [] => [x]
  | y :: ys => if x ≤ y then x :: y :: ys else y :: insertSorted x ys

def isort : List Nat → List Nat
  | [] => []
  | x :: xs => insertSorted x (isort xs)

/-- twice `np.median` of a list of naturals -/
def twiceMedian (l : List Nat) : Nat :=
  let s := isort l
  let n := s.length
  if n % 2 = 1 then 2 * s.getD (n / 2) 0 else s.getD (n / 2 - 1) 0 + s.getD (n / 2) 0

/-- `faces[idx] > np.median(faces)`: the old face lies on the second side of the fracture -/
def aboveMedian (pairs : List (Nat × Nat)) (f : Nat) : Bool :=
  decide (twiceMedian (pairs.map (·.2)) < 2 * f)

/-- `face_on_other_side`: the extruded copies of the old faces above the median -/
def otherSide (nfHigh L : Nat) (pairs : List (Nat × Nat)) : List Nat :=
  ((pairs.filter (fun cf => aboveMedian pairs cf.2)).map (fun cf => arange cf.2 nfHigh L)).flatten

/-- cells of the new mortar grid: one copy of the extruded low-dimensional grid per side -/
def mortarCells (sides ncLow L : Nat) : Nat := sides * (ncLow * L)

/-! ### nested Cartesian grids for the structured_refinement sweep -/

/-- coarse cell `c` of a uniform grid with origin `x0` and cell size `h` -/
def cartCell1d (x0 h : Rat) (c : Nat) : Rat × Rat := (x0 + (c : Rat) * h, x0 + ((c + 1 : Nat) : Rat) * h)

/-- centre of fine cell `i` when every coarse cell is split into `r` equal parts -/
def cartCentre1d (x0 h : Rat) (r i : Nat) : Rat :=
  x0 + ((2 * i + 1 : Nat) : Rat) / ((2 * r : Nat) : Rat) * h

abbrev Idx3 := Nat × Nat × Nat
abbrev R3 := Rat × Rat × Rat
abbrev Box := (Rat × Rat) × (Rat × Rat) × (Rat × Rat)

def insideBox (cell : Box) (p : R3) : Bool :=
  inside1d cell.1 p.1 && inside1d cell.2.1 p.2.1 && inside1d cell.2.2 p.2.2

def cartBox (o h : R3) (c : Idx3) : Box :=
  (cartCell1d o.1 h.1 c.1, cartCell1d o.2.1 h.2.1 c.2.1, cartCell1d o.2.2 h.2.2 c.2.2)

def cartCentre (o h : R3) (r i : Idx3) : R3 :=
  (cartCentre1d o.1 h.1 r.1 i.1, cartCentre1d o.2.1 h.2.1 r.2.1 i.2.1, cartCentre1d o.2.2 h.2.2 r.2.2 i.2.2)

/-- the index formula: fine cell `(i, j, k)` lies in coarse cell `(i / rx, j / ry, k / rz)` -/
def coarseOf (r i : Idx3) : Idx3 := (i.1 / r.1, i.2.1 / r.2.1, i.2.2 / r.2.2)

/-- x-fastest enumeration of the cells of an `nx × ny × nz` grid -/
def cartCells (n : Idx3) : List Idx3 :=
  ((List.range n.2.2).map (fun k => ((List.range n.2.1).map (fun j =>
    (List.range n.1).map (fun i => (i, j, k)))).flatten)).flatten

/-- the sweep on nested Cartesian grids (2-d: `nz = rz = 1`) -/
def cartSweep (o h : R3) (n r : Idx3) : List (List Nat) :=
  assign insideBox ((cartCells n).map (cartBox o h))
    (enum ((cartCells (n.1 * r.1, n.2.1 * r.2.1, n.2.2 * r.2.2)).map
      (cartCentre o h r)))

/-! ### cyclic node order of the faces of the extruded 3-d grid -/

/-- `is_ccw_polyline(a, b, c)` with tolerance 0 -/
def ccwPolyline (a b c : P2) : Bool := decide (0 < area2 a b c)

/-- the flip decision of `_extrude_2d` for a vertical face: `sgn` is the sign of the face in the
    first cell that has it, `ccw` whether that cell's centre is to the left of the face's node
    pair, `neg` whether the extrusion goes downwards -/
def flipOf (sgn : Int) (ccw neg : Bool) : Bool :=
  xor ((decide (0 < sgn) && !ccw) || (decide (sgn < 0) && ccw)) neg

/-- vertical face over the base face `(a, b)` in layer `k`: `(a_k, b_k, b_{k+1}, a_{k+1})`, or with
    `a` and `b` exchanged when flipped -/
def verticalFaceOrdered (nn a b : Nat) (flip : Bool) (k : Nat) : List Nat :=
  if flip then [b + k * nn, a + k * nn, a + (k + 1) * nn, b + (k + 1) * nn]
  else [a + k * nn, b + k * nn, b + (k + 1) * nn, a + (k + 1) * nn]

/-- first cell (lowest index) that has face `f`, with the sign of `f` in it -/
def firstCellOf (f : Nat) : List (List (Nat × Int)) → Nat → Option (Nat × Int)
  | [], _ => none
  | fs :: rest, c =>
    match fs.find? (fun fsg => fsg.1 == f) with
    | some fsg => some (c, fsg.2)
    | none => firstCellOf f rest (c + 1)

def v3xy (p : V3) : P2 := ⟨p.x, p.y⟩

/-- an interior point of a convex cell: the average of its nodes (the code uses the cell centre;
    any interior point gives the same left/right decision) -/
def cellInterior (nodes : List V3) (ns : List Nat) : P2 :=
  let ps := ns.map (fun n => v3xy (nodeAt nodes n))
  ⟨rsum (ps.map (·.x)) / (ps.length : Rat), rsum (ps.map (·.y)) / (ps.length : Rat)⟩

/-- the neighbour of `cur` other than `prev` along the edges of a cell -/
def nextNode (edges : List (Nat × Nat)) (prev cur : Nat) : Option Nat :=
  match edges.find? (fun e => (e.1 == cur && e.2 != prev) || (e.2 == cur && e.1 != prev)) with
  | some e => some (if e.1 == cur then e.2 else e.1)
  | none => none

def walkCycle (edges : List (Nat × Nat)) : Nat → Nat → Nat → List Nat
  | 0, _, _ => []
  | fuel + 1, prev, cur =>
    match nextNode edges prev cur with
    | some nxt => cur :: walkCycle edges fuel cur nxt
    | none => [cur]

def minNat : List Nat → Nat
  | [] => 0
  | [x] => x
  | x :: xs => if x ≤ minNat xs then x else minNat xs

/-- the nodes of a polygonal cell in cyclic order, starting at its smallest node and going to that
    node's smaller neighbour first -/
def cellCycle (edges : List (Nat × Nat)) : List Nat :=
  let ns := edges.map (·.1) ++ edges.map (·.2)
  let m := minNat ns
  let nbrs := (edges.filter (fun e => e.1 == m)).map (·.2) ++ (edges.filter (fun e => e.2 == m)).map (·.1)
  let first := minNat nbrs
  m :: walkCycle edges (edges.length - 1) m first

/-- twice the signed area of a closed polygon (shoelace formula) -/
def shoelaceAux (p0 : P2) : List P2 → Rat
  | a :: b :: rest => (a.x * b.y - b.x * a.y) + shoelaceAux p0 (b :: rest)
  | [a] => a.x * p0.y - p0.x * a.y
  | [] => 0

def shoelace : List P2 → Rat
  | [] => 0
  | p0 :: rest => shoelaceAux p0 (p0 :: rest)

/-- keep the start node, reverse the direction -/
def reverseCycle : List Nat → List Nat
  | [] => []
  | m :: rest => m :: rest.reverse

/-- horizontal face: the cell's node cycle, counter-clockwise for upward, clockwise for downward
    extrusion -/
def orientCycle (nodes : List V3) (neg : Bool) (cyc : List Nat) : List Nat :=
  let ccw := decide (0 < shoelace (cyc.map (fun n => v3xy (nodeAt nodes n))))
  if xor ccw neg then cyc else reverseCycle cyc

/-- per base face: its two nodes and the flip decision of `_extrude_2d` -/
def faceFlips (b : Base) (neg : Bool) : List (Nat × Nat × Bool) :=
  (List.range b.fn.length).map (fun f =>
    match b.fn.getD f [], firstCellOf f b.cf 0 with
    | [a, bb], some (c, sgn) =>
      (a, bb, flipOf sgn (ccwPolyline (v3xy (nodeAt b.nodes a)) (v3xy (nodeAt b.nodes bb))
        (cellInterior b.nodes (b.cn.getD c []))) neg)
    | _, _ => (0, 0, false))

/-- per base cell: its oriented node cycle -/
def cellCycles (b : Base) (neg : Bool) : List (List Nat) :=
  b.cf.map (fun fs =>
    orientCycle b.nodes neg (cellCycle (fs.map (fun fsg =>
      match b.fn.getD fsg.1 [] with
      | [a, bb] => (a, bb)
      | _ => (0, 0)))))

def verticalOrdered (b : Base) (neg : Bool) (layers : Nat) : List (List Nat) :=
  ((List.range layers).map (fun k =>
    (faceFlips b neg).map (fun abf => verticalFaceOrdered b.nodes.length abf.1 abf.2.1 abf.2.2 k))).flatten

def horizontalOrdered (b : Base) (neg : Bool) (nodeLayers : Nat) : List (List Nat) :=
  ((List.range nodeLayers).map (fun j =>
    (cellCycles b neg).map (fun cyc => cyc.map (· + j * b.nodes.length)))).flatten

/-- all faces of the extruded 2-d grid with their cyclic node order: vertical faces layer by layer,
    then the horizontal faces of every node layer (`neg` = downward extrusion, `np.all(z <= 0)`) -/
def facesOrdered (b : Base) (z : List Rat) : List (List Nat) :=
  let neg := z.all (fun v => decide (v ≤ 0))
  verticalOrdered b neg (z.length - 1) ++ horizontalOrdered b neg (z.length - 1 + 1)

/-- coordinates of a vertical face over the base edge `(A, B)` between `z0` and `z1`, in the node
    order of `verticalFaceOrdered` -/
def vertFaceCoords (A B : P2) (z0 z1 : Rat) (flip : Bool) : List V3 :=
  if flip then [⟨B.x, B.y, z0⟩, ⟨A.x, A.y, z0⟩, ⟨A.x, A.y, z1⟩, ⟨B.x, B.y, z1⟩]
  else [⟨A.x, A.y, z0⟩, ⟨B.x, B.y, z0⟩, ⟨B.x, B.y, z1⟩, ⟨A.x, A.y, z1⟩]

/-- normal of a planar quadrilateral / triangle given in cyclic order: `(q1 - q0) × (q_last - q0)` -/
def faceNormal : List V3 → V3
  | [q0, q1, _, q3] => V3.cross (V3.sub q1 q0) (V3.sub q3 q0)
  | [q0, q1, q2] => V3.cross (V3.sub q1 q0) (V3.sub q2 q0)
  | _ => V3.zero

/-! ### input conditions evaluated by the driver on every case -/

/-- the other end of a stored face -/
def otherEnd (f : Nat × Nat) (n : Nat) : Nat := if f.1 = n then f.2 else f.1

/-- corners `(p, q, s)` of the cell with faces `(f0, f1, f2)`: `q` is shared by `f0` and `f1`,
    `p` is the other end of `f0`, `s` the other end of `f1` -/
def triCorners (fn : List (Nat × Nat)) (c : Nat × Nat × Nat) : Nat × Nat × Nat :=
  let q := sharedNode (faceAt fn c.2.1) (faceAt fn c.1)
  (otherEnd (faceAt fn c.1) q, q, otherEnd (faceAt fn c.2.1) q)

def isEdgeB (f : Nat × Nat) (p q : Nat) : Bool :=
  (decide (f.1 = p) && decide (f.2 = q)) || (decide (f.1 = q) && decide (f.2 = p))

/-- decidable well-formedness of one triangle cell: its three stored faces exist and are the three
    edges of a triangle with three distinct existing corners -/
def triCellOk (nnodes : Nat) (fn : List (Nat × Nat)) (c : Nat × Nat × Nat) : Bool :=
  let pqs := triCorners fn c
  decide (c.1 < fn.length) && decide (c.2.1 < fn.length) && decide (c.2.2 < fn.length) &&
  isEdgeB (faceAt fn c.1) pqs.1 pqs.2.1 && isEdgeB (faceAt fn c.2.1) pqs.2.1 pqs.2.2 &&
  isEdgeB (faceAt fn c.2.2) pqs.2.2 pqs.1 &&
  decide (pqs.1 ≠ pqs.2.1) && decide (pqs.2.1 ≠ pqs.2.2) && decide (pqs.2.2 ≠ pqs.1) &&
  decide (pqs.1 < nnodes) && decide (pqs.2.1 < nnodes) && decide (pqs.2.2 < nnodes)

/-- every point lies in exactly one cell (the precondition "nested grids" of `structured_refinement`) -/
def uniqueB {α β : Type} (inside : α → β → Bool) (cells : List α) (pts : List β) : Bool :=
  pts.all (fun p => (cells.filter (fun c => inside c p)).length == 1)

def increasingB : List Rat → Bool
  | a :: b :: rest => decide (a < b) && increasingB (b :: rest)
  | _ => true

def decreasingB : List Rat → Bool
  | a :: b :: rest => decide (b < a) && decreasingB (b :: rest)
  | _ => true

/-- the documented precondition on the layer coordinates: increasing and non-negative, or
    decreasing and non-positive -/
def zOk (z : List Rat) : Bool :=
  (increasingB z && z.all (fun v => decide (0 ≤ v))) || (decreasingB z && z.all (fun v => decide (v ≤ 0)))

/-! ### entry guards of structured_refinement -/

inductive SrefEntry where
  | point        -- `g.dim == 0`: the 1×1 identity mapping
  | assertion    -- wrong order of the grids, or unequal dimensions: AssertionError
  | sweep        -- the sweep over the coarse cells
deriving DecidableEq, Repr

def srefEntry (dimC dimF ncC ncF : Nat) : SrefEntry :=
  if dimC = 0 then .point
  else if ¬ (ncC < ncF) then .assertion
  else if dimC ≠ dimF then .assertion
  else .sweep

/-! ### repeated 1-d refinement -/

/-- the refined grid as input of the next refinement: cell `(start, end)` = its two nodes in
    increasing index order (the sorted csc column of `cell_nodes()`) -/
def asCells (fine : List (Nat × Nat)) : List (Nat × Nat) :=
  fine.map (fun ab => if ab.1 ≤ ab.2 then ab else (ab.2, ab.1))

def refine1dTwice (nodes : List V3) (cells : List (Nat × Nat)) (r1 r2 : Nat) : List V3 × List (List Nat) :=
  let out1 := refine1d nodes cells r1
  refine1d out1.1 (asCells (fineCells out1.2)) r2

end PorepyVerif.C23
