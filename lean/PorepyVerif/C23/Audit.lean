import PorepyVerif.C23.Props
#print axioms PorepyVerif.C23.refine1d_refines_spec
#print axioms PorepyVerif.C23.refine1d_child_vector
#print axioms PorepyVerif.C23.refine1d_measure
#print axioms PorepyVerif.C23.refine1d_total_measure
#print axioms PorepyVerif.C23.refine1d_parent_unique
#print axioms PorepyVerif.C23.refine1d_parent_fibre
#print axioms PorepyVerif.C23.refine1d_num_cells
#print axioms PorepyVerif.C23.remesh1d_measure
#print axioms PorepyVerif.C23.tri_children_coords
#print axioms PorepyVerif.C23.tri_children_area
#print axioms PorepyVerif.C23.tri_parent_map_total
#print axioms PorepyVerif.C23.structured_refinement_contains
#print axioms PorepyVerif.C23.inside1d_iff
#print axioms PorepyVerif.C23.extrude_measure
#print axioms PorepyVerif.C23.extrude_prism_measure
#print axioms PorepyVerif.C23.extrude_cell_map_bijective_per_layer
#print axioms PorepyVerif.C23.extrude_cell_over_parent
