/-
C23 — helper lemmas (index bookkeeping of the refinement loop, list indexing of equal-sized blocks,
vector algebra).
-/
import PorepyVerif.C23.Model
import Mathlib.Tactic.Ring
import Mathlib.Tactic.Linarith
import Mathlib.Tactic.FieldSimp
import Mathlib.Tactic.Positivity
import Mathlib.Tactic.LinearCombination
import Mathlib.Data.Rat.Defs
import Mathlib.Algebra.Order.Field.Rat
import Mathlib.Analysis.SpecialFunctions.Sqrt

namespace PorepyVerif.C23

/-! ### vectors -/

theorem V3.ext' {a b : V3} (hx : a.x = b.x) (hy : a.y = b.y) (hz : a.z = b.z) : a = b := by
  cases a; cases b; simp_all

theorem lerp_zero (a b : V3) : lerp a b 0 = a := by
  apply V3.ext' <;> simp [lerp, V3.add, V3.smul]

theorem lerp_one (a b : V3) : lerp a b 1 = b := by
  apply V3.ext' <;> simp [lerp, V3.add, V3.smul]

/-- difference of two points of the parametrised segment -/
theorem lerp_sub (a b : V3) (s t : Rat) :
    V3.sub (lerp a b t) (lerp a b s) = V3.smul (t - s) (V3.sub b a) := by
  apply V3.ext' <;> simp [lerp, V3.add, V3.smul, V3.sub] <;> ring

theorem nsq_smul (t : Rat) (v : V3) : V3.nsq (V3.smul t v) = t * t * V3.nsq v := by
  simp [V3.nsq, V3.dot, V3.smul]; ring

/-! ### the chain of one refined 1-d cell -/

/-- the `r+1` points `a*(1-j/r) + b*(j/r)`, `j = 0..r`, of the refined cell `(a, b)` -/
def specChain (a b : V3) (r : Nat) : List V3 :=
  (List.range (r + 1)).map (fun (j : Nat) => lerp a b ((j : Rat) / (r : Rat)))

theorem range_succ_succ (m : Nat) :
    List.range (m + 2) = 0 :: ((List.range m).map (· + 1) ++ [m + 1]) := by
  rw [List.range_succ_eq_map, List.range_succ]
  simp

theorem chain_eq_spec (a b : V3) (r : Nat) (hr : 1 ≤ r) :
    a :: (interior a b r ++ [b]) = specChain a b r := by
  obtain ⟨m, rfl⟩ : ∃ m, r = m + 1 := ⟨r - 1, by omega⟩
  have hne : ((m + 1 : Nat) : Rat) ≠ 0 := by
    have : (0 : Rat) < ((m + 1 : Nat) : Rat) := by exact_mod_cast Nat.succ_pos m
    exact ne_of_gt this
  unfold specChain interior
  rw [range_succ_succ]
  simp only [List.map_cons, List.map_append, List.map_map, List.map_nil, Nat.add_sub_cancel]
  congr 1
  · simp [lerp_zero]
  · congr 1
    simp only [List.cons.injEq, and_true]
    rw [div_self hne, lerp_one]

theorem specChain_length (a b : V3) (r : Nat) : (specChain a b r).length = r + 1 := by
  simp [specChain]

theorem specChain_get (a b : V3) (r j : Nat) (hj : j ≤ r) :
    (specChain a b r)[j]? = some (lerp a b ((j : Rat) / (r : Rat))) := by
  unfold specChain
  rw [List.getElem?_map, List.getElem?_range (by omega)]
  rfl

/-! ### invariant of the refinement loop -/

/-- every registered old node `k ↦ i` has its coordinates stored at new position `i` -/
def Inv (nodes : List V3) (st : RSt) : Prop :=
  ∀ k i, lookup k st.map = some i → st.xs[i]? = some (nodeAt nodes k)

theorem get_append_of_some {α : Type} {xs : List α} {i : Nat} {v : α} (t : List α)
    (h : xs[i]? = some v) : (xs ++ t)[i]? = some v := by
  have hi : i < xs.length := by
    by_contra hc
    rw [List.getElem?_eq_none (by omega)] at h
    cases h
  rw [List.getElem?_append_left hi, h]

theorem inv_append {nodes : List V3} {st : RSt} (t : List V3) (h : Inv nodes st) :
    Inv nodes ⟨st.xs ++ t, st.map⟩ := by
  intro k i hk
  exact get_append_of_some t (h k i hk)

theorem addOld_spec (nodes : List V3) (st : RSt) (k : Nat) (h : Inv nodes st) :
    Inv nodes (addOld nodes st k).1 ∧
    (addOld nodes st k).1.xs[(addOld nodes st k).2]? = some (nodeAt nodes k) ∧
    ∃ t, (addOld nodes st k).1.xs = st.xs ++ t := by
  unfold addOld
  cases hl : lookup k st.map with
  | some i =>
    exact ⟨h, h k i hl, [], by simp⟩
  | none =>
    refine ⟨?_, by simp, [nodeAt nodes k], rfl⟩
    intro k' i' hk'
    simp only [lookup] at hk'
    by_cases hkk : k = k'
    · subst hkk
      simp only [if_true, Option.some.injEq] at hk'
      subst hk'
      simp
    · rw [if_neg hkk] at hk'
      exact get_append_of_some _ (h k' i' hk')

theorem map_some_mono {f g : Nat → Option V3} (h : ∀ i v, f i = some v → g i = some v) :
    ∀ (l : List Nat) (s : List V3), l.map f = s.map some → l.map g = s.map some := by
  intro l
  induction l with
  | nil => intro s hs; cases s <;> simp_all
  | cons i l ih =>
    intro s hs
    cases s with
    | nil => simp at hs
    | cons v s =>
      simp only [List.map_cons, List.cons.injEq] at hs ⊢
      exact ⟨h i v hs.1, ih s hs.2⟩

/-- the chain of new node indices of old cell `cell` carries the coordinates of the spec chain -/
def ChainOK (nodes : List V3) (r : Nat) (xs : List V3) (cell : Nat × Nat) (chain : List Nat) : Prop :=
  chain.map (fun i => xs[i]?) = (specChain (nodeAt nodes cell.1) (nodeAt nodes cell.2) r).map some

theorem chainOK_append {nodes : List V3} {r : Nat} {xs : List V3} {cell : Nat × Nat}
    {chain : List Nat} (t : List V3) (h : ChainOK nodes r xs cell chain) :
    ChainOK nodes r (xs ++ t) cell chain :=
  map_some_mono (fun _ _ hv => get_append_of_some t hv) chain _ h

theorem range'_map_get (xs ys t : List V3) :
    (List.range' xs.length ys.length).map (fun i => ((xs ++ ys) ++ t)[i]?) = ys.map some := by
  apply List.ext_getElem?
  intro i
  simp only [List.getElem?_map]
  by_cases hi : i < ys.length
  · rw [List.getElem?_range' (by simpa using hi)]
    simp only [Option.map_some]
    rw [List.getElem?_append_left (by simp; omega), List.getElem?_append_right (by omega)]
    simp [hi]
  · rw [List.getElem?_eq_none (by simp; omega), List.getElem?_eq_none (by omega)]
    simp

theorem interior_length (a b : V3) (r : Nat) : (interior a b r).length = r - 1 := by
  simp [interior]

theorem refineCell_spec (nodes : List V3) (r : Nat) (hr : 1 ≤ r) (st : RSt) (se : Nat × Nat)
    (h : Inv nodes st) :
    Inv nodes (refineCell nodes r st se).1 ∧
    (∃ t, (refineCell nodes r st se).1.xs = st.xs ++ t) ∧
    ChainOK nodes r (refineCell nodes r st se).1.xs se (refineCell nodes r st se).2 := by
  obtain ⟨h1, g1, t1, e1⟩ := addOld_spec nodes st se.1 h
  set r1 := addOld nodes st se.1 with hr1
  set inter := interior (nodeAt nodes se.1) (nodeAt nodes se.2) r with hint
  have h2 : Inv nodes ⟨r1.1.xs ++ inter, r1.1.map⟩ := inv_append inter h1
  obtain ⟨h3, g3, t3, e3⟩ := addOld_spec nodes ⟨r1.1.xs ++ inter, r1.1.map⟩ se.2 h2
  set r3 := addOld nodes ⟨r1.1.xs ++ inter, r1.1.map⟩ se.2 with hr3
  have hcell : refineCell nodes r st se
      = (r3.1, r1.2 :: (List.range' r1.1.xs.length (r - 1) ++ [r3.2])) := rfl
  rw [hcell]
  refine ⟨h3, ⟨t1 ++ inter ++ t3, ?_⟩, ?_⟩
  · show r3.1.xs = _
    rw [e3]; show (r1.1.xs ++ inter) ++ t3 = _
    rw [e1]; simp
  · unfold ChainOK
    rw [← chain_eq_spec _ _ r hr]
    show List.map (fun i => r3.1.xs[i]?) _ = _
    rw [e3]
    show List.map (fun i => ((r1.1.xs ++ inter) ++ t3)[i]?) _ = _
    simp only [List.map_cons, List.map_append, List.map_nil]
    congr 1
    · rw [List.append_assoc]; exact get_append_of_some _ g1
    · congr 1
      · have := range'_map_get r1.1.xs inter t3
        rw [interior_length] at this
        exact this
      · simp only [List.cons.injEq, and_true]
        have := g3
        rw [e3] at this
        exact this

theorem refineAll_spec (nodes : List V3) (r : Nat) (hr : 1 ≤ r) :
    ∀ (cells : List (Nat × Nat)) (st : RSt), Inv nodes st →
      (∃ t, (refineAll nodes r cells st).1.xs = st.xs ++ t) ∧
      List.Forall₂ (ChainOK nodes r (refineAll nodes r cells st).1.xs) cells
        (refineAll nodes r cells st).2 := by
  intro cells
  induction cells with
  | nil => intro st _; exact ⟨⟨[], by simp [refineAll]⟩, by simp [refineAll]⟩
  | cons c cs ih =>
    intro st h
    obtain ⟨hc1, ⟨tc, ec⟩, hc3⟩ := refineCell_spec nodes r hr st c h
    obtain ⟨⟨tr, er⟩, hf⟩ := ih (refineCell nodes r st c).1 hc1
    have hun : refineAll nodes r (c :: cs) st
        = ((refineAll nodes r cs (refineCell nodes r st c).1).1,
           (refineCell nodes r st c).2 :: (refineAll nodes r cs (refineCell nodes r st c).1).2) := rfl
    rw [hun]
    refine ⟨⟨tc ++ tr, ?_⟩, ?_⟩
    · show (refineAll nodes r cs (refineCell nodes r st c).1).1.xs = _
      rw [er, ec]; simp
    · refine List.Forall₂.cons ?_ hf
      show ChainOK nodes r (refineAll nodes r cs (refineCell nodes r st c).1).1.xs c _
      rw [er]
      exact chainOK_append tr hc3

/-! ### indexing: `Forall₂`, chains, equal-sized blocks -/

theorem forall2_get {α β : Type} {R : α → β → Prop} {l1 : List α} {l2 : List β}
    (h : List.Forall₂ R l1 l2) : ∀ (c : Nat) (a : α), l1[c]? = some a →
      ∃ b, l2[c]? = some b ∧ R a b := by
  induction h with
  | nil => intro c a ha; simp at ha
  | cons hab _ ih =>
    intro c a ha
    cases c with
    | zero =>
      simp only [List.getElem?_cons_zero, Option.some.injEq] at ha
      subst ha
      exact ⟨_, by simp, hab⟩
    | succ c =>
      simp only [List.getElem?_cons_succ] at ha ⊢
      exact ih c a ha

theorem forall2_length {α β : Type} {R : α → β → Prop} {l1 : List α} {l2 : List β}
    (h : List.Forall₂ R l1 l2) : l1.length = l2.length := by
  induction h with
  | nil => rfl
  | cons _ _ ih => simp [ih]

theorem chainCells_length : ∀ (chain : List Nat), (chainCells chain).length = chain.length - 1
  | [] => rfl
  | [_] => rfl
  | a :: b :: rest => by
    simp only [chainCells, List.length_cons]
    rw [chainCells_length (b :: rest)]
    simp

theorem chainCells_get : ∀ (chain : List Nat) (k p q : Nat),
    chain[k]? = some p → chain[k + 1]? = some q → (chainCells chain)[k]? = some (p, q)
  | [], k, p, q, h, _ => by simp at h
  | [_], k, p, q, _, h => by simp at h
  | a :: b :: rest, 0, p, q, h1, h2 => by
    simp only [List.getElem?_cons_zero, Option.some.injEq, Nat.zero_add,
      List.getElem?_cons_succ] at h1 h2
    subst h1; subst h2
    simp [chainCells]
  | a :: b :: rest, k + 1, p, q, h1, h2 => by
    simp only [List.getElem?_cons_succ] at h1 h2
    simp only [chainCells, List.getElem?_cons_succ]
    exact chainCells_get (b :: rest) k p q h1 h2

/-- element `c*r + k` of the concatenation of blocks of equal length `r` -/
theorem flatten_get_blocks {α : Type} (r : Nat) : ∀ (blocks : List (List α)),
    (∀ b ∈ blocks, b.length = r) → ∀ (c k : Nat), k < r →
      blocks.flatten[c * r + k]? = (blocks[c]?).bind (fun b => b[k]?) := by
  intro blocks
  induction blocks with
  | nil => intro _ c k _; simp
  | cons b bs ih =>
    intro hall c k hk
    have hb : b.length = r := hall b (by simp)
    have hbs : ∀ b' ∈ bs, b'.length = r := fun b' hb' => hall b' (by simp [hb'])
    cases c with
    | zero =>
      simp only [List.flatten_cons, Nat.zero_mul, Nat.zero_add, List.getElem?_cons_zero,
        Option.bind_some]
      rw [List.getElem?_append_left (by omega)]
    | succ c =>
      simp only [List.flatten_cons, List.getElem?_cons_succ]
      rw [List.getElem?_append_right (by rw [hb, Nat.succ_mul]; omega)]
      have : (c + 1) * r + k - b.length = c * r + k := by rw [hb, Nat.succ_mul]; omega
      rw [this]
      exact ih hbs c k hk

theorem flatten_length_blocks {α : Type} (r : Nat) : ∀ (blocks : List (List α)),
    (∀ b ∈ blocks, b.length = r) → blocks.flatten.length = blocks.length * r := by
  intro blocks
  induction blocks with
  | nil => intro _; simp
  | cons b bs ih =>
    intro hall
    have hb : b.length = r := hall b (by simp)
    have hbs : ∀ b' ∈ bs, b'.length = r := fun b' hb' => hall b' (by simp [hb'])
    simp only [List.flatten_cons, List.length_append, List.length_cons, hb, ih hbs]
    rw [Nat.succ_mul]; omega

/-- a chain that carries the spec coordinates has `r+1` entries, the `j`-th pointing at
    `a*(1-j/r) + b*(j/r)` -/
theorem chainOK_get {nodes : List V3} {r : Nat} {xs : List V3} {cell : Nat × Nat}
    {chain : List Nat} (h : ChainOK nodes r xs cell chain) :
    chain.length = r + 1 ∧ ∀ j, j ≤ r → ∃ p, chain[j]? = some p ∧
      xs[p]? = some (lerp (nodeAt nodes cell.1) (nodeAt nodes cell.2) ((j : Rat) / (r : Rat))) := by
  unfold ChainOK at h
  constructor
  · have := congrArg List.length h
    simpa [specChain_length] using this
  · intro j hj
    have hg := congrArg (fun l => l[j]?) h
    simp only [List.getElem?_map, specChain_get _ _ r j hj, Option.map_some] at hg
    cases hc : chain[j]? with
    | none => rw [hc] at hg; simp at hg
    | some p =>
      rw [hc] at hg
      simp only [Option.map_some, Option.some.injEq] at hg
      exact ⟨p, rfl, hg⟩

/-! ### refine_triangle_grid -/

/-- the stored face `f` joins the nodes `p` and `q` (in either order) -/
def IsEdge (f : Nat × Nat) (p q : Nat) : Prop := (f.1 = p ∧ f.2 = q) ∨ (f.1 = q ∧ f.2 = p)

theorem sharedNode_spec (f g : Nat × Nat) (p q s : Nat) (hf : IsEdge f q s) (hg : IsEdge g p q)
    (hsp : s ≠ p) (hsq : s ≠ q) : sharedNode f g = q := by
  obtain ⟨f1, f2⟩ := f
  obtain ⟨g1, g2⟩ := g
  unfold IsEdge at hf hg
  unfold sharedNode
  simp only at hf hg ⊢
  rcases hf with ⟨rfl, rfl⟩ | ⟨rfl, rfl⟩ <;> rcases hg with ⟨rfl, rfl⟩ | ⟨rfl, rfl⟩ <;> simp_all

theorem P2.ext' {a b : P2} (hx : a.x = b.x) (hy : a.y = b.y) : a = b := by
  cases a; cases b; simp_all

theorem mid_comm (a b : P2) : P2.mid a b = P2.mid b a := by
  apply P2.ext' <;> simp [P2.mid] <;> ring

theorem triNew_old (nodes : List P2) (fn : List (Nat × Nat)) (k : Nat) (hk : k < nodes.length) :
    p2At (triNewNodes nodes fn) k = p2At nodes k := by
  simp [p2At, triNewNodes, List.getD, List.getElem?_append_left hk]

theorem triNew_mid (nodes : List P2) (fn : List (Nat × Nat)) (f : Nat) (hf : f < fn.length) :
    p2At (triNewNodes nodes fn) (nodes.length + f)
      = P2.mid (p2At nodes (faceAt fn f).1) (p2At nodes (faceAt fn f).2) := by
  simp only [p2At, triNewNodes, List.getD, faceAt]
  rw [List.getElem?_append_right (by omega)]
  simp [hf]

theorem mid_of_edge (nodes : List P2) (f : Nat × Nat) (p q : Nat) (h : IsEdge f p q) :
    P2.mid (p2At nodes f.1) (p2At nodes f.2) = P2.mid (p2At nodes p) (p2At nodes q) := by
  rcases h with ⟨h1, h2⟩ | ⟨h1, h2⟩
  · rw [h1, h2]
  · rw [h1, h2, mid_comm]

/-! ### structured_refinement sweep -/

theorem assign_sound {α β : Type} (inside : α → β → Bool) :
    ∀ (cells : List α) (u : List (Nat × β)) (c : Nat) (col : List Nat),
      (assign inside cells u)[c]? = some col → ∀ i, i ∈ col →
        ∃ p cell, (i, p) ∈ u ∧ cells[c]? = some cell ∧ inside cell p = true ∧
          ∀ c' cell', c' < c → cells[c']? = some cell' → inside cell' p = false := by
  intro cells
  induction cells with
  | nil => intro u c col h; simp [assign] at h
  | cons cell cs ih =>
    intro u c col h i hi
    cases c with
    | zero =>
      simp only [assign, assignStep, List.getElem?_cons_zero, Option.some.injEq] at h
      subst h
      simp only [List.mem_map, List.mem_filter] at hi
      obtain ⟨⟨i', p⟩, ⟨hm, hin⟩, rfl⟩ := hi
      exact ⟨p, cell, hm, by simp, hin, fun c' _ hc' => absurd hc' (Nat.not_lt_zero _)⟩
    | succ c =>
      simp only [assign, List.getElem?_cons_succ] at h
      obtain ⟨p, cell', hm, hc, hin, hfirst⟩ := ih _ c col h i hi
      simp only [assignStep, List.mem_filter, Bool.not_eq_true'] at hm
      refine ⟨p, cell', hm.1, by simpa using hc, hin, ?_⟩
      intro c' cell'' hc' hget
      cases c' with
      | zero =>
        simp only [List.getElem?_cons_zero, Option.some.injEq] at hget
        subst hget
        exact hm.2
      | succ c' =>
        simp only [List.getElem?_cons_succ] at hget
        exact hfirst c' cell'' (by omega) hget

theorem assign_complete {α β : Type} (inside : α → β → Bool) :
    ∀ (cells : List α) (u : List (Nat × β)) (c : Nat) (cell : α) (i : Nat) (p : β),
      (i, p) ∈ u → cells[c]? = some cell → inside cell p = true →
      (∀ c' cell', c' < c → cells[c']? = some cell' → inside cell' p = false) →
        ∃ col, (assign inside cells u)[c]? = some col ∧ i ∈ col := by
  intro cells
  induction cells with
  | nil => intro u c cell i p _ h; simp at h
  | cons cell0 cs ih =>
    intro u c cell i p hm hget hin hfirst
    cases c with
    | zero =>
      simp only [List.getElem?_cons_zero, Option.some.injEq] at hget
      subst hget
      refine ⟨(assignStep inside cell0 u).1, by simp [assign], ?_⟩
      simp only [assignStep, List.mem_map, List.mem_filter]
      exact ⟨(i, p), ⟨hm, hin⟩, rfl⟩
    | succ c =>
      simp only [List.getElem?_cons_succ] at hget
      have h0 : inside cell0 p = false := hfirst 0 cell0 (by omega) (by simp)
      have hm' : (i, p) ∈ (assignStep inside cell0 u).2 := by
        simp only [assignStep, List.mem_filter, Bool.not_eq_true']
        exact ⟨hm, h0⟩
      obtain ⟨col, hcol, hi⟩ := ih (assignStep inside cell0 u).2 c cell i p hm' hget hin
        (fun c' cell' hc' hg => hfirst (c' + 1) cell' (by omega) (by simpa using hg))
      exact ⟨col, by simpa [assign] using hcol, hi⟩

theorem assign_length {α β : Type} (inside : α → β → Bool) :
    ∀ (cells : List α) (u : List (Nat × β)), (assign inside cells u).length = cells.length := by
  intro cells
  induction cells with
  | nil => intro u; rfl
  | cons c cs ih => intro u; simp [assign, ih]

theorem mem_enum {β : Type} (l : List β) (i : Nat) (p : β) : (i, p) ∈ enum l ↔ l[i]? = some p := by
  unfold enum
  constructor
  · intro h
    obtain ⟨k, hk⟩ := List.getElem?_of_mem h
    rw [List.getElem?_zip_eq_some] at hk
    obtain ⟨h1, h2⟩ := hk
    have hk' : k < l.length := by
      by_contra hc
      rw [List.getElem?_eq_none (by simp; omega)] at h1
      cases h1
    rw [List.getElem?_range hk'] at h1
    simp only [Option.some.injEq] at h1
    subst h1
    exact h2
  · intro h
    have hi : i < l.length := by
      by_contra hc
      rw [List.getElem?_eq_none (by omega)] at h
      cases h
    apply List.mem_of_getElem? (i := i)
    rw [List.getElem?_zip_eq_some]
    exact ⟨List.getElem?_range hi, h⟩

/-! ### extrusion bookkeeping -/

theorem rsum_append (a b : List Rat) : rsum (a ++ b) = rsum a + rsum b := by
  induction a with
  | nil => simp [rsum]
  | cons x xs ih => simp [rsum, ih]; ring

theorem rsum_map_mul (base : List Rat) (h : Rat) : rsum (base.map (fun m => m * h)) = rsum base * h := by
  induction base with
  | nil => simp [rsum]
  | cons x xs ih => simp [rsum, ih]; ring

theorem rsum_extruded (base hs : List Rat) :
    rsum ((hs.map (fun h => base.map (fun m => m * h))).flatten) = rsum base * rsum hs := by
  induction hs with
  | nil => simp [rsum]
  | cons h hs ih =>
    simp only [List.map_cons, List.flatten_cons, rsum_append, rsum_map_mul, ih, rsum]
    ring

theorem rsum_heights : ∀ (z0 : Rat) (zs : List Rat),
    rsum (heights (z0 :: zs)) = (zs.getLastD z0) - z0
  | z0, [] => by simp [heights, rsum]
  | z0, z1 :: zs => by
    simp only [heights, rsum]
    rw [rsum_heights z1 zs]
    cases zs <;> simp [List.getLastD]

/-- strictly increasing sequence (z sorted upwards, positive layer heights) -/
def Increasing : List Rat → Prop
  | a :: b :: rest => a < b ∧ Increasing (b :: rest)
  | _ => True

theorem heights_pos : ∀ (z : List Rat), Increasing z → ∀ h ∈ heights z, 0 < h
  | [], _, h, hm => by simp [heights] at hm
  | [_], _, h, hm => by simp [heights] at hm
  | a :: b :: rest, hinc, h, hm => by
    simp only [heights, List.mem_cons] at hm
    rcases hm with rfl | hm
    · have := hinc.1; linarith
    · exact heights_pos (b :: rest) hinc.2 h hm

theorem heights_length : ∀ (z : List Rat), (heights z).length = z.length - 1
  | [] => rfl
  | [_] => rfl
  | a :: b :: rest => by
    simp only [heights, List.length_cons]
    rw [heights_length (b :: rest)]
    simp

theorem arange_get (s step n k : Nat) (hk : k < n) : (arange s step n)[k]? = some (s + k * step) := by
  simp [arange, List.getElem?_range hk]

theorem arange_length (s step n : Nat) : (arange s step n).length = n := by simp [arange]

theorem forall2_right_mem {α β : Type} {R : α → β → Prop} {l1 : List α} {l2 : List β}
    (h : List.Forall₂ R l1 l2) : ∀ b ∈ l2, ∃ a, a ∈ l1 ∧ R a b := by
  induction h with
  | nil => intro b hb; simp at hb
  | cons hab _ ih =>
    intro b hb
    rcases List.mem_cons.mp hb with rfl | hb
    · exact ⟨_, by simp, hab⟩
    · obtain ⟨a, ha, hr⟩ := ih b hb
      exact ⟨a, by simp [ha], hr⟩

theorem extrudeNodes_get (nodes : List V3) (z : List Rat) (k n : Nat) (zk : Rat) (p : V3)
    (hz : z[k]? = some zk) (hn : nodes[n]? = some p) :
    (extrudeNodes nodes z)[n + k * nodes.length]? = some ⟨p.x, p.y, zk⟩ := by
  have hnlt : n < nodes.length := by
    by_contra hc
    rw [List.getElem?_eq_none (by omega)] at hn
    cases hn
  unfold extrudeNodes
  rw [Nat.add_comm, flatten_get_blocks nodes.length _ _ k n hnlt]
  · simp [hz, hn]
  · intro b hb
    simp only [List.mem_map] at hb
    obtain ⟨_, _, rfl⟩ := hb
    simp

theorem extrudeNodes_length (nodes : List V3) (z : List Rat) :
    (extrudeNodes nodes z).length = z.length * nodes.length := by
  unfold extrudeNodes
  rw [flatten_length_blocks nodes.length]
  · simp
  · intro b hb
    simp only [List.mem_map] at hb
    obtain ⟨_, _, rfl⟩ := hb
    simp

theorem verticalFaces_length (nn : Nat) (fn : List (List Nat)) (layers : Nat) :
    (verticalFaces nn fn layers).length = layers * fn.length := by
  unfold verticalFaces
  rw [flatten_length_blocks fn.length]
  · simp
  · intro b hb
    simp only [List.mem_map] at hb
    obtain ⟨_, _, rfl⟩ := hb
    simp

theorem horizontalFaces_get (nn : Nat) (cn : List (List Nat)) (L j c : Nat) (ns : List Nat)
    (hj : j < L) (hc : cn[c]? = some ns) :
    (horizontalFaces nn cn L)[j * cn.length + c]? = some (ns.map (· + j * nn)) := by
  have hclt : c < cn.length := by
    by_contra hcc
    rw [List.getElem?_eq_none (by omega)] at hc
    cases hc
  unfold horizontalFaces
  rw [flatten_get_blocks cn.length _ _ j c hclt]
  · simp [List.getElem?_range hj, hc]
  · intro b hb
    simp only [List.mem_map] at hb
    obtain ⟨_, _, rfl⟩ := hb
    simp

theorem extrudeCells_get (b : Base) (layers k c : Nat) (hk : k < layers) (hc : c < b.cf.length) :
    ∃ vert, (extrudeCells b layers)[k * b.cf.length + c]? =
      some (vert ++ [(b.fn.length * layers + k * b.cf.length + c, (-1 : Int)),
                     (b.fn.length * layers + (k + 1) * b.cf.length + c, (1 : Int))]) := by
  unfold extrudeCells
  simp only []
  rw [flatten_get_blocks b.cf.length _ _ k c hc]
  · simp only [List.getElem?_map, List.getElem?_range hk, Option.map_some, Option.bind_some,
      List.getElem?_range hc]
    exact ⟨_, rfl⟩
  · intro b' hb'
    simp only [List.mem_map] at hb'
    obtain ⟨_, _, rfl⟩ := hb'
    simp

/-! ### Euclidean length, triangle children -/

/-- Euclidean length of a rational vector (a real number) -/
noncomputable def len (v : V3) : ℝ := Real.sqrt ((V3.nsq v : Rat) : ℝ)

theorem len_smul (t : Rat) (ht : 0 ≤ t) (v : V3) : len (V3.smul t v) = (t : ℝ) * len v := by
  unfold len
  rw [nsq_smul]
  push_cast
  have ht' : (0 : ℝ) ≤ (t : ℝ) := by exact_mod_cast ht
  rw [Real.sqrt_mul (mul_self_nonneg _), Real.sqrt_mul_self ht']

def triCoords (N : List P2) (t : Tri) : P2 × P2 × P2 := (p2At N t.1, p2At N t.2.1, p2At N t.2.2)

/-- the four geometric children of the triangle (P, Q, S) -/
def geomChildren (P Q S : P2) : List (P2 × P2 × P2) :=
  [ (Q, P2.mid Q S, P2.mid P Q), (S, P2.mid S P, P2.mid Q S), (P, P2.mid P Q, P2.mid S P),
    (P2.mid P Q, P2.mid Q S, P2.mid S P) ]

def centroid (t : P2 × P2 × P2) : P2 :=
  ⟨(t.1.x + t.2.1.x + t.2.2.x) / 3, (t.1.y + t.2.1.y + t.2.2.y) / 3⟩

theorem inside2d_of_bary (P Q S c : P2) (wP wQ wS : Rat) (hsum : wP + wQ + wS = 1)
    (hx : c.x = wP * P.x + wQ * Q.x + wS * S.x) (hy : c.y = wP * P.y + wQ * Q.y + wS * S.y)
    (hP : 0 < wP) (hQ : 0 < wQ) (hS : 0 < wS) (hA : area2 P Q S ≠ 0) :
    inside2d (P, Q, S) c = true := by
  have e : wP = 1 - wQ - wS := by linarith
  have h1 : area2 P Q c = wS * area2 P Q S := by
    simp only [area2]; rw [hx, hy, e]; ring
  have h2 : area2 Q S c = wP * area2 P Q S := by
    simp only [area2]; rw [hx, hy, e]; ring
  have h3 : area2 S P c = wQ * area2 P Q S := by
    simp only [area2]; rw [hx, hy, e]; ring
  unfold inside2d
  simp only [h1, h2, h3]
  rcases lt_or_gt_of_ne hA with h | h
  · have a1 := mul_neg_of_pos_of_neg hS h
    have a2 := mul_neg_of_pos_of_neg hP h
    have a3 := mul_neg_of_pos_of_neg hQ h
    simp [a1, a2, a3]
  · have a1 := mul_pos hS h
    have a2 := mul_pos hP h
    have a3 := mul_pos hQ h
    simp [a1, a2, a3]

/-! ### extrude_mdg coupling, Cartesian sweep, face orientation -/

theorem mem_coupleLayers (ncLow nfHigh L : Nat) (pairs : List (Nat × Nat)) (c' f' : Nat) :
    (c', f') ∈ coupleLayers ncLow nfHigh L pairs ↔
      ∃ c f k, (c, f) ∈ pairs ∧ k < L ∧ c' = c + k * ncLow ∧ f' = f + k * nfHigh := by
  unfold coupleLayers
  simp only [List.mem_flatten, List.mem_map]
  constructor
  · rintro ⟨l, ⟨⟨c, f⟩, hp, rfl⟩, hmem⟩
    simp only [List.mem_map, List.mem_range, Prod.mk.injEq] at hmem
    obtain ⟨k, hk, h1, h2⟩ := hmem
    exact ⟨c, f, k, hp, hk, h1.symm, h2.symm⟩
  · rintro ⟨c, f, k, hp, hk, rfl, rfl⟩
    refine ⟨_, ⟨(c, f), hp, rfl⟩, ?_⟩
    simp only [List.mem_map, List.mem_range]
    exact ⟨k, hk, rfl⟩

theorem mem_otherSide (nfHigh L : Nat) (pairs : List (Nat × Nat)) (f' : Nat) :
    f' ∈ otherSide nfHigh L pairs ↔
      ∃ c f k, (c, f) ∈ pairs ∧ aboveMedian pairs f = true ∧ k < L ∧ f' = f + k * nfHigh := by
  unfold otherSide arange
  simp only [List.mem_flatten, List.mem_map, List.mem_filter]
  constructor
  · rintro ⟨l, ⟨⟨c, f⟩, ⟨hp, ha⟩, rfl⟩, hmem⟩
    simp only [List.mem_map, List.mem_range] at hmem
    obtain ⟨k, hk, heq⟩ := hmem
    exact ⟨c, f, k, hp, ha, hk, heq.symm⟩
  · rintro ⟨c, f, k, hp, ha, hk, rfl⟩
    refine ⟨_, ⟨(c, f), ⟨hp, ha⟩, rfl⟩, ?_⟩
    simp only [List.mem_map, List.mem_range]
    exact ⟨k, hk, rfl⟩

theorem layer_decomp (nc : Nat) (c k c' k' : Nat) (hc : c < nc) (hc' : c' < nc)
    (h : c + k * nc = c' + k' * nc) : c = c' ∧ k = k' := by
  have hnc : 0 < nc := by omega
  have hk : k = k' := by
    have e1 : (c + k * nc) / nc = k := by
      rw [Nat.add_mul_div_right _ _ hnc, Nat.div_eq_of_lt hc]; simp
    have e2 : (c' + k' * nc) / nc = k' := by
      rw [Nat.add_mul_div_right _ _ hnc, Nat.div_eq_of_lt hc']; simp
    rw [← e1, ← e2, h]
  subst hk
  exact ⟨by omega, rfl⟩

theorem nodup_getElem?_inj {α : Type} : ∀ (l : List α), l.Nodup → ∀ (a b : Nat) (x : α),
    l[a]? = some x → l[b]? = some x → a = b := by
  intro l
  induction l with
  | nil => intro _ a b x h; simp at h
  | cons y ys ih =>
    intro hnd a b x ha hb
    rw [List.nodup_cons] at hnd
    cases a with
    | zero =>
      cases b with
      | zero => rfl
      | succ b =>
        simp only [List.getElem?_cons_zero, Option.some.injEq, List.getElem?_cons_succ] at ha hb
        subst ha
        exact absurd (List.mem_of_getElem? hb) hnd.1
    | succ a =>
      cases b with
      | zero =>
        simp only [List.getElem?_cons_zero, Option.some.injEq, List.getElem?_cons_succ] at ha hb
        subst hb
        exact absurd (List.mem_of_getElem? ha) hnd.1
      | succ b =>
        simp only [List.getElem?_cons_succ] at ha hb
        rw [ih hnd.2 a b x ha hb]

/-- normal of the model's vertical face: `±(B - A) × (0, 0, z1 - z0)` -/
theorem vertFace_normal (A B : P2) (z0 z1 : Rat) (flip : Bool) :
    faceNormal (vertFaceCoords A B z0 z1 flip)
      = V3.smul (if flip then -1 else 1) (V3.cross ⟨B.x - A.x, B.y - A.y, 0⟩ ⟨0, 0, z1 - z0⟩) := by
  cases flip <;> apply V3.ext' <;>
    simp [vertFaceCoords, faceNormal, V3.cross, V3.sub, V3.smul] <;> ring

theorem signed_normal_core (A B pc : P2) (s ε h habs : Rat) (hpos : 0 < habs)
    (hne : area2 A B pc ≠ 0)
    (key : s * ε * h = if 0 < area2 A B pc then habs else -habs) :
    V3.smul s (V3.smul ε (V3.cross ⟨B.x - A.x, B.y - A.y, 0⟩ ⟨0, 0, h⟩))
      = (if 0 < area2 A B pc then V3.cross ⟨B.x - A.x, B.y - A.y, 0⟩ ⟨0, 0, habs⟩
         else V3.cross ⟨A.x - B.x, A.y - B.y, 0⟩ ⟨0, 0, habs⟩) ∧
    0 < s * ((V3.smul ε (V3.cross ⟨B.x - A.x, B.y - A.y, 0⟩ ⟨0, 0, h⟩)).x * (A.x - pc.x)
          + (V3.smul ε (V3.cross ⟨B.x - A.x, B.y - A.y, 0⟩ ⟨0, 0, h⟩)).y * (A.y - pc.y)) ∧
    (V3.smul ε (V3.cross ⟨B.x - A.x, B.y - A.y, 0⟩ ⟨0, 0, h⟩)).z = 0 := by
  have hdot : s * ((V3.smul ε (V3.cross ⟨B.x - A.x, B.y - A.y, 0⟩ ⟨0, 0, h⟩)).x * (A.x - pc.x)
          + (V3.smul ε (V3.cross ⟨B.x - A.x, B.y - A.y, 0⟩ ⟨0, 0, h⟩)).y * (A.y - pc.y))
      = (s * ε * h) * area2 A B pc := by
    simp only [V3.smul, V3.cross, area2]; ring
  refine ⟨?_, ?_, by simp [V3.smul, V3.cross]⟩
  · by_cases ha : 0 < area2 A B pc
    · rw [if_pos ha] at key ⊢
      apply V3.ext' <;> simp only [V3.smul, V3.cross] <;>
        first
          | linear_combination (B.y - A.y) * key
          | linear_combination (-(B.x - A.x)) * key
          | ring
    · rw [if_neg ha] at key ⊢
      apply V3.ext' <;> simp only [V3.smul, V3.cross] <;>
        first
          | linear_combination (B.y - A.y) * key
          | linear_combination (-(B.x - A.x)) * key
          | ring
  · rw [hdot, key]
    by_cases ha : 0 < area2 A B pc
    · rw [if_pos ha]; exact mul_pos hpos ha
    · rw [if_neg ha]
      have : area2 A B pc < 0 := lt_of_le_of_ne (not_lt.mp ha) hne
      nlinarith


theorem facesOrdered_vertical_get (b : Base) (neg : Bool) (layers k f : Nat) (hk : k < layers)
    (hf : f < b.fn.length) :
    (verticalOrdered b neg layers)[k * b.fn.length + f]? =
      ((faceFlips b neg)[f]?).map (fun abf =>
        verticalFaceOrdered b.nodes.length abf.1 abf.2.1 abf.2.2 k) := by
  have hlen : (faceFlips b neg).length = b.fn.length := by simp [faceFlips]
  unfold verticalOrdered
  rw [flatten_get_blocks b.fn.length _ _ k f hf]
  · simp [List.getElem?_range hk]
  · intro blk hblk
    simp only [List.mem_map] at hblk
    obtain ⟨_, _, rfl⟩ := hblk
    simp [hlen]

theorem verticalOrdered_length (b : Base) (neg : Bool) (layers : Nat) :
    (verticalOrdered b neg layers).length = layers * b.fn.length := by
  have hlen : (faceFlips b neg).length = b.fn.length := by simp [faceFlips]
  unfold verticalOrdered
  rw [flatten_length_blocks b.fn.length]
  · simp
  · intro blk hblk
    simp only [List.mem_map] at hblk
    obtain ⟨_, _, rfl⟩ := hblk
    simp [hlen]

theorem horizontalOrdered_get (b : Base) (neg : Bool) (L j c : Nat) (hj : j < L) (hc : c < b.cf.length) :
    (horizontalOrdered b neg L)[j * b.cf.length + c]? =
      ((cellCycles b neg)[c]?).map (fun cyc => cyc.map (· + j * b.nodes.length)) := by
  have hlen : (cellCycles b neg).length = b.cf.length := by simp [cellCycles]
  unfold horizontalOrdered
  rw [flatten_get_blocks b.cf.length _ _ j c hc]
  · simp [List.getElem?_range hj]
  · intro blk hblk
    simp only [List.mem_map] at hblk
    obtain ⟨_, _, rfl⟩ := hblk
    simp [hlen]

/-! ### decidable input conditions -/

theorem isEdgeB_sound (f : Nat × Nat) (p q : Nat) (h : isEdgeB f p q = true) : IsEdge f p q := by
  simp only [isEdgeB, Bool.or_eq_true, Bool.and_eq_true, decide_eq_true_eq] at h
  exact h

theorem filter_length_one {α : Type} (P : α → Bool) : ∀ (cells : List α),
    (cells.filter P).length = 1 →
      ∃ c cell, cells[c]? = some cell ∧ P cell = true ∧
        ∀ (c' : Nat) (cell' : α), c' ≠ c → cells[c']? = some cell' → P cell' = false := by
  intro cells
  induction cells with
  | nil => intro h; simp at h
  | cons x xs ih =>
    intro h
    cases hx : P x with
    | true =>
      rw [List.filter_cons_of_pos (by simpa using hx)] at h
      have hnil : xs.filter P = [] := by
        cases hf : xs.filter P with
        | nil => rfl
        | cons _ _ => rw [hf] at h; simp at h
      refine ⟨0, x, by simp, hx, ?_⟩
      intro c' cell' hne hget
      cases c' with
      | zero => exact absurd rfl hne
      | succ n =>
        simp only [List.getElem?_cons_succ] at hget
        have hm : cell' ∈ xs := List.mem_of_getElem? hget
        have := (List.filter_eq_nil_iff.mp hnil) cell' hm
        simpa using this
    | false =>
      rw [List.filter_cons_of_neg (by simp [hx])] at h
      obtain ⟨c, cell, hc, hP, huniq⟩ := ih h
      refine ⟨c + 1, cell, by simpa using hc, hP, ?_⟩
      intro c' cell' hne hget
      cases c' with
      | zero =>
        simp only [List.getElem?_cons_zero, Option.some.injEq] at hget
        subst hget; exact hx
      | succ n =>
        simp only [List.getElem?_cons_succ] at hget
        exact huniq n cell' (by omega) hget

theorem heights_pos_B : ∀ (z : List Rat), increasingB z = true → ∀ h ∈ heights z, 0 < h
  | [], _, h, hm => by simp [heights] at hm
  | [_], _, h, hm => by simp [heights] at hm
  | a :: b :: rest, hinc, h, hm => by
    simp only [increasingB, Bool.and_eq_true, decide_eq_true_eq] at hinc
    simp only [heights, List.mem_cons] at hm
    rcases hm with rfl | hm
    · linarith [hinc.1]
    · exact heights_pos_B (b :: rest) hinc.2 h hm

theorem heights_neg_B : ∀ (z : List Rat), decreasingB z = true → ∀ h ∈ heights z, h < 0
  | [], _, h, hm => by simp [heights] at hm
  | [_], _, h, hm => by simp [heights] at hm
  | a :: b :: rest, hdec, h, hm => by
    simp only [decreasingB, Bool.and_eq_true, decide_eq_true_eq] at hdec
    simp only [heights, List.mem_cons] at hm
    rcases hm with rfl | hm
    · linarith [hdec.1]
    · exact heights_neg_B (b :: rest) hdec.2 h hm

end PorepyVerif.C23
