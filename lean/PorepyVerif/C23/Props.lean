/-
C23 — property theorems (statements depend on Model.lean; helper lemmas in Lemmas.lean).

Property: refining 1D or triangle grids, remeshing 1D grids, and extruding 0D/1D/2D grids produce
grids whose total measure equals the original (times the extrusion height), whose children lie
inside their parent cell, and whose returned cell maps assign each new cell to exactly one parent.
Structured refinement maps every fine cell to the unique coarse cell that contains it.
-/
import PorepyVerif.C23.Lemmas

namespace PorepyVerif.C23

/-! ## refine_grid_1d -/

/-- REFINEMENT: the loop of `refine_grid_1d` (node counter, old→new node map, first-occurrence
    test) produces, for every old cell `(start, end)`, a chain of `r+1` new node indices whose
    stored coordinates are exactly `start*(1-j/r) + end*(j/r)`, `j = 0..r` — for every node array,
    every cell list (any order, shared or split nodes) and every ratio `r ≥ 1`. -/
theorem refine1d_refines_spec (nodes : List V3) (cells : List (Nat × Nat)) (r : Nat) (hr : 1 ≤ r) :
    List.Forall₂ (ChainOK nodes r (refine1d nodes cells r).1) cells (refine1d nodes cells r).2 :=
  (refineAll_spec nodes r hr cells ⟨[], []⟩ (by intro k i h; simp [lookup] at h)).2

example : refine1d [⟨0, 0, 0⟩, ⟨1, 2, 0⟩, ⟨3, 2, 4⟩] [(1, 2), (0, 1)] 2
    = ([⟨1, 2, 0⟩, ⟨2, 2, 2⟩, ⟨3, 2, 4⟩, ⟨0, 0, 0⟩, ⟨1 / 2, 1, 0⟩], [[0, 1, 2], [3, 4, 0]]) := by
  decide +kernel

/-- Each child of a refined 1-d cell is the parent's edge vector scaled by `1/r`
    (so children are parallel to the parent and have `1/r` of its length). -/
theorem refine1d_child_vector (a b : V3) (r k : Nat) (hr : 1 ≤ r) :
    V3.sub (lerp a b (((k + 1 : Nat) : Rat) / (r : Rat))) (lerp a b ((k : Rat) / (r : Rat)))
      = V3.smul (1 / (r : Rat)) (V3.sub b a) := by
  rw [lerp_sub]
  congr 1
  have hne : (r : Rat) ≠ 0 := by
    have : (0 : Rat) < (r : Rat) := by exact_mod_cast hr
    exact ne_of_gt this
  push_cast
  field_simp
  ring

/-- MEASURE (one cell): the Euclidean lengths of the `r` children add up to the length of the parent. -/
theorem refine1d_measure (a b : V3) (r : Nat) (hr : 1 ≤ r) :
    ((List.range r).map (fun (k : Nat) =>
      len (V3.sub (lerp a b (((k + 1 : Nat) : Rat) / (r : Rat))) (lerp a b ((k : Rat) / (r : Rat)))))).sum
      = len (V3.sub b a) := by
  have hpos : (0 : Rat) < (r : Rat) := by exact_mod_cast hr
  have hc : ∀ k : Nat,
      len (V3.sub (lerp a b (((k + 1 : Nat) : Rat) / (r : Rat))) (lerp a b ((k : Rat) / (r : Rat))))
        = ((1 / (r : Rat) : Rat) : ℝ) * len (V3.sub b a) := by
    intro k
    rw [refine1d_child_vector a b r k hr]
    exact len_smul _ (by positivity) _
  simp only [hc]
  rw [List.map_const', List.sum_replicate, List.length_range, nsmul_eq_mul]
  have hr' : ((r : ℕ) : ℝ) ≠ 0 := by
    have : (0 : ℝ) < (r : ℝ) := by exact_mod_cast hr
    exact ne_of_gt this
  push_cast
  field_simp

/-- MEASURE (whole grid): total length of all children = total length of all parents. -/
theorem refine1d_total_measure (ends : List (V3 × V3)) (r : Nat) (hr : 1 ≤ r) :
    (ends.map (fun ab => ((List.range r).map (fun (k : Nat) =>
      len (V3.sub (lerp ab.1 ab.2 (((k + 1 : Nat) : Rat) / (r : Rat)))
        (lerp ab.1 ab.2 ((k : Rat) / (r : Rat)))))).sum)).sum
      = (ends.map (fun ab => len (V3.sub ab.2 ab.1))).sum := by
  congr 1
  apply List.map_congr_left
  intro ab _
  exact refine1d_measure ab.1 ab.2 r hr

example : ((List.range 3).map (fun (k : Nat) =>
    len (V3.sub (lerp ⟨0, 0, 0⟩ ⟨3, 4, 0⟩ (((k + 1 : Nat) : Rat) / ((3 : Nat) : Rat)))
      (lerp ⟨0, 0, 0⟩ ⟨3, 4, 0⟩ ((k : Rat) / ((3 : Nat) : Rat)))))).sum
    = len (V3.sub ⟨3, 4, 0⟩ ⟨0, 0, 0⟩) := refine1d_measure _ _ 3 (by decide)

/-- NESTING / PARENT MAP: in the grid produced by the modelled loop, fine cell number `c*r + k`
    (`k < r`) is the segment from `a*(1-k/r)+b*(k/r)` to `a*(1-(k+1)/r)+b*((k+1)/r)` of old cell
    `c = (a, b)`: both parameters lie in `[0, 1]`, i.e. the child lies inside its parent
    `parent1d r i = i / r`, and exactly the `r` cells `c*r … c*r+r-1` have parent `c`. -/
theorem refine1d_parent_unique (nodes : List V3) (cells : List (Nat × Nat)) (r : Nat) (hr : 1 ≤ r)
    (c k : Nat) (cell : Nat × Nat) (hc : cells[c]? = some cell) (hk : k < r) :
    ∃ p q, (fineCells (refine1d nodes cells r).2)[c * r + k]? = some (p, q) ∧
      (refine1d nodes cells r).1[p]?
        = some (lerp (nodeAt nodes cell.1) (nodeAt nodes cell.2) ((k : Rat) / (r : Rat))) ∧
      (refine1d nodes cells r).1[q]?
        = some (lerp (nodeAt nodes cell.1) (nodeAt nodes cell.2) (((k + 1 : Nat) : Rat) / (r : Rat))) ∧
      parent1d r (c * r + k) = c ∧
      (0 : Rat) ≤ (k : Rat) / (r : Rat) ∧ ((k + 1 : Nat) : Rat) / (r : Rat) ≤ 1 := by
  have hF := refine1d_refines_spec nodes cells r hr
  obtain ⟨chain, hchain, hok⟩ := forall2_get hF c cell hc
  obtain ⟨hlen, hget⟩ := chainOK_get hok
  obtain ⟨p, hp, hxp⟩ := hget k (by omega)
  obtain ⟨q, hq, hxq⟩ := hget (k + 1) (by omega)
  refine ⟨p, q, ?_, hxp, hxq, ?_, ?_, ?_⟩
  · unfold fineCells
    rw [flatten_get_blocks r _ _ c k hk]
    · simp only [List.getElem?_map, hchain, Option.map_some, Option.bind_some]
      exact chainCells_get chain k p q hp hq
    · intro blk hblk
      simp only [List.mem_map] at hblk
      obtain ⟨ch, hch, rfl⟩ := hblk
      obtain ⟨cell', _, hok'⟩ := forall2_right_mem hF ch hch
      rw [chainCells_length, (chainOK_get hok').1]
      simp
  · unfold parent1d
    rw [Nat.mul_comm, Nat.mul_add_div (by omega), Nat.div_eq_of_lt hk]
    simp
  · have : (0 : Rat) < (r : Rat) := by exact_mod_cast hr
    positivity
  · have hpos : (0 : Rat) < (r : Rat) := by exact_mod_cast hr
    rw [div_le_one hpos]
    exact_mod_cast hk

/-- the parent map `i ↦ i / r` has fibres of exactly `r` consecutive cells -/
theorem refine1d_parent_fibre (r i c : Nat) (hr : 1 ≤ r) :
    parent1d r i = c ↔ c * r ≤ i ∧ i < (c + 1) * r := by
  unfold parent1d
  rw [Nat.div_eq_iff (by omega), Nat.succ_mul]
  omega

/-- number of fine cells = `r` × number of coarse cells -/
theorem refine1d_num_cells (nodes : List V3) (cells : List (Nat × Nat)) (r : Nat) (hr : 1 ≤ r) :
    (fineCells (refine1d nodes cells r).2).length = cells.length * r := by
  have hF := refine1d_refines_spec nodes cells r hr
  unfold fineCells
  rw [flatten_length_blocks r]
  · simp [← forall2_length hF]
  · intro blk hblk
    simp only [List.mem_map] at hblk
    obtain ⟨ch, hch, rfl⟩ := hblk
    obtain ⟨cell', _, hok'⟩ := forall2_right_mem hF ch hch
    rw [chainCells_length, (chainOK_get hok').1]
    simp

/-! ## remesh_1d -/

/-- `remesh_1d` nodes: node `k` is `end*(1-k/(n-1)) + start*(k/(n-1))`; the first node is the old
    end point, the last the old start point, and the `n-1` equal cells add up to the old segment. -/
theorem remesh1d_measure (s e : V3) (n : Nat) (hn : 2 ≤ n) :
    (remeshNodes s e n).length = n ∧
    (remeshNodes s e n)[0]? = some e ∧
    (remeshNodes s e n)[n - 1]? = some s ∧
    (∀ k, k < n → (remeshNodes s e n)[k]? = some (lerp e s ((k : Rat) / ((n - 1 : Nat) : Rat)))) ∧
    ((List.range (n - 1)).map (fun (k : Nat) =>
      len (V3.sub (lerp e s (((k + 1 : Nat) : Rat) / ((n - 1 : Nat) : Rat)))
        (lerp e s ((k : Rat) / ((n - 1 : Nat) : Rat)))))).sum = len (V3.sub s e) := by
  have hget : ∀ k, k < n →
      (remeshNodes s e n)[k]? = some (lerp e s ((k : Rat) / ((n - 1 : Nat) : Rat))) := by
    intro k hk
    unfold remeshNodes
    rw [List.getElem?_map, List.getElem?_range hk]
    rfl
  have hne : ((n - 1 : Nat) : Rat) ≠ 0 := by
    have : (0 : Rat) < ((n - 1 : Nat) : Rat) := by exact_mod_cast (by omega : 0 < n - 1)
    exact ne_of_gt this
  refine ⟨by simp [remeshNodes], ?_, ?_, hget, refine1d_measure e s (n - 1) (by omega)⟩
  · rw [hget 0 (by omega)]
    simp [lerp_zero]
  · rw [hget (n - 1) (by omega), div_self hne, lerp_one]

example : remeshNodes ⟨0, 0, 0⟩ ⟨3, 0, 0⟩ 4 = [⟨3, 0, 0⟩, ⟨2, 0, 0⟩, ⟨1, 0, 0⟩, ⟨0, 0, 0⟩] := by
  decide +kernel

/-! ## refine_triangle_grid -/

/-- INDEX CONSTRUCTION: for a cell whose stored faces `(f0, f1, f2)` are the three edges
    `{p,q}, {q,s}, {s,p}` of a triangle (faces stored in either node order — every triangle's face
    list has this form for a suitable naming of its corners), the four index triples built by
    `refine_triangle_grid` point at: each corner with the midpoints of its two edges, and the three
    midpoints. -/
theorem tri_children_coords (nodes : List P2) (fn : List (Nat × Nat)) (f0 f1 f2 p q s : Nat)
    (h0 : f0 < fn.length) (h1 : f1 < fn.length) (h2 : f2 < fn.length)
    (e0 : IsEdge (faceAt fn f0) p q) (e1 : IsEdge (faceAt fn f1) q s) (e2 : IsEdge (faceAt fn f2) s p)
    (hpq : p ≠ q) (hqs : q ≠ s) (hsp : s ≠ p)
    (hp : p < nodes.length) (hq : q < nodes.length) (hs : s < nodes.length) :
    (triChildren fn nodes.length (f0, f1, f2)).map (triCoords (triNewNodes nodes fn))
      = geomChildren (p2At nodes p) (p2At nodes q) (p2At nodes s) := by
  have s10 : sharedNode (faceAt fn f1) (faceAt fn f0) = q :=
    sharedNode_spec _ _ p q s e1 e0 hsp (Ne.symm hqs)
  have s21 : sharedNode (faceAt fn f2) (faceAt fn f1) = s :=
    sharedNode_spec _ _ q s p e2 e1 hpq (Ne.symm hsp)
  have s02 : sharedNode (faceAt fn f0) (faceAt fn f2) = p :=
    sharedNode_spec _ _ s p q e0 e2 hqs (Ne.symm hpq)
  have m0 := (triNew_mid nodes fn f0 h0).trans (mid_of_edge nodes _ p q e0)
  have m1 := (triNew_mid nodes fn f1 h1).trans (mid_of_edge nodes _ q s e1)
  have m2 := (triNew_mid nodes fn f2 h2).trans (mid_of_edge nodes _ s p e2)
  simp only [triChildren, geomChildren, List.map_cons, List.map_nil, triCoords, s10, s21, s02,
    m0, m1, m2, triNew_old nodes fn _ hp, triNew_old nodes fn _ hq, triNew_old nodes fn _ hs]

/-- AREA / NESTING: every child has exactly one quarter of the parent's signed area (same
    orientation), the four areas add up to the parent's, and every child vertex is a convex
    combination of the parent's corners with the explicit weights `0, 1/2, 1` — so each child lies
    inside its parent. -/
theorem tri_children_area (P Q S : P2) :
    (∀ ch ∈ geomChildren P Q S, area2 ch.1 ch.2.1 ch.2.2 = area2 P Q S / 4) ∧
    ((geomChildren P Q S).map (fun ch => area2 ch.1 ch.2.1 ch.2.2)).sum = area2 P Q S ∧
    (∀ ch ∈ geomChildren P Q S, ∀ v, (v = ch.1 ∨ v = ch.2.1 ∨ v = ch.2.2) →
      ∃ α β γ : Rat, 0 ≤ α ∧ 0 ≤ β ∧ 0 ≤ γ ∧ α + β + γ = 1 ∧
        v.x = α * P.x + β * Q.x + γ * S.x ∧ v.y = α * P.y + β * Q.y + γ * S.y) := by
  refine ⟨?_, ?_, ?_⟩
  · intro ch hch
    simp only [geomChildren, List.mem_cons, List.not_mem_nil, or_false] at hch
    rcases hch with rfl | rfl | rfl | rfl <;> simp only [area2, P2.mid] <;> ring
  · simp only [geomChildren, List.map_cons, List.map_nil, List.sum_cons, List.sum_nil, area2, P2.mid]
    ring
  · intro ch hch v hv
    have hP : ∃ α β γ : Rat, 0 ≤ α ∧ 0 ≤ β ∧ 0 ≤ γ ∧ α + β + γ = 1 ∧
        P.x = α * P.x + β * Q.x + γ * S.x ∧ P.y = α * P.y + β * Q.y + γ * S.y :=
      ⟨1, 0, 0, by norm_num, by norm_num, by norm_num, by norm_num, by ring, by ring⟩
    have hQ : ∃ α β γ : Rat, 0 ≤ α ∧ 0 ≤ β ∧ 0 ≤ γ ∧ α + β + γ = 1 ∧
        Q.x = α * P.x + β * Q.x + γ * S.x ∧ Q.y = α * P.y + β * Q.y + γ * S.y :=
      ⟨0, 1, 0, by norm_num, by norm_num, by norm_num, by norm_num, by ring, by ring⟩
    have hS : ∃ α β γ : Rat, 0 ≤ α ∧ 0 ≤ β ∧ 0 ≤ γ ∧ α + β + γ = 1 ∧
        S.x = α * P.x + β * Q.x + γ * S.x ∧ S.y = α * P.y + β * Q.y + γ * S.y :=
      ⟨0, 0, 1, by norm_num, by norm_num, by norm_num, by norm_num, by ring, by ring⟩
    have hPQ : ∃ α β γ : Rat, 0 ≤ α ∧ 0 ≤ β ∧ 0 ≤ γ ∧ α + β + γ = 1 ∧
        (P2.mid P Q).x = α * P.x + β * Q.x + γ * S.x ∧ (P2.mid P Q).y = α * P.y + β * Q.y + γ * S.y :=
      ⟨1 / 2, 1 / 2, 0, by norm_num, by norm_num, by norm_num, by norm_num,
        by simp only [P2.mid]; ring, by simp only [P2.mid]; ring⟩
    have hQS : ∃ α β γ : Rat, 0 ≤ α ∧ 0 ≤ β ∧ 0 ≤ γ ∧ α + β + γ = 1 ∧
        (P2.mid Q S).x = α * P.x + β * Q.x + γ * S.x ∧ (P2.mid Q S).y = α * P.y + β * Q.y + γ * S.y :=
      ⟨0, 1 / 2, 1 / 2, by norm_num, by norm_num, by norm_num, by norm_num,
        by simp only [P2.mid]; ring, by simp only [P2.mid]; ring⟩
    have hSP : ∃ α β γ : Rat, 0 ≤ α ∧ 0 ≤ β ∧ 0 ≤ γ ∧ α + β + γ = 1 ∧
        (P2.mid S P).x = α * P.x + β * Q.x + γ * S.x ∧ (P2.mid S P).y = α * P.y + β * Q.y + γ * S.y :=
      ⟨1 / 2, 0, 1 / 2, by norm_num, by norm_num, by norm_num, by norm_num,
        by simp only [P2.mid]; ring, by simp only [P2.mid]; ring⟩
    simp only [geomChildren, List.mem_cons, List.not_mem_nil, or_false] at hch
    rcases hch with rfl | rfl | rfl | rfl <;> rcases hv with rfl | rfl | rfl <;> assumption

example : (geomChildren ⟨0, 0⟩ ⟨4, 0⟩ ⟨0, 2⟩).map (fun ch => area2 ch.1 ch.2.1 ch.2.2) = [2, 2, 2, 2] := by
  decide +kernel

/-- NESTING (centres): the centre of every child lies strictly inside the parent triangle — so the
    containment test of `structured_refinement` (`inside2d`) finds the parent of every child, for any
    non-degenerate parent triangle of either orientation. -/
theorem tri_child_centroid_inside (P Q S : P2) (hA : area2 P Q S ≠ 0) :
    ∀ ch ∈ geomChildren P Q S, inside2d (P, Q, S) (centroid ch) = true := by
  intro ch hch
  simp only [geomChildren, List.mem_cons, List.not_mem_nil, or_false] at hch
  rcases hch with rfl | rfl | rfl | rfl
  · exact inside2d_of_bary P Q S _ (1 / 6) (2 / 3) (1 / 6) (by norm_num)
      (by simp only [centroid, P2.mid]; ring) (by simp only [centroid, P2.mid]; ring)
      (by norm_num) (by norm_num) (by norm_num) hA
  · exact inside2d_of_bary P Q S _ (1 / 6) (1 / 6) (2 / 3) (by norm_num)
      (by simp only [centroid, P2.mid]; ring) (by simp only [centroid, P2.mid]; ring)
      (by norm_num) (by norm_num) (by norm_num) hA
  · exact inside2d_of_bary P Q S _ (2 / 3) (1 / 6) (1 / 6) (by norm_num)
      (by simp only [centroid, P2.mid]; ring) (by simp only [centroid, P2.mid]; ring)
      (by norm_num) (by norm_num) (by norm_num) hA
  · exact inside2d_of_bary P Q S _ (1 / 3) (1 / 3) (1 / 3) (by norm_num)
      (by simp only [centroid, P2.mid]; ring) (by simp only [centroid, P2.mid]; ring)
      (by norm_num) (by norm_num) (by norm_num) hA

example : inside2d (⟨0, 0⟩, ⟨4, 0⟩, ⟨0, 2⟩) (centroid (⟨4, 0⟩, ⟨2, 1⟩, ⟨2, 0⟩)) = true := by decide +kernel

/-- PARENT MAP: the refined grid has `4·nc` cells; column `4c + t` (`t < 4`) is child `t` of cell
    `c`, its parent `triParent (4c+t)` is `c`, and a new cell has parent `c` iff its number lies in
    `4c … 4c+3` — every new cell has exactly one parent and every parent exactly four children. -/
theorem tri_parent_map_total (nn : Nat) (fn : List (Nat × Nat)) (cf : List (Nat × Nat × Nat)) :
    (triRefine nn fn cf).length = 4 * cf.length ∧
    (triParents cf.length).length = 4 * cf.length ∧
    (∀ c t, t < 4 → (triRefine nn fn cf)[c * 4 + t]? = (cf[c]?).bind (fun cell => (triChildren fn nn cell)[t]?)) ∧
    (∀ c t, t < 4 → triParent (c * 4 + t) = c) ∧
    (∀ j c, triParent j = c ↔ c * 4 ≤ j ∧ j < (c + 1) * 4) ∧
    (∀ j, j < 4 * cf.length → (triParents cf.length)[j]? = some (j / 4) ∧ j / 4 < cf.length) := by
  have hall : ∀ b ∈ cf.map (triChildren fn nn), b.length = 4 := by
    intro b hb
    simp only [List.mem_map] at hb
    obtain ⟨_, _, rfl⟩ := hb
    simp [triChildren]
  refine ⟨?_, by simp [triParents], ?_, ?_, ?_, ?_⟩
  · unfold triRefine
    rw [flatten_length_blocks 4 _ hall]
    simp [Nat.mul_comm]
  · intro c t ht
    unfold triRefine
    rw [flatten_get_blocks 4 _ hall c t ht]
    simp only [List.getElem?_map]
    cases cf[c]? <;> rfl
  · intro c t ht
    unfold triParent
    omega
  · intro j c
    unfold triParent
    omega
  · intro j hj
    unfold triParents
    rw [List.getElem?_map, List.getElem?_range hj]
    exact ⟨rfl, by omega⟩

example : triRefine 4 [(0, 1), (0, 2), (1, 2), (1, 3), (2, 3)] [(0, 2, 1), (3, 4, 2)]
    = [(1, 6, 4), (2, 5, 6), (0, 4, 5), (4, 6, 5), (3, 8, 7), (2, 6, 8), (1, 7, 6), (7, 8, 6)] := by
  decide +kernel

/-! ## structured_refinement -/

/-- The sweep of `structured_refinement` over the coarse cells (each coarse cell takes the not yet
    assigned fine cell centres inside it), for ANY containment test `inside`:
    (1) a fine cell listed in column `c` has its centre inside coarse cell `c` (and in no earlier
        one), and
    (2) if the centre of fine cell `i` lies in coarse cell `c` and in no other coarse cell, then `i`
        is listed in column `c` and in no other column — every fine cell is mapped to the unique
        coarse cell that contains it. -/
theorem structured_refinement_contains {α β : Type} (inside : α → β → Bool) (cells : List α)
    (pts : List β) :
    (∀ (c : Nat) (col : List Nat) (i : Nat), (assign inside cells (enum pts))[c]? = some col → i ∈ col →
      ∃ p cell, pts[i]? = some p ∧ cells[c]? = some cell ∧ inside cell p = true) ∧
    (∀ (i : Nat) (p : β) (c : Nat) (cell : α), pts[i]? = some p → cells[c]? = some cell →
      inside cell p = true →
      (∀ (c' : Nat) (cell' : α), c' ≠ c → cells[c']? = some cell' → inside cell' p = false) →
      (∃ col, (assign inside cells (enum pts))[c]? = some col ∧ i ∈ col) ∧
      (∀ (c' : Nat) (col' : List Nat), c' ≠ c → (assign inside cells (enum pts))[c']? = some col' → i ∉ col')) := by
  constructor
  · intro c col i hcol hi
    obtain ⟨p, cell, hm, hc, hin, _⟩ := assign_sound inside cells (enum pts) c col hcol i hi
    exact ⟨p, cell, (mem_enum pts i p).mp hm, hc, hin⟩
  · intro i p c cell hp hc hin huniq
    constructor
    · exact assign_complete inside cells (enum pts) c cell i p ((mem_enum pts i p).mpr hp) hc hin
        (fun c' cell' hlt hg => huniq c' cell' (by omega) hg)
    · intro c' col' hne hcol' hi
      obtain ⟨p', cell', hm, hc', hin', _⟩ := assign_sound inside cells (enum pts) c' col' hcol' i hi
      have hp' := (mem_enum pts i p').mp hm
      rw [hp] at hp'
      cases hp'
      rw [huniq c' cell' hne hc'] at hin'
      cases hin'

/-- the 1-D test of the code (`searchsorted(sort(line), p, 'left') == 1`) is `lo < p ≤ hi` -/
theorem inside1d_iff (a b p : Rat) : inside1d (a, b) p = true ↔ min a b < p ∧ p ≤ max a b := by
  unfold inside1d
  by_cases h : a ≤ b
  · simp [h]
  · have hba : b ≤ a := le_of_lt (not_le.mp h)
    simp [h, min_eq_right hba, max_eq_left hba]

example : assign inside1d [((0 : Rat), (1 : Rat)), (3, 1)] (enum [(1 / 4 : Rat), 2, 3 / 4, 5 / 2])
    = [[0, 2], [1, 3]] := by decide +kernel

/-! ## extrude_grid -/

/-- MEASURE: with cell measures `m_c · (z_{k+1} − z_k)` (prism over base cell `c` in layer `k`) the
    total measure of the extruded grid is the base measure times `z_last − z_first`, for ANY layer
    sequence; and for a strictly increasing sequence every layer height is positive. -/
theorem extrude_measure (base : List Rat) (z0 : Rat) (zs : List Rat) :
    rsum (extrudedMeasures base (z0 :: zs)) = rsum base * (zs.getLastD z0 - z0) ∧
    (extrudedMeasures base (z0 :: zs)).length = zs.length * base.length ∧
    (Increasing (z0 :: zs) → ∀ h ∈ heights (z0 :: zs), 0 < h) := by
  refine ⟨?_, ?_, heights_pos _⟩
  · unfold extrudedMeasures
    rw [rsum_extruded, rsum_heights]
  · unfold extrudedMeasures
    rw [flatten_length_blocks base.length]
    · simp [heights_length]
    · intro b hb
      simp only [List.mem_map] at hb
      obtain ⟨_, _, rfl⟩ := hb
      simp

/-- PRISM GEOMETRY: (1) an extruded 1-d cell is the parallelogram spanned by the horizontal edge
    vector `u` and the vertical vector `(0,0,h)`; its squared area `|u × v|²` is `|u|²·h²`, i.e.
    area = base length × layer height.  (2) an extruded triangle `(A, B, C)` between `z0` and
    `z0 + h`, split into the three tetrahedra (A,B,C,A'), (B,C,A',B'), (C,A',B',C'), has six times
    signed volume `3·area2(A,B,C)·h`, i.e. volume = base area × layer height. -/
theorem extrude_prism_measure :
    (∀ (ux uy h : Rat), V3.nsq (V3.cross ⟨ux, uy, 0⟩ ⟨0, 0, h⟩) = V3.nsq ⟨ux, uy, 0⟩ * (h * h)) ∧
    (∀ (A B C : P2) (z0 h : Rat),
      tet6 ⟨A.x, A.y, z0⟩ ⟨B.x, B.y, z0⟩ ⟨C.x, C.y, z0⟩ ⟨A.x, A.y, z0 + h⟩
      + tet6 ⟨B.x, B.y, z0⟩ ⟨C.x, C.y, z0⟩ ⟨A.x, A.y, z0 + h⟩ ⟨B.x, B.y, z0 + h⟩
      + tet6 ⟨C.x, C.y, z0⟩ ⟨A.x, A.y, z0 + h⟩ ⟨B.x, B.y, z0 + h⟩ ⟨C.x, C.y, z0 + h⟩
      = 3 * (area2 A B C * h)) := by
  constructor
  · intro ux uy h
    simp only [V3.nsq, V3.dot, V3.cross]
    ring
  · intro A B C z0 h
    simp only [tet6, V3.dot, V3.cross, V3.sub, area2]
    ring

example : rsum (extrudedMeasures [1 / 2, 3] [0, 1, 5 / 2]) = (1 / 2 + 3) * (5 / 2) := by decide +kernel

/-- CELL MAP: the returned cell map row of base cell `c` is `[c, c+C, c+2C, …]` (one entry per
    layer); entry `k` is cell `c + k·C`, which lies in the index range `[k·C, (k+1)·C)` of layer `k`;
    conversely every new cell `j < C·L` is entry `j / C` of row `j % C` and of no other row/entry:
    per layer the map base cell ↦ new cell is a bijection, and every new cell has exactly one parent. -/
theorem extrude_cell_map_bijective_per_layer (nc layers : Nat) (hnc : 0 < nc) :
    (∀ c k, c < nc → k < layers →
      (cellMapRow nc layers c)[k]? = some (c + k * nc) ∧
      k * nc ≤ c + k * nc ∧ c + k * nc < (k + 1) * nc ∧ c + k * nc < nc * layers) ∧
    (∀ j, j < nc * layers →
      j % nc < nc ∧ j / nc < layers ∧ (cellMapRow nc layers (j % nc))[j / nc]? = some j) ∧
    (∀ c k c' k', c < nc → c' < nc → c + k * nc = c' + k' * nc → c = c' ∧ k = k') := by
  refine ⟨?_, ?_, ?_⟩
  · intro c k hc hk
    refine ⟨arange_get c nc layers k hk, by omega, by rw [Nat.succ_mul]; omega, ?_⟩
    calc c + k * nc < nc + k * nc := by omega
      _ = nc * (k + 1) := by ring
      _ ≤ nc * layers := Nat.mul_le_mul_left nc (by omega)
  · intro j hj
    have h1 : j % nc < nc := Nat.mod_lt j hnc
    have h2 : j / nc < layers := by
      rw [Nat.div_lt_iff_lt_mul hnc]
      rw [Nat.mul_comm]; exact hj
    refine ⟨h1, h2, ?_⟩
    unfold cellMapRow
    rw [arange_get _ _ _ _ h2]
    congr 1
    rw [Nat.mul_comm]
    exact Nat.mod_add_div j nc
  · intro c k c' k' hc hc' h
    have hk : k = k' := by
      have e1 : (c + k * nc) / nc = k := by
        rw [Nat.add_mul_div_right _ _ hnc, Nat.div_eq_of_lt hc]; simp
      have e2 : (c' + k' * nc) / nc = k' := by
        rw [Nat.add_mul_div_right _ _ hnc, Nat.div_eq_of_lt hc']; simp
      rw [← e1, ← e2, h]
    subst hk
    exact ⟨by omega, rfl⟩

/-- NESTING of extruded cells: for a base grid of dimension 1 or 2, the new cell `c + k·C` (the
    entry for layer `k` in the cell-map row of base cell `c`) has the horizontal faces
    `Fv + k·C + c` (sign −1) and `Fv + (k+1)·C + c` (sign +1); their nodes are the nodes of base cell
    `c` shifted by `k·N` resp. `(k+1)·N`, and node `n + j·N` carries `(x_n, y_n, z_j)`.  So the new
    cell is the prism over its parent between `z_k` and `z_{k+1}`. -/
theorem extrude_cell_over_parent (b : Base) (z : List Rat) (c k : Nat) (ns : List Nat)
    (hdim : b.dim ≠ 0) (hcn : b.cn.length = b.cf.length) (hc : b.cn[c]? = some ns)
    (hk : k < z.length - 1) :
    (extrude b z).cellMap[c]? = some (cellMapRow b.cf.length (z.length - 1) c) ∧
    (cellMapRow b.cf.length (z.length - 1) c)[k]? = some (c + k * b.cf.length) ∧
    (∃ faces, (extrude b z).cf[k * b.cf.length + c]? = some faces ∧
      (b.fn.length * (z.length - 1) + k * b.cf.length + c, (-1 : Int)) ∈ faces ∧
      (b.fn.length * (z.length - 1) + (k + 1) * b.cf.length + c, (1 : Int)) ∈ faces) ∧
    (extrude b z).fn[b.fn.length * (z.length - 1) + k * b.cf.length + c]?
      = some (ns.map (· + k * b.nodes.length)) ∧
    (extrude b z).fn[b.fn.length * (z.length - 1) + (k + 1) * b.cf.length + c]?
      = some (ns.map (· + (k + 1) * b.nodes.length)) ∧
    (∀ n j p zj, b.nodes[n]? = some p → z[j]? = some zj →
      (extrude b z).nodes[n + j * b.nodes.length]? = some ⟨p.x, p.y, zj⟩) := by
  have hclt : c < b.cf.length := by
    rw [← hcn]
    by_contra hcc
    rw [List.getElem?_eq_none (by omega)] at hc
    cases hc
  have hE : extrude b z =
      { nodes := extrudeNodes b.nodes z,
        fn := verticalFaces b.nodes.length b.fn (z.length - 1)
                ++ horizontalFaces b.nodes.length b.cn (z.length - 1 + 1),
        cf := extrudeCells b (z.length - 1),
        cellMap := (List.range b.cf.length).map (cellMapRow b.cf.length (z.length - 1)),
        faceMap := (List.range b.fn.length).map (fun f => arange f b.fn.length (z.length - 1)) } := by
    unfold extrude
    simp [hdim]
  rw [hE]
  simp only []
  refine ⟨by simp [List.getElem?_range hclt], arange_get c _ _ k hk, ?_, ?_, ?_, ?_⟩
  · obtain ⟨vert, hv⟩ := extrudeCells_get b (z.length - 1) k c hk hclt
    exact ⟨_, hv, by simp, by simp⟩
  · rw [List.getElem?_append_right (by rw [verticalFaces_length]; nlinarith [Nat.mul_comm b.fn.length (z.length - 1)])]
    have : b.fn.length * (z.length - 1) + k * b.cf.length + c
        - (verticalFaces b.nodes.length b.fn (z.length - 1)).length = k * b.cn.length + c := by
      rw [verticalFaces_length, hcn, Nat.mul_comm]; omega
    rw [this]
    exact horizontalFaces_get _ _ _ k c ns (by omega) hc
  · rw [List.getElem?_append_right (by rw [verticalFaces_length]; nlinarith [Nat.mul_comm b.fn.length (z.length - 1)])]
    have : b.fn.length * (z.length - 1) + (k + 1) * b.cf.length + c
        - (verticalFaces b.nodes.length b.fn (z.length - 1)).length = (k + 1) * b.cn.length + c := by
      rw [verticalFaces_length, hcn, Nat.mul_comm]; omega
    rw [this]
    exact horizontalFaces_get _ _ _ (k + 1) c ns (by omega) hc
  · intro n j p zj hn hz
    exact extrudeNodes_get b.nodes z j n zj p hz hn

/-! ## extrude_mdg bookkeeping, Cartesian sweep, face orientation -/

/-- INDEX FORMULA (one axis): on a uniform grid with cell size `h > 0` whose cells are split into
    `r` equal parts, the 1-d test of the sweep accepts the centre of fine cell `i` for coarse cell
    `c` exactly if `c = i / r`. -/
theorem cart_inside1d_iff (x0 h : Rat) (r c i : Nat) (hh : 0 < h) (hr : 1 ≤ r) :
    inside1d (cartCell1d x0 h c) (cartCentre1d x0 h r i) = true ↔ i / r = c := by
  unfold cartCell1d cartCentre1d
  rw [inside1d_iff]
  have hr2 : (0 : Rat) < ((2 * r : Nat) : Rat) := by exact_mod_cast (by omega : 0 < 2 * r)
  have hle : x0 + (c : Rat) * h ≤ x0 + ((c + 1 : Nat) : Rat) * h := by
    push_cast; nlinarith
  rw [min_eq_left hle, max_eq_right hle]
  have e1 : x0 + (c : Rat) * h < x0 + ((2 * i + 1 : Nat) : Rat) / ((2 * r : Nat) : Rat) * h ↔ c * r ≤ i := by
    rw [add_lt_add_iff_left, mul_lt_mul_iff_of_pos_right hh, lt_div_iff₀ hr2]
    have : (c : Rat) * ((2 * r : Nat) : Rat) < ((2 * i + 1 : Nat) : Rat) ↔ c * (2 * r) < 2 * i + 1 := by
      exact_mod_cast Iff.rfl
    rw [this]
    have e : c * (2 * r) = 2 * (c * r) := by ring
    rw [e]; omega
  have e2 : x0 + ((2 * i + 1 : Nat) : Rat) / ((2 * r : Nat) : Rat) * h ≤ x0 + ((c + 1 : Nat) : Rat) * h
      ↔ i < (c + 1) * r := by
    rw [add_le_add_iff_left, mul_le_mul_iff_of_pos_right hh, div_le_iff₀ hr2]
    have : ((2 * i + 1 : Nat) : Rat) ≤ ((c + 1 : Nat) : Rat) * ((2 * r : Nat) : Rat)
        ↔ 2 * i + 1 ≤ (c + 1) * (2 * r) := by
      exact_mod_cast Iff.rfl
    rw [this]
    have e : (c + 1) * (2 * r) = 2 * ((c + 1) * r) := by ring
    rw [e]; omega
  rw [e1, e2, Nat.div_eq_iff (by omega), Nat.succ_mul]
  omega


/-- INDEX FORMULA (boxes): the box test accepts the centre of fine cell `(i,j,k)` for coarse cell `c`
    exactly if `c = (i / rx, j / ry, k / rz)`. -/
theorem cart_insideBox_iff (o h : R3) (r c i : Idx3) (hx : 0 < h.1) (hy : 0 < h.2.1) (hz : 0 < h.2.2)
    (rx : 1 ≤ r.1) (ry : 1 ≤ r.2.1) (rz : 1 ≤ r.2.2) :
    insideBox (cartBox o h c) (cartCentre o h r i) = true ↔ coarseOf r i = c := by
  obtain ⟨c1, c2, c3⟩ := c
  simp only [insideBox, cartBox, cartCentre, coarseOf, Bool.and_eq_true,
    cart_inside1d_iff _ _ _ _ _ hx rx, cart_inside1d_iff _ _ _ _ _ hy ry,
    cart_inside1d_iff _ _ _ _ _ hz rz, Prod.mk.injEq]
  tauto

/-- EXTRUDED INTERFACES: the new (low-dim cell, high-dim face) pairs built by `extrude_mdg` are exactly
    the layer-wise copies `(c + k·C_low, f + k·F_high)`, `k < L`, of the old pairs `(c, f)`; every new
    pair couples a cell and a face of the SAME layer whose base items were coupled; there are
    `L` new pairs per old pair; if every old face was coupled to one cell, so is every new face; and
    the faces put on the second mortar side are exactly the layer copies of the old faces above the
    median (the side of a face is inherited by all its copies). -/
theorem extrude_mdg_coupling (ncLow nfHigh L : Nat) (pairs : List (Nat × Nat))
    (hb : ∀ cf ∈ pairs, cf.1 < ncLow ∧ cf.2 < nfHigh) :
    (∀ c' f', (c', f') ∈ coupleLayers ncLow nfHigh L pairs ↔
      ∃ c f k, (c, f) ∈ pairs ∧ k < L ∧ c' = c + k * ncLow ∧ f' = f + k * nfHigh) ∧
    (∀ c' f', (c', f') ∈ coupleLayers ncLow nfHigh L pairs →
      c' / ncLow = f' / nfHigh ∧ c' / ncLow < L ∧ (c' % ncLow, f' % nfHigh) ∈ pairs) ∧
    (coupleLayers ncLow nfHigh L pairs).length = pairs.length * L ∧
    ((∀ c1 c2 f, (c1, f) ∈ pairs → (c2, f) ∈ pairs → c1 = c2) →
      ∀ c1 c2 f', (c1, f') ∈ coupleLayers ncLow nfHigh L pairs →
        (c2, f') ∈ coupleLayers ncLow nfHigh L pairs → c1 = c2) ∧
    (∀ f', f' ∈ otherSide nfHigh L pairs ↔
      ∃ c f k, (c, f) ∈ pairs ∧ aboveMedian pairs f = true ∧ k < L ∧ f' = f + k * nfHigh) := by
  refine ⟨mem_coupleLayers ncLow nfHigh L pairs, ?_, ?_, ?_, mem_otherSide nfHigh L pairs⟩
  · intro c' f' hm
    obtain ⟨c, f, k, hp, hk, rfl, rfl⟩ := (mem_coupleLayers _ _ _ _ _ _).mp hm
    obtain ⟨hc, hf⟩ := hb (c, f) hp
    have e1 : (c + k * ncLow) / ncLow = k := by
      rw [Nat.add_mul_div_right _ _ (by omega), Nat.div_eq_of_lt hc]; simp
    have e2 : (f + k * nfHigh) / nfHigh = k := by
      rw [Nat.add_mul_div_right _ _ (by omega), Nat.div_eq_of_lt hf]; simp
    have e3 : (c + k * ncLow) % ncLow = c := by
      rw [Nat.add_mul_mod_self_right, Nat.mod_eq_of_lt hc]
    have e4 : (f + k * nfHigh) % nfHigh = f := by
      rw [Nat.add_mul_mod_self_right, Nat.mod_eq_of_lt hf]
    rw [e1, e2, e3, e4]
    exact ⟨rfl, hk, hp⟩
  · unfold coupleLayers
    rw [flatten_length_blocks L]
    · simp
    · intro b hb'
      simp only [List.mem_map] at hb'
      obtain ⟨_, _, rfl⟩ := hb'
      simp
  · intro hfun c1 c2 f' h1 h2
    obtain ⟨a1, f1, k1, hp1, _, rfl, rfl⟩ := (mem_coupleLayers _ _ _ _ _ _).mp h1
    obtain ⟨a2, f2, k2, hp2, _, rfl, hf⟩ := (mem_coupleLayers _ _ _ _ _ _).mp h2
    obtain ⟨hf12, hk12⟩ := layer_decomp nfHigh f1 k1 f2 k2 (hb _ hp1).2 (hb _ hp2).2 hf
    subst hf12; subst hk12
    rw [hfun a1 a2 f1 hp1 hp2]

/-- PER-GRID MAPS of `extrude_mdg` (those of `extrude_grid`): cell map row `c` is `[c + k·C]`, face
    map row `f` is `[f + k·F]` (vertical faces only), node `(n, k)` is number `n + k·N` out of `N·|z|`
    nodes — each a bijection per layer by `extrude_cell_map_bijective_per_layer` (which is stated for
    any stride, so it applies to `C`, `F` and `N` alike). -/
theorem extrude_mdg_maps (b : Base) (z : List Rat) (hdim : b.dim ≠ 0) :
    (∀ c, c < b.cf.length →
      (extrude b z).cellMap[c]? = some (arange c b.cf.length (z.length - 1))) ∧
    (∀ f, f < b.fn.length →
      (extrude b z).faceMap[f]? = some (arange f b.fn.length (z.length - 1))) ∧
    (extrude b z).nodes.length = z.length * b.nodes.length := by
  have hE : extrude b z =
      { nodes := extrudeNodes b.nodes z,
        fn := verticalFaces b.nodes.length b.fn (z.length - 1)
                ++ horizontalFaces b.nodes.length b.cn (z.length - 1 + 1),
        cf := extrudeCells b (z.length - 1),
        cellMap := (List.range b.cf.length).map (cellMapRow b.cf.length (z.length - 1)),
        faceMap := (List.range b.fn.length).map (fun f => arange f b.fn.length (z.length - 1)) } := by
    unfold extrude
    simp [hdim]
  rw [hE]
  refine ⟨?_, ?_, extrudeNodes_length _ _⟩
  · intro c hc
    simp [List.getElem?_range hc, cellMapRow]
  · intro f hf
    simp [List.getElem?_range hf]

/-- SWEEP = INDEX FORMULA on nested Cartesian grids (any enumeration of the coarse and fine cells, 1-d,
    2-d or 3-d — unused axes have one cell and ratio 1): the geometric containment sweep lists fine
    cell `(i,j,k)` in the column of coarse cell `(i/rx, j/ry, k/rz)` and in no other column, and
    every fine cell listed in a column has that coarse cell as its index quotient. -/
theorem structured_refinement_cartesian (o h : R3) (r : Idx3) (coarse fine : List Idx3)
    (hx : 0 < h.1) (hy : 0 < h.2.1) (hz : 0 < h.2.2)
    (rx : 1 ≤ r.1) (ry : 1 ≤ r.2.1) (rz : 1 ≤ r.2.2) (hnd : coarse.Nodup) :
    (∀ (n : Nat) (i : Idx3) (c : Nat), fine[n]? = some i → coarse[c]? = some (coarseOf r i) →
      (∃ col, (assign insideBox (coarse.map (cartBox o h))
          (enum (fine.map (cartCentre o h r))))[c]? = some col ∧ n ∈ col) ∧
      (∀ (c' : Nat) (col' : List Nat), c' ≠ c →
        (assign insideBox (coarse.map (cartBox o h))
          (enum (fine.map (cartCentre o h r))))[c']? = some col' → n ∉ col')) ∧
    (∀ (c : Nat) (col : List Nat) (n : Nat),
      (assign insideBox (coarse.map (cartBox o h)) (enum (fine.map (cartCentre o h r))))[c]? = some col →
      n ∈ col → ∃ i, fine[n]? = some i ∧ coarse[c]? = some (coarseOf r i)) := by
  have hS := structured_refinement_contains insideBox (coarse.map (cartBox o h))
    (fine.map (cartCentre o h r))
  constructor
  · intro n i c hn hc
    apply hS.2 n (cartCentre o h r i) c (cartBox o h (coarseOf r i))
    · simp [hn]
    · simp [hc]
    · exact (cart_insideBox_iff o h r _ i hx hy hz rx ry rz).mpr rfl
    · intro c' cell' hne hc'
      rw [List.getElem?_map] at hc'
      cases ht : coarse[c']? with
      | none => rw [ht] at hc'; simp at hc'
      | some t =>
        rw [ht] at hc'
        simp only [Option.map_some, Option.some.injEq] at hc'
        subst hc'
        cases hin : insideBox (cartBox o h t) (cartCentre o h r i) with
        | false => rfl
        | true =>
          have := (cart_insideBox_iff o h r t i hx hy hz rx ry rz).mp hin
          subst this
          exact absurd (nodup_getElem?_inj coarse hnd c' c _ ht hc) hne
  · intro c col n hcol hn
    obtain ⟨p, cell, hp, hcell, hin⟩ := hS.1 c col n hcol hn
    rw [List.getElem?_map] at hp hcell
    cases hi : fine[n]? with
    | none => rw [hi] at hp; simp at hp
    | some i =>
      cases ht : coarse[c]? with
      | none => rw [ht] at hcell; simp at hcell
      | some t =>
        rw [hi] at hp; rw [ht] at hcell
        simp only [Option.map_some, Option.some.injEq] at hp hcell
        subst hp; subst hcell
        exact ⟨i, rfl, by rw [(cart_insideBox_iff o h r t i hx hy hz rx ry rz).mp hin]⟩

/-- ORIENTATION of the vertical faces of the extruded 3-d grid: with the cyclic node order chosen by
    `_extrude_2d` (flip decided from the sign `sgn` of the face in its first cell, the side of that
    cell's interior point `pc`, and the direction of extrusion), `sgn · normal` is the cycle-directed
    normal `(B-A) × (0,0,|h|)` if `pc` is to the left of `A → B` and `(A-B) × (0,0,|h|)` otherwise —
    in both cases it points out of the first cell (positive scalar product with `A - pc`), i.e. the
    normal points out of the cell with sign +1, for upward and downward extrusion. -/
theorem vertical_face_signed_normal (A B pc : P2) (z0 z1 : Rat) (sgn : Int) (neg : Bool)
    (hs : sgn = 1 ∨ sgn = -1) (hz : if neg then z1 < z0 else z0 < z1) (hne : area2 A B pc ≠ 0) :
    V3.smul (sgn : Rat)
        (faceNormal (vertFaceCoords A B z0 z1 (flipOf sgn (ccwPolyline A B pc) neg)))
      = (if 0 < area2 A B pc
          then V3.cross ⟨B.x - A.x, B.y - A.y, 0⟩ ⟨0, 0, if neg then z0 - z1 else z1 - z0⟩
          else V3.cross ⟨A.x - B.x, A.y - B.y, 0⟩ ⟨0, 0, if neg then z0 - z1 else z1 - z0⟩) ∧
    0 < (sgn : Rat) *
      ((faceNormal (vertFaceCoords A B z0 z1 (flipOf sgn (ccwPolyline A B pc) neg))).x * (A.x - pc.x)
       + (faceNormal (vertFaceCoords A B z0 z1 (flipOf sgn (ccwPolyline A B pc) neg))).y * (A.y - pc.y)) ∧
    (faceNormal (vertFaceCoords A B z0 z1 (flipOf sgn (ccwPolyline A B pc) neg))).z = 0 := by
  rw [vertFace_normal]
  refine signed_normal_core A B pc _ _ (z1 - z0) (if neg then z0 - z1 else z1 - z0) ?hp hne ?key
  case hp =>
    cases neg <;> simp only [Bool.false_eq_true, if_false, if_true] at hz ⊢ <;> linarith
  case key =>
    rcases hs with rfl | rfl <;> cases neg <;> by_cases ha : 0 < area2 A B pc <;>
      simp [flipOf, ccwPolyline, ha]

/-- CLOSEDNESS of a triangular prism: the cycle-directed vertical normals of the three edges add up
    to zero for any vertical vector, and the horizontal faces (normal `(0,0,area2)` for the node
    order (P,Q,S) at any height) cancel with the signs −1 (bottom) and +1 (top).  Together with
    `vertical_face_signed_normal` (each `sgn · normal` of the model IS the cycle-directed normal of
    the cell, whichever way the base face is stored) the signed face normals of every extruded
    triangle cell sum to zero. -/
theorem extrude_prism_closed_tri (P Q S : P2) (hv z0 z1 : Rat) :
    V3.add (V3.add (V3.cross ⟨Q.x - P.x, Q.y - P.y, 0⟩ ⟨0, 0, hv⟩)
      (V3.cross ⟨S.x - Q.x, S.y - Q.y, 0⟩ ⟨0, 0, hv⟩)) (V3.cross ⟨P.x - S.x, P.y - S.y, 0⟩ ⟨0, 0, hv⟩)
      = V3.zero ∧
    faceNormal [⟨P.x, P.y, z0⟩, ⟨Q.x, Q.y, z0⟩, ⟨S.x, S.y, z0⟩] = ⟨0, 0, area2 P Q S⟩ ∧
    V3.add (V3.smul (-1) (faceNormal [⟨P.x, P.y, z0⟩, ⟨Q.x, Q.y, z0⟩, ⟨S.x, S.y, z0⟩]))
      (V3.smul 1 (faceNormal [⟨P.x, P.y, z1⟩, ⟨Q.x, Q.y, z1⟩, ⟨S.x, S.y, z1⟩])) = V3.zero := by
  refine ⟨?_, ?_, ?_⟩ <;> apply V3.ext' <;>
    simp [V3.add, V3.cross, V3.zero, faceNormal, V3.sub, V3.smul, area2] <;> ring

/-- ORIENTATION of the horizontal faces over a triangle: the model keeps the cell's node cycle
    `[a, b, c]` or reverses it to `[a, c, b]` such that the cycle is counter-clockwise for upward and
    clockwise for downward extrusion — the face normal `(0, 0, shoelace)` points towards the next
    layer, i.e. out of the lower-layer cell (sign +1) and into the upper-layer cell (sign −1). -/
theorem horizontal_face_orientation_tri (nodes : List V3) (neg : Bool) (a b c : Nat)
    (hA : area2 (v3xy (nodeAt nodes a)) (v3xy (nodeAt nodes b)) (v3xy (nodeAt nodes c)) ≠ 0) :
    (orientCycle nodes neg [a, b, c] = [a, b, c] ∨ orientCycle nodes neg [a, b, c] = [a, c, b]) ∧
    0 < (if neg then (-1 : Rat) else 1) *
      shoelace ((orientCycle nodes neg [a, b, c]).map (fun n => v3xy (nodeAt nodes n))) := by
  have hsh : ∀ (X Y Z : P2), shoelace [X, Y, Z] = area2 X Y Z := by
    intro X Y Z; simp only [shoelace, shoelaceAux, area2]; ring
  have hrev : ∀ (X Y Z : P2), area2 X Z Y = - area2 X Y Z := by
    intro X Y Z; simp only [area2]; ring
  have hr := hrev (v3xy (nodeAt nodes a)) (v3xy (nodeAt nodes b)) (v3xy (nodeAt nodes c))
  unfold orientCycle
  simp only [List.map_cons, List.map_nil, hsh]
  rcases lt_or_gt_of_ne hA with ha | ha <;> cases neg <;>
    simp [ha, not_lt.mpr (le_of_lt ha), reverseCycle, hsh] <;> linarith [hr]


/-- FACE NUMBERING WITH ORDER: in the ordered face list of the extruded 3-d grid, face `k·F + f`
    (`k < L`) is the vertical face over base face `f` in layer `k` with the node order of
    `verticalFaceOrdered`, and face `F·L + j·C + c` is the oriented node cycle of base cell `c`
    shifted to node layer `j`; the four node indices of a vertical face carry the coordinates
    `vertFaceCoords` (so `vertical_face_signed_normal` speaks about the faces of the model). -/
theorem faces_ordered_numbering (b : Base) (z : List Rat) :
    (∀ k f, k < z.length - 1 → f < b.fn.length →
      (facesOrdered b z)[k * b.fn.length + f]? =
        ((faceFlips b (z.all (fun v => decide (v ≤ 0))))[f]?).map (fun abf =>
          verticalFaceOrdered b.nodes.length abf.1 abf.2.1 abf.2.2 k)) ∧
    (∀ j c, j < z.length - 1 + 1 → c < b.cf.length →
      (facesOrdered b z)[(z.length - 1) * b.fn.length + (j * b.cf.length + c)]? =
        ((cellCycles b (z.all (fun v => decide (v ≤ 0))))[c]?).map
          (fun cyc => cyc.map (· + j * b.nodes.length))) ∧
    (∀ (a bb k : Nat) (pa pb : V3) (z0 z1 : Rat) (flip : Bool),
      b.nodes[a]? = some pa → b.nodes[bb]? = some pb → z[k]? = some z0 → z[k + 1]? = some z1 →
      (verticalFaceOrdered b.nodes.length a bb flip k).map (fun i => (extrudeNodes b.nodes z)[i]?)
        = (vertFaceCoords (v3xy pa) (v3xy pb) z0 z1 flip).map some) := by
  refine ⟨?_, ?_, ?_⟩
  · intro k f hk hf
    unfold facesOrdered
    simp only []
    rw [List.getElem?_append_left (by
      rw [verticalOrdered_length]
      calc k * b.fn.length + f < k * b.fn.length + b.fn.length := by omega
        _ = (k + 1) * b.fn.length := by ring
        _ ≤ (z.length - 1) * b.fn.length := Nat.mul_le_mul_right _ (by omega))]
    exact facesOrdered_vertical_get b _ _ k f hk hf
  · intro j c hj hc
    unfold facesOrdered
    simp only []
    rw [List.getElem?_append_right (by rw [verticalOrdered_length]; omega)]
    rw [verticalOrdered_length, Nat.add_sub_cancel_left]
    exact horizontalOrdered_get b _ _ j c hj hc
  · intro a bb k pa pb z0 z1 flip ha hb hz0 hz1
    have g1 := extrudeNodes_get b.nodes z k a z0 pa hz0 ha
    have g2 := extrudeNodes_get b.nodes z k bb z0 pb hz0 hb
    have g3 := extrudeNodes_get b.nodes z (k + 1) a z1 pa hz1 ha
    have g4 := extrudeNodes_get b.nodes z (k + 1) bb z1 pb hz1 hb
    cases flip <;>
      simp [verticalFaceOrdered, vertFaceCoords, v3xy, g1, g2, g3, g4]

/-! ## input conditions evaluated by the driver, entry guards, repeated refinement -/

/-- `tri_children_coords` with its hypothesis replaced by the DECIDABLE input condition `triCellOk`
    (evaluated by the driver for every cell of every generated grid): if the stored faces of a cell
    are the three edges of a triangle, the four index triples point at the geometric children of
    its corners `triCorners`. -/
theorem tri_children_coords_of_ok (nodes : List P2) (fn : List (Nat × Nat)) (c : Nat × Nat × Nat)
    (h : triCellOk nodes.length fn c = true) :
    (triChildren fn nodes.length c).map (triCoords (triNewNodes nodes fn))
      = geomChildren (p2At nodes (triCorners fn c).1) (p2At nodes (triCorners fn c).2.1)
          (p2At nodes (triCorners fn c).2.2) := by
  obtain ⟨f0, f1, f2⟩ := c
  simp only [triCellOk, Bool.and_eq_true, decide_eq_true_eq] at h
  obtain ⟨⟨⟨⟨⟨⟨⟨⟨⟨⟨⟨h0, h1⟩, h2⟩, e0⟩, e1⟩, e2⟩, hpq⟩, hqs⟩, hsp⟩, hp⟩, hq⟩, hs⟩ := h
  exact tri_children_coords nodes fn f0 f1 f2 _ _ _ h0 h1 h2 (isEdgeB_sound _ _ _ e0)
    (isEdgeB_sound _ _ _ e1) (isEdgeB_sound _ _ _ e2) hpq hqs hsp hp hq hs

example : triCellOk 3 [(0, 1), (0, 2), (1, 2)] (0, 2, 1) = true := by decide

/-- `structured_refinement_contains` with the uniqueness hypothesis replaced by the DECIDABLE input
    condition `uniqueB` (every fine centre lies in exactly one coarse cell — evaluated by the driver
    on every case): then every fine cell is listed in exactly one column, the column of a cell that
    contains its centre; in particular the final assertion of the code (all fine cells assigned)
    holds. -/
theorem sweep_total_of_unique {α β : Type} (inside : α → β → Bool) (cells : List α) (pts : List β)
    (h : uniqueB inside cells pts = true) (i : Nat) (p : β) (hp : pts[i]? = some p) :
    ∃ c cell, cells[c]? = some cell ∧ inside cell p = true ∧
      (∃ col, (assign inside cells (enum pts))[c]? = some col ∧ i ∈ col) ∧
      (∀ (c' : Nat) (col' : List Nat), c' ≠ c →
        (assign inside cells (enum pts))[c']? = some col' → i ∉ col') := by
  have hmem : p ∈ pts := List.mem_of_getElem? hp
  simp only [uniqueB, List.all_eq_true, beq_iff_eq] at h
  obtain ⟨c, cell, hc, hin, huniq⟩ := filter_length_one (fun c => inside c p) cells (h p hmem)
  obtain ⟨h1, h2⟩ := (structured_refinement_contains inside cells pts).2 i p c cell hp hc hin huniq
  exact ⟨c, cell, hc, hin, h1, h2⟩

example : uniqueB inside1d [((0 : Rat), (1 : Rat)), (3, 1)] [(1 / 4 : Rat), 2, 3 / 4, 5 / 2] = true := by
  decide +kernel

/-- the DECIDABLE precondition `zOk` on the layer coordinates (evaluated by the driver) gives layer
    heights of one strict sign, so no extruded cell is degenerate and `|z_last − z_first|` is the sum
    of the `|heights|` -/
theorem extrude_heights_sign (z : List Rat) (h : zOk z = true) :
    (∀ d ∈ heights z, 0 < d) ∨ (∀ d ∈ heights z, d < 0) := by
  simp only [zOk, Bool.or_eq_true, Bool.and_eq_true] at h
  rcases h with h | h
  · exact Or.inl (heights_pos_B z h.1)
  · exact Or.inr (heights_neg_B z h.1)

example : zOk [0, -1, -5 / 2] = true := by decide +kernel

/-- ENTRY GUARDS of `structured_refinement`: a point grid gives the 1×1 identity; the sweep runs
    exactly if the coarse grid has dimension ≥ 1, fewer cells than the fine grid and the same
    dimension; everything else is an AssertionError. -/
theorem sref_entry_spec (dimC dimF ncC ncF : Nat) :
    (srefEntry dimC dimF ncC ncF = .point ↔ dimC = 0) ∧
    (srefEntry dimC dimF ncC ncF = .sweep ↔ dimC ≠ 0 ∧ ncC < ncF ∧ dimC = dimF) ∧
    (srefEntry dimC dimF ncC ncF = .assertion ↔ dimC ≠ 0 ∧ (ncF ≤ ncC ∨ dimC ≠ dimF)) := by
  unfold srefEntry
  by_cases h0 : dimC = 0
  · simp [h0]
  · by_cases h1 : ncC < ncF
    · by_cases h2 : dimC = dimF
      · subst h2
        have h1' : ¬ ncF ≤ ncC := Nat.not_le.mpr h1
        simp [h0, h1, h1']
      · simp [h0, h1, h2]
    · have h1' : ncF ≤ ncC := Nat.le_of_not_lt h1
      simp [h0, h1, h1']

/-- REPEATED REFINEMENT: a point of a child segment is the parent's point at the composed
    parameter, which stays in `[s, t] ⊆ [0, 1]`; and the parent of the parent of fine cell `i` after
    refining by `r1` and then `r2` is `i / (r2·r1)`. -/
theorem refine1d_twice_nested (a b : V3) (s t u : Rat) (r1 r2 i : Nat) :
    lerp (lerp a b s) (lerp a b t) u = lerp a b (s + u * (t - s)) ∧
    (0 ≤ u → u ≤ 1 → s ≤ t → s ≤ s + u * (t - s) ∧ s + u * (t - s) ≤ t) ∧
    parent1d r1 (parent1d r2 i) = i / (r2 * r1) := by
  refine ⟨?_, ?_, ?_⟩
  · apply V3.ext' <;> simp [lerp, V3.add, V3.smul] <;> ring
  · intro h0 h1 hst
    constructor <;> nlinarith
  · unfold parent1d
    exact Nat.div_div_eq_div_mul i r2 r1

/-- the second refinement again refines the geometric spec, now of the cells of the first refined
    grid (any ratios ≥ 1) -/
theorem refine1d_twice_refines_spec (nodes : List V3) (cells : List (Nat × Nat)) (r1 r2 : Nat)
    (h2 : 1 ≤ r2) :
    List.Forall₂ (ChainOK (refine1d nodes cells r1).1 r2 (refine1dTwice nodes cells r1 r2).1)
      (asCells (fineCells (refine1d nodes cells r1).2)) (refine1dTwice nodes cells r1 r2).2 :=
  refine1d_refines_spec _ _ r2 h2

example : (refine1dTwice [⟨0, 0, 0⟩, ⟨4, 0, 0⟩] [(0, 1)] 2 2).1
    = [⟨0, 0, 0⟩, ⟨1, 0, 0⟩, ⟨2, 0, 0⟩, ⟨3, 0, 0⟩, ⟨4, 0, 0⟩] := by decide +kernel

/-! ## non-vacuity of the hypotheses -/

example : coupleLayers 2 10 2 [(0, 5), (1, 1), (0, 8), (1, 7)]
    = [(0, 5), (2, 15), (1, 1), (3, 11), (0, 8), (2, 18), (1, 7), (3, 17)] := by decide +kernel

example : otherSide 10 2 [(0, 5), (1, 1), (0, 8), (1, 7)] = [8, 18, 7, 17] := by decide +kernel

example : (cartCells (2, 2, 1)).Nodup := by decide +kernel

example : cartSweep (0, 0, 0) (1, 1 / 2, 1) (2, 1, 1) (2, 2, 1)
    = [[0, 1, 4, 5], [2, 3, 6, 7]] := by decide +kernel

/-- two triangles of the unit square, extruded upwards: ordered faces -/
example : facesOrdered ⟨2, [⟨0, 0, 0⟩, ⟨1, 0, 0⟩, ⟨0, 1, 0⟩, ⟨1, 1, 0⟩],
      [[0, 1], [0, 2], [1, 2], [1, 3], [2, 3]], [[0, 1, 2], [1, 2, 3]],
      [[(0, 1), (2, 1), (1, -1)], [(3, 1), (4, -1), (2, -1)]]⟩ [0, 1]
    = [[0, 1, 5, 4], [0, 2, 6, 4], [1, 2, 6, 5], [1, 3, 7, 5], [2, 3, 7, 6],
       [0, 1, 2], [1, 3, 2], [4, 5, 6], [5, 7, 6]] := by decide +kernel

example := vertical_face_signed_normal ⟨0, 0⟩ ⟨1, 0⟩ ⟨1 / 3, 1 / 3⟩ 0 (-2) (-1) true (Or.inr rfl)
  (by decide +kernel) (by decide +kernel)



/-- non-vacuity: the hypotheses of `refine1d_parent_unique` hold for a concrete permuted grid -/
example := refine1d_parent_unique [⟨0, 0, 0⟩, ⟨1, 2, 0⟩, ⟨3, 2, 4⟩] [(1, 2), (0, 1)] 2 (by decide) 1 1 (0, 1)
  rfl (by decide)

/-- non-vacuity of `tri_children_coords`: cell with faces (0, 2, 1) of the triangle (0,0),(4,0),(0,2) -/
example : (triChildren [(0, 1), (0, 2), (1, 2)] 3 (0, 2, 1)).map
      (triCoords (triNewNodes [⟨0, 0⟩, ⟨4, 0⟩, ⟨0, 2⟩] [(0, 1), (0, 2), (1, 2)]))
    = geomChildren ⟨0, 0⟩ ⟨4, 0⟩ ⟨0, 2⟩ :=
  tri_children_coords [⟨0, 0⟩, ⟨4, 0⟩, ⟨0, 2⟩] [(0, 1), (0, 2), (1, 2)] 0 2 1 0 1 2
    (by decide) (by decide) (by decide) (Or.inl ⟨rfl, rfl⟩) (Or.inl ⟨rfl, rfl⟩) (Or.inr ⟨rfl, rfl⟩)
    (by decide) (by decide) (by decide) (by decide) (by decide) (by decide)

/-- non-vacuity of the uniqueness hypothesis of `structured_refinement_contains` -/
example : (∃ col, (assign inside1d [((0 : Rat), (1 : Rat)), (3, 1)] (enum [(1 / 4 : Rat), 2, 3 / 4, 5 / 2]))[1]?
      = some col ∧ 1 ∈ col) :=
  ((structured_refinement_contains inside1d [((0 : Rat), (1 : Rat)), (3, 1)] [(1 / 4 : Rat), 2, 3 / 4, 5 / 2]).2
    1 2 1 (3, 1) rfl rfl (by decide)
    (by
      intro c' cell' hne hc'
      match c', hne, hc' with
      | 0, _, hc' =>
        simp only [List.getElem?_cons_zero, Option.some.injEq] at hc'
        subst hc'
        decide
      | 1, hne, _ => exact absurd rfl hne
      | n + 2, _, hc' => simp at hc')).1

example := extrude_cell_map_bijective_per_layer 3 2 (by decide)

/-- non-vacuity of `extrude_cell_over_parent`: line grid 0-1-3 extruded to z = 0, 1, 3 -/
example := extrude_cell_over_parent
  ⟨1, [⟨0, 0, 0⟩, ⟨1, 0, 0⟩, ⟨3, 0, 0⟩], [[0], [1], [2]], [[0, 1], [1, 2]],
    [[(0, -1), (1, 1)], [(1, -1), (2, 1)]]⟩ [0, 1, 3] 1 1 [1, 2] (by decide) rfl rfl (by decide)

example : extrude ⟨1, [⟨0, 0, 0⟩, ⟨1, 0, 0⟩], [[0], [1]], [[0, 1]], [[(0, -1), (1, 1)]]⟩ [0, 2]
    = { nodes := [⟨0, 0, 0⟩, ⟨1, 0, 0⟩, ⟨0, 0, 2⟩, ⟨1, 0, 2⟩],
        fn := [[0, 2], [1, 3], [0, 1], [2, 3]],
        cf := [[(0, -1), (1, 1), (2, -1), (3, 1)]],
        cellMap := [[0]], faceMap := [[0], [1]] } := by decide +kernel

end PorepyVerif.C23
