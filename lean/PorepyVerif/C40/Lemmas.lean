/-
C40 — helper lemmas (property theorems are in Props.lean).
-/
import PorepyVerif.C40.Model
import Mathlib.Tactic.Ring

namespace PorepyVerif.C40

theorem fin3_cases : ∀ i : Fin 3, i = 0 ∨ i = 1 ∨ i = 2 := by decide

theorem ofEntries_symm (xx yy zz xy xz yz : Rat) (i j : Fin 3) :
    ofEntries xx yy zz xy xz yz i j = ofEntries xx yy zz xy xz yz j i := by
  rcases fin3_cases i with rfl | rfl | rfl <;> rcases fin3_cases j with rfl | rfl | rfl <;> rfl

/-! polynomial identities behind the invariants: each invariant of `R Kᵀ Rᵀ` equals the same
    invariant of `Kᵀ (RᵀR)` (no hypothesis on `R`) -/

theorem rotate1_entry (R K : M3) (j i : Fin 3) :
    rotate1 R K j i = mul3 (mul3 R (transpose3 K)) (transpose3 R) j i := by
  simp only [rotate1, tdotOuter, tdotInner, mul3, transpose3, sum3]
  ring

theorem trace_rotate1_gram (R K : M3) :
    trace3 (rotate1 R K) = trace3 (mul3 (transpose3 K) (mul3 (transpose3 R) R)) := by
  simp only [trace3, rotate1, tdotOuter, tdotInner, mul3, transpose3, sum3]
  ring

theorem inv2_rotate1_gram (R K : M3) :
    inv2 (rotate1 R K) = inv2 (mul3 (transpose3 K) (mul3 (transpose3 R) R)) := by
  simp only [inv2, rotate1, tdotOuter, tdotInner, mul3, transpose3, sum3]
  ring

theorem det_rotate1_gram (R K : M3) :
    detM (rotate1 R K) = detM (mul3 (transpose3 K) (mul3 (transpose3 R) R)) := by
  simp only [detM, rotate1, tdotOuter, tdotInner, mul3, transpose3, sum3]
  ring

theorem mul3_id3 (A : M3) : mul3 A id3 = A := by
  funext i j
  rcases fin3_cases j with rfl | rfl | rfl <;> simp [mul3, sum3, id3]

theorem trace3_transpose3 (K : M3) : trace3 (transpose3 K) = trace3 K := rfl

theorem inv2_transpose3 (K : M3) : inv2 (transpose3 K) = inv2 K := by
  simp only [inv2, transpose3]; ring

theorem detM_transpose3 (K : M3) : detM (transpose3 K) = detM K := by
  simp only [detM, transpose3]; ring

/-- the characteristic polynomial in terms of the three invariants -/
theorem charPoly3_eq (K : M3) (x : Rat) :
    charPoly3 K x = x ^ 3 - trace3 K * x ^ 2 + inv2 K * x - detM K := by
  simp [charPoly3, detM, trace3, inv2]
  ring

/-! ### `select` (fancy indexing) -/

theorem select_spec {α : Type} (l : List α) : ∀ (cells : List Nat) (r : List α), select l cells = some r →
    r.length = cells.length ∧ ∀ k, k < cells.length → cells.getD k 0 < l.length ∧ r[k]? = l[cells.getD k 0]? := by
  intro cells
  induction cells with
  | nil =>
    intro r h
    simp only [select, Option.some.injEq] at h
    subst h
    exact ⟨rfl, fun k hk => absurd hk (Nat.not_lt_zero k)⟩
  | cons c cs ih =>
    intro r h
    simp only [select] at h
    cases hv : l[c]? with
    | none => simp [hv] at h
    | some v =>
      cases hr : select l cs with
      | none => simp [hv, hr] at h
      | some r' =>
        simp only [hv, hr, Option.some.injEq] at h
        subst h
        obtain ⟨hl, hk⟩ := ih r' hr
        refine ⟨by simp [hl], fun k hk' => ?_⟩
        cases k with
        | zero =>
          have hc : c < l.length := by
            rcases Nat.lt_or_ge c l.length with h' | h'
            · exact h'
            · rw [List.getElem?_eq_none h'] at hv; cases hv
          simp only [List.getD_cons_zero, List.getElem?_cons_zero]
          exact ⟨hc, hv.symm⟩
        | succ k =>
          simp only [List.getD_cons_succ, List.getElem?_cons_succ]
          exact hk k (by simpa using hk')

theorem select_none_of_out_of_range {α : Type} (l : List α) : ∀ (cells : List Nat) (c : Nat),
    c ∈ cells → l.length ≤ c → select l cells = none := by
  intro cells
  induction cells with
  | nil => intro c h; cases h
  | cons d cs ih =>
    intro c hc hle
    rcases List.mem_cons.mp hc with rfl | h
    · simp [select, List.getElem?_eq_none hle]
    · simp only [select, ih c h hle]
      cases l[d]? <;> rfl

theorem select_some_of_in_range {α : Type} (l : List α) : ∀ (cells : List Nat),
    (∀ c ∈ cells, c < l.length) → ∃ r, select l cells = some r := by
  intro cells
  induction cells with
  | nil => intro _; exact ⟨[], rfl⟩
  | cons d cs ih =>
    intro h
    obtain ⟨r, hr⟩ := ih (fun c hc => h c (List.mem_cons_of_mem _ hc))
    have hd := h d List.mem_cons_self
    exact ⟨l[d] :: r, by simp [select, hr, List.getElem?_eq_getElem hd]⟩

/-! ### the second-order constructor -/

/-- the list the constructor builds from resolved (defaulted, broadcast) per-cell functions -/
def build (n : Nat) (kxx kyy kzz kxy kxz kyz : Nat → Rat) : List M3 :=
  (List.range n).map (fun c => ofEntries (kxx c) (kyy c) (kzz c) (kxy c) (kxz c) (kyz c))

theorem mkSOT_ok_of (a : Args) (kyy kzz kxy kxz kyz : Nat → Rat)
    (h1 : bcast a.kxx.length (a.kyy.getD a.kxx) = some kyy)
    (h2 : bcast a.kxx.length (a.kxy.getD (a.kxx.map (fun v => 0 * v))) = some kxy)
    (h3 : bcast a.kxx.length (a.kzz.getD a.kxx) = some kzz)
    (h4 : bcast a.kxx.length (a.kxz.getD (a.kxx.map (fun v => 0 * v))) = some kxz)
    (h5 : bcast a.kxx.length (a.kyz.getD (a.kxx.map (fun v => 0 * v))) = some kyz)
    (hx : ∀ v ∈ a.kxx, ¬ v < 0)
    (hy : ∀ c, c < a.kxx.length → ¬ minor2 (a.kxx.getD c 0) (kyy c) (kxy c) < 0)
    (hz : ∀ c, c < a.kxx.length → ¬ det3 (a.kxx.getD c 0) (kyy c) (kzz c) (kxy c) (kxz c) (kyz c) < 0) :
    mkSOT a = .ok (build a.kxx.length (fun c => a.kxx.getD c 0) kyy kzz kxy kxz kyz) := by
  have ex : a.kxx.any (fun v => decide (v < 0)) = false := by
    rw [List.any_eq_false]; intro v hv; simpa using hx v hv
  have ey : (List.range a.kxx.length).any
      (fun c => decide (minor2 (a.kxx.getD c 0) (kyy c) (kxy c) < 0)) = false := by
    rw [List.any_eq_false]; intro c hc; simpa using hy c (List.mem_range.mp hc)
  have ez : (List.range a.kxx.length).any
      (fun c => decide (det3 (a.kxx.getD c 0) (kyy c) (kzz c) (kxy c) (kxz c) (kyz c) < 0)) = false := by
    rw [List.any_eq_false]; intro c hc; simpa using hz c (List.mem_range.mp hc)
  unfold mkSOT
  simp only [ex, h1, h2, ey, h3, h4, h5, ez, build]
  rfl

theorem mkSOT_ok_inv (a : Args) (t : List M3) (h : mkSOT a = .ok t) :
    ∃ kyy kzz kxy kxz kyz : Nat → Rat,
      bcast a.kxx.length (a.kyy.getD a.kxx) = some kyy ∧
      bcast a.kxx.length (a.kxy.getD (a.kxx.map (fun v => 0 * v))) = some kxy ∧
      bcast a.kxx.length (a.kzz.getD a.kxx) = some kzz ∧
      bcast a.kxx.length (a.kxz.getD (a.kxx.map (fun v => 0 * v))) = some kxz ∧
      bcast a.kxx.length (a.kyz.getD (a.kxx.map (fun v => 0 * v))) = some kyz ∧
      (∀ v ∈ a.kxx, ¬ v < 0) ∧
      (∀ c, c < a.kxx.length → ¬ minor2 (a.kxx.getD c 0) (kyy c) (kxy c) < 0) ∧
      (∀ c, c < a.kxx.length → ¬ det3 (a.kxx.getD c 0) (kyy c) (kzz c) (kxy c) (kxz c) (kyz c) < 0) ∧
      t = build a.kxx.length (fun c => a.kxx.getD c 0) kyy kzz kxy kxz kyz := by
  unfold mkSOT at h
  simp only at h
  split at h
  · cases h
  · rename_i hx
    split at h
    · rename_i kyy kxy h1 h2
      split at h
      · cases h
      · rename_i hy
        split at h
        · rename_i kzz kxz kyz h3 h4 h5
          split at h
          · cases h
          · rename_i hz
            simp only [Except.ok.injEq] at h
            refine ⟨kyy, kzz, kxy, kxz, kyz, h1, h2, h3, h4, h5, ?_, ?_, ?_, h.symm⟩
            · intro v hv hlt
              exact hx (List.any_eq_true.mpr ⟨v, hv, decide_eq_true hlt⟩)
            · intro c hc hlt
              exact hy (List.any_eq_true.mpr ⟨c, List.mem_range.mpr hc, decide_eq_true hlt⟩)
            · intro c hc hlt
              exact hz (List.any_eq_true.mpr ⟨c, List.mem_range.mpr hc, decide_eq_true hlt⟩)
        · cases h
    · cases h

theorem build_length (n : Nat) (kxx kyy kzz kxy kxz kyz : Nat → Rat) :
    (build n kxx kyy kzz kxy kxz kyz).length = n := by simp [build]

theorem mem_build (n : Nat) (kxx kyy kzz kxy kxz kyz : Nat → Rat) (K : M3)
    (h : K ∈ build n kxx kyy kzz kxy kxz kyz) :
    ∃ c, c < n ∧ K = ofEntries (kxx c) (kyy c) (kzz c) (kxy c) (kxz c) (kyz c) := by
  simp only [build, List.mem_map, List.mem_range] at h
  obtain ⟨c, hc, rfl⟩ := h
  exact ⟨c, hc, rfl⟩

theorem bcast_full (n : Nat) (l : List Rat) (h : l.length = n) : bcast n l = some (fun c => l.getD c 0) := by
  simp [bcast, h]

theorem getD_map_build (n : Nat) (kxx kyy kzz kxy kxz kyz : Nat → Rat) (g : M3 → Rat) (c : Nat) (hc : c < n) :
    ((build n kxx kyy kzz kxy kxz kyz).map g).getD c 0
      = g (ofEntries (kxx c) (kyy c) (kzz c) (kxy c) (kxz c) (kyz c)) := by
  simp [build, List.getD_eq_getElem?_getD, hc]

end PorepyVerif.C40
