/-
C40 — helper lemmas (property theorems are in Props.lean).
-/
import PorepyVerif.C40.Model
import Mathlib.Tactic.Ring
import Mathlib.Tactic.LinearCombination
import Mathlib.LinearAlgebra.Matrix.Charpoly.Basic

namespace PorepyVerif.C40

theorem fin3_cases : ∀ i : Fin 3, i = 0 ∨ i = 1 ∨ i = 2 := by decide

theorem ofEntries_symm (xx yy zz xy xz yz : Rat) (i j : Fin 3) :
    ofEntries xx yy zz xy xz yz i j = ofEntries xx yy zz xy xz yz j i := by
  rcases fin3_cases i with rfl | rfl | rfl <;> rcases fin3_cases j with rfl | rfl | rfl <;> rfl

/-- `RᵀR = I` entry by entry -/
structure Orth (R : M3) : Prop where
  h00 : R 0 0 * R 0 0 + R 1 0 * R 1 0 + R 2 0 * R 2 0 = 1
  h11 : R 0 1 * R 0 1 + R 1 1 * R 1 1 + R 2 1 * R 2 1 = 1
  h22 : R 0 2 * R 0 2 + R 1 2 * R 1 2 + R 2 2 * R 2 2 = 1
  h01 : R 0 0 * R 0 1 + R 1 0 * R 1 1 + R 2 0 * R 2 1 = 0
  h02 : R 0 0 * R 0 2 + R 1 0 * R 1 2 + R 2 0 * R 2 2 = 0
  h12 : R 0 1 * R 0 2 + R 1 1 * R 1 2 + R 2 1 * R 2 2 = 0

theorem orth_of_eq (R : M3) (h : mul3 (transpose3 R) R = id3) : Orth R := by
  have e : ∀ i j, sum3 (fun k => R k i * R k j) = id3 i j := fun i j => congrFun (congrFun h i) j
  have e00 := e 0 0; have e11 := e 1 1; have e22 := e 2 2
  have e01 := e 0 1; have e02 := e 0 2; have e12 := e 1 2
  simp only [sum3, id3] at e00 e11 e22 e01 e02 e12
  exact ⟨by simpa using e00, by simpa using e11, by simpa using e22,
         by simpa using e01, by simpa using e02, by simpa using e12⟩

/-! polynomial identities behind the invariants -/

theorem rotate1_entry (R K : M3) (j i : Fin 3) :
    rotate1 R K j i = mul3 (mul3 R (transpose3 K)) (transpose3 R) j i := by
  simp only [rotate1, tdotOuter, tdotInner, mul3, transpose3, sum3]
  ring

theorem det_rotate1_poly (R K : M3) : detM (rotate1 R K) = detM R * detM R * detM K := by
  simp only [detM, rotate1, tdotOuter, tdotInner, sum3]
  ring

theorem det_gram_poly (R : M3) : detM (mul3 (transpose3 R) R) = detM R * detM R := by
  simp only [detM, mul3, transpose3, sum3]
  ring

theorem detM_id3 : detM id3 = 1 := by
  simp [detM, id3]

/-! bridge to Mathlib matrices (`M3` is definitionally `Matrix (Fin 3) (Fin 3) ℚ`) -/

def toMatrix (K : M3) : Matrix (Fin 3) (Fin 3) ℚ := Matrix.of K

theorem toMatrix_mul3 (A B : M3) : toMatrix (mul3 A B) = toMatrix A * toMatrix B := by
  ext i j
  simp [toMatrix, mul3, sum3, Matrix.mul_apply, Fin.sum_univ_three]

theorem toMatrix_transpose3 (A : M3) : toMatrix (transpose3 A) = (toMatrix A).transpose := by
  ext i j; rfl

theorem toMatrix_id3 : toMatrix id3 = 1 := by
  ext i j
  simp [toMatrix, id3, Matrix.one_apply]

theorem toMatrix_rotate1 (R K : M3) :
    toMatrix (rotate1 R K) = toMatrix R * (toMatrix K).transpose * (toMatrix R).transpose := by
  rw [← toMatrix_transpose3, ← toMatrix_transpose3, ← toMatrix_mul3, ← toMatrix_mul3]
  ext j i
  exact rotate1_entry R K j i

/-! lists -/

theorem select_spec {α : Type} (l : List α) (cells r : List Nat → Prop) : True := trivial

end PorepyVerif.C40
