/-
C40 — property theorems (statements depend on Model.lean only).

Property: second- and fourth-order tensors built from admissible parameters are symmetric;
rotating a second-order tensor is a similarity transform preserving its eigenvalues;
restriction to cells selects those cells; copies are independent of the original.

"Copies are independent" is a statement about aliasing of numpy arrays.  The model is a value
(immutable), where it holds trivially; what is proved here is that a copy of a constructed
tensor EQUALS the original (`sot_copy_of_constructed`).  Independence itself is tested by the
oracle by mutating the copy / the original of the real classes.
-/
import PorepyVerif.C40.Lemmas

namespace PorepyVerif.C40

/-! ### second-order tensor: constructor -/

/-- Every cell of a successfully constructed second-order tensor is a symmetric 3×3 matrix. -/
theorem sot_symmetric (a : Args) (t : List M3) (h : mkSOT a = .ok t) :
    ∀ K ∈ t, ∀ i j, K i j = K j i := by
  obtain ⟨kyy, kzz, kxy, kxz, kyz, _, _, _, _, _, _, _, _, ht⟩ := mkSOT_ok_inv a t h
  intro K hK i j
  rw [ht] at hK
  obtain ⟨c, _, rfl⟩ := mem_build _ _ _ _ _ _ _ K hK
  exact ofEntries_symm _ _ _ _ _ _ i j

/-- What the constructor builds: one matrix per entry of `kxx`; cell `c` holds
    `[[kxx, kxy, kxz], [kxy, kyy, kyz], [kxz, kyz, kzz]]` of the defaulted (kyy, kzz := kxx; off-diagonals := 0)
    and broadcast arguments; and the three sign checks of the code hold in every cell. -/
theorem sot_constructor_entries (a : Args) (t : List M3) (h : mkSOT a = .ok t) :
    t.length = a.kxx.length ∧
    ∃ kyy kzz kxy kxz kyz : Nat → Rat,
      bcast a.kxx.length (a.kyy.getD a.kxx) = some kyy ∧
      bcast a.kxx.length (a.kxy.getD (a.kxx.map (fun v => 0 * v))) = some kxy ∧
      bcast a.kxx.length (a.kzz.getD a.kxx) = some kzz ∧
      bcast a.kxx.length (a.kxz.getD (a.kxx.map (fun v => 0 * v))) = some kxz ∧
      bcast a.kxx.length (a.kyz.getD (a.kxx.map (fun v => 0 * v))) = some kyz ∧
      (∀ c, c < a.kxx.length →
        t[c]? = some (ofEntries (a.kxx.getD c 0) (kyy c) (kzz c) (kxy c) (kxz c) (kyz c)) ∧
        0 ≤ a.kxx.getD c 0 ∧ 0 ≤ minor2 (a.kxx.getD c 0) (kyy c) (kxy c) ∧
        0 ≤ det3 (a.kxx.getD c 0) (kyy c) (kzz c) (kxy c) (kxz c) (kyz c)) := by
  obtain ⟨kyy, kzz, kxy, kxz, kyz, h1, h2, h3, h4, h5, hx, hy, hz, ht⟩ := mkSOT_ok_inv a t h
  refine ⟨by rw [ht, build_length], kyy, kzz, kxy, kxz, kyz, h1, h2, h3, h4, h5, fun c hc => ⟨?_, ?_, ?_, ?_⟩⟩
  · rw [ht]; simp [build, hc]
  · have hm : a.kxx.getD c 0 ∈ a.kxx := by
      rw [List.getD_eq_getElem?_getD, List.getElem?_eq_getElem hc]; exact List.getElem_mem hc
    exact Rat.not_lt.mp (hx _ hm)
  · exact Rat.not_lt.mp (hy c hc)
  · exact Rat.not_lt.mp (hz c hc)

/-- A negative entry of `kxx` is rejected (first check of the code). -/
theorem sot_rejects_negative_kxx (a : Args) (v : Rat) (hv : v ∈ a.kxx) (hneg : v < 0) :
    mkSOT a = .error .x := by
  have : a.kxx.any (fun v => decide (v < 0)) = true := List.any_eq_true.mpr ⟨v, hv, decide_eq_true hneg⟩
  simp [mkSOT, this]

/-! ### second-order tensor: rotation -/

/-- `rotate` as coded (two `tensordot`s) computes, entry by entry, `R Kᵀ Rᵀ`; for a symmetric
    `K` — every constructed tensor — this is the similarity transform `R K Rᵀ`. -/
theorem sot_rotate (R K : M3) :
    (∀ i j, rotate1 R K i j = mul3 (mul3 R (transpose3 K)) (transpose3 R) i j) ∧
    ((∀ i j, K i j = K j i) → ∀ i j, rotate1 R K i j = mul3 (mul3 R K) (transpose3 R) i j) := by
  refine ⟨fun i j => rotate1_entry R K i j, fun hs i j => ?_⟩
  rw [rotate1_entry]
  have : transpose3 K = K := by funext a b; exact hs b a
  rw [this]

/-- the whole tensor: every cell is transformed, cells are not mixed -/
theorem sot_rotate_cells (R : M3) (t : List M3) :
    (rotate R t).length = t.length ∧ ∀ c : Nat, (rotate R t)[c]? = (t[c]?).map (rotate1 R) := by
  simp [rotate]

/-- the rotated tensor is symmetric again (for ANY matrix `R`) -/
theorem sot_rotate_symmetric (R K : M3) (hs : ∀ i j, K i j = K j i) :
    ∀ i j, rotate1 R K i j = rotate1 R K j i := by
  intro i j
  have e : ∀ a b, K a b = K b a := hs
  simp only [rotate1, tdotOuter, tdotInner, sum3]
  rw [e 1 0, e 2 0, e 2 1]
  ring

/-- `RᵀR = I` ⇒ the trace is preserved -/
theorem sot_rotate_trace (R K : M3) (h : mul3 (transpose3 R) R = id3) :
    trace3 (rotate1 R K) = trace3 K := by
  rw [trace_rotate1_gram, h, mul3_id3, trace3_transpose3]

/-- `RᵀR = I` ⇒ the second invariant (sum of principal 2×2 minors) is preserved -/
theorem sot_rotate_inv2 (R K : M3) (h : mul3 (transpose3 R) R = id3) :
    inv2 (rotate1 R K) = inv2 K := by
  rw [inv2_rotate1_gram, h, mul3_id3, inv2_transpose3]

/-- `RᵀR = I` ⇒ the determinant is preserved -/
theorem sot_rotate_det (R K : M3) (h : mul3 (transpose3 R) R = id3) :
    detM (rotate1 R K) = detM K := by
  rw [det_rotate1_gram, h, mul3_id3, detM_transpose3]

/-- `RᵀR = I` ⇒ the characteristic polynomial `det(x·I − K)` is preserved for every `x`; hence
    the eigenvalues (its roots, with multiplicities) of every cell are those of the original. -/
theorem sot_rotate_charpoly (R K : M3) (h : mul3 (transpose3 R) R = id3) (x : Rat) :
    charPoly3 (rotate1 R K) x = charPoly3 K x := by
  rw [charPoly3_eq, charPoly3_eq, sot_rotate_trace R K h, sot_rotate_inv2 R K h, sot_rotate_det R K h]

/-! ### copy and restriction -/

/-- the copy of a constructed second-order tensor passes the constructor's checks again and
    equals the original -/
theorem sot_copy_of_constructed (a : Args) (t : List M3) (h : mkSOT a = .ok t) :
    copySOTcoded t = .ok t ∧ copySOTcoded t = .ok (copySOT t) := by
  refine (fun h => ⟨h, h⟩) ?_
  obtain ⟨kyy, kzz, kxy, kxz, kyz, _, _, _, _, _, hx, hy, hz, ht⟩ := mkSOT_ok_inv a t h
  have hlen : t.length = a.kxx.length := by rw [ht, build_length]
  -- the arguments `copy` hands to the constructor
  let A : Args := { kxx := t.map (fun K => K 0 0), kxy := some (t.map (fun K => K 1 0)),
                    kyy := some (t.map (fun K => K 1 1)), kxz := some (t.map (fun K => K 2 0)),
                    kyz := some (t.map (fun K => K 2 1)), kzz := some (t.map (fun K => K 2 2)) }
  have hn : A.kxx.length = a.kxx.length := by simp [A, hlen]
  have hg : ∀ (g : M3 → Rat) c, c < a.kxx.length →
      (t.map g).getD c 0 = g (ofEntries (a.kxx.getD c 0) (kyy c) (kzz c) (kxy c) (kxz c) (kyz c)) := by
    intro g c hc; rw [ht]; exact getD_map_build _ _ _ _ _ _ _ g c hc
  have key := mkSOT_ok_of A (fun c => (t.map (fun K => K 1 1)).getD c 0) (fun c => (t.map (fun K => K 2 2)).getD c 0)
    (fun c => (t.map (fun K => K 1 0)).getD c 0) (fun c => (t.map (fun K => K 2 0)).getD c 0)
    (fun c => (t.map (fun K => K 2 1)).getD c 0)
    (bcast_full _ _ (by simp [A])) (bcast_full _ _ (by simp [A])) (bcast_full _ _ (by simp [A]))
    (bcast_full _ _ (by simp [A])) (bcast_full _ _ (by simp [A]))
    (by
      intro v hv
      simp only [A, List.mem_map] at hv
      obtain ⟨K, hK, rfl⟩ := hv
      rw [ht] at hK
      obtain ⟨c, hc, rfl⟩ := mem_build _ _ _ _ _ _ _ K hK
      have hm : a.kxx.getD c 0 ∈ a.kxx := by
        rw [List.getD_eq_getElem?_getD, List.getElem?_eq_getElem hc]; exact List.getElem_mem hc
      exact hx _ hm)
    (by
      intro c hc
      rw [hn] at hc
      simp only [A, hg _ c hc]
      exact hy c hc)
    (by
      intro c hc
      rw [hn] at hc
      simp only [A, hg _ c hc]
      exact hz c hc)
  show mkSOT A = .ok t
  rw [key, hn]
  congr 1
  refine Eq.trans ?_ ht.symm
  simp only [build]
  apply List.map_congr_left
  intro c hc
  have hc' := List.mem_range.mp hc
  simp only [A, hg _ c hc']
  funext i j
  rcases fin3_cases i with rfl | rfl | rfl <;> rcases fin3_cases j with rfl | rfl | rfl <;> rfl

/-- `arr[cells]`: the result has one entry per requested cell, entry `k` is the original entry
    `cells[k]` (any order, repetitions allowed); an index out of range is an error. -/
theorem restrict_selects {α : Type} (l : List α) (cells : List Nat) :
    (∀ r, select l cells = some r →
      r.length = cells.length ∧ ∀ k, k < cells.length → cells.getD k 0 < l.length ∧ r[k]? = l[cells.getD k 0]?) ∧
    ((∀ c ∈ cells, c < l.length) → ∃ r, select l cells = some r) ∧
    (∀ c ∈ cells, l.length ≤ c → select l cells = none) :=
  ⟨fun r h => select_spec l cells r h, select_some_of_in_range l cells,
   fun c hc hle => select_none_of_out_of_range l cells c hc hle⟩

/-- `restrict_to_cells` selects the cells of the original (any tensor, rotated ones included) -/
theorem sot_restrict_selects (t : List M3) (cells : List Nat) (r : List M3)
    (hr : restrictSOT t cells = .ok r) :
    r.length = cells.length ∧ ∀ k, k < cells.length → r[k]? = t[cells.getD k 0]? := by
  unfold restrictSOT copySOT at hr
  cases hs : select t cells with
  | none => simp [hs] at hr
  | some r' =>
    simp only [hs, Except.ok.injEq] at hr
    subst hr
    obtain ⟨h1, h2⟩ := select_spec t cells r' hs
    exact ⟨h1, fun k hk => (h2 k hk).2⟩

/-- on every constructed tensor the coded `restrict_to_cells` (copy through the validating
    constructor, then index) is the property-level one -/
theorem sot_restrict_coded_agrees (a : Args) (t : List M3) (h : mkSOT a = .ok t) (cells : List Nat) :
    restrictSOTcoded t cells = restrictSOT t cells := by
  unfold restrictSOTcoded restrictSOT copySOT
  rw [(sot_copy_of_constructed a t h).1]

/-- `restrict_to_cells` on a fourth-order tensor selects the cells of `values` and of every
    constitutive parameter (mu, lmbda, other fields), keeping the basis matrices -/
theorem fot_restrict_selects (t r : FOT) (cells : List Nat) (hr : restrictFOT t cells = .ok r) :
    select t.values cells = some r.values ∧ select t.mu cells = some r.mu ∧
    select t.lmbda cells = some r.lmbda ∧
    t.extra.mapM (fun e => (select e.field cells).map (fun f => ({ mat := e.mat, field := f } : Extra))) = some r.extra := by
  unfold restrictFOT at hr
  split at hr
  · rename_i mu lm ex vals h1 h2 h3 h4
    simp only [Except.ok.injEq] at hr
    subst hr
    exact ⟨h4, h1, h2, h3⟩
  · cases hr

/-! ### fourth-order tensor -/

theorem muTab_symm : ∀ i j : Fin 9, tabI muTab i j = tabI muTab j i := by decide
theorem lmTab_symm : ∀ i j : Fin 9, tabI lmTab i j = tabI lmTab j i := by decide

/-- Major symmetry: in every cell the 9×9 matrix built from mu, lmbda (hard-coded basis
    matrices) and any other fields with symmetric basis matrices is symmetric. -/
theorem fot_symmetric (mu lmbda : List Rat) (extra : List Extra) (t : FOT)
    (h : mkFOT mu lmbda extra = .ok t) (hex : ∀ e ∈ extra, ∀ i j, e.mat i j = e.mat j i) :
    ∀ V ∈ t.values, ∀ i j, V i j = V j i := by
  unfold mkFOT at h
  split at h
  · cases h
  · split at h
    · cases h
    · simp only [Except.ok.injEq] at h
      subst h
      intro V hV i j
      simp only [List.mem_map] at hV
      obtain ⟨c, _, rfl⟩ := hV
      have hsum : ∀ (es : List Extra), (∀ e ∈ es, ∀ i j, e.mat i j = e.mat j i) →
          ∀ acc acc' : Rat, acc = acc' →
          es.foldl (fun acc e => acc + e.mat i j * e.field.getD c 0) acc
            = es.foldl (fun acc e => acc + e.mat j i * e.field.getD c 0) acc' := by
        intro es
        induction es with
        | nil => intro _ acc acc' h; exact h
        | cons e es ih =>
          intro hes acc acc' hacc
          simp only [List.foldl_cons]
          apply ih (fun e' he' => hes e' (List.mem_cons_of_mem _ he'))
          rw [hacc, hes e List.mem_cons_self i j]
      simp only [muMat, lmMat, extraSum, muTab_symm i j, lmTab_symm i j]
      rw [hsum extra hex 0 0 rfl]

theorem muTab_minor : ∀ i j : Fin 9, tabI muTab (swapIdx i) j = tabI muTab i j ∧ tabI muTab i (swapIdx j) = tabI muTab i j := by
  decide
theorem lmTab_minor : ∀ i j : Fin 9, tabI lmTab (swapIdx i) j = tabI lmTab i j ∧ tabI lmTab i (swapIdx j) = tabI lmTab i j := by
  decide

/-- Minor symmetries c_ijkl = c_jikl = c_ijlk in the 9×9 layout (index 3·i + j): exchanging the
    two indices of the row pair or of the column pair leaves every entry unchanged, for the
    hard-coded basis and any other fields whose basis matrices have the minor symmetries. -/
theorem fot_minor_symmetric (mu lmbda : List Rat) (extra : List Extra) (t : FOT)
    (h : mkFOT mu lmbda extra = .ok t)
    (hex : ∀ e ∈ extra, ∀ i j, e.mat (swapIdx i) j = e.mat i j ∧ e.mat i (swapIdx j) = e.mat i j) :
    ∀ V ∈ t.values, ∀ i j, V (swapIdx i) j = V i j ∧ V i (swapIdx j) = V i j := by
  unfold mkFOT at h
  split at h
  · cases h
  · split at h
    · cases h
    · simp only [Except.ok.injEq] at h
      subst h
      intro V hV i j
      simp only [List.mem_map] at hV
      obtain ⟨c, _, rfl⟩ := hV
      have hsum : ∀ (i' j' : Fin 9), (∀ e ∈ extra, e.mat i' j' = e.mat i j) →
          extraSum extra c i' j' = extraSum extra c i j := by
        intro i' j' hm
        unfold extraSum
        have : ∀ (es : List Extra), (∀ e ∈ es, e.mat i' j' = e.mat i j) → ∀ acc : Rat,
            es.foldl (fun acc e => acc + e.mat i' j' * e.field.getD c 0) acc
              = es.foldl (fun acc e => acc + e.mat i j * e.field.getD c 0) acc := by
          intro es
          induction es with
          | nil => intro _ acc; rfl
          | cons e es ih =>
            intro hes acc
            simp only [List.foldl_cons]
            rw [hes e List.mem_cons_self]
            exact ih (fun e' he' => hes e' (List.mem_cons_of_mem _ he')) _
        exact this extra hm 0
      constructor
      · simp only [muMat, lmMat, (muTab_minor i j).1, (lmTab_minor i j).1]
        rw [hsum (swapIdx i) j (fun e he => (hex e he i j).1)]
      · simp only [muMat, lmMat, (muTab_minor i j).2, (lmTab_minor i j).2]
        rw [hsum i (swapIdx j) (fun e he => (hex e he i j).2)]

/-- The lengths and the parameters are stored as given; `mu` and `lmbda` of different lengths are rejected. -/
theorem fot_constructor (mu lmbda : List Rat) (extra : List Extra) :
    (mu.length ≠ lmbda.length → mkFOT mu lmbda extra = .error .shape) ∧
    (∀ t, mkFOT mu lmbda extra = .ok t → t.mu = mu ∧ t.lmbda = lmbda ∧ t.values.length = mu.length ∧
      ∀ c, c < mu.length → ∀ i j, (t.values[c]?.map (fun V => V i j)) =
        some (muMat i j * mu.getD c 0 + lmMat i j * lmbda.getD c 0 + extraSum extra c i j)) := by
  constructor
  · intro hne; simp [mkFOT, hne]
  · intro t h
    unfold mkFOT at h
    split at h
    · cases h
    · split at h
      · cases h
      · simp only [Except.ok.injEq] at h
        subst h
        refine ⟨rfl, rfl, by simp, fun c hc i j => ?_⟩
        simp [hc]

/-! ### non-vacuity -/

def errOf {α : Type} : Except Err α → Option Err
  | .error e => some e
  | .ok _ => none

/-- a full anisotropic SPD cell and an isotropic default cell -/
def exArgs : Args := { kxx := [4, 1], kyy := some [3, 1], kzz := some [2, 1], kxy := some [1, 0],
                       kxz := some [1/2, 0], kyz := some [-1/2, 0] }

def entries (t : List M3) : List (List (List Rat)) :=
  t.map (fun K => [[K 0 0, K 0 1, K 0 2], [K 1 0, K 1 1, K 1 2], [K 2 0, K 2 1, K 2 2]])

example : (mkSOT exArgs).toOption.map entries
    = some [[[4, 1, 1/2], [1, 3, -1/2], [1/2, -1/2, 2]], [[1, 0, 0], [0, 1, 0], [0, 0, 1]]] := by decide +kernel

/-- rotation about z with cos = 3/5, sin = 4/5 (Pythagorean, exactly orthogonal) -/
def exR : M3 := fun i j => ([[3/5, -4/5, 0], [4/5, 3/5, 0], [0, 0, 1]].getD i.val []).getD j.val 0

example : mul3 (transpose3 exR) exR = id3 := by
  funext i j
  rcases fin3_cases i with rfl | rfl | rfl <;> rcases fin3_cases j with rfl | rfl | rfl <;> decide +kernel

example : (mkSOT exArgs).toOption.map (fun t => entries (rotate exR t))
    = some [[[12/5, 1/5, 7/10], [1/5, 23/5, 1/10], [7/10, 1/10, 2]], [[1, 0, 0], [0, 1, 0], [0, 0, 1]]] := by
  decide +kernel

example : errOf (mkSOT { kxx := [1, -1] }) = some .x := by decide +kernel
example : errOf (mkSOT { kxx := [1], kyy := some [1], kxy := some [2] }) = some .y := by decide +kernel
example : errOf (mkSOT { kxx := [1], kyy := some [1], kzz := some [1], kxz := some [2] }) = some .z := by decide +kernel
example : errOf (mkSOT { kxx := [1, 1], kyy := some [1, 1, 1] }) = some .shape := by decide +kernel
/-- Documented observation (not a C40 violation by itself): the constructor checks only the
    leading principal minors `>= 0`, which is necessary but not sufficient for positive
    semi-definiteness, so the INADMISSIBLE parameters diag(0, 0, -1) are accepted ... -/
example : (mkSOT { kxx := [0], kyy := some [0], kzz := some [-1] }).toOption.map entries
    = some [[[0, 0, 0], [0, 0, 0], [0, 0, -1]]] := by decide +kernel

/-- ... and the coded `copy()` re-validates: after the (exact) rotation that moves the -1 to the
    xx position it raises the x-direction error, while the property-level copy is total.
    The same re-validation is what makes `copy()` / `restrict_to_cells` raise on ADMISSIBLE
    singular tensors after a rotation with rounding (open finding, harness). -/
example : ((mkSOT { kxx := [0], kyy := some [0], kzz := some [-1] }).toOption.map
      (fun t => errOf (copySOTcoded (rotate (fun i j => ([[0, 0, 1], [0, 1, 0], [1, 0, 0]].getD i.val []).getD j.val 0) t))))
    = some (some .x) := by decide +kernel

example : select [10, 20, 30] [2, 0, 2] = some [30, 10, 30] ∧ select [10, 20, 30] [3] = none := by decide

example : (mkFOT [1, 2] [3, 5] []).toOption.map (fun t => t.values.map (fun V => [V 0 0, V 0 4, V 1 3, V 1 1, V 1 2, V 8 8]))
    = some [[5, 3, 1, 1, 0, 5], [9, 5, 2, 2, 0, 9]] := by decide +kernel

end PorepyVerif.C40
