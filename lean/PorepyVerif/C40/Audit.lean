import PorepyVerif.C40.Props
#print axioms PorepyVerif.C40.sot_symmetric
#print axioms PorepyVerif.C40.sot_constructor_entries
#print axioms PorepyVerif.C40.sot_rejects_negative_kxx
#print axioms PorepyVerif.C40.sot_rotate
#print axioms PorepyVerif.C40.sot_rotate_cells
#print axioms PorepyVerif.C40.sot_rotate_symmetric
#print axioms PorepyVerif.C40.sot_rotate_trace
#print axioms PorepyVerif.C40.sot_rotate_inv2
#print axioms PorepyVerif.C40.sot_rotate_det
#print axioms PorepyVerif.C40.sot_rotate_charpoly
#print axioms PorepyVerif.C40.sot_copy_of_constructed
#print axioms PorepyVerif.C40.restrict_selects
#print axioms PorepyVerif.C40.sot_restrict_selects
#print axioms PorepyVerif.C40.fot_restrict_selects
#print axioms PorepyVerif.C40.fot_symmetric
#print axioms PorepyVerif.C40.fot_constructor
