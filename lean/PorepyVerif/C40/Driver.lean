/- C40 line-protocol driver: `lake env lean --run PorepyVerif/C40/Driver.lean` -/
import PorepyVerif.Common.Wire
import PorepyVerif.C40.Model
open Lean PV PorepyVerif.C40

inductive Tensor where
  | none
  | sot (t : List (List (List Rat)))   -- one 3×3 table per cell (data, not closures)
  | fot (t : FOT)

abbrev St := Tensor

def fin3s : List (Fin 3) := [0, 1, 2]
def fin9s : List (Fin 9) := [0, 1, 2, 3, 4, 5, 6, 7, 8]

def ofVals9 (t : List M9) : Json :=
  ofList (fun i => ofList (fun j => ofRats (t.map (fun V => V i j))) fin9s) fin9s

def ofFOT (t : FOT) : Json :=
  obj [("values", ofVals9 t.values), ("mu", ofRats t.mu), ("lmbda", ofRats t.lmbda),
       ("extra", ofList (fun e => ofRats e.field) t.extra)]

def ofErr : Err → Json
  | .x => obj [("err", Json.str "ValueError"), ("stage", Json.str "x")]
  | .y => obj [("err", Json.str "ValueError"), ("stage", Json.str "y")]
  | .z => obj [("err", Json.str "ValueError"), ("stage", Json.str "z")]
  | .shape => obj [("err", Json.str "ValueError"), ("stage", Json.str "shape")]
  | .index => obj [("err", Json.str "IndexError")]

def matOf {n : Nat} (rows : List (List Rat)) : Fin n → Fin n → Rat :=
  fun i j => (rows.getD i.val []).getD j.val 0

/-- evaluate a matrix into a table; the driver state keeps tables so that chains of rotations
    do not re-evaluate nested closures entry by entry -/
def toTable (K : M3) : List (List Rat) := fin3s.map (fun i => fin3s.map (fun j => K i j))
def ofTables (t : List (List (List Rat))) : List M3 := t.map (fun rows => matOf rows)

/-- `values.tolist()` of the `(3, 3, Nc)` array from the tables -/
def ofSOTt (t : List (List (List Rat))) : Json :=
  ofList (fun i => ofList (fun j => ofRats (t.map (fun rows => (rows.getD i []).getD j 0))) [0, 1, 2]) [0, 1, 2]

def optRats (j : Json) (k : String) : R (Option (List Rat)) := jOpt (jList jRat) (fieldD j k .null)

def jExtra (j : Json) : R Extra := do
  let rows ← fRatss j "mat"
  let f ← fRats j "field"
  if rows.length != 9 || rows.any (fun r => r.length != 9) then throw "mat must be 9x9" else
  pure { mat := matOf rows, field := f }

def step (st : St) (j : Json) : R (St × Json) := do
  let op ← fStr j "op"
  match op with
  | "sot" =>
    let kxx ← fRats j "kxx"
    let a : Args := { kxx := kxx, kyy := ← optRats j "kyy", kzz := ← optRats j "kzz", kxy := ← optRats j "kxy",
                      kxz := ← optRats j "kxz", kyz := ← optRats j "kyz" }
    match mkSOT a with
    | .ok t => let tt := t.map toTable; pure (.sot tt, obj [("values", ofSOTt tt)])
    | .error e => pure (.none, ofErr e)
  | "fot" =>
    let mu ← fRats j "mu"
    let lm ← fRats j "lmbda"
    let ex ← jList jExtra (fieldD j "extra" (Json.arr #[]))
    match mkFOT mu lm ex with
    | .ok t => pure (.fot t, ofFOT t)
    | .error e => pure (.none, ofErr e)
  | "rotate" =>
    let rows ← fRatss j "R"
    if rows.length != 3 || rows.any (fun r => r.length != 3) then throw "R must be 3x3" else
    match st with
    | .sot t =>
      let t' := (rotate (matOf rows) (ofTables t)).map toTable
      pure (.sot t', obj [("values", ofSOTt t')])
    | _ => pure (st, err "no-object")
  | "copy" =>
    let assign ← jBool (fieldD j "assign" (Json.bool false))
    match st with
    | .sot t =>
      let t' := (copySOT (ofTables t)).map toTable
      pure (if assign then .sot t' else st, obj [("values", ofSOTt t')])
    | .fot t => pure (st, ofFOT t)
    | .none => pure (st, err "no-object")
  | "restrict" =>
    let cells ← fNats j "cells"
    let assign ← jBool (fieldD j "assign" (Json.bool false))
    match st with
    | .sot t =>
      match restrictSOT (ofTables t) cells with
      | .ok t' => let t' := t'.map toTable; pure (if assign then .sot t' else st, obj [("values", ofSOTt t')])
      | .error e => pure (st, ofErr e)
    | .fot t =>
      match restrictFOT t cells with
      | .ok t' => pure (if assign then .fot t' else st, ofFOT t')
      | .error e => pure (st, ofErr e)
    | .none => pure (st, err "no-object")
  | _ => throw s!"unknown op {op}"

def main : IO Unit := runDriver Tensor.none step
