/-
C40 — executable model of `porepy.params.tensor` (core Lean only):
`SecondOrderTensor.__init__ / rotate / copy`, `FourthOrderTensor.__init__ / copy`,
`Tensor.restrict_to_cells`.

The `(3, 3, Nc)` array `values` is a list (one entry per cell) of 3×3 matrices
`Fin 3 → Fin 3 → Rat`; the `(9, 9, Nc)` array of the fourth-order tensor a list of 9×9
matrices.  Numbers are rationals (every binary64 is one); rounding is outside the model.
-/
namespace PorepyVerif.C40

abbrev M3 := Fin 3 → Fin 3 → Rat
abbrev M9 := Fin 9 → Fin 9 → Rat

def sum3 (f : Fin 3 → Rat) : Rat := f 0 + f 1 + f 2

/-! ### second-order tensor -/

/-- the assignments `perm[0,0]=kxx; perm[1,0]=perm[0,1]=kxy; …` for one cell -/
def ofEntries (xx yy zz xy xz yz : Rat) : M3 := fun i j =>
  match i.val, j.val with
  | 0, 0 => xx
  | 1, 1 => yy
  | 2, 2 => zz
  | 0, 1 => xy
  | 1, 0 => xy
  | 0, 2 => xz
  | 2, 0 => xz
  | 1, 2 => yz
  | 2, 1 => yz
  | _, _ => 0

/-- which `ValueError` of the constructor; `shape` = numpy refuses to broadcast the arrays -/
inductive Err where
  | x | y | z | shape | index
  deriving DecidableEq, Repr

/-- constructor arguments: `kxx` is mandatory, the others default (`None`) -/
structure Args where
  kxx : List Rat
  kyy : Option (List Rat) := none
  kzz : Option (List Rat) := none
  kxy : Option (List Rat) := none
  kxz : Option (List Rat) := none
  kyz : Option (List Rat) := none

/-- numpy broadcasting of a 1-d array against `Nc` cells: same length, or length 1 -/
def bcast (n : Nat) (l : List Rat) : Option (Nat → Rat) :=
  if l.length = n then some (fun c => l.getD c 0)
  else if l.length = 1 then some (fun _ => l.getD 0 0)
  else none

/-- the three determinant expressions of the constructor, per cell -/
def minor2 (xx yy xy : Rat) : Rat := xx * yy - xy * xy
def det3 (xx yy zz xy xz yz : Rat) : Rat :=
  xx * (yy * zz - yz * yz) - xy * (xy * zz - xz * yz) + xz * (xy * yz - xz * yy)

/-- `SecondOrderTensor(kxx, kyy, kzz, kxy, kxz, kyz)` in the order of the code:
    x-check, defaults for kyy/kxy, y-check, defaults for kzz/kxz/kyz, z-check, fill. -/
def mkSOT (a : Args) : Except Err (List M3) :=
  let n := a.kxx.length
  let kxx := fun c => a.kxx.getD c 0
  let cells := List.range n
  if a.kxx.any (fun v => decide (v < 0)) then .error .x else
  match bcast n (a.kyy.getD a.kxx), bcast n (a.kxy.getD (a.kxx.map (fun v => 0 * v))) with
  | some kyy, some kxy =>
    if cells.any (fun c => decide (minor2 (kxx c) (kyy c) (kxy c) < 0)) then .error .y else
    match bcast n (a.kzz.getD a.kxx), bcast n (a.kxz.getD (a.kxx.map (fun v => 0 * v))),
          bcast n (a.kyz.getD (a.kxx.map (fun v => 0 * v))) with
    | some kzz, some kxz, some kyz =>
      if cells.any (fun c => decide (det3 (kxx c) (kyy c) (kzz c) (kxy c) (kxz c) (kyz c) < 0)) then .error .z
      else .ok (cells.map (fun c => ofEntries (kxx c) (kyy c) (kzz c) (kxy c) (kxz c) (kyz c)))
    | _, _, _ => .error .shape
  | _, _ => .error .shape

/-- `np.tensordot(R, values, (1, 0))`: `A[i, b] = Σ_a R[i, a] · K[a, b]` -/
def tdotInner (R K : M3) : M3 := fun i b => sum3 (fun a => R i a * K a b)

/-- `np.tensordot(R.T, A, (0, 1))`: the free axis of `R.T` comes first,
    `out[j, i] = Σ_b R.T[b, j] · A[i, b] = Σ_b R[j, b] · A[i, b]` -/
def tdotOuter (R A : M3) : M3 := fun j i => sum3 (fun b => R j b * A i b)

/-- `SecondOrderTensor.rotate(R)` for one cell, as coded -/
def rotate1 (R K : M3) : M3 := tdotOuter R (tdotInner R K)

def rotate (R : M3) (t : List M3) : List M3 := t.map (rotate1 R)

/-- `SecondOrderTensor.copy()` AS CODED: a NEW tensor built by the constructor from the diagonal
    and the LOWER triangle of `values`, so it re-runs the sign checks.  On values produced by
    `rotate` this can raise although the constructor accepted the tensor (open finding: rounding
    on singular admissible tensors; exactly, on accepted indefinite ones — see Props). -/
def copySOTcoded (t : List M3) : Except Err (List M3) :=
  mkSOT { kxx := t.map (fun K => K 0 0), kxy := some (t.map (fun K => K 1 0)),
          kyy := some (t.map (fun K => K 1 1)), kxz := some (t.map (fun K => K 2 0)),
          kyz := some (t.map (fun K => K 2 1)), kzz := some (t.map (fun K => K 2 2)) }

/-- `arr[cells]` with an integer index array: `none` = `IndexError` -/
def select {α : Type} (l : List α) : List Nat → Option (List α)
  | [] => some []
  | c :: cs =>
    match l[c]?, select l cs with
    | some v, some r => some (v :: r)
    | _, _ => none

/-- `Tensor.restrict_to_cells(cells)` on a second-order tensor AS CODED: copy, then `values[:, :, cells]` -/
def restrictSOTcoded (t : List M3) (cells : List Nat) : Except Err (List M3) :=
  match copySOTcoded t with
  | .error e => .error e
  | .ok t' =>
    match select t' cells with
    | some r => .ok r
    | none => .error .index

/-- `copy()` as the PROPERTY requires it: the same values (a value model has no aliasing), no
    re-validation.  Agrees with the coded copy on every constructed tensor (`sot_copy_of_constructed`). -/
def copySOT (t : List M3) : List M3 := t

/-- `restrict_to_cells` as the property requires it: select the cells of a copy -/
def restrictSOT (t : List M3) (cells : List Nat) : Except Err (List M3) :=
  match select (copySOT t) cells with
  | some r => .ok r
  | none => .error .index

/-! ### specification side for the second-order tensor -/

def mul3 (A B : M3) : M3 := fun i j => sum3 (fun k => A i k * B k j)
def transpose3 (A : M3) : M3 := fun i j => A j i
def id3 : M3 := fun i j => if i = j then 1 else 0

def trace3 (K : M3) : Rat := K 0 0 + K 1 1 + K 2 2
/-- second invariant: sum of the principal 2×2 minors -/
def inv2 (K : M3) : Rat :=
  (K 0 0 * K 1 1 - K 0 1 * K 1 0) + (K 0 0 * K 2 2 - K 0 2 * K 2 0) + (K 1 1 * K 2 2 - K 1 2 * K 2 1)
def detM (K : M3) : Rat :=
  K 0 0 * (K 1 1 * K 2 2 - K 1 2 * K 2 1) - K 0 1 * (K 1 0 * K 2 2 - K 1 2 * K 2 0)
    + K 0 2 * (K 1 0 * K 2 1 - K 1 1 * K 2 0)

/-- characteristic polynomial `det(x·I − K)` evaluated at `x`; its roots are the eigenvalues -/
def charPoly3 (K : M3) (x : Rat) : Rat := detM (fun i j => (if i = j then x else 0) - K i j)

/-! ### fourth-order tensor -/

def muTab : List (List Int) :=
  [[2, 0, 0, 0, 0, 0, 0, 0, 0],
   [0, 1, 0, 1, 0, 0, 0, 0, 0],
   [0, 0, 1, 0, 0, 0, 1, 0, 0],
   [0, 1, 0, 1, 0, 0, 0, 0, 0],
   [0, 0, 0, 0, 2, 0, 0, 0, 0],
   [0, 0, 0, 0, 0, 1, 0, 1, 0],
   [0, 0, 1, 0, 0, 0, 1, 0, 0],
   [0, 0, 0, 0, 0, 1, 0, 1, 0],
   [0, 0, 0, 0, 0, 0, 0, 0, 2]]

def lmTab : List (List Int) :=
  [[1, 0, 0, 0, 1, 0, 0, 0, 1],
   [0, 0, 0, 0, 0, 0, 0, 0, 0],
   [0, 0, 0, 0, 0, 0, 0, 0, 0],
   [0, 0, 0, 0, 0, 0, 0, 0, 0],
   [1, 0, 0, 0, 1, 0, 0, 0, 1],
   [0, 0, 0, 0, 0, 0, 0, 0, 0],
   [0, 0, 0, 0, 0, 0, 0, 0, 0],
   [0, 0, 0, 0, 0, 0, 0, 0, 0],
   [1, 0, 0, 0, 1, 0, 0, 0, 1]]

def tabI (t : List (List Int)) (i j : Fin 9) : Int := (t.getD i.val []).getD j.val 0
def muMat : M9 := fun i j => (tabI muTab i j : Rat)
def lmMat : M9 := fun i j => (tabI lmTab i j : Rat)

/-- position of the pair (j, i) in the 9-index `3·i + j` of (i, j): the minor symmetries exchange
    `I` with `swapIdx I` in the row (c_ijkl = c_jikl) or in the column (c_ijkl = c_ijlk) -/
def swapIdx (I : Fin 9) : Fin 9 := ⟨3 * (I.val % 3) + I.val / 3, by omega⟩

/-- one entry of `other_fields`: the 9×9 basis matrix and the cell-wise field -/
structure Extra where
  mat : M9
  field : List Rat

structure FOT where
  mu : List Rat
  lmbda : List Rat
  extra : List Extra
  values : List M9

/-- contribution `Σ_k mat_k[i, j] · field_k[c]` of the other fields (added in order) -/
def extraSum (es : List Extra) (c : Nat) (i j : Fin 9) : Rat :=
  es.foldl (fun acc e => acc + e.mat i j * e.field.getD c 0) 0

/-- `FourthOrderTensor(mu, lmbda, other_fields)`; only the length checks can fail -/
def mkFOT (mu lmbda : List Rat) (extra : List Extra) : Except Err FOT :=
  if mu.length ≠ lmbda.length then .error .shape else
  if extra.any (fun e => e.field.length != mu.length) then .error .shape else
  .ok { mu := mu, lmbda := lmbda, extra := extra,
        values := (List.range mu.length).map (fun c => fun i j =>
          muMat i j * mu.getD c 0 + lmMat i j * lmbda.getD c 0 + extraSum extra c i j) }

/-- `restrict_to_cells` on a fourth-order tensor: `copy()` keeps all fields and `values`;
    then every constitutive parameter and `values` are indexed by `cells` -/
def restrictFOT (t : FOT) (cells : List Nat) : Except Err FOT :=
  match select t.mu cells, select t.lmbda cells,
        t.extra.mapM (fun e => (select e.field cells).map (fun f => ({ mat := e.mat, field := f } : Extra))),
        select t.values cells with
  | some mu, some lm, some ex, some vals => .ok { mu := mu, lmbda := lm, extra := ex, values := vals }
  | _, _, _, _ => .error .index

end PorepyVerif.C40
