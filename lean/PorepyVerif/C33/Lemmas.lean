/-
C33 — helper lemmas.

Plan of the proofs
  1. `ov_eq`      : for ordered cells the reported weight is `max 0 (min e1 e2 - max s1 s2)`
                    (case analysis over the insertion sort of the four end points).
  2. `ov_clip`    : that number is `clip q - clip p` with `clip x = min (max x s) e`  (clamping to the cell),
                    so the sum over the consecutive cells of a sorted node list telescopes (`sumOv_cells`).
  3. bookkeeping  : row / column / entry sums of the double loop `tessFrom` reduce to sums of `ov`.
  4. dense matrix : row (column) sums of `dense m n T` are `rowSum T` (`colSum T`) when indices are in range.
  5.-7. 2-D       : shoelace sums along chains; Sutherland–Hodgman against one line is edge-local when the
                    origin of the shoelace weights is on the line (`area2_clip1`); hence the two sides of a
                    line add up (`clip12_split`).  Uses the C44 model of the clipping and its convexity theorem.
-/
import PorepyVerif.C33.Model
import Mathlib.Tactic.Linarith
import Mathlib.Tactic.SplitIfs
import Mathlib.Tactic.Ring
import Mathlib.Algebra.Order.Field.Basic
import Mathlib.Tactic.FieldSimp
import Mathlib.Tactic.LinearCombination
import PorepyVerif.C44.Props

namespace PorepyVerif.C33

/-- weight contributed by the pair `(c, d)`: the reported weight, 0 if the pair is not reported -/
def ov {α β : Type} (f : α → β → Option Rat) (c : α) (d : β) : Rat := (f c d).getD 0

/-- the exact pair function (no "end to end" tolerance): reported length of the common part -/
def pairOverlapX (c d : Cell) : Option Rat :=
  let max1 := rmax c.1 c.2
  let min1 := rmin c.1 c.2
  let max2 := rmax d.1 d.2
  let min2 := rmin d.1 d.2
  if max1 < min2 then none
  else if max2 < min1 then none
  else
    match isort [c.1, c.2, d.1, d.2] with
    | [_, x, y, _] => some (dist x y)
    | _ => none

/-- strictly increasing node list -/
def strictInc : List Rat → Bool
  | [] => true
  | [_] => true
  | x :: y :: l => decide (x < y) && strictInc (y :: l)

/-! ### 1. one pair of cells -/

theorem ov_eq (s1 e1 s2 e2 : Rat) (h1 : s1 ≤ e1) (h2 : s2 ≤ e2) :
    ov pairOverlapX (s1, e1) (s2, e2) = rmax 0 (rmin e1 e2 - rmax s1 s2) := by
  unfold ov pairOverlapX
  simp only [isort, insertS, rmax, rmin, dist, if_pos h1, if_pos h2]
  by_cases a1 : e1 < s2
  · rw [if_pos a1]; simp only [Option.getD_none]; split_ifs <;> linarith
  · rw [if_neg a1]
    by_cases a2 : e2 < s1
    · rw [if_pos a2]; simp only [Option.getD_none]; split_ifs <;> linarith
    · rw [if_neg a2]
      simp only [not_lt] at a1 a2
      by_cases b1 : e1 ≤ s2 <;> by_cases b2 : s1 ≤ s2 <;> by_cases b3 : e1 ≤ e2 <;>
        by_cases b4 : s1 ≤ e2 <;>
        simp only [b1, b2, b3, b4, h1, h2, a1, insertS, if_true, if_false] <;>
        (try simp only [Option.getD_some]) <;> (try split_ifs) <;> (try linarith)

theorem dist_nonneg (a b : Rat) : 0 ≤ dist a b := by
  unfold dist; split_ifs <;> linarith

theorem pairOverlapX_nonneg (c d : Cell) (w : Rat) (h : pairOverlapX c d = some w) : 0 ≤ w := by
  unfold pairOverlapX at h
  simp only at h
  split_ifs at h
  split at h
  · cases h; exact dist_nonneg _ _
  · cases h

/-- clamp `x` to the cell `[s, e]` -/
def clip (s e x : Rat) : Rat := rmin (rmax x s) e

theorem ov_clip (s e p q : Rat) (h1 : s ≤ e) (h2 : p ≤ q) :
    ov pairOverlapX (s, e) (p, q) = clip s e q - clip s e p := by
  rw [ov_eq s e p q h1 h2]
  unfold clip rmax rmin
  split_ifs <;> linarith

theorem ov_symm (c d : Cell) (hc : c.1 ≤ c.2) (hd : d.1 ≤ d.2) : ov pairOverlapX c d = ov pairOverlapX d c := by
  obtain ⟨s1, e1⟩ := c
  obtain ⟨s2, e2⟩ := d
  rw [ov_eq s1 e1 s2 e2 hc hd, ov_eq s2 e2 s1 e1 hd hc]
  unfold rmax rmin
  split_ifs <;> linarith

theorem clip_lo (s e x : Rat) (h : s ≤ e) (hx : x ≤ s) : clip s e x = s := by
  unfold clip rmax rmin; split_ifs; linarith

theorem clip_hi (s e x : Rat) (h : s ≤ e) (hx : e ≤ x) : clip s e x = e := by
  unfold clip rmax rmin; split_ifs <;> linarith

/-! ### 2. one cell against a sorted tessellation: telescoping sum -/

/-- `Σ_{d ∈ ds} ov f c d` -/
def sumOv {α β : Type} (f : α → β → Option Rat) (c : α) : List β → Rat
  | [] => 0
  | d :: ds => ov f c d + sumOv f c ds

/-- `Σ_{c ∈ cs} ov f c d` -/
def sumOvL {α β : Type} (f : α → β → Option Rat) (d : β) : List α → Rat
  | [] => 0
  | c :: cs => ov f c d + sumOvL f d cs


/-- last element of `x :: l` -/
def lastOr (x : Rat) : List Rat → Rat
  | [] => x
  | y :: l => lastOr y l

theorem strictInc_cons2 (x y : Rat) (l : List Rat) :
    strictInc (x :: y :: l) = true ↔ x < y ∧ strictInc (y :: l) = true := by
  simp [strictInc]

theorem sumOv_cells (s e : Rat) (h : s ≤ e) (l : List Rat) (x : Rat)
    (hinc : strictInc (x :: l) = true) :
    sumOv pairOverlapX (s, e) (cells (x :: l)) = clip s e (lastOr x l) - clip s e x := by
  induction l generalizing x with
  | nil => simp [cells, sumOv, lastOr]
  | cons y l ih =>
    obtain ⟨hxy, hrest⟩ := (strictInc_cons2 x y l).mp hinc
    simp only [cells, sumOv, lastOr]
    rw [ih y hrest, ov_clip s e x y h (le_of_lt hxy)]
    ring

theorem le_lastOr (l : List Rat) (x : Rat) (hinc : strictInc (x :: l) = true) : x ≤ lastOr x l := by
  induction l generalizing x with
  | nil => exact le_refl _
  | cons y l ih =>
    obtain ⟨hxy, hrest⟩ := (strictInc_cons2 x y l).mp hinc
    exact le_trans (le_of_lt hxy) (ih y hrest)

theorem cells_bounds (l : List Rat) (x : Rat) (hinc : strictInc (x :: l) = true) (c : Cell)
    (hc : c ∈ cells (x :: l)) : x ≤ c.1 ∧ c.1 < c.2 ∧ c.2 ≤ lastOr x l := by
  induction l generalizing x with
  | nil => simp [cells] at hc
  | cons y l ih =>
    obtain ⟨hxy, hrest⟩ := (strictInc_cons2 x y l).mp hinc
    simp only [cells, List.mem_cons] at hc
    rcases hc with rfl | hc
    · exact ⟨le_refl _, hxy, le_lastOr l y hrest⟩
    · have := ih y hrest hc
      exact ⟨le_trans (le_of_lt hxy) this.1, this.2.1, this.2.2⟩

/-- a cell inside `[b_0, b_n]` is covered exactly by the cells of `b` -/
theorem sumOv_cover (c : Cell) (l : List Rat) (x : Rat) (hinc : strictInc (x :: l) = true)
    (hc : c.1 ≤ c.2) (hlo : x ≤ c.1) (hhi : c.2 ≤ lastOr x l) :
    sumOv pairOverlapX c (cells (x :: l)) = c.2 - c.1 := by
  obtain ⟨s, e⟩ := c
  rw [sumOv_cells s e hc l x hinc, clip_hi s e _ hc hhi, clip_lo s e _ hc hlo]

theorem sumOvL_eq_sumOv (d : Cell) (hd : d.1 ≤ d.2) (cs : List Cell)
    (hcs : ∀ c ∈ cs, c.1 ≤ c.2) : sumOvL pairOverlapX d cs = sumOv pairOverlapX d cs := by
  induction cs with
  | nil => rfl
  | cons c cs ih =>
    simp only [sumOvL, sumOv]
    rw [ih (fun c' h => hcs c' (List.mem_cons_of_mem _ h)),
      ov_symm c d (hcs c List.mem_cons_self) hd]

theorem getLast?_eq_lastOr (x : Rat) (l : List Rat) : (x :: l).getLast? = some (lastOr x l) := by
  induction l generalizing x with
  | nil => rfl
  | cons y l ih => rw [List.getLast?_cons_cons, ih y]; rfl

/-! ### 3. bookkeeping of the double loop -/

theorem rowSum_append (A B : List Triple) (i : Nat) :
    rowSum (A ++ B) i = rowSum A i + rowSum B i := by
  induction A with
  | nil => simp [rowSum]
  | cons t A ih => simp only [List.cons_append, rowSum, ih]; ring

theorem colSum_append (A B : List Triple) (j : Nat) :
    colSum (A ++ B) j = colSum A j + colSum B j := by
  induction A with
  | nil => simp [colSum]
  | cons t A ih => simp only [List.cons_append, colSum, ih]; ring

theorem entry_append (A B : List Triple) (i j : Nat) :
    entry (A ++ B) i j = entry A i j + entry B i j := by
  induction A with
  | nil => simp [entry]
  | cons t A ih => simp only [List.cons_append, entry, ih]; ring

theorem rowTess_bounds {α β : Type} (f : α → β → Option Rat) (hf : ∀ c d w, f c d = some w → 0 ≤ w)
    (i : Nat) (c : α) (ds : List β) (j0 : Nat) (t : Triple)
    (ht : t ∈ rowTess f i c j0 ds) : t.1 = i ∧ j0 ≤ t.2.1 ∧ t.2.1 < j0 + ds.length ∧ 0 ≤ t.2.2 := by
  induction ds generalizing j0 with
  | nil => simp [rowTess] at ht
  | cons d ds ih =>
    unfold rowTess at ht
    cases h : f c d with
    | none =>
      rw [h] at ht
      obtain ⟨h1, h2, h3, h4⟩ := ih (j0 + 1) ht
      simp only [List.length_cons]
      exact ⟨h1, by omega, by omega, h4⟩
    | some w =>
      rw [h] at ht
      simp only [List.mem_cons] at ht
      rcases ht with rfl | ht
      · exact ⟨rfl, le_refl _, by simp, hf c d w h⟩
      · obtain ⟨h1, h2, h3, h4⟩ := ih (j0 + 1) ht
        simp only [List.length_cons]
        exact ⟨h1, by omega, by omega, h4⟩

theorem tess_bounds {α β : Type} (f : α → β → Option Rat) (hf : ∀ c d w, f c d = some w → 0 ≤ w)
    (cs : List α) (ds : List β) (k : Nat) (t : Triple) (ht : t ∈ tessFrom f k cs ds) :
    k ≤ t.1 ∧ t.1 < k + cs.length ∧ t.2.1 < ds.length ∧ 0 ≤ t.2.2 := by
  induction cs generalizing k with
  | nil => simp [tessFrom] at ht
  | cons c cs ih =>
    simp only [tessFrom, List.mem_append] at ht
    simp only [List.length_cons]
    rcases ht with ht | ht
    · obtain ⟨h1, _, h3, h4⟩ := rowTess_bounds f hf k c ds 0 t ht
      exact ⟨by omega, by omega, by omega, h4⟩
    · obtain ⟨h1, h2, h3, h4⟩ := ih (k + 1) ht
      exact ⟨by omega, by omega, h3, h4⟩

/-- the weights a row of the loop reports for its own cell add up to `Σ_d ov f c d` -/
theorem rowSum_rowTess {α β : Type} (f : α → β → Option Rat) (i : Nat) (c : α) (ds : List β) (j0 i' : Nat) :
    rowSum (rowTess f i c j0 ds) i' = if i = i' then sumOv f c ds else 0 := by
  induction ds generalizing j0 with
  | nil => simp [rowTess, rowSum, sumOv]
  | cons d ds ih =>
    unfold rowTess
    cases h : f c d with
    | none =>
      simp only [ih (j0 + 1), sumOv, ov, h, Option.getD_none, zero_add]
    | some w =>
      simp only [rowSum, ih (j0 + 1), sumOv, ov, h, Option.getD_some]
      split_ifs <;> ring

theorem rowSum_tessFrom_lt {α β : Type} (f : α → β → Option Rat) (cs : List α) (ds : List β) (k i : Nat) (h : i < k) :
    rowSum (tessFrom f k cs ds) i = 0 := by
  induction cs generalizing k with
  | nil => simp [tessFrom, rowSum]
  | cons c cs ih =>
    simp only [tessFrom, rowSum_append, rowSum_rowTess, ih (k + 1) (by omega)]
    rw [if_neg (by omega)]; ring

theorem rowSum_tessFrom {α β : Type} (f : α → β → Option Rat) (cs : List α) (ds : List β) (k i : Nat) (c : α) (hc : cs[i]? = some c) :
    rowSum (tessFrom f k cs ds) (k + i) = sumOv f c ds := by
  induction cs generalizing k i with
  | nil => simp at hc
  | cons c0 cs ih =>
    simp only [tessFrom, rowSum_append, rowSum_rowTess]
    cases i with
    | zero =>
      simp only [List.getElem?_cons_zero, Option.some.injEq] at hc
      subst hc
      rw [if_pos (by omega), rowSum_tessFrom_lt f cs ds (k + 1) (k + 0) (by omega)]; ring
    | succ i =>
      simp only [List.getElem?_cons_succ] at hc
      have := ih (k + 1) i hc
      rw [if_neg (by omega), show k + (i + 1) = k + 1 + i by omega, this]; ring

theorem colSum_rowTess_lt {α β : Type} (f : α → β → Option Rat) (i : Nat) (c : α) (ds : List β) (j0 j : Nat) (h : j < j0) :
    colSum (rowTess f i c j0 ds) j = 0 := by
  induction ds generalizing j0 with
  | nil => simp [rowTess, colSum]
  | cons d ds ih =>
    unfold rowTess
    cases hp : f c d with
    | none => exact ih (j0 + 1) (by omega)
    | some w =>
      simp only [colSum, ih (j0 + 1) (by omega)]
      rw [if_neg (by omega)]; ring

theorem colSum_rowTess {α β : Type} (f : α → β → Option Rat) (i : Nat) (c : α) (ds : List β) (j0 j : Nat) (d : β)
    (hd : ds[j]? = some d) : colSum (rowTess f i c j0 ds) (j0 + j) = ov f c d := by
  induction ds generalizing j0 j with
  | nil => simp at hd
  | cons d0 ds ih =>
    unfold rowTess
    cases j with
    | zero =>
      simp only [List.getElem?_cons_zero, Option.some.injEq] at hd
      subst hd
      cases hp : f c d0 with
      | none =>
        simp only [ov, hp, Option.getD_none]
        exact colSum_rowTess_lt f i c ds (j0 + 1) (j0 + 0) (by omega)
      | some w =>
        simp only [colSum, ov, hp, Option.getD_some]
        rw [if_pos (by omega), colSum_rowTess_lt f i c ds (j0 + 1) (j0 + 0) (by omega)]; ring
    | succ j =>
      simp only [List.getElem?_cons_succ] at hd
      have := ih (j0 + 1) j hd
      rw [show j0 + 1 + j = j0 + (j + 1) by omega] at this
      cases hp : f c d0 with
      | none => exact this
      | some w =>
        simp only [colSum, this]
        rw [if_neg (by omega)]; ring

theorem colSum_tessFrom {α β : Type} (f : α → β → Option Rat) (cs : List α) (ds : List β) (k j : Nat) (d : β) (hd : ds[j]? = some d) :
    colSum (tessFrom f k cs ds) j = sumOvL f d cs := by
  induction cs generalizing k with
  | nil => simp [tessFrom, colSum, sumOvL]
  | cons c cs ih =>
    simp only [tessFrom, colSum_append, sumOvL, ih (k + 1)]
    have := colSum_rowTess f k c ds 0 j d hd
    rw [Nat.zero_add] at this
    rw [this]

theorem entry_rowTess_lt {α β : Type} (f : α → β → Option Rat) (i : Nat) (c : α) (ds : List β) (j0 i' j : Nat) (h : j < j0) :
    entry (rowTess f i c j0 ds) i' j = 0 := by
  induction ds generalizing j0 with
  | nil => simp [rowTess, entry]
  | cons d ds ih =>
    unfold rowTess
    cases hp : f c d with
    | none => exact ih (j0 + 1) (by omega)
    | some w =>
      simp only [entry, ih (j0 + 1) (by omega)]
      rw [if_neg (by omega)]; ring

theorem entry_rowTess_ne {α β : Type} (f : α → β → Option Rat) (i : Nat) (c : α) (ds : List β) (j0 i' j : Nat) (h : i ≠ i') :
    entry (rowTess f i c j0 ds) i' j = 0 := by
  induction ds generalizing j0 with
  | nil => simp [rowTess, entry]
  | cons d ds ih =>
    unfold rowTess
    cases hp : f c d with
    | none => exact ih (j0 + 1)
    | some w =>
      simp only [entry, ih (j0 + 1)]
      rw [if_neg (by intro hh; exact h hh.1)]; ring

theorem entry_rowTess {α β : Type} (f : α → β → Option Rat) (i : Nat) (c : α) (ds : List β) (j0 j : Nat) (d : β)
    (hd : ds[j]? = some d) : entry (rowTess f i c j0 ds) i (j0 + j) = ov f c d := by
  induction ds generalizing j0 j with
  | nil => simp at hd
  | cons d0 ds ih =>
    unfold rowTess
    cases j with
    | zero =>
      simp only [List.getElem?_cons_zero, Option.some.injEq] at hd
      subst hd
      cases hp : f c d0 with
      | none =>
        simp only [ov, hp, Option.getD_none]
        exact entry_rowTess_lt f i c ds (j0 + 1) i (j0 + 0) (by omega)
      | some w =>
        simp only [entry, ov, hp, Option.getD_some]
        rw [if_pos (by simp), entry_rowTess_lt f i c ds (j0 + 1) i (j0 + 0) (by omega)]; ring
    | succ j =>
      simp only [List.getElem?_cons_succ] at hd
      have := ih (j0 + 1) j hd
      rw [show j0 + 1 + j = j0 + (j + 1) by omega] at this
      cases hp : f c d0 with
      | none => exact this
      | some w =>
        simp only [entry, this]
        rw [if_neg (by omega)]; ring

theorem entry_tessFrom_lt {α β : Type} (f : α → β → Option Rat) (cs : List α) (ds : List β) (k i j : Nat) (h : i < k) :
    entry (tessFrom f k cs ds) i j = 0 := by
  induction cs generalizing k with
  | nil => simp [tessFrom, entry]
  | cons c cs ih =>
    simp only [tessFrom, entry_append, ih (k + 1) (by omega),
      entry_rowTess_ne f k c ds 0 i j (by omega)]
    ring

theorem entry_tessFrom {α β : Type} (f : α → β → Option Rat) (cs : List α) (ds : List β) (k i j : Nat) (c : α) (d : β) (hc : cs[i]? = some c)
    (hd : ds[j]? = some d) : entry (tessFrom f k cs ds) (k + i) j = ov f c d := by
  induction cs generalizing k i with
  | nil => simp at hc
  | cons c0 cs ih =>
    simp only [tessFrom, entry_append]
    cases i with
    | zero =>
      simp only [List.getElem?_cons_zero, Option.some.injEq] at hc
      subst hc
      have := entry_rowTess f k c0 ds 0 j d hd
      rw [Nat.zero_add] at this
      rw [Nat.add_zero, this, entry_tessFrom_lt f cs ds (k + 1) k j (by omega)]; ring
    | succ i =>
      simp only [List.getElem?_cons_succ] at hc
      have := ih (k + 1) i hc
      rw [entry_rowTess_ne f k c0 ds 0 (k + (i + 1)) j (by omega),
        show k + (i + 1) = k + 1 + i by omega, this]; ring

/-! ### 3b. the tolerance branch does not fire on separated tessellations -/

theorem snap_nonneg (ptol v : Rat) (hv : 0 ≤ v) : 0 ≤ snap ptol v := by
  unfold snap; split_ifs <;> linarith

theorem pairOverlap_nonneg (ptol : Rat) (c d : Cell) (w : Rat) (h : pairOverlap ptol c d = some w) :
    0 ≤ w := by
  unfold pairOverlap at h
  simp only at h
  split_ifs at h
  split at h
  · cases h; exact snap_nonneg _ _ (dist_nonneg _ _)
  · cases h

/-- the model's pair function is the exact one followed by the "end to end" test -/
theorem pairOverlap_eq_map (ptol : Rat) (c d : Cell) :
    pairOverlap ptol c d = (pairOverlapX c d).map (snap ptol) := by
  unfold pairOverlap pairOverlapX
  simp only
  split_ifs
  · rfl
  · rfl
  · generalize isort [c.1, c.2, d.1, d.2] = L
    rcases L with _ | ⟨a, _ | ⟨b, _ | ⟨c', _ | ⟨d', _ | ⟨e, l⟩⟩⟩⟩⟩ <;> rfl

/-- separation of two ordered cells: every difference "upper end − lower end" is `≤ 0` or `≥ ptol` -/
def Sep (ptol : Rat) (c d : Cell) : Prop :=
  (c.2 - c.1 ≤ 0 ∨ ptol ≤ c.2 - c.1) ∧ (c.2 - d.1 ≤ 0 ∨ ptol ≤ c.2 - d.1) ∧
  (d.2 - c.1 ≤ 0 ∨ ptol ≤ d.2 - c.1) ∧ (d.2 - d.1 ≤ 0 ∨ ptol ≤ d.2 - d.1)

theorem pairOverlap_eq_X (ptol : Rat) (c d : Cell) (hc : c.1 ≤ c.2) (hd : d.1 ≤ d.2)
    (hs : Sep ptol c d) : pairOverlap ptol c d = pairOverlapX c d := by
  rw [pairOverlap_eq_map]
  cases h : pairOverlapX c d with
  | none => rfl
  | some w =>
    have hw : ov pairOverlapX c d = w := by simp [ov, h]
    obtain ⟨s1, e1⟩ := c
    obtain ⟨s2, e2⟩ := d
    rw [ov_eq s1 e1 s2 e2 hc hd] at hw
    obtain ⟨h11, h12, h21, h22⟩ := hs
    simp only [Option.map_some, Option.some.injEq]
    subst hw
    unfold snap rmax rmin
    simp only at h11 h12 h21 h22
    split_ifs <;> first
      | rfl
      | (rcases h11 with h | h <;> linarith)
      | (rcases h12 with h | h <;> linarith)
      | (rcases h21 with h | h <;> linarith)
      | (rcases h22 with h | h <;> linarith)

theorem rowTess_congr {α β : Type} (f g : α → β → Option Rat) (i : Nat) (c : α) (ds : List β) (j0 : Nat)
    (h : ∀ d ∈ ds, f c d = g c d) : rowTess f i c j0 ds = rowTess g i c j0 ds := by
  induction ds generalizing j0 with
  | nil => rfl
  | cons d ds ih =>
    unfold rowTess
    rw [h d List.mem_cons_self, ih (j0 + 1) (fun d' hd' => h d' (List.mem_cons_of_mem _ hd'))]

theorem tessFrom_congr {α β : Type} (f g : α → β → Option Rat) (cs : List α) (ds : List β) (k : Nat)
    (h : ∀ c ∈ cs, ∀ d ∈ ds, f c d = g c d) : tessFrom f k cs ds = tessFrom g k cs ds := by
  induction cs generalizing k with
  | nil => rfl
  | cons c cs ih =>
    simp only [tessFrom]
    rw [rowTess_congr f g k c ds 0 (h c List.mem_cons_self),
      ih (k + 1) (fun c' hc' => h c' (List.mem_cons_of_mem _ hc'))]

theorem gapInc_cons2 (ptol x y : Rat) (l : List Rat) :
    gapInc ptol (x :: y :: l) = true ↔ x < y ∧ ptol ≤ y - x ∧ gapInc ptol (y :: l) = true := by
  simp [gapInc, and_assoc]

theorem gapInc_strictInc (ptol : Rat) (l : List Rat) (h : gapInc ptol l = true) : strictInc l = true := by
  induction l with
  | nil => rfl
  | cons x l ih =>
    cases l with
    | nil => rfl
    | cons y l =>
      obtain ⟨h1, _, h3⟩ := (gapInc_cons2 ptol x y l).mp h
      exact (strictInc_cons2 x y l).mpr ⟨h1, ih h3⟩

/-- the cells of a node list: both ends are nodes, and the cell is at least `ptol` long -/
theorem cells_nodes (ptol : Rat) (l : List Rat) (h : gapInc ptol l = true) (c : Cell) (hc : c ∈ cells l) :
    c.1 ∈ l ∧ c.2 ∈ l ∧ c.1 < c.2 ∧ ptol ≤ c.2 - c.1 := by
  induction l with
  | nil => simp [cells] at hc
  | cons x l ih =>
    cases l with
    | nil => simp [cells] at hc
    | cons y l =>
      obtain ⟨h1, h2, h3⟩ := (gapInc_cons2 ptol x y l).mp h
      simp only [cells, List.mem_cons] at hc
      rcases hc with rfl | hc
      · exact ⟨by simp, by simp, h1, h2⟩
      · obtain ⟨a1, a2, a3, a4⟩ := ih h3 hc
        exact ⟨List.mem_cons_of_mem _ a1, List.mem_cons_of_mem _ a2, a3, a4⟩

theorem sepNodes_spec (ptol : Rat) (a b : List Rat) (h : sepNodes ptol a b = true) (x y : Rat)
    (hx : x ∈ a) (hy : y ∈ b) : x = y ∨ ptol ≤ dist x y := by
  unfold sepNodes at h
  rw [List.all_eq_true] at h
  have := h x hx
  rw [List.all_eq_true] at this
  simpa using this y hy

theorem diff_sep (ptol x y : Rat) (h : x = y ∨ ptol ≤ dist x y) :
    x - y ≤ 0 ∨ ptol ≤ x - y := by
  rcases h with rfl | h
  · left; linarith
  · unfold dist at h
    split_ifs at h with hxy
    · left; linarith
    · right; exact h

/-- cells of two separated tessellations are separated -/
theorem cells_sep (ptol : Rat) (a b : List Rat) (ha : gapInc ptol a = true)
    (hb : gapInc ptol b = true) (hs : sepNodes ptol a b = true) (c d : Cell) (hc : c ∈ cells a)
    (hd : d ∈ cells b) : Sep ptol c d := by
  obtain ⟨c1, c2, _, c4⟩ := cells_nodes ptol a ha c hc
  obtain ⟨d1, d2, _, d4⟩ := cells_nodes ptol b hb d hd
  refine ⟨Or.inr c4, ?_, ?_, Or.inr d4⟩
  · exact diff_sep ptol c.2 d.1 (sepNodes_spec ptol a b hs c.2 d.1 c2 d1)
  · have := sepNodes_spec ptol a b hs c.1 d.2 c1 d2
    refine diff_sep ptol d.2 c.1 ?_
    rcases this with h | h
    · exact Or.inl h.symm
    · right
      unfold dist at h ⊢
      split_ifs at h ⊢ <;> linarith

/-- on separated tessellations the model's loop reports exactly what the exact pair function reports -/
theorem lineTess_eq_X (ptol : Rat) (a b : List Rat) (ha : gapInc ptol a = true)
    (hb : gapInc ptol b = true) (hs : sepNodes ptol a b = true) :
    lineTess ptol (cells a) (cells b) = tessFrom pairOverlapX 0 (cells a) (cells b) := by
  unfold lineTess
  apply tessFrom_congr
  intro c hc d hd
  have c3 := (cells_nodes ptol a ha c hc).2.2.1
  have d3 := (cells_nodes ptol b hb d hd).2.2.1
  exact pairOverlap_eq_X ptol c d (le_of_lt c3) (le_of_lt d3) (cells_sep ptol a b ha hb hs c d hc hd)

/-! ### 4. dense matrices -/

theorem sum_tabFrom_zero (k n : Nat) : (tabFrom (fun _ => (0 : Rat)) k n).sum = 0 := by
  induction n generalizing k with
  | zero => simp [tabFrom]
  | succ n ih => simp [tabFrom, ih]

theorem sum_tabFrom_add (f g : Nat → Rat) (k n : Nat) :
    (tabFrom (fun j => f j + g j) k n).sum = (tabFrom f k n).sum + (tabFrom g k n).sum := by
  induction n generalizing k with
  | zero => simp [tabFrom]
  | succ n ih => simp only [tabFrom, List.sum_cons, ih]; ring

theorem sum_tabFrom_ind (p : Nat → Prop) [DecidablePred p] (w : Rat) (j0 k n : Nat)
    (hp : ∀ j, p j → j = j0) :
    (tabFrom (fun j => if p j then w else 0) k n).sum
      = if p j0 ∧ k ≤ j0 ∧ j0 < k + n then w else 0 := by
  induction n generalizing k with
  | zero =>
    simp only [tabFrom, List.sum_nil]
    rw [if_neg (by omega)]
  | succ n ih =>
    simp only [tabFrom, List.sum_cons, ih (k + 1)]
    by_cases hk : p k
    · have := hp k hk
      subst this
      rw [if_pos hk, if_neg (by omega), if_pos ⟨hk, by omega, by omega⟩]; ring
    · rw [if_neg hk]
      by_cases h2 : p j0 ∧ k + 1 ≤ j0 ∧ j0 < k + 1 + n
      · rw [if_pos h2, if_pos ⟨h2.1, by omega, by omega⟩]; ring
      · rw [if_neg h2, if_neg]
        · ring
        · rintro ⟨h3, h4, h5⟩
          apply h2
          refine ⟨h3, ?_, by omega⟩
          rcases Nat.lt_or_ge k j0 with h | h
          · omega
          · exact absurd (show p k from (by have : j0 = k := by omega
                                            rwa [this] at h3)) hk

/-- row `i` of the dense matrix sums to the row sum of the triples -/
theorem sum_row_dense (T : List Triple) (i n : Nat) (hT : ∀ t ∈ T, t.2.1 < n) :
    (tabFrom (fun j => entry T i j) 0 n).sum = rowSum T i := by
  induction T with
  | nil => simpa [entry, rowSum] using sum_tabFrom_zero 0 n
  | cons t T ih =>
    simp only [entry, rowSum]
    rw [sum_tabFrom_add, ih (fun t' h => hT t' (List.mem_cons_of_mem _ h)),
      sum_tabFrom_ind (fun j => t.1 = i ∧ t.2.1 = j) t.2.2 t.2.1 0 n (fun j h => h.2.symm)]
    have := hT t List.mem_cons_self
    by_cases hi : t.1 = i
    · rw [if_pos ⟨⟨hi, rfl⟩, by omega, by omega⟩, if_pos hi]
    · rw [if_neg (fun h => hi h.1.1), if_neg hi]

/-- column `j` of the dense matrix sums to the column sum of the triples -/
theorem sum_col_dense (T : List Triple) (j m : Nat) (hT : ∀ t ∈ T, t.1 < m) :
    (tabFrom (fun i => entry T i j) 0 m).sum = colSum T j := by
  induction T with
  | nil => simpa [entry, colSum] using sum_tabFrom_zero 0 m
  | cons t T ih =>
    simp only [entry, colSum]
    rw [sum_tabFrom_add, ih (fun t' h => hT t' (List.mem_cons_of_mem _ h)),
      sum_tabFrom_ind (fun i => t.1 = i ∧ t.2.1 = j) t.2.2 t.1 0 m (fun i h => h.1.symm)]
    have := hT t List.mem_cons_self
    by_cases hj : t.2.1 = j
    · rw [if_pos ⟨⟨rfl, hj⟩, by omega, by omega⟩, if_pos hj]
    · rw [if_neg (fun h => hj h.1.2), if_neg hj]

theorem mem_tabFrom {α : Type} (f : Nat → α) (k n : Nat) (x : α) (h : x ∈ tabFrom f k n) :
    ∃ i, k ≤ i ∧ i < k + n ∧ x = f i := by
  induction n generalizing k with
  | zero => simp [tabFrom] at h
  | succ n ih =>
    simp only [tabFrom, List.mem_cons] at h
    rcases h with rfl | h
    · exact ⟨k, le_refl _, by omega, rfl⟩
    · obtain ⟨i, h1, h2, h3⟩ := ih (k + 1) h
      exact ⟨i, by omega, by omega, h3⟩

theorem getD_tabFrom (f : Nat → Rat) (k n j : Nat) (h : j < n) :
    (tabFrom f k n).getD j 0 = f (k + j) := by
  induction n generalizing k j with
  | zero => omega
  | succ n ih =>
    cases j with
    | zero => simp [tabFrom]
    | succ j =>
      simp only [tabFrom, List.getD_cons_succ]
      rw [ih (k + 1) j (by omega)]
      congr 1; omega

theorem map_tabFrom {α β : Type} (g : α → β) (f : Nat → α) (k n : Nat) :
    (tabFrom f k n).map g = tabFrom (fun i => g (f i)) k n := by
  induction n generalizing k with
  | zero => simp [tabFrom]
  | succ n ih => simp [tabFrom, ih]

theorem tabFrom_congr {α : Type} (f g : Nat → α) (k n : Nat) (h : ∀ i, k ≤ i → i < k + n → f i = g i) :
    tabFrom f k n = tabFrom g k n := by
  induction n generalizing k with
  | zero => simp [tabFrom]
  | succ n ih =>
    simp only [tabFrom]
    rw [h k (le_refl _) (by omega), ih (k + 1) (fun i h1 h2 => h i (by omega) (by omega))]

/-- column sums of a dense matrix -/
theorem colSumDense_dense (T : List Triple) (m n j : Nat) (hj : j < n) (hT : ∀ t ∈ T, t.1 < m) :
    colSumDense (dense m n T) j = colSum T j := by
  unfold colSumDense dense
  rw [map_tabFrom, ← sum_col_dense T j m hT]
  congr 1
  apply tabFrom_congr
  intro i _ _
  rw [getD_tabFrom _ 0 n j hj, Nat.zero_add]

/-! ### scaling -/

theorem rowSum_scale_row (v : Nat → Rat) (T : List Triple) (i : Nat) :
    rowSum (T.map (fun t => (t.1, t.2.1, t.2.2 / v t.1))) i = rowSum T i / v i := by
  induction T with
  | nil => simp [rowSum]
  | cons t T ih =>
    simp only [List.map_cons, rowSum]
    rw [ih]
    by_cases h : t.1 = i
    · rw [if_pos h, if_pos h, h, add_div]
    · rw [if_neg h, if_neg h, zero_add, zero_add]

theorem colSum_scale_col (v : Nat → Rat) (T : List Triple) (j : Nat) :
    colSum (T.map (fun t => (t.1, t.2.1, t.2.2 / v t.2.1))) j = colSum T j / v j := by
  induction T with
  | nil => simp [colSum]
  | cons t T ih =>
    simp only [List.map_cons, colSum]
    rw [ih]
    by_cases h : t.2.1 = j
    · rw [if_pos h, if_pos h, h, add_div]
    · rw [if_neg h, if_neg h, zero_add, zero_add]

theorem cellVol_of_le (c : Cell) (h : c.1 ≤ c.2) : cellVol c = c.2 - c.1 := by
  unfold cellVol dist; rw [if_pos h]


open PorepyVerif.C44 (Pt HP cross area2 edges edgesAux shEdge2 walk2 shClip12 shClip2 lerp2 leftOf InPoly
  ConvexCCW halfPlanes)

/-! ### 5. shoelace sums along chains -/

/-- sum of `w` over the consecutive pairs of the open chain `p, x₁, x₂, …` -/
def pathSum (w : Pt → Pt → Rat) : Pt → List Pt → Rat
  | _, [] => 0
  | p, x :: xs => w p x + pathSum w x xs

/-- sum of `w` over the edges of the closed polygon -/
def cycSum (w : Pt → Pt → Rat) : List Pt → Rat
  | [] => 0
  | a :: rest => pathSum w a (rest ++ [a])

def lastD : Pt → List Pt → Pt
  | p, [] => p
  | _, x :: xs => lastD x xs

/-- shoelace weight with respect to the origin `O` -/
def wO (O A B : Pt) : Rat := cross (A.sub O) (B.sub O)

theorem pathSum_append (w : Pt → Pt → Rat) (p : Pt) (A B : List Pt) :
    pathSum w p (A ++ B) = pathSum w p A + pathSum w (lastD p A) B := by
  induction A generalizing p with
  | nil => simp [pathSum, lastD]
  | cons x A ih => simp only [List.cons_append, pathSum, lastD, ih]; ring

theorem lastD_append (p : Pt) (A B : List Pt) : lastD p (A ++ B) = lastD (lastD p A) B := by
  induction A generalizing p with
  | nil => rfl
  | cons x A ih => simp only [List.cons_append, lastD, ih]

theorem lastD_snoc (p a : Pt) (A : List Pt) : lastD p (A ++ [a]) = a := by
  rw [lastD_append]; rfl

theorem foldl_add_eq (l : List Rat) (a : Rat) : l.foldl (· + ·) a = a + l.sum := by
  induction l generalizing a with
  | nil => simp
  | cons x l ih => simp only [List.foldl_cons, List.sum_cons, ih]; ring

theorem sum_edgesAux (w : Pt → Pt → Rat) (first p : Pt) (l : List Pt) :
    ((edgesAux first (p :: l)).map (fun e => w e.1 e.2)).sum = pathSum w p (l ++ [first]) := by
  induction l generalizing p with
  | nil => simp [edgesAux, pathSum]
  | cons x l ih =>
    simp only [edgesAux, List.map_cons, List.sum_cons, List.cons_append, pathSum]
    rw [ih x]

theorem sum_edges (w : Pt → Pt → Rat) (L : List Pt) :
    ((edges L).map (fun e => w e.1 e.2)).sum = cycSum w L := by
  cases L with
  | nil => simp [edges, cycSum]
  | cons a rest => simp only [edges, cycSum]; exact sum_edgesAux w a a rest

theorem area2_eq_cycSum (L : List Pt) : area2 L = cycSum cross L := by
  unfold area2
  rw [foldl_add_eq, zero_add]
  exact sum_edges cross L

theorem wO_eq (O A B : Pt) : wO O A B = cross A B + cross O A - cross O B := by
  simp only [wO, cross, Pt.sub]; ring

theorem pathSum_wO (O p : Pt) (l : List Pt) :
    pathSum (wO O) p l = pathSum cross p l + cross O p - cross O (lastD p l) := by
  induction l generalizing p with
  | nil => simp [pathSum, lastD]
  | cons x l ih => simp only [pathSum, lastD, ih, wO_eq]; ring

/-- the shoelace sum of a closed polygon does not depend on the origin -/
theorem cycSum_wO (O : Pt) (L : List Pt) : cycSum (wO O) L = area2 L := by
  rw [area2_eq_cycSum]
  cases L with
  | nil => rfl
  | cons a rest =>
    simp only [cycSum]
    rw [pathSum_wO, lastD_snoc]; ring

theorem wO_eq_leftOf (V A B : Pt) : wO V A B = leftOf A B V := by
  simp only [wO, leftOf, cross, Pt.sub]; ring

/-- a convex counter-clockwise polygon has non-negative shoelace area -/
theorem area2_nonneg_of_convex (L : List Pt) (hc : ConvexCCW L) : 0 ≤ area2 L := by
  cases L with
  | nil => simp [area2, edges]
  | cons a rest =>
    rw [← cycSum_wO a, ← sum_edges]
    apply List.sum_nonneg
    intro x hx
    obtain ⟨e, he, rfl⟩ := List.mem_map.mp hx
    show 0 ≤ wO a e.1 e.2
    rw [wO_eq_leftOf]
    exact hc a (by simp) e he

/-! ### 6. Sutherland–Hodgman against one line: the shoelace sum of the output is edge-local

With the origin of the shoelace weights ON the cutting line, the chords the algorithm inserts along the
line have weight 0 (`W1`), so the area of the clipped polygon is the sum over the INPUT edges of the
weight of the part of the edge inside the half-plane (`cIn`). -/

/-- weight of the part of the edge `P → Q` inside the half-plane `h` -/
def cIn (w : Pt → Pt → Rat) (h : HP) (P Q : Pt) : Rat :=
  if h.eval P ≤ 0 then
    (if h.eval P < 0 ∧ 0 < h.eval Q then w P (lerp2 P Q (h.eval P / (h.eval P - h.eval Q)))
     else if h.eval Q ≤ 0 then w P Q else 0)
  else (if h.eval Q < 0 then w (lerp2 P Q (h.eval P / (h.eval P - h.eval Q))) Q else 0)

def chainC (w : Pt → Pt → Rat) (h : HP) : Pt → List Pt → Rat
  | _, [] => 0
  | p, q :: l => cIn w h p q + chainC w h q l

/-- the last vertex of the chain, if it is inside: it is emitted by the NEXT step of the walk -/
def finalIn (h : HP) (cur : Pt) (nxts : List Pt) : List Pt :=
  if h.eval (lastD cur nxts) ≤ 0 then [lastD cur nxts] else []

theorem eval_cross_pt (h : HP) (P Q : Pt) (hne : h.eval P ≠ h.eval Q) :
    h.eval (lerp2 P Q (h.eval P / (h.eval P - h.eval Q))) = 0 := by
  rw [C44.eval_lerp2]
  have : h.eval P - h.eval Q ≠ 0 := sub_ne_zero.mpr hne
  field_simp
  ring

theorem finalIn_cons (h : HP) (cur n : Pt) (rest : List Pt) :
    finalIn h cur (n :: rest) = finalIn h n rest := rfl

/-- invariant of the walk: `E` = last vertex emitted before, on the line whenever `cur` is outside -/
theorem walk_inv (w : Pt → Pt → Rat) (h : HP)
    (W1 : ∀ A B, h.eval A = 0 → h.eval B = 0 → w A B = 0)
    (nxts : List Pt) (cur E : Pt) (hE : 0 < h.eval cur → h.eval E = 0) :
    pathSum w E (walk2 h cur nxts ++ finalIn h cur nxts)
      = (if h.eval cur ≤ 0 then w E cur else 0) + chainC w h cur nxts := by
  induction nxts generalizing cur E with
  | nil =>
    show pathSum w E ([] ++ (if h.eval cur ≤ 0 then [cur] else [])) = _
    simp only [List.nil_append, chainC, add_zero]
    split_ifs <;> simp [pathSum]
  | cons n rest ih =>
    simp only [walk2, finalIn_cons, chainC, List.append_assoc]
    rw [pathSum_append]
    rcases lt_trichotomy (h.eval cur) 0 with hp | hp | hp
    · -- cur strictly inside
      rcases lt_trichotomy (h.eval n) 0 with hq | hq | hq
      · have e : shEdge2 h cur n = [cur] := by
          simp [shEdge2, le_of_lt hp, not_lt_of_gt hq, not_lt_of_gt hp]
        rw [e]; simp only [lastD]; rw [ih n cur (fun hn => absurd hn (not_lt_of_gt hq))]
        simp [pathSum, cIn, le_of_lt hp, le_of_lt hq, not_lt_of_gt hq]
      · have e : shEdge2 h cur n = [cur] := by
          simp [shEdge2, le_of_lt hp, hq, not_lt_of_gt hp]
        rw [e]; simp only [lastD]; rw [ih n cur (fun hn => absurd hn (by rw [hq]; exact lt_irrefl _))]
        simp [pathSum, cIn, le_of_lt hp, hq]
      · have hne : h.eval cur ≠ h.eval n := by linarith
        have e : shEdge2 h cur n = [cur, lerp2 cur n (h.eval cur / (h.eval cur - h.eval n))] := by
          simp [shEdge2, le_of_lt hp, hp, hq]
        rw [e]; simp only [lastD]; rw [ih n _ (fun _ => eval_cross_pt h cur n hne)]
        simp [pathSum, cIn, le_of_lt hp, hp, hq, not_le_of_gt hq]
        ring
    · -- cur on the line
      rcases lt_trichotomy (h.eval n) 0 with hq | hq | hq
      · have e : shEdge2 h cur n = [cur] := by
          simp [shEdge2, hp, not_lt_of_gt hq]
        rw [e]; simp only [lastD]; rw [ih n cur (fun hn => absurd hn (not_lt_of_gt hq))]
        simp [pathSum, cIn, hp, le_of_lt hq, not_lt_of_gt hq]
      · have e : shEdge2 h cur n = [cur] := by
          simp [shEdge2, hp, hq]
        rw [e]; simp only [lastD]; rw [ih n cur (fun hn => absurd hn (by rw [hq]; exact lt_irrefl _))]
        simp [pathSum, cIn, hp, hq]
      · have e : shEdge2 h cur n = [cur] := by
          simp [shEdge2, hp, hq]
        rw [e]; simp only [lastD]; rw [ih n cur (fun _ => hp)]
        simp [pathSum, cIn, hp, hq, not_le_of_gt hq]
    · -- cur strictly outside: `E` is on the line
      have hE0 := hE hp
      rcases lt_trichotomy (h.eval n) 0 with hq | hq | hq
      · have hne : h.eval cur ≠ h.eval n := by linarith
        have e : shEdge2 h cur n = [lerp2 cur n (h.eval cur / (h.eval cur - h.eval n))] := by
          simp [shEdge2, not_le_of_gt hp, hp, hq, not_lt_of_gt hp]
        rw [e]; simp only [lastD]; rw [ih n _ (fun hn => absurd hn (not_lt_of_gt hq))]
        simp [pathSum, cIn, not_le_of_gt hp, hq, le_of_lt hq,
          W1 E _ hE0 (eval_cross_pt h cur n hne)]
      · have e : shEdge2 h cur n = [] := by
          simp [shEdge2, not_le_of_gt hp, hq, not_lt_of_gt hp]
        rw [e]; simp only [lastD]; rw [ih n E (fun _ => hE0)]
        simp [pathSum, cIn, not_le_of_gt hp, hq, W1 E n hE0 hq]
      · have e : shEdge2 h cur n = [] := by
          simp [shEdge2, not_le_of_gt hp, not_lt_of_gt hq, not_lt_of_gt hp]
        rw [e]; simp only [lastD]; rw [ih n E (fun _ => hE0)]
        simp [pathSum, cIn, not_le_of_gt hp, not_le_of_gt hq, not_lt_of_gt hq]

/-- a walk that starts inside emits its start first -/
theorem walk_head_in (h : HP) (cur n : Pt) (rest : List Pt) (hin : h.eval cur ≤ 0) :
    ∃ tl, walk2 h cur (n :: rest) = cur :: tl := by
  simp only [walk2, shEdge2, if_pos hin]
  exact ⟨_, rfl⟩

/-- a walk that starts strictly outside emits a point of the line first (if anything) -/
theorem walk_head_out (h : HP) (nxts : List Pt) (cur : Pt) (hout : 0 < h.eval cur) (F : Pt) (tl : List Pt)
    (hw : walk2 h cur nxts = F :: tl) : h.eval F = 0 := by
  induction nxts generalizing cur with
  | nil => simp [walk2] at hw
  | cons n rest ih =>
    simp only [walk2] at hw
    rcases lt_trichotomy (h.eval n) 0 with hq | hq | hq
    · have hne : h.eval cur ≠ h.eval n := by linarith
      have e : shEdge2 h cur n = [lerp2 cur n (h.eval cur / (h.eval cur - h.eval n))] := by
        simp [shEdge2, not_le_of_gt hout, hout, hq, not_lt_of_gt hout]
      rw [e] at hw
      simp only [List.singleton_append, List.cons.injEq] at hw
      rw [← hw.1]; exact eval_cross_pt h cur n hne
    · have e : shEdge2 h cur n = [] := by
        simp [shEdge2, not_le_of_gt hout, hq, not_lt_of_gt hout]
      rw [e, List.nil_append] at hw
      cases rest with
      | nil => simp [walk2] at hw
      | cons m r =>
        obtain ⟨tl', htl⟩ := walk_head_in h n m r (le_of_eq hq)
        rw [htl] at hw
        simp only [List.cons.injEq] at hw
        rw [← hw.1]; exact hq
    · have e : shEdge2 h cur n = [] := by
        simp [shEdge2, not_le_of_gt hout, not_lt_of_gt hq, not_lt_of_gt hout]
      rw [e, List.nil_append] at hw
      exact ih n hq hw

/-- if the chain ends strictly outside, the last emitted vertex is on the line -/
theorem walk_last_out (h : HP) (nxts : List Pt) (cur E : Pt) (hE : 0 < h.eval cur → h.eval E = 0)
    (hfin : 0 < h.eval (lastD cur nxts)) : h.eval (lastD E (walk2 h cur nxts)) = 0 := by
  induction nxts generalizing cur E with
  | nil => exact hE hfin
  | cons n rest ih =>
    simp only [walk2, lastD_append]
    have hfin' : 0 < h.eval (lastD n rest) := hfin
    rcases lt_trichotomy (h.eval cur) 0 with hp | hp | hp
    · rcases lt_trichotomy (h.eval n) 0 with hq | hq | hq
      · have e : shEdge2 h cur n = [cur] := by
          simp [shEdge2, le_of_lt hp, not_lt_of_gt hq, not_lt_of_gt hp]
        rw [e]; exact ih n _ (fun hn => absurd hn (not_lt_of_gt hq)) hfin'
      · have e : shEdge2 h cur n = [cur] := by
          simp [shEdge2, le_of_lt hp, hq, not_lt_of_gt hp]
        rw [e]; exact ih n _ (fun hn => absurd hn (by rw [hq]; exact lt_irrefl _)) hfin'
      · have hne : h.eval cur ≠ h.eval n := by linarith
        have e : shEdge2 h cur n = [cur, lerp2 cur n (h.eval cur / (h.eval cur - h.eval n))] := by
          simp [shEdge2, le_of_lt hp, hp, hq]
        rw [e]; exact ih n _ (fun _ => eval_cross_pt h cur n hne) hfin'
    · rcases lt_trichotomy (h.eval n) 0 with hq | hq | hq
      · have e : shEdge2 h cur n = [cur] := by simp [shEdge2, hp, not_lt_of_gt hq]
        rw [e]; exact ih n _ (fun hn => absurd hn (not_lt_of_gt hq)) hfin'
      · have e : shEdge2 h cur n = [cur] := by simp [shEdge2, hp, hq]
        rw [e]; exact ih n _ (fun hn => absurd hn (by rw [hq]; exact lt_irrefl _)) hfin'
      · have e : shEdge2 h cur n = [cur] := by simp [shEdge2, hp, hq]
        rw [e]; exact ih n _ (fun _ => hp) hfin'
    · have hE0 := hE hp
      rcases lt_trichotomy (h.eval n) 0 with hq | hq | hq
      · have hne : h.eval cur ≠ h.eval n := by linarith
        have e : shEdge2 h cur n = [lerp2 cur n (h.eval cur / (h.eval cur - h.eval n))] := by
          simp [shEdge2, not_le_of_gt hp, hp, hq, not_lt_of_gt hp]
        rw [e]; exact ih n _ (fun hn => absurd hn (not_lt_of_gt hq)) hfin'
      · have e : shEdge2 h cur n = [] := by
          simp [shEdge2, not_le_of_gt hp, hq, not_lt_of_gt hp]
        rw [e]; exact ih n _ (fun _ => hE0) hfin'
      · have e : shEdge2 h cur n = [] := by
          simp [shEdge2, not_le_of_gt hp, not_lt_of_gt hq, not_lt_of_gt hp]
        rw [e]; exact ih n _ (fun _ => hE0) hfin'

theorem wO_self_left (O X : Pt) : wO O O X = 0 := by simp [wO, cross, Pt.sub]
theorem wO_diag (O X : Pt) : wO O X X = 0 := by simp only [wO, cross, Pt.sub]; ring

/-- shoelace weights with the origin on the line vanish between points of the line -/
theorem wO_on_line (h : HP) (hnd : nondeg h = true) (O : Pt) (hO : h.eval O = 0) (A B : Pt)
    (hA : h.eval A = 0) (hB : h.eval B = 0) : wO O A B = 0 := by
  simp only [HP.eval] at hO hA hB
  simp only [nondeg, Bool.not_eq_true', Bool.and_eq_false_iff, decide_eq_false_iff_not] at hnd
  simp only [wO, cross, Pt.sub]
  -- (A - O) and (B - O) are both orthogonal to (a, b) ≠ 0, hence parallel
  have h1 : h.a * (A.x - O.x) + h.b * (A.y - O.y) = 0 := by linarith
  have h2 : h.a * (B.x - O.x) + h.b * (B.y - O.y) = 0 := by linarith
  rcases hnd with ha | hb
  · have : h.a * ((A.x - O.x) * (B.y - O.y) - (A.y - O.y) * (B.x - O.x)) = 0 := by
      linear_combination (B.y - O.y) * h1 - (A.y - O.y) * h2
    rcases mul_eq_zero.mp this with h0 | h0
    · exact absurd h0 ha
    · exact h0
  · have : h.b * ((A.x - O.x) * (B.y - O.y) - (A.y - O.y) * (B.x - O.x)) = 0 := by
      linear_combination (A.x - O.x) * h2 - (B.x - O.x) * h1
    rcases mul_eq_zero.mp this with h0 | h0
    · exact absurd h0 hb
    · exact h0

/-- a point on the boundary line of a non-degenerate half-plane -/
def linePt (h : HP) : Pt := ⟨h.a * h.c / (h.a * h.a + h.b * h.b), h.b * h.c / (h.a * h.a + h.b * h.b)⟩

theorem eval_linePt (h : HP) (hnd : nondeg h = true) : h.eval (linePt h) = 0 := by
  simp only [nondeg, Bool.not_eq_true', Bool.and_eq_false_iff, decide_eq_false_iff_not] at hnd
  have hpos : h.a * h.a + h.b * h.b ≠ 0 := by
    rcases hnd with ha | hb
    · have := mul_self_pos.mpr ha; nlinarith [mul_self_nonneg h.b]
    · have := mul_self_pos.mpr hb; nlinarith [mul_self_nonneg h.a]
  simp only [HP.eval, linePt]
  have e : h.a * (h.a * h.c / (h.a * h.a + h.b * h.b)) + h.b * (h.b * h.c / (h.a * h.a + h.b * h.b)) - h.c
      = h.c * ((h.a * h.a + h.b * h.b) / (h.a * h.a + h.b * h.b)) - h.c := by ring
  rw [e, div_self hpos]; ring

/-- EDGE-LOCAL FORMULA: the shoelace area of the polygon clipped by one half-plane is the sum over the
    input edges of the weight of their inside parts (origin `O` on the line) -/
theorem area2_clip1 (h : HP) (hnd : nondeg h = true) (O : Pt) (hO : h.eval O = 0) (a : Pt) (rest : List Pt) :
    area2 (shClip12 h (a :: rest)) = chainC (wO O) h a (rest ++ [a]) := by
  have W1 := wO_on_line h hnd O hO
  rw [← cycSum_wO O]
  simp only [shClip12]
  rcases le_or_gt (h.eval a) 0 with hin | hout
  · -- start vertex inside: it is the first output vertex
    have inv := walk_inv (wO O) h W1 (rest ++ [a]) a a (fun hc => absurd hc (not_lt_of_ge hin))
    have hfin : finalIn h a (rest ++ [a]) = [a] := by
      simp only [finalIn, lastD_snoc, if_pos hin]
    rw [hfin, if_pos hin, wO_diag, zero_add] at inv
    obtain ⟨tl, htl⟩ : ∃ tl, walk2 h a (rest ++ [a]) = a :: tl := by
      cases rest with
      | nil => exact walk_head_in h a a [] hin
      | cons m r => exact walk_head_in h a m (r ++ [a]) hin
    rw [htl] at inv ⊢
    simp only [cycSum]
    simp only [List.cons_append, pathSum, wO_diag, zero_add] at inv
    exact inv
  · -- start vertex strictly outside
    have inv := walk_inv (wO O) h W1 (rest ++ [a]) a O (fun _ => hO)
    have hfin : finalIn h a (rest ++ [a]) = [] := by
      simp only [finalIn, lastD_snoc, if_neg (not_le_of_gt hout)]
    rw [hfin, if_neg (not_le_of_gt hout), zero_add, List.append_nil] at inv
    cases hw : walk2 h a (rest ++ [a]) with
    | nil => rw [hw] at inv; simp only [pathSum] at inv; simp only [cycSum]; exact inv
    | cons F tl =>
      have hF := walk_head_out h (rest ++ [a]) a hout F tl hw
      have hL := walk_last_out h (rest ++ [a]) a O (fun _ => hO) (by rw [lastD_snoc]; exact hout)
      rw [hw] at inv hL
      simp only [pathSum, wO_self_left, zero_add] at inv
      simp only [lastD] at hL
      simp only [cycSum]
      rw [pathSum_append, inv.symm.symm]
      simp only [pathSum, add_zero]
      rw [W1 _ _ hL hF, add_zero]

/-! ### 7. splitting by a line preserves the total area -/

theorem eval_negHP (h : HP) (X : Pt) : (negHP h).eval X = -h.eval X := by
  simp only [negHP, HP.eval]; ring

theorem nondeg_negHP (h : HP) (hnd : nondeg h = true) : nondeg (negHP h) = true := by
  simp only [nondeg, negHP, Bool.not_eq_true', Bool.and_eq_false_iff, decide_eq_false_iff_not,
    neg_eq_zero] at hnd ⊢
  exact hnd

theorem wO_split (O P Q : Pt) (t : Rat) : wO O P (lerp2 P Q t) + wO O (lerp2 P Q t) Q = wO O P Q := by
  simp only [wO, cross, Pt.sub, lerp2]; ring

theorem cross_param_neg (p q : Rat) : (-p) / (-p - -q) = p / (p - q) := by
  rw [show -p - -q = -(p - q) by ring, neg_div_neg_eq]

set_option linter.unusedSimpArgs false in
/-- the inside parts of an edge with respect to a half-plane and its complement make up the edge -/
theorem cIn_split (h : HP) (O : Pt) (W1 : ∀ A B, h.eval A = 0 → h.eval B = 0 → wO O A B = 0) (P Q : Pt) :
    cIn (wO O) h P Q + cIn (wO O) (negHP h) P Q = wO O P Q := by
  simp only [cIn, eval_negHP, cross_param_neg, neg_nonpos, neg_neg_iff_pos, neg_pos, Left.neg_neg_iff]
  rcases lt_trichotomy (h.eval P) 0 with hp | hp | hp <;>
    rcases lt_trichotomy (h.eval Q) 0 with hq | hq | hq
  · simp [le_of_lt hp, le_of_lt hq, not_lt_of_gt hq, not_le_of_gt hp, not_le_of_gt hq, not_lt_of_gt hp]
  · simp [le_of_lt hp, hq, not_le_of_gt hp, not_lt_of_gt hp]
  · simp [le_of_lt hp, hp, hq, not_le_of_gt hp, not_le_of_gt hq, not_lt_of_gt hp, not_lt_of_gt hq]
    exact wO_split O P Q _
  · simp [hp, le_of_lt hq, not_lt_of_gt hq, not_le_of_gt hq]
  · simp [hp, hq, W1 P Q hp hq]
  · simp [hp, hq, not_le_of_gt hq, le_of_lt hq]
  · simp [not_le_of_gt hp, hq, le_of_lt hp, hp, not_lt_of_gt hp, not_lt_of_gt hq, le_of_lt hq]
    rw [add_comm]; exact wO_split O P Q _
  · simp [not_le_of_gt hp, hq, le_of_lt hp, not_lt_of_gt hp]
  · simp [not_le_of_gt hp, not_lt_of_gt hq, le_of_lt hp, le_of_lt hq, not_lt_of_gt hp]

theorem chainC_split (h : HP) (O : Pt) (W1 : ∀ A B, h.eval A = 0 → h.eval B = 0 → wO O A B = 0)
    (p : Pt) (l : List Pt) :
    chainC (wO O) h p l + chainC (wO O) (negHP h) p l = pathSum (wO O) p l := by
  induction l generalizing p with
  | nil => simp [chainC, pathSum]
  | cons q l ih =>
    simp only [chainC, pathSum]
    rw [← ih q, ← cIn_split h O W1 p q]; ring

/-- SPLIT: clipping a polygon (any closed vertex list) by a half-plane and by the complementary
    half-plane gives two polygons whose shoelace areas add up to that of the polygon -/
theorem clip12_split (h : HP) (hnd : nondeg h = true) (L : List Pt) :
    area2 (shClip12 h L) + area2 (shClip12 (negHP h) L) = area2 L := by
  cases L with
  | nil => simp [shClip12, area2, edges]
  | cons a rest =>
    have hO := eval_linePt h hnd
    have hO' : (negHP h).eval (linePt h) = 0 := by rw [eval_negHP, hO, neg_zero]
    rw [area2_clip1 h hnd (linePt h) hO, area2_clip1 (negHP h) (nondeg_negHP h hnd) (linePt h) hO',
      chainC_split h (linePt h) (wO_on_line h hnd (linePt h) hO), ← cycSum_wO (linePt h)]
    rfl

theorem shClip2_snoc (hs : List HP) (h : HP) (S : List Pt) :
    shClip2 (hs ++ [h]) S = shClip12 h (shClip2 hs S) := by
  induction hs generalizing S with
  | nil => rfl
  | cons g hs ih => simp only [List.cons_append, shClip2, ih]

theorem clipArea2_split (hs : List HP) (h : HP) (hnd : nondeg h = true) (S : List Pt) :
    clipArea2 (hs ++ [h]) S + clipArea2 (hs ++ [negHP h]) S = clipArea2 hs S := by
  simp only [clipArea2, shClip2_snoc]
  exact clip12_split h hnd _

theorem convex_shClip2 (hs : List HP) (S : List Pt) (hc : ConvexCCW S) : ConvexCCW (shClip2 hs S) := by
  induction hs generalizing S with
  | nil => exact hc
  | cons h hs ih => simp only [shClip2]; exact ih _ (C44.sh2_convex1 h S hc)

theorem rabs_nonneg (x : Rat) : 0 ≤ rabs x := by
  unfold rabs; split_ifs <;> linarith

theorem rabs_of_nonneg (x : Rat) (h : 0 ≤ x) : rabs x = x := by
  unfold rabs; rw [if_pos h]


/-! ### 8. the double loop of `triangulations` -/

theorem commonArea_nonneg (S T : Poly) : 0 ≤ commonArea S T := by
  unfold commonArea
  exact div_nonneg (rabs_nonneg _) (by norm_num)

theorem triPair_pos (S T : Poly) (w : Rat) (h : triPair S T = some w) : 0 < w := by
  unfold triPair at h
  split_ifs at h with h1 h2
  cases h; exact h2

theorem ov_triPair (S T : Poly) :
    ov triPair S T = if outsideBox S T = true then 0 else commonArea S T := by
  unfold ov triPair
  split_ifs with h1 h2
  · rfl
  · rfl
  · simp only [Option.getD_none]
    linarith [commonArea_nonneg S T]

theorem rowTess_mem_val {α β : Type} (f : α → β → Option Rat) (i : Nat) (c : α) (ds : List β) (j0 : Nat)
    (t : Triple) (ht : t ∈ rowTess f i c j0 ds) : ∃ d ∈ ds, f c d = some t.2.2 := by
  induction ds generalizing j0 with
  | nil => simp [rowTess] at ht
  | cons d ds ih =>
    unfold rowTess at ht
    cases h : f c d with
    | none =>
      rw [h] at ht
      obtain ⟨d', hd', hv⟩ := ih (j0 + 1) ht
      exact ⟨d', List.mem_cons_of_mem _ hd', hv⟩
    | some w =>
      rw [h] at ht
      simp only [List.mem_cons] at ht
      rcases ht with rfl | ht
      · exact ⟨d, List.mem_cons_self, h⟩
      · obtain ⟨d', hd', hv⟩ := ih (j0 + 1) ht
        exact ⟨d', List.mem_cons_of_mem _ hd', hv⟩

theorem tess_mem_val {α β : Type} (f : α → β → Option Rat) (cs : List α) (ds : List β) (k : Nat)
    (t : Triple) (ht : t ∈ tessFrom f k cs ds) : ∃ c ∈ cs, ∃ d ∈ ds, f c d = some t.2.2 := by
  induction cs generalizing k with
  | nil => simp [tessFrom] at ht
  | cons c cs ih =>
    simp only [tessFrom, List.mem_append] at ht
    rcases ht with ht | ht
    · obtain ⟨d, hd, hv⟩ := rowTess_mem_val f k c ds 0 t ht
      exact ⟨c, List.mem_cons_self, d, hd, hv⟩
    · obtain ⟨c', hc', d, hd, hv⟩ := ih (k + 1) ht
      exact ⟨c', List.mem_cons_of_mem _ hc', d, hd, hv⟩

theorem sumOv_eq_sum {α β : Type} (f : α → β → Option Rat) (c : α) (ds : List β) :
    sumOv f c ds = (ds.map (fun d => ov f c d)).sum := by
  induction ds with
  | nil => rfl
  | cons d ds ih => simp only [sumOv, List.map_cons, List.sum_cons, ih]

theorem sumOvL_eq_sum {α β : Type} (f : α → β → Option Rat) (d : β) (cs : List α) :
    sumOvL f d cs = (cs.map (fun c => ov f c d)).sum := by
  induction cs with
  | nil => rfl
  | cons c cs ih => simp only [sumOvL, List.map_cons, List.sum_cons, ih]

theorem getD_map_polyArea (ps : List Poly) (i : Nat) (S : Poly) (h : ps[i]? = some S) :
    (ps.map polyArea).getD i 0 = polyArea S := by
  rw [List.getD_eq_getElem?_getD, List.getElem?_map, h]; rfl

/-! ### 9. any order of the cells -/

theorem sumOv_congr {α β : Type} (f g : α → β → Option Rat) (c : α) (ds : List β)
    (h : ∀ d ∈ ds, f c d = g c d) : sumOv f c ds = sumOv g c ds := by
  induction ds with
  | nil => rfl
  | cons d ds ih =>
    have ih' := ih (fun d' hd' => h d' (List.mem_cons_of_mem _ hd'))
    simp only [sumOv, ov, h d List.mem_cons_self, ih']

theorem sumOv_perm {α β : Type} (f : α → β → Option Rat) (c : α) (ds ds' : List β) (h : ds.Perm ds') :
    sumOv f c ds = sumOv f c ds' := by
  induction h with
  | nil => rfl
  | cons x _ ih => simp only [sumOv, ih]
  | swap x y l => simp only [sumOv]; ring
  | trans _ _ ih1 ih2 => rw [ih1, ih2]

theorem sumOvL_congr {α β : Type} (f g : α → β → Option Rat) (d : β) (cs : List α)
    (h : ∀ c ∈ cs, f c d = g c d) : sumOvL f d cs = sumOvL g d cs := by
  induction cs with
  | nil => rfl
  | cons c cs ih =>
    have ih' := ih (fun c' hc' => h c' (List.mem_cons_of_mem _ hc'))
    simp only [sumOvL, ov, h c List.mem_cons_self, ih']

theorem sumOvL_perm {α β : Type} (f : α → β → Option Rat) (d : β) (cs cs' : List α) (h : cs.Perm cs') :
    sumOvL f d cs = sumOvL f d cs' := by
  induction h with
  | nil => rfl
  | cons x _ ih => simp only [sumOvL, ih]
  | swap x y l => simp only [sumOvL]; ring
  | trans _ _ ih1 ih2 => rw [ih1, ih2]

end PorepyVerif.C33
