/-
C33 — property theorems, 1-D part (statements only depend on Model.lean; lemmas in Lemmas.lean).

Property: for two line tessellations of the same segment the reported overlaps are non-negative, sum
for each cell to its measure, and yield 'averaged' matching matrices whose rows sum to one and
'integrated' matrices whose columns sum to one.

Setting: `a = [a_0 < … < a_m]`, `b = [b_0 < … < b_n]` node parameters along the line with
`a_0 = b_0` and `a_m = b_n`; the cells are `cells a = [(a_0,a_1), …]`, `cells b`.
`lineTess ptol` is the double loop of `line_tessellation` over the collinear branch of `segments_3d`,
`ptol` the tolerance below which `segments_3d` answers with one point instead of a segment.

Hypotheses on the tolerance (`gapInc`, `sepNodes`; both decidable): cells are at least `ptol` long and
a node of `a` and a node of `b` either coincide or are at least `ptol` apart.  They are needed: an
overlap shorter than `ptol` is reported with weight 0 by the code, so that the sums are then only
correct up to `ptol` per pair.  For `ptol ≤ 0` they reduce to "strictly increasing".

The 2-D part of the property (`triangulations`, `surface_tessellations`, `match_2d`; shapely based) is
NOT modelled: it is checked by the oracle of harness/props/c33.py with the same statement.
-/
import PorepyVerif.C33.Lemmas

namespace PorepyVerif.C33

/-- Every reported overlap is non-negative — for arbitrary (also unsorted, overlapping) cell lists
    and any tolerance. -/
theorem line_tess_nonneg (ptol : Rat) (c1 c2 : List Cell) : ∀ t ∈ lineTess ptol c1 c2, 0 ≤ t.2.2 :=
  fun t ht => (tess_bounds (pairOverlap ptol) (pairOverlap_nonneg ptol) c1 c2 0 t ht).2.2.2

/-- Reported indices are valid cell indices of the two tessellations. -/
theorem line_tess_indices (ptol : Rat) (c1 c2 : List Cell) :
    ∀ t ∈ lineTess ptol c1 c2, t.1 < c1.length ∧ t.2.1 < c2.length := by
  intro t ht
  have := tess_bounds (pairOverlap ptol) (pairOverlap_nonneg ptol) c1 c2 0 t ht
  exact ⟨by omega, this.2.2.1⟩

/-- The total weight reported for the pair (cell `i` of `a`, cell `j` of `b`) — the `(i, j)` entry of the
    unscaled overlap matrix — is the length of the intersection of the two cells,
    `max 0 (min(a_{i+1}, b_{j+1}) - max(a_i, b_j))`. -/
theorem line_tess_entry_spec (ptol : Rat) (a b : List Rat) (ha : gapInc ptol a = true)
    (hb : gapInc ptol b = true) (hs : sepNodes ptol a b = true)
    (i j : Nat) (c d : Cell) (hc : (cells a)[i]? = some c) (hd : (cells b)[j]? = some d) :
    entry (lineTess ptol (cells a) (cells b)) i j = rmax 0 (rmin c.2 d.2 - rmax c.1 d.1) := by
  rw [lineTess_eq_X ptol a b ha hb hs]
  have h := entry_tessFrom pairOverlapX (cells a) (cells b) 0 i j c d hc hd
  rw [Nat.zero_add] at h
  rw [h]
  have bc := cells_nodes ptol a ha c (List.mem_of_getElem? hc)
  have bd := cells_nodes ptol b hb d (List.mem_of_getElem? hd)
  exact ov_eq c.1 c.2 d.1 d.2 (le_of_lt bc.2.2.1) (le_of_lt bd.2.2.1)

/-- Row sums: the overlaps reported for cell `i` of the first tessellation add up to its measure. -/
theorem line_tess_rowsum (ptol : Rat) (a b : List Rat) (ha : gapInc ptol a = true)
    (hb : gapInc ptol b = true) (hs : sepNodes ptol a b = true)
    (h0 : a.head? = b.head?) (hl : a.getLast? = b.getLast?)
    (i : Nat) (c : Cell) (hc : (cells a)[i]? = some c) :
    rowSum (lineTess ptol (cells a) (cells b)) i = c.2 - c.1 := by
  rw [lineTess_eq_X ptol a b ha hb hs]
  have h := rowSum_tessFrom pairOverlapX (cells a) (cells b) 0 i c hc
  rw [Nat.zero_add] at h
  rw [h]
  have ha' := gapInc_strictInc ptol a ha
  have hb' := gapInc_strictInc ptol b hb
  cases a with
  | nil => simp [cells] at hc
  | cons x l =>
    cases b with
    | nil => simp at h0
    | cons y l' =>
      simp only [List.head?_cons, Option.some.injEq] at h0
      rw [getLast?_eq_lastOr, getLast?_eq_lastOr, Option.some.injEq] at hl
      have bc := cells_bounds l x ha' c (List.mem_of_getElem? hc)
      exact sumOv_cover c l' y hb' (le_of_lt bc.2.1) (h0 ▸ bc.1) (hl ▸ bc.2.2)

/-- Column sums: the overlaps reported for cell `j` of the second tessellation add up to its measure. -/
theorem line_tess_colsum (ptol : Rat) (a b : List Rat) (ha : gapInc ptol a = true)
    (hb : gapInc ptol b = true) (hs : sepNodes ptol a b = true)
    (h0 : a.head? = b.head?) (hl : a.getLast? = b.getLast?)
    (j : Nat) (d : Cell) (hd : (cells b)[j]? = some d) :
    colSum (lineTess ptol (cells a) (cells b)) j = d.2 - d.1 := by
  rw [lineTess_eq_X ptol a b ha hb hs]
  rw [colSum_tessFrom pairOverlapX (cells a) (cells b) 0 j d hd]
  have ha' := gapInc_strictInc ptol a ha
  have hb' := gapInc_strictInc ptol b hb
  cases b with
  | nil => simp [cells] at hd
  | cons y l' =>
    cases a with
    | nil => simp at h0
    | cons x l =>
      simp only [List.head?_cons, Option.some.injEq] at h0
      rw [getLast?_eq_lastOr, getLast?_eq_lastOr, Option.some.injEq] at hl
      have bd := cells_bounds l' y hb' d (List.mem_of_getElem? hd)
      rw [sumOvL_eq_sumOv d (le_of_lt bd.2.1) (cells (x :: l))
        (fun c hc => le_of_lt (cells_bounds l x ha' c hc).2.1)]
      exact sumOv_cover d l x ha' (le_of_lt bd.2.1) (h0 ▸ bd.1) (hl ▸ bd.2.2)

/-- `match_1d(new, old, tol, "averaged").toarray()`: every row sums to one. -/
theorem match_avg_rows_one (ptol : Rat) (a b : List Rat) (ha : gapInc ptol a = true)
    (hb : gapInc ptol b = true) (hs : sepNodes ptol a b = true)
    (h0 : a.head? = b.head?) (hl : a.getLast? = b.getLast?) :
    ∀ row ∈ match1d ptol .averaged (cells a) (cells b), row.sum = 1 := by
  intro row hrow
  unfold match1d dense at hrow
  obtain ⟨i, _, hi, rfl⟩ := mem_tabFrom _ 0 _ row hrow
  rw [Nat.zero_add] at hi
  obtain ⟨c, hc⟩ : ∃ c, (cells a)[i]? = some c := ⟨(cells a)[i], List.getElem?_eq_getElem hi⟩
  rw [sum_row_dense]
  · refine Eq.trans (rowSum_scale_row (fun i => cellVol ((cells a).getD i (0, 0))) _ i) ?_
    show rowSum (lineTess ptol (cells a) (cells b)) i / cellVol ((cells a).getD i (0, 0)) = 1
    rw [line_tess_rowsum ptol a b ha hb hs h0 hl i c hc]
    have hci : (cells a).getD i (0, 0) = c := by
      rw [List.getD_eq_getElem?_getD, hc]; rfl
    have bc := cells_nodes ptol a ha c (List.mem_of_getElem? hc)
    simp only [hci]
    rw [cellVol_of_le c (le_of_lt bc.2.2.1)]
    exact div_self (by linarith [bc.2.2.1])
  · intro t ht
    simp only [scaleTriples, List.mem_map] at ht
    obtain ⟨t0, ht0, rfl⟩ := ht
    exact (line_tess_indices ptol _ _ t0 ht0).2

/-- `match_1d(new, old, tol, "integrated").toarray()`: every column sums to one. -/
theorem match_int_cols_one (ptol : Rat) (a b : List Rat) (ha : gapInc ptol a = true)
    (hb : gapInc ptol b = true) (hs : sepNodes ptol a b = true)
    (h0 : a.head? = b.head?) (hl : a.getLast? = b.getLast?) :
    ∀ j, j < (cells b).length →
      colSumDense (match1d ptol .integrated (cells a) (cells b)) j = 1 := by
  intro j hj
  obtain ⟨d, hd⟩ : ∃ d, (cells b)[j]? = some d := ⟨(cells b)[j], List.getElem?_eq_getElem hj⟩
  unfold match1d
  rw [colSumDense_dense _ _ _ j hj]
  · refine Eq.trans (colSum_scale_col (fun j => cellVol ((cells b).getD j (0, 0))) _ j) ?_
    show colSum (lineTess ptol (cells a) (cells b)) j / cellVol ((cells b).getD j (0, 0)) = 1
    rw [line_tess_colsum ptol a b ha hb hs h0 hl j d hd]
    have hdj : (cells b).getD j (0, 0) = d := by
      rw [List.getD_eq_getElem?_getD, hd]; rfl
    have bd := cells_nodes ptol b hb d (List.mem_of_getElem? hd)
    simp only [hdj]
    rw [cellVol_of_le d (le_of_lt bd.2.2.1)]
    exact div_self (by linarith [bd.2.2.1])
  · intro t ht
    simp only [scaleTriples, List.mem_map] at ht
    obtain ⟨t0, ht0, rfl⟩ := ht
    exact (line_tess_indices ptol _ _ t0 ht0).1

/-! ### non-vacuity: concrete tessellations (coincident interior node 1/2, touching cells, uneven
sizes); tolerance 1/100000000 as in the code -/

example : gapInc (1/100000000) [0, 1/2, 5/4, 2] = true ∧ gapInc (1/100000000) [0, 1/4, 1/2, 2] = true
    ∧ sepNodes (1/100000000) [0, 1/2, 5/4, 2] [0, 1/4, 1/2, 2] = true := by decide +kernel

/-- the triples the real code reports for these node sets (weights in arc-length units), zero-weight
    touching pairs included -/
example : lineTess (1/100000000) (cells [0, 1/2, 5/4, 2]) (cells [0, 1/4, 1/2, 2])
    = [(0, 0, 1/4), (0, 1, 1/4), (0, 2, 0), (1, 1, 0), (1, 2, 3/4), (2, 2, 3/4)] := by decide +kernel

example : match1d (1/100000000) .averaged (cells [0, 1/2, 5/4, 2]) (cells [0, 1/4, 1/2, 2])
    = [[1/2, 1/2, 0], [0, 0, 1], [0, 0, 1]] := by decide +kernel

example : match1d (1/100000000) .integrated (cells [0, 1/2, 5/4, 2]) (cells [0, 1/4, 1/2, 2])
    = [[1, 1, 0], [0, 0, 1/2], [0, 0, 1/2]] := by decide +kernel

example : rowSum (lineTess (1/100000000) (cells [0, 1/2, 5/4, 2]) (cells [0, 1/4, 1/2, 2])) 1
    = 5/4 - 1/2 := by decide +kernel

/-- orientation of a cell does not matter to the code (it takes max/min itself) -/
example : lineTess (1/100000000) [(1/2, 0), (1/2, 2)] [(2, 1), (0, 1)]
    = [(0, 1, 1/2), (1, 0, 1), (1, 1, 1/2)] := by decide +kernel

/-- the hypothesis `sepNodes` is needed: nodes 1/2 and 1/2 + 10⁻⁹ are closer than the tolerance, the
    overlap of length 10⁻⁹ is reported with weight 0 and the row of cell 1 sums to 1/2 - 10⁻⁹. -/
example : sepNodes (1/100000000) [0, 1/2, 1] [0, 1/2 + 1/1000000000, 1] = false
    ∧ rowSum (lineTess (1/100000000) (cells [0, 1/2, 1]) (cells [0, 1/2 + 1/1000000000, 1])) 1
        = 1/2 - 1/1000000000 := by decide +kernel

end PorepyVerif.C33
