/-
C33 — property theorems, 1-D part (statements only depend on Model.lean; lemmas in Lemmas.lean).

Property: for two line tessellations of the same segment the reported overlaps are non-negative, sum
for each cell to its measure, and yield 'averaged' matching matrices whose rows sum to one and
'integrated' matrices whose columns sum to one.

Setting: `a = [a_0 < … < a_m]`, `b = [b_0 < … < b_n]` node parameters along the line with
`a_0 = b_0` and `a_m = b_n`; the cells are `cells a = [(a_0,a_1), …]`, `cells b`.
`lineTess ptol` is the double loop of `line_tessellation` over the collinear branch of `segments_3d`,
`ptol` the tolerance below which `segments_3d` answers with one point instead of a segment.

Hypotheses on the tolerance (`gapInc`, `sepNodes`; both decidable): cells are at least `ptol` long and
a node of `a` and a node of `b` either coincide or are at least `ptol` apart.  They are needed: an
overlap shorter than `ptol` is reported with weight 0 by the code, so that the sums are then only
correct up to `ptol` per pair.  For `ptol ≤ 0` they reduce to "strictly increasing".

The 2-D part of the property (`triangulations`, `surface_tessellations`, `match_2d`; shapely based) is
NOT modelled: it is checked by the oracle of harness/props/c33.py with the same statement.
-/
import PorepyVerif.C33.Lemmas

namespace PorepyVerif.C33

/-- Every reported overlap is non-negative — for arbitrary (also unsorted, overlapping) cell lists
    and any tolerance. -/
theorem line_tess_nonneg (ptol : Rat) (c1 c2 : List Cell) : ∀ t ∈ lineTess ptol c1 c2, 0 ≤ t.2.2 :=
  fun t ht => (tess_bounds (pairOverlap ptol) (pairOverlap_nonneg ptol) c1 c2 0 t ht).2.2.2

/-- Reported indices are valid cell indices of the two tessellations. -/
theorem line_tess_indices (ptol : Rat) (c1 c2 : List Cell) :
    ∀ t ∈ lineTess ptol c1 c2, t.1 < c1.length ∧ t.2.1 < c2.length := by
  intro t ht
  have := tess_bounds (pairOverlap ptol) (pairOverlap_nonneg ptol) c1 c2 0 t ht
  exact ⟨by omega, this.2.2.1⟩

/-- The total weight reported for the pair (cell `i` of `a`, cell `j` of `b`) — the `(i, j)` entry of the
    unscaled overlap matrix — is the length of the intersection of the two cells,
    `max 0 (min(a_{i+1}, b_{j+1}) - max(a_i, b_j))`. -/
theorem line_tess_entry_spec (ptol : Rat) (a b : List Rat) (ha : gapInc ptol a = true)
    (hb : gapInc ptol b = true) (hs : sepNodes ptol a b = true)
    (i j : Nat) (c d : Cell) (hc : (cells a)[i]? = some c) (hd : (cells b)[j]? = some d) :
    entry (lineTess ptol (cells a) (cells b)) i j = rmax 0 (rmin c.2 d.2 - rmax c.1 d.1) := by
  rw [lineTess_eq_X ptol a b ha hb hs]
  have h := entry_tessFrom pairOverlapX (cells a) (cells b) 0 i j c d hc hd
  rw [Nat.zero_add] at h
  rw [h]
  have bc := cells_nodes ptol a ha c (List.mem_of_getElem? hc)
  have bd := cells_nodes ptol b hb d (List.mem_of_getElem? hd)
  exact ov_eq c.1 c.2 d.1 d.2 (le_of_lt bc.2.2.1) (le_of_lt bd.2.2.1)

/-- Row sums: the overlaps reported for cell `i` of the first tessellation add up to its measure. -/
theorem line_tess_rowsum (ptol : Rat) (a b : List Rat) (ha : gapInc ptol a = true)
    (hb : gapInc ptol b = true) (hs : sepNodes ptol a b = true)
    (h0 : a.head? = b.head?) (hl : a.getLast? = b.getLast?)
    (i : Nat) (c : Cell) (hc : (cells a)[i]? = some c) :
    rowSum (lineTess ptol (cells a) (cells b)) i = c.2 - c.1 := by
  rw [lineTess_eq_X ptol a b ha hb hs]
  have h := rowSum_tessFrom pairOverlapX (cells a) (cells b) 0 i c hc
  rw [Nat.zero_add] at h
  rw [h]
  have ha' := gapInc_strictInc ptol a ha
  have hb' := gapInc_strictInc ptol b hb
  cases a with
  | nil => simp [cells] at hc
  | cons x l =>
    cases b with
    | nil => simp at h0
    | cons y l' =>
      simp only [List.head?_cons, Option.some.injEq] at h0
      rw [getLast?_eq_lastOr, getLast?_eq_lastOr, Option.some.injEq] at hl
      have bc := cells_bounds l x ha' c (List.mem_of_getElem? hc)
      exact sumOv_cover c l' y hb' (le_of_lt bc.2.1) (h0 ▸ bc.1) (hl ▸ bc.2.2)

/-- Column sums: the overlaps reported for cell `j` of the second tessellation add up to its measure. -/
theorem line_tess_colsum (ptol : Rat) (a b : List Rat) (ha : gapInc ptol a = true)
    (hb : gapInc ptol b = true) (hs : sepNodes ptol a b = true)
    (h0 : a.head? = b.head?) (hl : a.getLast? = b.getLast?)
    (j : Nat) (d : Cell) (hd : (cells b)[j]? = some d) :
    colSum (lineTess ptol (cells a) (cells b)) j = d.2 - d.1 := by
  rw [lineTess_eq_X ptol a b ha hb hs]
  rw [colSum_tessFrom pairOverlapX (cells a) (cells b) 0 j d hd]
  have ha' := gapInc_strictInc ptol a ha
  have hb' := gapInc_strictInc ptol b hb
  cases b with
  | nil => simp [cells] at hd
  | cons y l' =>
    cases a with
    | nil => simp at h0
    | cons x l =>
      simp only [List.head?_cons, Option.some.injEq] at h0
      rw [getLast?_eq_lastOr, getLast?_eq_lastOr, Option.some.injEq] at hl
      have bd := cells_bounds l' y hb' d (List.mem_of_getElem? hd)
      rw [sumOvL_eq_sumOv d (le_of_lt bd.2.1) (cells (x :: l))
        (fun c hc => le_of_lt (cells_bounds l x ha' c hc).2.1)]
      exact sumOv_cover d l x ha' (le_of_lt bd.2.1) (h0 ▸ bd.1) (hl ▸ bd.2.2)

/-- `match_1d(new, old, tol, "averaged").toarray()`: every row sums to one. -/
theorem match_avg_rows_one (ptol : Rat) (a b : List Rat) (ha : gapInc ptol a = true)
    (hb : gapInc ptol b = true) (hs : sepNodes ptol a b = true)
    (h0 : a.head? = b.head?) (hl : a.getLast? = b.getLast?) :
    ∀ row ∈ match1d ptol .averaged (cells a) (cells b), row.sum = 1 := by
  intro row hrow
  unfold match1d dense at hrow
  obtain ⟨i, _, hi, rfl⟩ := mem_tabFrom _ 0 _ row hrow
  rw [Nat.zero_add] at hi
  obtain ⟨c, hc⟩ : ∃ c, (cells a)[i]? = some c := ⟨(cells a)[i], List.getElem?_eq_getElem hi⟩
  rw [sum_row_dense]
  · refine Eq.trans (rowSum_scale_row (fun i => cellVol ((cells a).getD i (0, 0))) _ i) ?_
    show rowSum (lineTess ptol (cells a) (cells b)) i / cellVol ((cells a).getD i (0, 0)) = 1
    rw [line_tess_rowsum ptol a b ha hb hs h0 hl i c hc]
    have hci : (cells a).getD i (0, 0) = c := by
      rw [List.getD_eq_getElem?_getD, hc]; rfl
    have bc := cells_nodes ptol a ha c (List.mem_of_getElem? hc)
    simp only [hci]
    rw [cellVol_of_le c (le_of_lt bc.2.2.1)]
    exact div_self (by linarith [bc.2.2.1])
  · intro t ht
    simp only [scaleTriples, List.mem_map] at ht
    obtain ⟨t0, ht0, rfl⟩ := ht
    exact (line_tess_indices ptol _ _ t0 ht0).2

/-- `match_1d(new, old, tol, "integrated").toarray()`: every column sums to one. -/
theorem match_int_cols_one (ptol : Rat) (a b : List Rat) (ha : gapInc ptol a = true)
    (hb : gapInc ptol b = true) (hs : sepNodes ptol a b = true)
    (h0 : a.head? = b.head?) (hl : a.getLast? = b.getLast?) :
    ∀ j, j < (cells b).length →
      colSumDense (match1d ptol .integrated (cells a) (cells b)) j = 1 := by
  intro j hj
  obtain ⟨d, hd⟩ : ∃ d, (cells b)[j]? = some d := ⟨(cells b)[j], List.getElem?_eq_getElem hj⟩
  unfold match1d
  rw [colSumDense_dense _ _ _ j hj]
  · refine Eq.trans (colSum_scale_col (fun j => cellVol ((cells b).getD j (0, 0))) _ j) ?_
    show colSum (lineTess ptol (cells a) (cells b)) j / cellVol ((cells b).getD j (0, 0)) = 1
    rw [line_tess_colsum ptol a b ha hb hs h0 hl j d hd]
    have hdj : (cells b).getD j (0, 0) = d := by
      rw [List.getD_eq_getElem?_getD, hd]; rfl
    have bd := cells_nodes ptol b hb d (List.mem_of_getElem? hd)
    simp only [hdj]
    rw [cellVol_of_le d (le_of_lt bd.2.2.1)]
    exact div_self (by linarith [bd.2.2.1])
  · intro t ht
    simp only [scaleTriples, List.mem_map] at ht
    obtain ⟨t0, ht0, rfl⟩ := ht
    exact (line_tess_indices ptol _ _ t0 ht0).1

/-! ### non-vacuity: concrete tessellations (coincident interior node 1/2, touching cells, uneven
sizes); tolerance 1/100000000 as in the code -/

example : gapInc (1/100000000) [0, 1/2, 5/4, 2] = true ∧ gapInc (1/100000000) [0, 1/4, 1/2, 2] = true
    ∧ sepNodes (1/100000000) [0, 1/2, 5/4, 2] [0, 1/4, 1/2, 2] = true := by decide +kernel

/-- the triples the real code reports for these node sets (weights in arc-length units), zero-weight
    touching pairs included -/
example : lineTess (1/100000000) (cells [0, 1/2, 5/4, 2]) (cells [0, 1/4, 1/2, 2])
    = [(0, 0, 1/4), (0, 1, 1/4), (0, 2, 0), (1, 1, 0), (1, 2, 3/4), (2, 2, 3/4)] := by decide +kernel

example : match1d (1/100000000) .averaged (cells [0, 1/2, 5/4, 2]) (cells [0, 1/4, 1/2, 2])
    = [[1/2, 1/2, 0], [0, 0, 1], [0, 0, 1]] := by decide +kernel

example : match1d (1/100000000) .integrated (cells [0, 1/2, 5/4, 2]) (cells [0, 1/4, 1/2, 2])
    = [[1, 1, 0], [0, 0, 1/2], [0, 0, 1/2]] := by decide +kernel

example : rowSum (lineTess (1/100000000) (cells [0, 1/2, 5/4, 2]) (cells [0, 1/4, 1/2, 2])) 1
    = 5/4 - 1/2 := by decide +kernel

/-- orientation of a cell does not matter to the code (it takes max/min itself) -/
example : lineTess (1/100000000) [(1/2, 0), (1/2, 2)] [(2, 1), (0, 1)]
    = [(0, 1, 1/2), (1, 0, 1), (1, 1, 1/2)] := by decide +kernel

/-- the hypothesis `sepNodes` is needed: nodes 1/2 and 1/2 + 10⁻⁹ are closer than the tolerance, the
    overlap of length 10⁻⁹ is reported with weight 0 and the row of cell 1 sums to 1/2 - 10⁻⁹. -/
example : sepNodes (1/100000000) [0, 1/2, 1] [0, 1/2 + 1/1000000000, 1] = false
    ∧ rowSum (lineTess (1/100000000) (cells [0, 1/2, 1]) (cells [0, 1/2 + 1/1000000000, 1])) 1
        = 1/2 - 1/1000000000 := by decide +kernel

/-! ## 2-D part: `_convex_polygons_common_area`, `triangulations`, `match_2d`

`commonArea S T` mirrors the implementation (Sutherland–Hodgman clipping of `S` against the half-planes
of `T`, shoelace area, absolute value).  Proved here, for ALL inputs:
  * the reported overlaps are positive, indices valid, and the dense overlap matrix has the entries
    `commonArea` (or 0 where the bounding-box filter skips the pair);
  * `clip_split` / `bsp_overlaps_sum`: cutting a cell by a line splits the overlap with any polygon `S`
    additively; hence for a tessellation obtained by successive cuts (binary space partition — e.g. an
    unperturbed structured triangle grid: vertical, horizontal and diagonal lines), with the cells
    represented by the half-planes along the path, the overlaps with `S` sum to the area of `S`;
  * the clipped polygon of a convex counter-clockwise `S` has non-negative shoelace area;
  * `match_2d`'s averaged rows / integrated columns sum to one IF the row / column sums of
    `triangulations` equal the (positive) cell areas.
NOT proved (what remains for "Σ_t area(S ∩ t) = area(S)" for two arbitrary triangulations): that the
shoelace area of the clipping result depends only on the point set `S ∩ T` — i.e. independence of the
order of the half-planes and of redundant half-planes (which would identify the BSP cell of a triangle
with the triangle's own three half-planes as the code uses them), symmetry
`commonArea S T = commonArea T S`, and that the bounding-box filter only skips pairs with overlap 0.
These are covered by the correspondence (model = code on every generated pair) and by the oracle
(sums = measures on the real code). -/

open PorepyVerif.C44 (Pt HP area2 shClip2 halfPlanes ConvexCCW)

/-- `_convex_polygons_common_area` never returns a negative number. -/
theorem common_area_nonneg (S T : Poly) : 0 ≤ commonArea S T := commonArea_nonneg S T

/-- every overlap reported by `triangulations` is positive (the `area > 0` filter) and is the common
    area of the two triangles -/
theorem tri_tess_pos (ps qs : List Poly) :
    ∀ t ∈ triTess ps qs, 0 < t.2.2 ∧ ∃ S ∈ ps, ∃ T ∈ qs, t.2.2 = commonArea S T := by
  intro t ht
  obtain ⟨S, hS, T, hT, hv⟩ := tess_mem_val triPair ps qs 0 t ht
  refine ⟨triPair_pos S T _ hv, S, hS, T, hT, ?_⟩
  unfold triPair at hv
  split_ifs at hv
  exact (Option.some.inj hv).symm

theorem tri_tess_indices (ps qs : List Poly) :
    ∀ t ∈ triTess ps qs, t.1 < ps.length ∧ t.2.1 < qs.length := by
  intro t ht
  have := tess_bounds triPair (fun S T w h => le_of_lt (triPair_pos S T w h)) ps qs 0 t ht
  exact ⟨by omega, this.2.2.1⟩

/-- entry `(i, j)` of the dense overlap matrix of `triangulations` -/
theorem tri_tess_entry (ps qs : List Poly) (i j : Nat) (S T : Poly) (hS : ps[i]? = some S)
    (hT : qs[j]? = some T) :
    entry (triTess ps qs) i j = if outsideBox S T = true then 0 else commonArea S T := by
  have h := entry_tessFrom triPair ps qs 0 i j S T hS hT
  rw [Nat.zero_add] at h
  unfold triTess
  rw [h, ov_triPair]

/-- the overlaps reported for triangle `i` of the first triangulation add up to the sum of its common
    areas with the candidate triangles of the second -/
theorem tri_tess_rowsum_eq (ps qs : List Poly) (i : Nat) (S : Poly) (hS : ps[i]? = some S) :
    rowSum (triTess ps qs) i
      = (qs.map (fun T => if outsideBox S T = true then 0 else commonArea S T)).sum := by
  have h := rowSum_tessFrom triPair ps qs 0 i S hS
  rw [Nat.zero_add] at h
  unfold triTess
  rw [h, sumOv_eq_sum]
  congr 1
  exact List.map_congr_left (fun T _ => ov_triPair S T)

theorem tri_tess_colsum_eq (ps qs : List Poly) (j : Nat) (T : Poly) (hT : qs[j]? = some T) :
    colSum (triTess ps qs) j
      = (ps.map (fun S => if outsideBox S T = true then 0 else commonArea S T)).sum := by
  unfold triTess
  rw [colSum_tessFrom triPair ps qs 0 j T hT, sumOvL_eq_sum]
  congr 1
  exact List.map_congr_left (fun S _ => ov_triPair S T)

/-- Sutherland–Hodgman keeps a convex counter-clockwise polygon convex counter-clockwise, and such a
    polygon has non-negative shoelace area: no absolute value is needed for ccw `S`. -/
theorem clip_area2_nonneg (hs : List HP) (S : Poly) (hc : ConvexCCW S) : 0 ≤ clipArea2 hs S :=
  area2_nonneg_of_convex _ (convex_shClip2 hs S hc)

theorem common_area_eq_clip (S T : Poly) (hc : ConvexCCW S) :
    commonArea S T = clipArea2 (halfPlanes T) S / 2 := by
  unfold commonArea
  rw [rabs_of_nonneg _ (clip_area2_nonneg _ S hc)]

/-- SPLIT: cutting the cell `hs` by the line of `h` splits its overlap with ANY closed vertex list `S`
    additively (twice the signed areas; no convexity needed). -/
theorem clip_split (hs : List HP) (h : HP) (hnd : nondeg h = true) (S : Poly) :
    clipArea2 (hs ++ [h]) S + clipArea2 (hs ++ [negHP h]) S = clipArea2 hs S :=
  clipArea2_split hs h hnd S

/-- the overlaps of `S` with the cells of a binary space partition of the cell `hs` add up to the
    overlap with `hs` -/
theorem bsp_overlaps_sum (t : BSP) (hwf : t.wf = true) (hs : List HP) (S : Poly) :
    ((t.cells hs).map (fun c => clipArea2 c S)).sum = clipArea2 hs S := by
  induction t generalizing hs with
  | leaf => simp [BSP.cells]
  | node h l r ihl ihr =>
    simp only [BSP.wf, Bool.and_eq_true] at hwf
    simp only [BSP.cells, List.map_append, List.sum_append]
    rw [ihl hwf.1.2, ihr hwf.2]
    exact clip_split hs h hwf.1.1 S

/-- … in particular a partition of the whole plane: the overlaps add up to the area of `S`. -/
theorem bsp_overlaps_sum_all (t : BSP) (hwf : t.wf = true) (S : Poly) :
    ((t.cells []).map (fun c => clipArea2 c S)).sum = area2 S :=
  bsp_overlaps_sum t hwf [] S

/-- `match_2d(…, "averaged")`: rows sum to one, PROVIDED the overlaps of every cell of the new grid sum
    to its (positive) area — the tessellation property, which is what remains unproved in general. -/
theorem match2d_avg_rows_one_of_rowsum (ps qs : List Poly)
    (hsum : ∀ i S, ps[i]? = some S → rowSum (triTess ps qs) i = polyArea S ∧ 0 < polyArea S) :
    ∀ row ∈ match2d .averaged ps qs, row.sum = 1 := by
  intro row hrow
  unfold match2d match2dFrom dense at hrow
  obtain ⟨i, _, hi, rfl⟩ := mem_tabFrom _ 0 _ row hrow
  rw [Nat.zero_add] at hi
  obtain ⟨S, hS⟩ : ∃ S, ps[i]? = some S := ⟨ps[i], List.getElem?_eq_getElem hi⟩
  rw [sum_row_dense]
  · refine Eq.trans (rowSum_scale_row (fun i => (ps.map polyArea).getD i 0) _ i) ?_
    show rowSum (triTess ps qs) i / (ps.map polyArea).getD i 0 = 1
    rw [getD_map_polyArea ps i S hS, (hsum i S hS).1]
    exact div_self (ne_of_gt (hsum i S hS).2)
  · intro t ht
    simp only [scaleVol, List.mem_map] at ht
    obtain ⟨t0, ht0, rfl⟩ := ht
    exact (tri_tess_indices ps qs t0 ht0).2

/-- `match_2d(…, "integrated")`: columns sum to one under the corresponding hypothesis. -/
theorem match2d_int_cols_one_of_colsum (ps qs : List Poly)
    (hsum : ∀ j T, qs[j]? = some T → colSum (triTess ps qs) j = polyArea T ∧ 0 < polyArea T) :
    ∀ j, j < qs.length → colSumDense (match2d .integrated ps qs) j = 1 := by
  intro j hj
  obtain ⟨T, hT⟩ : ∃ T, qs[j]? = some T := ⟨qs[j], List.getElem?_eq_getElem hj⟩
  unfold match2d match2dFrom
  rw [colSumDense_dense _ _ _ j hj]
  · refine Eq.trans (colSum_scale_col (fun j => (qs.map polyArea).getD j 0) _ j) ?_
    show colSum (triTess ps qs) j / (qs.map polyArea).getD j 0 = 1
    rw [getD_map_polyArea qs j T hT, (hsum j T hT).1]
    exact div_self (ne_of_gt (hsum j T hT).2)
  · intro t ht
    simp only [scaleVol, List.mem_map] at ht
    obtain ⟨t0, ht0, rfl⟩ := ht
    exact (tri_tess_indices ps qs t0 ht0).1

/-! ### non-vacuity (2-D) -/

def triLL : Poly := [⟨0, 0⟩, ⟨1, 0⟩, ⟨0, 1⟩]          -- lower left half of the unit square
def triLR : Poly := [⟨0, 0⟩, ⟨1, 0⟩, ⟨1, 1⟩]          -- the other diagonal: lower right half
def triUL : Poly := [⟨0, 0⟩, ⟨1, 1⟩, ⟨0, 1⟩]
def triUR : Poly := [⟨1, 0⟩, ⟨1, 1⟩, ⟨0, 1⟩]

/-- two triangulations of the unit square by its two diagonals: every pair overlaps in 1/4 -/
example : triTess [triLL, triUR] [triLR, triUL]
    = [(0, 0, 1/4), (0, 1, 1/4), (1, 0, 1/4), (1, 1, 1/4)] := by decide +kernel

example : match2d .averaged [triLL, triUR] [triLR, triUL] = [[1/2, 1/2], [1/2, 1/2]] := by
  decide +kernel

/-- triangles that only share an edge are not reported (`area > 0`), clockwise input is handled -/
example : triTess [triLR] [triUL, triUL.reverse, triLR.reverse] = [(0, 2, 1/2)] := by decide +kernel

/-- a BSP of the plane: the diagonal `x = y`, then on one side the line `x + y = 1`; the overlaps of
    `triLL` with the three cells are 1/2, 0 and 1/2 (twice the areas 1/4, 0, 1/4) and sum to `area2 triLL = 1` -/
example : ((BSP.node ⟨1, -1, 0⟩ (BSP.node ⟨1, 1, 1⟩ .leaf .leaf) .leaf).cells []).map
      (fun c => clipArea2 c triLL) = [1/2, 0, 1/2] ∧ area2 triLL = 1 := by decide +kernel

/-! ## deepening B: decidable input conditions, any cell order, option / error branches -/

/-- all 1-D conclusions from the single decidable condition `hyp1d` (evaluated by the driver on every
    1-D case): non-negative, rows / columns of the overlaps sum to the cell lengths, averaged rows and
    integrated columns sum to one -/
theorem match1d_of_hyp (ptol : Rat) (a b : List Rat) (h : hyp1d ptol a b = true) :
    (∀ i c, (cells a)[i]? = some c → rowSum (lineTess ptol (cells a) (cells b)) i = c.2 - c.1) ∧
    (∀ j d, (cells b)[j]? = some d → colSum (lineTess ptol (cells a) (cells b)) j = d.2 - d.1) ∧
    (∀ row ∈ match1d ptol .averaged (cells a) (cells b), row.sum = 1) ∧
    (∀ j, j < (cells b).length → colSumDense (match1d ptol .integrated (cells a) (cells b)) j = 1) := by
  simp only [hyp1d, Bool.and_eq_true, decide_eq_true_eq] at h
  obtain ⟨⟨⟨⟨ha, hb⟩, hs⟩, h0⟩, hl⟩ := h
  exact ⟨fun i c hc => line_tess_rowsum ptol a b ha hb hs h0 hl i c hc,
    fun j d hd => line_tess_colsum ptol a b ha hb hs h0 hl j d hd,
    match_avg_rows_one ptol a b ha hb hs h0 hl, match_int_cols_one ptol a b ha hb hs h0 hl⟩

/-- ANY ORDER, rows: the row of a cell `c` of the tessellation `a` sums to its length whatever else the
    first cell list contains and in whatever order the cells of `b` are numbered (a row of the double loop
    only depends on its own cell and on the multiset of the other cells). -/
theorem line_tess_rowsum_anyorder (ptol : Rat) (a b : List Rat) (ha : gapInc ptol a = true)
    (hb : gapInc ptol b = true) (hs : sepNodes ptol a b = true)
    (h0 : a.head? = b.head?) (hl : a.getLast? = b.getLast?)
    (c1 ds : List Cell) (hperm : ds.Perm (cells b)) (i : Nat) (c : Cell) (hc : c1[i]? = some c)
    (hca : c ∈ cells a) : rowSum (lineTess ptol c1 ds) i = c.2 - c.1 := by
  have h := rowSum_tessFrom (pairOverlap ptol) c1 ds 0 i c hc
  rw [Nat.zero_add] at h
  unfold lineTess
  rw [h]
  have c3 := (cells_nodes ptol a ha c hca).2.2.1
  rw [sumOv_congr (pairOverlap ptol) pairOverlapX c ds (fun d hd => by
      have hd' : d ∈ cells b := hperm.mem_iff.mp hd
      exact pairOverlap_eq_X ptol c d (le_of_lt c3) (le_of_lt (cells_nodes ptol b hb d hd').2.2.1)
        (cells_sep ptol a b ha hb hs c d hca hd')),
    sumOv_perm pairOverlapX c ds (cells b) hperm]
  obtain ⟨k, hk⟩ := List.getElem?_of_mem hca
  have := line_tess_rowsum ptol a b ha hb hs h0 hl k c hk
  rw [lineTess_eq_X ptol a b ha hb hs] at this
  have h2 := rowSum_tessFrom pairOverlapX (cells a) (cells b) 0 k c hk
  rw [Nat.zero_add] at h2
  rw [← h2, this]

/-- ANY ORDER, columns. -/
theorem line_tess_colsum_anyorder (ptol : Rat) (a b : List Rat) (ha : gapInc ptol a = true)
    (hb : gapInc ptol b = true) (hs : sepNodes ptol a b = true)
    (h0 : a.head? = b.head?) (hl : a.getLast? = b.getLast?)
    (cs c2 : List Cell) (hperm : cs.Perm (cells a)) (j : Nat) (d : Cell) (hd : c2[j]? = some d)
    (hdb : d ∈ cells b) : colSum (lineTess ptol cs c2) j = d.2 - d.1 := by
  unfold lineTess
  rw [colSum_tessFrom (pairOverlap ptol) cs c2 0 j d hd]
  have d3 := (cells_nodes ptol b hb d hdb).2.2.1
  rw [sumOvL_congr (pairOverlap ptol) pairOverlapX d cs (fun c hc => by
      have hc' : c ∈ cells a := hperm.mem_iff.mp hc
      exact pairOverlap_eq_X ptol c d (le_of_lt (cells_nodes ptol a ha c hc').2.2.1) (le_of_lt d3)
        (cells_sep ptol a b ha hb hs c d hc' hdb)),
    sumOvL_perm pairOverlapX d cs (cells a) hperm]
  obtain ⟨k, hk⟩ := List.getElem?_of_mem hdb
  have := line_tess_colsum ptol a b ha hb hs h0 hl k d hk
  rw [lineTess_eq_X ptol a b ha hb hs] at this
  have h2 := colSum_tessFrom pairOverlapX (cells a) (cells b) 0 k d hk
  rw [← h2, this]

/-- `match_1d` with an unknown `scaling` string (no `else` in the code): the matrix holds the overlap
    lengths, its rows sum to the cell lengths -/
theorem match1d_other_rows (ptol : Rat) (a b : List Rat) (ha : gapInc ptol a = true)
    (hb : gapInc ptol b = true) (hs : sepNodes ptol a b = true)
    (h0 : a.head? = b.head?) (hl : a.getLast? = b.getLast?) :
    ∀ row ∈ match1d ptol .other (cells a) (cells b), ∃ c ∈ cells a, row.sum = c.2 - c.1 := by
  intro row hrow
  unfold match1d dense at hrow
  obtain ⟨i, _, hi, rfl⟩ := mem_tabFrom _ 0 _ row hrow
  rw [Nat.zero_add] at hi
  obtain ⟨c, hc⟩ : ∃ c, (cells a)[i]? = some c := ⟨(cells a)[i], List.getElem?_eq_getElem hi⟩
  refine ⟨c, List.mem_of_getElem? hc, ?_⟩
  rw [sum_row_dense]
  · exact line_tess_rowsum ptol a b ha hb hs h0 hl i c hc
  · intro t ht
    exact (line_tess_indices ptol _ _ t ht).2

/-- 2-D, decidable condition in place of the hypothesis of `match2d_avg_rows_one_of_rowsum`:
    `rowsOk` is computed by the driver for every generated pair of triangulations. -/
theorem match2d_avg_rows_one_of_check (ps qs : List Poly) (h : rowsOk ps qs = true) :
    ∀ row ∈ match2d .averaged ps qs, row.sum = 1 := by
  apply match2d_avg_rows_one_of_rowsum
  intro i S hS
  unfold rowsOk rowsOkFrom at h
  rw [List.all_eq_true] at h
  have hi : i < ps.length := (List.getElem?_eq_some_iff.mp hS).1
  have := h i (List.mem_range.mpr hi)
  have hg : ps.getD i [] = S := by rw [List.getD_eq_getElem?_getD, hS]; rfl
  simp only [Bool.and_eq_true, decide_eq_true_eq] at this
  rw [hg] at this
  exact this

theorem match2d_int_cols_one_of_check (ps qs : List Poly) (h : colsOk ps qs = true) :
    ∀ j, j < qs.length → colSumDense (match2d .integrated ps qs) j = 1 := by
  apply match2d_int_cols_one_of_colsum
  intro j T hT
  unfold colsOk colsOkFrom at h
  rw [List.all_eq_true] at h
  have hj : j < qs.length := (List.getElem?_eq_some_iff.mp hT).1
  have := h j (List.mem_range.mpr hj)
  have hg : qs.getD j [] = T := by rw [List.getD_eq_getElem?_getD, hT]; rfl
  simp only [Bool.and_eq_true, decide_eq_true_eq] at this
  rw [hg] at this
  exact this

/-- `match_2d` returns a matrix exactly when both grids are simplex grids in one plane and the scaling
    is one of the three known ones; it is then the matrix of `match2d`. -/
theorem match2d_entry_spec (sn so cp : Bool) (mode : Scaling) (ps qs : List Poly) (M : List (List Rat)) :
    match2dEntry sn so cp mode ps qs = some M ↔
      (sn = true ∧ so = true ∧ cp = true ∧ (∀ _h : mode = .other, False) ∧ M = match2d mode ps qs) := by
  unfold match2dEntry
  cases sn <;> cases so <;> cases cp <;> cases mode <;> simp [eq_comm]

/-! non-vacuity -/

example : hyp1d (1/100000000) [0, 1/2, 5/4, 2] [0, 1/4, 1/2, 2] = true := by decide +kernel

/-- cells of `b` numbered backwards, first list = one cell of `a` between two arbitrary intervals -/
example : rowSum (lineTess (1/100000000) [(7, 9), (1/2, 5/4), (0, 3)] [(1/2, 2), (1/4, 1/2), (0, 1/4)]) 1
    = 5/4 - 1/2 := by decide +kernel

example : match1d (1/100000000) .other (cells [0, 1/2, 5/4, 2]) (cells [0, 1/4, 1/2, 2])
    = [[1/4, 1/4, 0], [0, 0, 3/4], [0, 0, 3/4]] := by decide +kernel

example : rowsOk [triLL, triUR] [triLR, triUL] = true ∧ colsOk [triLL, triUR] [triLR, triUL] = true := by
  decide +kernel

/-- the condition fails when the second set does not cover the first -/
example : rowsOk [triLL, triUR] [triLR] = false := by decide +kernel

example : match2dEntry true true true .other [triLL] [triLR] = none
    ∧ match2dEntry true false true .averaged [triLL] [triLR] = none
    ∧ match2dEntry true true true .averaged [triLL] [triLR] = some [[1/2]] := by decide +kernel

end PorepyVerif.C33
