import PorepyVerif.C33.Props
#print axioms PorepyVerif.C33.line_tess_nonneg
#print axioms PorepyVerif.C33.line_tess_indices
#print axioms PorepyVerif.C33.line_tess_entry_spec
#print axioms PorepyVerif.C33.line_tess_rowsum
#print axioms PorepyVerif.C33.line_tess_colsum
#print axioms PorepyVerif.C33.match_avg_rows_one
#print axioms PorepyVerif.C33.match_int_cols_one
