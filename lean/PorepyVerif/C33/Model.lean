/-
C33 — executable model of the 1-D part of
`porepy.geometry.intersections.line_tessellation` and `porepy.grids.match_grids.match_1d`
(core Lean only).

A 1-D cell is the pair of the line parameters of its two nodes (start, end) — the value of the
single coordinate `start[mask_1][0]` that `segments_3d` uses once it has established that the two
segments are collinear, rescaled (order preserving) to arc length.  The orientation of a cell is
NOT assumed (`start` may be larger than `end`): `segments_3d` takes `max/min` itself.

`line_tessellation` is a double loop over all pairs of cells (there is no sweep in the code); for
collinear segments `segments_3d` (as of /repo commit d86841392) answers
  * `None`                      if `max_1 < min_2` or `max_2 < min_1`,
  * ONE point                   if the two middle points of the four sorted end points are closer than
                                `tol = 1e-8` in the sorting coordinate ("end to end"),
  * the two middle points       otherwise,
and `line_tessellation` appends `(i, j, 0.0)` for one point and `(i, j, |X[:,0] - X[:,1]|)` for two.
The tolerance enters the model as `ptol` = `tol` expressed in the unit of the line parameter.

2-D part (second half of the file): `_convex_polygons_common_area` (Sutherland–Hodgman clipping of the
first polygon against the half planes of the second + shoelace area, as of /repo commit 107a27baf),
the double loop of `triangulations` with its bounding-box filter and `area > 0` test, and the scaling
branches of `match_2d`.  The clipping functions are those of the C44 model (`shClip2`, `halfPlanes`,
`area2`), which are the same algorithm: keep a vertex iff `dist >= 0`, add the crossing point iff the
signs are strictly opposite, `t = dist_k / (dist_k - dist_next)`.
-/
import PorepyVerif.C44.Model
namespace PorepyVerif.C33

abbrev Cell := Rat × Rat
/-- `(i, j, w)`: cell of the first tessellation, cell of the second, weight -/
abbrev Triple := Nat × Nat × Rat

def rmax (a b : Rat) : Rat := if a ≤ b then b else a
def rmin (a b : Rat) : Rat := if a ≤ b then a else b
/-- Euclidean distance of two points of the line: `sqrt(sum((p - q)**2))` in the line parameter -/
def dist (a b : Rat) : Rat := if a ≤ b then b - a else a - b

/-- insertion into a sorted list (`np.argsort` of four values; ties carry equal values) -/
def insertS (x : Rat) : List Rat → List Rat
  | [] => [x]
  | y :: l => if x ≤ y then x :: y :: l else y :: insertS x l

def isort : List Rat → List Rat
  | [] => []
  | x :: l => insertS x (isort l)

/-- `line_tessellation`'s weight of the answer of `segments_3d`: a single point (middle points closer
    than `ptol`) has weight 0, a segment its length -/
def snap (ptol v : Rat) : Rat := if v < ptol then 0 else v

/-- collinear branch of `segments_3d` followed by the weight computation of `line_tessellation`:
    `none` = no intersection reported, `some w` = reported with weight `w` (possibly 0). -/
def pairOverlap (ptol : Rat) (c d : Cell) : Option Rat :=
  let max1 := rmax c.1 c.2
  let min1 := rmin c.1 c.2
  let max2 := rmax d.1 d.2
  let min2 := rmin d.1 d.2
  if max1 < min2 then none
  else if max2 < min1 then none
  else
    match isort [c.1, c.2, d.1, d.2] with
    | [_, x, y, _] => some (snap ptol (dist x y))   -- `sort_ind[1:3]`
    | _ => none                                      -- unreachable: four values stay four values

/-- inner loop of `line_tessellation` (`for j in range(l2.shape[1])`), `j` = index of the head of `ds`;
    `f` = what `segments_3d` + the weight computation answer for a pair of cells -/
def rowTess {α β : Type} (f : α → β → Option Rat) (i : Nat) (c : α) : Nat → List β → List Triple
  | _, [] => []
  | j, d :: ds =>
    match f c d with
    | none => rowTess f i c (j + 1) ds
    | some w => (i, j, w) :: rowTess f i c (j + 1) ds

/-- outer loop (`for i in range(l1.shape[1])`), `i` = index of the head of the first list -/
def tessFrom {α β : Type} (f : α → β → Option Rat) : Nat → List α → List β → List Triple
  | _, [], _ => []
  | i, c :: cs, ds => rowTess f i c 0 ds ++ tessFrom f (i + 1) cs ds

/-- `line_tessellation(p1, p2, l1, l2)` for two lists of collinear cells -/
def lineTess (ptol : Rat) (c1 c2 : List Cell) : List Triple := tessFrom (pairOverlap ptol) 0 c1 c2

/-- `Grid.cell_volumes` of a 1-D grid: distance of the two nodes of the cell -/
def cellVol (c : Cell) : Rat := dist c.1 c.2

inductive Scaling where
  | averaged
  | integrated
  | unscaled (tol : Rat)
  | other            -- any other value of `scaling`: `match_1d` has no `else` (weights stay lengths), `match_2d` raises

/-- the three `scaling` branches of `match_1d`, on the coo triples -/
def scaleTriples (mode : Scaling) (c1 c2 : List Cell) (T : List Triple) : List Triple :=
  match mode with
  | .averaged => T.map (fun t => (t.1, t.2.1, t.2.2 / cellVol (c1.getD t.1 (0, 0))))
  | .integrated => T.map (fun t => (t.1, t.2.1, t.2.2 / cellVol (c2.getD t.2.1 (0, 0))))
  | .unscaled tol => (T.filter (fun t => decide (tol < t.2.2))).map (fun t => (t.1, t.2.1, 1))
  | .other => T

/-- entry `(i, j)` of `sps.coo_matrix((w, (rows, cols))).tocsr()`: duplicates are summed -/
def entry : List Triple → Nat → Nat → Rat
  | [], _, _ => 0
  | t :: T, i, j => (if t.1 = i ∧ t.2.1 = j then t.2.2 else 0) + entry T i j

/-- `[f k, f (k+1), …, f (k+n-1)]` -/
def tabFrom (f : Nat → α) : Nat → Nat → List α
  | _, 0 => []
  | k, n + 1 => f k :: tabFrom f (k + 1) n

/-- dense `m × n` matrix of a list of coo triples -/
def dense (m n : Nat) (T : List Triple) : List (List Rat) :=
  tabFrom (fun i => tabFrom (fun j => entry T i j) 0 n) 0 m

/-- `match_1d(new_g, old_g, tol, scaling).toarray()`; rows = cells of the new grid `c1` -/
def match1d (ptol : Rat) (mode : Scaling) (c1 c2 : List Cell) : List (List Rat) :=
  dense c1.length c2.length (scaleTriples mode c1 c2 (lineTess ptol c1 c2))

/-! ### vocabulary of the specification -/

/-- strictly increasing node list `a_0 < a_1 < … < a_m` whose cells are not shorter than `ptol` -/
def gapInc (ptol : Rat) : List Rat → Bool
  | [] => true
  | [_] => true
  | x :: y :: l => decide (x < y) && decide (ptol ≤ y - x) && gapInc ptol (y :: l)

/-- nodes of the two tessellations either coincide or are at least `ptol` apart -/
def sepNodes (ptol : Rat) (a b : List Rat) : Bool :=
  a.all (fun x => b.all (fun y => decide (x = y) || decide (ptol ≤ dist x y)))

/-- the cells `[a_i, a_{i+1}]` of a node list -/
def cells : List Rat → List Cell
  | [] => []
  | [_] => []
  | x :: y :: l => (x, y) :: cells (y :: l)

/-- sum of the weights reported for cell `i` of the first tessellation -/
def rowSum : List Triple → Nat → Rat
  | [], _ => 0
  | t :: T, i => (if t.1 = i then t.2.2 else 0) + rowSum T i

/-- sum of the weights reported for cell `j` of the second tessellation -/
def colSum : List Triple → Nat → Rat
  | [], _ => 0
  | t :: T, j => (if t.2.1 = j then t.2.2 else 0) + colSum T j

/-- column sum of a dense matrix -/
def colSumDense (M : List (List Rat)) (j : Nat) : Rat := (M.map (fun row => row.getD j 0)).sum

/-! ## 2-D: overlaps of convex polygons (triangles) -/

open PorepyVerif.C44 (Pt HP area2 shClip2 halfPlanes)

abbrev Poly := List Pt

def rabs (x : Rat) : Rat := if 0 ≤ x then x else -x

/-- twice the signed area of what Sutherland–Hodgman leaves of polygon `S` inside all half-planes -/
def clipArea2 (hs : List HP) (S : Poly) : Rat := area2 (shClip2 hs S)

/-- `_convex_polygons_common_area(poly_1 = S, poly_2 = T)` -/
def commonArea (S T : Poly) : Rat := rabs (clipArea2 (halfPlanes T) S) / 2

/-- area of a polygon (`Grid.cell_volumes` of a planar simplex grid) -/
def polyArea (S : Poly) : Rat := rabs (area2 S) / 2

def minL : Rat → List Rat → Rat
  | m, [] => m
  | m, x :: l => minL (rmin m x) l

def maxL : Rat → List Rat → Rat
  | m, [] => m
  | m, x :: l => maxL (rmax m x) l

def minOf : List Rat → Rat
  | [] => 0
  | x :: l => minL x l

def maxOf : List Rat → Rat
  | [] => 0
  | x :: l => maxL x l

/-- bounding-box filter of `triangulations`: `T` is right of / left of / above / below `S` -/
def outsideBox (S T : Poly) : Bool :=
  decide (maxOf (S.map (·.x)) < minOf (T.map (·.x))) || decide (maxOf (T.map (·.x)) < minOf (S.map (·.x))) ||
  decide (maxOf (S.map (·.y)) < minOf (T.map (·.y))) || decide (maxOf (T.map (·.y)) < minOf (S.map (·.y)))

/-- one pair of the double loop of `triangulations`: candidates only, reported iff `area > 0` -/
def triPair (S T : Poly) : Option Rat :=
  if outsideBox S T then none
  else if 0 < commonArea S T then some (commonArea S T) else none

/-- `triangulations(p_1, p_2, t_1, t_2)` on the lists of triangles -/
def triTess (ps qs : List Poly) : List Triple := tessFrom triPair 0 ps qs

/-- the scaling branches of `match_2d`, with the cell volumes of the two grids -/
def scaleVol (mode : Scaling) (v1 v2 : List Rat) (T : List Triple) : List Triple :=
  match mode with
  | .averaged => T.map (fun t => (t.1, t.2.1, t.2.2 / v1.getD t.1 0))
  | .integrated => T.map (fun t => (t.1, t.2.1, t.2.2 / v2.getD t.2.1 0))
  | .unscaled tol => (T.filter (fun t => decide (tol < t.2.2))).map (fun t => (t.1, t.2.1, 1))
  | .other => T   -- not reached: `match2dEntry` raises before

/-- `match_2d(new_g, old_g, tol, scaling).toarray()` for planar grids given by their triangles -/
def match2dFrom (mode : Scaling) (ps qs : List Poly) (T : List Triple) : List (List Rat) :=
  dense ps.length qs.length (scaleVol mode (ps.map polyArea) (qs.map polyArea) T)

def match2d (mode : Scaling) (ps qs : List Poly) : List (List Rat) :=
  match2dFrom mode ps qs (triTess ps qs)

/-- `match_2d` as called: the checks of the code in their order (`None` = `ValueError`):
    new grid simplex, old grid simplex, common plane; the unknown scaling is only detected after the
    overlaps have been computed -/
def match2dEntry (simplexNew simplexOld coplanar : Bool) (mode : Scaling) (ps qs : List Poly) :
    Option (List (List Rat)) :=
  if !simplexNew then none
  else if !simplexOld then none
  else if !coplanar then none
  else match mode with
    | .other => none
    | m => some (match2d m ps qs)

/-! ### decidable input conditions (evaluated by the driver on every case) -/

/-- all hypotheses of the 1-D theorems -/
def hyp1d (ptol : Rat) (a b : List Rat) : Bool :=
  gapInc ptol a && gapInc ptol b && sepNodes ptol a b && decide (a.head? = b.head?) &&
  decide (a.getLast? = b.getLast?)

/-- 2-D tessellation condition on the rows: the overlaps reported for every cell of `ps` sum to its
    positive area -/
def rowsOkFrom (ps : List Poly) (T : List Triple) : Bool :=
  (List.range ps.length).all (fun i =>
    decide (rowSum T i = polyArea (ps.getD i [])) && decide (0 < polyArea (ps.getD i [])))

def rowsOk (ps qs : List Poly) : Bool := rowsOkFrom ps (triTess ps qs)

def colsOkFrom (qs : List Poly) (T : List Triple) : Bool :=
  (List.range qs.length).all (fun j =>
    decide (colSum T j = polyArea (qs.getD j [])) && decide (0 < polyArea (qs.getD j [])))

def colsOk (ps qs : List Poly) : Bool := colsOkFrom qs (triTess ps qs)

/-! ### vocabulary of the 2-D specification -/

/-- the complementary closed half-plane -/
def negHP (h : HP) : HP := ⟨-h.a, -h.b, -h.c⟩

/-- the boundary of the half-plane is a line -/
def nondeg (h : HP) : Bool := !(decide (h.a = 0) && decide (h.b = 0))

/-- binary space partition: every inner node cuts its cell by a line -/
inductive BSP where
  | leaf
  | node (h : HP) (l r : BSP)

/-- the cells (lists of half-planes along the path) of the partition below a cell `hs` -/
def BSP.cells : List HP → BSP → List (List HP)
  | hs, .leaf => [hs]
  | hs, .node h l r => BSP.cells (hs ++ [h]) l ++ BSP.cells (hs ++ [negHP h]) r

def BSP.wf : BSP → Bool
  | .leaf => true
  | .node h l r => nondeg h && l.wf && r.wf

end PorepyVerif.C33
