/-
C33 — executable model of the 1-D part of
`porepy.geometry.intersections.line_tessellation` and `porepy.grids.match_grids.match_1d`
(core Lean only).

A 1-D cell is the pair of the line parameters of its two nodes (start, end) — the value of the
single coordinate `start[mask_1][0]` that `segments_3d` uses once it has established that the two
segments are collinear, rescaled (order preserving) to arc length.  The orientation of a cell is
NOT assumed (`start` may be larger than `end`): `segments_3d` takes `max/min` itself.

`line_tessellation` is a double loop over all pairs of cells (there is no sweep in the code); for
collinear segments `segments_3d` (as of /repo commit d86841392) answers
  * `None`                      if `max_1 < min_2` or `max_2 < min_1`,
  * ONE point                   if the two middle points of the four sorted end points are closer than
                                `tol = 1e-8` in the sorting coordinate ("end to end"),
  * the two middle points       otherwise,
and `line_tessellation` appends `(i, j, 0.0)` for one point and `(i, j, |X[:,0] - X[:,1]|)` for two.
The tolerance enters the model as `ptol` = `tol` expressed in the unit of the line parameter.
-/
namespace PorepyVerif.C33

abbrev Cell := Rat × Rat
/-- `(i, j, w)`: cell of the first tessellation, cell of the second, weight -/
abbrev Triple := Nat × Nat × Rat

def rmax (a b : Rat) : Rat := if a ≤ b then b else a
def rmin (a b : Rat) : Rat := if a ≤ b then a else b
/-- Euclidean distance of two points of the line: `sqrt(sum((p - q)**2))` in the line parameter -/
def dist (a b : Rat) : Rat := if a ≤ b then b - a else a - b

/-- insertion into a sorted list (`np.argsort` of four values; ties carry equal values) -/
def insertS (x : Rat) : List Rat → List Rat
  | [] => [x]
  | y :: l => if x ≤ y then x :: y :: l else y :: insertS x l

def isort : List Rat → List Rat
  | [] => []
  | x :: l => insertS x (isort l)

/-- `line_tessellation`'s weight of the answer of `segments_3d`: a single point (middle points closer
    than `ptol`) has weight 0, a segment its length -/
def snap (ptol v : Rat) : Rat := if v < ptol then 0 else v

/-- collinear branch of `segments_3d` followed by the weight computation of `line_tessellation`:
    `none` = no intersection reported, `some w` = reported with weight `w` (possibly 0). -/
def pairOverlap (ptol : Rat) (c d : Cell) : Option Rat :=
  let max1 := rmax c.1 c.2
  let min1 := rmin c.1 c.2
  let max2 := rmax d.1 d.2
  let min2 := rmin d.1 d.2
  if max1 < min2 then none
  else if max2 < min1 then none
  else
    match isort [c.1, c.2, d.1, d.2] with
    | [_, x, y, _] => some (snap ptol (dist x y))   -- `sort_ind[1:3]`
    | _ => none                                      -- unreachable: four values stay four values

/-- inner loop of `line_tessellation` (`for j in range(l2.shape[1])`), `j` = index of the head of `ds`;
    `f` = what `segments_3d` + the weight computation answer for a pair of cells -/
def rowTess (f : Cell → Cell → Option Rat) (i : Nat) (c : Cell) : Nat → List Cell → List Triple
  | _, [] => []
  | j, d :: ds =>
    match f c d with
    | none => rowTess f i c (j + 1) ds
    | some w => (i, j, w) :: rowTess f i c (j + 1) ds

/-- outer loop (`for i in range(l1.shape[1])`), `i` = index of the head of the first list -/
def tessFrom (f : Cell → Cell → Option Rat) : Nat → List Cell → List Cell → List Triple
  | _, [], _ => []
  | i, c :: cs, ds => rowTess f i c 0 ds ++ tessFrom f (i + 1) cs ds

/-- `line_tessellation(p1, p2, l1, l2)` for two lists of collinear cells -/
def lineTess (ptol : Rat) (c1 c2 : List Cell) : List Triple := tessFrom (pairOverlap ptol) 0 c1 c2

/-- `Grid.cell_volumes` of a 1-D grid: distance of the two nodes of the cell -/
def cellVol (c : Cell) : Rat := dist c.1 c.2

inductive Scaling where
  | averaged
  | integrated
  | unscaled (tol : Rat)

/-- the three `scaling` branches of `match_1d`, on the coo triples -/
def scaleTriples (mode : Scaling) (c1 c2 : List Cell) (T : List Triple) : List Triple :=
  match mode with
  | .averaged => T.map (fun t => (t.1, t.2.1, t.2.2 / cellVol (c1.getD t.1 (0, 0))))
  | .integrated => T.map (fun t => (t.1, t.2.1, t.2.2 / cellVol (c2.getD t.2.1 (0, 0))))
  | .unscaled tol => (T.filter (fun t => decide (tol < t.2.2))).map (fun t => (t.1, t.2.1, 1))

/-- entry `(i, j)` of `sps.coo_matrix((w, (rows, cols))).tocsr()`: duplicates are summed -/
def entry : List Triple → Nat → Nat → Rat
  | [], _, _ => 0
  | t :: T, i, j => (if t.1 = i ∧ t.2.1 = j then t.2.2 else 0) + entry T i j

/-- `[f k, f (k+1), …, f (k+n-1)]` -/
def tabFrom (f : Nat → α) : Nat → Nat → List α
  | _, 0 => []
  | k, n + 1 => f k :: tabFrom f (k + 1) n

/-- dense `m × n` matrix of a list of coo triples -/
def dense (m n : Nat) (T : List Triple) : List (List Rat) :=
  tabFrom (fun i => tabFrom (fun j => entry T i j) 0 n) 0 m

/-- `match_1d(new_g, old_g, tol, scaling).toarray()`; rows = cells of the new grid `c1` -/
def match1d (ptol : Rat) (mode : Scaling) (c1 c2 : List Cell) : List (List Rat) :=
  dense c1.length c2.length (scaleTriples mode c1 c2 (lineTess ptol c1 c2))

/-! ### vocabulary of the specification -/

/-- strictly increasing node list `a_0 < a_1 < … < a_m` whose cells are not shorter than `ptol` -/
def gapInc (ptol : Rat) : List Rat → Bool
  | [] => true
  | [_] => true
  | x :: y :: l => decide (x < y) && decide (ptol ≤ y - x) && gapInc ptol (y :: l)

/-- nodes of the two tessellations either coincide or are at least `ptol` apart -/
def sepNodes (ptol : Rat) (a b : List Rat) : Bool :=
  a.all (fun x => b.all (fun y => decide (x = y) || decide (ptol ≤ dist x y)))

/-- the cells `[a_i, a_{i+1}]` of a node list -/
def cells : List Rat → List Cell
  | [] => []
  | [_] => []
  | x :: y :: l => (x, y) :: cells (y :: l)

/-- sum of the weights reported for cell `i` of the first tessellation -/
def rowSum : List Triple → Nat → Rat
  | [], _ => 0
  | t :: T, i => (if t.1 = i then t.2.2 else 0) + rowSum T i

/-- sum of the weights reported for cell `j` of the second tessellation -/
def colSum : List Triple → Nat → Rat
  | [], _ => 0
  | t :: T, j => (if t.2.1 = j then t.2.2 else 0) + colSum T j

/-- column sum of a dense matrix -/
def colSumDense (M : List (List Rat)) (j : Nat) : Rat := (M.map (fun row => row.getD j 0)).sum

end PorepyVerif.C33
