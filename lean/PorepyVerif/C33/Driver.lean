/- C33 line-protocol driver: `lake env lean --run PorepyVerif/C33/Driver.lean`

   {"op":"match1d","c1":[["s","e"],…],"c2":[["s","e"],…],"tol":"t","ptol":"p"}
     -> {"triples":[[i,j,"w"],…],"avg":[[…]],"int":[[…]],"none":[[…]]}
   cells are pairs of line parameters (arc length along the common line) of the two nodes of a cell;
   tol = tolerance of match_1d's unscaled branch, ptol = tolerance of segments_3d in arc-length units (relative to the extent of the
   tessellations since line_tessellation normalises them: 1e-8 * scale * L / |d_k|, computed by the harness). -/
import PorepyVerif.Common.Wire
import PorepyVerif.C33.Model
open Lean PV PorepyVerif.C33

def toCells (l : List (List Rat)) : R (List Cell) :=
  l.mapM (fun p => match p with
    | [s, e] => pure (s, e)
    | _ => throw "a cell needs exactly two node parameters")

def ofMat (m : List (List Rat)) : Json := ofList ofRats m

def toPolys (pts : List (List Rat)) (tris : List (List Nat)) : R (List Poly) := do
  let ps ← pts.mapM (fun p => match p with
    | [x, y] => pure (⟨x, y⟩ : PorepyVerif.C44.Pt)
    | _ => throw "a point needs exactly two coordinates")
  tris.mapM (fun t => t.mapM (fun k => match ps[k]? with
    | some p => pure p
    | none => throw "vertex index out of range"))

def ofTriples (T : List Triple) : Json :=
  ofList (fun (t : Triple) => Json.arr #[ofNat t.1, ofNat t.2.1, ofRat t.2.2]) T

def run (j : Json) : R Json := do
  let op ← fStr j "op"
  match op with
  | "match1d" =>
    let c1 ← fRatss j "c1" >>= toCells
    let c2 ← fRatss j "c2" >>= toCells
    let tol ← fRat j "tol"
    let ptol ← fRat j "ptol"
    let T := lineTess ptol c1 c2
    -- optional sorted node lists: the decidable hypotheses of the 1-D theorems, and whether the cells sent are `cells na / nb`
    let na := (fRats j "na").toOption
    let nb := (fRats j "nb").toOption
    let hyp := match na, nb with
      | some a, some b => Json.bool (hyp1d ptol a b)
      | _, _ => Json.null
    let sorted := match na, nb with
      | some a, some b => Json.bool (decide (cells a = c1) && decide (cells b = c2))
      | _, _ => Json.null
    pure (obj [("triples", ofList (fun (t : Triple) => Json.arr #[ofNat t.1, ofNat t.2.1, ofRat t.2.2]) T),
               ("avg", ofMat (match1d ptol .averaged c1 c2)),
               ("int", ofMat (match1d ptol .integrated c1 c2)),
               ("none", ofMat (match1d ptol (.unscaled tol) c1 c2)),
               ("other", ofMat (match1d ptol .other c1 c2)),
               ("hyp", hyp), ("sorted", sorted)])
  | "tri2d" =>
    -- {"op":"tri2d","p1":[["x","y"],…],"t1":[[i,j,k],…],"p2":…,"t2":…,"tol":"t","want":"triples"|"matrices"}: triangulations / match_2d
    let ps ← do toPolys (← fRatss j "p1") (← fNatss j "t1")
    let qs ← do toPolys (← fRatss j "p2") (← fNatss j "t2")
    let tol ← fRat j "tol"
    let want ← fStr j "want"
    let T := triTess ps qs            -- computed once; match2d mode ps qs = match2dFrom mode ps qs T by definition
    if want == "triples" then
      pure (obj [("triples", ofTriples T), ("rowsOk", Json.bool (rowsOkFrom ps T)), ("colsOk", Json.bool (colsOkFrom qs T))])
    else if want == "entry" then
      -- match_2d as called: flags of the three checks + scaling name
      let sn ← fBool j "simplexNew"
      let so ← fBool j "simplexOld"
      let cp ← fBool j "coplanar"
      let mode ← do
        let m ← fStr j "mode"
        pure (match m with
          | "averaged" => Scaling.averaged
          | "integrated" => Scaling.integrated
          | "none" => Scaling.unscaled tol
          | _ => Scaling.other)
      match match2dEntry sn so cp mode ps qs with
      | none => pure (err "ValueError")
      | some M => pure (obj [("M", ofMat M)])
    else pure (obj [("avg", ofMat (match2dFrom .averaged ps qs T)),
                    ("int", ofMat (match2dFrom .integrated ps qs T)),
                    ("none", ofMat (match2dFrom (.unscaled tol) ps qs T))])
  | _ => throw s!"unknown op {op}"

def main : IO Unit := runPure run
