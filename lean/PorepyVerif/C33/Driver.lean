/- C33 line-protocol driver: `lake env lean --run PorepyVerif/C33/Driver.lean`

   {"op":"match1d","c1":[["s","e"],…],"c2":[["s","e"],…],"tol":"t","ptol":"p"}
     -> {"triples":[[i,j,"w"],…],"avg":[[…]],"int":[[…]],"none":[[…]]}
   cells are pairs of line parameters (arc length along the common line) of the two nodes of a cell;
   tol = tolerance of match_1d's unscaled branch, ptol = tolerance of segments_3d in arc-length units. -/
import PorepyVerif.Common.Wire
import PorepyVerif.C33.Model
open Lean PV PorepyVerif.C33

def toCells (l : List (List Rat)) : R (List Cell) :=
  l.mapM (fun p => match p with
    | [s, e] => pure (s, e)
    | _ => throw "a cell needs exactly two node parameters")

def ofMat (m : List (List Rat)) : Json := ofList ofRats m

def run (j : Json) : R Json := do
  let op ← fStr j "op"
  match op with
  | "match1d" =>
    let c1 ← fRatss j "c1" >>= toCells
    let c2 ← fRatss j "c2" >>= toCells
    let tol ← fRat j "tol"
    let ptol ← fRat j "ptol"
    let T := lineTess ptol c1 c2
    pure (obj [("triples", ofList (fun (t : Triple) => Json.arr #[ofNat t.1, ofNat t.2.1, ofRat t.2.2]) T),
               ("avg", ofMat (match1d ptol .averaged c1 c2)),
               ("int", ofMat (match1d ptol .integrated c1 c2)),
               ("none", ofMat (match1d ptol (.unscaled tol) c1 c2))])
  | _ => throw s!"unknown op {op}"

def main : IO Unit := runPure run
