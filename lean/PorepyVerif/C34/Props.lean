/-
C34 — property theorems (statements only depend on Model.lean; helper lemmas in Lemmas.lean).

Property: for point sets made of well-separated clusters, uniquification returns one
representative per cluster, the first-occurring member, in order of first occurrence, with index
maps linking every point to its cluster.  Column membership and tolerance-based set intersection
agree with brute-force comparison.

The uniquification theorems are about `uniquify Rule.chain` (norm pre-clustering compares with the
previous norm — the repaired algorithm).  `anchor_rule_splits_cluster` shows that they are false
for `Rule.anchor`, the rule the code uses today (finding F4).
-/
import PorepyVerif.C34.Lemmas

namespace PorepyVerif.C34

variable {t : Rat} {pts : List Pt} {cl : Nat → Nat}

/-! ### the hypothesis -/

/-- The wording of the property implies `Separated`: cluster diameter below `ε·tol` with
    `0 ≤ ε ≤ 1`, points of different clusters farther apart than `tol`. -/
theorem separated_of_margins (ε : Rat) (hε0 : 0 ≤ ε) (hε1 : ε ≤ 1)
    (hsame : ∀ i j p q, pts[i]? = some p → pts[j]? = some q → cl i = cl j →
      dist2 p q < (ε * t) * (ε * t))
    (hdiff : ∀ i j p q, pts[i]? = some p → pts[j]? = some q → cl i ≠ cl j → t * t < dist2 p q) :
    Separated t pts cl := by
  intro i j p q hi hj
  constructor
  · intro h
    have h1 := hsame i j p q hi hj h
    have : (ε * t) * (ε * t) ≤ t * t := by
      have : (ε * t) * (ε * t) = (ε * ε) * (t * t) := by ring
      rw [this]
      have hεε : ε * ε ≤ 1 := by nlinarith
      nlinarith [mul_self_nonneg t]
    linarith
  · intro h
    by_contra hne
    have := hdiff i j p q hi hj hne
    linarith

/-- the decidable check used for concrete data implies `Separated` -/
theorem separated_of_check (labels : List Nat) (h : separatedB t pts labels = true) :
    Separated t pts (fun i => labels.getD i 0) := by
  intro i j p q hi hj
  simp only [separatedB, List.all_eq_true] at h
  have := h (i, p) (mem_enumFrom.mpr ⟨Nat.zero_le _, by simpa using hi⟩)
    (j, q) (mem_enumFrom.mpr ⟨Nat.zero_le _, by simpa using hj⟩)
  simpa using this

/-! ### uniquification -/

/-- `new_2_old` is exactly the ascending list of the first-occurring member of every cluster:
    one representative per cluster, the first member, in order of first occurrence. -/
theorem uniq_first_member (hsep : Separated t pts cl) :
    (uniquify .chain t pts).new2old = firsts cl pts.length := by
  rw [uniquify_chain_eq]
  exact new2old_chain_eq_firsts hsep

/-- the representatives appear in order of first occurrence (strictly increasing indices) -/
theorem uniq_order_first_occurrence (hsep : Separated t pts cl) :
    (uniquify .chain t pts).new2old.Pairwise (· < ·) := by
  rw [uniq_first_member hsep]
  exact firsts_sorted cl _

/-- the returned points are the input columns at `new_2_old` -/
theorem uniq_points (hsep : Separated t pts cl) :
    (uniquify .chain t pts).pts = (uniquify .chain t pts).new2old.map (fun i => pts.getD i []) := by
  rw [uniquify_chain_eq]
  simp only [List.map_map]
  refine List.map_congr_left ?_
  rintro ⟨k, s⟩ hks
  have hsS : s ∈ (chainState t pts).1 := List.mem_of_getElem? (mem_orderingOf.mp hks)
  have hv : pts[s.1]? = some s.2 := (chainState_core hsep).1 s hsS
  simp [List.getD_eq_getElem?_getD, hv]

/-- `old_2_new` sends every point to the representative of its cluster, and that representative is
    the first-occurring member of the cluster. -/
theorem uniq_maps_consistent (hsep : Separated t pts cl) :
    (uniquify .chain t pts).old2new.length = pts.length ∧
    ∀ i, i < pts.length → ∃ r j : Nat, (uniquify .chain t pts).old2new[i]? = some r ∧
      (uniquify .chain t pts).new2old[r]? = some j ∧ cl j = cl i ∧ j ≤ i ∧
      ∀ j', j' < pts.length → cl j' = cl i → j ≤ j' := by
  rw [uniquify_chain_eq]
  refine ⟨by simp, ?_⟩
  intro i hi
  obtain ⟨kk, s, hkk, hs, h1, h2⟩ := (chainState_core hsep).2.2 i hi
  refine ⟨_, s.1, ?_, lookup_slot hs, h1, h2, ?_⟩
  · simp [List.getElem?_map, List.getElem?_range hi, hkk]
  · intro j' hj' hcl
    exact (slot_is_first hsep (List.mem_of_getElem? hs)).2 j' hj' (by rw [hcl, h1])

/-- exactly one representative per cluster -/
theorem uniq_one_per_cluster (hsep : Separated t pts cl) (i : Nat) (hi : i < pts.length) :
    ∃ r j : Nat, (uniquify .chain t pts).new2old[r]? = some j ∧ cl j = cl i ∧
      ∀ r' j' : Nat, (uniquify .chain t pts).new2old[r']? = some j' → cl j' = cl i → r' = r := by
  obtain ⟨r, j, _, hr, hcl, _, hmin⟩ := (uniq_maps_consistent hsep).2 i hi
  refine ⟨r, j, hr, hcl, ?_⟩
  intro r' j' hr' hcl'
  have hsorted := uniq_order_first_occurrence hsep
  have hj'mem : j' ∈ firsts cl pts.length := by
    rw [← uniq_first_member hsep]; exact List.mem_of_getElem? hr'
  have hjmem : j ∈ firsts cl pts.length := by
    rw [← uniq_first_member hsep]; exact List.mem_of_getElem? hr
  obtain ⟨hj'n, hj'f⟩ := mem_firsts.mp hj'mem
  obtain ⟨hjn, hjf⟩ := mem_firsts.mp hjmem
  have hjj : j' = j := by
    rcases Nat.lt_trichotomy j' j with h | h | h
    · exact absurd (by rw [hcl', hcl]) (hjf j' h)
    · exact h
    · exact absurd (by rw [hcl', hcl]) (hj'f j h)
  subst hjj
  obtain ⟨h1, h1'⟩ := List.getElem?_eq_some_iff.mp hr
  obtain ⟨h2, h2'⟩ := List.getElem?_eq_some_iff.mp hr'
  rw [List.pairwise_iff_getElem] at hsorted
  rcases Nat.lt_trichotomy r' r with h | h | h
  · have := hsorted r' r h2 h1 h; omega
  · exact h
  · have := hsorted r r' h1 h2 h; omega

/-- the two index maps are inverse to each other on the representatives -/
theorem uniq_old2new_new2old (hsep : Separated t pts cl) (r j : Nat)
    (hr : (uniquify .chain t pts).new2old[r]? = some j) :
    (uniquify .chain t pts).old2new[j]? = some r := by
  have hjmem : j ∈ firsts cl pts.length := by
    rw [← uniq_first_member hsep]; exact List.mem_of_getElem? hr
  obtain ⟨hjn, _⟩ := mem_firsts.mp hjmem
  obtain ⟨r0, j0, h0, hr0, hcl0, _, _⟩ := (uniq_maps_consistent hsep).2 j hjn
  obtain ⟨r1, j1, _, _, huniq⟩ := uniq_one_per_cluster hsep j hjn
  have e1 := huniq r j hr rfl
  have e0 := huniq r0 j0 hr0 hcl0
  rw [e1, ← e0]; exact h0

/-- two points get the same `old_2_new` entry iff they belong to the same cluster -/
theorem uniq_old2new_eq_iff (hsep : Separated t pts cl) (i j : Nat) (hi : i < pts.length)
    (hj : j < pts.length) :
    (uniquify .chain t pts).old2new[i]? = (uniquify .chain t pts).old2new[j]? ↔ cl i = cl j := by
  obtain ⟨ri, ji, hri, hni, hcli, _, _⟩ := (uniq_maps_consistent hsep).2 i hi
  obtain ⟨rj, jj, hrj, hnj, hclj, _, _⟩ := (uniq_maps_consistent hsep).2 j hj
  constructor
  · intro h
    rw [hri, hrj] at h
    have : ri = rj := Option.some.inj h
    subst this
    rw [hni] at hnj
    have : ji = jj := Option.some.inj hnj
    subst this
    rw [← hcli, hclj]
  · intro h
    obtain ⟨r, j0, _, _, huniq⟩ := uniq_one_per_cluster hsep i hi
    have e1 := huniq ri ji hni hcli
    have e2 := huniq rj jj hnj (by rw [hclj, h])
    rw [hri, hrj, e1, e2]

/-! ### `fracs.utils.uniquify_points`: edges after the merger -/

/-- Edges whose end points fall into the same cluster are deleted (and reported), all others
    survive in order with their end points renumbered by `old_2_new` and their tags untouched. -/
theorem uniquifyPoints_edges (hsep : Separated t pts cl) (edges : List (List Nat))
    (hvalid : ∀ e ∈ edges, ∃ a b tags, e = a :: b :: tags ∧ a < pts.length ∧ b < pts.length) :
    (uniquifyPoints .chain t pts edges).1 = (uniquify .chain t pts).pts ∧
    (uniquifyPoints .chain t pts edges).2.1 =
      (edges.filter (fun e => !sameCluster cl e)).map (mapEdge (uniquify .chain t pts).old2new) ∧
    ∀ k, k ∈ (uniquifyPoints .chain t pts edges).2.2 ↔
      ∃ e, edges[k]? = some e ∧ sameCluster cl e = true := by
  have hpe : ∀ e ∈ edges, isPointEdge (mapEdge (uniquify .chain t pts).old2new e) = sameCluster cl e := by
    intro e he
    obtain ⟨a, b, tags, rfl, ha, hb⟩ := hvalid e he
    have hiff := uniq_old2new_eq_iff hsep a b ha hb
    obtain ⟨ra, _, hra, _⟩ := (uniq_maps_consistent hsep).2 a ha
    obtain ⟨rb, _, hrb, _⟩ := (uniq_maps_consistent hsep).2 b hb
    simp only [mapEdge, isPointEdge, sameCluster, List.getD_eq_getElem?_getD, hra, hrb, Option.getD_some]
    rw [hra, hrb] at hiff
    by_cases hc : cl a = cl b
    · have : ra = rb := Option.some.inj (hiff.mpr hc)
      simp [hc, this]
    · have : ra ≠ rb := fun e => hc (hiff.mp (by rw [e]))
      simp [hc, this]
  refine ⟨rfl, ?_, ?_⟩
  · show ((edges.map (mapEdge _)).filter (fun e => !isPointEdge e)) = _
    rw [List.filter_map]
    congr 1
    exact List.filter_congr (fun e he => by simp [hpe e he])
  · intro k
    show k ∈ ((enumFrom 0 (edges.map (mapEdge _))).filter (fun p => isPointEdge p.2)).map (·.1) ↔ _
    rw [mem_filter_enum_fst (edges.map (mapEdge _)) isPointEdge k]
    constructor
    · rintro ⟨e', he', hp⟩
      rw [List.getElem?_map] at he'
      cases hek : edges[k]? with
      | none => rw [hek] at he'; cases he'
      | some e =>
        rw [hek] at he'
        simp only [Option.map_some, Option.some.injEq] at he'
        subst he'
        exact ⟨e, rfl, by rw [← hpe e (List.mem_of_getElem? hek)]; exact hp⟩
    · rintro ⟨e, hek, hs⟩
      refine ⟨mapEdge _ e, by rw [List.getElem?_map, hek]; rfl, ?_⟩
      rw [hpe e (List.mem_of_getElem? hek)]; exact hs

/-! ### `ismember_columns` -/

/-- `ismember_columns` (mask and indices) equals the brute-force comparison of every column of `a`
    with every column of `b`, in both sort modes; the index returned for a member column is the
    first matching column of `b`. -/
theorem ismember_eq_brute (a b : List Col) (sort : Bool) :
    ismember a b sort = bruteMember a b sort := ismember_eq_brute' a b sort

/-- in `sort=True` mode two columns match iff they are permutations of each other -/
theorem sortCol_eq_iff_perm (c d : Col) : colKey true c = colKey true d ↔ c.Perm d := by
  simp only [colKey, if_true]
  exact sortCol_eq_iff_perm' c d

/-- reading of the brute-force specification: mask entry and returned index of a member column -/
theorem ismember_spec (a b : List Col) (sort : Bool) :
    (ismember a b sort).1 = a.map (fun c => decide (∃ d ∈ b, colKey sort c = colKey sort d)) ∧
    (ismember a b sort).2.length = ((ismember a b sort).1.filter id).length ∧
    ∀ c ∈ a, (∃ d ∈ b, colKey sort c = colKey sort d) →
      ∃ d, b[b.findIdx (fun d => decide (colKey sort c = colKey sort d))]? = some d ∧
        colKey sort c = colKey sort d := by
  rw [ismember_eq_brute]
  refine ⟨?_, ?_, ?_⟩
  · simp only [bruteMember]
    refine List.map_congr_left (fun c _ => ?_)
    rw [Bool.eq_iff_iff, List.any_eq_true, decide_eq_true_iff]
    simp
  · simp only [bruteMember, List.length_map, List.filter_map]
    rfl
  · rintro c _ ⟨d, hd, hcd⟩
    have hlt : b.findIdx (fun d => decide (colKey sort c = colKey sort d)) < b.length :=
      List.findIdx_lt_length_of_exists ⟨d, hd, by simpa using hcd⟩
    refine ⟨b[b.findIdx (fun d => decide (colKey sort c = colKey sort d))], List.getElem?_eq_getElem hlt, ?_⟩
    have := List.findIdx_getElem (w := hlt)
    simpa using this

/-! ### `intersect_sets` -/

/-- `intersect_sets` agrees with brute-force comparison: the pair lists, `ia`, `ib` (sorted,
    duplicate-free) and the mask `a_in_b`. -/
theorem intersect_spec (a b : List Pt) :
    (∀ (i : Nat) (l : List Nat), (intersectSets t a b).inter[i]? = some l ↔
        ∃ p : Pt, a[i]? = some p ∧ l = neighbours t b p) ∧
    (∀ (p : Pt) (j : Nat), j ∈ neighbours t b p ↔ ∃ q : Pt, b[j]? = some q ∧ dist2 p q ≤ t * t) ∧
    (∀ i, i ∈ (intersectSets t a b).ia ↔
        ∃ (p q : Pt) (j : Nat), a[i]? = some p ∧ b[j]? = some q ∧ dist2 p q ≤ t * t) ∧
    (∀ j, j ∈ (intersectSets t a b).ib ↔
        ∃ (p q : Pt) (i : Nat), a[i]? = some p ∧ b[j]? = some q ∧ dist2 p q ≤ t * t) ∧
    (intersectSets t a b).ia.Pairwise (· < ·) ∧ (intersectSets t a b).ib.Pairwise (· < ·) ∧
    (intersectSets t a b).aInB = a.map (fun p => decide (∃ q ∈ b, dist2 p q ≤ t * t)) := by
  have hne : ∀ p : Pt, (neighbours t b p).isEmpty = false ↔
      ∃ (q : Pt) (j : Nat), b[j]? = some q ∧ dist2 p q ≤ t * t := by
    intro p
    constructor
    · intro h
      cases hl : neighbours t b p with
      | nil => rw [hl] at h; cases h
      | cons j l =>
        obtain ⟨q, hq⟩ := mem_neighbours.mp (by rw [hl]; exact List.mem_cons_self)
        exact ⟨q, j, hq⟩
    · rintro ⟨q, j, hq⟩
      have : j ∈ neighbours t b p := mem_neighbours.mpr ⟨q, hq⟩
      cases hl : neighbours t b p with
      | nil => rw [hl] at this; cases this
      | cons _ _ => rfl
  refine ⟨?_, fun p j => mem_neighbours, ?_, ?_, ?_, ?_, ?_⟩
  · intro i l
    show (a.map (neighbours t b))[i]? = some l ↔ _
    rw [List.getElem?_map]
    cases a[i]? with
    | none => simp
    | some p => simp [eq_comm]
  · intro i
    show i ∈ ((enumFrom 0 (a.map (neighbours t b))).filter (fun r => !r.2.isEmpty)).map (·.1) ↔ _
    rw [mem_filter_enum_fst (a.map (neighbours t b)) (fun l => !l.isEmpty) i]
    constructor
    · rintro ⟨l, hl, hp⟩
      rw [List.getElem?_map] at hl
      cases hai : a[i]? with
      | none => rw [hai] at hl; cases hl
      | some p =>
        rw [hai] at hl
        simp only [Option.map_some, Option.some.injEq] at hl
        subst hl
        obtain ⟨q, j, hq⟩ := (hne p).mp (by simpa using hp)
        exact ⟨p, q, j, rfl, hq⟩
    · rintro ⟨p, q, j, hp, hq⟩
      refine ⟨neighbours t b p, by rw [List.getElem?_map, hp]; rfl, ?_⟩
      have := (hne p).mpr ⟨q, j, hq⟩
      simp [this]
  · intro j
    show j ∈ dedup (isortBy _ (a.map (neighbours t b)).flatten) ↔ _
    rw [mem_dedup, mem_isortBy, List.mem_flatten]
    constructor
    · rintro ⟨l, hl, hj⟩
      obtain ⟨p, hp, rfl⟩ := List.mem_map.mp hl
      obtain ⟨q, hq⟩ := mem_neighbours.mp hj
      obtain ⟨i, hi⟩ := List.mem_iff_getElem?.mp hp
      exact ⟨p, q, i, hi, hq⟩
    · rintro ⟨p, q, i, hi, hq⟩
      exact ⟨neighbours t b p, List.mem_map.mpr ⟨p, List.mem_of_getElem? hi, rfl⟩,
        mem_neighbours.mpr ⟨q, hq⟩⟩
  · exact filter_enum_fst_sorted _ _
  · exact dedup_sorted_strict _
  · show (a.map (neighbours t b)).map (fun l => !l.isEmpty) = _
    rw [List.map_map]
    refine List.map_congr_left (fun p _ => ?_)
    simp only [Function.comp]
    by_cases h : ∃ q ∈ b, dist2 p q ≤ t * t
    · obtain ⟨q, hq, hd⟩ := h
      obtain ⟨j, hj⟩ := List.mem_iff_getElem?.mp hq
      have := (hne p).mpr ⟨q, j, hj, hd⟩
      simp [this]
      exact ⟨q, hq, hd⟩
    · have : (neighbours t b p).isEmpty = true := by
        cases hl : (neighbours t b p).isEmpty with
        | true => rfl
        | false =>
          obtain ⟨q, j, hj, hd⟩ := (hne p).mp hl
          exact absurd ⟨q, List.mem_of_getElem? hj, hd⟩ h
      simp [this]
      intro q hq
      exact lt_of_not_ge (fun hd => h ⟨q, hq, hd⟩)

/-- for a well-separated set `b` (distinct points farther apart than `2·tol`) every point of `a`
    matches at most one point of `b` -/
theorem intersect_unique_match (b : List Pt)
    (hb : ∀ (j j' : Nat) (q q' : Pt), b[j]? = some q → b[j']? = some q' → j ≠ j' →
      4 * (t * t) < dist2 q q')
    (p : Pt) (j j' : Nat) (hj : j ∈ neighbours t b p) (hj' : j' ∈ neighbours t b p) : j = j' := by
  obtain ⟨q, hq, hd⟩ := mem_neighbours.mp hj
  obtain ⟨q', hq', hd'⟩ := mem_neighbours.mp hj'
  by_contra hne
  have h1 := hb j j' q q' hq hq' hne
  have h2 := dist2_triangle p q q'
  linarith

/-! ### finding F4: the rule used by the code today (anchor on the first norm) splits a cluster -/

/-- Witness (the recorded input scaled to integers, `tol = 100`): the far-away point `(0, 99905)`
    anchors a norm cluster that contains `(100004, 0)` (norm difference 99) but not `(100006, 0)`
    (norm difference 101), although these two points are only 2 apart.  With the anchor rule the
    model returns three unique points, with the chain rule the two clusters. -/
theorem anchor_rule_splits_cluster :
    ∃ (t : Rat) (pts : List Pt) (cl : Nat → Nat), Separated t pts cl ∧
      (uniquify .anchor t pts).new2old ≠ firsts cl pts.length ∧
      (uniquify .chain t pts).new2old = firsts cl pts.length :=
  ⟨100, [[0, 99905], [100004, 0], [100006, 0]], fun i => [0, 1, 1].getD i 0,
    separated_of_check _ (by decide +kernel), by decide +kernel, by decide +kernel⟩

example : uniquify .anchor 100 [[0, 99905], [100004, 0], [100006, 0]] =
    { pts := [[0, 99905], [100004, 0], [100006, 0]], new2old := [0, 1, 2], old2new := [0, 1, 2] } := by
  decide +kernel

example : uniquify .chain 100 [[0, 99905], [100004, 0], [100006, 0]] =
    { pts := [[0, 99905], [100004, 0]], new2old := [0, 1], old2new := [0, 1, 1] } := by
  decide +kernel

/-! ### what the current (anchor) code computes in general, and when it agrees with the chain rule

For EVERY input (no separation hypothesis) `uniquify rule` is, by construction of the model, the
greedy first-representative clustering (`uniqueInCluster`) run separately inside each norm cluster
of `normClusters rule`, followed by the reordering by first occurrence.  The two rules can therefore
only differ through their norm clusters, and they produce the same norm clusters exactly when they
take the same "open a new cluster" decision at every step of the walk over the sorted norms
(`anchorAgrees`, a decidable condition on the sorted squared norms). -/

/-- general characterisation, any rule, any input: greedy clustering within each norm cluster -/
theorem uniquify_eq_greedy_within_norm_clusters (rule : Rule) (t : Rat) (pts : List Pt) :
    uniquify rule t pts =
      (let S := (combine t 0 (normClusters rule t
          (isortBy (fun x y : Item => decide (norm2 x.2 ≤ norm2 y.2)) (enumFrom 0 pts))))
       { pts := (orderingOf S.1).map (·.2.2),
         new2old := (orderingOf S.1).map (·.2.1),
         old2new := (List.range pts.length).map (fun i =>
           ((orderingOf S.1).map (·.1)).idxOf ((assoc S.2 i).getD 0)) }) := rfl

/-- anchor and chain rule produce the same norm clusters iff `anchorAgrees` -/
theorem anchor_eq_chain_iff (t : Rat) (pts : List Pt) :
    normClusters .anchor t (isortBy (fun x y : Item => decide (norm2 x.2 ≤ norm2 y.2)) (enumFrom 0 pts))
      = normClusters .chain t (isortBy (fun x y : Item => decide (norm2 x.2 ≤ norm2 y.2)) (enumFrom 0 pts))
    ↔ anchorAgrees t pts = true := by
  unfold anchorAgrees
  generalize isortBy (fun x y : Item => decide (norm2 x.2 ≤ norm2 y.2)) (enumFrom 0 pts) = sorted
  cases sorted with
  | nil => simp [normClusters]
  | cons x rest =>
    simp only [normClusters, List.map_cons]
    have := walk_anchor_eq_chain_iff t (x :: rest) (norm2 x.2) (norm2 x.2)
    simpa only [List.map_cons] using this

/-- sufficient condition (no separation hypothesis needed): if the decisions agree, the current
    code computes exactly what the repaired algorithm computes -/
theorem uniquify_anchor_eq_chain (t : Rat) (pts : List Pt) (h : anchorAgrees t pts = true) :
    uniquify .anchor t pts = uniquify .chain t pts := by
  have hnc := (anchor_eq_chain_iff t pts).mpr h
  rw [uniquify_eq_greedy_within_norm_clusters, uniquify_eq_greedy_within_norm_clusters, hnc]

/-- … hence on separated inputs on which the decisions agree the CURRENT code satisfies the property -/
theorem anchor_correct_of_agree (hsep : Separated t pts cl) (h : anchorAgrees t pts = true) :
    (uniquify .anchor t pts).new2old = firsts cl pts.length ∧
    (uniquify .anchor t pts).pts = (firsts cl pts.length).map (fun i => pts.getD i []) ∧
    (uniquify .anchor t pts).old2new = (uniquify .chain t pts).old2new := by
  rw [uniquify_anchor_eq_chain t pts h]
  refine ⟨uniq_first_member hsep, ?_, rfl⟩
  rw [uniq_points hsep, uniq_first_member hsep]

/-- on the F4 witness the decisions differ (and so do the results, `anchor_rule_splits_cluster`) -/
example : anchorAgrees 100 [[0, 99905], [100004, 0], [100006, 0]] = false := by decide +kernel

example : anchorAgrees (1 / 10) [[1, 0], [0, 101 / 100], [102 / 100, 0], [0, 0], [0, 103 / 100]] = true := by
  decide +kernel

/-! ### non-vacuity: concrete data satisfying the hypotheses, and the computed results -/

/-- the first fixture of the test-suite (`tol = 1e-2`) is separated, with these cluster labels -/
example : Separated (1 / 100) [[1, 1], [0, 0], [1 / 2, 0], [0, 0], [0, 1 / 2], [0, 0], [1 / 2, 0]]
    (fun i => [0, 1, 2, 1, 3, 1, 2].getD i 0) :=
  separated_of_check _ (by decide +kernel)

example : uniquify .chain (1 / 100) [[1, 1], [0, 0], [1 / 2, 0], [0, 0], [0, 1 / 2], [0, 0], [1 / 2, 0]] =
    { pts := [[1, 1], [0, 0], [1 / 2, 0], [0, 1 / 2]], new2old := [0, 1, 2, 4],
      old2new := [0, 1, 2, 1, 3, 1, 2] } := by decide +kernel

/-- a cluster with non-zero diameter whose members straddle the norm of another cluster -/
example : Separated (1 / 10) [[1, 0], [0, 101 / 100], [102 / 100, 0], [0, 0], [0, 103 / 100]]
    (fun i => [0, 1, 0, 2, 1].getD i 0) :=
  separated_of_check _ (by decide +kernel)

example : uniquify .chain (1 / 10) [[1, 0], [0, 101 / 100], [102 / 100, 0], [0, 0], [0, 103 / 100]] =
    { pts := [[1, 0], [0, 101 / 100], [0, 0]], new2old := [0, 1, 3], old2new := [0, 1, 0, 2, 1] } := by
  decide +kernel

example : uniquifyPoints .chain (1 / 100) [[0, 0], [1, 0], [0, 0]] [[0, 1, 7], [0, 2, 8], [2, 1, 9]] =
    ([[0, 0], [1, 0]], [[0, 1, 7], [0, 1, 9]], [1]) := by decide +kernel

/-- the docstring example of `ismember_columns`, both sort modes -/
example : ismember [[1, 3], [3, 3], [3, 2], [1, 3], [7, 0]] [[3, 3], [1, 3], [3, 2], [5, 1], [3, 2]] true =
    ([true, true, true, true, false], [1, 0, 2, 1]) := by decide +kernel

example : ismember [[1, 3], [3, 3], [3, 2], [1, 3], [7, 0]] [[3, 3], [1, 3], [2, 3], [5, 1], [1, 2]] false =
    ([true, true, false, true, false], [1, 0, 1]) := by decide +kernel

example : intersectSets (1 / 1000) [[0, 0], [1, 0], [2, 0]] [[2, 0], [0, 0], [0, 0], [5, 5]] =
    { ia := [0, 2], ib := [0, 1, 2], aInB := [true, false, true], inter := [[1, 2], [], [0]] } := by
  decide +kernel

/-- repeated points inside both sets: every copy is reported (multiplicities as coded) -/
example : intersectSets (1 / 1000) [[1, 0], [1, 0], [3, 3]] [[1, 0], [7, 7], [1, 0], [3, 3], [3, 3]] =
    { ia := [0, 1, 2], ib := [0, 2, 3, 4], aInB := [true, true, true],
      inter := [[0, 2], [0, 2], [3, 4]] } := by
  decide +kernel

end PorepyVerif.C34
