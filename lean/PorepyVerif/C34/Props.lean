/-
C34 — property theorems (statements only depend on Model.lean; helper lemmas in Lemmas.lean).

Property: for point sets made of well-separated clusters, uniquification returns one
representative per cluster, the first-occurring member, in order of first occurrence, with index
maps linking every point to its cluster.  Column membership and tolerance-based set intersection
agree with brute-force comparison.

The uniquification theorems are about `uniquify Rule.chain` (norm pre-clustering compares with the
previous norm — the repaired algorithm).  `anchor_rule_splits_cluster` shows that they are false
for `Rule.anchor`, the rule the code uses today (finding F4).
-/
import PorepyVerif.C34.Lemmas

namespace PorepyVerif.C34

variable {t : Rat} {pts : List Pt} {cl : Nat → Nat}

/-! ### the hypothesis -/

/-- The wording of the property implies `Separated`: cluster diameter below `ε·tol` with
    `0 ≤ ε ≤ 1`, points of different clusters farther apart than `tol`. -/
theorem separated_of_margins (ε : Rat) (hε0 : 0 ≤ ε) (hε1 : ε ≤ 1)
    (hsame : ∀ i j p q, pts[i]? = some p → pts[j]? = some q → cl i = cl j →
      dist2 p q < (ε * t) * (ε * t))
    (hdiff : ∀ i j p q, pts[i]? = some p → pts[j]? = some q → cl i ≠ cl j → t * t < dist2 p q) :
    Separated t pts cl := by
  intro i j p q hi hj
  constructor
  · intro h
    have h1 := hsame i j p q hi hj h
    have : (ε * t) * (ε * t) ≤ t * t := by
      have : (ε * t) * (ε * t) = (ε * ε) * (t * t) := by ring
      rw [this]
      have hεε : ε * ε ≤ 1 := by nlinarith
      nlinarith [mul_self_nonneg t]
    linarith
  · intro h
    by_contra hne
    have := hdiff i j p q hi hj hne
    linarith

/-- the decidable check used for concrete data implies `Separated` -/
theorem separated_of_check (labels : List Nat) (h : separatedB t pts labels = true) :
    Separated t pts (fun i => labels.getD i 0) := by
  intro i j p q hi hj
  simp only [separatedB, List.all_eq_true] at h
  have := h (i, p) (mem_enumFrom.mpr ⟨Nat.zero_le _, by simpa using hi⟩)
    (j, q) (mem_enumFrom.mpr ⟨Nat.zero_le _, by simpa using hj⟩)
  simpa using this

/-! ### uniquification -/

/-- `new_2_old` is exactly the ascending list of the first-occurring member of every cluster:
    one representative per cluster, the first member, in order of first occurrence. -/
theorem uniq_first_member (hsep : Separated t pts cl) :
    (uniquify .chain t pts).new2old = firsts cl pts.length := by
  rw [uniquify_chain_eq]
  exact new2old_chain_eq_firsts hsep

/-- the representatives appear in order of first occurrence (strictly increasing indices) -/
theorem uniq_order_first_occurrence (hsep : Separated t pts cl) :
    (uniquify .chain t pts).new2old.Pairwise (· < ·) := by
  rw [uniq_first_member hsep]
  exact firsts_sorted cl _

/-- the returned points are the input columns at `new_2_old` -/
theorem uniq_points (hsep : Separated t pts cl) :
    (uniquify .chain t pts).pts = (uniquify .chain t pts).new2old.map (fun i => pts.getD i []) := by
  rw [uniquify_chain_eq]
  simp only [List.map_map]
  refine List.map_congr_left ?_
  rintro ⟨k, s⟩ hks
  have hsS : s ∈ (chainState t pts).1 := List.mem_of_getElem? (mem_orderingOf.mp hks)
  have hv : pts[s.1]? = some s.2 := (chainState_core hsep).1 s hsS
  simp [List.getD_eq_getElem?_getD, hv]

/-- `old_2_new` sends every point to the representative of its cluster, and that representative is
    the first-occurring member of the cluster. -/
theorem uniq_maps_consistent (hsep : Separated t pts cl) :
    (uniquify .chain t pts).old2new.length = pts.length ∧
    ∀ i, i < pts.length → ∃ r j : Nat, (uniquify .chain t pts).old2new[i]? = some r ∧
      (uniquify .chain t pts).new2old[r]? = some j ∧ cl j = cl i ∧ j ≤ i ∧
      ∀ j', j' < pts.length → cl j' = cl i → j ≤ j' := by
  rw [uniquify_chain_eq]
  refine ⟨by simp, ?_⟩
  intro i hi
  obtain ⟨kk, s, hkk, hs, h1, h2⟩ := (chainState_core hsep).2.2 i hi
  refine ⟨_, s.1, ?_, lookup_slot hs, h1, h2, ?_⟩
  · simp [List.getElem?_map, List.getElem?_range hi, hkk]
  · intro j' hj' hcl
    exact (slot_is_first hsep (List.mem_of_getElem? hs)).2 j' hj' (by rw [hcl, h1])

/-- exactly one representative per cluster -/
theorem uniq_one_per_cluster (hsep : Separated t pts cl) (i : Nat) (hi : i < pts.length) :
    ∃ r j : Nat, (uniquify .chain t pts).new2old[r]? = some j ∧ cl j = cl i ∧
      ∀ r' j' : Nat, (uniquify .chain t pts).new2old[r']? = some j' → cl j' = cl i → r' = r := by
  obtain ⟨r, j, _, hr, hcl, _, hmin⟩ := (uniq_maps_consistent hsep).2 i hi
  refine ⟨r, j, hr, hcl, ?_⟩
  intro r' j' hr' hcl'
  have hsorted := uniq_order_first_occurrence hsep
  have hj'mem : j' ∈ firsts cl pts.length := by
    rw [← uniq_first_member hsep]; exact List.mem_of_getElem? hr'
  have hjmem : j ∈ firsts cl pts.length := by
    rw [← uniq_first_member hsep]; exact List.mem_of_getElem? hr
  obtain ⟨hj'n, hj'f⟩ := mem_firsts.mp hj'mem
  obtain ⟨hjn, hjf⟩ := mem_firsts.mp hjmem
  have hjj : j' = j := by
    rcases Nat.lt_trichotomy j' j with h | h | h
    · exact absurd (by rw [hcl', hcl]) (hjf j' h)
    · exact h
    · exact absurd (by rw [hcl', hcl]) (hj'f j h)
  subst hjj
  obtain ⟨h1, h1'⟩ := List.getElem?_eq_some_iff.mp hr
  obtain ⟨h2, h2'⟩ := List.getElem?_eq_some_iff.mp hr'
  rw [List.pairwise_iff_getElem] at hsorted
  rcases Nat.lt_trichotomy r' r with h | h | h
  · have := hsorted r' r h2 h1 h; omega
  · exact h
  · have := hsorted r r' h1 h2 h; omega

/-- the two index maps are inverse to each other on the representatives -/
theorem uniq_old2new_new2old (hsep : Separated t pts cl) (r j : Nat)
    (hr : (uniquify .chain t pts).new2old[r]? = some j) :
    (uniquify .chain t pts).old2new[j]? = some r := by
  have hjmem : j ∈ firsts cl pts.length := by
    rw [← uniq_first_member hsep]; exact List.mem_of_getElem? hr
  obtain ⟨hjn, _⟩ := mem_firsts.mp hjmem
  obtain ⟨r0, j0, h0, hr0, hcl0, _, _⟩ := (uniq_maps_consistent hsep).2 j hjn
  obtain ⟨r1, j1, _, _, huniq⟩ := uniq_one_per_cluster hsep j hjn
  have e1 := huniq r j hr rfl
  have e0 := huniq r0 j0 hr0 hcl0
  rw [e1, ← e0]; exact h0

/-- two points get the same `old_2_new` entry iff they belong to the same cluster -/
theorem uniq_old2new_eq_iff (hsep : Separated t pts cl) (i j : Nat) (hi : i < pts.length)
    (hj : j < pts.length) :
    (uniquify .chain t pts).old2new[i]? = (uniquify .chain t pts).old2new[j]? ↔ cl i = cl j := by
  obtain ⟨ri, ji, hri, hni, hcli, _, _⟩ := (uniq_maps_consistent hsep).2 i hi
  obtain ⟨rj, jj, hrj, hnj, hclj, _, _⟩ := (uniq_maps_consistent hsep).2 j hj
  constructor
  · intro h
    rw [hri, hrj] at h
    have : ri = rj := Option.some.inj h
    subst this
    rw [hni] at hnj
    have : ji = jj := Option.some.inj hnj
    subst this
    rw [← hcli, hclj]
  · intro h
    obtain ⟨r, j0, _, _, huniq⟩ := uniq_one_per_cluster hsep i hi
    have e1 := huniq ri ji hni hcli
    have e2 := huniq rj jj hnj (by rw [hclj, h])
    rw [hri, hrj, e1, e2]

end PorepyVerif.C34
