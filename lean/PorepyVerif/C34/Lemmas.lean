/-
C34 — helper lemmas: squared-distance arithmetic (Cauchy–Schwarz, reverse triangle inequality
without square roots), insertion sort, enumeration, the norm-cluster walk, the in-cluster loop
invariant and the combination of clusters.
-/
import Mathlib.Tactic.Linarith
import Mathlib.Tactic.Ring
import Mathlib.Algebra.Order.Field.Rat
import PorepyVerif.C34.Model

namespace PorepyVerif.C34

/-! ### arithmetic of squared norms -/

theorem norm2_nonneg (p : Pt) : 0 ≤ norm2 p := by
  induction p with
  | nil => simp [norm2]
  | cons x p ih => simp only [norm2]; nlinarith [mul_self_nonneg x]

theorem dist2_eq (p q : Pt) : dist2 p q = norm2 p + norm2 q - 2 * dot p q := by
  induction p generalizing q with
  | nil => simp [dist2, norm2, dot]
  | cons x p ih =>
    cases q with
    | nil => simp [dist2, norm2, dot]
    | cons y q => simp only [dist2, norm2, dot, ih q]; ring

theorem dist2_self (p : Pt) : dist2 p p = 0 := by
  induction p with
  | nil => simp [dist2, norm2]
  | cons x p ih => simp [dist2, ih]

theorem dot_comm (p q : Pt) : dot p q = dot q p := by
  induction p generalizing q with
  | nil => cases q <;> simp [dot]
  | cons x p ih =>
    cases q with
    | nil => simp [dot]
    | cons y q => simp only [dot, ih q]; ring

theorem dist2_comm (p q : Pt) : dist2 p q = dist2 q p := by
  rw [dist2_eq, dist2_eq, dot_comm]; ring

private theorem cs_step (a b A B s : Rat) (hA : 0 ≤ A) (hB : 0 ≤ B) (h : s * s ≤ A * B) :
    2 * a * b * s ≤ a * a * B + b * b * A := by
  have haa := mul_self_nonneg a
  have hbb := mul_self_nonneg b
  have hx : 0 ≤ a * a * B + b * b * A := add_nonneg (mul_nonneg haa hB) (mul_nonneg hbb hA)
  have h1 : (2 * a * b * s) * (2 * a * b * s) ≤ (a * a * B + b * b * A) * (a * a * B + b * b * A) := by
    have e : (a * a * B + b * b * A) * (a * a * B + b * b * A) - (2 * a * b * s) * (2 * a * b * s)
        = (a * a * B - b * b * A) * (a * a * B - b * b * A) + 4 * ((a * a) * (b * b)) * (A * B - s * s) := by ring
    have h2 : 0 ≤ 4 * ((a * a) * (b * b)) * (A * B - s * s) :=
      mul_nonneg (mul_nonneg (by norm_num) (mul_nonneg haa hbb)) (by linarith)
    nlinarith [mul_self_nonneg (a * a * B - b * b * A)]
  by_contra hc
  have hc' : a * a * B + b * b * A < 2 * a * b * s := lt_of_not_ge hc
  nlinarith [mul_self_lt_mul_self hx hc']

/-- Cauchy–Schwarz for columns of rationals -/
theorem dot_sq_le (p q : Pt) : dot p q * dot p q ≤ norm2 p * norm2 q := by
  induction p generalizing q with
  | nil => simp only [dot, norm2]; nlinarith [norm2_nonneg q]
  | cons x p ih =>
    cases q with
    | nil => simp only [dot, norm2]; nlinarith [norm2_nonneg p, mul_self_nonneg x]
    | cons y q =>
      simp only [dot, norm2]
      have h1 := cs_step x y (norm2 p) (norm2 q) (dot p q) (norm2_nonneg p) (norm2_nonneg q) (ih q)
      have h2 := ih q
      generalize norm2 p = A at *
      generalize norm2 q = B at *
      generalize dot p q = s at *
      have e1 : (x * y + s) * (x * y + s) = x * x * (y * y) + 2 * x * y * s + s * s := by ring
      have e2 : (x * x + A) * (y * y + B) = x * x * (y * y) + x * x * B + y * y * A + A * B := by ring
      rw [e1, e2]; linarith

theorem farLe_iff (t a b : Rat) :
    farLe t a b = true ↔ 0 < b - a - t * t ∧ 4 * (t * t) * a < (b - a - t * t) * (b - a - t * t) := by
  simp [farLe]

/-- the rational norm test is monotone: widening the interval keeps "far" -/
theorem farLe_mono {t a b a' b' : Rat} (ha : a' ≤ a) (hb : b ≤ b') (h : farLe t a b = true) :
    farLe t a' b' = true := by
  rw [farLe_iff] at h ⊢
  obtain ⟨h1, h2⟩ := h
  have htt := mul_self_nonneg t
  refine ⟨by linarith, ?_⟩
  have hu : 0 ≤ (b' - b) + (a - a') := by linarith
  have e : (b' - a' - t * t) = (b - a - t * t) + ((b' - b) + (a - a')) := by ring
  rw [e]
  nlinarith [mul_nonneg hu (le_of_lt h1), mul_self_nonneg ((b' - b) + (a - a')), mul_nonneg htt (sub_nonneg.mpr ha)]

theorem normFar_of_le {t a b : Rat} (h : a ≤ b) : normFar t a b = farLe t a b := by
  simp [normFar, h]

theorem normFar_comm (t a b : Rat) : normFar t a b = normFar t b a := by
  unfold normFar
  by_cases h1 : a ≤ b <;> by_cases h2 : b ≤ a <;> simp [h1, h2]
  · have : a = b := le_antisymm h1 h2
    subst this; rfl
  · exact absurd (le_of_lt (lt_of_not_ge h1)) h2

/-- reverse triangle inequality, squared form: points closer than `t` do not have far norms -/
theorem not_far_of_close_le {t : Rat} {p q : Pt} (_hle : norm2 p ≤ norm2 q) (h : dist2 p q < t * t) :
    farLe t (norm2 p) (norm2 q) = false := by
  cases hf : farLe t (norm2 p) (norm2 q) with
  | false => rfl
  | true =>
    exfalso
    rw [farLe_iff] at hf
    obtain ⟨h1, h2⟩ := hf
    rw [dist2_eq] at h
    have ha := norm2_nonneg p
    have hcs := dot_sq_le p q
    -- 2 s > 2 a + u > 0
    have hs : 2 * norm2 p + (norm2 q - norm2 p - t * t) < 2 * dot p q := by linarith
    have hpos : 0 ≤ 2 * norm2 p + (norm2 q - norm2 p - t * t) := by linarith
    have hsq := mul_self_lt_mul_self hpos hs
    nlinarith [mul_nonneg ha (le_of_lt h1)]

theorem not_far_of_close {t : Rat} {p q : Pt} (h : dist2 p q < t * t) :
    normFar t (norm2 p) (norm2 q) = false := by
  unfold normFar
  by_cases hle : norm2 p ≤ norm2 q
  · simp only [hle, if_true]; exact not_far_of_close_le hle h
  · simp only [hle, if_false]
    exact not_far_of_close_le (le_of_lt (lt_of_not_ge hle)) (by rw [dist2_comm]; exact h)


/-! ### insertion sort -/
section SortLemmas
variable {α : Type} (le : α → α → Bool)

theorem insertBy_perm (x : α) (l : List α) : (insertBy le x l).Perm (x :: l) := by
  induction l with
  | nil => exact List.Perm.refl _
  | cons y l ih =>
    simp only [insertBy]
    split
    · exact List.Perm.refl _
    · exact (List.Perm.cons y ih).trans (List.Perm.swap x y l)

theorem isortBy_perm (l : List α) : (isortBy le l).Perm l := by
  induction l with
  | nil => exact List.Perm.refl _
  | cons x l ih => exact (insertBy_perm le x _).trans (List.Perm.cons x ih)

theorem mem_isortBy {x : α} {l : List α} : x ∈ isortBy le l ↔ x ∈ l := (isortBy_perm le l).mem_iff

theorem insertBy_pairwise (tot : ∀ a b, le a b = true ∨ le b a = true)
    (tr : ∀ a b c, le a b = true → le b c = true → le a c = true) (x : α) (l : List α)
    (h : l.Pairwise (fun a b => le a b = true)) :
    (insertBy le x l).Pairwise (fun a b => le a b = true) := by
  induction l with
  | nil => simp [insertBy]
  | cons y l ih =>
    simp only [insertBy]
    rw [List.pairwise_cons] at h
    split
    · rename_i hxy
      refine List.Pairwise.cons ?_ (List.Pairwise.cons h.1 h.2)
      intro z hz
      rcases List.mem_cons.mp hz with rfl | hz
      · exact hxy
      · exact tr _ _ _ hxy (h.1 z hz)
    · rename_i hxy
      have hyx : le y x = true := by
        rcases tot x y with h' | h'
        · exact absurd h' hxy
        · exact h'
      refine List.Pairwise.cons ?_ (ih h.2)
      intro z hz
      have := (insertBy_perm le x l).mem_iff.mp hz
      rcases List.mem_cons.mp this with rfl | hz'
      · exact hyx
      · exact h.1 z hz'

theorem isortBy_pairwise (tot : ∀ a b, le a b = true ∨ le b a = true)
    (tr : ∀ a b c, le a b = true → le b c = true → le a c = true) (l : List α) :
    (isortBy le l).Pairwise (fun a b => le a b = true) := by
  induction l with
  | nil => simp [isortBy]
  | cons x l ih => exact insertBy_pairwise le tot tr x _ ih

end SortLemmas

/-! ### enumeration -/

theorem mem_enumFrom {α : Type} {k i : Nat} {x : α} {l : List α} :
    (i, x) ∈ enumFrom k l ↔ k ≤ i ∧ l[i - k]? = some x := by
  induction l generalizing k with
  | nil => simp [enumFrom]
  | cons y l ih =>
    simp only [enumFrom, List.mem_cons, Prod.mk.injEq, ih]
    constructor
    · rintro (⟨rfl, rfl⟩ | ⟨h1, h2⟩)
      · simp
      · refine ⟨by omega, ?_⟩
        have e : i - k = (i - (k + 1)) + 1 := by omega
        rw [e]; simpa using h2
    · rintro ⟨h1, h2⟩
      by_cases hik : i = k
      · subst hik
        left
        simp at h2
        exact ⟨rfl, h2.symm⟩
      · right
        refine ⟨by omega, ?_⟩
        have e : i - k = (i - (k + 1)) + 1 := by omega
        rw [e] at h2; simpa using h2

theorem enumFrom_map_snd {α : Type} (k : Nat) (l : List α) : (enumFrom k l).map (·.2) = l := by
  induction l generalizing k with
  | nil => rfl
  | cons y l ih => simp [enumFrom, ih]

theorem enumFrom_length {α : Type} (k : Nat) (l : List α) : (enumFrom k l).length = l.length := by
  induction l generalizing k with
  | nil => rfl
  | cons y l ih => simp [enumFrom, ih]

/-! ### the norm-cluster walk -/

theorem consHead_flatten {α : Type} (x : α) (G : List (List α)) :
    (consHead x G).flatten = x :: G.flatten := by
  cases G <;> simp [consHead]

theorem consHead_ne_nil {α : Type} (x : α) (G : List (List α)) : consHead x G ≠ [] := by
  cases G <;> simp [consHead]

theorem walk_ne_nil (rule : Rule) (t ref : Rat) (items : List Item) : walk rule t ref items ≠ [] := by
  cases items with
  | nil => simp [walk]
  | cons x rest =>
    simp only [walk]
    split
    · simp
    · exact consHead_ne_nil _ _

theorem walk_flatten (rule : Rule) (t : Rat) (ref : Rat) (items : List Item) :
    (walk rule t ref items).flatten = items := by
  induction items generalizing ref with
  | nil => simp [walk]
  | cons x rest ih =>
    simp only [walk]
    split
    · simp [consHead_flatten, ih]
    · simp [consHead_flatten, ih]

theorem normClusters_flatten (rule : Rule) (t : Rat) (items : List Item) :
    (normClusters rule t items).flatten = items := by
  cases items with
  | nil => rfl
  | cons x rest => exact walk_flatten _ _ _ _

/-- every member of the first group is far (in norm) from every member of the second -/
def FarG (t : Rat) (g g' : List Item) : Prop :=
  ∀ x ∈ g, ∀ y ∈ g', normFar t (norm2 x.2) (norm2 y.2) = true

theorem walk_chain_spec (t : Rat) (items : List Item) :
    ∀ ref : Rat, items.Pairwise (fun x y => norm2 x.2 ≤ norm2 y.2) →
      (∀ x ∈ items, ref ≤ norm2 x.2) →
      (walk .chain t ref items).Pairwise (FarG t) ∧
      (∀ g' ∈ (walk .chain t ref items).tail, ∀ y ∈ g', ∀ r : Rat, r ≤ ref →
          farLe t r (norm2 y.2) = true) := by
  induction items with
  | nil => intro ref _ _; simp [walk]
  | cons x rest ih =>
    intro ref hs hr
    rw [List.pairwise_cons] at hs
    have hax : ref ≤ norm2 x.2 := hr x (List.mem_cons_self)
    obtain ⟨ih1, ih2⟩ := ih (norm2 x.2) hs.2 (fun y hy => hs.1 y hy)
    have hfl := walk_flatten .chain t (norm2 x.2) rest
    cases hW : walk .chain t (norm2 x.2) rest with
    | nil => exact absurd hW (walk_ne_nil _ _ _ _)
    | cons h tl =>
      rw [hW] at ih1 ih2 hfl
      rw [List.pairwise_cons] at ih1
      simp only [List.tail_cons] at ih2
      have hmem_rest : ∀ g' ∈ tl, ∀ y ∈ g', y ∈ rest := by
        intro g' hg' y hy
        rw [← hfl]
        exact List.mem_flatten.mpr ⟨g', List.mem_cons_of_mem _ hg', hy⟩
      have hmem_h : ∀ y ∈ h, y ∈ rest := by
        intro y hy
        rw [← hfl]
        exact List.mem_flatten.mpr ⟨h, List.mem_cons_self, hy⟩
      -- the groups after pushing `x` onto the head group
      have hP : ((x :: h) :: tl).Pairwise (FarG t) := by
        refine List.Pairwise.cons ?_ ih1.2
        intro g' hg' z hz y hy
        rcases List.mem_cons.mp hz with rfl | hz
        · have hle : norm2 z.2 ≤ norm2 y.2 := hs.1 y (hmem_rest g' hg' y hy)
          rw [normFar_of_le hle]
          exact ih2 g' hg' y hy _ (le_refl _)
        · exact ih1.1 g' hg' z hz y hy
      simp only [walk]
      by_cases hfar : normFar t ref (norm2 x.2) = true
      · simp only [hfar, if_true, hW, consHead]
        rw [normFar_of_le hax] at hfar
        refine ⟨List.Pairwise.cons ?_ hP, ?_⟩
        · intro g' _ z hz; cases hz
        · intro g' hg' y hy r hrr
          have hg' : g' ∈ (x :: h) :: tl := hg'
          have hy' : norm2 x.2 ≤ norm2 y.2 := by
            rcases List.mem_cons.mp hg' with rfl | hg'
            · rcases List.mem_cons.mp hy with rfl | hy
              · exact le_refl _
              · exact hs.1 y (hmem_h y hy)
            · exact hs.1 y (hmem_rest g' hg' y hy)
          exact farLe_mono hrr hy' hfar
      · simp only [hfar, hW, consHead]
        refine ⟨hP, ?_⟩
        intro g' hg' y hy r hrr
        have hg' : g' ∈ tl := hg'
        exact ih2 g' hg' y hy r (le_trans hrr hax)

theorem normClusters_chain_far (t : Rat) (items : List Item)
    (hs : items.Pairwise (fun x y => norm2 x.2 ≤ norm2 y.2)) :
    (normClusters .chain t items).Pairwise (FarG t) := by
  cases items with
  | nil => simp [normClusters]
  | cons x rest =>
    refine (walk_chain_spec t (x :: rest) (norm2 x.2) hs ?_).1
    intro y hy
    rcases List.mem_cons.mp hy with rfl | hy
    · exact le_refl _
    · exact (List.pairwise_cons.mp hs).1 y hy


/-! ### `_unique_points_in_cluster`: loop invariant -/

/-- an item carries the column stored at its index -/
def ValidItem (pts : List Pt) (x : Item) : Prop := pts[x.1]? = some x.2

theorem sep_within {t : Rat} {pts : List Pt} {cl : Nat → Nat} (h : Separated t pts cl) {x y : Item}
    (hx : ValidItem pts x) (hy : ValidItem pts y) : within t x.2 y.2 = true ↔ cl x.1 = cl y.1 := by
  unfold within
  rw [decide_eq_true_iff]
  exact (h x.1 y.1 x.2 y.2 hx hy).symm

theorem findSlot_none {t : Rat} {col : Pt} {S : List Item} (h : findSlot t col S = none) :
    ∀ s ∈ S, within t col s.2 = false := by
  induction S with
  | nil => intro s hs; cases hs
  | cons s0 ss ih =>
    simp only [findSlot] at h
    split at h
    · cases h
    · rename_i hw
      intro s hs
      rcases List.mem_cons.mp hs with rfl | hs
      · simpa using hw
      · refine ih ?_ s hs
        cases hf : findSlot t col ss with
        | none => rfl
        | some r => rw [hf] at h; cases h

theorem findSlot_some {t : Rat} {col : Pt} {S : List Item} {k : Nat} {s : Item}
    (h : findSlot t col S = some (k, s)) : S[k]? = some s ∧ within t col s.2 = true := by
  induction S generalizing k with
  | nil => cases h
  | cons s0 ss ih =>
    simp only [findSlot] at h
    split at h
    · rename_i hw
      cases h
      exact ⟨rfl, hw⟩
    · cases hf : findSlot t col ss with
      | none => rw [hf] at h; cases h
      | some r =>
        rw [hf] at h
        obtain ⟨k', s'⟩ := r
        simp only [Option.map_some, Option.some.injEq, Prod.mk.injEq] at h
        obtain ⟨rfl, rfl⟩ := h
        have := ih hf
        exact ⟨by simpa using this.1, this.2⟩

/-- invariant of the loop over one norm cluster: `P` = items processed so far, `S` = slots
    (`new_2_old`/`unique_cols`), `L` = local `old_2_new` -/
structure ClInv (cl : Nat → Nat) (P S : List Item) (L : List Nat) : Prop where
  sub : ∀ s ∈ S, s ∈ P
  inj : ∀ (k k' : Nat) (s s' : Item), S[k]? = some s → S[k']? = some s' → cl s.1 = cl s'.1 → k = k'
  len : L.length = P.length
  asg : ∀ (x : Item) (k : Nat), (x, k) ∈ P.zip L → ∃ s, S[k]? = some s ∧ cl s.1 = cl x.1 ∧ s.1 ≤ x.1

theorem ClInv.nil (cl : Nat → Nat) : ClInv cl [] [] [] :=
  ⟨by simp, by simp, rfl, by simp⟩

theorem clusterStep_inv {t : Rat} {pts : List Pt} {cl : Nat → Nat} (hsep : Separated t pts cl)
    {P S : List Item} {L : List Nat} {x : Item}
    (hP : ∀ y ∈ P, ValidItem pts y) (hx : ValidItem pts x) (inv : ClInv cl P S L) :
    ClInv cl (P ++ [x]) (clusterStep t (S, L) x).1 (clusterStep t (S, L) x).2 := by
  have hzip : (P ++ [x]).zip (L ++ [S.length]) = P.zip L ++ [(x, S.length)] := by
    rw [List.zip_append inv.len.symm]; rfl
  unfold clusterStep
  cases hf : findSlot t x.2 S with
  | none =>
    have hnone := findSlot_none hf
    have hne : ∀ s ∈ S, cl s.1 ≠ cl x.1 := by
      intro s hs heq
      have := (sep_within hsep hx (hP s (inv.sub s hs))).mpr heq.symm
      rw [hnone s hs] at this; cases this
    refine ⟨?_, ?_, ?_, ?_⟩
    · intro s hs
      rcases List.mem_append.mp hs with hs | hs
      · exact List.mem_append_left _ (inv.sub s hs)
      · exact List.mem_append_right _ hs
    · intro k k' s s' hk hk' hcl
      simp only [List.getElem?_append] at hk hk'
      split at hk <;> split at hk'
      · exact inv.inj k k' s s' hk hk' hcl
      · exfalso
        have : s' = x := by
          have := List.mem_of_getElem? hk'
          simpa using this
        subst this
        exact hne s (List.mem_of_getElem? hk) hcl
      · exfalso
        have : s = x := by
          have := List.mem_of_getElem? hk
          simpa using this
        subst this
        exact hne s' (List.mem_of_getElem? hk') hcl.symm
      · have h1 : k - S.length = 0 := by
          rcases Nat.eq_zero_or_pos (k - S.length) with h | h
          · exact h
          · rw [List.getElem?_eq_none (by simp; omega)] at hk; cases hk
        have h2 : k' - S.length = 0 := by
          rcases Nat.eq_zero_or_pos (k' - S.length) with h | h
          · exact h
          · rw [List.getElem?_eq_none (by simp; omega)] at hk'; cases hk'
        omega
    · simp [inv.len]
    · intro y k hyk
      show ∃ s, (S ++ [x])[k]? = some s ∧ _
      rw [hzip] at hyk
      rcases List.mem_append.mp hyk with h | h
      · obtain ⟨s, hs, h1, h2⟩ := inv.asg y k h
        refine ⟨s, ?_, h1, h2⟩
        have hlt : k < S.length := (List.getElem?_eq_some_iff.mp hs).1
        rw [List.getElem?_append_left hlt]; exact hs
      · simp only [List.mem_singleton, Prod.mk.injEq] at h
        obtain ⟨rfl, rfl⟩ := h
        exact ⟨y, by simp, rfl, le_refl _⟩
  | some r =>
    obtain ⟨k0, s0⟩ := r
    obtain ⟨hk0, hw⟩ := findSlot_some hf
    have hs0S : s0 ∈ S := List.mem_of_getElem? hk0
    have hcl0 : cl x.1 = cl s0.1 := (sep_within hsep hx (hP s0 (inv.sub s0 hs0S))).mp hw
    have hk0lt : k0 < S.length := (List.getElem?_eq_some_iff.mp hk0).1
    have hzip' : (P ++ [x]).zip (L ++ [k0]) = P.zip L ++ [(x, k0)] := by
      rw [List.zip_append inv.len.symm]; rfl
    by_cases hlt : x.1 < s0.1
    · simp only [hlt, if_true]
      -- reading the updated slots
      have hget : ∀ (k : Nat) (s : Item), (S.set k0 x)[k]? = some s →
          ∃ so : Item, S[k]? = some so ∧ cl so.1 = cl s.1 ∧ s.1 ≤ so.1 := by
        intro k s hk
        rw [List.getElem?_set] at hk
        split at hk
        · rename_i hkk
          subst hkk
          simp only [Option.some.injEq] at hk
          subst hk
          exact ⟨s0, hk0, hcl0.symm, le_of_lt hlt⟩
        · exact ⟨s, hk, rfl, le_refl _⟩
      refine ⟨?_, ?_, ?_, ?_⟩
      · intro s hs
        rcases List.mem_or_eq_of_mem_set hs with hs | rfl
        · exact List.mem_append_left _ (inv.sub s hs)
        · simp
      · intro k k' s s' hk hk' hcl
        obtain ⟨so, h1, h2, _⟩ := hget k s hk
        obtain ⟨so', h1', h2', _⟩ := hget k' s' hk'
        exact inv.inj k k' so so' h1 h1' (by rw [h2, h2', hcl])
      · simp [inv.len]
      · intro y k hyk
        show ∃ s, (S.set k0 x)[k]? = some s ∧ _
        rw [hzip'] at hyk
        rcases List.mem_append.mp hyk with h | h
        · obtain ⟨s, hs, h1, h2⟩ := inv.asg y k h
          by_cases hkk : k0 = k
          · subst hkk
            have : s = s0 := by rw [hk0] at hs; exact (Option.some.inj hs).symm
            subst this
            refine ⟨x, by simp [hk0lt], by rw [hcl0, h1], ?_⟩
            exact le_trans (le_of_lt hlt) h2
          · exact ⟨s, by rw [List.getElem?_set]; simp [hkk, hs], h1, h2⟩
        · simp only [List.mem_singleton, Prod.mk.injEq] at h
          obtain ⟨rfl, rfl⟩ := h
          exact ⟨y, by simp [hk0lt], rfl, le_refl _⟩
    · simp only [hlt, if_false]
      refine ⟨?_, inv.inj, by simp [inv.len], ?_⟩
      · intro s hs
        exact List.mem_append_left _ (inv.sub s hs)
      · intro y k hyk
        show ∃ s, S[k]? = some s ∧ _
        rw [hzip'] at hyk
        rcases List.mem_append.mp hyk with h | h
        · exact inv.asg y k h
        · simp only [List.mem_singleton, Prod.mk.injEq] at h
          obtain ⟨rfl, rfl⟩ := h
          exact ⟨s0, hk0, hcl0.symm, Nat.le_of_not_lt hlt⟩

theorem foldl_clusterStep_inv {t : Rat} {pts : List Pt} {cl : Nat → Nat} (hsep : Separated t pts cl)
    (g : List Item) : ∀ (P S : List Item) (L : List Nat),
    (∀ y ∈ P, ValidItem pts y) → (∀ y ∈ g, ValidItem pts y) → ClInv cl P S L →
    ClInv cl (P ++ g) (g.foldl (clusterStep t) (S, L)).1 (g.foldl (clusterStep t) (S, L)).2 := by
  induction g with
  | nil => intro P S L _ _ inv; simpa using inv
  | cons x g ih =>
    intro P S L hP hg inv
    have hx := hg x List.mem_cons_self
    have inv' := clusterStep_inv hsep hP hx inv
    have := ih (P ++ [x]) _ _ (by
      intro y hy
      rcases List.mem_append.mp hy with h | h
      · exact hP y h
      · simp only [List.mem_singleton] at h; subst h; exact hx)
      (fun y hy => hg y (List.mem_cons_of_mem _ hy)) inv'
    simpa [List.foldl_cons, List.append_assoc] using this

theorem uniqueInCluster_inv {t : Rat} {pts : List Pt} {cl : Nat → Nat} (hsep : Separated t pts cl)
    (g : List Item) (hg : ∀ y ∈ g, ValidItem pts y) :
    ClInv cl g (uniqueInCluster t g).1 (uniqueInCluster t g).2 := by
  have := foldl_clusterStep_inv hsep g [] [] [] (by simp) hg (ClInv.nil cl)
  simpa [uniqueInCluster] using this


/-! ### the loop over the norm clusters -/

/-- invariant of `combine`: `S` = all slots, `A` = scatter of `old_2_new` (slot numbers ≥ `off`) -/
structure GInv (cl : Nat → Nat) (off : Nat) (groups : List (List Item)) (S : List Item)
    (A : List (Nat × Nat)) : Prop where
  sub : ∀ s ∈ S, ∃ g ∈ groups, s ∈ g
  inj : ∀ (k k' : Nat) (s s' : Item), S[k]? = some s → S[k']? = some s' → cl s.1 = cl s'.1 → k = k'
  keys : A.map (·.1) = groups.flatten.map (·.1)
  asg : ∀ (i kk : Nat), (i, kk) ∈ A →
    off ≤ kk ∧ ∃ s : Item, S[kk - off]? = some s ∧ cl s.1 = cl i ∧ s.1 ≤ i

theorem combine_inv {t : Rat} {pts : List Pt} {cl : Nat → Nat} (hsep : Separated t pts cl)
    (groups : List (List Item)) : ∀ off : Nat,
    (∀ g ∈ groups, ∀ y ∈ g, ValidItem pts y) →
    groups.Pairwise (fun g g' => ∀ x ∈ g, ∀ y ∈ g', cl x.1 ≠ cl y.1) →
    GInv cl off groups (combine t off groups).1 (combine t off groups).2 := by
  induction groups with
  | nil => intro off _ _; exact ⟨by simp [combine], by simp [combine], by simp [combine], by simp [combine]⟩
  | cons g gs ih =>
    intro off hv hpw
    rw [List.pairwise_cons] at hpw
    have cinv := uniqueInCluster_inv hsep g (hv g List.mem_cons_self)
    have ginv := ih (off + (uniqueInCluster t g).1.length)
      (fun g' hg' => hv g' (List.mem_cons_of_mem _ hg')) hpw.2
    simp only [combine]
    generalize uniqueInCluster t g = r at cinv ginv ⊢
    generalize combine t (off + r.1.length) gs = r' at ginv ⊢
    refine ⟨?_, ?_, ?_, ?_⟩
    · intro s hs
      rcases List.mem_append.mp hs with h | h
      · exact ⟨g, List.mem_cons_self, cinv.sub s h⟩
      · obtain ⟨g', hg', hsg⟩ := ginv.sub s h
        exact ⟨g', List.mem_cons_of_mem _ hg', hsg⟩
    · intro k k' s s' hk hk' hcl
      simp only [List.getElem?_append] at hk hk'
      split at hk <;> split at hk'
      · exact cinv.inj k k' s s' hk hk' hcl
      · exfalso
        obtain ⟨g', hg', hsg⟩ := ginv.sub s' (List.mem_of_getElem? hk')
        exact hpw.1 g' hg' s (cinv.sub s (List.mem_of_getElem? hk)) s' hsg hcl
      · exfalso
        obtain ⟨g', hg', hsg⟩ := ginv.sub s (List.mem_of_getElem? hk)
        exact hpw.1 g' hg' s' (cinv.sub s' (List.mem_of_getElem? hk')) s hsg hcl.symm
      · have := ginv.inj _ _ s s' hk hk' hcl
        omega
    · simp only [List.map_append, List.flatten_cons, ginv.keys]
      congr 1
      rw [List.map_fst_zip]
      simp [cinv.len]
    · intro i kk h
      rcases List.mem_append.mp h with h | h
      · rw [List.zip_map, List.mem_map] at h
        obtain ⟨⟨x, k⟩, hxk, he⟩ := h
        simp only [Prod.map_apply, Prod.mk.injEq] at he
        obtain ⟨rfl, rfl⟩ := he
        obtain ⟨s, hs, h1, h2⟩ := cinv.asg x k hxk
        refine ⟨by omega, s, ?_, h1, h2⟩
        have hlt : k < r.1.length := (List.getElem?_eq_some_iff.mp hs).1
        rw [show k + off - off = k by omega, List.getElem?_append_left hlt]
        exact hs
      · obtain ⟨h0, s, hs, h1, h2⟩ := ginv.asg i kk h
        refine ⟨by omega, s, ?_, h1, h2⟩
        rw [List.getElem?_append_right (by omega)]
        rw [show kk - off - r.1.length = kk - (off + r.1.length) by omega]
        exact hs

theorem assoc_some_mem {A : List (Nat × Nat)} {i kk : Nat} (h : assoc A i = some kk) : (i, kk) ∈ A := by
  induction A with
  | nil => cases h
  | cons p A ih =>
    simp only [assoc] at h
    split at h
    · rename_i hp
      cases h
      obtain ⟨a, b⟩ := p
      simp only at hp
      subst hp
      exact List.mem_cons_self
    · exact List.mem_cons_of_mem _ (ih h)

theorem assoc_isSome_of_mem {A : List (Nat × Nat)} {i : Nat} (h : i ∈ A.map (·.1)) :
    ∃ kk, assoc A i = some kk := by
  induction A with
  | nil => cases h
  | cons p A ih =>
    simp only [assoc]
    split
    · exact ⟨_, rfl⟩
    · rename_i hp
      simp only [List.map_cons, List.mem_cons] at h
      rcases h with h | h
      · exact absurd h.symm hp
      · exact ih h


/-! ### assembling `uniquify_point_set` -/

/-- the slots and the scatter computed by the model for the chain rule -/
def chainState (t : Rat) (pts : List Pt) : List Item × List (Nat × Nat) :=
  combine t 0 (normClusters .chain t
    (isortBy (fun x y => decide (norm2 x.2 ≤ norm2 y.2)) (enumFrom 0 pts)))

/-- slot numbers ordered by the index of their point (`argsort(new_2_old)`) -/
def orderingOf (S : List Item) : List (Nat × Item) :=
  isortBy (fun a b => decide (a.2.1 ≤ b.2.1)) (enumFrom 0 S)

theorem uniquify_chain_eq (t : Rat) (pts : List Pt) :
    uniquify .chain t pts =
      { pts := (orderingOf (chainState t pts).1).map (·.2.2),
        new2old := (orderingOf (chainState t pts).1).map (·.2.1),
        old2new := (List.range pts.length).map (fun i =>
          ((orderingOf (chainState t pts).1).map (·.1)).idxOf ((assoc (chainState t pts).2 i).getD 0)) } := rfl

theorem chainState_core {t : Rat} {pts : List Pt} {cl : Nat → Nat} (hsep : Separated t pts cl) :
    (∀ s ∈ (chainState t pts).1, ValidItem pts s) ∧
    (∀ (k k' : Nat) (s s' : Item), (chainState t pts).1[k]? = some s →
        (chainState t pts).1[k']? = some s' → cl s.1 = cl s'.1 → k = k') ∧
    (∀ i, i < pts.length → ∃ (kk : Nat) (s : Item), assoc (chainState t pts).2 i = some kk ∧
        (chainState t pts).1[kk]? = some s ∧ cl s.1 = cl i ∧ s.1 ≤ i) := by
  unfold chainState
  generalize hsorted : isortBy (fun x y : Item => decide (norm2 x.2 ≤ norm2 y.2)) (enumFrom 0 pts) = sorted
  have hmem : ∀ x : Item, x ∈ sorted ↔ ValidItem pts x := by
    intro x
    rw [← hsorted, mem_isortBy]
    obtain ⟨i, p⟩ := x
    rw [mem_enumFrom]
    simp [ValidItem]
  have hsortedP : sorted.Pairwise (fun x y => norm2 x.2 ≤ norm2 y.2) := by
    rw [← hsorted]
    refine List.Pairwise.imp (fun h => of_decide_eq_true h)
      (isortBy_pairwise _ ?_ ?_ _)
    · intro a b
      rcases le_total (norm2 a.2) (norm2 b.2) with h | h
      · left; exact decide_eq_true h
      · right; exact decide_eq_true h
    · intro a b c h1 h2
      exact decide_eq_true (le_trans (of_decide_eq_true h1) (of_decide_eq_true h2))
  have hfl := normClusters_flatten .chain t sorted
  have hfar := normClusters_chain_far t sorted hsortedP
  generalize normClusters .chain t sorted = groups at hfl hfar
  have hvalid : ∀ g ∈ groups, ∀ y ∈ g, ValidItem pts y := by
    intro g hg y hy
    exact (hmem y).mp (by rw [← hfl]; exact List.mem_flatten.mpr ⟨g, hg, hy⟩)
  have hpw : groups.Pairwise (fun g g' => ∀ x ∈ g, ∀ y ∈ g', cl x.1 ≠ cl y.1) := by
    refine List.Pairwise.imp_of_mem ?_ hfar
    intro g g' hg hg' hF x hx y hy heq
    have hd := (hsep x.1 y.1 x.2 y.2 (hvalid g hg x hx) (hvalid g' hg' y hy)).mp heq
    have := hF x hx y hy
    rw [not_far_of_close hd] at this
    cases this
  have ginv := combine_inv hsep groups 0 hvalid hpw
  refine ⟨?_, ginv.inj, ?_⟩
  · intro s hs
    obtain ⟨g, hg, hsg⟩ := ginv.sub s hs
    exact hvalid g hg s hsg
  · intro i hi
    have hv : ValidItem pts (i, pts[i]) := by simp [ValidItem]
    have hin : i ∈ (combine t 0 groups).2.map (·.1) := by
      rw [ginv.keys, hfl]
      exact List.mem_map.mpr ⟨(i, pts[i]), (hmem _).mpr hv, rfl⟩
    obtain ⟨kk, hkk⟩ := assoc_isSome_of_mem hin
    obtain ⟨_, s, hs, h1, h2⟩ := ginv.asg i kk (assoc_some_mem hkk)
    exact ⟨kk, s, hkk, by simpa using hs, h1, h2⟩

/-- every slot holds the first-occurring member of its cluster -/
theorem slot_is_first {t : Rat} {pts : List Pt} {cl : Nat → Nat} (hsep : Separated t pts cl)
    {s : Item} (hs : s ∈ (chainState t pts).1) :
    s.1 < pts.length ∧ ∀ j, j < pts.length → cl j = cl s.1 → s.1 ≤ j := by
  obtain ⟨hv, hinj, hasg⟩ := chainState_core hsep
  refine ⟨(List.getElem?_eq_some_iff.mp (hv s hs)).1, ?_⟩
  intro j hj hcl
  obtain ⟨kk, s', _, hs', h1, h2⟩ := hasg j hj
  obtain ⟨k, hk⟩ := List.mem_iff_getElem?.mp hs
  have := hinj k kk s s' hk hs' (by rw [h1, hcl])
  subst this
  rw [hk] at hs'
  cases hs'
  exact h2

theorem mem_orderingOf {S : List Item} {k : Nat} {s : Item} :
    (k, s) ∈ orderingOf S ↔ S[k]? = some s := by
  unfold orderingOf
  rw [mem_isortBy, mem_enumFrom]
  simp

theorem orderingOf_perm (S : List Item) : (orderingOf S).Perm (enumFrom 0 S) := isortBy_perm _ _

theorem orderingOf_sorted (S : List Item) :
    ((orderingOf S).map (·.2.1)).Pairwise (· ≤ ·) := by
  rw [List.pairwise_map]
  refine List.Pairwise.imp (fun h => of_decide_eq_true h) (isortBy_pairwise _ ?_ ?_ _)
  · intro a b
    rcases Nat.le_total a.2.1 b.2.1 with h | h
    · left; exact decide_eq_true h
    · right; exact decide_eq_true h
  · intro a b c h1 h2
    exact decide_eq_true (Nat.le_trans (of_decide_eq_true h1) (of_decide_eq_true h2))

theorem mem_firsts {cl : Nat → Nat} {n i : Nat} :
    i ∈ firsts cl n ↔ i < n ∧ ∀ j, j < i → cl j ≠ cl i := by
  simp [firsts, List.mem_filter, List.all_eq_true]

theorem firsts_sorted (cl : Nat → Nat) (n : Nat) : (firsts cl n).Pairwise (· < ·) :=
  List.Pairwise.filter _ List.pairwise_lt_range

theorem eq_of_strict_sorted {l1 l2 : List Nat} (h1 : l1.Pairwise (· < ·)) (h2 : l2.Pairwise (· < ·))
    (h : ∀ a, a ∈ l1 ↔ a ∈ l2) : l1 = l2 := by
  induction l1 generalizing l2 with
  | nil =>
    cases l2 with
    | nil => rfl
    | cons b l2 => exact absurd ((h b).mpr List.mem_cons_self) (by simp)
  | cons a l1 ih =>
    cases l2 with
    | nil => exact absurd ((h a).mp List.mem_cons_self) (by simp)
    | cons b l2 =>
      rw [List.pairwise_cons] at h1 h2
      have hab : a = b := by
        rcases List.mem_cons.mp ((h a).mp List.mem_cons_self) with e | e
        · exact e
        · rcases List.mem_cons.mp ((h b).mpr List.mem_cons_self) with e' | e'
          · exact e'.symm
          · have := h1.1 b e'
            have := h2.1 a e
            omega
      subst hab
      congr 1
      refine ih h1.2 h2.2 ?_
      intro c
      constructor
      · intro hc
        rcases List.mem_cons.mp ((h c).mp (List.mem_cons_of_mem _ hc)) with e | e
        · have := h1.1 c hc; omega
        · exact e
      · intro hc
        rcases List.mem_cons.mp ((h c).mpr (List.mem_cons_of_mem _ hc)) with e | e
        · have := h2.1 c hc; omega
        · exact e

theorem slots_idx_nodup {cl : Nat → Nat} {S : List Item}
    (hinj : ∀ (k k' : Nat) (s s' : Item), S[k]? = some s → S[k']? = some s' → cl s.1 = cl s'.1 → k = k') :
    (S.map (·.1)).Nodup := by
  rw [List.nodup_iff_pairwise_ne, List.pairwise_map, List.pairwise_iff_getElem]
  intro i j hi hj hij heq
  have := hinj i j S[i] S[j] (List.getElem?_eq_getElem hi) (List.getElem?_eq_getElem hj) (by rw [heq])
  omega


theorem enumFrom_map_idx (k : Nat) (S : List Item) : (enumFrom k S).map (·.2.1) = S.map (·.1) := by
  induction S generalizing k with
  | nil => rfl
  | cons y l ih => simp [enumFrom, ih]

theorem new2old_nodup {t : Rat} {pts : List Pt} {cl : Nat → Nat} (hsep : Separated t pts cl) :
    ((orderingOf (chainState t pts).1).map (·.2.1)).Nodup := by
  have hp := (orderingOf_perm (chainState t pts).1).map (·.2.1)
  rw [hp.nodup_iff, enumFrom_map_idx]
  exact slots_idx_nodup (chainState_core hsep).2.1

theorem new2old_chain_eq_firsts {t : Rat} {pts : List Pt} {cl : Nat → Nat} (hsep : Separated t pts cl) :
    (orderingOf (chainState t pts).1).map (·.2.1) = firsts cl pts.length := by
  obtain ⟨hv, hinj, hasg⟩ := chainState_core hsep
  refine eq_of_strict_sorted ?_ (firsts_sorted cl _) ?_
  · have h1 := orderingOf_sorted (chainState t pts).1
    have h2 := List.nodup_iff_pairwise_ne.mp (new2old_nodup hsep)
    exact (h1.and h2).imp (fun h => Nat.lt_of_le_of_ne h.1 h.2)
  · intro a
    rw [mem_firsts]
    constructor
    · intro ha
      obtain ⟨⟨k, s⟩, hks, rfl⟩ := List.mem_map.mp ha
      have hsS : s ∈ (chainState t pts).1 := List.mem_of_getElem? (mem_orderingOf.mp hks)
      obtain ⟨h1, h2⟩ := slot_is_first hsep hsS
      refine ⟨h1, ?_⟩
      intro j hj hcl
      have hj' : j < s.1 := hj
      have := h2 j (by omega) hcl
      omega
    · rintro ⟨han, hfirst⟩
      obtain ⟨kk, s, _, hs, h1, h2⟩ := hasg a han
      have : s.1 = a := by
        rcases Nat.lt_or_eq_of_le h2 with h | h
        · exact absurd h1 (hfirst s.1 h)
        · exact h
      exact List.mem_map.mpr ⟨(kk, s), mem_orderingOf.mpr hs, this⟩


theorem lookup_slot {S : List Item} {kk : Nat} {s : Item} (hs : S[kk]? = some s) :
    ((orderingOf S).map (·.2.1))[((orderingOf S).map (·.1)).idxOf kk]? = some s.1 := by
  have hmem : kk ∈ (orderingOf S).map (·.1) :=
    List.mem_map.mpr ⟨(kk, s), mem_orderingOf.mpr hs, rfl⟩
  have hr : ((orderingOf S).map (·.1)).idxOf kk < ((orderingOf S).map (·.1)).length :=
    List.idxOf_lt_length_of_mem hmem
  have hget := List.getElem_idxOf hr
  generalize ((orderingOf S).map (·.1)).idxOf kk = r at hr hget
  have hr' : r < (orderingOf S).length := by simpa using hr
  rw [List.getElem_map] at hget
  have hin : (orderingOf S)[r] ∈ orderingOf S := List.getElem_mem hr'
  have hpair : (orderingOf S)[r] = (kk, ((orderingOf S)[r]).2) := by
    rw [← hget]
  rw [hpair] at hin
  have := mem_orderingOf.mp hin
  rw [hs] at this
  have hs2 : ((orderingOf S)[r]).2 = s := (Option.some.inj this).symm
  rw [List.getElem?_map, List.getElem?_eq_getElem hr']
  simp [hs2]


/-! ### `ismember_columns` -/

theorem mem_dedup {α : Type} [DecidableEq α] {x : α} {l : List α} : x ∈ dedup l ↔ x ∈ l := by
  induction l with
  | nil => simp [dedup]
  | cons c l ih =>
    simp only [dedup]
    split
    · rename_i hc
      rw [ih, List.mem_cons]
      constructor
      · exact Or.inr
      · rintro (rfl | h)
        · exact hc
        · exact h
    · simp [List.mem_cons, ih]

theorem dedup_sublist {α : Type} [DecidableEq α] (l : List α) : (dedup l).Sublist l := by
  induction l with
  | nil => exact List.Sublist.slnil
  | cons c l ih =>
    simp only [dedup]
    split
    · exact List.Sublist.cons _ ih
    · exact List.Sublist.cons_cons _ ih

theorem nodup_dedup {α : Type} [DecidableEq α] (l : List α) : (dedup l).Nodup := by
  induction l with
  | nil => simp [dedup]
  | cons c l ih =>
    simp only [dedup]
    split
    · exact ih
    · rename_i hc
      exact List.nodup_cons.mpr ⟨fun h => hc (mem_dedup.mp h), ih⟩

theorem idxOf_eq_iff {α : Type} [BEq α] [LawfulBEq α] {u : List α} {c d : α} (hc : c ∈ u) :
    u.idxOf c = u.idxOf d ↔ c = d := by
  constructor
  · intro h
    have h1 : u.idxOf c < u.length := List.idxOf_lt_length_of_mem hc
    have h2 : u.idxOf d < u.length := h ▸ h1
    have e1 := List.getElem_idxOf h1
    have e2 := List.getElem_idxOf h2
    rw [← e1, ← e2]
    simp [h]
  · rintro rfl; rfl

/-- reading the first position of `f c` in `b.map f` is a first-match search in `b` when `f`
    separates `c` from the elements of `b` exactly as the predicate does -/
theorem idxOf_map_eq_findIdx {α : Type} (f : α → Nat) (p : α → Bool) (v : Nat) (b : List α)
    (h : ∀ d ∈ b, (f d = v ↔ p d = true)) : (b.map f).idxOf v = b.findIdx p := by
  induction b with
  | nil => simp
  | cons d b ih =>
    have hd := h d List.mem_cons_self
    have ih' := ih (fun d' hd' => h d' (List.mem_cons_of_mem _ hd'))
    simp only [List.map_cons, List.idxOf_cons, List.findIdx_cons]
    by_cases hp : p d = true
    · simp [hp, hd.mpr hp]
    · have : ¬ f d = v := fun e => hp (hd.mp e)
      have hb : (f d == v) = false := by simpa using this
      simp [hp, hb, ih']

theorem contains_map_iff_any {α : Type} (f : α → Nat) (p : α → Bool) (v : Nat) (b : List α)
    (h : ∀ d ∈ b, (f d = v ↔ p d = true)) : (b.map f).contains v = b.any p := by
  induction b with
  | nil => simp
  | cons d b ih =>
    have hd := h d List.mem_cons_self
    have ih' := ih (fun d' hd' => h d' (List.mem_cons_of_mem _ hd'))
    simp only [List.map_cons, List.contains_cons, List.any_cons, ih']
    by_cases hp : p d = true
    · simp [hp, hd.mpr hp]
    · have : ¬ f d = v := fun e => hp (hd.mp e)
      have hp' : p d = false := by simpa using hp
      simp [hp', Ne.symm this]

theorem map_filter_pipeline {α : Type} (a : List α) (h : α → Nat) (P : Nat → Bool) (Q : α → Bool)
    (F : Nat → Nat) (G : α → Nat) (hPQ : ∀ c ∈ a, P (h c) = Q c) (hFG : ∀ c ∈ a, F (h c) = G c) :
    (a.map h).map P = a.map Q ∧ ((a.map h).filter P).map F = (a.filter Q).map G := by
  induction a with
  | nil => simp
  | cons c a ih =>
    obtain ⟨ih1, ih2⟩ := ih (fun c' hc' => hPQ c' (List.mem_cons_of_mem _ hc'))
      (fun c' hc' => hFG c' (List.mem_cons_of_mem _ hc'))
    have h1 := hPQ c List.mem_cons_self
    have h2 := hFG c List.mem_cons_self
    refine ⟨by simp [h1, ih1], ?_⟩
    simp only [List.map_cons, List.filter_cons, h1]
    cases Q c
    · simpa using ih2
    · simp [h2, ih2]

theorem ismember_eq_brute' (a b : List Col) (sort : Bool) : ismember a b sort = bruteMember a b sort := by
  unfold ismember bruteMember
  simp only
  generalize hu : dedup (isortBy lexLe (a.map (colKey sort) ++ b.map (colKey sort))) = u
  have hmemu : ∀ c, c ∈ a ∨ c ∈ b → colKey sort c ∈ u := by
    intro c hc
    rw [← hu, mem_dedup, mem_isortBy, List.mem_append, List.mem_map, List.mem_map]
    rcases hc with h | h
    · exact Or.inl ⟨c, h, rfl⟩
    · exact Or.inr ⟨c, h, rfl⟩
  have eA : (a.map (colKey sort)).map (fun c => u.idxOf c) = a.map (fun c => u.idxOf (colKey sort c)) := by
    rw [List.map_map]; rfl
  have eB : (b.map (colKey sort)).map (fun c => u.idxOf c) = b.map (fun c => u.idxOf (colKey sort c)) := by
    rw [List.map_map]; rfl
  rw [eA, eB]
  have hsep : ∀ c, c ∈ a → ∀ d ∈ b, (u.idxOf (colKey sort d) = u.idxOf (colKey sort c) ↔
      decide (colKey sort c = colKey sort d) = true) := by
    intro c _ d hd
    rw [decide_eq_true_iff]
    exact ⟨fun h => ((idxOf_eq_iff (hmemu d (Or.inr hd))).mp h).symm, fun h => by rw [h]⟩
  have := map_filter_pipeline a (fun c => u.idxOf (colKey sort c))
    (fun i => (b.map (fun c => u.idxOf (colKey sort c))).contains i)
    (fun c => b.any (fun d => decide (colKey sort c = colKey sort d)))
    (fun i => (b.map (fun c => u.idxOf (colKey sort c))).idxOf i)
    (fun c => b.findIdx (fun d => decide (colKey sort c = colKey sort d)))
    (fun c hc => contains_map_iff_any _ _ _ b (hsep c hc))
    (fun c hc => idxOf_map_eq_findIdx _ _ _ b (hsep c hc))
  rw [this.1, this.2]

/-! sorted columns are equal iff the columns are permutations of each other -/

theorem eq_of_perm_sorted {l1 l2 : List Int} (h1 : l1.Pairwise (· ≤ ·)) (h2 : l2.Pairwise (· ≤ ·))
    (h : l1.Perm l2) : l1 = l2 := by
  induction l1 generalizing l2 with
  | nil => exact (List.Perm.nil_eq h)
  | cons a l1 ih =>
    cases l2 with
    | nil => exact absurd h.length_eq (by simp)
    | cons b l2 =>
      rw [List.pairwise_cons] at h1 h2
      have hab : a = b := by
        rcases List.mem_cons.mp (h.mem_iff.mp List.mem_cons_self) with e | e
        · exact e
        · rcases List.mem_cons.mp (h.mem_iff.mpr List.mem_cons_self) with e' | e'
          · exact e'.symm
          · have := h1.1 b e'
            have := h2.1 a e
            omega
      subst hab
      congr 1
      exact ih h1.2 h2.2 (List.Perm.cons_inv h)

theorem sortCol_sorted (c : Col) : (sortCol c).Pairwise (· ≤ ·) := by
  unfold sortCol
  refine List.Pairwise.imp (fun h => of_decide_eq_true h) (isortBy_pairwise _ ?_ ?_ _)
  · intro a b
    rcases Int.le_total a b with h | h
    · left; exact decide_eq_true h
    · right; exact decide_eq_true h
  · intro a b c h1 h2
    exact decide_eq_true (Int.le_trans (of_decide_eq_true h1) (of_decide_eq_true h2))

theorem sortCol_eq_iff_perm' (c d : Col) : sortCol c = sortCol d ↔ c.Perm d := by
  constructor
  · intro h
    have h1 : (sortCol c).Perm c := isortBy_perm _ _
    have h2 : (sortCol d).Perm d := isortBy_perm _ _
    exact h1.symm.trans (h ▸ h2)
  · intro h
    have h1 : (sortCol c).Perm c := isortBy_perm _ _
    have h2 : (sortCol d).Perm d := isortBy_perm _ _
    exact eq_of_perm_sorted (sortCol_sorted c) (sortCol_sorted d) (h1.trans (h.trans h2.symm))


/-! ### `intersect_sets` -/

theorem enumFrom_fst_sorted {α : Type} (k : Nat) (l : List α) :
    (enumFrom k l).Pairwise (fun a b => a.1 < b.1) := by
  induction l generalizing k with
  | nil => simp [enumFrom]
  | cons x l ih =>
    simp only [enumFrom]
    refine List.Pairwise.cons ?_ (ih (k + 1))
    rintro ⟨i, y⟩ hy
    have := (mem_enumFrom.mp hy).1
    show k < i
    omega

theorem mem_filter_enum_fst {α : Type} (l : List α) (p : α → Bool) (i : Nat) :
    i ∈ ((enumFrom 0 l).filter (fun r => p r.2)).map (·.1) ↔ ∃ x, l[i]? = some x ∧ p x = true := by
  rw [List.mem_map]
  constructor
  · rintro ⟨⟨i', x⟩, h, rfl⟩
    rw [List.mem_filter, mem_enumFrom] at h
    exact ⟨x, by simpa using h.1.2, h.2⟩
  · rintro ⟨x, hx, hp⟩
    exact ⟨(i, x), List.mem_filter.mpr ⟨mem_enumFrom.mpr ⟨Nat.zero_le _, by simpa using hx⟩, hp⟩, rfl⟩

theorem filter_enum_fst_sorted {α : Type} (l : List α) (p : Nat × α → Bool) :
    (((enumFrom 0 l).filter p).map (·.1)).Pairwise (· < ·) := by
  rw [List.pairwise_map]
  exact List.Pairwise.filter _ (enumFrom_fst_sorted 0 l)

theorem mem_neighbours {t : Rat} {b : List Pt} {p : Pt} {j : Nat} :
    j ∈ neighbours t b p ↔ ∃ q, b[j]? = some q ∧ dist2 p q ≤ t * t := by
  unfold neighbours
  rw [mem_filter_enum_fst b (fun q => decide (dist2 p q ≤ t * t)) j]
  simp

theorem dedup_sorted_strict (l : List Nat) :
    (dedup (isortBy (fun x y => decide (x ≤ y)) l)).Pairwise (· < ·) := by
  have hs : (isortBy (fun x y : Nat => decide (x ≤ y)) l).Pairwise (· ≤ ·) := by
    refine List.Pairwise.imp (fun h => of_decide_eq_true h) (isortBy_pairwise _ ?_ ?_ _)
    · intro a b
      rcases Nat.le_total a b with h | h
      · left; exact decide_eq_true h
      · right; exact decide_eq_true h
    · intro a b c h1 h2
      exact decide_eq_true (Nat.le_trans (of_decide_eq_true h1) (of_decide_eq_true h2))
  have h1 := List.Pairwise.sublist (dedup_sublist _) hs
  have h2 := List.nodup_iff_pairwise_ne.mp (nodup_dedup (isortBy (fun x y : Nat => decide (x ≤ y)) l))
  exact (h1.and h2).imp (fun h => Nat.lt_of_le_of_ne h.1 h.2)

/-! ### squared triangle inequality -/

theorem dist2_nil_right (p : Pt) : dist2 p [] = norm2 p := by
  cases p <;> simp [dist2, norm2]

theorem dist2_le_two_norms (q r : Pt) : dist2 q r ≤ 2 * (norm2 q + norm2 r) := by
  induction q generalizing r with
  | nil => simp only [dist2, norm2]; nlinarith [norm2_nonneg r]
  | cons y q ih =>
    cases r with
    | nil => simp only [dist2, norm2]; nlinarith [norm2_nonneg q, mul_self_nonneg y]
    | cons z r =>
      simp only [dist2, norm2]
      nlinarith [ih r, mul_self_nonneg (y + z)]

/-- triangle inequality in squared (parallelogram) form -/
theorem dist2_triangle (p q r : Pt) : dist2 q r ≤ 2 * (dist2 p q + dist2 p r) := by
  induction p generalizing q r with
  | nil => simp only [dist2]; exact dist2_le_two_norms q r
  | cons x p ih =>
    cases q with
    | nil =>
      cases r with
      | nil => simp only [dist2, norm2]; nlinarith [norm2_nonneg p, mul_self_nonneg x]
      | cons z r =>
        have := ih [] r
        simp only [dist2, norm2, dist2_nil_right] at this ⊢
        nlinarith [mul_self_nonneg (2 * x - z)]
    | cons y q =>
      cases r with
      | nil =>
        have := ih q []
        simp only [dist2, dist2_nil_right] at this ⊢
        nlinarith [mul_self_nonneg (2 * x - y)]
      | cons z r =>
        have := ih q r
        simp only [dist2]
        nlinarith [mul_self_nonneg (2 * x - y - z)]


/-! ### anchor rule versus chain rule -/

theorem consHead_inj {α : Type} {x : α} {G G' : List (List α)} (hG : G ≠ []) (hG' : G' ≠ [])
    (h : consHead x G = consHead x G') : G = G' := by
  cases G with
  | nil => exact absurd rfl hG
  | cons g gs =>
    cases G' with
    | nil => exact absurd rfl hG'
    | cons g' gs' =>
      simp only [consHead, List.cons.injEq] at h
      obtain ⟨⟨_, h1⟩, h2⟩ := h
      rw [h1, h2]

theorem consHead_head_ne_nil {α : Type} (x : α) (G : List (List α)) :
    ∀ g gs, consHead x G = g :: gs → g ≠ [] := by
  intro g gs h
  cases G with
  | nil => simp only [consHead, List.cons.injEq] at h; rw [← h.1]; simp
  | cons g0 gs0 => simp only [consHead, List.cons.injEq] at h; rw [← h.1]; simp

/-- the two walks coincide exactly when the two rules take the same decision at every step -/
theorem walk_anchor_eq_chain_iff (t : Rat) (items : List Item) : ∀ ra rp : Rat,
    walk .anchor t ra items = walk .chain t rp items ↔
      rulesAgree t ra rp (items.map (fun x => norm2 x.2)) = true := by
  induction items with
  | nil => intro ra rp; simp [walk, rulesAgree]
  | cons x rest ih =>
    intro ra rp
    simp only [walk, List.map_cons, rulesAgree, Bool.and_eq_true, beq_iff_eq]
    by_cases h1 : normFar t ra (norm2 x.2) = true <;> by_cases h2 : normFar t rp (norm2 x.2) = true
    · simp only [h1, h2, if_true, true_and, List.cons.injEq]
      rw [← ih (norm2 x.2) (norm2 x.2)]
      constructor
      · intro h; exact consHead_inj (walk_ne_nil _ _ _ _) (walk_ne_nil _ _ _ _) h
      · intro h; rw [h]
    · have h2' : normFar t rp (norm2 x.2) = false := by simpa using h2
      simp only [h1, h2', if_true, Bool.false_eq_true, if_false]
      constructor
      · intro h
        exfalso
        have := consHead_head_ne_nil x (walk .chain t (norm2 x.2) rest) [] _ h.symm
        exact this rfl
      · intro h; exact absurd h.1 (by simp)
    · have h1' : normFar t ra (norm2 x.2) = false := by simpa using h1
      simp only [h1', h2, if_true, Bool.false_eq_true, if_false]
      constructor
      · intro h
        exfalso
        have := consHead_head_ne_nil x (walk .anchor t ra rest) [] _ h
        exact this rfl
      · intro h; exact absurd h.1 (by simp)
    · have h1' : normFar t ra (norm2 x.2) = false := by simpa using h1
      have h2' : normFar t rp (norm2 x.2) = false := by simpa using h2
      simp only [h1', h2', true_and, Bool.false_eq_true, if_false]
      rw [← ih ra (norm2 x.2)]
      constructor
      · intro h; exact consHead_inj (walk_ne_nil _ _ _ _) (walk_ne_nil _ _ _ _) h
      · intro h
        have : walk .anchor t ra rest = walk .chain t (norm2 x.2) rest := by simpa using h
        simp [this]

end PorepyVerif.C34
