/-
C34 — executable model of `porepy.utils.array_operations.uniquify_point_set` /
`_unique_points_in_cluster`, `ismember_columns`, `intersect_sets`, and of the wrapper
`porepy.fracs.utils.uniquify_points` (core Lean only).

Numbers are rationals; no square root enters the model:
* "‖p − q‖ < tol" is the test `dist2 p q < tol * tol` (this is literally what the code computes),
* the norm pre-clustering test `abs(cluster_norm - current_norm) > tol` is the rational test
  `normFar` on SQUARED norms (for `0 ≤ tol`, `a ≤ b`:  √b − √a > tol  ⇔  b − a − tol² > 0 ∧
  (b − a − tol²)² > 4·tol²·a).

The norm pre-clustering rule is a PARAMETER (`Rule`):
* `Rule.anchor` is what the code does today: a norm cluster is anchored on its FIRST norm
  (`cluster_norm` is only updated when a new cluster is opened),
* `Rule.chain` compares each norm with the PREVIOUS one (the proposed repair,
  fixes/C34-norm-chain.diff).  The property theorems are proved for `Rule.chain`;
  `Props.lean` contains the `decide` witness that they fail for `Rule.anchor` (finding F4).
-/
namespace PorepyVerif.C34

/-! ### points, squared norms and distances -/

/-- a point = one column of the `nd × n_pts` array -/
abbrev Pt := List Rat
/-- a column together with its index in the input array (`sorted_idx[i]`, `points[:, sorted_idx[i]]`) -/
abbrev Item := Nat × Pt

def norm2 : Pt → Rat
  | [] => 0
  | x :: p => x * x + norm2 p

def dot : Pt → Pt → Rat
  | [], _ => 0
  | _ :: _, [] => 0
  | x :: p, y :: q => x * y + dot p q

/-- squared Euclidean distance (`np.sum((col - other) ** 2)`); columns of different length are
    padded with zeros so that the function is total and all identities hold unconditionally -/
def dist2 : Pt → Pt → Rat
  | [], q => norm2 q
  | x :: p, [] => x * x + norm2 p
  | x :: p, y :: q => (x - y) * (x - y) + dist2 p q

/-- `np.sum((col - other) ** 2) < tol ** 2` -/
def within (t : Rat) (p q : Pt) : Bool := decide (dist2 p q < t * t)

/-! ### generic list helpers (structural recursion only) -/

/-- stable insertion: `x` goes before the first `y` with `le x y` -/
def insertBy (le : α → α → Bool) (x : α) : List α → List α
  | [] => [x]
  | y :: l => if le x y then x :: y :: l else y :: insertBy le x l

/-- stable insertion sort (models `np.argsort` / `np.sort`; ties keep input order) -/
def isortBy (le : α → α → Bool) : List α → List α
  | [] => []
  | x :: l => insertBy le x (isortBy le l)

/-- `enumerate(l, start=k)` -/
def enumFrom : Nat → List α → List (Nat × α)
  | _, [] => []
  | k, x :: l => (k, x) :: enumFrom (k + 1) l

/-- first-match lookup in an association list (scatter `arr[keys] = vals` read back) -/
def assoc : List (Nat × Nat) → Nat → Option Nat
  | [], _ => none
  | p :: l, i => if p.1 = i then some p.2 else assoc l i

/-- keep one copy of every element (on a sorted list the result is sorted) -/
def dedup [DecidableEq α] : List α → List α
  | [] => []
  | c :: l => if c ∈ l then dedup l else c :: dedup l

/-! ### norm pre-clustering -/

/-- for squared norms `a ≤ b`:  √b − √a > t  (t ≥ 0), without square roots -/
def farLe (t a b : Rat) : Bool :=
  decide (0 < b - a - t * t) && decide (4 * (t * t) * a < (b - a - t * t) * (b - a - t * t))

/-- `abs(cluster_norm - current_norm) > tol` on squared norms -/
def normFar (t a b : Rat) : Bool := if a ≤ b then farLe t a b else farLe t b a

inductive Rule where
  /-- current code: compare with the first norm of the running cluster -/
  | anchor
  /-- repaired code: compare with the previous norm -/
  | chain
  deriving DecidableEq, Repr

def consHead (x : α) : List (List α) → List (List α)
  | [] => [[x]]
  | g :: gs => (x :: g) :: gs

/-- The cluster walk over the norm-sorted items.  `ref` is `cluster_norm`.  The result is the list
    of norm clusters of the remaining items; its head is the continuation of the caller's running
    cluster (this replaces the counting array `close_norms_count` + consecutive slices). -/
def walk (rule : Rule) (t : Rat) : Rat → List Item → List (List Item)
  | _, [] => [[]]
  | ref, x :: rest =>
    if normFar t ref (norm2 x.2) then
      [] :: consHead x (walk rule t (norm2 x.2) rest)
    else
      consHead x (walk rule t (match rule with | .chain => norm2 x.2 | .anchor => ref) rest)

def normClusters (rule : Rule) (t : Rat) (sorted : List Item) : List (List Item) :=
  match sorted with
  | [] => []
  | x :: _ => walk rule t (norm2 x.2) sorted

/-! ### `_unique_points_in_cluster` -/

/-- `np.any(within_tol)` / `np.argmax(within_tol)`: first stored unique point within tolerance,
    with its slot number -/
def findSlot (t : Rat) (col : Pt) : List Item → Option (Nat × Item)
  | [] => none
  | s :: ss =>
    if within t col s.2 then some (0, s)
    else (findSlot t col ss).map (fun r => (r.1 + 1, r.2))

/-- one iteration of the loop over the cluster.  State: the slots (`new_2_old[:keep]` together
    with `unique_cols[:, :keep]`, which the code always writes together) and the local
    `old_2_new` filled so far. -/
def clusterStep (t : Rat) (st : List Item × List Nat) (x : Item) : List Item × List Nat :=
  match findSlot t x.2 st.1 with
  | none => (st.1 ++ [x], st.2 ++ [st.1.length])
  | some (k, s) => (if x.1 < s.1 then st.1.set k x else st.1, st.2 ++ [k])

def uniqueInCluster (t : Rat) (g : List Item) : List Item × List Nat :=
  g.foldl (clusterStep t) ([], [])

/-! ### `uniquify_point_set` -/

/-- the loop over the norm clusters; `off` is `num_unique`.  Returns all slots and the scatter
    `old_2_new[sorted_idx[cluster]] = old_2_new_inner + num_unique` as an association list. -/
def combine (t : Rat) : Nat → List (List Item) → List Item × List (Nat × Nat)
  | _, [] => ([], [])
  | off, g :: gs =>
    let r := uniqueInCluster t g
    let r' := combine t (off + r.1.length) gs
    (r.1 ++ r'.1, (g.map (·.1)).zip (r.2.map (· + off)) ++ r'.2)

structure Result where
  pts : List Pt
  new2old : List Nat
  old2new : List Nat
  deriving DecidableEq, Repr

def uniquify (rule : Rule) (t : Rat) (points : List Pt) : Result :=
  let items := enumFrom 0 points
  -- sorted_idx = argsort(point_norms)
  let sorted := isortBy (fun x y => decide (norm2 x.2 ≤ norm2 y.2)) items
  let groups := normClusters rule t sorted
  let r := combine t 0 groups
  -- ordering = argsort(new_2_old): slot numbers ordered by the index of their point
  let ordering := isortBy (fun a b => decide (a.2.1 ≤ b.2.1)) (enumFrom 0 r.1)
  -- lookup[ordering] = arange(len(ordering))
  let lookup := fun k => (ordering.map (·.1)).idxOf k
  { pts := ordering.map (·.2.2),
    new2old := ordering.map (·.2.1),
    old2new := (List.range points.length).map (fun i => lookup ((assoc r.2 i).getD 0)) }

/-! ### when do the two pre-clustering rules agree? -/

/-- The decisions "open a new norm cluster" of the anchor rule (reference `ra` = first norm of the
    running cluster) and of the chain rule (reference `rp` = previous norm) coincide at every step
    of the walk over the sorted squared norms. -/
def rulesAgree (t : Rat) : Rat → Rat → List Rat → Bool
  | _, _, [] => true
  | ra, rp, a :: rest =>
    (normFar t ra a == normFar t rp a) && rulesAgree t (if normFar t ra a then a else ra) a rest

/-- decidable condition on the input: both rules produce the same norm clusters -/
def anchorAgrees (t : Rat) (points : List Pt) : Bool :=
  match (isortBy (fun x y : Item => decide (norm2 x.2 ≤ norm2 y.2)) (enumFrom 0 points)).map
      (fun x => norm2 x.2) with
  | [] => true
  | a :: rest => rulesAgree t a a (a :: rest)

/-! ### specification vocabulary -/

/-- The separation hypothesis of the property: `cl i` is the cluster of point `i`, and two points
    are closer than `tol` exactly when they belong to the same cluster.  (Implied by "cluster
    diameter < ε·tol with ε ≤ 1, different clusters farther apart than tol", see
    `separated_of_margins`.) -/
def Separated (t : Rat) (points : List Pt) (cl : Nat → Nat) : Prop :=
  ∀ i j p q, points[i]? = some p → points[j]? = some q → (cl i = cl j ↔ dist2 p q < t * t)

/-- decidable form of `Separated` for a list of labels (used for concrete witnesses) -/
def separatedB (t : Rat) (points : List Pt) (labels : List Nat) : Bool :=
  (enumFrom 0 points).all (fun x => (enumFrom 0 points).all (fun y =>
    decide (labels.getD x.1 0 = labels.getD y.1 0) == decide (dist2 x.2 y.2 < t * t)))

/-- indices, ascending, of the first-occurring member of every cluster among points `0..n-1` -/
def firsts (cl : Nat → Nat) (n : Nat) : List Nat :=
  (List.range n).filter (fun i => (List.range i).all (fun j => cl j != cl i))

/-- the two endpoints of an edge `[start, end, tags…]` lie in the same cluster -/
def sameCluster (cl : Nat → Nat) (e : List Nat) : Bool :=
  match e with
  | a :: b :: _ => decide (cl a = cl b)
  | _ => false

/-! ### `fracs.utils.uniquify_points` (edges are columns `[start, end, tags…]`) -/

def mapEdge (o2n : List Nat) (e : List Nat) : List Nat :=
  match e with
  | a :: b :: tags => o2n.getD a 0 :: o2n.getD b 0 :: tags
  | _ => e

def isPointEdge (e : List Nat) : Bool :=
  match e with
  | a :: b :: _ => a == b
  | _ => false

/-- returns (unique points, surviving edges, indices of the deleted point edges) -/
def uniquifyPoints (rule : Rule) (t : Rat) (points : List Pt) (edges : List (List Nat)) :
    List Pt × List (List Nat) × List Nat :=
  let r := uniquify rule t points
  let es := edges.map (mapEdge r.old2new)
  (r.pts, es.filter (fun e => !isPointEdge e),
   ((enumFrom 0 es).filter (fun p => isPointEdge p.2)).map (·.1))

/-! ### `ismember_columns` (integer columns) -/

abbrev Col := List Int

/-- lexicographic order on columns, as used by `np.unique(..., axis=1)` -/
def lexLe : Col → Col → Bool
  | [], _ => true
  | _ :: _, [] => false
  | a :: as, b :: bs => if a < b then true else if b < a then false else lexLe as bs

/-- `np.sort(a, axis=0)` on one column -/
def sortCol (c : Col) : Col := isortBy (fun x y => decide (x ≤ y)) c

/-- `sort=True` compares sorted columns -/
def colKey (sort : Bool) (c : Col) : Col := if sort then sortCol c else c

/-- `ismember_columns(a, b, sort)`: (`ismem_a`, `ia`).
    `ind` = position in `np.unique(hstack(sa, sb), axis=1)`; `np.isin`; the
    argsort/searchsorted trick returns, for every member column, the first position of its
    `ind` value in `ind_b` (for a stable argsort). -/
def ismember (a b : List Col) (sort : Bool) : List Bool × List Nat :=
  let sa := a.map (colKey sort)
  let sb := b.map (colKey sort)
  let u := dedup (isortBy lexLe (sa ++ sb))
  let indA := sa.map (fun c => u.idxOf c)
  let indB := sb.map (fun c => u.idxOf c)
  (indA.map (fun i => indB.contains i),
   (indA.filter (fun i => indB.contains i)).map (fun i => indB.idxOf i))

/-- brute-force specification: compare every column of `a` with every column of `b` -/
def bruteMember (a b : List Col) (sort : Bool) : List Bool × List Nat :=
  (a.map (fun c => b.any (fun d => decide (colKey sort c = colKey sort d))),
   (a.filter (fun c => b.any (fun d => decide (colKey sort c = colKey sort d)))).map
     (fun c => b.findIdx (fun d => decide (colKey sort c = colKey sort d))))

/-! ### `intersect_sets` (brute-force semantics of the KD-tree ball query, radius inclusive) -/

/-- indices (ascending) of the points of `b` within distance `t` of `p` -/
def neighbours (t : Rat) (b : List Pt) (p : Pt) : List Nat :=
  ((enumFrom 0 b).filter (fun q => decide (dist2 p q.2 ≤ t * t))).map (·.1)

structure Inter where
  ia : List Nat
  ib : List Nat
  aInB : List Bool
  inter : List (List Nat)
  deriving DecidableEq, Repr

def intersectSets (t : Rat) (a b : List Pt) : Inter :=
  let inter := a.map (neighbours t b)
  { ia := ((enumFrom 0 inter).filter (fun r => !r.2.isEmpty)).map (·.1),
    ib := dedup (isortBy (fun x y => decide (x ≤ y)) inter.flatten),
    aInB := inter.map (fun l => !l.isEmpty),
    inter := inter }

end PorepyVerif.C34
