import PorepyVerif.C34.Props
#print axioms PorepyVerif.C34.separated_of_margins
#print axioms PorepyVerif.C34.separated_of_check
#print axioms PorepyVerif.C34.uniq_first_member
#print axioms PorepyVerif.C34.uniq_order_first_occurrence
#print axioms PorepyVerif.C34.uniq_points
#print axioms PorepyVerif.C34.uniq_maps_consistent
#print axioms PorepyVerif.C34.uniq_one_per_cluster
#print axioms PorepyVerif.C34.uniq_old2new_new2old
#print axioms PorepyVerif.C34.uniq_old2new_eq_iff
#print axioms PorepyVerif.C34.uniquifyPoints_edges
#print axioms PorepyVerif.C34.ismember_eq_brute
#print axioms PorepyVerif.C34.sortCol_eq_iff_perm
#print axioms PorepyVerif.C34.ismember_spec
#print axioms PorepyVerif.C34.intersect_spec
#print axioms PorepyVerif.C34.intersect_unique_match
#print axioms PorepyVerif.C34.anchor_rule_splits_cluster
