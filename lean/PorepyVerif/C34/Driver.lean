/- C34 line-protocol driver: `lake env lean --run PorepyVerif/C34/Driver.lean` -/
import PorepyVerif.Common.Wire
import PorepyVerif.C34.Model
open Lean PV PorepyVerif.C34

def parseRule (j : Json) : R Rule :=
  match fieldD j "rule" (Json.str "chain") with
  | .str "chain" => pure Rule.chain
  | .str "anchor" => pure Rule.anchor
  | r => throw s!"unknown rule {r.compress}"

def getTol (j : Json) : R Rat := do
  let t ← fRat j "tol"
  if t < 0 then throw "negative tolerance is outside the model" else pure t

def step (j : Json) : R Json := do
  let op ← fStr j "op"
  match op with
  | "uniquify" =>
    let pts ← fRatss j "points"
    let t ← getTol j
    let rule ← parseRule j
    let r := uniquify rule t pts
    let base := [("pts", ofList ofRats r.pts), ("new_2_old", ofNats r.new2old), ("old_2_new", ofNats r.old2new)]
    -- optionally also what the rule of the current code computes, and whether the two rules agree
    if (fieldD j "with_anchor" (Json.bool false)) == Json.bool true then
      let ra := uniquify Rule.anchor t pts
      pure (obj (base ++ [("anchor", obj [("pts", ofList ofRats ra.pts), ("new_2_old", ofNats ra.new2old),
        ("old_2_new", ofNats ra.old2new)]), ("agree", Json.bool (anchorAgrees t pts))]))
    else pure (obj base)
  | "uniquify_points" =>
    let pts ← fRatss j "points"
    let edges ← fNatss j "edges"
    let t ← getTol j
    let rule ← parseRule j
    let n := pts.length
    if edges.any (fun e => e.length < 2 || (e.take 2).any (fun v => v ≥ n)) then pure (err "IndexError") else
    let r := uniquifyPoints rule t pts edges
    pure (obj [("pts", ofList ofRats r.1), ("edges", ofList ofNats r.2.1), ("deleted", ofNats r.2.2)])
  | "ismember" =>
    let a ← fIntss j "a"
    let b ← fIntss j "b"
    let s ← fBool j "sort"
    let r := ismember a b s
    pure (obj [("ismem", ofList Json.bool r.1), ("ia", ofNats r.2)])
  | "intersect" =>
    let a ← fRatss j "a"
    let b ← fRatss j "b"
    let t ← getTol j
    let r := intersectSets t a b
    pure (obj [("ia", ofNats r.ia), ("ib", ofNats r.ib), ("a_in_b", ofList Json.bool r.aInB),
               ("intersection", ofList ofNats r.inter)])
  | _ => throw s!"unknown op {op}"

def main : IO Unit := runPure step
