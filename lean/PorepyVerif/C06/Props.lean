/-
C06 — property theorems (statements only depend on Model.lean; helper lemmas in Lemmas.lean).

Property: assembling a subset of equations, equations restricted to a subset of their grids, or a
subset of variables yields exactly the corresponding rows and columns of the fully assembled
Jacobian and residual, with row blocks in the order the equations were set and row indices
reported per equation.  Residual-only assembly equals the residual from full assembly.

Reading guide.  `ev name` are the evaluated rows of equation `name` (data: AD evaluation is C01/C02);
`fullRows sys.eqs ev` is the fully assembled system; `rowIdx sys ev req` is the list of
full-system row numbers a request selects (equations in the order of setting, grids in md
order, rows ascending); `req.sel e` says what the request asks of equation `e` (the LAST entry
naming it counts).  Hypotheses: `sys.Inv` (holds in every reachable state: `inv_reachable`) and
`Consistent sys ev` (the evaluated operators have the declared numbers of rows).
-/
import PorepyVerif.C06.Lemmas

namespace PorepyVerif.C06

/-- The invariant of the equation table (names distinct; every image composition is the
    consecutive numbering 0,1,…) holds after EVERY history of set_equation / remove_equation /
    assemble calls (failing calls included). -/
theorem inv_reachable (grids : List Grid) (vars : List Var) (ops : List Op) :
    (run (init grids vars) ops).Inv := by
  suffices h : ∀ sys : Sys, sys.Inv → (run sys ops).Inv from
    h _ ⟨by simp [init], by simp [init]⟩
  induction ops with
  | nil => intro sys h; exact h
  | cons op ops ih =>
    intro sys h
    apply ih
    cases op with
    | set n gs m =>
      simp only [applyOp]
      cases hs : setEquation sys n gs m with
      | error e => exact h
      | ok s => exact setEquation_inv sys s n gs m h hs
    | remove n =>
      simp only [applyOp]
      cases hs : removeEquation sys n with
      | error e => exact h
      | ok s => exact removeEquation_inv sys s n h hs
    | assemble ev jac req vs =>
      simp only [applyOp]
      have := (assemble_eqs sys ev jac req vs).1
      unfold Sys.Inv
      rw [this]
      exact h

/-- `set_equation` appends the equation LAST, with one block per requested grid, blocks in md
    order, block sizes = entity counts × multiplicities, local row numbers consecutive from 0. -/
theorem set_equation_image (sys sys' : Sys) (name : Nat) (grids : List GridId) (m : PerEntity)
    (h : setEquation sys name grids m = .ok sys') :
    ∃ img, sys'.eqs = sys.eqs ++ [⟨name, img⟩] ∧
      img.flatMap (·.2) = List.range (img.flatMap (·.2)).length ∧
      (img.map (·.1)).Sublist (sys.grids.map (·.id)) ∧
      (∀ g ∈ grids, g ∈ img.map (·.1)) ∧
      ∀ p ∈ img, ∃ g ∈ sys.grids, g.id = p.1 ∧ p.2.length = rowsOn g m := by
  unfold setEquation at h
  split at h
  · cases h
  · split at h
    · rename_i hg
      cases h
      refine ⟨[], rfl, rfl, by simp, ?_, by simp⟩
      intro g hg'
      simp only [List.isEmpty_iff] at hg
      rw [hg] at hg'
      cases hg'
    · simp only at h
      split at h
      · rename_i hr
        cases h
        refine ⟨_, rfl, ?_, imageLoop_sublist m sys.grids grids 0, ?_, imageLoop_sizes m sys.grids grids 0⟩
        · have := imageLoop_range m sys.grids grids 0
          simpa using this
        · intro g hg
          rcases imageLoop_cover m sys.grids grids 0 g hg with h1 | h1
          · exact h1
          · simp only [List.isEmpty_iff] at hr
            rw [hr] at h1
            cases h1
      · cases h

/-- `_parse_equations` returns exactly the selection of the request: the requested equations in
    the order they were SET (not the order requested), each with `None` or the local rows of the
    listed grids in md order; the last entry naming an equation wins. -/
theorem parse_spec (sys : Sys) (hinv : sys.Inv) (req : Request) (blocks : Blocks)
    (h : parseEquations sys req = .ok blocks) : blocks = blocksOf req.sel sys.eqs :=
  parse_blocks sys hinv req blocks h

/-- Unrestricted assembly (`equations=None`) is the full system, and its row selection is the
    identity `0, 1, …`. -/
theorem full_is_all (sys : Sys) (ev : Nat → List Row) (vars : Option (List VarItem)) (cols : List Nat)
    (hcols : columnsOf sys vars = .ok cols) :
    (∃ ix, assemble sys ev true .all vars =
        ({ sys with lastIdx := ix }, .ok ⟨fullRows sys.eqs ev, cols, []⟩)) ∧
      rowIdx sys ev .all = List.range (fullRows sys.eqs ev).length := by
  have hidx : rowIdx sys ev .all = List.range (fullRows sys.eqs ev).length := by
    have hsel : Request.all.sel = fun _ => some none := by funext e; rfl
    have := sliceIdx_all ev sys.eqs 0
    simpa [rowIdx, hsel] using this
  refine ⟨?_, hidx⟩
  have hb : ∀ e ∈ sys.eqs, ∀ r, Request.all.sel e = some r →
      ∀ i ∈ localIdx (ev e.name).length r, i < (ev e.name).length := by
    intro e _ r hr i hi
    simp only [Request.sel, Option.some.injEq] at hr
    subst hr
    exact List.mem_range.mp hi
  obtain ⟨rows, ix, h1, h2⟩ := jacLoop_slice ev Request.all.sel sys.eqs [] 0 hb
  have hrows : rows = fullRows sys.eqs ev := by
    have h3 : rows.map some = (fullRows sys.eqs ev).map some := by
      rw [h2, map_some_eq_range (fullRows sys.eqs ev)]
      have : sliceIdx ev Request.all.sel sys.eqs 0 = List.range (fullRows sys.eqs ev).length := hidx
      simp [this]
    exact (List.map_inj_right (fun x y hxy => Option.some.inj hxy)).mp h3
  subst hrows
  refine ⟨ix, ?_⟩
  have hp : parseEquations sys .all = .ok (blocksOf Request.all.sel sys.eqs) := by
    simp [parseEquations, blocksOf, Request.sel, List.filterMap_eq_map']
  exact assemble_jac_eq sys ev .all vars _ _ ix cols hp h1 hcols

/-- MAIN THEOREM.  Whenever the request parses and the variable list is valid, restricted
    assembly succeeds and returns exactly the rows `rowIdx` of the full system (as rows, as
    residual entries and as Jacobian rows restricted to the selected columns). -/
theorem assemble_is_slice (sys : Sys) (ev : Nat → List Row) (req : Request)
    (vars : Option (List VarItem)) (hinv : sys.Inv) (hc : Consistent sys ev)
    (blocks : Blocks) (hp : parseEquations sys req = .ok blocks)
    (cols : List Nat) (hcols : columnsOf sys vars = .ok cols) :
    ∃ out ix, assemble sys ev true req vars = ({ sys with lastIdx := ix }, .ok out) ∧
      out.cols = cols ∧
      out.rows.map some = (rowIdx sys ev req).map (fun k => (fullRows sys.eqs ev)[k]?) ∧
      out.b.map some = (rowIdx sys ev req).map (fun k => ((fullRows sys.eqs ev).map (fun r => - r.val))[k]?) ∧
      out.A.map some = (rowIdx sys ev req).map
        (fun k => ((fullRows sys.eqs ev).map (fun r => cols.map r.coef))[k]?) := by
  obtain ⟨rows, ix, hj, hr⟩ := jac_core sys ev req hinv hc blocks hp
  refine ⟨⟨rows, cols, []⟩, ix, assemble_jac_eq sys ev req vars blocks rows ix cols hp hj hcols, rfl, hr, ?_, ?_⟩
  · exact map_some_comp (fun r => - r.val) rows _ _ hr
  · exact map_some_comp (fun r => cols.map r.coef) rows _ _ hr

/-- The selected full-system row numbers are strictly increasing and in range: the restricted
    system is a genuine slice `full[rowIdx]`, its row blocks come in the order the equations were
    set, and inside an equation in md order of the grids. -/
theorem slice_rows_increasing (sys : Sys) (ev : Nat → List Row) (req : Request)
    (hinv : sys.Inv) (hc : Consistent sys ev) :
    (rowIdx sys ev req).Pairwise (· < ·) ∧
      ∀ k ∈ rowIdx sys ev req, k < (fullRows sys.eqs ev).length := by
  obtain ⟨h1, h2⟩ := sliceIdx_sorted ev req.sel sys.eqs 0
    (fun e he idx hidx => sel_bounds sys ev req hinv hc e he idx hidx)
  refine ⟨h1, ?_⟩
  intro k hk
  have := (h2 k hk).2
  omega

/-- Column selection: the columns are the dofs of the requested variables, sorted
    (`variables=None`: all variables; `[]`: none); without repeated variables they are strictly
    increasing, i.e. a subset of the global dofs in global order. -/
theorem columns_sorted_subset (sys : Sys) (vars : Option (List VarItem)) (cols : List Nat)
    (h : columnsOf sys vars = .ok cols) :
    ∃ ids, requestedIds sys vars = .ok ids ∧
      cols.Perm (ids.flatMap (dofRangeD sys)) ∧ cols.Pairwise (· ≤ ·) ∧
      ((ids.flatMap (dofRangeD sys)).Nodup → cols.Pairwise (· < ·)) := by
  obtain ⟨ids, h1, rfl⟩ := columnsOf_ok sys vars cols h
  refine ⟨ids, h1, isort_perm _, isort_sorted _, ?_⟩
  intro hnd
  have hnd' : (isort (ids.flatMap (dofRangeD sys))).Nodup := (isort_perm _).nodup_iff.mpr hnd
  have := (isort_sorted (ids.flatMap (dofRangeD sys))).and hnd'
  exact this.imp (fun h => by omega)

/-- With `variables=None` the columns are ALL dofs `0 … num_dofs-1` in order (so the full system
    is not permuted), for every well-formed variable table. -/
theorem columns_all (sys : Sys) (h : sys.VarsOk) :
    columnsOf sys none = .ok (List.range (numDofs sys)) :=
  columns_all_aux sys h

/-- Tie to the driver: splitting the full system sent by the harness by the declared sizes gives
    evaluated rows that are `Consistent` and whose full system is the one that was sent. -/
theorem driver_split_sound (sys : Sys) (hinv : sys.Inv) (rows : List Row)
    (h : rows.length = (sys.eqs.map (·.total)).sum) :
    fullRows sys.eqs (evOf (splitFull sys.eqs rows)) = rows ∧
      Consistent sys (evOf (splitFull sys.eqs rows)) :=
  split_sound sys.eqs hinv.1 rows h

/-- `assembled_equation_indices` after a Jacobian assembly: one entry per requested equation, in
    the order of the parsed blocks (= order of setting), the index ranges tile `0 … nrows-1`
    consecutively (zero-length blocks included), and the rows of the restricted system at the
    reported indices are exactly the selected rows of that equation. -/
theorem indices_reported (sys sys' : Sys) (ev : Nat → List Row) (req : Request)
    (vars : Option (List VarItem)) (out : Out)
    (h : assemble sys ev true req vars = (sys', .ok out)) :
    ∃ blocks, parseEquations sys req = .ok blocks ∧
      sys'.lastIdx.map (·.1) = blocks.map (·.1) ∧
      sys'.lastIdx.flatMap (·.2) = List.range out.rows.length ∧
      ∀ p ∈ sys'.lastIdx, ∃ r part, (p.1, r) ∈ blocks ∧ takeRows (ev p.1) r = .ok part ∧
        p.2.map (fun k => out.rows[k]?) = part.map some := by
  obtain ⟨blocks, hp, hj, _, _, _⟩ := assemble_jac_inv sys sys' ev req vars out h
  obtain ⟨i1, i2, i3⟩ := jacLoop_idx ev blocks 0 out.rows sys'.lastIdx [] rfl hj
  exact ⟨blocks, hp, i1, by simpa using i2, by simpa using i3⟩

/-- Residual-only assembly returns the residual of the Jacobian assembly of the same request
    (whatever the `variables` argument), and does not touch the state. -/
theorem residual_only_eq (sys sys' : Sys) (ev : Nat → List Row) (req : Request)
    (vars vars' : Option (List VarItem)) (out : Out)
    (h : assemble sys ev true req vars = (sys', .ok out)) :
    assemble sys ev false req vars' = (sys, .ok ⟨[], [], out.b⟩) := by
  obtain ⟨blocks, hp, hj, _, _, _⟩ := assemble_jac_inv sys sys' ev req vars out h
  have hr : resLoop ev blocks = .ok (out.rows.map (·.val)) := by
    rw [resLoop_eq ev blocks 0, hj]
    rfl
  rw [assemble_res_eq sys ev req vars' blocks _ hp hr]
  simp [Out.b, List.map_map, Function.comp_def]

/-- … hence it is the slice `rowIdx` of the residual of the full system; it succeeds whenever the
    request parses (the variable list is not looked at). -/
theorem residual_only_is_slice (sys : Sys) (ev : Nat → List Row) (req : Request)
    (vars : Option (List VarItem)) (hinv : sys.Inv) (hc : Consistent sys ev)
    (blocks : Blocks) (hp : parseEquations sys req = .ok blocks) :
    ∃ res, assemble sys ev false req vars = (sys, .ok ⟨[], [], res⟩) ∧
      res.map some = (rowIdx sys ev req).map (fun k => ((fullRows sys.eqs ev).map (fun r => - r.val))[k]?) := by
  obtain ⟨rows, ix, hj, hr⟩ := jac_core sys ev req hinv hc blocks hp
  have hres : resLoop ev blocks = .ok (rows.map (·.val)) := by
    rw [resLoop_eq ev blocks 0, hj]
    rfl
  refine ⟨(rows.map (·.val)).map (fun v => - v), assemble_res_eq sys ev req vars blocks _ hp hres, ?_⟩
  have := map_some_comp (fun r : Row => - r.val) rows _ _ hr
  simpa [List.map_map, Function.comp_def] using this

/-- Two requests that ask the same of every equation give the same assembly: only the LAST entry
    per equation and the SET of grids in it matter, not the order of names or grids. -/
theorem restriction_order_irrelevant (sys : Sys) (ev : Nat → List Row) (jac : Bool)
    (vars : Option (List VarItem)) (hinv : sys.Inv) (r1 r2 : Request)
    (hsel : ∀ e ∈ sys.eqs, r1.sel e = r2.sel e)
    (b1 b2 : Blocks) (h1 : parseEquations sys r1 = .ok b1) (h2 : parseEquations sys r2 = .ok b2) :
    b1 = b2 ∧ assemble sys ev jac r1 vars = assemble sys ev jac r2 vars := by
  have hb : b1 = b2 := by
    rw [parse_blocks sys hinv r1 b1 h1, parse_blocks sys hinv r2 b2 h2]
    exact filterMap_congr' sys.eqs (fun e he => by rw [hsel e he])
  refine ⟨hb, ?_⟩
  subst hb
  simp only [assemble, h1, h2]

/-- Permuting a list request that names every equation at most once changes nothing: the same
    requests parse, to the same row blocks. -/
theorem request_permutation_irrelevant (sys : Sys) (hinv : sys.Inv) (items1 items2 : List Item)
    (hperm : items1.Perm items2)
    (hnodup : ((Request.list items1).entries.map (·.1)).Nodup) (b : Blocks) :
    parseEquations sys (.list items1) = .ok b ↔ parseEquations sys (.list items2) = .ok b := by
  have hent : (Request.list items1).entries.Perm (Request.list items2).entries :=
    hperm.flatMap_right Item.entries
  have hnodup2 : ((Request.list items2).entries.map (·.1)).Nodup := (hent.map _).nodup_iff.mp hnodup
  have hsel : ∀ e, (Request.list items1).sel e = (Request.list items2).sel e := by
    intro e
    simp only [Request.sel]
    rw [lastFor_perm e.name _ _ hent hnodup]
  -- success of one implies success of the other, with the same blocks
  have key : ∀ (i1 i2 : List Item), i1.Perm i2 →
      (∀ e, (Request.list i1).sel e = (Request.list i2).sel e) →
      parseEquations sys (.list i1) = .ok b → parseEquations sys (.list i2) = .ok b := by
    intro i1 i2 hp hs h
    have hb := parse_blocks sys hinv _ b h
    simp only [parseEquations] at h
    cases hd : parseItems sys [] i1 with
    | error e => rw [hd] at h; cases h
    | ok d =>
      have hall := (parseItems_isOk sys i1 []).mp ⟨d, hd⟩
      obtain ⟨d2, hd2⟩ := (parseItems_isOk sys i2 []).mpr (fun it hit => hall it (hp.mem_iff.mpr hit))
      have h2 : parseEquations sys (.list i2) = .ok (orderBlocks sys.eqs d2) := by
        simp [parseEquations, hd2]
      rw [h2, parse_blocks sys hinv _ _ h2, hb]
      congr 1
      exact filterMap_congr' sys.eqs (fun e _ => by rw [hs e])
  exact ⟨key items1 items2 hperm hsel, key items2 items1 hperm.symm (fun e => (hsel e).symm)⟩

/-- The order and repetition of grids inside a restriction are irrelevant. -/
theorem grid_order_irrelevant (sys : Sys) (k : Key) (gs1 gs2 : List GridId)
    (h : ∀ g, g ∈ gs1 ↔ g ∈ gs2) : parseEntry sys k gs1 = parseEntry sys k gs2 := by
  unfold parseEntry
  cases k.name? with
  | none => rfl
  | some name =>
    simp only
    cases findEq sys.eqs name with
    | none => rfl
    | some e =>
      simp only
      rw [all_congr _ gs1 gs2 h, localRows_congr e.image gs1 gs2 h]

/-! ### non-vacuity: a concrete system

Grids (md order): subdomain 0 (2 cells, 7 faces, 6 nodes), subdomain 1 (3 cells), interface 5
(2 cells).  Variables: id 0 on grid 0 (2 dofs), id 1 on grid 1 (3 dofs), id 2 on grid 5 (4 dofs).
Equation 1 is set on grids [1, 0] (cells), equation 2 on [5], equation 3 on no grid, then
equation 1 is removed and set again (it becomes the LAST equation). -/

def exSys : Sys :=
  run (init [⟨0, false, 2, 7, 6⟩, ⟨1, false, 3, 4, 4⟩, ⟨5, true, 2, 0, 0⟩]
            [⟨0, 0, 0, 2⟩, ⟨1, 0, 1, 3⟩, ⟨2, 1, 5, 4⟩])
    [.set 1 [1, 0] ⟨1, 0, 0⟩, .set 2 [5] ⟨1, 0, 0⟩, .set 3 [] ⟨1, 0, 0⟩, .set 2 [0] ⟨1, 0, 0⟩,
     .remove 1, .set 1 [1, 0] ⟨1, 0, 0⟩]

/-- evaluated rows: equation `n`, row `i` has value `10 n + i` and one Jacobian entry `1/2` in column `i` -/
def exEv (n : Nat) : List Row :=
  (List.range (if n = 1 then 5 else if n = 2 then 2 else 0)).map
    (fun i => ⟨(10 * n + i : Nat), [(i, 1 / 2)]⟩)

example : exSys.eqs = [⟨2, [(5, [0, 1])]⟩, ⟨3, []⟩, ⟨1, [(0, [0, 1]), (1, [2, 3, 4])]⟩] := by
  decide +kernel

example : exSys.VarsOk := by
  refine ⟨by decide +kernel, by decide +kernel, ?_⟩
  intro v hv
  have : v ∈ [(⟨0, 0, 0, 2⟩ : Var), ⟨1, 0, 1, 3⟩, ⟨2, 1, 5, 4⟩] := hv
  simp only [List.mem_cons, List.not_mem_nil, or_false] at this
  rcases this with rfl | rfl | rfl <;> decide +kernel

example : exSys.Inv ∧ Consistent exSys exEv := by
  refine ⟨inv_reachable _ _ _, ?_⟩
  intro e he
  have : e ∈ [(⟨2, [(5, [0, 1])]⟩ : Equation), ⟨3, []⟩, ⟨1, [(0, [0, 1]), (1, [2, 3, 4])]⟩] := by
    have h : exSys.eqs = [⟨2, [(5, [0, 1])]⟩, ⟨3, []⟩, ⟨1, [(0, [0, 1]), (1, [2, 3, 4])]⟩] := by
      decide +kernel
    rw [← h]; exact he
  simp only [List.mem_cons, List.not_mem_nil, or_false] at this
  rcases this with rfl | rfl | rfl <;> decide +kernel

/-- request `[e1 restricted to grid 1 (given twice), "e2", Operator e1 restricted to grid 1]` with the
    variables "name 0" : rows 4,5,6 of equation 1 come AFTER those of equation 2, columns 0..4 -/
example :
    rowIdx exSys exEv (.list [.dict [(.str 1, [1, 1])], .key (.str 2), .dict [(.op 1, [1])]]) = [0, 1, 4, 5, 6] := by
  decide +kernel

example :
    (assemble exSys exEv true (.list [.dict [(.str 1, [0])], .key (.str 2), .dict [(.op 1, [1])]])
        (some [.name 0])).2.toOption.map (fun o => (o.b, o.cols)) =
      some ([-20, -21, -12, -13, -14], [0, 1, 2, 3, 4]) := by
  decide +kernel

example :
    (assemble exSys exEv true (.dict [(.str 1, []), (.op 2, [5]), (.str 3, [])]) none).1.lastIdx =
      [(2, [0, 1]), (3, []), (1, [])] := by
  decide +kernel

example : errOf (assemble exSys exEv true (.dict [(.str 1, [5])]) none).2 = some .value := by
  decide +kernel

example : errOf (assemble exSys exEv false (.list [.key .bad]) none).2 = some .type := by
  decide +kernel

end PorepyVerif.C06
