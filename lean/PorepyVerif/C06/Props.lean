/-
C06 — property theorems (statements only depend on Model.lean; helper lemmas in Lemmas.lean).

Property: assembling a subset of equations, equations restricted to a subset of their grids, or a
subset of variables yields exactly the corresponding rows and columns of the fully assembled
Jacobian and residual, with row blocks in the order the equations were set and row indices
reported per equation.  Residual-only assembly equals the residual from full assembly.

Reading guide.  `ev name` are the evaluated rows of equation `name` (data: AD evaluation is C01/C02);
`fullRows sys.eqs ev` is the fully assembled system; `rowIdx sys ev req` is the list of
full-system row numbers a request selects (equations in the order of setting, grids in md
order, rows ascending); `req.sel e` says what the request asks of equation `e` (the LAST entry
naming it counts).  Hypotheses: `sys.Inv` (holds in every reachable state: `inv_reachable`) and
`Covers sys ev` (the evaluated operators have AT LEAST the declared numbers of rows; implied by
`Consistent`, equality).  What happens otherwise is characterised by `index_error_iff`.
-/
import PorepyVerif.C06.Lemmas
import PorepyVerif.C05.Props

namespace PorepyVerif.C06

/-- The invariant of the equation table (names distinct; every image composition is the
    consecutive numbering 0,1,…) holds after EVERY history of set_equation / remove_equation /
    assemble calls (failing calls included). -/
theorem inv_reachable (grids : List Grid) (vars : List Var) (ops : List Op) :
    (run (init grids vars) ops).Inv := by
  suffices h : ∀ sys : Sys, sys.Inv → (run sys ops).Inv from
    h _ ⟨by simp [init], by simp [init]⟩
  induction ops with
  | nil => intro sys h; exact h
  | cons op ops ih =>
    intro sys h
    apply ih
    cases op with
    | set n gs m =>
      simp only [applyOp]
      cases hs : setEquation sys n gs m with
      | error e => exact h
      | ok s => exact setEquation_inv sys s n gs m h hs
    | remove n =>
      simp only [applyOp]
      cases hs : removeEquation sys n with
      | error e => exact h
      | ok s => exact removeEquation_inv sys s n h hs
    | update n gs m => exact updateEquation_inv sys n gs m h
    | assemble ev jac req vs =>
      simp only [applyOp]
      have := (assemble_eqs sys ev jac req vs).1
      unfold Sys.Inv
      rw [this]
      exact h

/-- `set_equation` appends the equation LAST, with one block per requested grid, blocks in md
    order, block sizes = entity counts × multiplicities, local row numbers consecutive from 0. -/
theorem set_equation_image (sys sys' : Sys) (name : Nat) (grids : List GridId) (m : PerEntity)
    (h : setEquation sys name grids m = .ok sys') :
    ∃ img, sys'.eqs = sys.eqs ++ [⟨name, img⟩] ∧
      img.flatMap (·.2) = List.range (img.flatMap (·.2)).length ∧
      (img.map (·.1)).Sublist (sys.grids.map (·.id)) ∧
      (∀ g ∈ grids, g ∈ img.map (·.1)) ∧
      ∀ p ∈ img, ∃ g ∈ sys.grids, g.id = p.1 ∧ p.2.length = rowsOn g m := by
  unfold setEquation at h
  split at h
  · cases h
  · split at h
    · rename_i hg
      cases h
      refine ⟨[], rfl, rfl, by simp, ?_, by simp⟩
      intro g hg'
      simp only [List.isEmpty_iff] at hg
      rw [hg] at hg'
      cases hg'
    · simp only at h
      split at h
      · rename_i hr
        cases h
        refine ⟨_, rfl, ?_, imageLoop_sublist m sys.grids grids 0, ?_, imageLoop_sizes m sys.grids grids 0⟩
        · have := imageLoop_range m sys.grids grids 0
          simpa using this
        · intro g hg
          rcases imageLoop_cover m sys.grids grids 0 g hg with h1 | h1
          · exact h1
          · simp only [List.isEmpty_iff] at hr
            rw [hr] at h1
            cases h1
      · cases h

/-- `_parse_equations` returns exactly the selection of the request: the requested equations in
    the order they were SET (not the order requested), each with `None` or the local rows of the
    listed grids in md order; the last entry naming an equation wins. -/
theorem parse_spec (sys : Sys) (hinv : sys.Inv) (req : Request) (blocks : Blocks)
    (h : parseEquations sys req = .ok blocks) : blocks = blocksOf req.sel sys.eqs :=
  parse_blocks sys hinv req blocks h

/-- Unrestricted assembly (`equations=None`) is the full system, and its row selection is the
    identity `0, 1, …`. -/
theorem full_is_all (sys : Sys) (ev : Nat → List Row) (vars : Option (List VarItem)) (cols : List Nat)
    (hcols : columnsOf sys vars = .ok cols) :
    (∃ ix, assemble sys ev true .all vars =
        ({ sys with lastIdx := ix }, .ok ⟨fullRows sys.eqs ev, cols, []⟩)) ∧
      rowIdx sys ev .all = List.range (fullRows sys.eqs ev).length := by
  have hidx : rowIdx sys ev .all = List.range (fullRows sys.eqs ev).length := by
    have hsel : Request.all.sel = fun _ => some none := by funext e; rfl
    have := sliceIdx_all ev sys.eqs 0
    simpa [rowIdx, hsel] using this
  refine ⟨?_, hidx⟩
  have hb : ∀ e ∈ sys.eqs, ∀ r, Request.all.sel e = some r →
      ∀ i ∈ localIdx (ev e.name).length r, i < (ev e.name).length := by
    intro e _ r hr i hi
    simp only [Request.sel, Option.some.injEq] at hr
    subst hr
    exact List.mem_range.mp hi
  obtain ⟨rows, ix, h1, h2⟩ := jacLoop_slice ev Request.all.sel sys.eqs [] 0 hb
  have hrows : rows = fullRows sys.eqs ev := by
    have h3 : rows.map some = (fullRows sys.eqs ev).map some := by
      rw [h2, map_some_eq_range (fullRows sys.eqs ev)]
      have : sliceIdx ev Request.all.sel sys.eqs 0 = List.range (fullRows sys.eqs ev).length := hidx
      simp [this]
    exact (List.map_inj_right (fun x y hxy => Option.some.inj hxy)).mp h3
  subst hrows
  refine ⟨ix, ?_⟩
  have hp : parseEquations sys .all = .ok (blocksOf Request.all.sel sys.eqs) := by
    simp [parseEquations, blocksOf, Request.sel, List.filterMap_eq_map']
  exact assemble_jac_eq sys ev .all vars _ _ ix cols hp h1 hcols

/-- MAIN THEOREM.  Whenever the request parses and the variable list is valid, restricted
    assembly succeeds and returns exactly the rows `rowIdx` of the full system (as rows, as
    residual entries and as Jacobian rows restricted to the selected columns). -/
theorem assemble_is_slice (sys : Sys) (ev : Nat → List Row) (req : Request)
    (vars : Option (List VarItem)) (hinv : sys.Inv) (hc : Covers sys ev)
    (blocks : Blocks) (hp : parseEquations sys req = .ok blocks)
    (cols : List Nat) (hcols : columnsOf sys vars = .ok cols) :
    ∃ out ix, assemble sys ev true req vars = ({ sys with lastIdx := ix }, .ok out) ∧
      out.cols = cols ∧
      out.rows.map some = (rowIdx sys ev req).map (fun k => (fullRows sys.eqs ev)[k]?) ∧
      out.b.map some = (rowIdx sys ev req).map (fun k => ((fullRows sys.eqs ev).map (fun r => - r.val))[k]?) ∧
      out.A.map some = (rowIdx sys ev req).map
        (fun k => ((fullRows sys.eqs ev).map (fun r => cols.map r.coef))[k]?) := by
  obtain ⟨rows, ix, hj, hr⟩ := jac_core sys ev req hinv (covers_not_outOfRange sys ev req hinv hc) blocks hp
  refine ⟨⟨rows, cols, []⟩, ix, assemble_jac_eq sys ev req vars blocks rows ix cols hp hj hcols, rfl, hr, ?_, ?_⟩
  · exact map_some_comp (fun r => - r.val) rows _ _ hr
  · exact map_some_comp (fun r => cols.map r.coef) rows _ _ hr

/-- The selected full-system row numbers are strictly increasing and in range: the restricted
    system is a genuine slice `full[rowIdx]`, its row blocks come in the order the equations were
    set, and inside an equation in md order of the grids. -/
theorem slice_rows_increasing (sys : Sys) (ev : Nat → List Row) (req : Request)
    (hinv : sys.Inv) (hc : Covers sys ev) :
    (rowIdx sys ev req).Pairwise (· < ·) ∧
      ∀ k ∈ rowIdx sys ev req, k < (fullRows sys.eqs ev).length := by
  obtain ⟨h1, h2⟩ := sliceIdx_sorted ev req.sel sys.eqs 0
    (fun e he idx hidx => sel_bounds sys ev req hinv hc e he idx hidx)
  refine ⟨h1, ?_⟩
  intro k hk
  have := (h2 k hk).2
  omega

/-- Column selection: the columns are the dofs of the requested variables, sorted
    (`variables=None`: all variables; `[]`: none); without repeated variables they are strictly
    increasing, i.e. a subset of the global dofs in global order. -/
theorem columns_sorted_subset (sys : Sys) (vars : Option (List VarItem)) (cols : List Nat)
    (h : columnsOf sys vars = .ok cols) :
    ∃ ids, requestedIds sys vars = .ok ids ∧
      cols.Perm (ids.flatMap (dofRangeD sys)) ∧ cols.Pairwise (· ≤ ·) ∧
      ((ids.flatMap (dofRangeD sys)).Nodup → cols.Pairwise (· < ·)) := by
  obtain ⟨ids, h1, rfl⟩ := columnsOf_ok sys vars cols h
  refine ⟨ids, h1, isort_perm _, isort_sorted _, ?_⟩
  intro hnd
  have hnd' : (isort (ids.flatMap (dofRangeD sys))).Nodup := (isort_perm _).nodup_iff.mpr hnd
  have := (isort_sorted (ids.flatMap (dofRangeD sys))).and hnd'
  exact this.imp (fun h => by omega)

/-- With `variables=None` the columns are ALL dofs `0 … num_dofs-1` in order (so the full system
    is not permuted), for every well-formed variable table. -/
theorem columns_all (sys : Sys) (h : sys.VarsOk) :
    columnsOf sys none = .ok (List.range (numDofs sys)) :=
  columns_all_aux sys h

/-- Tie to the driver: splitting the full system sent by the harness by the declared sizes gives
    evaluated rows that are `Consistent` and whose full system is the one that was sent. -/
theorem driver_split_sound (sys : Sys) (hinv : sys.Inv) (rows : List Row)
    (h : rows.length = (sys.eqs.map (·.total)).sum) :
    fullRows sys.eqs (evOf (splitFull sys.eqs rows)) = rows ∧
      Consistent sys (evOf (splitFull sys.eqs rows)) :=
  split_sound sys.eqs hinv.1 rows h

/-- `assembled_equation_indices` after a Jacobian assembly: one entry per requested equation, in
    the order of the parsed blocks (= order of setting), the index ranges tile `0 … nrows-1`
    consecutively (zero-length blocks included), and the rows of the restricted system at the
    reported indices are exactly the selected rows of that equation. -/
theorem indices_reported (sys sys' : Sys) (ev : Nat → List Row) (req : Request)
    (vars : Option (List VarItem)) (out : Out)
    (h : assemble sys ev true req vars = (sys', .ok out)) :
    ∃ blocks, parseEquations sys req = .ok blocks ∧
      sys'.lastIdx.map (·.1) = blocks.map (·.1) ∧
      sys'.lastIdx.flatMap (·.2) = List.range out.rows.length ∧
      ∀ p ∈ sys'.lastIdx, ∃ r part, (p.1, r) ∈ blocks ∧ takeRows (ev p.1) r = .ok part ∧
        p.2.map (fun k => out.rows[k]?) = part.map some := by
  obtain ⟨blocks, hp, hj, _, _, _⟩ := assemble_jac_inv sys sys' ev req vars out h
  obtain ⟨i1, i2, i3⟩ := jacLoop_idx ev blocks 0 out.rows sys'.lastIdx [] rfl hj
  exact ⟨blocks, hp, i1, by simpa using i2, by simpa using i3⟩

/-- Residual-only assembly returns the residual of the Jacobian assembly of the same request
    (whatever the `variables` argument), and does not touch the state. -/
theorem residual_only_eq (sys sys' : Sys) (ev : Nat → List Row) (req : Request)
    (vars vars' : Option (List VarItem)) (out : Out)
    (h : assemble sys ev true req vars = (sys', .ok out)) :
    assemble sys ev false req vars' = (sys, .ok ⟨[], [], out.b⟩) := by
  obtain ⟨blocks, hp, hj, _, _, _⟩ := assemble_jac_inv sys sys' ev req vars out h
  have hr : resLoop ev blocks = .ok (out.rows.map (·.val)) := by
    rw [resLoop_eq ev blocks 0, hj]
    rfl
  rw [assemble_res_eq sys ev req vars' blocks _ hp hr]
  simp [Out.b, List.map_map, Function.comp_def]

/-- … hence it is the slice `rowIdx` of the residual of the full system; it succeeds whenever the
    request parses (the variable list is not looked at). -/
theorem residual_only_is_slice (sys : Sys) (ev : Nat → List Row) (req : Request)
    (vars : Option (List VarItem)) (hinv : sys.Inv) (hc : Covers sys ev)
    (blocks : Blocks) (hp : parseEquations sys req = .ok blocks) :
    ∃ res, assemble sys ev false req vars = (sys, .ok ⟨[], [], res⟩) ∧
      res.map some = (rowIdx sys ev req).map (fun k => ((fullRows sys.eqs ev).map (fun r => - r.val))[k]?) := by
  obtain ⟨rows, ix, hj, hr⟩ := jac_core sys ev req hinv (covers_not_outOfRange sys ev req hinv hc) blocks hp
  have hres : resLoop ev blocks = .ok (rows.map (·.val)) := by
    rw [resLoop_eq ev blocks 0, hj]
    rfl
  refine ⟨(rows.map (·.val)).map (fun v => - v), assemble_res_eq sys ev req vars blocks _ hp hres, ?_⟩
  have := map_some_comp (fun r : Row => - r.val) rows _ _ hr
  simpa [List.map_map, Function.comp_def] using this

/-- Two requests that ask the same of every equation give the same assembly: only the LAST entry
    per equation and the SET of grids in it matter, not the order of names or grids. -/
theorem restriction_order_irrelevant (sys : Sys) (ev : Nat → List Row) (jac : Bool)
    (vars : Option (List VarItem)) (hinv : sys.Inv) (r1 r2 : Request)
    (hsel : ∀ e ∈ sys.eqs, r1.sel e = r2.sel e)
    (b1 b2 : Blocks) (h1 : parseEquations sys r1 = .ok b1) (h2 : parseEquations sys r2 = .ok b2) :
    b1 = b2 ∧ assemble sys ev jac r1 vars = assemble sys ev jac r2 vars := by
  have hb : b1 = b2 := by
    rw [parse_blocks sys hinv r1 b1 h1, parse_blocks sys hinv r2 b2 h2]
    exact filterMap_congr' sys.eqs (fun e he => by rw [hsel e he])
  refine ⟨hb, ?_⟩
  subst hb
  simp only [assemble, h1, h2]

/-- Permuting a list request that names every equation at most once changes nothing: the same
    requests parse, to the same row blocks. -/
theorem request_permutation_irrelevant (sys : Sys) (hinv : sys.Inv) (items1 items2 : List Item)
    (hperm : items1.Perm items2)
    (hnodup : ((Request.list items1).entries.map (·.1)).Nodup) (b : Blocks) :
    parseEquations sys (.list items1) = .ok b ↔ parseEquations sys (.list items2) = .ok b := by
  have hent : (Request.list items1).entries.Perm (Request.list items2).entries :=
    hperm.flatMap_right Item.entries
  have hnodup2 : ((Request.list items2).entries.map (·.1)).Nodup := (hent.map _).nodup_iff.mp hnodup
  have hsel : ∀ e, (Request.list items1).sel e = (Request.list items2).sel e := by
    intro e
    simp only [Request.sel]
    rw [lastFor_perm e.name _ _ hent hnodup]
  -- success of one implies success of the other, with the same blocks
  have key : ∀ (i1 i2 : List Item), i1.Perm i2 →
      (∀ e, (Request.list i1).sel e = (Request.list i2).sel e) →
      parseEquations sys (.list i1) = .ok b → parseEquations sys (.list i2) = .ok b := by
    intro i1 i2 hp hs h
    have hb := parse_blocks sys hinv _ b h
    simp only [parseEquations] at h
    cases hd : parseItems sys [] i1 with
    | error e => rw [hd] at h; cases h
    | ok d =>
      have hall := (parseItems_isOk sys i1 []).mp ⟨d, hd⟩
      obtain ⟨d2, hd2⟩ := (parseItems_isOk sys i2 []).mpr (fun it hit => hall it (hp.mem_iff.mpr hit))
      have h2 : parseEquations sys (.list i2) = .ok (orderBlocks sys.eqs d2) := by
        simp [parseEquations, hd2]
      rw [h2, parse_blocks sys hinv _ _ h2, hb]
      congr 1
      exact filterMap_congr' sys.eqs (fun e _ => by rw [hs e])
  exact ⟨key items1 items2 hperm hsel, key items2 items1 hperm.symm (fun e => (hsel e).symm)⟩

/-- The order and repetition of grids inside a restriction are irrelevant. -/
theorem grid_order_irrelevant (sys : Sys) (k : Key) (gs1 gs2 : List GridId)
    (h : ∀ g, g ∈ gs1 ↔ g ∈ gs2) : parseEntry sys k gs1 = parseEntry sys k gs2 := by
  unfold parseEntry
  cases k.name? with
  | none => rfl
  | some name =>
    simp only
    cases findEq sys.eqs name with
    | none => rfl
    | some e =>
      simp only
      rw [all_congr _ gs1 gs2 h, localRows_congr e.image gs1 gs2 h]

/-! ### operators shorter than declared: the IndexError path -/

/-- `Consistent` (what the harness generates, and what `equations_per_grid_entity` promises)
    implies `Covers`. -/
theorem consistent_implies_covers (sys : Sys) (ev : Nat → List Row) (h : Consistent sys ev) :
    Covers sys ev := consistent_covers sys ev h

/-- When the evaluated operators do NOT have the declared sizes: for a request that parses and a
    valid variable list, Jacobian assembly raises — and then it is an IndexError — exactly when
    some equation is requested with a grid restriction whose local rows reach beyond the
    evaluated operator (`OutOfRange`); unrestricted requests never raise.  In every other case
    the result is still the slice `rowIdx` of the full system (offsets = actual operator lengths).
    On the error the reported indices are those of the blocks before the failing one. -/
theorem index_error_iff (sys : Sys) (ev : Nat → List Row) (req : Request)
    (vars : Option (List VarItem)) (hinv : sys.Inv)
    (blocks : Blocks) (hp : parseEquations sys req = .ok blocks)
    (cols : List Nat) (hcols : columnsOf sys vars = .ok cols) :
    (OutOfRange sys ev req →
        assemble sys ev true req vars =
          ({ sys with lastIdx := idxPrefix ev blocks 0 }, .error .index)) ∧
      (¬ OutOfRange sys ev req →
        ∃ out ix, assemble sys ev true req vars = ({ sys with lastIdx := ix }, .ok out) ∧
          out.rows.map some = (rowIdx sys ev req).map (fun k => (fullRows sys.eqs ev)[k]?)) := by
  refine ⟨?_, ?_⟩
  · rintro ⟨e, he, idx, hsel, i, hi, hle⟩
    have hb := parse_blocks sys hinv req blocks hp
    cases hj : jacLoop ev blocks 0 with
    | error err =>
      obtain ⟨herr, _⟩ := jacLoop_error ev blocks 0 err hj
      subst herr
      simp [assemble, hp, hj]
    | ok q =>
      exfalso
      have hm : (e.name, some idx) ∈ blocks := by
        rw [hb]
        exact (mem_blocksOf req.sel sys.eqs e.name (some idx)).mpr ⟨e, he, hsel, rfl⟩
      have := jacLoop_ok_bounds ev blocks 0 q hj e.name idx hm i hi
      omega
  · intro hno
    obtain ⟨rows, ix, hj, hr⟩ := jac_core sys ev req hinv hno blocks hp
    exact ⟨⟨rows, cols, []⟩, ix, assemble_jac_eq sys ev req vars blocks rows ix cols hp hj hcols, hr⟩

/-- The same characterisation for residual-only assembly. -/
theorem index_error_residual (sys : Sys) (ev : Nat → List Row) (req : Request)
    (vars : Option (List VarItem)) (hinv : sys.Inv)
    (blocks : Blocks) (hp : parseEquations sys req = .ok blocks) :
    (OutOfRange sys ev req ↔ assemble sys ev false req vars = (sys, .error .index)) := by
  have hb := parse_blocks sys hinv req blocks hp
  constructor
  · rintro ⟨e, he, idx, hsel, i, hi, hle⟩
    cases hj : jacLoop ev blocks 0 with
    | error err =>
      obtain ⟨herr, _⟩ := jacLoop_error ev blocks 0 err hj
      subst herr
      have : resLoop ev blocks = .error .index := by rw [resLoop_eq ev blocks 0, hj]; rfl
      simp [assemble, hp, this]
    | ok q =>
      exfalso
      have hm : (e.name, some idx) ∈ blocks := by
        rw [hb]
        exact (mem_blocksOf req.sel sys.eqs e.name (some idx)).mpr ⟨e, he, hsel, rfl⟩
      have := jacLoop_ok_bounds ev blocks 0 q hj e.name idx hm i hi
      omega
  · intro h
    apply Classical.byContradiction
    intro hno
    obtain ⟨rows, ix, hj, _⟩ := jac_core sys ev req hinv hno blocks hp
    have hres : resLoop ev blocks = .ok (rows.map (·.val)) := by
      rw [resLoop_eq ev blocks 0, hj]; rfl
    rw [assemble_res_eq sys ev req vars blocks _ hp hres] at h
    cases h

/-! ### remove_equation and update_equation -/

/-- `remove_equation` deletes the equation and keeps the others in their order; afterwards every
    request that does not name it assembles exactly as before (same result, same reported
    indices, same errors), and the FULL system is the old system restricted to the other
    equations: its rows are deleted everywhere and nothing else moves. -/
theorem remove_equation_spec (sys sys' : Sys) (name : Nat) (hinv : sys.Inv)
    (h : removeEquation sys name = .ok sys') :
    sys'.eqs = sys.eqs.filter (fun e => e.name ≠ name) ∧ sys'.hasEq name = false ∧
    (∀ ev jac items vars, name ∉ (Request.list items).entries.map (·.1) →
        (assemble sys' ev jac (.list items) vars).2 = (assemble sys ev jac (.list items) vars).2) ∧
    (∀ ev jac es vars, name ∉ (Request.dict es).entries.map (·.1) →
        (assemble sys' ev jac (.dict es) vars).2 = (assemble sys ev jac (.dict es) vars).2) ∧
    (∀ ev jac vars, (assemble sys' ev jac .all vars).2 =
        (assemble sys ev jac (.list (sys'.eqs.map (fun e => Item.key (.str e.name)))) vars).2) := by
  obtain ⟨rfl, _⟩ := removeEquation_eqs sys sys' name h
  refine ⟨rfl, hasEq_removed sys name, ?_, ?_, ?_⟩
  · intro ev jac items vars hn
    exact (assemble_congr sys { sys with eqs := sys.eqs.filter (fun e => e.name ≠ name) } ev jac
      (.list items) vars (parse_list_filter sys _ name rfl items hn) rfl rfl).1
  · intro ev jac es vars hn
    exact (assemble_congr sys { sys with eqs := sys.eqs.filter (fun e => e.name ≠ name) } ev jac
      (.dict es) vars (parse_dict_filter sys _ name rfl es hn) rfl rfl).1
  · intro ev jac vars
    have hp1 : parseEquations { sys with eqs := sys.eqs.filter (fun e => e.name ≠ name) } .all =
        .ok ((sys.eqs.filter (fun e => e.name ≠ name)).map (fun e => (e.name, none))) := rfl
    have hp2 := parse_rest sys hinv name
    -- both sides run the same loops on the same blocks
    have hc : columnsOf { sys with eqs := sys.eqs.filter (fun e => e.name ≠ name) } vars = columnsOf sys vars :=
      columnsOf_congr sys _ vars rfl rfl
    simp only [assemble, hp1, hp2, hc]
    cases jac with
    | false =>
      simp only [Bool.false_eq_true, if_false]
      cases resLoop ev _ <;> rfl
    | true =>
      simp only [if_true]
      cases jacLoop ev _ 0 with
      | error e => rfl
      | ok q =>
        obtain ⟨rows, ix⟩ := q
        simp only
        cases columnsOf sys vars <;> rfl

/-- `update_equation` = remove + set: on success the equation is the LAST one (it moves to the
    end of the row order, it is NOT replaced in place), with the image composition `set_equation`
    builds for the given grids / multiplicities (defaults: the grids of the old image, the
    multiplicities stored when it was set). -/
theorem update_equation_spec (sys sys' : Sys) (name : Nat) (grids : Option (List GridId))
    (per : Option PerEntity) (h : updateEquation sys name grids per = (sys', none)) :
    sys.hasEq name = true ∧
    ∃ g p, (grids = some g ∨ (grids = none ∧ ∃ e, findEq sys.eqs name = some e ∧ g = e.image.map (·.1))) ∧
      (per = some p ∨ (per = none ∧ lookup name sys.sizeInfo = some p)) ∧
      setEquation { sys with eqs := sys.eqs.filter (fun e => e.name ≠ name) } name g p = .ok sys' ∧
      ∃ img, sys'.eqs = sys.eqs.filter (fun e => e.name ≠ name) ++ [⟨name, img⟩] := by
  unfold updateEquation at h
  simp only at h
  split at h
  · cases h
  · rename_i g hg
    split at h
    · cases h
    · rename_i p hp
      split at h
      · cases h
      · rename_i s1 hr
        obtain ⟨rfl, hhas⟩ := removeEquation_eqs sys s1 name hr
        split at h
        · cases h
        · rename_i s2 hs
          cases h
          refine ⟨hhas, g, p, ?_, ?_, hs, ?_⟩
          · cases grids with
            | some g0 => left; simpa using hg
            | none =>
              right
              refine ⟨rfl, ?_⟩
              cases hf : findEq sys.eqs name with
              | none => simp [hf] at hg
              | some e => exact ⟨e, rfl, by simpa [hf] using hg.symm⟩
          · cases per with
            | some p0 => left; simpa using hp
            | none => right; exact ⟨rfl, by simpa using hp⟩
          · obtain ⟨img, himg, _⟩ := set_equation_image _ _ name g p hs
            exact ⟨img, himg⟩

/-- Failure of `update_equation`: either nothing happened (KeyError: a default is missing;
    ValueError: no such equation), or — partial effect — the equation has been REMOVED and the
    re-setting failed with AssertionError (unknown or repeated grid). -/
theorem update_equation_failure (sys sys' : Sys) (name : Nat) (grids : Option (List GridId))
    (per : Option PerEntity) (err : Err) (h : updateEquation sys name grids per = (sys', some err)) :
    (sys' = sys ∧ (err = .key ∨ (err = .value ∧ sys.hasEq name = false))) ∨
    (err = .assertion ∧ sys.hasEq name = true ∧
      sys' = { sys with eqs := sys.eqs.filter (fun e => e.name ≠ name) }) := by
  unfold updateEquation at h
  simp only at h
  split at h
  · cases h; exact Or.inl ⟨rfl, Or.inl rfl⟩
  · rename_i g hg
    split at h
    · cases h; exact Or.inl ⟨rfl, Or.inl rfl⟩
    · rename_i p hp
      split at h
      · rename_i e hr
        cases h
        left
        refine ⟨rfl, Or.inr ?_⟩
        unfold removeEquation at hr
        split at hr
        · cases hr
        · rename_i hh
          cases hr
          exact ⟨rfl, by simpa using hh⟩
      · rename_i s1 hr
        obtain ⟨rfl, hhas⟩ := removeEquation_eqs sys s1 name hr
        split at h
        · rename_i e hs
          cases h
          right
          refine ⟨?_, hhas, rfl⟩
          unfold setEquation at hs
          rw [hasEq_removed sys name] at hs
          split at hs
          · rename_i hff; cases hff
          · split at hs
            · cases hs
            · simp only at hs
              split at hs
              · cases hs
              · cases hs; rfl
        · cases h

/-! ### the variable table comes from C05 -/

/-- `VarsOk` is not an extra assumption: it follows from the layout invariant proved in C05 for
    every state of its model, given that the md-grid lists each grid once (C24). -/
theorem varsOk_of_c05 (e : C05.Env) (hn : e.order.Nodup) (s : C05.State) (h : C05.Inv e s) :
    (ofC05 e s).VarsOk := by
  refine ⟨?_, ?_, ?_⟩
  · have : (ofC05 e s).vars.map (·.id) = s.vars.map (·.id) := by simp [ofC05, List.map_map, Function.comp_def]
    rw [this]
    exact h.idsLt.imp (fun hlt => Nat.ne_of_lt hlt)
  · have : (ofC05 e s).grids.map (·.id) = e.order := by
      simp [ofC05, C05.Env.order, List.map_map, Function.comp_def]
    rw [this]
    exact hn
  · intro v hv
    have hg : (ofC05 e s).grids.map (·.id) = e.order := by
      simp [ofC05, C05.Env.order, List.map_map, Function.comp_def]
    rw [hg]
    simp only [ofC05, List.mem_map] at hv
    obtain ⟨w, hw, rfl⟩ := hv
    have := h.kindOk w hw
    simp only [C05.Env.order, List.mem_append]
    cases hsub : w.sub with
    | true => rw [hsub] at this; exact Or.inl this
    | false => rw [hsub] at this; exact Or.inr this

/-- Every variable history of the C05 model followed by every equation history of this model gives
    a system whose `variables=None` columns are all dofs in order. -/
theorem columns_all_reachable (e : C05.Env) (hn : e.order.Nodup) (vops : List C05.Op) (ops : List Op) :
    let sys := run (ofC05 e (C05.run e C05.init vops)) ops
    sys.VarsOk ∧ columnsOf sys none = .ok (List.range (numDofs sys)) := by
  intro sys
  have h0 := varsOk_of_c05 e hn _ (C05.inv_reachable e hn vops)
  have hgv := run_gv ops (ofC05 e (C05.run e C05.init vops))
  have hok : sys.VarsOk := by
    unfold Sys.VarsOk
    show ((run _ ops).vars.map (·.id)).Nodup ∧ ((run _ ops).grids.map (·.id)).Nodup ∧ _
    rw [hgv.1, hgv.2]
    exact h0
  exact ⟨hok, columns_all_aux sys hok⟩

/-! ### non-vacuity: a concrete system

Grids (md order): subdomain 0 (2 cells, 7 faces, 6 nodes), subdomain 1 (3 cells), interface 5
(2 cells).  Variables: id 0 on grid 0 (2 dofs), id 1 on grid 1 (3 dofs), id 2 on grid 5 (4 dofs).
Equation 1 is set on grids [1, 0] (cells), equation 2 on [5], equation 3 on no grid, then
equation 1 is removed and set again (it becomes the LAST equation). -/

def exSys : Sys :=
  run (init [⟨0, false, 2, 7, 6⟩, ⟨1, false, 3, 4, 4⟩, ⟨5, true, 2, 0, 0⟩]
            [⟨0, 0, 0, 2⟩, ⟨1, 0, 1, 3⟩, ⟨2, 1, 5, 4⟩])
    [.set 1 [1, 0] ⟨1, 0, 0⟩, .set 2 [5] ⟨1, 0, 0⟩, .set 3 [] ⟨1, 0, 0⟩, .set 2 [0] ⟨1, 0, 0⟩,
     .remove 1, .set 1 [1, 0] ⟨1, 0, 0⟩]

/-- evaluated rows: equation `n`, row `i` has value `10 n + i` and one Jacobian entry `1/2` in column `i` -/
def exEv (n : Nat) : List Row :=
  (List.range (if n = 1 then 5 else if n = 2 then 2 else 0)).map
    (fun i => ⟨(10 * n + i : Nat), [(i, 1 / 2)]⟩)

example : exSys.eqs = [⟨2, [(5, [0, 1])]⟩, ⟨3, []⟩, ⟨1, [(0, [0, 1]), (1, [2, 3, 4])]⟩] := by
  decide +kernel

example : exSys.VarsOk := by
  refine ⟨by decide +kernel, by decide +kernel, ?_⟩
  intro v hv
  have : v ∈ [(⟨0, 0, 0, 2⟩ : Var), ⟨1, 0, 1, 3⟩, ⟨2, 1, 5, 4⟩] := hv
  simp only [List.mem_cons, List.not_mem_nil, or_false] at this
  rcases this with rfl | rfl | rfl <;> decide +kernel

example : exSys.Inv ∧ Consistent exSys exEv := by
  refine ⟨inv_reachable _ _ _, ?_⟩
  intro e he
  have : e ∈ [(⟨2, [(5, [0, 1])]⟩ : Equation), ⟨3, []⟩, ⟨1, [(0, [0, 1]), (1, [2, 3, 4])]⟩] := by
    have h : exSys.eqs = [⟨2, [(5, [0, 1])]⟩, ⟨3, []⟩, ⟨1, [(0, [0, 1]), (1, [2, 3, 4])]⟩] := by
      decide +kernel
    rw [← h]; exact he
  simp only [List.mem_cons, List.not_mem_nil, or_false] at this
  rcases this with rfl | rfl | rfl <;> decide +kernel

/-- request `[e1 restricted to grid 1 (given twice), "e2", Operator e1 restricted to grid 1]` with the
    variables "name 0" : rows 4,5,6 of equation 1 come AFTER those of equation 2, columns 0..4 -/
example :
    rowIdx exSys exEv (.list [.dict [(.str 1, [1, 1])], .key (.str 2), .dict [(.op 1, [1])]]) = [0, 1, 4, 5, 6] := by
  decide +kernel

example :
    (assemble exSys exEv true (.list [.dict [(.str 1, [0])], .key (.str 2), .dict [(.op 1, [1])]])
        (some [.name 0])).2.toOption.map (fun o => (o.b, o.cols)) =
      some ([-20, -21, -12, -13, -14], [0, 1, 2, 3, 4]) := by
  decide +kernel

example :
    (assemble exSys exEv true (.dict [(.str 1, []), (.op 2, [5]), (.str 3, [])]) none).1.lastIdx =
      [(2, [0, 1]), (3, []), (1, [])] := by
  decide +kernel

example : errOf (assemble exSys exEv true (.dict [(.str 1, [5])]) none).2 = some .value := by
  decide +kernel

example : errOf (assemble exSys exEv false (.list [.key .bad]) none).2 = some .type := by
  decide +kernel

/-- update with the defaults: equation 2 moves to the END; with a foreign grid the equation is lost -/
example : ((updateEquation exSys 2 none none).1.eqs.map (·.name), (updateEquation exSys 2 none none).2) =
    ([3, 1, 2], none) := by decide +kernel

example : ((updateEquation exSys 2 (some [5, 77]) none).1.eqs.map (·.name),
    (updateEquation exSys 2 (some [5, 77]) none).2) = ([3, 1], some .assertion) := by decide +kernel

example : (updateEquation exSys 9 none none).2 = some .key := by decide +kernel

/-- an operator of equation 1 with only 3 of its 5 declared rows: restricting to grid 0 (rows 0,1)
    works, restricting to grid 1 (rows 2,3,4) raises IndexError, the unrestricted request works -/
def exShort (n : Nat) : List Row :=
  (List.range (if n = 1 then 3 else if n = 2 then 2 else 0)).map (fun i => ⟨(10 * n + i : Nat), []⟩)

example : (errOf (assemble exSys exShort true (.dict [(.str 1, [0])]) none).2,
    errOf (assemble exSys exShort true (.dict [(.str 2, [5]), (.str 1, [1])]) none).2,
    (assemble exSys exShort true (.dict [(.str 2, [5]), (.str 1, [1])]) none).1.lastIdx,
    errOf (assemble exSys exShort false (.list [.key (.op 1)]) none).2) =
    (none, some .index, [(2, [0, 1])], none) := by decide +kernel

example : OutOfRange exSys exShort (.dict [(.str 1, [1])]) :=
  ⟨⟨1, [(0, [0, 1]), (1, [2, 3, 4])]⟩, by decide +kernel, [2, 3, 4], by decide +kernel, 3, by decide, by decide +kernel⟩

end PorepyVerif.C06
