/-
C06 — executable model of the equation bookkeeping and (restricted) assembly of
`porepy.numerics.ad.equation_system.EquationSystem` (core Lean only).

Mirrored methods: `set_equation` (the two loops that build `_equation_image_space_composition`),
`remove_equation`, `_parse_single_equation`, `_parse_equations`, `assemble` (both branches, the
`ind_start` bookkeeping, `assembled_equation_indices`), `_parse_variable_type`, `dofs_of`,
`projection_to` (only what `assemble` needs of the DOF layout: `_cluster_dofs_gridwise` order).

Grids, equation names and variable names are natural-number keys.  The md-grid listing order
(`mdg.subdomains()` followed by `mdg.interfaces()`) and the entity counts are data (`Sys.grids`).
An equation's *evaluated rows* (what `self.evaluate(eqs, …)` returns for it: residual entry and
CSR Jacobian row per row) are data as well (`ev : Nat → List Row`): the AD evaluation itself is
C01/C02, this model is about which rows and columns of it end up where.

Python dictionaries are association lists; `dict.update` is modelled by prepending (look-up
finds the newest entry first).  That is faithful here because the code never iterates over the
dictionaries that are updated with possibly repeated keys (`requested_row_blocks`,
`restricted_equations`): it only looks names up in them, in the order of `self._equations`.

The last section (`ofC05`) reads the variable table of the C05 model (degree-of-freedom layout,
also core Lean only) so that the well-formedness of the variables can be taken from C05's proved
invariant instead of being assumed.
-/
import PorepyVerif.C05.Model

namespace PorepyVerif.C06

inductive Err where
  | value      -- ValueError
  | type       -- TypeError
  | assertion  -- AssertionError
  | index      -- IndexError
  | key        -- KeyError
deriving DecidableEq, Repr

abbrev GridId := Nat

/-- One grid of the md-grid as `set_equation` / `_append_dofs` see it. -/
structure Grid where
  id : GridId
  intf : Bool      -- `isinstance(g, pp.MortarGrid)`
  cells : Nat
  faces : Nat
  nodes : Nat
deriving DecidableEq, Repr

/-- `equations_per_grid_entity` / `dof_info` read with `.get(kind, 0)` -/
structure PerEntity where
  cells : Nat
  faces : Nat
  nodes : Nat
deriving DecidableEq, Repr

/-- number of rows (or dofs) a grid contributes: interfaces only count cells -/
def rowsOn (g : Grid) (m : PerEntity) : Nat :=
  if g.intf then g.cells * m.cells
  else g.cells * m.cells + g.nodes * m.nodes + g.faces * m.faces

/-- `_equations[name]` together with `_equation_image_space_composition[name]`
    (a dict grid → index array, in insertion order) -/
structure Equation where
  name : Nat
  image : List (GridId × List Nat)
deriving DecidableEq, Repr

/-- An atomic variable with its number of dofs (as computed by `_append_dofs`). -/
structure Var where
  id : Nat
  name : Nat
  grid : GridId
  ndof : Nat
deriving DecidableEq, Repr

structure Sys where
  grids : List Grid                    -- md order: subdomains, then interfaces
  vars : List Var                      -- `_variables` (creation order)
  eqs : List Equation                  -- `_equations` (dict order = order of setting)
  lastIdx : List (Nat × List Nat)      -- `assembled_equation_indices` (dict order)
  sizeInfo : List (Nat × PerEntity)    -- `_equation_image_size_info` (newest entry first; NOT
                                       -- cleaned by `remove_equation`, exactly as in the code)
deriving DecidableEq, Repr

/-! ### set_equation / remove_equation -/

def Sys.hasEq (sys : Sys) (name : Nat) : Bool := sys.eqs.any (fun e => e.name = name)

/-- `_equations[name]` (with its image information) -/
def findEq : List Equation → Nat → Option Equation
  | [], _ => none
  | e :: es, n => if e.name = n then some e else findEq es n

/-- The two loops of `set_equation` over `mdg.subdomains()` and `mdg.interfaces()`:
    `block_idx = arange(n) + total`, `grids.remove(g)`.  Returns the image information and
    what is left of the caller's grid list. -/
def imageLoop (m : PerEntity) : List Grid → List GridId → Nat → List (GridId × List Nat) × List GridId
  | [], rem, _ => ([], rem)
  | g :: gs, rem, total =>
    if g.id ∈ rem then
      let n := rowsOn g m
      let r := imageLoop m gs (rem.erase g.id) (total + n)
      ((g.id, (List.range n).map (· + total)) :: r.1, r.2)
    else imageLoop m gs rem total

/-- `set_equation`.  (The test `not all_interfaces + all_subdomains <= 1` of the code can only
    fire for an empty grid list, which has returned before, so a list mixing subdomains and
    interfaces is accepted — modelled as coded.) -/
def setEquation (sys : Sys) (name : Nat) (grids : List GridId) (m : PerEntity) : Except Err Sys :=
  if sys.hasEq name then .error .value
  else if grids.isEmpty then
    .ok { sys with eqs := sys.eqs ++ [⟨name, []⟩], sizeInfo := (name, m) :: sys.sizeInfo }
  else
    let r := imageLoop m sys.grids grids 0
    if r.2.isEmpty then
      .ok { sys with eqs := sys.eqs ++ [⟨name, r.1⟩], sizeInfo := (name, m) :: sys.sizeInfo }
    else .error .assertion

/-- `remove_equation` -/
def removeEquation (sys : Sys) (name : Nat) : Except Err Sys :=
  if sys.hasEq name then .ok { sys with eqs := sys.eqs.filter (fun e => e.name ≠ name) }
  else .error .value

/-! ### _parse_single_equation / _parse_equations -/

/-- how an equation is named in a request: a string, an `Operator` (only its name is looked
    at), or something else (→ TypeError) -/
inductive Key where
  | str (n : Nat)
  | op (n : Nat)
  | bad
deriving DecidableEq, Repr

def Key.name? : Key → Option Nat
  | .str n => some n
  | .op n => some n
  | .bad => none

/-- one element of an `EquationList`: an identifier, or a dict identifier → grids -/
inductive Item where
  | key (k : Key)
  | dict (entries : List (Key × List GridId))
deriving Repr

inductive Request where
  | all                                           -- `equations=None`
  | list (items : List Item)                      -- a list
  | dict (entries : List (Key × List GridId))     -- a dict (restriction)
deriving Repr

/-- parsed row blocks: name ↦ `None` (whole equation) or the local row indices -/
abbrev Blocks := List (Nat × Option (List Nat))

/-- rows of the requested grids, in the order of the image information
    (`for grid in img_info: if grid in grids: block_idx.append(img_info[grid])`) -/
def localRows : List (GridId × List Nat) → List GridId → List Nat
  | [], _ => []
  | p :: rest, gs => if p.1 ∈ gs then p.2 ++ localRows rest gs else localRows rest gs

/-- one `equ, grids` pair of a restriction dictionary -/
def parseEntry (sys : Sys) (k : Key) (gs : List GridId) : Except Err (Nat × Option (List Nat)) :=
  match k.name? with
  | none => .error .type
  | some name =>
    match findEq sys.eqs name with
    | none => .error .value
    | some e =>
      if gs.all (fun g => e.image.any (fun p => p.1 = g)) then .ok (name, some (localRows e.image gs))
      else .error .value

def parseEntries (sys : Sys) : List (Key × List GridId) → Except Err Blocks
  | [] => .ok []
  | (k, gs) :: rest =>
    match parseEntry sys k gs with
    | .error e => .error e
    | .ok p =>
      match parseEntries sys rest with
      | .error e => .error e
      | .ok ps => .ok (p :: ps)

/-- `_parse_single_equation`: the dictionary `block` it returns, in processing order
    (a name processed twice is overwritten by the later entry: see `update`). -/
def parseSingle (sys : Sys) : Item → Except Err Blocks
  | .key k =>
    match k.name? with
    | none => .error .type
    | some name => if sys.hasEq name then .ok [(name, none)] else .error .value
  | .dict es => parseEntries sys es

/-- dictionary look-up: first (= newest) entry -/
def lookup (name : Nat) : List (Nat × β) → Option β
  | [] => none
  | p :: rest => if p.1 = name then some p.2 else lookup name rest

/-- `update_equation(name, new_equation, grids, equations_per_grid_entity)`: the defaults are read
    from the stored image composition / size information (KeyError if missing), then the
    equation is REMOVED and SET again, i.e. it moves to the END of the order.  If the second
    step fails (unknown or repeated grid) the equation stays removed: the new state is returned
    together with the error. -/
def updateEquation (sys : Sys) (name : Nat) (grids : Option (List GridId)) (per : Option PerEntity) :
    Sys × Option Err :=
  let g? : Option (List GridId) := match grids with
    | some g => some g
    | none => match findEq sys.eqs name with
      | some e => some (e.image.map (·.1))
      | none => none
  let p? : Option PerEntity := match per with
    | some p => some p
    | none => lookup name sys.sizeInfo
  match g? with
  | none => (sys, some .key)
  | some g =>
    match p? with
    | none => (sys, some .key)
    | some p =>
      match removeEquation sys name with
      | .error e => (sys, some e)
      | .ok s1 =>
        match setEquation s1 name g p with
        | .error e => (s1, some e)
        | .ok s2 => (s2, none)

/-- `d.update(block)` -/
def update (d block : List (Nat × β)) : List (Nat × β) := block.reverse ++ d

/-- the loop `for equation in equations: …update(block)` -/
def parseItems (sys : Sys) (d : Blocks) : List Item → Except Err Blocks
  | [] => .ok d
  | it :: rest =>
    match parseSingle sys it with
    | .error e => .error e
    | .ok b => parseItems sys (update d b) rest

/-- `for equation in self._equations: if equation in requested_row_blocks: …` -/
def orderBlocks (eqs : List Equation) (d : Blocks) : Blocks :=
  eqs.filterMap (fun e => (lookup e.name d).map (fun r => (e.name, r)))

/-- `_parse_equations`.  A dict request is processed key by key through
    `_parse_single_equation({key: grids})`. -/
def parseEquations (sys : Sys) : Request → Except Err Blocks
  | .all => .ok (sys.eqs.map (fun e => (e.name, none)))
  | .list items =>
    match parseItems sys [] items with
    | .error e => .error e
    | .ok d => .ok (orderBlocks sys.eqs d)
  | .dict es =>
    match parseItems sys [] (es.map (fun p => Item.dict [p])) with
    | .error e => .error e
    | .ok d => .ok (orderBlocks sys.eqs d)

/-! ### evaluated equations and row slicing -/

/-- one row of an evaluated equation: `ad.val[i]` and the CSR row `ad.jac[i]` (column, value);
    columns not listed are zero -/
structure Row where
  val : Rat
  jac : List (Nat × Rat)
deriving DecidableEq, Repr

/-- entry of a CSR row -/
def coefIn : List (Nat × Rat) → Nat → Rat
  | [], _ => 0
  | p :: rest, c => if p.1 = c then p.2 else coefIn rest c

def Row.coef (r : Row) (c : Nat) : Rat := coefIn r.jac c

/-- fancy indexing `x[idx]`; `none` = IndexError -/
def getIdx (xs : List α) : List Nat → Option (List α)
  | [] => some []
  | i :: is =>
    match xs[i]?, getIdx xs is with
    | some x, some r => some (x :: r)
    | _, _ => none

/-- `x[row] if row is not None else x` -/
def takeRows (xs : List α) : Option (List Nat) → Except Err (List α)
  | none => .ok xs
  | some idx =>
    match getIdx xs idx with
    | some r => .ok r
    | none => .error .index

/-- `ind_start = block_indices[-1] + 1` if the block is not empty, else unchanged -/
def nextStart (bi : List Nat) (s : Nat) : Nat :=
  match bi.getLast? with
  | some l => l + 1
  | none => s

/-- The loop of the `evaluate_jacobian=True` branch: row slicing, `block_indices =
    arange(block_length) + ind_start`, `ind_start = block_indices[-1] + 1` if the block is not
    empty.  Returns the stacked rows and `assembled_equation_indices`. -/
def jacLoop (ev : Nat → List Row) : Blocks → Nat → Except Err (List Row × List (Nat × List Nat))
  | [], _ => .ok ([], [])
  | (name, r) :: rest, s =>
    match takeRows (ev name) r with
    | .error e => .error e
    | .ok rows =>
      let bi := (List.range rows.length).map (· + s)
      match jacLoop ev rest (nextStart bi s) with
      | .error e => .error e
      | .ok (rs, ix) => .ok (rows ++ rs, (name, bi) :: ix)

/-- `assembled_equation_indices` as far as the Jacobian loop fills it: all blocks if every row
    slicing succeeds, else the blocks before the first one that raises IndexError. -/
def idxPrefix (ev : Nat → List Row) : Blocks → Nat → List (Nat × List Nat)
  | [], _ => []
  | (name, r) :: rest, s =>
    match takeRows (ev name) r with
    | .error _ => []
    | .ok rows =>
      let bi := (List.range rows.length).map (· + s)
      (name, bi) :: idxPrefix ev rest (nextStart bi s)

/-- The loop of the `evaluate_jacobian=False` branch (values only, no index bookkeeping). -/
def resLoop (ev : Nat → List Row) : Blocks → Except Err (List Rat)
  | [] => .ok []
  | (name, r) :: rest =>
    match takeRows ((ev name).map (·.val)) r with
    | .error e => .error e
    | .ok vals =>
      match resLoop ev rest with
      | .error e => .error e
      | .ok vs => .ok (vals ++ vs)

/-! ### columns: _parse_variable_type, dofs_of, projection_to -/

inductive VarItem where
  | name (n : Nat)          -- a string
  | var (id : Nat)          -- a Variable
  | md (ids : List Nat)     -- a MixedDimensionalVariable (its `sub_vars`)
  | bad                     -- anything else → ValueError
deriving DecidableEq, Repr

def parseVarItems (sys : Sys) : List VarItem → Except Err (List Nat)
  | [] => .ok []
  | it :: rest =>
    match parseVarItems sys rest with
    | .error e => .error e
    | .ok ids =>
      match it with
      | .name n => .ok (((sys.vars.filter (fun v => v.name = n)).map (·.id)) ++ ids)
      | .var i => .ok (i :: ids)
      | .md l => .ok (l ++ ids)
      | .bad => .error .value

/-- block order made by `_cluster_dofs_gridwise`: per grid in md order, variables in creation order -/
def dofOrder (sys : Sys) : List Var :=
  sys.grids.flatMap (fun g => sys.vars.filter (fun v => v.grid = g.id))

/-- `arange(global_variable_dofs[k], global_variable_dofs[k+1])` of the block of variable `id` -/
def dofRange : List Var → Nat → Nat → Option (List Nat)
  | [], _, _ => none
  | v :: vs, off, id =>
    if v.id = id then some ((List.range v.ndof).map (· + off)) else dofRange vs (off + v.ndof) id

def numDofs (sys : Sys) : Nat := ((dofOrder sys).map (·.ndof)).sum

/-- `dofs_of` (order of the argument, no uniquification) -/
def dofsOf (sys : Sys) : List Nat → Except Err (List Nat)
  | [] => .ok []
  | i :: is =>
    match dofRange (dofOrder sys) 0 i with
    | none => .error .value
    | some r =>
      match dofsOf sys is with
      | .error e => .error e
      | .ok rs => .ok (r ++ rs)

def insertSorted (a : Nat) : List Nat → List Nat
  | [] => [a]
  | b :: l => if a ≤ b then a :: b :: l else b :: insertSorted a l

/-- `np.sort` (insertion sort, structural) -/
def isort : List Nat → List Nat
  | [] => []
  | a :: l => insertSorted a (isort l)

/-- column indices selected by `projection_to(variables).transpose()`:
    `variables=None` means `self.variables`; an empty list selects nothing. -/
def columnsOf (sys : Sys) : Option (List VarItem) → Except Err (List Nat)
  | none =>
    match dofsOf sys (sys.vars.map (·.id)) with
    | .error e => .error e
    | .ok d => .ok (isort d)
  | some items =>
    if items.isEmpty then .ok []
    else
      match parseVarItems sys items with
      | .error e => .error e
      | .ok ids =>
        match dofsOf sys ids with
        | .error e => .error e
        | .ok d => .ok (isort d)

/-! ### assemble -/

/-- result of `assemble`: the selected rows (unprojected) and the selected columns;
    `A` and `b` are what the method returns. -/
structure Out where
  rows : List Row
  cols : List Nat
  resOnly : List Rat      -- the `evaluate_jacobian=False` result (empty otherwise)
deriving DecidableEq, Repr

def Out.A (o : Out) : List (List Rat) := o.rows.map (fun r => o.cols.map r.coef)
def Out.b (o : Out) : List Rat := o.rows.map (fun r => - r.val)

/-- `assemble(evaluate_jacobian, equations, variables)` on evaluated equations `ev`.
    Returns the new state (`assembled_equation_indices` is replaced only in the Jacobian branch,
    and before `projection_to` can raise) and the result. -/
def assemble (sys : Sys) (ev : Nat → List Row) (jac : Bool) (req : Request)
    (vars : Option (List VarItem)) : Sys × Except Err Out :=
  match parseEquations sys req with
  | .error e => (sys, .error e)
  | .ok blocks =>
    if jac then
      match jacLoop ev blocks 0 with
      | .error e => ({ sys with lastIdx := idxPrefix ev blocks 0 }, .error e)
      | .ok (rows, ix) =>
        match columnsOf sys vars with
        | .error e => ({ sys with lastIdx := ix }, .error e)
        | .ok cols => ({ sys with lastIdx := ix }, .ok ⟨rows, cols, []⟩)
    else
      match resLoop ev blocks with
      | .error e => (sys, .error e)
      | .ok vals => (sys, .ok ⟨[], [], vals.map (fun v => - v)⟩)

/-! ### Specification -/

/-- the fully assembled system: every equation's rows, in the order the equations were set -/
def fullRows (eqs : List Equation) (ev : Nat → List Row) : List Row :=
  eqs.flatMap (fun e => ev e.name)

/-- the last entry for `name` in a list of request entries (later entries override earlier ones) -/
def lastFor (name : Nat) : List (Nat × β) → Option β
  | [] => none
  | p :: rest =>
    match lastFor name rest with
    | some w => some w
    | none => if p.1 = name then some p.2 else none

/-- a request flattened to (name, `none` = whole equation | `some grids`) in reading order;
    identifiers without a name (TypeError) contribute nothing -/
def Item.entries : Item → List (Nat × Option (List GridId))
  | .key k => match k.name? with
    | some n => [(n, none)]
    | none => []
  | .dict es => es.filterMap (fun p => p.1.name?.map (fun n => (n, some p.2)))

def Request.entries : Request → List (Nat × Option (List GridId))
  | .all => []
  | .list items => items.flatMap Item.entries
  | .dict es => es.filterMap (fun p => p.1.name?.map (fun n => (n, some p.2)))

/-- What a request asks of equation `e`: `none` = not requested, `some none` = all its rows,
    `some (some idx)` = the local rows of the listed grids (md order). -/
def Request.sel (req : Request) (e : Equation) : Option (Option (List Nat)) :=
  match req with
  | .all => some none
  | _ => (lastFor e.name req.entries).map (fun og => og.map (localRows e.image))

/-- local row numbers selected in an equation with `len` evaluated rows -/
def localIdx (len : Nat) : Option (List Nat) → List Nat
  | none => List.range len
  | some idx => idx

/-- Row numbers *in the full system* of the rows a selection picks: equations in the order they
    were set, `off` = number of full-system rows before the current equation. -/
def sliceIdx (ev : Nat → List Row) (sel : Equation → Option (Option (List Nat))) :
    List Equation → Nat → List Nat
  | [], _ => []
  | e :: es, off =>
    (match sel e with
      | none => []
      | some r => (localIdx (ev e.name).length r).map (· + off))
    ++ sliceIdx ev sel es (off + (ev e.name).length)

/-- the parsed row blocks a selection stands for: requested equations in the order of setting -/
def blocksOf (sel : Equation → Option (Option (List Nat))) (es : List Equation) : Blocks :=
  es.filterMap (fun e => (sel e).map (fun r => (e.name, r)))

/-- full-system row numbers of the rows a request selects -/
def rowIdx (sys : Sys) (ev : Nat → List Row) (req : Request) : List Nat :=
  sliceIdx ev req.sel sys.eqs 0

/-- dofs of one variable id (empty if the id is not registered) -/
def dofRangeD (sys : Sys) (i : Nat) : List Nat := (dofRange (dofOrder sys) 0 i).getD []

/-- the variable ids a `variables` argument stands for (`_parse_variable_type`;
    `None` = all variables, the empty list = none) -/
def requestedIds (sys : Sys) : Option (List VarItem) → Except Err (List Nat)
  | none => .ok (sys.vars.map (·.id))
  | some items => if items.isEmpty then .ok [] else parseVarItems sys items

/-- histories of calls -/
inductive Op where
  | set (name : Nat) (grids : List GridId) (m : PerEntity)
  | remove (name : Nat)
  | update (name : Nat) (grids : Option (List GridId)) (m : Option PerEntity)
  | assemble (ev : Nat → List Row) (jac : Bool) (req : Request) (vars : Option (List VarItem))

/-- a failing `set_equation` / `remove_equation` leaves the system unchanged -/
def applyOp (sys : Sys) : Op → Sys
  | .set n gs m =>
    match setEquation sys n gs m with
    | .ok s => s
    | .error _ => sys
  | .remove n =>
    match removeEquation sys n with
    | .ok s => s
    | .error _ => sys
  | .update n gs m => (updateEquation sys n gs m).1
  | .assemble ev jac req vars => (assemble sys ev jac req vars).1

def run (sys : Sys) (ops : List Op) : Sys := ops.foldl applyOp sys

/-- `EquationSystem(mdg)` after the variables have been created -/
def init (grids : List Grid) (vars : List Var) : Sys := ⟨grids, vars, [], [], []⟩

/-- declared number of rows of an equation -/
def Equation.total (e : Equation) : Nat := (e.image.flatMap (·.2)).length

/-- The image information is the consecutive numbering 0,1,…  (established by `set_equation`). -/
def Equation.ImageOk (e : Equation) : Prop := e.image.flatMap (·.2) = List.range e.total

/-- Invariant of the equation table. -/
def Sys.Inv (sys : Sys) : Prop :=
  (sys.eqs.map (·.name)).Nodup ∧ ∀ e ∈ sys.eqs, e.ImageOk

/-- The evaluated operators have the declared number of rows (not checked by the code either:
    this is the assumption under which restricted assembly is meaningful). -/
def Consistent (sys : Sys) (ev : Nat → List Row) : Prop :=
  ∀ e ∈ sys.eqs, (ev e.name).length = e.total

/-- The weaker condition the slice theorems really need: every evaluated operator has AT LEAST
    the declared number of rows (surplus rows are reachable only through unrestricted requests). -/
def Covers (sys : Sys) (ev : Nat → List Row) : Prop :=
  ∀ e ∈ sys.eqs, e.total ≤ (ev e.name).length

/-- A request touches a row the evaluated operator does not have: some equation is requested
    with a grid restriction whose local rows reach beyond the operator's length. -/
def OutOfRange (sys : Sys) (ev : Nat → List Row) (req : Request) : Prop :=
  ∃ e ∈ sys.eqs, ∃ idx, req.sel e = some (some idx) ∧ ∃ i ∈ idx, (ev e.name).length ≤ i

/-- Well-formed variable table (the DOF layout itself is property C05): distinct variable ids,
    distinct grid ids, every variable lives on a grid of the md-grid. -/
def Sys.VarsOk (sys : Sys) : Prop :=
  (sys.vars.map (·.id)).Nodup ∧ (sys.grids.map (·.id)).Nodup ∧
    ∀ v ∈ sys.vars, v.grid ∈ sys.grids.map (·.id)

/-- The C06 view of a state of the C05 model: its md-grid listing and its registered variables
    (dof counts = `C05.varSize`), no equations yet. -/
def ofC05 (e : C05.Env) (s : C05.State) : Sys :=
  ⟨e.subs.map (fun g => ⟨g, false, e.cells g, e.faces g, e.nodes g⟩) ++
     e.intfs.map (fun g => ⟨g, true, e.cells g, 0, 0⟩),
   s.vars.map (fun v => ⟨v.id, v.name, v.grid, C05.varSize e v⟩), [], [], []⟩

/-- the error of a result, if any (for stating concrete examples) -/
def errOf : Except Err α → Option Err
  | .error e => some e
  | .ok _ => none

/-! ### helpers for the driver -/

def mkVar (grids : List Grid) (id name : Nat) (grid : GridId) (m : PerEntity) : Var :=
  ⟨id, name, grid, match grids.find? (fun g => g.id = grid) with
    | some g => rowsOn g m
    | none => 0⟩

/-- split the rows of a full system into the equations' blocks by their declared sizes -/
def splitFull : List Equation → List Row → List (Nat × List Row)
  | [], _ => []
  | e :: es, rows => (e.name, rows.take e.total) :: splitFull es (rows.drop e.total)

/-- split rows into consecutive chunks of given lengths (the driver uses it when the harness
    announces operators whose length differs from the declared one) -/
def splitBy : List (Nat × Nat) → List Row → List (Nat × List Row)
  | [], _ => []
  | (name, len) :: rest, rows => (name, rows.take len) :: splitBy rest (rows.drop len)

def evOf (tbl : List (Nat × List Row)) (name : Nat) : List Row := (lookup name tbl).getD []

end PorepyVerif.C06
