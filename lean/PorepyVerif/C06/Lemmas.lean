/-
C06 — helper lemmas about the model (no property statements here).
-/
import PorepyVerif.C06.Model

namespace PorepyVerif.C06

/-! ### ranges -/

theorem range_shift_append (n k t : Nat) :
    (List.range n).map (· + t) ++ (List.range k).map (· + (t + n)) = (List.range (n + k)).map (· + t) := by
  rw [List.range_add, List.map_append, List.map_map]
  congr 1
  apply List.map_congr_left
  intro a _
  simp only [Function.comp]
  omega

theorem indStart_eq (n s : Nat) : nextStart ((List.range n).map (· + s)) s = s + n := by
  unfold nextStart
  cases n with
  | zero => simp
  | succ n =>
    simp only [List.range_succ, List.map_append, List.map_cons, List.map_nil, List.getLast?_append,
      List.getLast?_singleton, Option.some_or]
    show n + s + 1 = s + (n + 1)
    omega

theorem map_some_eq_range (xs : List α) :
    xs.map some = (List.range xs.length).map (fun i => xs[i]?) := by
  apply List.ext_getElem
  · simp
  · intro i h1 h2
    simp at h1
    simp [h1]

/-! ### set_equation -/

theorem imageLoop_range (m : PerEntity) (gs : List Grid) (rem : List GridId) (total : Nat) :
    (imageLoop m gs rem total).1.flatMap (·.2) =
      (List.range ((imageLoop m gs rem total).1.flatMap (·.2)).length).map (· + total) := by
  induction gs generalizing rem total with
  | nil => simp [imageLoop]
  | cons g gs ih =>
    unfold imageLoop
    split
    · simp only [List.flatMap_cons, List.length_append, List.length_map, List.length_range]
      rw [ih (rem.erase g.id) (total + rowsOn g m)]
      rw [List.length_map, List.length_range]
      exact range_shift_append _ _ _
    · exact ih rem total

theorem imageLoop_imageOk (m : PerEntity) (gs : List Grid) (rem : List GridId) (name : Nat) :
    (Equation.mk name (imageLoop m gs rem 0).1).ImageOk := by
  unfold Equation.ImageOk Equation.total
  have h := imageLoop_range m gs rem 0
  simp only [Nat.add_zero, List.map_id'] at h
  exact h

theorem hasEq_iff (sys : Sys) (name : Nat) : sys.hasEq name = true ↔ name ∈ sys.eqs.map (·.name) := by
  unfold Sys.hasEq
  simp only [List.any_eq_true, decide_eq_true_eq, List.mem_map]

theorem inv_append (sys : Sys) (e : Equation) (hinv : sys.Inv) (hn : sys.hasEq e.name = false)
    (he : e.ImageOk) : Sys.Inv { sys with eqs := sys.eqs ++ [e] } := by
  obtain ⟨h1, h2⟩ := hinv
  refine ⟨?_, ?_⟩
  · simp only [List.map_append, List.map_cons, List.map_nil]
    rw [List.nodup_append]
    refine ⟨h1, by simp, ?_⟩
    intro a ha b hb
    simp only [List.mem_singleton] at hb
    subst hb
    intro hab
    subst hab
    have := (hasEq_iff sys _).mpr ha
    rw [hn] at this
    cases this
  · intro x hx
    simp only [List.mem_append, List.mem_singleton] at hx
    rcases hx with hx | rfl
    · exact h2 x hx
    · exact he

theorem setEquation_inv (sys sys' : Sys) (name : Nat) (grids : List GridId) (m : PerEntity)
    (hinv : sys.Inv) (h : setEquation sys name grids m = .ok sys') : sys'.Inv := by
  unfold setEquation at h
  split at h
  · cases h
  · rename_i hn
    have hn' : sys.hasEq name = false := by simpa using hn
    split at h
    · cases h
      exact inv_append sys ⟨name, []⟩ hinv hn' (by simp [Equation.ImageOk, Equation.total])
    · simp only at h
      split at h
      · cases h
        exact inv_append sys ⟨name, _⟩ hinv hn' (imageLoop_imageOk m sys.grids grids name)
      · cases h

theorem removeEquation_inv (sys sys' : Sys) (name : Nat)
    (hinv : sys.Inv) (h : removeEquation sys name = .ok sys') : sys'.Inv := by
  unfold removeEquation at h
  split at h
  · cases h
    obtain ⟨h1, h2⟩ := hinv
    refine ⟨?_, ?_⟩
    · exact List.Nodup.sublist (List.Sublist.map _ List.filter_sublist) h1
    · intro e he
      exact h2 e (List.mem_filter.mp he).1
  · cases h

/-! ### dictionaries -/

theorem lookup_reverse_append (name : Nat) (l d : List (Nat × β)) :
    lookup name (l.reverse ++ d) =
      (match lastFor name l with
        | some v => some v
        | none => lookup name d) := by
  induction l generalizing d with
  | nil => simp [lastFor]
  | cons p l ih =>
    rw [List.reverse_cons, List.append_assoc, List.singleton_append, ih]
    simp only [lastFor]
    cases lastFor name l with
    | some w => rfl
    | none =>
      simp only [lookup]
      split <;> rfl

theorem lastFor_map_val (name : Nat) (f : Nat → β → γ) (l : List (Nat × β)) :
    lastFor name (l.map (fun p => (p.1, f p.1 p.2))) = (lastFor name l).map (f name) := by
  induction l with
  | nil => rfl
  | cons p l ih =>
    simp only [List.map_cons, lastFor, ih]
    cases lastFor name l with
    | some w => rfl
    | none =>
      simp only [Option.map_none]
      split
      · rename_i h; subst h; rfl
      · rfl

theorem lastFor_append (name : Nat) (l1 l2 : List (Nat × β)) :
    lastFor name (l1 ++ l2) =
      (match lastFor name l2 with
        | some v => some v
        | none => lastFor name l1) := by
  induction l1 with
  | nil => cases h : lastFor name l2 <;> simp [lastFor, h]
  | cons p l ih =>
    simp only [List.cons_append, lastFor, ih]
    cases lastFor name l2 <;> rfl

/-- with distinct keys, the last entry is the only entry -/
theorem lastFor_eq_some_iff (name : Nat) (l : List (Nat × β)) (hn : (l.map (·.1)).Nodup) :
    ∀ v, lastFor name l = some v ↔ (name, v) ∈ l := by
  induction l with
  | nil => intro v; simp [lastFor]
  | cons p l ih =>
    simp only [List.map_cons, List.nodup_cons] at hn
    obtain ⟨hp, hl⟩ := hn
    intro v
    simp only [lastFor, List.mem_cons]
    cases hlf : lastFor name l with
    | some w =>
      have hw : (name, w) ∈ l := (ih hl w).mp hlf
      have hne : p.1 ≠ name := by
        intro h; apply hp; rw [h]; exact List.mem_map.mpr ⟨(name, w), hw, rfl⟩
      constructor
      · intro h; cases h; exact Or.inr hw
      · rintro (h | h)
        · exfalso; apply hne; rw [← h]
        · have := (ih hl v).mpr h; rw [hlf] at this; exact this
    | none =>
      constructor
      · intro h
        by_cases hpn : p.1 = name
        · rw [if_pos hpn] at h
          cases h
          left
          rw [← hpn]
        · rw [if_neg hpn] at h
          cases h
      · rintro (h | h)
        · subst h; simp
        · have := (ih hl v).mpr h; rw [hlf] at this; cases this

/-! ### parsing of requests -/

/-- image of the equation called `n` -/
def imageOf (sys : Sys) (n : Nat) : List (GridId × List Nat) :=
  match findEq sys.eqs n with
  | some e => e.image
  | none => []

/-- flattened entries with the grid lists turned into local row numbers -/
def resolve (sys : Sys) (entries : List (Nat × Option (List GridId))) : Blocks :=
  entries.map (fun p => (p.1, p.2.map (localRows (imageOf sys p.1))))

def dictEntries (es : List (Key × List GridId)) : List (Nat × Option (List GridId)) :=
  es.filterMap (fun p => p.1.name?.map (fun n => (n, some p.2)))

theorem resolve_append (sys : Sys) (a b : List (Nat × Option (List GridId))) :
    resolve sys (a ++ b) = resolve sys a ++ resolve sys b := by
  simp [resolve]

theorem parseEntry_ok (sys : Sys) (k : Key) (gs : List GridId) (p : Nat × Option (List Nat))
    (h : parseEntry sys k gs = .ok p) :
    ∃ n, k.name? = some n ∧ p = (n, some (localRows (imageOf sys n) gs)) := by
  unfold parseEntry at h
  split at h
  · cases h
  · rename_i n hn
    split at h
    · cases h
    · rename_i e he
      split at h
      · cases h
        exact ⟨n, hn, by simp [imageOf, he]⟩
      · cases h

theorem parseEntries_ok (sys : Sys) (es : List (Key × List GridId)) (ps : Blocks)
    (h : parseEntries sys es = .ok ps) : ps = resolve sys (dictEntries es) := by
  induction es generalizing ps with
  | nil =>
    simp only [parseEntries] at h
    cases h
    rfl
  | cons kg es ih =>
    obtain ⟨k, gs⟩ := kg
    simp only [parseEntries] at h
    split at h
    · cases h
    · rename_i p hp
      split at h
      · cases h
      · rename_i ps' hps
        cases h
        obtain ⟨n, hn, rfl⟩ := parseEntry_ok sys k gs p hp
        rw [ih ps' hps]
        simp [dictEntries, resolve, hn]

theorem parseSingle_ok (sys : Sys) (it : Item) (b : Blocks) (h : parseSingle sys it = .ok b) :
    b = resolve sys it.entries := by
  cases it with
  | key k =>
    simp only [parseSingle] at h
    split at h
    · cases h
    · rename_i n hn
      split at h
      · cases h
        simp [Item.entries, hn, resolve]
      · cases h
  | dict es =>
    simp only [parseSingle] at h
    exact parseEntries_ok sys es b h

theorem parseItems_ok (sys : Sys) (items : List Item) (d d' : Blocks)
    (h : parseItems sys d items = .ok d') :
    d' = (resolve sys (items.flatMap Item.entries)).reverse ++ d := by
  induction items generalizing d with
  | nil =>
    simp only [parseItems] at h
    cases h
    simp [resolve]
  | cons it rest ih =>
    simp only [parseItems] at h
    split at h
    · cases h
    · rename_i b hb
      rw [ih _ h, parseSingle_ok sys it b hb]
      simp [update, resolve_append, List.reverse_append]

theorem findEq_of_mem (eqs : List Equation) (hn : (eqs.map (·.name)).Nodup) (e : Equation)
    (he : e ∈ eqs) : findEq eqs e.name = some e := by
  induction eqs with
  | nil => cases he
  | cons a l ih =>
    simp only [List.map_cons, List.nodup_cons] at hn
    simp only [findEq]
    rcases List.mem_cons.mp he with rfl | h
    · simp
    · have hne : a.name ≠ e.name := by
        intro hh
        apply hn.1
        rw [hh]
        exact List.mem_map.mpr ⟨e, h, rfl⟩
      rw [if_neg hne]
      exact ih hn.2 h

theorem lookup_resolved (sys : Sys) (hinv : sys.Inv) (e : Equation) (he : e ∈ sys.eqs)
    (ents : List (Nat × Option (List GridId))) :
    lookup e.name ((resolve sys ents).reverse ++ []) =
      (lastFor e.name ents).map (fun og => og.map (localRows e.image)) := by
  rw [lookup_reverse_append]
  have h3 := lastFor_map_val e.name
    (fun n (og : Option (List GridId)) => og.map (localRows (imageOf sys n))) ents
  unfold resolve
  rw [h3]
  have h2 : imageOf sys e.name = e.image := by
    simp [imageOf, findEq_of_mem sys.eqs hinv.1 e he]
  rw [h2]
  cases lastFor e.name ents <;> rfl

theorem entries_of_dict_items (es : List (Key × List GridId)) :
    (es.map (fun p => Item.dict [p])).flatMap Item.entries = dictEntries es := by
  induction es with
  | nil => rfl
  | cons p es ih =>
    simp only [List.map_cons, List.flatMap_cons, ih, dictEntries, List.filterMap_cons, Item.entries,
      List.filterMap_nil]
    cases p.1.name? <;> rfl

/-! ### row slicing -/

theorem getIdx_inv (xs : List α) (idx : List Nat) (r : List α) (h : getIdx xs idx = some r) :
    r.map some = idx.map (fun i => xs[i]?) := by
  induction idx generalizing r with
  | nil =>
    simp only [getIdx] at h
    cases h
    rfl
  | cons i is ih =>
    simp only [getIdx] at h
    split at h
    · rename_i x r' hx hr
      cases h
      simp [hx, ih r' hr]
    · cases h

theorem getIdx_ok (xs : List α) (idx : List Nat) (h : ∀ i ∈ idx, i < xs.length) :
    ∃ r, getIdx xs idx = some r := by
  induction idx with
  | nil => exact ⟨[], rfl⟩
  | cons i is ih =>
    obtain ⟨r, hr⟩ := ih (fun j hj => h j (List.mem_cons_of_mem _ hj))
    have hi := h i List.mem_cons_self
    exact ⟨xs[i] :: r, by simp [getIdx, hr, List.getElem?_eq_getElem hi]⟩

theorem getIdx_map (f : α → β) (xs : List α) (idx : List Nat) :
    getIdx (xs.map f) idx = (getIdx xs idx).map (List.map f) := by
  induction idx with
  | nil => rfl
  | cons i is ih =>
    simp only [getIdx, ih, List.getElem?_map]
    cases xs[i]? <;> cases getIdx xs is <;> rfl

theorem takeRows_inv (xs : List α) (r : Option (List Nat)) (rows : List α)
    (h : takeRows xs r = .ok rows) :
    rows.map some = (localIdx xs.length r).map (fun i => xs[i]?) := by
  cases r with
  | none =>
    simp only [takeRows] at h
    cases h
    exact map_some_eq_range xs
  | some idx =>
    simp only [takeRows] at h
    cases hr : getIdx xs idx with
    | none => rw [hr] at h; cases h
    | some r' =>
      rw [hr] at h
      cases h
      exact getIdx_inv xs idx _ hr

theorem takeRows_ok (xs : List α) (r : Option (List Nat))
    (h : ∀ i ∈ localIdx xs.length r, i < xs.length) : ∃ rows, takeRows xs r = .ok rows := by
  cases r with
  | none => exact ⟨xs, rfl⟩
  | some idx =>
    obtain ⟨r', hr⟩ := getIdx_ok xs idx h
    exact ⟨r', by simp [takeRows, hr]⟩

theorem takeRows_map (f : α → β) (xs : List α) (r : Option (List Nat)) :
    takeRows (xs.map f) r = (takeRows xs r).map (List.map f) := by
  cases r with
  | none => rfl
  | some idx =>
    simp only [takeRows, getIdx_map]
    cases getIdx xs idx <;> rfl

theorem takeRows_length (xs : List α) (r : Option (List Nat)) (rows : List α)
    (h : takeRows xs r = .ok rows) : rows.length = (localIdx xs.length r).length := by
  have := congrArg List.length (takeRows_inv xs r rows h)
  simpa using this

theorem getElem?_mid (pre mid rest : List α) (i : Nat) (h : i < mid.length) :
    (pre ++ (mid ++ rest))[i + pre.length]? = mid[i]? := by
  rw [List.getElem?_append_right (by omega)]
  have : i + pre.length - pre.length = i := by omega
  rw [this, List.getElem?_append_left h]

theorem jacLoop_cons (ev : Nat → List Row) (name : Nat) (r : Option (List Nat)) (rest : Blocks) (s : Nat) :
    jacLoop ev ((name, r) :: rest) s =
      (match takeRows (ev name) r with
        | .error e => .error e
        | .ok rows =>
          match jacLoop ev rest (s + rows.length) with
          | .error e => .error e
          | .ok (rs, ix) => .ok (rows ++ rs, (name, (List.range rows.length).map (· + s)) :: ix)) := by
  simp only [jacLoop, indStart_eq]
  cases takeRows (ev name) r with
  | error e => rfl
  | ok rows =>
    simp only
    cases jacLoop ev rest (s + rows.length) with
    | error e => rfl
    | ok p => rfl

theorem fullRows_cons (e : Equation) (es : List Equation) (ev : Nat → List Row) :
    fullRows (e :: es) ev = ev e.name ++ fullRows es ev := by
  simp [fullRows]

/-- The Jacobian loop over the blocks of a selection produces the rows of the full system at
    the positions `sliceIdx` (generalised over the rows `pre` of equations already passed). -/
theorem jacLoop_slice (ev : Nat → List Row) (sel : Equation → Option (Option (List Nat)))
    (es : List Equation) :
    ∀ (pre : List Row) (s : Nat),
      (∀ e ∈ es, ∀ r, sel e = some r → ∀ i ∈ localIdx (ev e.name).length r, i < (ev e.name).length) →
      ∃ rows ix, jacLoop ev (blocksOf sel es) s = .ok (rows, ix) ∧
        rows.map some = (sliceIdx ev sel es pre.length).map (fun k => (pre ++ fullRows es ev)[k]?) := by
  induction es with
  | nil =>
    intro pre s _
    exact ⟨[], [], rfl, rfl⟩
  | cons e es ih =>
    intro pre s hb
    have hb' : ∀ e' ∈ es, ∀ r, sel e' = some r →
        ∀ i ∈ localIdx (ev e'.name).length r, i < (ev e'.name).length :=
      fun e' he' => hb e' (List.mem_cons_of_mem _ he')
    have hfull : pre ++ fullRows (e :: es) ev = (pre ++ ev e.name) ++ fullRows es ev := by
      rw [fullRows_cons, List.append_assoc]
    have hlen : (pre ++ ev e.name).length = pre.length + (ev e.name).length := by simp
    cases hs : sel e with
    | none =>
      obtain ⟨rows, ix, h1, h2⟩ := ih (pre ++ ev e.name) s hb'
      refine ⟨rows, ix, ?_, ?_⟩
      · simpa [blocksOf, hs] using h1
      · rw [h2, hfull, hlen]
        simp [sliceIdx, hs]
    | some r =>
      have hbe := hb e List.mem_cons_self r hs
      obtain ⟨rows0, h0⟩ := takeRows_ok (ev e.name) r hbe
      obtain ⟨rs, ix, h1, h2⟩ := ih (pre ++ ev e.name) (s + rows0.length) hb'
      refine ⟨rows0 ++ rs, (e.name, (List.range rows0.length).map (· + s)) :: ix, ?_, ?_⟩
      · have hbo : blocksOf sel (e :: es) = (e.name, r) :: blocksOf sel es := by
          simp [blocksOf, hs]
        rw [hbo, jacLoop_cons, h0]
        simp only
        rw [h1]
      · rw [List.map_append, h2, takeRows_inv _ _ _ h0]
        simp only [sliceIdx, hs, List.map_append, List.map_map]
        rw [hfull, hlen]
        congr 1
        apply List.map_congr_left
        intro i hi
        simp only [Function.comp]
        rw [List.append_assoc]
        exact (getElem?_mid pre (ev e.name) (fullRows es ev) i (hbe i hi)).symm

theorem range_map_getElem?_mid (pre part rest : List α) :
    ((List.range part.length).map (· + pre.length)).map (fun k => (pre ++ (part ++ rest))[k]?) =
      part.map some := by
  rw [List.map_map, map_some_eq_range part]
  apply List.map_congr_left
  intro i hi
  simp only [Function.comp]
  exact getElem?_mid pre part rest i (List.mem_range.mp hi)

/-- What the Jacobian loop records in `assembled_equation_indices`. -/
theorem jacLoop_idx (ev : Nat → List Row) (blocks : Blocks) :
    ∀ (s : Nat) (rows : List Row) (ix : List (Nat × List Nat)) (preR : List Row), preR.length = s →
      jacLoop ev blocks s = .ok (rows, ix) →
      ix.map (·.1) = blocks.map (·.1) ∧
      ix.flatMap (·.2) = (List.range rows.length).map (· + s) ∧
      ∀ p ∈ ix, ∃ r part, (p.1, r) ∈ blocks ∧ takeRows (ev p.1) r = .ok part ∧
        p.2.map (fun k => (preR ++ rows)[k]?) = part.map some := by
  induction blocks with
  | nil =>
    intro s rows ix preR _ h
    simp only [jacLoop] at h
    cases h
    simp
  | cons b rest ih =>
    obtain ⟨name, r⟩ := b
    intro s rows ix preR hs h
    rw [jacLoop_cons] at h
    cases h0 : takeRows (ev name) r with
    | error e => rw [h0] at h; cases h
    | ok part0 =>
      rw [h0] at h
      simp only at h
      cases h1 : jacLoop ev rest (s + part0.length) with
      | error e => rw [h1] at h; cases h
      | ok q =>
        obtain ⟨rs, ix'⟩ := q
        rw [h1] at h
        simp only at h
        cases h
        obtain ⟨i1, i2, i3⟩ := ih (s + part0.length) rs ix' (preR ++ part0) (by simp [hs]) h1
        refine ⟨by simp [i1], ?_, ?_⟩
        · simp only [List.flatMap_cons, i2, List.length_append]
          exact range_shift_append _ _ _
        · intro p hp
          rcases List.mem_cons.mp hp with rfl | hp
          · refine ⟨r, part0, List.mem_cons_self, h0, ?_⟩
            subst hs
            exact range_map_getElem?_mid preR part0 rs
          · obtain ⟨r', part, hm, ht, hv⟩ := i3 p hp
            refine ⟨r', part, List.mem_cons_of_mem _ hm, ht, ?_⟩
            rw [← hv, List.append_assoc]

theorem resLoop_eq (ev : Nat → List Row) (blocks : Blocks) :
    ∀ s, resLoop ev blocks = (jacLoop ev blocks s).map (fun p => p.1.map (·.val)) := by
  induction blocks with
  | nil => intro s; rfl
  | cons b rest ih =>
    obtain ⟨name, r⟩ := b
    intro s
    rw [jacLoop_cons]
    simp only [resLoop, takeRows_map]
    cases takeRows (ev name) r with
    | error e => rfl
    | ok part0 =>
      simp only [Except.map]
      rw [ih (s + part0.length)]
      cases jacLoop ev rest (s + part0.length) with
      | error e => rfl
      | ok q => simp [Except.map]

/-! ### the slice index list -/

theorem localRows_sublist (img : List (GridId × List Nat)) (gs : List GridId) :
    (localRows img gs).Sublist (img.flatMap (·.2)) := by
  induction img with
  | nil => exact List.Sublist.refl _
  | cons p rest ih =>
    simp only [localRows, List.flatMap_cons]
    split
    · exact List.Sublist.append (List.Sublist.refl _) ih
    · exact List.Sublist.trans ih (List.sublist_append_right _ _)

theorem localRows_congr (img : List (GridId × List Nat)) (gs1 gs2 : List GridId)
    (h : ∀ g, g ∈ gs1 ↔ g ∈ gs2) : localRows img gs1 = localRows img gs2 := by
  induction img with
  | nil => rfl
  | cons p rest ih =>
    simp only [localRows, ih]
    by_cases hp : p.1 ∈ gs1
    · rw [if_pos hp, if_pos ((h _).mp hp)]
    · rw [if_neg hp, if_neg (fun h2 => hp ((h _).mpr h2))]

theorem localIdx_ok (len : Nat) (r : Option (List Nat))
    (h : ∀ idx, r = some idx → idx.Pairwise (· < ·) ∧ ∀ i ∈ idx, i < len) :
    (localIdx len r).Pairwise (· < ·) ∧ ∀ i ∈ localIdx len r, i < len := by
  cases r with
  | none => exact ⟨List.pairwise_lt_range, fun i hi => List.mem_range.mp hi⟩
  | some idx => exact h idx rfl

theorem sliceIdx_sorted (ev : Nat → List Row) (sel : Equation → Option (Option (List Nat)))
    (es : List Equation) :
    ∀ off, (∀ e ∈ es, ∀ idx, sel e = some (some idx) →
        idx.Pairwise (· < ·) ∧ ∀ i ∈ idx, i < (ev e.name).length) →
      (sliceIdx ev sel es off).Pairwise (· < ·) ∧
      ∀ k ∈ sliceIdx ev sel es off, off ≤ k ∧ k < off + (fullRows es ev).length := by
  induction es with
  | nil => intro off _; simp [sliceIdx]
  | cons e es ih =>
    intro off hb
    obtain ⟨t1, t2⟩ := ih (off + (ev e.name).length) (fun e' he' => hb e' (List.mem_cons_of_mem _ he'))
    have hseg : ∀ r, sel e = some r →
        ((localIdx (ev e.name).length r).map (· + off)).Pairwise (· < ·) ∧
        ∀ k ∈ (localIdx (ev e.name).length r).map (· + off), off ≤ k ∧ k < off + (ev e.name).length := by
      intro r hr
      obtain ⟨p1, p2⟩ := localIdx_ok (ev e.name).length r (fun idx hidx => hb e List.mem_cons_self idx (by rw [hr, hidx]))
      refine ⟨?_, ?_⟩
      · rw [List.pairwise_map]
        exact p1.imp (fun h => by omega)
      · intro k hk
        obtain ⟨i, hi, rfl⟩ := List.mem_map.mp hk
        have := p2 i hi
        omega
    simp only [sliceIdx, fullRows_cons, List.length_append]
    cases hs : sel e with
    | none =>
      simp only [List.nil_append]
      refine ⟨t1, ?_⟩
      intro k hk
      have := t2 k hk
      omega
    | some r =>
      obtain ⟨s1, s2⟩ := hseg r hs
      simp only
      refine ⟨?_, ?_⟩
      · rw [List.pairwise_append]
        refine ⟨s1, t1, ?_⟩
        intro a ha b hb'
        have := s2 a ha
        have := t2 b hb'
        omega
      · intro k hk
        rcases List.mem_append.mp hk with hk | hk
        · have := s2 k hk
          omega
        · have := t2 k hk
          omega

theorem sliceIdx_all (ev : Nat → List Row) (es : List Equation) :
    ∀ off, sliceIdx ev (fun _ => some none) es off =
      (List.range (fullRows es ev).length).map (· + off) := by
  induction es with
  | nil => intro off; simp [sliceIdx, fullRows]
  | cons e es ih =>
    intro off
    simp only [sliceIdx, localIdx, ih, fullRows_cons, List.length_append]
    exact range_shift_append _ _ _

theorem sel_sorted (sys : Sys) (req : Request) (hinv : sys.Inv)
    (e : Equation) (he : e ∈ sys.eqs) (idx : List Nat)
    (h : req.sel e = some (some idx)) :
    idx.Pairwise (· < ·) ∧ ∀ i ∈ idx, i < e.total := by
  have hsub : ∃ gs, idx = localRows e.image gs := by
    cases req with
    | all => simp [Request.sel] at h
    | list items =>
      simp only [Request.sel] at h
      cases hl : lastFor e.name (Request.list items).entries with
      | none => rw [hl] at h; cases h
      | some og =>
        rw [hl] at h
        cases og with
        | none => cases h
        | some gs =>
          simp only [Option.map_some, Option.some.injEq] at h
          exact ⟨gs, h.symm⟩
    | dict es =>
      simp only [Request.sel] at h
      cases hl : lastFor e.name (Request.dict es).entries with
      | none => rw [hl] at h; cases h
      | some og =>
        rw [hl] at h
        cases og with
        | none => cases h
        | some gs =>
          simp only [Option.map_some, Option.some.injEq] at h
          exact ⟨gs, h.symm⟩
  obtain ⟨gs, rfl⟩ := hsub
  have hs := localRows_sublist e.image gs
  have hi : e.image.flatMap (·.2) = List.range e.total := hinv.2 e he
  rw [hi] at hs
  exact ⟨List.Pairwise.sublist hs List.pairwise_lt_range, fun i hi' => List.mem_range.mp (hs.subset hi')⟩

theorem sel_bounds (sys : Sys) (ev : Nat → List Row) (req : Request) (hinv : sys.Inv)
    (hc : Covers sys ev) (e : Equation) (he : e ∈ sys.eqs) (idx : List Nat)
    (h : req.sel e = some (some idx)) :
    idx.Pairwise (· < ·) ∧ ∀ i ∈ idx, i < (ev e.name).length := by
  obtain ⟨h1, h2⟩ := sel_sorted sys req hinv e he idx h
  exact ⟨h1, fun i hi => Nat.lt_of_lt_of_le (h2 i hi) (hc e he)⟩

theorem consistent_covers (sys : Sys) (ev : Nat → List Row) (h : Consistent sys ev) : Covers sys ev :=
  fun e he => Nat.le_of_eq (h e he).symm

/-! ### order of a request -/

theorem lastFor_perm (name : Nat) (l1 l2 : List (Nat × β)) (hp : l1.Perm l2)
    (hn : (l1.map (·.1)).Nodup) : lastFor name l1 = lastFor name l2 := by
  have hn2 : (l2.map (·.1)).Nodup := (hp.map _).nodup_iff.mp hn
  apply Option.ext
  intro v
  rw [lastFor_eq_some_iff name l1 hn v, lastFor_eq_some_iff name l2 hn2 v]
  exact hp.mem_iff

theorem parseItems_isOk (sys : Sys) (items : List Item) :
    ∀ d, (∃ d', parseItems sys d items = .ok d') ↔ ∀ it ∈ items, ∃ b, parseSingle sys it = .ok b := by
  induction items with
  | nil => intro d; simp [parseItems]
  | cons it rest ih =>
    intro d
    simp only [parseItems, List.mem_cons, forall_eq_or_imp]
    cases hs : parseSingle sys it with
    | error e => simp
    | ok b =>
      simp only [Except.ok.injEq, exists_eq', true_and]
      exact ih (update d b)

/-! ### columns -/

theorem insertSorted_perm (a : Nat) (l : List Nat) : (insertSorted a l).Perm (a :: l) := by
  induction l with
  | nil => exact List.Perm.refl _
  | cons b l ih =>
    simp only [insertSorted]
    split
    · exact List.Perm.refl _
    · exact ((ih.cons b).trans (List.Perm.swap a b l))

theorem isort_perm (l : List Nat) : (isort l).Perm l := by
  induction l with
  | nil => exact List.Perm.refl _
  | cons a l ih => exact (insertSorted_perm a (isort l)).trans (ih.cons a)

theorem insertSorted_sorted (a : Nat) (l : List Nat) (h : l.Pairwise (· ≤ ·)) :
    (insertSorted a l).Pairwise (· ≤ ·) := by
  induction l with
  | nil => simp [insertSorted]
  | cons b l ih =>
    simp only [insertSorted]
    rw [List.pairwise_cons] at h
    split
    · rename_i hab
      rw [List.pairwise_cons]
      refine ⟨?_, List.pairwise_cons.mpr h⟩
      intro x hx
      rcases List.mem_cons.mp hx with rfl | hx
      · exact hab
      · exact Nat.le_trans hab (h.1 x hx)
    · rename_i hab
      rw [List.pairwise_cons]
      refine ⟨?_, ih h.2⟩
      intro x hx
      have := (insertSorted_perm a l).mem_iff.mp hx
      rcases List.mem_cons.mp this with rfl | hx'
      · omega
      · exact h.1 x hx'

theorem isort_sorted (l : List Nat) : (isort l).Pairwise (· ≤ ·) := by
  induction l with
  | nil => simp [isort]
  | cons a l ih => exact insertSorted_sorted a (isort l) ih

theorem dofsOf_ok (sys : Sys) (ids : List Nat) (d : List Nat) (h : dofsOf sys ids = .ok d) :
    d = ids.flatMap (dofRangeD sys) := by
  induction ids generalizing d with
  | nil =>
    simp only [dofsOf] at h
    cases h
    rfl
  | cons i is ih =>
    simp only [dofsOf] at h
    cases hr : dofRange (dofOrder sys) 0 i with
    | none => rw [hr] at h; cases h
    | some r =>
      rw [hr] at h
      simp only at h
      cases hd : dofsOf sys is with
      | error e => rw [hd] at h; cases h
      | ok rs =>
        rw [hd] at h
        cases h
        simp [dofRangeD, hr, ih rs hd]

theorem columnsOf_ok (sys : Sys) (vars : Option (List VarItem)) (cols : List Nat)
    (h : columnsOf sys vars = .ok cols) :
    ∃ ids, requestedIds sys vars = .ok ids ∧ cols = isort (ids.flatMap (dofRangeD sys)) := by
  cases vars with
  | none =>
    simp only [columnsOf] at h
    cases hd : dofsOf sys (sys.vars.map (·.id)) with
    | error e => rw [hd] at h; cases h
    | ok d =>
      rw [hd] at h
      cases h
      exact ⟨_, rfl, by rw [dofsOf_ok sys _ d hd]⟩
  | some items =>
    simp only [columnsOf] at h
    by_cases he : items.isEmpty = true
    · rw [if_pos he] at h
      cases h
      exact ⟨[], by simp [requestedIds, he], rfl⟩
    · rw [if_neg he] at h
      cases hp : parseVarItems sys items with
      | error e => rw [hp] at h; cases h
      | ok ids =>
        rw [hp] at h
        simp only at h
        cases hd : dofsOf sys ids with
        | error e => rw [hd] at h; cases h
        | ok d =>
          rw [hd] at h
          cases h
          exact ⟨ids, by simp [requestedIds, he, hp], by rw [dofsOf_ok sys _ d hd]⟩

/-! ### structure of the image information -/

theorem imageLoop_sublist (m : PerEntity) (gs : List Grid) (rem : List GridId) (t : Nat) :
    ((imageLoop m gs rem t).1.map (·.1)).Sublist (gs.map (·.id)) := by
  induction gs generalizing rem t with
  | nil => simp [imageLoop]
  | cons g gs ih =>
    simp only [imageLoop]
    split
    · simp only [List.map_cons]
      exact (ih _ _).cons_cons _
    · simp only [List.map_cons]
      exact (ih _ _).cons _

theorem imageLoop_sizes (m : PerEntity) (gs : List Grid) (rem : List GridId) (t : Nat) :
    ∀ p ∈ (imageLoop m gs rem t).1, ∃ g ∈ gs, g.id = p.1 ∧ p.2.length = rowsOn g m := by
  induction gs generalizing rem t with
  | nil => simp [imageLoop]
  | cons g gs ih =>
    simp only [imageLoop]
    split
    · intro p hp
      rcases List.mem_cons.mp hp with rfl | hp
      · exact ⟨g, List.mem_cons_self, rfl, by simp⟩
      · obtain ⟨g', hg', h1, h2⟩ := ih _ _ p hp
        exact ⟨g', List.mem_cons_of_mem _ hg', h1, h2⟩
    · intro p hp
      obtain ⟨g', hg', h1, h2⟩ := ih _ _ p hp
      exact ⟨g', List.mem_cons_of_mem _ hg', h1, h2⟩

theorem imageLoop_cover (m : PerEntity) (gs : List Grid) (rem : List GridId) (t : Nat) :
    ∀ x ∈ rem, x ∈ (imageLoop m gs rem t).1.map (·.1) ∨ x ∈ (imageLoop m gs rem t).2 := by
  induction gs generalizing rem t with
  | nil => intro x hx; right; simpa [imageLoop] using hx
  | cons g gs ih =>
    intro x hx
    simp only [imageLoop]
    split
    · by_cases hxg : x = g.id
      · left; simp [hxg]
      · have hx' : x ∈ rem.erase g.id := (List.mem_erase_of_ne hxg).mpr hx
        rcases ih (rem.erase g.id) (t + rowsOn g m) x hx' with h | h
        · left; simp only [List.map_cons]; exact List.mem_cons_of_mem _ h
        · right; exact h
    · exact ih rem t x hx

/-! ### the parse result is the selection -/

theorem filterMap_congr' {f g : α → Option β} (l : List α) (h : ∀ a ∈ l, f a = g a) :
    l.filterMap f = l.filterMap g := by
  induction l with
  | nil => rfl
  | cons a l ih =>
    simp only [List.filterMap_cons, h a List.mem_cons_self,
      ih (fun b hb => h b (List.mem_cons_of_mem _ hb))]

theorem parse_blocks (sys : Sys) (hinv : sys.Inv) (req : Request) (blocks : Blocks)
    (h : parseEquations sys req = .ok blocks) : blocks = blocksOf req.sel sys.eqs := by
  cases req with
  | all =>
    simp only [parseEquations] at h
    cases h
    simp [blocksOf, Request.sel, List.filterMap_eq_map']
  | list items =>
    simp only [parseEquations] at h
    cases hd : parseItems sys [] items with
    | error e => rw [hd] at h; cases h
    | ok d =>
      rw [hd] at h
      cases h
      rw [parseItems_ok sys items [] d hd]
      unfold orderBlocks blocksOf
      apply filterMap_congr'
      intro e he
      rw [lookup_resolved sys hinv e he]
      rfl
  | dict es =>
    simp only [parseEquations] at h
    cases hd : parseItems sys [] (es.map (fun p => Item.dict [p])) with
    | error e => rw [hd] at h; cases h
    | ok d =>
      rw [hd] at h
      cases h
      rw [parseItems_ok sys _ [] d hd, entries_of_dict_items]
      unfold orderBlocks blocksOf
      apply filterMap_congr'
      intro e he
      rw [lookup_resolved sys hinv e he]
      rfl

/-! ### assemble -/

theorem assemble_eqs (sys : Sys) (ev : Nat → List Row) (jac : Bool) (req : Request)
    (vars : Option (List VarItem)) :
    (assemble sys ev jac req vars).1.eqs = sys.eqs ∧ (assemble sys ev jac req vars).1.grids = sys.grids ∧
      (assemble sys ev jac req vars).1.vars = sys.vars := by
  unfold assemble
  cases parseEquations sys req with
  | error e => exact ⟨rfl, rfl, rfl⟩
  | ok blocks =>
    cases jac with
    | false =>
      simp only [Bool.false_eq_true, if_false]
      cases resLoop ev blocks <;> exact ⟨rfl, rfl, rfl⟩
    | true =>
      simp only [if_true]
      cases jacLoop ev blocks 0 with
      | error e => exact ⟨rfl, rfl, rfl⟩
      | ok q =>
        obtain ⟨rows, ix⟩ := q
        simp only
        cases columnsOf sys vars <;> exact ⟨rfl, rfl, rfl⟩

theorem assemble_jac_eq (sys : Sys) (ev : Nat → List Row) (req : Request)
    (vars : Option (List VarItem)) (blocks : Blocks) (rows : List Row) (ix : List (Nat × List Nat))
    (cols : List Nat) (hp : parseEquations sys req = .ok blocks)
    (hj : jacLoop ev blocks 0 = .ok (rows, ix)) (hc : columnsOf sys vars = .ok cols) :
    assemble sys ev true req vars = ({ sys with lastIdx := ix }, .ok ⟨rows, cols, []⟩) := by
  simp [assemble, hp, hj, hc]

theorem assemble_jac_inv (sys sys' : Sys) (ev : Nat → List Row) (req : Request)
    (vars : Option (List VarItem)) (out : Out)
    (h : assemble sys ev true req vars = (sys', .ok out)) :
    ∃ blocks, parseEquations sys req = .ok blocks ∧
      jacLoop ev blocks 0 = .ok (out.rows, sys'.lastIdx) ∧ columnsOf sys vars = .ok out.cols ∧
      out.resOnly = [] ∧ sys' = { sys with lastIdx := sys'.lastIdx } := by
  unfold assemble at h
  cases hp : parseEquations sys req with
  | error e => rw [hp] at h; cases h
  | ok blocks =>
    rw [hp] at h
    simp only [if_true] at h
    cases hj : jacLoop ev blocks 0 with
    | error e => rw [hj] at h; cases h
    | ok q =>
      obtain ⟨rows, ix⟩ := q
      rw [hj] at h
      simp only at h
      cases hc : columnsOf sys vars with
      | error e => rw [hc] at h; cases h
      | ok cols =>
        rw [hc] at h
        cases h
        exact ⟨blocks, rfl, hj, rfl, rfl, rfl⟩

theorem assemble_res_eq (sys : Sys) (ev : Nat → List Row) (req : Request)
    (vars : Option (List VarItem)) (blocks : Blocks) (vals : List Rat)
    (hp : parseEquations sys req = .ok blocks) (hr : resLoop ev blocks = .ok vals) :
    assemble sys ev false req vars = (sys, .ok ⟨[], [], vals.map (fun v => - v)⟩) := by
  simp [assemble, hp, hr]

/-- Core of the slice theorem: the Jacobian loop on the parsed request, provided no requested
    local row lies beyond the evaluated operator. -/
theorem jac_core (sys : Sys) (ev : Nat → List Row) (req : Request) (hinv : sys.Inv)
    (hno : ¬ OutOfRange sys ev req) (blocks : Blocks) (hp : parseEquations sys req = .ok blocks) :
    ∃ rows ix, jacLoop ev blocks 0 = .ok (rows, ix) ∧
      rows.map some = (rowIdx sys ev req).map (fun k => (fullRows sys.eqs ev)[k]?) := by
  rw [parse_blocks sys hinv req blocks hp]
  have hb : ∀ e ∈ sys.eqs, ∀ r, req.sel e = some r →
      ∀ i ∈ localIdx (ev e.name).length r, i < (ev e.name).length := by
    intro e he r hr
    cases r with
    | none => intro i hi; exact List.mem_range.mp hi
    | some idx =>
      intro i hi
      apply Nat.lt_of_not_le
      intro hle
      exact hno ⟨e, he, idx, hr, i, hi, hle⟩
  obtain ⟨rows, ix, h1, h2⟩ := jacLoop_slice ev req.sel sys.eqs [] 0 hb
  exact ⟨rows, ix, h1, by simpa [rowIdx] using h2⟩

theorem covers_not_outOfRange (sys : Sys) (ev : Nat → List Row) (req : Request) (hinv : sys.Inv)
    (hc : Covers sys ev) : ¬ OutOfRange sys ev req := by
  rintro ⟨e, he, idx, hsel, i, hi, hle⟩
  have := (sel_bounds sys ev req hinv hc e he idx hsel).2 i hi
  omega

theorem map_some_comp (f : α → β) (rows : List α) (idx : List Nat) (xs : List α)
    (h : rows.map some = idx.map (fun k => xs[k]?)) :
    (rows.map f).map some = idx.map (fun k => (xs.map f)[k]?) := by
  have : (rows.map f).map some = (rows.map some).map (Option.map f) := by
    simp [List.map_map]
  rw [this, h, List.map_map]
  apply List.map_congr_left
  intro k _
  simp

theorem all_congr (f : Nat → Bool) (l1 l2 : List Nat) (h : ∀ g, g ∈ l1 ↔ g ∈ l2) :
    l1.all f = l2.all f := by
  rw [Bool.eq_iff_iff]
  simp only [List.all_eq_true]
  exact ⟨fun h1 x hx => h1 x ((h x).mpr hx), fun h1 x hx => h1 x ((h x).mp hx)⟩

/-! ### all variables = all columns, in order -/

theorem flatMap_congr' {f g : α → List β} (l : List α) (h : ∀ a ∈ l, f a = g a) :
    l.flatMap f = l.flatMap g := by
  induction l with
  | nil => rfl
  | cons a l ih =>
    simp only [List.flatMap_cons, h a List.mem_cons_self,
      ih (fun b hb => h b (List.mem_cons_of_mem _ hb))]

theorem dofRange_tile (l : List Var) :
    ∀ off, (l.map (·.id)).Nodup →
      l.flatMap (fun v => (dofRange l off v.id).getD []) =
        (List.range ((l.map (·.ndof)).sum)).map (· + off) := by
  induction l with
  | nil => intro off _; simp
  | cons v vs ih =>
    intro off hn
    simp only [List.map_cons, List.nodup_cons] at hn
    have htail : vs.flatMap (fun w => (dofRange (v :: vs) off w.id).getD []) =
        vs.flatMap (fun w => (dofRange vs (off + v.ndof) w.id).getD []) := by
      apply flatMap_congr'
      intro w hw
      have hne : v.id ≠ w.id := by
        intro hh
        apply hn.1
        rw [hh]
        exact List.mem_map.mpr ⟨w, hw, rfl⟩
      simp [dofRange, hne]
    simp only [List.flatMap_cons, List.map_cons, List.sum_cons]
    rw [htail, ih (off + v.ndof) hn.2]
    simp only [dofRange, if_true, Option.getD_some]
    exact range_shift_append _ _ _

theorem dofRange_isSome (l : List Var) (v : Var) (hv : v ∈ l) :
    ∀ off, (dofRange l off v.id).isSome = true := by
  induction l with
  | nil => cases hv
  | cons a l ih =>
    intro off
    simp only [dofRange]
    by_cases h : a.id = v.id
    · simp [h]
    · rw [if_neg h]
      rcases List.mem_cons.mp hv with rfl | hv'
      · exact absurd rfl h
      · exact ih hv' _

theorem perm_group (gs : List Grid) :
    ∀ (l : List Var), (gs.map (·.id)).Nodup → (∀ v ∈ l, v.grid ∈ gs.map (·.id)) →
      l.Perm (gs.flatMap (fun g => l.filter (fun v => v.grid = g.id))) := by
  induction gs with
  | nil =>
    intro l _ hl
    have : l = [] := by
      apply List.eq_nil_iff_forall_not_mem.mpr
      intro v hv
      have := hl v hv
      simp at this
    subst this
    exact List.Perm.refl _
  | cons g gs ih =>
    intro l hg hl
    simp only [List.map_cons, List.nodup_cons] at hg
    simp only [List.flatMap_cons]
    have h1 := (List.filter_append_perm (fun v : Var => decide (v.grid = g.id)) l).symm
    refine h1.trans (List.Perm.append_left _ ?_)
    have hl' : ∀ v ∈ l.filter (fun x => !decide (x.grid = g.id)), v.grid ∈ gs.map (·.id) := by
      intro v hv
      have hv' := List.mem_filter.mp hv
      have hne : v.grid ≠ g.id := by simpa using hv'.2
      have := hl v hv'.1
      simp only [List.map_cons, List.mem_cons] at this
      rcases this with h | h
      · exact absurd h hne
      · exact h
    refine (ih _ hg.2 hl').trans ?_
    have : gs.flatMap (fun g' => (l.filter (fun x => !decide (x.grid = g.id))).filter (fun v => v.grid = g'.id)) =
        gs.flatMap (fun g' => l.filter (fun v => v.grid = g'.id)) := by
      apply flatMap_congr'
      intro g' hg'
      rw [List.filter_filter]
      apply List.filter_congr
      intro v _
      have hne : g'.id ≠ g.id := by
        intro hh
        apply hg.1
        rw [← hh]
        exact List.mem_map.mpr ⟨g', hg', rfl⟩
      by_cases hv : v.grid = g'.id
      · simp [hv, hne]
      · simp [hv]
    rw [this]

theorem dofsOf_succeeds (sys : Sys) (ids : List Nat)
    (h : ∀ i ∈ ids, (dofRange (dofOrder sys) 0 i).isSome = true) : ∃ d, dofsOf sys ids = .ok d := by
  induction ids with
  | nil => exact ⟨[], rfl⟩
  | cons i is ih =>
    obtain ⟨d, hd⟩ := ih (fun j hj => h j (List.mem_cons_of_mem _ hj))
    have hi := h i List.mem_cons_self
    cases hr : dofRange (dofOrder sys) 0 i with
    | none => rw [hr] at hi; cases hi
    | some r => exact ⟨r ++ d, by simp [dofsOf, hr, hd]⟩

theorem columns_all_aux (sys : Sys) (h : sys.VarsOk) :
    columnsOf sys none = .ok (List.range (numDofs sys)) := by
  obtain ⟨hv, hg, hvg⟩ := h
  have hperm : sys.vars.Perm (dofOrder sys) := perm_group sys.grids sys.vars hg hvg
  have hnd : ((dofOrder sys).map (·.id)).Nodup := (hperm.map _).nodup_iff.mp hv
  have hsome : ∀ i ∈ sys.vars.map (·.id), (dofRange (dofOrder sys) 0 i).isSome = true := by
    intro i hi
    obtain ⟨v, hv', rfl⟩ := List.mem_map.mp hi
    exact dofRange_isSome (dofOrder sys) v (hperm.mem_iff.mp hv') 0
  obtain ⟨d, hd⟩ := dofsOf_succeeds sys _ hsome
  have hdeq := dofsOf_ok sys _ d hd
  have hd1 : d = sys.vars.flatMap (fun v => dofRangeD sys v.id) := by
    rw [hdeq, List.flatMap_map]
  have htile : (dofOrder sys).flatMap (fun v => dofRangeD sys v.id) = List.range (numDofs sys) := by
    have := dofRange_tile (dofOrder sys) 0 hnd
    simpa [dofRangeD, numDofs] using this
  have hp : d.Perm (List.range (numDofs sys)) := by
    rw [hd1, ← htile]
    exact hperm.flatMap_right _
  have hsort : isort d = List.range (numDofs sys) := by
    apply List.Perm.eq_of_pairwise (le := (· ≤ ·))
    · intro a b _ _ h1 h2; omega
    · exact isort_sorted d
    · exact List.pairwise_lt_range.imp (fun h => Nat.le_of_lt h)
    · exact (isort_perm d).trans hp
  simp [columnsOf, hd, hsort]

/-! ### the driver's splitting of a full system -/

theorem split_sound (eqs : List Equation) (hn : (eqs.map (·.name)).Nodup) :
    ∀ rows : List Row, rows.length = (eqs.map (·.total)).sum →
      fullRows eqs (evOf (splitFull eqs rows)) = rows ∧
      ∀ e ∈ eqs, (evOf (splitFull eqs rows) e.name).length = e.total := by
  induction eqs with
  | nil =>
    intro rows h
    simp only [List.map_nil, List.sum_nil, List.length_eq_zero_iff] at h
    subst h
    simp [fullRows]
  | cons e es ih =>
    intro rows h
    simp only [List.map_cons, List.nodup_cons, List.sum_cons] at hn h
    obtain ⟨ih1, ih2⟩ := ih hn.2 (rows.drop e.total) (by rw [List.length_drop]; omega)
    have hother : ∀ e' ∈ es, evOf (splitFull (e :: es) rows) e'.name =
        evOf (splitFull es (rows.drop e.total)) e'.name := by
      intro e' he'
      have hne : e.name ≠ e'.name := by
        intro hh
        apply hn.1
        rw [hh]
        exact List.mem_map.mpr ⟨e', he', rfl⟩
      simp [evOf, splitFull, lookup, hne]
    have hhead : evOf (splitFull (e :: es) rows) e.name = rows.take e.total := by
      simp [evOf, splitFull, lookup]
    refine ⟨?_, ?_⟩
    · rw [fullRows_cons, hhead]
      have : fullRows es (evOf (splitFull (e :: es) rows)) =
          fullRows es (evOf (splitFull es (rows.drop e.total))) := by
        unfold fullRows
        exact flatMap_congr' es hother
      rw [this, ih1]
      exact List.take_append_drop _ _
    · intro e' he'
      rcases List.mem_cons.mp he' with rfl | he''
      · rw [hhead, List.length_take]
        omega
      · rw [hother e' he'']
        exact ih2 e' he''

/-! ### the IndexError path -/

theorem getIdx_none (xs : List α) (idx : List Nat) (h : getIdx xs idx = none) :
    ∃ i ∈ idx, xs.length ≤ i := by
  induction idx with
  | nil => simp [getIdx] at h
  | cons i is ih =>
    simp only [getIdx] at h
    cases hx : xs[i]? with
    | none => exact ⟨i, List.mem_cons_self, List.getElem?_eq_none_iff.mp hx⟩
    | some x =>
      cases hr : getIdx xs is with
      | none =>
        obtain ⟨j, hj, hl⟩ := ih hr
        exact ⟨j, List.mem_cons_of_mem _ hj, hl⟩
      | some r => simp [hx, hr] at h

theorem getIdx_some_bounds (xs : List α) (idx : List Nat) (r : List α) (h : getIdx xs idx = some r) :
    ∀ i ∈ idx, i < xs.length := by
  induction idx generalizing r with
  | nil => intro i hi; cases hi
  | cons j js ih =>
    simp only [getIdx] at h
    cases hx : xs[j]? with
    | none => simp [hx] at h
    | some x =>
      cases hr : getIdx xs js with
      | none => simp [hx, hr] at h
      | some r' =>
        intro i hi
        rcases List.mem_cons.mp hi with rfl | hi
        · apply Nat.lt_of_not_le
          intro hcon
          have := List.getElem?_eq_none_iff.mpr hcon
          rw [this] at hx
          cases hx
        · exact ih r' hr i hi

theorem takeRows_error (xs : List α) (r : Option (List Nat)) (e : Err) (h : takeRows xs r = .error e) :
    e = .index ∧ ∃ idx, r = some idx ∧ ∃ i ∈ idx, xs.length ≤ i := by
  cases r with
  | none => cases h
  | some idx =>
    simp only [takeRows] at h
    cases hr : getIdx xs idx with
    | none =>
      rw [hr] at h
      cases h
      exact ⟨rfl, idx, rfl, getIdx_none xs idx hr⟩
    | some r' => rw [hr] at h; cases h

theorem takeRows_ok_bounds (xs : List α) (idx : List Nat) (rows : List α)
    (h : takeRows xs (some idx) = .ok rows) : ∀ i ∈ idx, i < xs.length := by
  simp only [takeRows] at h
  cases hr : getIdx xs idx with
  | none => rw [hr] at h; cases h
  | some r' => exact getIdx_some_bounds xs idx r' hr

theorem jacLoop_error (ev : Nat → List Row) (blocks : Blocks) :
    ∀ s e, jacLoop ev blocks s = .error e →
      e = .index ∧ ∃ name idx, (name, some idx) ∈ blocks ∧ ∃ i ∈ idx, (ev name).length ≤ i := by
  induction blocks with
  | nil => intro s e h; cases h
  | cons b rest ih =>
    obtain ⟨name, r⟩ := b
    intro s e h
    rw [jacLoop_cons] at h
    cases h0 : takeRows (ev name) r with
    | error e0 =>
      rw [h0] at h
      cases h
      obtain ⟨he, idx, rfl, hbad⟩ := takeRows_error _ _ _ h0
      exact ⟨he, name, idx, List.mem_cons_self, hbad⟩
    | ok part0 =>
      rw [h0] at h
      simp only at h
      cases h1 : jacLoop ev rest (s + part0.length) with
      | error e1 =>
        rw [h1] at h
        cases h
        obtain ⟨he, n, idx, hm, hbad⟩ := ih _ _ h1
        exact ⟨he, n, idx, List.mem_cons_of_mem _ hm, hbad⟩
      | ok q => rw [h1] at h; cases h

theorem jacLoop_ok_bounds (ev : Nat → List Row) (blocks : Blocks) :
    ∀ s q, jacLoop ev blocks s = .ok q →
      ∀ name idx, (name, some idx) ∈ blocks → ∀ i ∈ idx, i < (ev name).length := by
  induction blocks with
  | nil => intro s q _ name idx hm; cases hm
  | cons b rest ih =>
    obtain ⟨name0, r⟩ := b
    intro s q h name idx hm
    rw [jacLoop_cons] at h
    cases h0 : takeRows (ev name0) r with
    | error e0 => rw [h0] at h; cases h
    | ok part0 =>
      rw [h0] at h
      simp only at h
      cases h1 : jacLoop ev rest (s + part0.length) with
      | error e1 => rw [h1] at h; cases h
      | ok q' =>
        rcases List.mem_cons.mp hm with heq | hm'
        · cases heq
          exact takeRows_ok_bounds _ _ _ h0
        · exact ih _ _ h1 name idx hm'

theorem mem_blocksOf (sel : Equation → Option (Option (List Nat))) (es : List Equation)
    (name : Nat) (r : Option (List Nat)) :
    (name, r) ∈ blocksOf sel es ↔ ∃ e ∈ es, sel e = some r ∧ e.name = name := by
  unfold blocksOf
  rw [List.mem_filterMap]
  constructor
  · rintro ⟨e, he, h⟩
    cases hs : sel e with
    | none => rw [hs] at h; cases h
    | some r' =>
      rw [hs] at h
      simp only [Option.map_some, Option.some.injEq, Prod.mk.injEq] at h
      exact ⟨e, he, by rw [hs, h.2], h.1⟩
  · rintro ⟨e, he, hs, hn⟩
    exact ⟨e, he, by simp [hs, hn]⟩

theorem idxPrefix_of_ok (ev : Nat → List Row) (blocks : Blocks) :
    ∀ s rows ix, jacLoop ev blocks s = .ok (rows, ix) → idxPrefix ev blocks s = ix := by
  induction blocks with
  | nil => intro s rows ix h; simp only [jacLoop] at h; cases h; rfl
  | cons b rest ih =>
    obtain ⟨name, r⟩ := b
    intro s rows ix h
    rw [jacLoop_cons] at h
    cases h0 : takeRows (ev name) r with
    | error e0 => rw [h0] at h; cases h
    | ok part0 =>
      rw [h0] at h
      simp only at h
      cases h1 : jacLoop ev rest (s + part0.length) with
      | error e1 => rw [h1] at h; cases h
      | ok q =>
        obtain ⟨rs, ix'⟩ := q
        rw [h1] at h
        simp only at h
        cases h
        simp only [idxPrefix, h0, indStart_eq, ih _ _ _ h1]

/-! ### remove_equation -/

theorem findEq_filter (eqs : List Equation) (name n : Nat) (h : n ≠ name) :
    findEq (eqs.filter (fun e => e.name ≠ name)) n = findEq eqs n := by
  induction eqs with
  | nil => rfl
  | cons a l ih =>
    by_cases ha : a.name = name
    · have h1 : decide (a.name ≠ name) = false := decide_eq_false (fun hh => hh ha)
      have h2 : a.name ≠ n := fun hh => h (by rw [← hh, ha])
      simp only [List.filter_cons, h1, Bool.false_eq_true, ↓reduceIte, findEq, if_neg h2]
      exact ih
    · have h1 : decide (a.name ≠ name) = true := decide_eq_true ha
      simp only [List.filter_cons, h1, ↓reduceIte, findEq, ih]

theorem hasEq_filter (sys sys' : Sys) (name n : Nat) (h : n ≠ name)
    (hs : sys'.eqs = sys.eqs.filter (fun e => e.name ≠ name)) : sys'.hasEq n = sys.hasEq n := by
  rw [Bool.eq_iff_iff, hasEq_iff, hasEq_iff, hs]
  simp only [List.mem_map, List.mem_filter, decide_eq_true_eq]
  constructor
  · rintro ⟨e, ⟨he, _⟩, hn⟩; exact ⟨e, he, hn⟩
  · rintro ⟨e, he, hn⟩; exact ⟨e, ⟨he, by rw [hn]; exact h⟩, hn⟩

/-- an item that does not name `name` -/
def Item.avoids (name : Nat) : Item → Prop
  | .key k => k.name? ≠ some name
  | .dict es => ∀ p ∈ es, p.1.name? ≠ some name

theorem parseEntry_filter (sys sys' : Sys) (name : Nat)
    (hs : sys'.eqs = sys.eqs.filter (fun e => e.name ≠ name)) (k : Key) (gs : List GridId)
    (hk : k.name? ≠ some name) : parseEntry sys' k gs = parseEntry sys k gs := by
  unfold parseEntry
  cases hn : k.name? with
  | none => rfl
  | some n =>
    have : n ≠ name := fun hh => hk (by rw [hn, hh])
    simp only [hs, findEq_filter sys.eqs name n this]

theorem parseEntries_filter (sys sys' : Sys) (name : Nat)
    (hs : sys'.eqs = sys.eqs.filter (fun e => e.name ≠ name)) (es : List (Key × List GridId))
    (hk : ∀ p ∈ es, p.1.name? ≠ some name) : parseEntries sys' es = parseEntries sys es := by
  induction es with
  | nil => rfl
  | cons p es ih =>
    obtain ⟨k, gs⟩ := p
    simp only [parseEntries]
    rw [parseEntry_filter sys sys' name hs k gs (hk (k, gs) List.mem_cons_self),
      ih (fun q hq => hk q (List.mem_cons_of_mem _ hq))]

theorem parseSingle_filter (sys sys' : Sys) (name : Nat)
    (hs : sys'.eqs = sys.eqs.filter (fun e => e.name ≠ name)) (it : Item)
    (hk : it.avoids name) : parseSingle sys' it = parseSingle sys it := by
  cases it with
  | key k =>
    simp only [parseSingle]
    cases hn : k.name? with
    | none => rfl
    | some n =>
      have : n ≠ name := fun hh => hk (by rw [hn, hh])
      simp only [hasEq_filter sys sys' name n this hs]
  | dict es =>
    simp only [parseSingle]
    exact parseEntries_filter sys sys' name hs es hk

theorem parseItems_filter (sys sys' : Sys) (name : Nat)
    (hs : sys'.eqs = sys.eqs.filter (fun e => e.name ≠ name)) (items : List Item) :
    ∀ d, (∀ it ∈ items, it.avoids name) → parseItems sys' d items = parseItems sys d items := by
  induction items with
  | nil => intro d _; rfl
  | cons it rest ih =>
    intro d hk
    simp only [parseItems]
    rw [parseSingle_filter sys sys' name hs it (hk it List.mem_cons_self)]
    cases parseSingle sys it with
    | error e => rfl
    | ok b => exact ih _ (fun i hi => hk i (List.mem_cons_of_mem _ hi))

theorem avoids_of_not_mem (name : Nat) (it : Item) (h : name ∉ it.entries.map (·.1)) :
    it.avoids name := by
  cases it with
  | key k =>
    simp only [Item.avoids]
    intro hk
    apply h
    simp [Item.entries, hk]
  | dict es =>
    simp only [Item.avoids]
    intro p hp hk
    apply h
    simp only [Item.entries, List.mem_map, List.mem_filterMap]
    exact ⟨(name, some p.2), ⟨p, hp, by simp [hk]⟩, rfl⟩

theorem lastFor_none_of_not_mem (name : Nat) (l : List (Nat × β)) (h : name ∉ l.map (·.1)) :
    lastFor name l = none := by
  induction l with
  | nil => rfl
  | cons p l ih =>
    simp only [List.map_cons, List.mem_cons, not_or] at h
    simp only [lastFor, ih h.2]
    rw [if_neg (fun hh => h.1 hh.symm)]

theorem orderBlocks_filter (eqs : List Equation) (name : Nat) (d : Blocks)
    (h : lookup name d = none) :
    orderBlocks (eqs.filter (fun e => e.name ≠ name)) d = orderBlocks eqs d := by
  unfold orderBlocks
  induction eqs with
  | nil => rfl
  | cons a l ih =>
    by_cases ha : a.name = name
    · have h1 : decide (a.name ≠ name) = false := decide_eq_false (fun hh => hh ha)
      rw [List.filter_cons, h1]
      simp only [Bool.false_eq_true, ↓reduceIte, List.filterMap_cons, ha, h, Option.map_none]
      exact ih
    · have h1 : decide (a.name ≠ name) = true := decide_eq_true ha
      simp only [List.filter_cons, h1, ↓reduceIte, List.filterMap_cons, ih]

theorem parse_list_filter (sys sys' : Sys) (name : Nat)
    (hs : sys'.eqs = sys.eqs.filter (fun e => e.name ≠ name)) (items : List Item)
    (hn : name ∉ (items.flatMap Item.entries).map (·.1)) :
    parseEquations sys' (.list items) = parseEquations sys (.list items) := by
  have hav : ∀ it ∈ items, it.avoids name := by
    intro it hit
    apply avoids_of_not_mem
    intro hmem
    apply hn
    obtain ⟨p, hp, hpn⟩ := List.mem_map.mp hmem
    exact List.mem_map.mpr ⟨p, List.mem_flatMap.mpr ⟨it, hit, hp⟩, hpn⟩
  simp only [parseEquations]
  rw [parseItems_filter sys sys' name hs items [] hav]
  cases hd : parseItems sys [] items with
  | error e => rfl
  | ok d =>
    simp only
    have hl : lookup name d = none := by
      rw [parseItems_ok sys items [] d hd, lookup_reverse_append]
      have : lastFor name (resolve sys (items.flatMap Item.entries)) = none := by
        apply lastFor_none_of_not_mem
        simpa [resolve, List.map_map, Function.comp_def] using hn
      rw [this]
      rfl
    rw [hs, orderBlocks_filter sys.eqs name d hl]

theorem parse_dict_filter (sys sys' : Sys) (name : Nat)
    (hs : sys'.eqs = sys.eqs.filter (fun e => e.name ≠ name)) (es : List (Key × List GridId))
    (hn : name ∉ (dictEntries es).map (·.1)) :
    parseEquations sys' (.dict es) = parseEquations sys (.dict es) := by
  have := parse_list_filter sys sys' name hs (es.map (fun p => Item.dict [p]))
    (by rw [entries_of_dict_items]; exact hn)
  simpa [parseEquations] using this

theorem removeEquation_eqs (sys sys' : Sys) (name : Nat) (h : removeEquation sys name = .ok sys') :
    sys' = { sys with eqs := sys.eqs.filter (fun e => e.name ≠ name) } ∧ sys.hasEq name = true := by
  unfold removeEquation at h
  split at h
  · rename_i hh
    cases h
    exact ⟨rfl, hh⟩
  · cases h

theorem hasEq_removed (sys : Sys) (name : Nat) :
    Sys.hasEq { sys with eqs := sys.eqs.filter (fun e => e.name ≠ name) } name = false := by
  rw [Bool.eq_false_iff]
  intro h
  rw [hasEq_iff] at h
  obtain ⟨e, he, hn⟩ := List.mem_map.mp h
  have := (List.mem_filter.mp he).2
  simp [hn] at this

theorem columnsOf_congr (sys sys' : Sys) (vars : Option (List VarItem))
    (hg : sys'.grids = sys.grids) (hv : sys'.vars = sys.vars) :
    columnsOf sys' vars = columnsOf sys vars := by
    have hd : dofOrder sys' = dofOrder sys := by simp [dofOrder, hg, hv]
    have hdo : ∀ ids, dofsOf sys' ids = dofsOf sys ids := by
      intro ids
      induction ids with
      | nil => rfl
      | cons i is ih => simp only [dofsOf, hd, ih]
    have hpv : ∀ items, parseVarItems sys' items = parseVarItems sys items := by
      intro items
      induction items with
      | nil => rfl
      | cons it rest ih => simp only [parseVarItems, ih, hv]
    cases vars with
    | none => simp only [columnsOf, hdo, hv]
    | some items => simp only [columnsOf, hdo, hpv]

/-- `assemble` looks at the system only through the parsed request, the grids and the variables. -/
theorem assemble_congr (sys sys' : Sys) (ev : Nat → List Row) (jac : Bool) (req : Request)
    (vars : Option (List VarItem)) (hp : parseEquations sys' req = parseEquations sys req)
    (hg : sys'.grids = sys.grids) (hv : sys'.vars = sys.vars) :
    (assemble sys' ev jac req vars).2 = (assemble sys ev jac req vars).2 ∧
      ((∃ b, parseEquations sys req = .ok b) → jac = true →
        (assemble sys' ev jac req vars).1.lastIdx = (assemble sys ev jac req vars).1.lastIdx) := by
  have hc := columnsOf_congr sys sys' vars hg hv
  unfold assemble
  rw [hp, hc]
  cases parseEquations sys req with
  | error e => exact ⟨rfl, fun h => by obtain ⟨b, hb⟩ := h; cases hb⟩
  | ok blocks =>
    cases jac with
    | false =>
      simp only [Bool.false_eq_true, if_false]
      cases resLoop ev blocks with
      | error e => exact ⟨rfl, fun _ h => by cases h⟩
      | ok v => exact ⟨rfl, fun _ h => by cases h⟩
    | true =>
      simp only [if_true]
      cases jacLoop ev blocks 0 with
      | error e => exact ⟨rfl, fun _ _ => rfl⟩
      | ok q =>
        obtain ⟨rows, ix⟩ := q
        simp only
        cases columnsOf sys vars with
        | error e => exact ⟨rfl, fun _ _ => rfl⟩
        | ok cols => exact ⟨rfl, fun _ _ => rfl⟩

/-! ### after a removal, the full system is the old system restricted to the other equations -/

theorem lastFor_const (name : Nat) (v : β) (l : List Nat) :
    lastFor name (l.map (fun n => (n, v))) = if name ∈ l then some v else none := by
  induction l with
  | nil => rfl
  | cons a l ih =>
    simp only [List.map_cons, lastFor, ih, List.mem_cons]
    by_cases h1 : name ∈ l
    · simp [h1]
    · by_cases h2 : a = name
      · simp [h1, h2]
      · have : ¬ name = a := fun hh => h2 hh.symm
        simp [h1, h2, this]

theorem filterMap_keep (eqs : List Equation) (name : Nat) (f : Equation → Option (Nat × Option (List Nat)))
    (hk : ∀ e ∈ eqs, e.name ≠ name → f e = some (e.name, none))
    (hd : ∀ e ∈ eqs, e.name = name → f e = none) :
    eqs.filterMap f = (eqs.filter (fun e => e.name ≠ name)).map (fun e => (e.name, none)) := by
  induction eqs with
  | nil => rfl
  | cons a l ih =>
    have ih' := ih (fun e he => hk e (List.mem_cons_of_mem _ he)) (fun e he => hd e (List.mem_cons_of_mem _ he))
    by_cases ha : a.name = name
    · have h1 : decide (a.name ≠ name) = false := decide_eq_false (fun hh => hh ha)
      rw [List.filter_cons, h1]
      simp only [Bool.false_eq_true, ↓reduceIte, List.filterMap_cons, hd a List.mem_cons_self ha]
      exact ih'
    · have h1 : decide (a.name ≠ name) = true := decide_eq_true ha
      rw [List.filter_cons, h1]
      simp only [↓reduceIte, List.filterMap_cons, hk a List.mem_cons_self ha, List.map_cons, ih']

theorem parse_rest (sys : Sys) (hinv : sys.Inv) (name : Nat) :
    parseEquations sys (.list ((sys.eqs.filter (fun e => e.name ≠ name)).map (fun e => Item.key (.str e.name)))) =
      .ok ((sys.eqs.filter (fun e => e.name ≠ name)).map (fun e => (e.name, none))) := by
  let items := (sys.eqs.filter (fun e => e.name ≠ name)).map (fun e => Item.key (.str e.name))
  have hok : ∀ it ∈ items, ∃ b, parseSingle sys it = .ok b := by
    intro it hit
    obtain ⟨e, he, rfl⟩ := List.mem_map.mp hit
    have : sys.hasEq e.name = true := (hasEq_iff sys _).mpr (List.mem_map.mpr ⟨e, (List.mem_filter.mp he).1, rfl⟩)
    exact ⟨[(e.name, none)], by simp [parseSingle, Key.name?, this]⟩
  obtain ⟨d, hd⟩ := (parseItems_isOk sys items []).mpr hok
  have hp : parseEquations sys (.list items) = .ok (orderBlocks sys.eqs d) := by
    simp [parseEquations, hd]
  show parseEquations sys (.list items) = _
  rw [hp, parse_blocks sys hinv _ _ hp]
  congr 1
  have hent : (Request.list items).entries =
      ((sys.eqs.filter (fun e => e.name ≠ name)).map (·.name)).map (fun n => (n, none)) := by
    have gen : ∀ l : List Equation, (l.map (fun e => Item.key (.str e.name))).flatMap Item.entries =
        (l.map (·.name)).map (fun n => (n, none)) := by
      intro l
      induction l with
      | nil => rfl
      | cons a l ih =>
        simp only [List.map_cons, List.flatMap_cons, Item.entries, Key.name?, ih]
        rfl
    exact gen _
  unfold blocksOf
  apply filterMap_keep
  · intro e he hne
    simp only [Request.sel, hent, lastFor_const]
    have : e.name ∈ (sys.eqs.filter (fun e => e.name ≠ name)).map (·.name) :=
      List.mem_map.mpr ⟨e, List.mem_filter.mpr ⟨he, by simpa using hne⟩, rfl⟩
    rw [if_pos this]
    rfl
  · intro e he heq
    simp only [Request.sel, hent, lastFor_const]
    have : e.name ∉ (sys.eqs.filter (fun e => e.name ≠ name)).map (·.name) := by
      intro hmem
      obtain ⟨e', he', hn'⟩ := List.mem_map.mp hmem
      have := (List.mem_filter.mp he').2
      simp [hn', heq] at this
    rw [if_neg this]
    rfl

/-! ### update_equation -/

theorem updateEquation_inv (sys : Sys) (name : Nat) (grids : Option (List GridId))
    (per : Option PerEntity) (hinv : sys.Inv) : (updateEquation sys name grids per).1.Inv := by
  unfold updateEquation
  simp only
  split
  · exact hinv
  · split
    · exact hinv
    · split
      · exact hinv
      · rename_i s1 hr
        have h1 := removeEquation_inv sys s1 name hinv hr
        split
        · exact h1
        · rename_i s2 hs
          exact setEquation_inv s1 s2 name _ _ h1 hs

/-! ### the equation operations do not touch grids and variables -/

theorem setEquation_gv (sys sys' : Sys) (name : Nat) (grids : List GridId) (m : PerEntity)
    (h : setEquation sys name grids m = .ok sys') : sys'.grids = sys.grids ∧ sys'.vars = sys.vars := by
  unfold setEquation at h
  split at h
  · cases h
  · split at h
    · cases h; exact ⟨rfl, rfl⟩
    · simp only at h
      split at h
      · cases h; exact ⟨rfl, rfl⟩
      · cases h

theorem removeEquation_gv (sys sys' : Sys) (name : Nat) (h : removeEquation sys name = .ok sys') :
    sys'.grids = sys.grids ∧ sys'.vars = sys.vars := by
  obtain ⟨rfl, _⟩ := removeEquation_eqs sys sys' name h
  exact ⟨rfl, rfl⟩

theorem updateEquation_gv (sys : Sys) (name : Nat) (grids : Option (List GridId)) (per : Option PerEntity) :
    (updateEquation sys name grids per).1.grids = sys.grids ∧
      (updateEquation sys name grids per).1.vars = sys.vars := by
  unfold updateEquation
  simp only
  split
  · exact ⟨rfl, rfl⟩
  · split
    · exact ⟨rfl, rfl⟩
    · split
      · exact ⟨rfl, rfl⟩
      · rename_i s1 hr
        have h1 := removeEquation_gv sys s1 name hr
        split
        · exact h1
        · rename_i s2 hs
          have h2 := setEquation_gv s1 s2 name _ _ hs
          exact ⟨h2.1.trans h1.1, h2.2.trans h1.2⟩

theorem applyOp_gv (sys : Sys) (op : Op) :
    (applyOp sys op).grids = sys.grids ∧ (applyOp sys op).vars = sys.vars := by
  cases op with
  | set n gs m =>
    simp only [applyOp]
    cases hs : setEquation sys n gs m with
    | error e => exact ⟨rfl, rfl⟩
    | ok s => exact setEquation_gv sys s n gs m hs
  | remove n =>
    simp only [applyOp]
    cases hs : removeEquation sys n with
    | error e => exact ⟨rfl, rfl⟩
    | ok s => exact removeEquation_gv sys s n hs
  | update n gs m => exact updateEquation_gv sys n gs m
  | assemble ev jac req vs =>
    have := assemble_eqs sys ev jac req vs
    exact ⟨this.2.1, this.2.2⟩

theorem run_gv (ops : List Op) : ∀ sys : Sys,
    (run sys ops).grids = sys.grids ∧ (run sys ops).vars = sys.vars := by
  induction ops with
  | nil => intro sys; exact ⟨rfl, rfl⟩
  | cons op ops ih =>
    intro sys
    have h1 := applyOp_gv sys op
    have h2 := ih (applyOp sys op)
    exact ⟨h2.1.trans h1.1, h2.2.trans h1.2⟩

end PorepyVerif.C06
