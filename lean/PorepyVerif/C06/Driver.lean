/- C06 line-protocol driver: `lake env lean --run PorepyVerif/C06/Driver.lean` -/
import PorepyVerif.Common.Wire
import PorepyVerif.C06.Model
open Lean PV PorepyVerif.C06

/-- state: the equation system and the evaluated full systems (one table per state-vector slot) -/
structure St where
  sys : Sys
  full : List (Nat × List (Nat × List Row))

def errJ : Err → String
  | .value => "ValueError"
  | .type => "TypeError"
  | .assertion => "AssertionError"
  | .index => "IndexError"
  | .key => "KeyError"

def jKey (j : Json) : R Key :=
  match j with
  | .arr a =>
    match a.toList with
    | [.str "s", n] => Key.str <$> jNat n
    | [.str "o", n] => Key.op <$> jNat n
    | [.str "x"] => pure Key.bad
    | _ => throw s!"bad key {j.compress}"
  | _ => throw s!"bad key {j.compress}"

def jEntry (j : Json) : R (Key × List GridId) :=
  match j with
  | .arr a =>
    match a.toList with
    | [k, gs] => do pure (← jKey k, ← jList jNat gs)
    | _ => throw s!"bad entry {j.compress}"
  | _ => throw s!"bad entry {j.compress}"

def jItem (j : Json) : R Item :=
  match j.getObjVal? "k", j.getObjVal? "d" with
  | .ok k, _ => Item.key <$> jKey k
  | _, .ok d => Item.dict <$> jList jEntry d
  | _, _ => throw s!"bad item {j.compress}"

def jRequest (j : Json) : R Request :=
  match j with
  | .null => pure .all
  | _ =>
    match j.getObjVal? "list", j.getObjVal? "dict" with
    | .ok l, _ => Request.list <$> jList jItem l
    | _, .ok d => Request.dict <$> jList jEntry d
    | _, _ => throw s!"bad request {j.compress}"

def jVarItem (j : Json) : R VarItem :=
  match j with
  | .arr a =>
    match a.toList with
    | [.str "n", n] => VarItem.name <$> jNat n
    | [.str "v", n] => VarItem.var <$> jNat n
    | [.str "m", l] => VarItem.md <$> jList jNat l
    | [.str "x"] => pure VarItem.bad
    | _ => throw s!"bad var item {j.compress}"
  | _ => throw s!"bad var item {j.compress}"

def jGrid (l : List Nat) : R Grid :=
  match l with
  | [id, intf, c, f, n] => pure ⟨id, intf != 0, c, f, n⟩
  | _ => throw "bad grid"

def ofIdx (ix : List (Nat × List Nat)) : Json :=
  ofList (fun p => Json.arr #[ofNat p.1, ofNats p.2]) ix

def mkRows : List Rat → List (List Nat) → List (List Rat) → R (List Row)
  | [], [], [] => pure []
  | b :: bs, c :: cs, v :: vs => do
    if c.length != v.length then throw "row length mismatch"
    let rest ← mkRows bs cs vs
    -- the wire carries the right-hand side b = -val
    pure (⟨-b, c.zip v⟩ :: rest)
  | _, _, _ => throw "full: length mismatch"

def ofNames (sys : Sys) : Json := ofNats (sys.eqs.map (·.name))

def imageOfEq (sys : Sys) (name : Nat) : List (GridId × List Nat) :=
  match findEq sys.eqs name with
  | some e => e.image
  | none => []

def jPer (l : List Nat) : R PerEntity :=
  match l with
  | [c, f, n] => pure ⟨c, f, n⟩
  | _ => throw "bad per"

def jPairs (j : Json) : R (List (Nat × Nat)) :=
  jList (fun x => do
    match ← jList jNat x with
    | [a, b] => pure (a, b)
    | _ => throw "bad pair") j

def step (st : St) (j : Json) : R (St × Json) := do
  let op ← fStr j "op"
  match op with
  | "init" =>
    let grids ← (← fNatss j "grids").mapM jGrid
    let vars ← (← fNatss j "vars").mapM (fun l => match l with
      | [id, name, grid, c, f, n] => pure (mkVar grids id name grid ⟨c, f, n⟩)
      | _ => throw "bad var")
    pure (⟨init grids vars, []⟩, Json.str "ok")
  | "set_eq" =>
    let name ← fNat j "name"
    let grids ← fNats j "grids"
    let per ← jPer (← fNats j "per")
    match setEquation st.sys name grids per with
    | .error e => pure (st, obj [("err", .str (errJ e)), ("eqs", ofNames st.sys)])
    | .ok sys' =>
      pure ({ st with sys := sys' }, obj [("image", ofIdx (imageOfEq sys' name)), ("eqs", ofNames sys')])
  | "update_eq" =>
    let name ← fNat j "name"
    let grids ← jOpt (jList jNat) (fieldD j "grids" .null)
    let per ← match ← jOpt (jList jNat) (fieldD j "per" .null) with
      | none => pure none
      | some l => some <$> jPer l
    let (sys', e?) := updateEquation st.sys name grids per
    match e? with
    | some e => pure ({ st with sys := sys' }, obj [("err", .str (errJ e)), ("eqs", ofNames sys')])
    | none =>
      pure ({ st with sys := sys' }, obj [("image", ofIdx (imageOfEq sys' name)), ("eqs", ofNames sys')])
  | "remove_eq" =>
    let name ← fNat j "name"
    match removeEquation st.sys name with
    | .error e => pure (st, obj [("err", .str (errJ e)), ("eqs", ofNames st.sys)])
    | .ok sys' => pure ({ st with sys := sys' }, obj [("eqs", ofNames sys')])
  | "full" =>
    let slot ← fNat j "slot"
    let b ← fRats j "b"
    let cols ← fNatss j "cols"
    let vals ← fRatss j "vals"
    let rows ← mkRows b cols vals
    -- "lens": actual operator lengths per equation when they differ from the declared ones
    let lens? ← jOpt jPairs (fieldD j "lens" .null)
    let lens : List (Nat × Nat) := match lens? with
      | some l => l
      | none => st.sys.eqs.map (fun (e : Equation) => (e.name, e.total))
    if lens.map (·.1) != st.sys.eqs.map (·.name) then throw "full: lens do not list the equations in order"
    if rows.length != ((lens.map (·.2)).sum) then
      throw s!"full: {rows.length} rows but the sizes sum to {(lens.map (·.2)).sum}"
    let tbl := match lens? with
      | some l => splitBy l rows
      | none => splitFull st.sys.eqs rows
    pure ({ st with full := (slot, tbl) :: st.full }, Json.str "ok")
  | "assemble" =>
    let slot ← fNat j "slot"
    let jac ← fBool j "jac"
    let req ← jRequest (fieldD j "eqs" .null)
    let vars ← jOpt (jList jVarItem) (fieldD j "vars" .null)
    match lookup slot st.full with
    | none => throw "no full system for this slot"
    | some tbl =>
      let (sys', res) := assemble st.sys (evOf tbl) jac req vars
      let st' := { st with sys := sys' }
      match res with
      | .error e => pure (st', obj [("err", .str (errJ e)), ("idx", ofIdx sys'.lastIdx)])
      | .ok o =>
        if jac then
          pure (st', obj [("A", ofList ofRats o.A), ("b", ofRats o.b), ("ncols", ofNat o.cols.length),
                          ("idx", ofIdx sys'.lastIdx)])
        else
          pure (st', obj [("b", ofRats o.resOnly), ("idx", ofIdx sys'.lastIdx)])
  | _ => throw s!"unknown op {op}"

def main : IO Unit := runDriver (⟨init [] [], []⟩ : St) step
