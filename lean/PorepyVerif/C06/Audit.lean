import PorepyVerif.C06.Props
#print axioms PorepyVerif.C06.inv_reachable
#print axioms PorepyVerif.C06.set_equation_image
#print axioms PorepyVerif.C06.parse_spec
#print axioms PorepyVerif.C06.full_is_all
#print axioms PorepyVerif.C06.assemble_is_slice
#print axioms PorepyVerif.C06.slice_rows_increasing
#print axioms PorepyVerif.C06.columns_sorted_subset
#print axioms PorepyVerif.C06.indices_reported
#print axioms PorepyVerif.C06.residual_only_eq
#print axioms PorepyVerif.C06.residual_only_is_slice
#print axioms PorepyVerif.C06.restriction_order_irrelevant
#print axioms PorepyVerif.C06.request_permutation_irrelevant
#print axioms PorepyVerif.C06.grid_order_irrelevant
#print axioms PorepyVerif.C06.columns_all
#print axioms PorepyVerif.C06.driver_split_sound
