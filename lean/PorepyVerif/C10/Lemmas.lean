/-
C10 — helper lemmas (property theorems are in Props.lean).
-/
import PorepyVerif.C10.Model
import PorepyVerif.C09.Props

namespace PorepyVerif.C10

variable {V C : Type}

/-! ### storage windows -/

theorem shiftMax_head? (m : Nat) (l : List V) : (shiftMax m l).head? = l.head? := by
  cases l with
  | nil => rfl
  | cons a l =>
    simp only [shiftMax]
    split
    · rfl
    · split <;> rfl

/-- shift followed by a write at index 0 is "push, keep the `W` most recent" -/
theorem push_eq (W : Nat) (v : V) (l : List V) (hW : 0 < W) (hl : l.length ≤ W) :
    set0 v (shiftMax W l) = (v :: l).take W := by
  cases l with
  | nil =>
    obtain ⟨n, rfl⟩ : ∃ n, W = n + 1 := ⟨W - 1, by omega⟩
    simp [shiftMax, set0]
  | cons a l =>
    simp only [shiftMax]
    split
    · rename_i h
      simp only [set0]
      rw [List.take_of_length_le]
      simp only [List.length_cons] at h ⊢
      omega
    · rename_i h
      have hlen : W = l.length + 1 := by simp only [List.length_cons] at h hl; omega
      rw [if_neg (by omega)]
      obtain ⟨n, rfl⟩ : ∃ n, W = n + 1 := ⟨W - 1, by omega⟩
      have hd : List.drop (n + 1) (a :: l) = [] := by
        apply List.drop_of_length_le; simp only [List.length_cons]; omega
      simp [set0, hd]

theorem push_length (W : Nat) (v : V) (l : List V) (hW : 0 < W) (hl : l.length = W) :
    (set0 v (shiftMax W l)).length = W := by
  rw [push_eq W v l hW (by omega)]
  simp only [List.length_take, List.length_cons]; omega

theorem shiftMax_length (m : Nat) (l : List V) (h : l.length = m) : (shiftMax m l).length = m := by
  cases l with
  | nil => simpa [shiftMax] using h
  | cons a l =>
    simp only [shiftMax]
    simp only [List.length_cons] at h
    rw [if_neg (by simp only [List.length_cons]; omega), if_neg (by omega)]
    simp only [List.length_append, List.length_cons, List.length_take, List.length_drop]
    omega

theorem addAt0_length [Add V] (inc : V) (l : List V) : (addAt0 inc l).length = l.length := by
  cases l <;> rfl

theorem set0_length (v : V) (l : List V) (h : l ≠ []) : (set0 v l).length = l.length := by
  cases l with
  | nil => exact absurd rfl h
  | cons a l => rfl

theorem set0_head? (v : V) (l : List V) : (set0 v l).head? = some v := by
  cases l <;> rfl

/-- pushing onto a window of the accepted sequence gives the window of the longer sequence -/
theorem window_push (W : Nat) (v v0 : V) (acc : List V) (hW : 0 < W) :
    (v :: window W acc v0).take W = window W (v :: acc) v0 := by
  obtain ⟨n, rfl⟩ : ∃ n, W = n + 1 := ⟨W - 1, by omega⟩
  simp only [window, List.cons_append, List.take_succ_cons, List.take_take]
  congr 2
  omega

theorem window_length (W : Nat) (acc : List V) (v0 : V) : (window W acc v0).length = W := by
  simp [window]

theorem window_head? (W : Nat) (acc : List V) (v0 : V) (hW : 0 < W) (h : acc ≠ []) :
    (window W acc v0).head? = acc.head? := by
  obtain ⟨n, rfl⟩ : ∃ n, W = n + 1 := ⟨W - 1, by omega⟩
  cases acc with
  | nil => exact absurd rfl h
  | cons a acc => simp [window]

/-! ### hooks -/

theorem afterIteration_tss [Add V] (cfg : Cfg) (inc : V) (s : Sol V) : (afterIteration cfg inc s).tss = s.tss := rfl

theorem afterIteration_its_length [Add V] (cfg : Cfg) (inc : V) (s : Sol V) (h : s.its.length = cfg.nIt) :
    (afterIteration cfg inc s).its.length = cfg.nIt := by
  simp only [afterIteration, addAt0_length]
  exact shiftMax_length _ _ h

/-! ### Newton loop -/

theorem newton_tss [Add V] (cfg : Cfg) (tape : List (Iter V)) : ∀ (k : Nat) (s : Sol V),
    (newton cfg k tape s).sol.tss = s.tss := by
  induction tape with
  | nil => intro k s; rfl
  | cons it tape ih =>
    intro k s
    unfold newton
    split
    · split
      · rfl
      · split
        · rfl
        · simp only []
          rw [ih]; rfl
    · rfl

theorem newton_its_length [Add V] (cfg : Cfg) (tape : List (Iter V)) : ∀ (k : Nat) (s : Sol V),
    s.its.length = cfg.nIt → (newton cfg k tape s).sol.its.length = cfg.nIt := by
  induction tape with
  | nil => intro k s h; exact h
  | cons it tape ih =>
    intro k s h
    unfold newton
    split
    · split
      · exact afterIteration_its_length cfg _ s h
      · split
        · exact afterIteration_its_length cfg _ s h
        · simp only []
          exact ih _ _ (afterIteration_its_length cfg _ s h)
    · exact h

theorem newton_not_both [Add V] (cfg : Cfg) (tape : List (Iter V)) (hok : NoBoth cfg tape) : ∀ (k : Nat) (s : Sol V),
    (newton cfg k tape s).fin ≠ .both := by
  induction tape with
  | nil => intro k s; unfold newton; simp only []; split <;> simp
  | cons it tape ih =>
    intro k s
    have hok' : NoBoth cfg tape := hok.imp id (fun h x hx => h x (List.mem_cons_of_mem _ hx))
    unfold newton
    split
    · split
      · rename_i hd
        simp only []
        split
        · rename_i hc
          rcases hok with h | h
          · simp [h] at hc
          · have hit := h it (List.mem_cons_self)
            simp only [Bool.and_eq_true] at hc
            exact absurd ⟨hc.1, hd⟩ hit
        · simp
      · split
        · simp
        · simp only []
          exact ih hok' _ _
    · simp

theorem newton_not_outOfTape [Add V] (cfg : Cfg) (tape : List (Iter V)) : ∀ (k : Nat) (s : Sol V),
    cfg.maxIt < k + tape.length → (newton cfg k tape s).fin ≠ .outOfTape := by
  induction tape with
  | nil =>
    intro k s h
    unfold newton
    simp only [List.length_nil, Nat.add_zero] at h
    simp only []
    rw [if_neg (by omega)]; simp
  | cons it tape ih =>
    intro k s h
    unfold newton
    split
    · split
      · simp only []; split <;> simp
      · split
        · simp
        · simp only []
          apply ih
          simp only [List.length_cons] at h; omega
    · simp

/-! ### the solver `_choose_solver` picked -/

theorem solveStep_tss [Add V] (cfg : Cfg) (tape : List (Iter V)) (s : Sol V) : (solveStep cfg tape s).sol.tss = s.tss := by
  unfold solveStep
  split
  · cases tape with
    | nil => rfl
    | cons it tape => simp only [linearSolve]; split <;> rfl
  · exact newton_tss cfg tape 0 s

theorem solveStep_its_length [Add V] (cfg : Cfg) (tape : List (Iter V)) (s : Sol V) (h : s.its.length = cfg.nIt) :
    (solveStep cfg tape s).sol.its.length = cfg.nIt := by
  unfold solveStep
  split
  · cases tape with
    | nil => exact h
    | cons it tape =>
      simp only [linearSolve]; split
      · exact afterIteration_its_length cfg _ s h
      · exact h
  · exact newton_its_length cfg tape 0 s h

theorem solveStep_not_both [Add V] (cfg : Cfg) (tape : List (Iter V)) (hok : NoBoth cfg tape) (s : Sol V) :
    (solveStep cfg tape s).fin ≠ .both := by
  unfold solveStep
  split
  · cases tape with
    | nil => simp [linearSolve]
    | cons it tape => simp only [linearSolve]; split <;> simp
  · exact newton_not_both cfg tape hok 0 s

theorem solveStep_not_outOfTape [Add V] (cfg : Cfg) (tape : List (Iter V)) (s : Sol V) (h : cfg.maxIt < tape.length) :
    (solveStep cfg tape s).fin ≠ .outOfTape := by
  unfold solveStep
  split
  · cases tape with
    | nil => simp at h
    | cons it tape => simp only [linearSolve]; split <;> simp
  · exact newton_not_outOfTape cfg tape 0 s (by omega)

theorem retryOf_nonlinear (clk : Clock C) (cfg : Cfg) (c : C) (h : cfg.linear = false) : retryOf clk cfg c = clk.retry c := by
  simp [retryOf, h]

theorem retryOf_ok (clk : Clock C) (cfg : Cfg) (c c2 : C) (h : retryOf clk cfg c = .ok c2) :
    cfg.linear = false ∧ clk.retry c = .ok c2 := by
  unfold retryOf at h
  split at h
  · cases h
  · rename_i hl; exact ⟨by simpa using hl, h⟩

/-! ### one pass of the time loop: case analysis -/

theorem stepRun_not_running [Add V] (clk : Clock C) (cfg : Cfg) (r : Run V C) (tape : List (Iter V))
    (h : r.status ≠ .running) : stepRun clk cfg r tape = r := by
  unfold stepRun
  split
  · rename_i h'; exact absurd h' h
  · rfl

/-- the state-relevant fields after one pass (everything but the log), by the way the solve ended -/
theorem stepRun_spec [Add V] (clk : Clock C) (cfg : Cfg) (r : Run V C) (tape : List (Iter V))
    (h : r.status = .running) :
    let c1 := clk.advance r.clock
    let bc1 := beforeLoop cfg (clk.time c1) r.bc
    let res := solveStep cfg tape r.sol
    let r' := stepRun clk cfg r tape
    (res.fin = .converged ∧ ∃ c2, clk.accept c1 res.k = .ok c2 ∧ r'.sol = updateSolution cfg res.sol ∧ r'.bc = bc1 ∧
        r'.clock = c2 ∧ r'.accepted = pushHead res.sol.its r.accepted ∧ r'.acceptedT = clk.time c1 :: r.acceptedT ∧
        r'.status = statusOf clk c2 ∧ r'.last = .accepted) ∨
    (res.fin = .converged ∧ ∃ e, clk.accept c1 res.k = .error e ∧ r'.status = .crashed e ∧ r'.last = .other ∧
        r'.sol = res.sol ∧ r'.accepted = r.accepted ∧ r'.acceptedT = r.acceptedT) ∨
    (res.fin = .both ∧ r'.sol = res.sol ∧ r'.bc = bc1 ∧ r'.clock = c1 ∧ r'.accepted = r.accepted ∧
        r'.acceptedT = r.acceptedT ∧ r'.status = statusOf clk c1 ∧ r'.last = .both) ∨
    (res.fin = .outOfTape ∧ r'.status = .outOfTape ∧ r'.last = .other ∧ r'.sol = res.sol ∧ r'.accepted = r.accepted ∧
        r'.acceptedT = r.acceptedT) ∨
    ((res.fin = .diverged ∨ res.fin = .maxIter) ∧ ∃ c2, retryOf clk cfg c1 = .ok c2 ∧ r'.sol = resetIterate res.sol ∧
        r'.bc = bcRewind bc1 ∧ r'.clock = c2 ∧ r'.accepted = r.accepted ∧
        r'.acceptedT = r.acceptedT ∧ r'.status = statusOf clk c2 ∧ r'.last = .retried) ∨
    ((res.fin = .diverged ∨ res.fin = .maxIter) ∧ ∃ e, retryOf clk cfg c1 = .error e ∧ r'.status = .raised e ∧
        r'.last = .other ∧ r'.sol = res.sol ∧ r'.accepted = r.accepted ∧ r'.acceptedT = r.acceptedT ∧ r'.clock = c1) := by
  simp only []
  unfold stepRun
  rw [h]
  simp only []
  cases hfin : (solveStep cfg tape r.sol).fin with
  | converged =>
    cases hacc : clk.accept (clk.advance r.clock) (solveStep cfg tape r.sol).k with
    | ok c2 => simp
    | error e => simp
  | both => simp
  | outOfTape => simp
  | diverged =>
    cases hret : retryOf clk cfg (clk.advance r.clock) with
    | ok c2 => simp
    | error e => simp
  | maxIter =>
    cases hret : retryOf clk cfg (clk.advance r.clock) with
    | ok c2 => simp
    | error e => simp

theorem runAll_cons [Add V] (clk : Clock C) (cfg : Cfg) (r : Run V C) (t : List (Iter V)) (ts : List (List (Iter V))) :
    runAll clk cfg r (t :: ts) = runAll clk cfg (stepRun clk cfg r t) ts := rfl

theorem runAll_not_running [Add V] (clk : Clock C) (cfg : Cfg) (tapes : List (List (Iter V))) :
    ∀ r : Run V C, r.status ≠ .running → runAll clk cfg r tapes = r := by
  induction tapes with
  | nil => intro r _; rfl
  | cons t ts ih =>
    intro r h
    rw [runAll_cons, stepRun_not_running clk cfg r t h]
    exact ih r h

theorem runAll_append [Add V] (clk : Clock C) (cfg : Cfg) (r : Run V C) (ts : List (List (Iter V))) (t : List (Iter V)) :
    runAll clk cfg r (ts ++ [t]) = stepRun clk cfg (runAll clk cfg r ts) t := by
  simp [runAll, List.foldl_append]

/-! ### invariant of the time loop (solution values) -/

theorem updateSolution_eq (cfg : Cfg) (s : Sol V) (v : V) (rest : List V) (h : s.its = v :: rest) :
    updateSolution cfg s = { s with tss := set0 v (shiftMax cfg.nTs s.tss) } := by
  unfold updateSolution; rw [h]

theorem resetIterate_eq (s : Sol V) (w : V) (rest : List V) (h : s.tss = w :: rest) :
    resetIterate s = { s with its := set0 w s.its } := by
  unfold resetIterate; rw [h]

theorem statusOf_cases (clk : Clock C) (c : C) :
    (statusOf clk c = .running ∧ clk.final c = false) ∨ (statusOf clk c = .finished ∧ clk.final c = true) := by
  unfold statusOf
  cases clk.final c <;> simp

/-- What holds at every boundary of the time loop, whatever the tapes were. -/
structure Inv (clk : Clock C) (cfg : Cfg) (v0 : V) (r : Run V C) : Prop where
  itsLen : r.sol.its.length = cfg.nIt
  hist : r.sol.tss = window cfg.nTs r.accepted v0
  accNe : r.accepted ≠ []
  cons : r.last ≠ .both → (r.status = .running ∨ r.status = .finished) → r.sol.its.head? = r.sol.tss.head?
  statR : r.status = .running → clk.final r.clock = false
  statF : r.status = .finished → clk.final r.clock = true

theorem inv_start (clk : Clock C) (cfg : Cfg) (v0 : V) (c0 : C) (hIt : 0 < cfg.nIt) (hTs : 0 < cfg.nTs) :
    Inv clk cfg v0 (startRun clk cfg v0 c0 : Run V C) := by
  obtain ⟨n, hn⟩ : ∃ n, cfg.nIt = n + 1 := ⟨cfg.nIt - 1, by omega⟩
  obtain ⟨m, hm⟩ : ∃ m, cfg.nTs = m + 1 := ⟨cfg.nTs - 1, by omega⟩
  refine ⟨by simp [startRun, initSol], ?_, by simp [startRun], ?_, ?_, ?_⟩
  · simp only [startRun, initSol, window, hm]
    rw [show [v0] ++ List.replicate (m + 1) v0 = List.replicate (m + 2) v0 from by simp [List.replicate_succ]]
    simp [List.take_replicate]
  · intro _ _
    simp [startRun, initSol, hn, hm, List.replicate_succ]
  · intro h
    rcases statusOf_cases clk c0 with ⟨_, h2⟩ | ⟨h1, _⟩
    · exact h2
    · simp [startRun, h1] at h
  · intro h
    rcases statusOf_cases clk c0 with ⟨h1, _⟩ | ⟨_, h2⟩
    · simp [startRun, h1] at h
    · exact h2

theorem inv_step [Add V] (clk : Clock C) (cfg : Cfg) (v0 : V) (hIt : 0 < cfg.nIt) (hTs : 0 < cfg.nTs)
    (r : Run V C) (tape : List (Iter V)) (hr : Inv clk cfg v0 r) : Inv clk cfg v0 (stepRun clk cfg r tape) := by
  by_cases hrun : r.status = .running
  case neg => rw [stepRun_not_running clk cfg r tape hrun]; exact hr
  have hlen := solveStep_its_length cfg tape r.sol hr.itsLen
  have htss := solveStep_tss cfg tape r.sol
  have hspec := stepRun_spec clk cfg r tape hrun
  simp only [] at hspec
  rcases hspec with ⟨_, c2, _, hsol, _, hclk, hacc, _, hst, hlast⟩ | ⟨_, e, _, hst, hlast, hsol, hacc, _⟩ |
      ⟨_, hsol, _, hclk, hacc, _, hst, hlast⟩ | ⟨_, hst, hlast, hsol, hacc, _⟩ |
      ⟨_, c2, _, hsol, _, hclk, hacc, _, hst, hlast⟩ | ⟨_, e, _, hst, hlast, hsol, hacc, _⟩
  · -- accepted
    obtain ⟨v, rest, hv⟩ : ∃ v rest, (solveStep cfg tape r.sol).sol.its = v :: rest := by
      cases h : (solveStep cfg tape r.sol).sol.its with
      | nil => rw [h] at hlen; simp at hlen; omega
      | cons v rest => exact ⟨v, rest, rfl⟩
    rw [updateSolution_eq cfg _ v rest hv] at hsol
    have hpush : set0 v (shiftMax cfg.nTs (solveStep cfg tape r.sol).sol.tss) = window cfg.nTs (v :: r.accepted) v0 := by
      rw [htss, hr.hist, push_eq cfg.nTs v _ hTs (by rw [window_length]; omega), window_push cfg.nTs v v0 _ hTs]
    refine ⟨?_, ?_, ?_, ?_, ?_, ?_⟩
    · rw [hsol]; exact hlen
    · rw [hsol, hacc, hv]; exact hpush
    · rw [hacc, hv]; simp [pushHead]
    · intro _ _
      rw [hsol]; simp only []
      rw [hv, set0_head?]; rfl
    · intro h; rw [hst] at h; rw [hclk]
      rcases statusOf_cases clk c2 with ⟨_, h2⟩ | ⟨h1, _⟩
      · exact h2
      · rw [h1] at h; cases h
    · intro h; rw [hst] at h; rw [hclk]
      rcases statusOf_cases clk c2 with ⟨h1, _⟩ | ⟨_, h2⟩
      · rw [h1] at h; cases h
      · exact h2
  · -- accept raised
    refine ⟨by rw [hsol]; exact hlen, by rw [hsol, hacc, htss]; exact hr.hist, by rw [hacc]; exact hr.accNe, ?_, ?_, ?_⟩
    · intro _ h; rw [hst] at h; rcases h with h | h <;> cases h
    · intro h; rw [hst] at h; cases h
    · intro h; rw [hst] at h; cases h
  · -- both flags
    refine ⟨by rw [hsol]; exact hlen, by rw [hsol, hacc, htss]; exact hr.hist, by rw [hacc]; exact hr.accNe, ?_, ?_, ?_⟩
    · intro h; exact absurd hlast h
    · intro h; rw [hst] at h; rw [hclk]
      rcases statusOf_cases clk (clk.advance r.clock) with ⟨_, h2⟩ | ⟨h1, _⟩
      · exact h2
      · rw [h1] at h; cases h
    · intro h; rw [hst] at h; rw [hclk]
      rcases statusOf_cases clk (clk.advance r.clock) with ⟨h1, _⟩ | ⟨_, h2⟩
      · rw [h1] at h; cases h
      · exact h2
  · -- tape ended
    refine ⟨by rw [hsol]; exact hlen, by rw [hsol, hacc, htss]; exact hr.hist, by rw [hacc]; exact hr.accNe, ?_, ?_, ?_⟩
    · intro _ h; rw [hst] at h; rcases h with h | h <;> cases h
    · intro h; rw [hst] at h; cases h
    · intro h; rw [hst] at h; cases h
  · -- rejected, to be recomputed
    have hw : (solveStep cfg tape r.sol).sol.tss = window cfg.nTs r.accepted v0 := by rw [htss]; exact hr.hist
    obtain ⟨w, rest, hwr⟩ : ∃ w rest, (solveStep cfg tape r.sol).sol.tss = w :: rest := by
      cases h : (solveStep cfg tape r.sol).sol.tss with
      | nil => have := window_length cfg.nTs r.accepted v0; rw [← hw, h] at this; simp at this; omega
      | cons w rest => exact ⟨w, rest, rfl⟩
    rw [resetIterate_eq _ w rest hwr] at hsol
    have hne : (solveStep cfg tape r.sol).sol.its ≠ [] := by
      intro h; rw [h] at hlen; simp at hlen; omega
    refine ⟨?_, ?_, by rw [hacc]; exact hr.accNe, ?_, ?_, ?_⟩
    · rw [hsol]; simp only []; rw [set0_length _ _ hne]; exact hlen
    · rw [hsol, hacc]; exact hw
    · intro _ _
      rw [hsol]; simp only []
      rw [set0_head?, hwr]; rfl
    · intro h; rw [hst] at h; rw [hclk]
      rcases statusOf_cases clk c2 with ⟨_, h2⟩ | ⟨h1, _⟩
      · exact h2
      · rw [h1] at h; cases h
    · intro h; rw [hst] at h; rw [hclk]
      rcases statusOf_cases clk c2 with ⟨h1, _⟩ | ⟨_, h2⟩
      · rw [h1] at h; cases h
      · exact h2
  · -- retry raised
    refine ⟨by rw [hsol]; exact hlen, by rw [hsol, hacc, htss]; exact hr.hist, by rw [hacc]; exact hr.accNe, ?_, ?_, ?_⟩
    · intro _ h; rw [hst] at h; rcases h with h | h <;> cases h
    · intro h; rw [hst] at h; cases h
    · intro h; rw [hst] at h; cases h

theorem inv_runAll [Add V] (clk : Clock C) (cfg : Cfg) (v0 : V) (hIt : 0 < cfg.nIt) (hTs : 0 < cfg.nTs)
    (tapes : List (List (Iter V))) : ∀ r : Run V C, Inv clk cfg v0 r → Inv clk cfg v0 (runAll clk cfg r tapes) := by
  induction tapes with
  | nil => intro r h; exact h
  | cons t ts ih => intro r h; rw [runAll_cons]; exact ih _ (inv_step clk cfg v0 hIt hTs r t h)

/-- with well-formed tapes no solve ever ends with both flags -/
theorem last_ne_both [Add V] (clk : Clock C) (cfg : Cfg) (tapes : List (List (Iter V)))
    (hok : ∀ t ∈ tapes, NoBoth cfg t) : ∀ r : Run V C, r.last ≠ .both → (runAll clk cfg r tapes).last ≠ .both := by
  induction tapes with
  | nil => intro r h; exact h
  | cons t ts ih =>
    intro r h
    rw [runAll_cons]
    apply ih (fun x hx => hok x (List.mem_cons_of_mem _ hx))
    by_cases hrun : r.status = .running
    case neg => rw [stepRun_not_running clk cfg r t hrun]; exact h
    have hspec := stepRun_spec clk cfg r t hrun
    simp only [] at hspec
    have hnb := solveStep_not_both cfg t (hok t List.mem_cons_self) r.sol
    rcases hspec with ⟨_, _, _, _, _, _, _, _, _, hl⟩ | ⟨_, _, _, _, hl, _⟩ | ⟨hb, _⟩ | ⟨_, _, hl, _⟩ |
        ⟨_, _, _, _, _, _, _, _, _, hl⟩ | ⟨_, _, _, _, hl, _⟩
    · rw [hl]; simp
    · rw [hl]; simp
    · exact absurd hb hnb
    · rw [hl]; simp
    · rw [hl]; simp
    · rw [hl]; simp

/-! ### the loop ends -/

theorem runAll_ends [Add V] (clk : Clock C) (cfg : Cfg) (inv : C → Prop) (μ : C → Nat) (hT : Terminating clk inv μ)
    (tapes : List (List (Iter V))) :
    (∀ t ∈ tapes, NoBoth cfg t ∧ cfg.maxIt < t.length) →
    ∀ r : Run V C,
      (r.status = .running ∨ r.status = .finished ∨ ∃ e, r.status = .raised e) →
      (r.status = .running ∨ r.status = .finished → inv r.clock) →
      (r.status = .running → clk.final r.clock = false ∧ μ r.clock < tapes.length) →
      ((runAll clk cfg r tapes).status = .finished ∧ inv (runAll clk cfg r tapes).clock) ∨
        ∃ e, (runAll clk cfg r tapes).status = .raised e := by
  induction tapes with
  | nil =>
    intro _ r hs hinv hrun
    rcases hs with h | h | h
    · have := (hrun h).2; simp at this
    · exact Or.inl ⟨h, hinv (Or.inr h)⟩
    · exact Or.inr h
  | cons t ts ih =>
    intro hok r hs hinv hrun
    have hok' : ∀ t ∈ ts, NoBoth cfg t ∧ cfg.maxIt < t.length := fun x hx => hok x (List.mem_cons_of_mem _ hx)
    rw [runAll_cons]
    by_cases hr : r.status = .running
    case neg =>
      rw [stepRun_not_running clk cfg r t hr]
      exact ih hok' r hs hinv (fun h => absurd h hr)
    obtain ⟨hfin, hμ⟩ := hrun hr
    have hinv0 := hinv (Or.inl hr)
    have hspec := stepRun_spec clk cfg r t hr
    simp only [] at hspec
    have hnb := solveStep_not_both cfg t (hok t List.mem_cons_self).1 r.sol
    have hno := solveStep_not_outOfTape cfg t r.sol (hok t List.mem_cons_self).2
    obtain ⟨ca, hacc, hinva, hμa⟩ := hT.accept r.clock (solveStep cfg t r.sol).k hinv0 hfin
    simp only [List.length_cons] at hμ
    rcases hspec with ⟨_, c2, hc2, _, _, hclk, _, _, hst, _⟩ | ⟨_, e, he, _⟩ | ⟨hb, _⟩ | ⟨ho, _⟩ |
        ⟨_, c2, hc2, _, _, hclk, _, _, hst, _⟩ | ⟨_, e, _, hst, _⟩
    · have : c2 = ca := by rw [hacc] at hc2; exact (Except.ok.inj hc2).symm
      subst this
      apply ih hok'
      · rw [hst]; rcases statusOf_cases clk c2 with ⟨h, _⟩ | ⟨h, _⟩ <;> simp [h]
      · intro _; rw [hclk]; exact hinva
      · intro h
        rw [hst] at h
        rcases statusOf_cases clk c2 with ⟨_, h2⟩ | ⟨h1, _⟩
        · rw [hclk]; exact ⟨h2, by omega⟩
        · rw [h1] at h; cases h
    · rw [hacc] at he; cases he
    · exact absurd hb hnb
    · exact absurd ho hno
    · obtain ⟨hinvr, hμr⟩ := hT.retry r.clock c2 hinv0 hfin (retryOf_ok clk cfg _ c2 hc2).2
      apply ih hok'
      · rw [hst]; rcases statusOf_cases clk c2 with ⟨h, _⟩ | ⟨h, _⟩ <;> simp [h]
      · intro _; rw [hclk]; exact hinvr
      · intro h
        rw [hst] at h
        rcases statusOf_cases clk c2 with ⟨_, h2⟩ | ⟨h1, _⟩
        · rw [hclk]; exact ⟨h2, by omega⟩
        · rw [h1] at h; cases h
    · apply ih hok'
      · exact Or.inr (Or.inr ⟨e, hst⟩)
      · intro h; rw [hst] at h; rcases h with h | h <;> cases h
      · intro h; rw [hst] at h; cases h

/-! ### the tick clock satisfies the hypotheses -/

theorem scNextDt_spec (p : SCParams) (t dt k : Nat) (ht : t < p.final) :
    1 ≤ scNextDt p t dt k ∧ t + scNextDt p t dt k ≤ p.final := by
  unfold scNextDt
  simp only []
  generalize (if k ≤ 2 then 2 * dt else if 4 ≤ k then dt / 2 else dt) = d
  have hd : 1 ≤ (if d < 1 then 1 else d) := by split <;> omega
  generalize (if d < 1 then 1 else d) = d' at hd ⊢
  split <;> omega

theorem sc_measure_lt (F M t t' x : Nat) (h1 : t < t') (h2 : t' ≤ F) :
    (F - t') * (M + 1) + M < (F - t) * (M + 1) + x := by
  have h : (F - t') + 1 ≤ F - t := by omega
  have := Nat.mul_le_mul_right (M + 1) h
  rw [Nat.add_mul, Nat.one_mul] at this
  omega

theorem simpleClock_terminating' (p : SCParams) : Terminating (simpleClock p) (scInv p) (scMeasure p) := by
  constructor
  · intro c k ⟨hrec, hle, hstep⟩ hfin
    have hlt : c.t < p.final := by simpa [simpleClock] using hfin
    obtain ⟨hdt, hsum⟩ := hstep hlt
    refine ⟨{ t := c.t + c.dt, dt := scNextDt p (c.t + c.dt) c.dt k, recomp := 0 }, rfl, ⟨Nat.zero_le _, hsum, ?_⟩, ?_⟩
    · intro h; exact scNextDt_spec p _ _ _ h
    · simp only [scMeasure, Nat.sub_zero]
      exact sc_measure_lt p.final p.recompMax c.t (c.t + c.dt) _ (by omega) hsum
  · intro c c' ⟨hrec, hle, hstep⟩ hfin hret
    have hlt : c.t < p.final := by simpa [simpleClock] using hfin
    obtain ⟨hdt, hsum⟩ := hstep hlt
    simp only [simpleClock] at hret
    split at hret
    · rename_i hr
      split at hret
      · cases hret
      · rename_i hd
        have := Except.ok.inj hret
        subst this
        have hr' : c.recomp < p.recompMax := hr
        have hd' : ¬ c.dt = 1 := hd
        have ht : c.t + c.dt - c.dt = c.t := by omega
        refine ⟨⟨?_, ?_, ?_⟩, ?_⟩
        · show c.recomp + 1 ≤ p.recompMax; omega
        · show c.t + c.dt - c.dt ≤ p.final; omega
        · show c.t + c.dt - c.dt < p.final → 1 ≤ c.dt / 2 ∧ c.t + c.dt - c.dt + c.dt / 2 ≤ p.final
          intro _; omega
        · show (p.final - (c.t + c.dt - c.dt)) * (p.recompMax + 1) + (p.recompMax - (c.recomp + 1))
            < (p.final - c.t) * (p.recompMax + 1) + (p.recompMax - c.recomp)
          rw [ht]; omega
    · cases hret

/-! ### the time manager (C09's model) rewinds on a rejected step -/

theorem c09_correct_time (p : C09.Params) (s : C09.TM) :
    (C09.correct p s).1.time = s.time ∧ (C09.correct p s).1.timeIndex = s.timeIndex ∧
      (C09.correct p s).1.recompNum = s.recompNum := by
  unfold C09.correct
  simp only []
  split <;> exact ⟨rfl, rfl, rfl⟩

theorem tm_retry_rewinds' (p : C09.Params) (s s' : C09.TM)
    (h : (tmClock p).retry ((tmClock p).advance s) = .ok s') :
    s'.time = s.time ∧ s'.timeIndex = s.timeIndex ∧ s'.recompNum = s.recompNum + 1 := by
  simp only [tmClock] at h
  split at h
  · cases h
  · split at h
    · rename_i s2 r heq
      have := Except.ok.inj h
      subst this
      unfold C09.computeTimeStep at heq
      simp only [Bool.not_true, Bool.false_and, Bool.false_eq_true, if_false] at heq
      split at heq
      · rename_i hc; simp_all
      · split at heq
        · split at heq
          · cases heq
          · have h1 := c09_correct_time p
              { C09.increaseTimeIndex (C09.increaseTime s) with
                time := (C09.increaseTimeIndex (C09.increaseTime s)).time - (C09.increaseTimeIndex (C09.increaseTime s)).dt,
                timeIndex := (C09.increaseTimeIndex (C09.increaseTime s)).timeIndex - 1,
                dt := (C09.increaseTimeIndex (C09.increaseTime s)).dt * p.recompFactor,
                recompNum := (C09.increaseTimeIndex (C09.increaseTime s)).recompNum + 1,
                idx := if (C09.increaseTimeIndex (C09.increaseTime s)).aboutToHit then
                  (C09.increaseTimeIndex (C09.increaseTime s)).idx - 1 else (C09.increaseTimeIndex (C09.increaseTime s)).idx }
            rw [heq] at h1
            simp only [C09.increaseTimeIndex, C09.increaseTime] at h1
            obtain ⟨h1, h2, h3⟩ := h1
            refine ⟨?_, ?_, h3⟩
            · rw [h1]; grind
            · rw [h2]; omega
        · cases heq
    · cases h

/-! ### boundary values (repaired failure hook) -/

/-- boundary values at a boundary of the time loop: the iterate slot holds the value of the last
    accepted time, the time-step slots those of the accepted times before it -/
structure BcInv (cfg : Cfg) (t0 : Rat) (r : Run V C) : Prop where
  ok : (r.status = .running ∨ r.status = .finished) →
    some r.bc.it = r.acceptedT.head? ∧ r.bc.ts.length ≤ cfg.nTs ∧
    r.bc.ts.take (cfg.nTs - 1) = (r.acceptedT.tail ++ [t0]).take (cfg.nTs - 1)

theorem beforeLoop_spec (cfg : Cfg) (t t0 : Rat) (b : Bc) (accT : List Rat) (hTs : 0 < cfg.nTs)
    (h1 : some b.it = accT.head?) (h2 : b.ts.length ≤ cfg.nTs)
    (h3 : b.ts.take (cfg.nTs - 1) = (accT.tail ++ [t0]).take (cfg.nTs - 1)) :
    beforeLoop cfg t b = { it := t, ts := (accT ++ [t0]).take cfg.nTs } := by
  obtain ⟨n, hn⟩ : ∃ n, cfg.nTs = n + 1 := ⟨cfg.nTs - 1, by omega⟩
  cases accT with
  | nil => simp at h1
  | cons h tail =>
    have hb : b.it = h := by simpa using h1
    unfold beforeLoop
    rw [push_eq cfg.nTs b.it b.ts hTs h2, hn]
    rw [hn] at h3
    simp only [Nat.add_sub_cancel, List.tail_cons] at h3
    simp only [List.take_succ_cons, List.cons_append, h3, hb]

theorem bcinv_start (clk : Clock C) (cfg : Cfg) (v0 : V) (c0 : C) (hTs : 0 < cfg.nTs) :
    BcInv cfg (clk.time c0) (startRun clk cfg v0 c0 : Run V C) := by
  constructor
  intro _
  refine ⟨rfl, ?_, rfl⟩
  simp only [startRun, initBc, List.length_cons, List.length_nil]; omega

theorem bcinv_step [Add V] (clk : Clock C) (cfg : Cfg) (t0 : Rat) (hTs : 0 < cfg.nTs)
    (r : Run V C) (tape : List (Iter V)) (hok : NoBoth cfg tape) (hr : BcInv cfg t0 r) :
    BcInv cfg t0 (stepRun clk cfg r tape) := by
  by_cases hrun : r.status = .running
  case neg => rw [stepRun_not_running clk cfg r tape hrun]; exact hr
  obtain ⟨h1, h2, h3⟩ := hr.ok (Or.inl hrun)
  have hbl := beforeLoop_spec cfg (clk.time (clk.advance r.clock)) t0 r.bc r.acceptedT hTs h1 h2 h3
  have hspec := stepRun_spec clk cfg r tape hrun
  simp only [] at hspec
  have hnb := solveStep_not_both cfg tape hok r.sol
  obtain ⟨n, hn⟩ : ∃ n, cfg.nTs = n + 1 := ⟨cfg.nTs - 1, by omega⟩
  obtain ⟨h, tl, hacc⟩ : ∃ h tl, r.acceptedT = h :: tl := by
    cases hh : r.acceptedT with
    | nil => rw [hh] at h1; simp at h1
    | cons h tl => exact ⟨h, tl, rfl⟩
  rcases hspec with ⟨_, c2, _, _, hbc, _, _, haccT, hst, _⟩ | ⟨_, e, _, hst, _⟩ | ⟨hb, _⟩ | ⟨_, hst, _⟩ |
      ⟨_, c2, _, _, hbc, _, _, haccT, hst, _⟩ | ⟨_, e, _, hst, _⟩
  · constructor
    intro _
    rw [hbc, hbl, haccT]
    refine ⟨rfl, ?_, ?_⟩
    · simp only [List.length_take]; omega
    · simp only [hn, Nat.add_sub_cancel, List.tail_cons, List.take_take]
      congr 1; omega
  · constructor; intro h; rw [hst] at h; rcases h with h | h <;> cases h
  · exact absurd hb hnb
  · constructor; intro h; rw [hst] at h; rcases h with h | h <;> cases h
  · constructor
    intro _
    rw [hbc, hbl, haccT, hacc, hn]
    simp only [List.cons_append, List.take_succ_cons, bcRewind, List.head?_cons, List.tail_cons,
      Nat.add_sub_cancel, List.take_take, List.length_take]
    refine ⟨trivial, by omega, ?_⟩
    congr 1; omega
  · constructor; intro h; rw [hst] at h; rcases h with h | h <;> cases h

theorem bcinv_runAll [Add V] (clk : Clock C) (cfg : Cfg) (t0 : Rat) (hTs : 0 < cfg.nTs)
    (tapes : List (List (Iter V))) (hok : ∀ t ∈ tapes, NoBoth cfg t) :
    ∀ r : Run V C, BcInv cfg t0 r → BcInv cfg t0 (runAll clk cfg r tapes) := by
  induction tapes with
  | nil => intro r h; exact h
  | cons t ts ih =>
    intro r h
    rw [runAll_cons]
    exact ih (fun x hx => hok x (List.mem_cons_of_mem _ hx)) _
      (bcinv_step clk cfg t0 hTs r t (hok t List.mem_cons_self) h)

/-! ### the number of iterations of one solve -/

theorem newton_k_bounds [Add V] (cfg : Cfg) (tape : List (Iter V)) : ∀ (k : Nat) (s : Sol V),
    k ≤ (newton cfg k tape s).k ∧ (newton cfg k tape s).k ≤ max k (cfg.maxIt + 1) ∧
    (newton cfg k tape s).k ≤ k + tape.length ∧
    ((newton cfg k tape s).fin = .maxIter → k ≤ cfg.maxIt + 1 → (newton cfg k tape s).k = cfg.maxIt + 1) := by
  induction tape with
  | nil =>
    intro k s
    unfold newton
    refine ⟨Nat.le_refl _, by simp only []; omega, by simp, ?_⟩
    simp only []
    split
    · intro h; cases h
    · intro _ _; omega
  | cons it tape ih =>
    intro k s
    unfold newton
    split
    · rename_i hk
      split
      · refine ⟨by simp only []; omega, by simp only []; omega, by simp only [List.length_cons]; omega, ?_⟩
        simp only []; split <;> (intro h; cases h)
      · split
        · refine ⟨by simp only []; omega, by simp only []; omega, by simp only [List.length_cons]; omega, ?_⟩
          intro h; cases h
        · simp only []
          obtain ⟨h1, h2, h3, h4⟩ := ih (k + 1) (afterIteration cfg it.inc s)
          refine ⟨by omega, by omega, by simp only [List.length_cons]; omega, ?_⟩
          intro hf _; exact h4 hf (by omega)
    · rename_i hk
      refine ⟨Nat.le_refl _, by simp only []; omega, by simp only []; omega, ?_⟩
      intro _ h; simp only []; omega

/-- the loop logs exactly one "iter" and one "check" event per iteration -/
theorem newton_evs_length [Add V] (cfg : Cfg) (tape : List (Iter V)) : ∀ (k : Nat) (s : Sol V),
    (newton cfg k tape s).evs.length = 2 * ((newton cfg k tape s).k - k) := by
  induction tape with
  | nil => intro k s; unfold newton; simp
  | cons it tape ih =>
    intro k s
    unfold newton
    split
    · split
      · simp
      · split
        · simp
        · simp only [List.length_append, List.length_cons, List.length_nil]
          rw [ih]
          have := (newton_k_bounds cfg tape (k + 1) (afterIteration cfg it.inc s)).1
          omega
    · simp

/-! ### the faithful clock: simulation by C09's time loop -/

/-- the C10 run over `tmClock p` and a C09 run are in the same state of the time manager -/
def Sim (r : Run V C09.TM) (r9 : C09.Run) : Prop :=
  (r.status = .running ∧ r9.status = .running ∧ r.clock = r9.tm ∧ r.acceptedT = r9.accepted) ∨
  (r.status = .finished ∧ r9.status = .finished ∧ r.clock = r9.tm ∧ r.acceptedT = r9.accepted) ∨
  (∃ e e', r.status = .raised e ∧ r9.status = .raised e') ∨
  (∃ e e', r.status = .crashed e ∧ r9.status = .crashed e')

theorem statusOf_tm (p : C09.Params) (c : C09.TM) :
    (statusOf (tmClock p) c = .running ∧ C09.statusOf p c = .running) ∨
    (statusOf (tmClock p) c = .finished ∧ C09.statusOf p c = .finished) := by
  unfold statusOf C09.statusOf
  simp only [tmClock]
  by_cases h : C09.finalTimeReached p c = true
  · right; simp [h]
  · left; simp [h]

theorem sim_of_status (p : C09.Params) (r : Run V C09.TM) (r9 : C09.Run) (c : C09.TM)
    (h1 : r.status = statusOf (tmClock p) c) (h2 : r9.status = C09.statusOf p c) (h3 : r.clock = c) (h4 : r9.tm = c)
    (h5 : r.acceptedT = r9.accepted) : Sim r r9 := by
  rcases statusOf_tm p c with ⟨a, b⟩ | ⟨a, b⟩
  · exact Or.inl ⟨by rw [h1, a], by rw [h2, b], by rw [h3, h4], h5⟩
  · exact Or.inr (Or.inl ⟨by rw [h1, a], by rw [h2, b], by rw [h3, h4], h5⟩)

theorem sim_step [Add V] (p : C09.Params) (cfg : Cfg) (r : Run V C09.TM) (r9 : C09.Run) (tape : List (Iter V))
    (hok : NoBoth cfg tape) (hlen : cfg.maxIt < tape.length) (hlin : cfg.linear = false) (h : Sim r r9) :
    ∃ o, Sim (stepRun (tmClock p) cfg r tape) (C09.stepRun p r9 o) := by
  by_cases hrun : r.status = .running
  case neg =>
    refine ⟨.failed, ?_⟩
    rw [stepRun_not_running _ cfg r tape hrun]
    have h9 : r9.status ≠ .running := by
      rcases h with ⟨a, _⟩ | ⟨_, b, _⟩ | ⟨_, _, _, b⟩ | ⟨_, _, _, b⟩
      · exact absurd a hrun
      all_goals (rw [b]; simp)
    have : C09.stepRun p r9 .failed = r9 := by
      unfold C09.stepRun
      split
      · rename_i h'; exact absurd h' h9
      · rfl
    rw [this]; exact h
  obtain ⟨h9, hclk, hacc9⟩ : r9.status = .running ∧ r.clock = r9.tm ∧ r.acceptedT = r9.accepted := by
    rcases h with ⟨_, b, c, d⟩ | ⟨a, _⟩ | ⟨_, _, a, _⟩ | ⟨_, _, a, _⟩
    · exact ⟨b, c, d⟩
    all_goals (rw [hrun] at a; cases a)
  have hspec := stepRun_spec (tmClock p) cfg r tape hrun
  simp only [] at hspec
  have hnb := solveStep_not_both cfg tape hok r.sol
  have hno := solveStep_not_outOfTape cfg tape r.sol hlen
  have hadv : (tmClock p).advance r.clock = C09.increaseTimeIndex (C09.increaseTime r9.tm) := by rw [hclk]; rfl
  have htime : (tmClock p).time ((tmClock p).advance r.clock) = (C09.increaseTimeIndex (C09.increaseTime r9.tm)).time := by
    rw [hadv]; rfl
  rw [hadv] at hspec
  rcases hspec with ⟨_, c2, hc2, _, _, hclk', _, haccT, hst, _⟩ | ⟨_, e, he, hst, _⟩ | ⟨hb, _⟩ | ⟨ho, _⟩ |
      ⟨_, c2, hc2, _, _, hclk', _, haccT, hst, _⟩ | ⟨_, e, he, hst, _⟩
  · -- accepted
    refine ⟨.converged ((solveStep cfg tape r.sol).k : Int), ?_⟩
    simp only [tmClock] at hc2
    unfold C09.stepRun
    rw [h9]; simp only []
    split at hc2
    · rename_i hconst
      have := Except.ok.inj hc2; subst this
      rw [if_pos hconst]
      exact sim_of_status p _ _ _ hst rfl hclk' rfl (by rw [haccT, hacc9]; rfl)
    · rename_i hconst
      rw [if_neg hconst]
      split at hc2
      · rename_i s2 ret heq
        have := Except.ok.inj hc2; subst this
        rw [heq]
        exact sim_of_status p _ _ _ hst rfl hclk' rfl (by rw [haccT, hacc9]; rfl)
      · cases hc2
  · -- the accept hook raised
    refine ⟨.converged ((solveStep cfg tape r.sol).k : Int), ?_⟩
    simp only [tmClock] at he
    unfold C09.stepRun
    rw [h9]; simp only []
    split at he
    · cases he
    · rename_i hconst
      rw [if_neg hconst]
      split at he
      · cases he
      · rename_i s2 e' heq
        rw [heq]
        exact Or.inr (Or.inr (Or.inr ⟨e, e', hst, rfl⟩))
  · exact absurd hb hnb
  · exact absurd ho hno
  · -- rejected, recomputed
    refine ⟨.failed, ?_⟩
    rw [retryOf_nonlinear _ cfg _ hlin] at hc2
    simp only [tmClock] at hc2
    unfold C09.stepRun
    rw [h9]; simp only []
    split at hc2
    · cases hc2
    · rename_i hconst
      rw [if_neg hconst]
      split at hc2
      · rename_i s2 ret heq
        have := Except.ok.inj hc2; subst this
        rw [heq]
        exact sim_of_status p _ _ _ hst rfl hclk' rfl (by rw [haccT, hacc9])
      · cases hc2
  · -- rejected, raised
    refine ⟨.failed, ?_⟩
    rw [retryOf_nonlinear _ cfg _ hlin] at he
    simp only [tmClock] at he
    unfold C09.stepRun
    rw [h9]; simp only []
    split at he
    · rename_i hconst
      rw [if_pos hconst]
      exact Or.inr (Or.inr (Or.inl ⟨e, _, hst, rfl⟩))
    · rename_i hconst
      rw [if_neg hconst]
      split at he
      · cases he
      · rename_i s2 e' heq
        rw [heq]
        exact Or.inr (Or.inr (Or.inl ⟨e, e', hst, rfl⟩))

theorem sim_runAll [Add V] (p : C09.Params) (cfg : Cfg) (tapes : List (List (Iter V)))
    (hok : ∀ t ∈ tapes, NoBoth cfg t ∧ cfg.maxIt < t.length) (hlin : cfg.linear = false) :
    ∀ (r : Run V C09.TM) (r9 : C09.Run), Sim r r9 →
      ∃ os : List C09.Outcome, os.length = tapes.length ∧ Sim (runAll (tmClock p) cfg r tapes) (C09.runFrom p r9 os) := by
  induction tapes with
  | nil => intro r r9 h; exact ⟨[], rfl, h⟩
  | cons t ts ih =>
    intro r r9 h
    obtain ⟨o, ho⟩ := sim_step p cfg r r9 t (hok t List.mem_cons_self).1 (hok t List.mem_cons_self).2 hlin h
    obtain ⟨os, hl, hs⟩ := ih (fun x hx => hok x (List.mem_cons_of_mem _ hx)) _ _ ho
    exact ⟨o :: os, by simp [hl], by rw [runAll_cons]; exact hs⟩

theorem sim_start (p : C09.Params) (cfg : Cfg) (v0 : V) :
    Sim (startRun (tmClock p) cfg v0 (C09.init p) : Run V C09.TM) (C09.startRun p) :=
  sim_of_status p _ _ (C09.init p) rfl rfl rfl rfl rfl

end PorepyVerif.C10
