import PorepyVerif.C10.Props
#print axioms PorepyVerif.C10.after_converged_ts0_eq_iterate
#print axioms PorepyVerif.C10.after_failed_iterate_eq_ts0
#print axioms PorepyVerif.C10.history_is_accepted_sequence
#print axioms PorepyVerif.C10.loop_boundary_consistent
#print axioms PorepyVerif.C10.windows_keep_length
#print axioms PorepyVerif.C10.finished_is_final
#print axioms PorepyVerif.C10.ends_at_final_time_or_raises
#print axioms PorepyVerif.C10.simpleClock_terminating
#print axioms PorepyVerif.C10.simpleClock_run_ends
#print axioms PorepyVerif.C10.tm_retry_rewinds
#print axioms PorepyVerif.C10.bc_history_is_accepted_times
#print axioms PorepyVerif.C10.both_flags_break_consistency
#print axioms PorepyVerif.C10.bc_defect_witness
