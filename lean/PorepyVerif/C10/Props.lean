/-
C10 — property theorems (statements depend on Model.lean only; helper lemmas in Lemmas.lean).

Property: during a time-dependent run in which any subset of Newton solves is forced to fail (adaptive
time stepping), after every converged step the most recent stored time-step values equal the converged
iterate, after every failed step the current iterate is reset to the last accepted time-step values, and
the run ends at the final time with the time-step history equal to the sequence of accepted solutions.

All theorems quantify over: every value type `V` with an addition, every clock `clk` (hence every time
manager), every configuration with window lengths ≥ 1, every history of solve tapes `tapes` (every
failure pattern: which solves diverge or exhaust the iterations, and at which iteration) and the tape of
the next solve.  `runAll clk cfg (startRun clk cfg v0 c0) tapes` is an arbitrary reachable state of
`run_time_dependent_model`'s loop.
-/
import PorepyVerif.C10.Lemmas

namespace PorepyVerif.C10

variable {V C : Type} [Add V]

/-- After every converged (accepted) step the most recent stored time-step value equals the converged
    iterate — the iterate the Newton loop ended with —, which is also still the current iterate and
    the new head of the accepted sequence. -/
theorem after_converged_ts0_eq_iterate (clk : Clock C) (cfg : Cfg) (hIt : 0 < cfg.nIt) (hTs : 0 < cfg.nTs)
    (v0 : V) (c0 : C) (tapes : List (List (Iter V))) (tape : List (Iter V)) :
    let r := runAll clk cfg (startRun clk cfg v0 c0) tapes
    let r' := stepRun clk cfg r tape
    r.status = .running → r'.last = .accepted →
    ∃ v, (solveStep cfg tape r.sol).sol.its.head? = some v ∧ r'.sol.tss.head? = some v ∧
      r'.sol.its.head? = some v ∧ r'.accepted = v :: r.accepted := by
  intro r r' hrun hlast
  have hinv : Inv clk cfg v0 r := inv_runAll clk cfg v0 hIt hTs tapes _ (inv_start clk cfg v0 c0 hIt hTs)
  have hlen := solveStep_its_length cfg tape r.sol hinv.itsLen
  have hspec := stepRun_spec clk cfg r tape hrun
  simp only [] at hspec
  rcases hspec with ⟨_, c2, _, hsol, _, _, hacc, _, _, _⟩ | ⟨_, _, _, _, hl, _⟩ | ⟨_, _, _, _, _, _, _, hl⟩ |
      ⟨_, _, hl, _⟩ | ⟨_, _, _, _, _, _, _, _, _, hl⟩ | ⟨_, _, _, _, hl, _⟩
  · obtain ⟨v, rest, hv⟩ : ∃ v rest, (solveStep cfg tape r.sol).sol.its = v :: rest := by
      cases h : (solveStep cfg tape r.sol).sol.its with
      | nil => rw [h] at hlen; simp at hlen; omega
      | cons v rest => exact ⟨v, rest, rfl⟩
    rw [updateSolution_eq cfg _ v rest hv] at hsol
    refine ⟨v, by rw [hv]; rfl, ?_, ?_, ?_⟩
    · show (stepRun clk cfg r tape).sol.tss.head? = some v
      rw [hsol]; exact set0_head? _ _
    · show (stepRun clk cfg r tape).sol.its.head? = some v
      rw [hsol]; simp only []; rw [hv]; rfl
    · show (stepRun clk cfg r tape).accepted = v :: r.accepted
      rw [hacc, hv]; rfl
  all_goals (exfalso; have : (stepRun clk cfg r tape).last = .accepted := hlast; rw [hl] at this; cases this)

/-- After every failed step (diverged at some iteration, or out of iterations) that the time manager lets
    recompute, the current iterate equals the most recent time-step value, the stored time steps are
    untouched, and that value is the last accepted solution. -/
theorem after_failed_iterate_eq_ts0 (clk : Clock C) (cfg : Cfg) (hIt : 0 < cfg.nIt) (hTs : 0 < cfg.nTs)
    (v0 : V) (c0 : C) (tapes : List (List (Iter V))) (tape : List (Iter V)) :
    let r := runAll clk cfg (startRun clk cfg v0 c0) tapes
    let r' := stepRun clk cfg r tape
    r.status = .running → r'.last = .retried →
    r'.sol.its.head? = r'.sol.tss.head? ∧ r'.sol.tss = r.sol.tss ∧ r'.accepted = r.accepted ∧
      r'.sol.tss.head? = r.accepted.head? := by
  intro r r' hrun hlast
  have hinv : Inv clk cfg v0 r := inv_runAll clk cfg v0 hIt hTs tapes _ (inv_start clk cfg v0 c0 hIt hTs)
  have hinv' : Inv clk cfg v0 r' := inv_step clk cfg v0 hIt hTs r tape hinv
  have htss := solveStep_tss cfg tape r.sol
  have hspec := stepRun_spec clk cfg r tape hrun
  simp only [] at hspec
  rcases hspec with ⟨_, _, _, _, _, _, _, _, _, hl⟩ | ⟨_, _, _, _, hl, _⟩ | ⟨_, _, _, _, _, _, _, hl⟩ |
      ⟨_, _, hl, _⟩ | ⟨_, c2, _, hsol, _, _, hacc, _, hst, _⟩ | ⟨_, _, _, _, hl, _⟩
  case inr.inr.inr.inr.inl =>
    have hw : (solveStep cfg tape r.sol).sol.tss = window cfg.nTs r.accepted v0 := by rw [htss]; exact hinv.hist
    obtain ⟨w, rest, hwr⟩ : ∃ w rest, (solveStep cfg tape r.sol).sol.tss = w :: rest := by
      cases h : (solveStep cfg tape r.sol).sol.tss with
      | nil => have := window_length cfg.nTs r.accepted v0; rw [← hw, h] at this; simp at this; omega
      | cons w rest => exact ⟨w, rest, rfl⟩
    rw [resetIterate_eq _ w rest hwr] at hsol
    have htss' : (stepRun clk cfg r tape).sol.tss = r.sol.tss := by rw [hsol]; exact htss
    refine ⟨?_, htss', hacc, ?_⟩
    · show (stepRun clk cfg r tape).sol.its.head? = (stepRun clk cfg r tape).sol.tss.head?
      rw [hsol]; simp only []; rw [set0_head?, hwr]; rfl
    · show (stepRun clk cfg r tape).sol.tss.head? = r.accepted.head?
      rw [htss', hinv.hist]; exact window_head? _ _ _ hTs hinv.accNe
  all_goals (exfalso; have : (stepRun clk cfg r tape).last = .retried := hlast; rw [hl] at this; cases this)

/-- The time-step history always equals the sequence of accepted solutions, most recent first, truncated
    to the window (padded with the initial value while fewer than `nTs` steps were accepted) — whatever
    happened in between: failures, raised errors, exhausted tapes. -/
theorem history_is_accepted_sequence (clk : Clock C) (cfg : Cfg) (hIt : 0 < cfg.nIt) (hTs : 0 < cfg.nTs)
    (v0 : V) (c0 : C) (tapes : List (List (Iter V))) :
    let r := runAll clk cfg (startRun clk cfg v0 c0) tapes
    r.sol.tss = window cfg.nTs r.accepted v0 :=
  (inv_runAll clk cfg v0 hIt hTs tapes _ (inv_start clk cfg v0 c0 hIt hTs)).hist

/-- At every boundary of the time loop (between two solves, and when the loop has ended at the final time)
    the current iterate, the most recent time-step value and the last accepted solution coincide. -/
theorem loop_boundary_consistent (clk : Clock C) (cfg : Cfg) (hIt : 0 < cfg.nIt) (hTs : 0 < cfg.nTs)
    (v0 : V) (c0 : C) (tapes : List (List (Iter V))) (hok : ∀ t ∈ tapes, NoBoth cfg t) :
    let r := runAll clk cfg (startRun clk cfg v0 c0) tapes
    (r.status = .running ∨ r.status = .finished) →
    r.sol.its.head? = r.sol.tss.head? ∧ r.sol.tss.head? = r.accepted.head? := by
  intro r hst
  have hinv : Inv clk cfg v0 r := inv_runAll clk cfg v0 hIt hTs tapes _ (inv_start clk cfg v0 c0 hIt hTs)
  have hl : r.last ≠ .both := last_ne_both clk cfg tapes hok _ (by simp [startRun])
  refine ⟨hinv.cons hl hst, ?_⟩
  rw [hinv.hist]; exact window_head? _ _ _ hTs hinv.accNe

/-- The stored windows keep their lengths (`len(iterate_indices)`, `len(time_step_indices)`). -/
theorem windows_keep_length (clk : Clock C) (cfg : Cfg) (hIt : 0 < cfg.nIt) (hTs : 0 < cfg.nTs)
    (v0 : V) (c0 : C) (tapes : List (List (Iter V))) :
    let r := runAll clk cfg (startRun clk cfg v0 c0) tapes
    r.sol.its.length = cfg.nIt ∧ r.sol.tss.length = cfg.nTs := by
  intro r
  have hinv : Inv clk cfg v0 r := inv_runAll clk cfg v0 hIt hTs tapes _ (inv_start clk cfg v0 c0 hIt hTs)
  exact ⟨hinv.itsLen, by rw [hinv.hist]; exact window_length _ _ _⟩

/-- The loop is left as "finished" only when the time manager reports the final time, and it keeps running
    only while it does not. -/
theorem finished_is_final (clk : Clock C) (cfg : Cfg) (hIt : 0 < cfg.nIt) (hTs : 0 < cfg.nTs)
    (v0 : V) (c0 : C) (tapes : List (List (Iter V))) :
    let r := runAll clk cfg (startRun clk cfg v0 c0) tapes
    (r.status = .finished → clk.final r.clock = true) ∧ (r.status = .running → clk.final r.clock = false) := by
  intro r
  have hinv : Inv clk cfg v0 r := inv_runAll clk cfg v0 hIt hTs tapes _ (inv_start clk cfg v0 c0 hIt hTs)
  exact ⟨hinv.statF, hinv.statR⟩

/-- The run ends at the final time or raises: for a clock with a termination measure (`Terminating`: every
    accepted step and every recomputation the clock grants decreases `μ` — for the time manager the
    remaining distance and the remaining recomputation budget), every sufficiently long supply of
    well-formed tapes (each long enough for `max_iterations + 1` iterations) drives the loop to
    "finished" with `final_time_reached()` true, or to the error raised by `after_nonlinear_failure`
    when the clock refuses another recomputation.  No other end (crash in the accept hook, both flags,
    exhausted tape, still running) is possible. -/
theorem ends_at_final_time_or_raises (clk : Clock C) (cfg : Cfg) (inv : C → Prop) (μ : C → Nat)
    (hT : Terminating clk inv μ) (v0 : V) (c0 : C) (hc0 : inv c0) (tapes : List (List (Iter V)))
    (hok : ∀ t ∈ tapes, NoBoth cfg t ∧ cfg.maxIt < t.length) (hlen : μ c0 < tapes.length) :
    let r := runAll clk cfg (startRun clk cfg v0 c0) tapes
    (r.status = .finished ∧ clk.final r.clock = true ∧ inv r.clock) ∨ ∃ e, r.status = .raised e := by
  intro r
  have hs : (startRun clk cfg v0 c0 : Run V C).status = statusOf clk c0 := rfl
  have h := runAll_ends clk cfg inv μ hT tapes hok (startRun clk cfg v0 c0)
    (by rw [hs]; rcases statusOf_cases clk c0 with ⟨h, _⟩ | ⟨h, _⟩ <;> simp [h])
    (fun _ => hc0)
    (by
      intro h; rw [hs] at h
      rcases statusOf_cases clk c0 with ⟨_, h2⟩ | ⟨h1, _⟩
      · exact ⟨h2, hlen⟩
      · rw [h1] at h; cases h)
  rcases h with ⟨h1, h2⟩ | h
  · left
    refine ⟨h1, ?_, h2⟩
    -- `finished` is only ever set by `statusOf`
    have key : ∀ (tapes : List (List (Iter V))) (r : Run V C),
        (r.status = .finished → clk.final r.clock = true) →
        (runAll clk cfg r tapes).status = .finished → clk.final (runAll clk cfg r tapes).clock = true := by
      intro tapes
      induction tapes with
      | nil => intro r h; exact h
      | cons t ts ih =>
        intro r h
        rw [runAll_cons]
        apply ih
        by_cases hr : r.status = .running
        case neg => rw [stepRun_not_running clk cfg r t hr]; exact h
        have hspec := stepRun_spec clk cfg r t hr
        simp only [] at hspec
        rcases hspec with ⟨_, c2, _, _, _, hclk, _, _, hst, _⟩ | ⟨_, e, _, hst, _⟩ | ⟨_, _, _, hclk, _, _, hst, _⟩ |
            ⟨_, hst, _⟩ | ⟨_, c2, _, _, _, hclk, _, _, hst, _⟩ | ⟨_, e, _, hst, _⟩
        · intro hf; rw [hst] at hf; rw [hclk]
          rcases statusOf_cases clk c2 with ⟨h1, _⟩ | ⟨_, h2⟩
          · rw [h1] at hf; cases hf
          · exact h2
        · intro hf; rw [hst] at hf; cases hf
        · intro hf; rw [hst] at hf; rw [hclk]
          rcases statusOf_cases clk (clk.advance r.clock) with ⟨h1, _⟩ | ⟨_, h2⟩
          · rw [h1] at hf; cases hf
          · exact h2
        · intro hf; rw [hst] at hf; cases hf
        · intro hf; rw [hst] at hf; rw [hclk]
          rcases statusOf_cases clk c2 with ⟨h1, _⟩ | ⟨_, h2⟩
          · rw [h1] at hf; cases hf
          · exact h2
        · intro hf; rw [hst] at hf; cases hf
    apply key tapes _ _ h1
    intro hf
    rw [hs] at hf
    rcases statusOf_cases clk c0 with ⟨h1, _⟩ | ⟨_, h2⟩
    · rw [h1] at hf; cases hf
    · exact h2
  · exact Or.inr h

/-- The hypotheses of `ends_at_final_time_or_raises` are satisfiable: the tick clock (accept with a grown or
    shrunk step capped at the final time / recompute with half the step / raise at the minimal step or
    when `recompMax` recomputations were used) is `Terminating`. -/
theorem simpleClock_terminating (p : SCParams) : Terminating (simpleClock p) (scInv p) (scMeasure p) :=
  simpleClock_terminating' p

/-- … hence every run over the tick clock with enough well-formed tapes ends EXACTLY at the final time
    (last solve accepted or not needed) or raises, whatever the failure pattern. -/
theorem simpleClock_run_ends (p : SCParams) (cfg : Cfg) (v0 : V) (d0 : Nat) (hd : 1 ≤ d0) (hd' : d0 ≤ p.final)
    (tapes : List (List (Iter V))) (hok : ∀ t ∈ tapes, NoBoth cfg t ∧ cfg.maxIt < t.length)
    (hlen : p.final * (p.recompMax + 1) + p.recompMax < tapes.length) :
    let r := runAll (simpleClock p) cfg (startRun (simpleClock p) cfg v0 ⟨0, d0, 0⟩) tapes
    (r.status = .finished ∧ r.clock.t = p.final) ∨ ∃ e, r.status = .raised e := by
  intro r
  have h := ends_at_final_time_or_raises (simpleClock p) cfg (scInv p) (scMeasure p) (simpleClock_terminating p)
    v0 ⟨0, d0, 0⟩ ⟨Nat.zero_le _, Nat.zero_le _, fun _ => ⟨hd, by simpa using hd'⟩⟩ tapes hok
    (by simpa [scMeasure] using hlen)
  rcases h with ⟨h1, h2, h3⟩ | h
  · left
    refine ⟨h1, ?_⟩
    have h2' : p.final ≤ (runAll (simpleClock p) cfg (startRun (simpleClock p) cfg v0 ⟨0, d0, 0⟩) tapes).clock.t := by
      simpa [simpleClock] using h2
    have := h3.2.1
    show (runAll (simpleClock p) cfg (startRun (simpleClock p) cfg v0 ⟨0, d0, 0⟩) tapes).clock.t = p.final
    omega
  · exact Or.inr h

/-- A rejected step rewinds the time manager (C09's model): the time and the time index are those of the
    last accepted step again, and one recomputation is counted. -/
theorem tm_retry_rewinds (p : C09.Params) (s s' : C09.TM)
    (h : (tmClock p).retry ((tmClock p).advance s) = .ok s') :
    (tmClock p).time s' = (tmClock p).time s ∧ s'.timeIndex = s.timeIndex ∧ s'.recompNum = s.recompNum + 1 :=
  tm_retry_rewinds' p s s' h

/-- `ends_at_final_time_or_raises` for the REAL time manager model: over `tmClock p` — C09's verified model of
    `TimeManager`, simulated step by step by C09's time loop (`sim_runAll`) — with parameters the constructor
    accepts (`C09.Admissible`), a positive `dt_min`, and a supply of well-formed tapes as long as C09's
    termination bound `(recomp_max + 1)·((t_final − t_init)/dt_min + len(schedule) − 1)`, EVERY failure pattern
    drives the run to "finished" with `final_time_reached()` true or to the `ValueError` of
    `after_nonlinear_failure`.  (C09.run_terminates excludes "still running", C09.only_documented_errors
    excludes an exception from the convergence hook.) -/
theorem ends_at_final_time_or_raises_tm (p : C09.Params) (A : C09.Admissible p) (hmin : 0 < p.dtMin)
    (cfg : Cfg) (v0 : V) (tapes : List (List (Iter V)))
    (hok : ∀ t ∈ tapes, NoBoth cfg t ∧ cfg.maxIt < t.length) (hlin : cfg.linear = false)
    (hlen : ((p.recompMax : Rat) + 1) *
              ((p.timeFinal - p.timeInit) + p.dtMin * ((p.schedule.length - 1 : Nat) : Rat))
              ≤ p.dtMin * (tapes.length : Rat)) :
    let r := runAll (tmClock p) cfg (startRun (tmClock p) cfg v0 (C09.init p)) tapes
    (r.status = .finished ∧ C09.finalTimeReached p r.clock = true) ∨ ∃ e, r.status = .raised e := by
  intro r
  obtain ⟨os, hl, hs⟩ := sim_runAll p cfg tapes hok hlin _ _ (sim_start p cfg v0)
  have hterm := C09.run_terminates p A hmin os (by rw [hl]; exact hlen)
  have hdoc := (C09.only_documented_errors p A os).2
  rcases hs with ⟨_, b, _⟩ | ⟨a, _, c, _⟩ | ⟨e, _, a, _⟩ | ⟨_, e', _, b⟩
  · exact absurd b hterm
  · left
    refine ⟨a, ?_⟩
    -- a finished C10 run has a clock at which `final_time_reached()` holds: `finished` is only set by `statusOf`
    have key : ∀ (tapes : List (List (Iter V))) (r : Run V C09.TM),
        (r.status = .finished → C09.finalTimeReached p r.clock = true) →
        (runAll (tmClock p) cfg r tapes).status = .finished →
          C09.finalTimeReached p (runAll (tmClock p) cfg r tapes).clock = true := by
      intro tapes
      induction tapes with
      | nil => intro r h; exact h
      | cons t ts ih =>
        intro r h
        rw [runAll_cons]
        apply ih
        by_cases hr : r.status = .running
        case neg => rw [stepRun_not_running _ cfg r t hr]; exact h
        have hspec := stepRun_spec (tmClock p) cfg r t hr
        simp only [] at hspec
        rcases hspec with ⟨_, c2, _, _, _, hclk, _, _, hst, _⟩ | ⟨_, e, _, hst, _⟩ | ⟨_, _, _, hclk, _, _, hst, _⟩ |
            ⟨_, hst, _⟩ | ⟨_, c2, _, _, _, hclk, _, _, hst, _⟩ | ⟨_, e, _, hst, _⟩
        · intro hf; rw [hst] at hf; rw [hclk]
          rcases statusOf_cases (tmClock p) c2 with ⟨h1, _⟩ | ⟨_, h2⟩
          · rw [h1] at hf; cases hf
          · exact h2
        · intro hf; rw [hst] at hf; cases hf
        · intro hf; rw [hst] at hf; rw [hclk]
          rcases statusOf_cases (tmClock p) ((tmClock p).advance r.clock) with ⟨h1, _⟩ | ⟨_, h2⟩
          · rw [h1] at hf; cases hf
          · exact h2
        · intro hf; rw [hst] at hf; cases hf
        · intro hf; rw [hst] at hf; rw [hclk]
          rcases statusOf_cases (tmClock p) c2 with ⟨h1, _⟩ | ⟨_, h2⟩
          · rw [h1] at hf; cases hf
          · exact h2
        · intro hf; rw [hst] at hf; cases hf
    apply key tapes _ _ a
    intro hf
    rcases statusOf_cases (tmClock p) (C09.init p) with ⟨h1, _⟩ | ⟨_, h2⟩
    · have : (startRun (tmClock p) cfg v0 (C09.init p) : Run V C09.TM).status = statusOf (tmClock p) (C09.init p) := rfl
      rw [this, h1] at hf; cases hf
    · exact h2
  · exact Or.inr ⟨e, a⟩
  · exact absurd b (hdoc e')

/-- … and the number of accepted steps of such a run is bounded (C09.accepted_steps_bounded transported along
    the simulation): `dt_min · #accepted ≤ (t_final − t_init) + dt_min · len(schedule)`, whatever the tapes. -/
theorem accepted_steps_bounded_tm (p : C09.Params) (A : C09.Admissible p) (hmin : 0 < p.dtMin)
    (cfg : Cfg) (v0 : V) (tapes : List (List (Iter V)))
    (hok : ∀ t ∈ tapes, NoBoth cfg t ∧ cfg.maxIt < t.length) (hlin : cfg.linear = false) :
    let r := runAll (tmClock p) cfg (startRun (tmClock p) cfg v0 (C09.init p)) tapes
    (r.status = .running ∨ r.status = .finished) →
    p.dtMin * (r.acceptedT.length : Rat) ≤ (p.timeFinal - p.timeInit) + p.dtMin * (p.schedule.length : Rat) := by
  intro r hst
  obtain ⟨os, _, hs⟩ := sim_runAll p cfg tapes hok hlin _ _ (sim_start p cfg v0)
  have hb := C09.accepted_steps_bounded p A hmin os
  rcases hs with ⟨_, _, _, d⟩ | ⟨_, _, _, d⟩ | ⟨e, _, a, _⟩ | ⟨e, _, a, _⟩
  · show p.dtMin * ((runAll (tmClock p) cfg (startRun (tmClock p) cfg v0 (C09.init p)) tapes).acceptedT.length : Rat) ≤ _
    rw [d]; exact hb
  · show p.dtMin * ((runAll (tmClock p) cfg (startRun (tmClock p) cfg v0 (C09.init p)) tapes).acceptedT.length : Rat) ≤ _
    rw [d]; exact hb
  · rcases hst with h | h <;> (have : r.status = _ := h; rw [a] at this; cases this)
  · rcases hst with h | h <;> (have : r.status = _ := h; rw [a] at this; cases this)

/-- "Within the recomputation budget": the ONLY way a run raises is the time-manager call of
    `after_nonlinear_failure` (or the linear-problem `ValueError` of that hook) on the clock the run stopped
    at — for every clock, every tape history. -/
theorem raises_only_through_failure_hook (clk : Clock C) (cfg : Cfg) (v0 : V) (c0 : C) (tapes : List (List (Iter V))) :
    let r := runAll clk cfg (startRun clk cfg v0 c0) tapes
    ∀ e, r.status = .raised e → retryOf clk cfg r.clock = .error e := by
  intro r
  have key : ∀ (tapes : List (List (Iter V))) (r : Run V C),
      (∀ e, r.status = .raised e → retryOf clk cfg r.clock = .error e) →
      ∀ e, (runAll clk cfg r tapes).status = .raised e → retryOf clk cfg (runAll clk cfg r tapes).clock = .error e := by
    intro tapes
    induction tapes with
    | nil => intro r h; exact h
    | cons t ts ih =>
      intro r h
      rw [runAll_cons]
      apply ih
      by_cases hr : r.status = .running
      case neg => rw [stepRun_not_running clk cfg r t hr]; exact h
      have hspec := stepRun_spec clk cfg r t hr
      simp only [] at hspec
      intro e he
      rcases hspec with ⟨_, c2, _, _, _, _, _, _, hst, _⟩ | ⟨_, _, _, hst, _⟩ | ⟨_, _, _, _, _, _, hst, _⟩ |
          ⟨_, hst, _⟩ | ⟨_, c2, _, _, _, _, _, _, hst, _⟩ | ⟨_, e', he', hst, _, _, _, _, hclk⟩
      · rw [hst] at he; rcases statusOf_cases clk c2 with ⟨h1, _⟩ | ⟨h1, _⟩ <;> (rw [h1] at he; cases he)
      · rw [hst] at he; cases he
      · rw [hst] at he
        rcases statusOf_cases clk (clk.advance r.clock) with ⟨h1, _⟩ | ⟨h1, _⟩ <;> (rw [h1] at he; cases he)
      · rw [hst] at he; cases he
      · rw [hst] at he; rcases statusOf_cases clk c2 with ⟨h1, _⟩ | ⟨h1, _⟩ <;> (rw [h1] at he; cases he)
      · rw [hst] at he
        have : e' = e := by injection he
        subst this
        rw [hclk]; exact he'
  apply key tapes
  intro e he
  rcases statusOf_cases clk c0 with ⟨h1, _⟩ | ⟨h1, _⟩ <;>
    (have : (startRun clk cfg v0 c0 : Run V C).status = statusOf clk c0 := rfl; rw [this, h1] at he; cases he)

/-- … and for the real time-manager model that call raises `ValueError` exactly when the budget is used up:
    constant step, `_recomp_num` reached `recomp_max`, or `dt` already is `dt_min` (the remaining error,
    `IndexError` of the schedule correction, is excluded for admissible parameters by
    C09.only_documented_errors, see `ends_at_final_time_or_raises_tm`). -/
theorem tm_raise_means_budget_exhausted (p : C09.Params) (c : C09.TM) (e : String)
    (h : (tmClock p).retry c = .error e) :
    (e = "ValueError" ∧ (p.constantDt = true ∨ ¬((c.recompNum : Int) < p.recompMax) ∨ c.dt = p.dtMin)) ∨
      e = "IndexError" := by
  simp only [tmClock] at h
  split at h
  · rename_i hc
    left; exact ⟨by injection h with h; exact h.symm, Or.inl hc⟩
  · split at h
    · cases h
    · rename_i s2 e' heq
      have he : e = errName e' := by injection h with h; exact h.symm
      unfold C09.computeTimeStep at heq
      simp only [Bool.not_true, Bool.false_and, Bool.false_eq_true, if_false] at heq
      split at heq
      · rename_i hc; simp_all
      · split at heq
        · split at heq
          · rename_i hdt
            left
            have : e' = .dtMinReached := by injection heq with _ h2; injection h2 with h2; exact h2.symm
            subst this
            exact ⟨he, Or.inr (Or.inr hdt)⟩
          · -- error out of the schedule correction
            cases e' with
            | indexError => right; exact he
            | _ => left; refine ⟨he, ?_⟩
                   unfold C09.correct at heq
                   simp only [] at heq
                   split at heq <;> (injection heq with _ h2; cases h2)
        · rename_i hnot
          left
          have : e' = .recompExhausted := by injection heq with _ h2; injection h2 with h2; exact h2.symm
          subst this
          exact ⟨he, Or.inr (Or.inl hnot)⟩

/-- Entry point `LinearSolver` (`_is_nonlinear_problem() = False`): a linear solve that does not converge
    (NaN in the solution) raises, and leaves iterates, time steps and the accepted sequence untouched; a
    linear solve never makes more than one iteration. -/
theorem linear_failure_raises_untouched (clk : Clock C) (cfg : Cfg) (hlin : cfg.linear = true)
    (r : Run V C) (tape : List (Iter V)) (hrun : r.status = .running) (hne : tape ≠ [])
    (hfail : (solveStep cfg tape r.sol).fin ≠ .converged) :
    let r' := stepRun clk cfg r tape
    r'.status = .raised "ValueError" ∧ r'.sol = r.sol ∧ r'.accepted = r.accepted ∧ (solveStep cfg tape r.sol).k = 0 := by
  intro r'
  have hss : (solveStep cfg tape r.sol).fin = .diverged ∧ (solveStep cfg tape r.sol).sol = r.sol ∧
      (solveStep cfg tape r.sol).k = 0 := by
    unfold solveStep at hfail ⊢
    rw [if_pos hlin] at hfail ⊢
    cases tape with
    | nil => exact absurd rfl hne
    | cons it tape =>
      simp only [linearSolve] at hfail ⊢
      split
      · rename_i hc; simp [hc] at hfail
      · exact ⟨rfl, rfl, rfl⟩
  have hspec := stepRun_spec clk cfg r tape hrun
  simp only [] at hspec
  rcases hspec with ⟨hf, _⟩ | ⟨hf, _⟩ | ⟨hf, _⟩ | ⟨hf, _⟩ | ⟨_, c2, hc2, _⟩ | ⟨_, e, he, hst, _, hsol, hacc, _⟩
  · exact absurd hf hfail
  · exact absurd hf hfail
  · rw [hss.1] at hf; cases hf
  · rw [hss.1] at hf; cases hf
  · have := (retryOf_ok clk cfg _ c2 hc2).1; rw [hlin] at this; cases this
  · have he' : e = "ValueError" := by
      unfold retryOf at he; rw [if_pos hlin] at he; injection he with he; exact he.symm
    subst he'
    exact ⟨hst, by rw [hsol]; exact hss.2.1, hacc, hss.2.2⟩

theorem linear_single_iteration (cfg : Cfg) (hlin : cfg.linear = true) (tape : List (Iter V)) (s : Sol V) :
    (solveStep cfg tape s).k ≤ 1 := by
  unfold solveStep
  rw [if_pos hlin]
  cases tape with
  | nil => simp [linearSolve]
  | cons it tape => simp only [linearSolve]; split <;> simp

/-- One Newton solve makes at most `max_iterations + 1` iterations (the loop condition is
    `num_iteration <= max_iterations` with `num_iteration` counted from 0), never more than the tape has
    entries; a solve that leaves the loop through that condition made exactly `max_iterations + 1`; and
    the loop logs one "iter" and one "check" event per iteration. -/
theorem newton_iterations_le (cfg : Cfg) (tape : List (Iter V)) (s : Sol V) :
    (newton cfg 0 tape s).k ≤ cfg.maxIt + 1 ∧ (newton cfg 0 tape s).k ≤ tape.length ∧
    ((newton cfg 0 tape s).fin = .maxIter → (newton cfg 0 tape s).k = cfg.maxIt + 1) ∧
    (newton cfg 0 tape s).evs.length = 2 * (newton cfg 0 tape s).k := by
  obtain ⟨_, h2, h3, h4⟩ := newton_k_bounds cfg tape 0 s
  refine ⟨by omega, by omega, fun h => h4 h (by omega), ?_⟩
  rw [newton_evs_length]; omega

/-- Modelled `check_convergence`: with the default tolerances (`nl_divergence_tol = inf`,
    `nl_convergence_tol_res = inf`) the two flags are never raised together … -/
theorem checkConv_exclusive (tol : Rat) (v : Val) : ¬((checkConv tol v).1 = true ∧ (checkConv tol v).2 = true) := by
  cases v <;> simp [checkConv]

/-- … but with a finite `nl_divergence_tol` they are, whenever the increment is below `nl_convergence_tol`
    while the residual norm exceeds `nl_divergence_tol` (the residual criterion of convergence is vacuous by
    default): `check_convergence` CAN return (True, True). -/
theorem checkConvRes_both_flags (tol divTol incNorm resNorm : Rat) (h1 : incNorm < tol) (h2 : divTol < resNorm) :
    checkConvRes tol divTol (some (incNorm, resNorm)) = (true, true) := by
  simp [checkConvRes, h1, h2]

omit [Add V] in
/-- With divergence overruling convergence (the repaired solver), an iteration that raises both flags makes
    the solve FAIL like any diverged one — all theorems above then hold for every tape (`NoBoth` is free). -/
theorem noBoth_of_divOverrules (cfg : Cfg) (h : cfg.divOverrules = true) (tape : List (Iter V)) : NoBoth cfg tape :=
  Or.inl h

/-- Time-dependent boundary values: at the start of EVERY Newton
    loop — first attempt or recomputation — `update_time_dependent_ad_arrays` leaves the boundary values of
    the new time in the iterate slot and, in the time-step slots, the values of the accepted times, most
    recent first (the initial time once more at the end), truncated to `nTs`. -/
theorem bc_history_is_accepted_times (clk : Clock C) (cfg : Cfg) (hTs : 0 < cfg.nTs)
    (v0 : V) (c0 : C) (tapes : List (List (Iter V))) (hok : ∀ t ∈ tapes, NoBoth cfg t) :
    let r := runAll clk cfg (startRun clk cfg v0 c0) tapes
    r.status = .running → ∀ t : Rat,
      beforeLoop cfg t r.bc = { it := t, ts := (r.acceptedT ++ [clk.time c0]).take cfg.nTs } := by
  intro r hrun t
  have hinv : BcInv cfg (clk.time c0) r :=
    bcinv_runAll clk cfg (clk.time c0) hTs tapes hok _ (bcinv_start clk cfg v0 c0 hTs)
  obtain ⟨h1, h2, h3⟩ := hinv.ok (Or.inl hrun)
  exact beforeLoop_spec cfg t (clk.time c0) r.bc r.acceptedT hTs h1 h2 h3

/-! ### non-vacuity and witnesses (concrete runs over the tick clock, values in `Int`) -/

section Examples

def exClk : Clock SC := simpleClock ⟨4, 2⟩
def exCfg : Cfg := { maxIt := 1, nIt := 2, nTs := 2 }
def exStart : Run Int SC := startRun exClk exCfg 10 ⟨0, 2, 0⟩

/-- solve 1 converges at iteration 2, solve 2 diverges at iteration 1, solve 3 runs out of iterations
    (dt is then at its minimum: the clock raises) -/
def exTapes : List (List (Iter Int)) :=
  [[⟨1, false, false⟩, ⟨2, true, false⟩], [⟨4, false, true⟩], [⟨8, false, false⟩, ⟨16, false, false⟩]]

-- accepted step: hypotheses of `after_converged_ts0_eq_iterate` hold, values as stated
example : exStart.status = .running ∧ (stepRun exClk exCfg exStart (exTapes.getD 0 [])).last = .accepted ∧
    (stepRun exClk exCfg exStart (exTapes.getD 0 [])).sol.tss = [13, 10] ∧
    (stepRun exClk exCfg exStart (exTapes.getD 0 [])).sol.its = [13, 11] := by decide +kernel

-- rejected step: hypotheses of `after_failed_iterate_eq_ts0` hold; iterate reset, history kept
example : (runAll exClk exCfg exStart (exTapes.take 1)).status = .running ∧
    (runAll exClk exCfg exStart (exTapes.take 2)).last = .retried ∧
    (runAll exClk exCfg exStart (exTapes.take 2)).sol.its = [13, 13] ∧
    (runAll exClk exCfg exStart (exTapes.take 2)).sol.tss = [13, 10] ∧
    (runAll exClk exCfg exStart (exTapes.take 2)).clock = ⟨2, 1, 1⟩ := by decide +kernel

-- the budget is exhausted on the third solve: the run raises
example : (runAll exClk exCfg exStart exTapes).status = .raised "ValueError" := by decide +kernel

-- a run that ends at the final time: the tapes satisfy the hypotheses of `ends_at_final_time_or_raises`
example : let tapes : List (List (Iter Int)) := List.replicate 15 [⟨1, true, false⟩, ⟨0, false, false⟩]
    (∀ t ∈ tapes, NoBoth exCfg t ∧ exCfg.maxIt < t.length) ∧ scMeasure ⟨4, 2⟩ ⟨0, 2, 0⟩ < tapes.length ∧
    (runAll exClk exCfg exStart tapes).status = .finished ∧ (runAll exClk exCfg exStart tapes).clock.t = 4 ∧
    (runAll exClk exCfg exStart tapes).accepted = [12, 11, 10] := by
  refine ⟨?_, by decide +kernel, by decide +kernel, by decide +kernel, by decide +kernel⟩
  intro t ht
  rw [List.eq_of_mem_replicate ht]
  exact ⟨Or.inl rfl, by decide⟩

/-- Witness for finding "both-flags-returns-true-without-hooks": `NewtonSolver.solve` as it stands
    (`divOverrules = false`) leaves its loop through the divergence `break` when both flags are raised, calls
    neither hook and returns True — the time loop goes on with an iterate that was never stored as a time
    step.  With divergence overruling (the model's default) the same tape is a failed, recomputed step. -/
theorem both_flags_break_consistency :
    let asCoded := runAll exClk { exCfg with divOverrules := false } exStart [[⟨1, true, true⟩]]
    let repaired := runAll exClk exCfg exStart [[⟨1, true, true⟩]]
    asCoded.status = .running ∧ asCoded.last = .both ∧ asCoded.sol.its.head? = some 11 ∧
      asCoded.sol.tss.head? = some 10 ∧ asCoded.clock.t = 2 ∧
    repaired.status = .running ∧ repaired.last = .retried ∧ repaired.sol.its.head? = some 10 ∧
      repaired.sol.tss.head? = some 10 ∧ repaired.clock = ⟨0, 1, 1⟩ := by
  decide +kernel

-- the iteration bound is attained: max_iterations = 1 gives two iterations
example : (newton exCfg 0 (exTapes.getD 2 []) exStart.sol).k = 2 ∧
    (newton exCfg 0 (exTapes.getD 2 []) exStart.sol).fin = .maxIter := by decide +kernel

-- the hypotheses of `ends_at_final_time_or_raises_tm` are satisfiable (schedule [0, 1, 2], dt 1/2 in [1/8, 1])
def exTm : C09.Params :=
  { schedule := [0, 1, 2], dtInit := 1/2, constantDt := false, dtMin := 1/8, dtMax := 1, iterMax := 15, iterLow := 1,
    iterUpp := 3, underRelax := 1/2, overRelax := 2, recompFactor := 1/2, recompMax := 2, rtol := 0, atol := 0 }

example : C09.Admissible exTm ∧ 0 < exTm.dtMin := by decide +kernel

-- a run over the real time-manager model: accepted, rejected at t = 1 (recomputed with dt 1/4), then accepted up to t = 2
def exTmTapes : List (List (Iter Int)) := [[⟨1, true, false⟩], [⟨1, false, true⟩]] ++ List.replicate 4 [⟨1, true, false⟩]

example : let r := runAll (tmClock exTm) exCfg (startRun (tmClock exTm) exCfg (10 : Int) (C09.init exTm)) exTmTapes
    r.status = .finished ∧ r.acceptedT = [2, 3/2, 1, 3/4, 1/2, 0] ∧ r.accepted = [15, 14, 13, 12, 11, 10] := by
  decide +kernel

-- linear entry point: a NaN solution at the second step raises and leaves the state of the accepted first step
example : let cfgL : Cfg := { exCfg with linear := true }
    let r1 := runAll exClk cfgL (startRun exClk cfgL (10 : Int) ⟨0, 2, 0⟩) [[⟨3, true, false⟩]]
    let r2 := stepRun exClk cfgL r1 [⟨7, false, true⟩]
    r1.status = .running ∧ r1.sol.tss = [13, 10] ∧ (solveStep cfgL [⟨7, false, true⟩] r1.sol).fin ≠ .converged ∧
    r2.status = .raised "ValueError" ∧ r2.sol.its = [13, 10] ∧ r2.sol.tss = [13, 10] ∧
    (retryOf exClk cfgL r2.clock).isOk = false := by decide +kernel

-- `tm_raise_means_budget_exhausted` is not vacuous: dt = dt_min raises ValueError
example : ((tmClock exTm).retry { time := 1/8, dt := 1/8, timeIndex := 1, recompNum := 0, idx := 1, aboutToHit := false }).isOk
    = false := by decide +kernel

end Examples

end PorepyVerif.C10
