/-
C10 — executable model of the simulation driver (core Lean only):

  python                                                        model
  ------------------------------------------------------------  ---------------------------
  ad_utils.shift_solution_values(max_index=m)                   `shiftMax`
  set_solution_values(index 0, additive=False / True)           `set0` / `addAt0`
  SolutionStrategy.after_nonlinear_iteration                    `afterIteration`
  SolutionStrategy.update_solution (after_nonlinear_convergence)`updateSolution`
  SolutionStrategy.after_nonlinear_failure (iterate reset)      `resetIterate`
  BoundaryConditionMixin.update_boundary_condition              `beforeLoop` (called from before_nonlinear_loop →
      (via update_time_dependent_ad_arrays)                      update_time_dependent_ad_arrays)
  NewtonSolver.solve: the while loop                            `newton`
  run_models.run_time_dependent_model: one pass of the loop     `stepRun`, whole loop `runAll`
  TimeManager                                                   `Clock` (abstract); `tmClock` = C09's verified model
                                                                (`PorepyVerif.C09.Model`, imported); `simpleClock` (tick clock)
  SolutionStrategy.check_convergence (increment criterion)      `checkConv`

Solution values are elements of an arbitrary type `V` with an addition (the theorems need no law
of it); the driver instantiates `V := Val` (rationals plus NaN).  The nonlinear solver's
nondeterminism (increments and the (converged, diverged) flags of every iteration) is an oracle
TAPE: one list of `Iter` per Newton solve.

The boundary-value channel `Bc`: a rejected step undoes the shift that `before_nonlinear_loop` made
(`SolutionStrategy._revert_time_dependent_boundary_values`, /repo d442ddefd).

Flags (converged, diverged) = (True, True): the model follows the PROPERTY (`Cfg.divOverrules = true`:
divergence overrules, the solve fails); `divOverrules = false` is `NewtonSolver.solve` as it stands
(finding "both-flags-returns-true-without-hooks": `break` on `is_diverged`, no hook, returns True).
-/
import PorepyVerif.C09.Model

namespace PorepyVerif.C10

/-! ### storage windows (index 0 first) -/

/-- `shift_solution_values(name, data, location, max_index = m)` on the list of stored values:
    * nothing stored: nothing happens;
    * `m > num_stored`: every value moves one index up (the depth grows by one);
    * else the values at indices `0 … m-2` move to `1 … m-1` (deeper ones stay).
    Index 0 keeps its value in all cases. -/
def shiftMax {V : Type} (m : Nat) : List V → List V
  | [] => []
  | a :: l =>
    if m > (a :: l).length then a :: a :: l
    else if m = 0 then a :: l
    else (a :: (a :: l).take (m - 1)) ++ (a :: l).drop m

/-- `set_solution_values(..., index 0, additive=False)` -/
def set0 {V : Type} (v : V) : List V → List V
  | [] => [v]
  | _ :: l => v :: l

/-- `set_solution_values(..., index 0, additive=True)` (`data[0] += values`; on an empty storage the
    code raises — unreachable from an initialised model, the list is returned unchanged) -/
def addAt0 {V : Type} [Add V] (inc : V) : List V → List V
  | [] => []
  | a :: l => (a + inc) :: l

/-- lengths of `iterate_indices` / `time_step_indices`, `max_iterations` of the solver, and whether a
    diverged flag overrules a converged flag of the same iteration (repaired behaviour) -/
structure Cfg where
  maxIt : Nat
  nIt : Nat
  nTs : Nat
  divOverrules : Bool := true
  /-- the model reports `_is_nonlinear_problem() = False`: `_choose_solver` picks `LinearSolver` -/
  linear : Bool := false

/-- variable values: iterate window and time-step window -/
structure Sol (V : Type) where
  its : List V
  tss : List V

/-- `prepare_simulation` / `initialize_previous_iterate_and_time_step_values`: every index holds the
    initial value -/
def initSol {V : Type} (cfg : Cfg) (v0 : V) : Sol V :=
  { its := List.replicate cfg.nIt v0, tss := List.replicate cfg.nTs v0 }

/-- `after_nonlinear_iteration`: shift the iterates, add the increment to iterate 0 -/
def afterIteration {V : Type} [Add V] (cfg : Cfg) (inc : V) (s : Sol V) : Sol V :=
  { s with its := addAt0 inc (shiftMax cfg.nIt s.its) }

/-- `update_solution(iterate 0)`: shift the time steps, store the iterate at time step 0 -/
def updateSolution {V : Type} (cfg : Cfg) (s : Sol V) : Sol V :=
  match s.its with
  | [] => s
  | v :: _ => { s with tss := set0 v (shiftMax cfg.nTs s.tss) }

/-- end of `after_nonlinear_failure`: iterate 0 := time step 0 -/
def resetIterate {V : Type} (s : Sol V) : Sol V :=
  match s.tss with
  | [] => s
  | v :: _ => { s with its := set0 v s.its }

/-! ### time-dependent boundary values

A boundary value is represented by the time at which the boundary function was evaluated (the
function is an arbitrary function of that time). -/

structure Bc where
  it : Rat          -- ITERATE_SOLUTIONS[name][0]
  ts : List Rat     -- TIME_STEP_SOLUTIONS[name][0..]
  deriving DecidableEq, Repr

/-- `update_boundary_condition` during `prepare_simulation` (nothing stored yet) -/
def initBc (t0 : Rat) : Bc := { it := t0, ts := [t0] }

/-- `update_boundary_condition` at the start of a Newton loop at time `t` -/
def beforeLoop (cfg : Cfg) (t : Rat) (b : Bc) : Bc :=
  { it := t, ts := set0 b.it (shiftMax cfg.nTs b.ts) }

/-- `_revert_time_dependent_boundary_values` in `after_nonlinear_failure`: undo the last `beforeLoop` -/
def bcRewind (b : Bc) : Bc :=
  match b.ts with
  | [] => b
  | v :: l => { it := v, ts := l }

/-! ### Newton loop -/

/-- one entry of the oracle tape: the increment returned by the linear solve and the flags returned by
    `check_convergence` -/
structure Iter (V : Type) where
  inc : V
  conv : Bool
  div : Bool

/-- how `NewtonSolver.solve` left its loop -/
inductive End where
  | converged    -- `after_nonlinear_convergence` called, returns True
  | diverged     -- `break` on `is_diverged`, then `after_nonlinear_failure`
  | maxIter      -- loop condition `num_iteration <= max_iterations` false, then `after_nonlinear_failure`
  | both         -- flags (True, True), code as it stands: `break` on `is_diverged`, NO hook is called, returns True
  | outOfTape    -- the tape ended before the loop did (not a behaviour of the code)
  deriving DecidableEq, Repr

/-- events logged inside the Newton loop: after `after_nonlinear_iteration` and after `check_convergence` -/
inductive NEv (V : Type) where
  | iter (k : Nat) (s : Sol V)
  | check (conv div : Bool)

structure NRes (V : Type) where
  sol : Sol V
  k : Nat
  fin : End
  evs : List (NEv V)

/-- the `while num_iteration <= max_iterations and not is_converged` loop, started with
    `num_iteration = k` -/
def newton {V : Type} [Add V] (cfg : Cfg) : Nat → List (Iter V) → Sol V → NRes V
  | k, [], s => ⟨s, k, if k ≤ cfg.maxIt then .outOfTape else .maxIter, []⟩
  | k, it :: tape, s =>
    if k ≤ cfg.maxIt then
      let s' := afterIteration cfg it.inc s
      let evs := [NEv.iter (k + 1) s', NEv.check it.conv it.div]
      if it.div then ⟨s', k + 1, if it.conv && !cfg.divOverrules then .both else .diverged, evs⟩
      else if it.conv then ⟨s', k + 1, .converged, evs⟩
      else
        let r := newton cfg (k + 1) tape s'
        { r with evs := evs ++ r.evs }
    else ⟨s, k, .maxIter, []⟩

/-- `LinearSolver.solve` (numerics/linear_solvers.py): ONE linear solve; `check_convergence` is called
    before the increment is applied, its diverged flag is ignored; a converged increment is applied
    (`after_nonlinear_iteration`, `num_iteration = 1`) and accepted, otherwise `after_nonlinear_failure`
    is called with the state untouched. -/
def linearSolve {V : Type} [Add V] (cfg : Cfg) : List (Iter V) → Sol V → NRes V
  | [], s => ⟨s, 0, .outOfTape, []⟩
  | it :: _, s =>
    if it.conv then
      let s' := afterIteration cfg it.inc s
      ⟨s', 1, .converged, [NEv.check it.conv it.div, NEv.iter 1 s']⟩
    else ⟨s, 0, .diverged, [NEv.check it.conv it.div]⟩

/-- `solver.solve(model)` with the solver `_choose_solver` picked -/
def solveStep {V : Type} [Add V] (cfg : Cfg) (tape : List (Iter V)) (s : Sol V) : NRes V :=
  if cfg.linear then linearSolve cfg tape s else newton cfg 0 tape s

/-! ### clock -/

/-- What the time loop uses of the time manager.  `accept c k` = `compute_time_step(iterations=k)` in
    `after_nonlinear_convergence` (identity in constant-dt mode), `retry c` =
    `compute_time_step(recompute_solution=True)` in `after_nonlinear_failure`; `.error` = raised. -/
structure Clock (C : Type) where
  final : C → Bool
  advance : C → C
  accept : C → Nat → Except String C
  retry : C → Except String C
  time : C → Rat

/-- the time-manager part of `after_nonlinear_failure`: a linear problem raises
    `ValueError("Failed to solve linear system …")` before the time manager is asked -/
def retryOf {C : Type} (clk : Clock C) (cfg : Cfg) (c : C) : Except String C :=
  if cfg.linear then .error "ValueError" else clk.retry c

/-! ### time loop -/

inductive Status where
  | running
  | finished                -- loop left because `final_time_reached()`
  | raised (e : String)     -- exception out of `after_nonlinear_failure`
  | crashed (e : String)    -- exception out of `after_nonlinear_convergence`
  | outOfTape
  deriving DecidableEq, Repr

/-- how the most recent solve ended -/
inductive Last where
  | none | accepted | retried | both | other
  deriving DecidableEq, Repr

structure Ev (V C : Type) where
  tag : String
  k : Nat
  conv : Bool := false
  div : Bool := false
  sol : Sol V
  bc : Bc
  clock : C

structure Run (V C : Type) where
  sol : Sol V
  bc : Bc
  clock : C
  accepted : List V       -- accepted solutions, most recent first; the last entry is the initial value
  acceptedT : List Rat    -- the times they belong to
  status : Status
  last : Last
  log : List (Ev V C)     -- chronological

def statusOf {C : Type} (clk : Clock C) (c : C) : Status := if clk.final c then .finished else .running

def startRun {V C : Type} (clk : Clock C) (cfg : Cfg) (v0 : V) (c0 : C) : Run V C :=
  { sol := initSol cfg v0, bc := initBc (clk.time c0), clock := c0, accepted := [v0],
    acceptedT := [clk.time c0], status := statusOf clk c0, last := .none, log := [] }

def pushHead {V : Type} (its : List V) (acc : List V) : List V :=
  match its with
  | [] => acc
  | v :: _ => v :: acc

def nevToEv {V C : Type} (b : Bc) (c : C) : NEv V → Sol V → Ev V C
  | .iter k s, _ => { tag := "iter", k := k, sol := s, bc := b, clock := c }
  | .check cv dv, s => { tag := "check", k := 0, conv := cv, div := dv, sol := s, bc := b, clock := c }

/-- One pass of `while not final_time_reached(): time_step()` with the tape of this solve:
    `increase_time(); increase_time_index(); solver.solve(model)`. -/
def stepRun {V C : Type} [Add V] (clk : Clock C) (cfg : Cfg) (r : Run V C) (tape : List (Iter V)) : Run V C :=
  match r.status with
  | .running =>
    let c1 := clk.advance r.clock
    let bc1 := beforeLoop cfg (clk.time c1) r.bc
    let res := solveStep cfg tape r.sol
    let log1 := r.log ++ [{ tag := "loop", k := 0, sol := r.sol, bc := bc1, clock := c1 : Ev V C }]
      ++ res.evs.map (fun e => nevToEv bc1 c1 e res.sol)
    match res.fin with
    | .converged =>
      match clk.accept c1 res.k with
      | .ok c2 =>
        let s2 := updateSolution cfg res.sol
        { sol := s2, bc := bc1, clock := c2, accepted := pushHead res.sol.its r.accepted,
          acceptedT := clk.time c1 :: r.acceptedT, status := statusOf clk c2, last := .accepted,
          log := log1 ++ [{ tag := "conv", k := res.k, sol := s2, bc := bc1, clock := c2 },
                          { tag := "ret", k := res.k, conv := true, sol := s2, bc := bc1, clock := c2 }] }
      | .error e =>
        { r with sol := res.sol, bc := bc1, clock := c1, status := .crashed e, last := .other,
                 log := log1 ++ [{ tag := "crash", k := res.k, sol := res.sol, bc := bc1, clock := c1 }] }
    | .both =>
      { r with sol := res.sol, bc := bc1, clock := c1, status := statusOf clk c1, last := .both,
               log := log1 ++ [{ tag := "ret", k := res.k, conv := true, sol := res.sol, bc := bc1, clock := c1 }] }
    | .outOfTape =>
      { r with sol := res.sol, bc := bc1, clock := c1, status := .outOfTape, last := .other, log := log1 }
    | _ =>  -- diverged or max iterations: after_nonlinear_failure
      match retryOf clk cfg c1 with
      | .ok c2 =>
        let s2 := resetIterate res.sol
        let bc2 := bcRewind bc1
        { r with sol := s2, bc := bc2, clock := c2, status := statusOf clk c2, last := .retried,
                 log := log1 ++ [{ tag := "fail", k := res.k, sol := s2, bc := bc2, clock := c2 },
                                 { tag := "ret", k := res.k, conv := false, sol := s2, bc := bc2, clock := c2 }] }
      | .error e =>
        { r with sol := res.sol, bc := bc1, clock := c1, status := .raised e, last := .other,
                 log := log1 ++ [{ tag := "raise", k := res.k, sol := res.sol, bc := bc1, clock := c1 }] }
  | _ => r

def runAll {V C : Type} [Add V] (clk : Clock C) (cfg : Cfg) (r : Run V C) (tapes : List (List (Iter V))) : Run V C :=
  tapes.foldl (stepRun clk cfg) r

/-! ### vocabulary of the property statements -/

/-- a tape entry never reports converged and diverged at once (the statement's failure patterns:
    a solve converges, or diverges at some iteration, or runs out of iterations) -/
def TapeOk {V : Type} (tape : List (Iter V)) : Prop := ∀ it ∈ tape, ¬(it.conv = true ∧ it.div = true)

/-- no solve on this tape can end with both flags: divergence overrules convergence (repaired solver),
    or the tape never raises both flags -/
def NoBoth {V : Type} (cfg : Cfg) (tape : List (Iter V)) : Prop := cfg.divOverrules = true ∨ TapeOk tape

/-- the time-step window that a sequence of accepted solutions (most recent first) leaves behind:
    the `n` most recent, padded with the initial value -/
def window {V : Type} (n : Nat) (acc : List V) (v0 : V) : List V := (acc ++ List.replicate n v0).take n

/-- Hypotheses on a clock under which the time loop provably ends: a measure that every accepted and
    every rejected-but-retried step decreases (for the time manager: remaining scheduled distance in
    units of dt_min, lexicographically with the remaining recomputation budget). -/
structure Terminating {C : Type} (clk : Clock C) (inv : C → Prop) (μ : C → Nat) : Prop where
  accept : ∀ c k, inv c → clk.final c = false →
    ∃ c', clk.accept (clk.advance c) k = .ok c' ∧ inv c' ∧ μ c' < μ c
  retry : ∀ c c', inv c → clk.final c = false → clk.retry (clk.advance c) = .ok c' → inv c' ∧ μ c' < μ c

/-! ### a simple tick clock (accept / retry with a smaller step / raise when exhausted)

Time is counted in units of the minimal step. -/

structure SC where
  t : Nat
  dt : Nat
  recomp : Nat
  deriving DecidableEq, Repr

structure SCParams where
  final : Nat
  recompMax : Nat

/-- `_adaptation_based_on_iterations` with optimal range (2, 4) and factors 2 and 1/2, then the
    corrections to dt_min = 1 and to the final time -/
def scNextDt (p : SCParams) (t dt k : Nat) : Nat :=
  let d := if k ≤ 2 then 2 * dt else if 4 ≤ k then dt / 2 else dt
  let d := if d < 1 then 1 else d
  if p.final < t + d then p.final - t else d

def simpleClock (p : SCParams) : Clock SC :=
  { final := fun c => decide (p.final ≤ c.t)
    advance := fun c => { c with t := c.t + c.dt }
    accept := fun c k => .ok { t := c.t, dt := scNextDt p c.t c.dt k, recomp := 0 }
    retry := fun c =>
      if c.recomp < p.recompMax then
        if c.dt = 1 then .error "ValueError"
        else .ok { t := c.t - c.dt, dt := c.dt / 2, recomp := c.recomp + 1 }
      else .error "ValueError"
    time := fun c => (c.t : Rat) }

def scInv (p : SCParams) (c : SC) : Prop :=
  c.recomp ≤ p.recompMax ∧ c.t ≤ p.final ∧ (c.t < p.final → 1 ≤ c.dt ∧ c.t + c.dt ≤ p.final)

def scMeasure (p : SCParams) (c : SC) : Nat := (p.final - c.t) * (p.recompMax + 1) + (p.recompMax - c.recomp)

/-! ### values with NaN, `check_convergence` -/

inductive Val where
  | num (q : Rat)
  | nan
  deriving DecidableEq, Repr

instance : Add Val := ⟨fun a b => match a, b with
  | .num x, .num y => .num (x + y)
  | _, _ => .nan⟩

def absR (x : Rat) : Rat := if x < 0 then -x else x

/-- `SolutionStrategy.check_convergence` of a nonlinear problem with the default residual and
    divergence tolerances (`inf`): NaN in the increment → (False, True); else converged iff the
    increment norm is below `nl_convergence_tol`.  The increment is the constant vector `q·1`, whose
    root-mean-square norm is `|q|`. -/
def checkConv (tol : Rat) : Val → Bool × Bool
  | .nan => (false, true)
  | .num q => (decide (absR q < tol), false)

/-- `check_convergence` of a LINEAR problem (`_is_nonlinear_problem() = False`): diverged iff the solution
    contains NaN, converged iff not diverged -/
def checkConvLinear : Val → Bool × Bool
  | .nan => (false, true)
  | .num _ => (true, false)

/-- `SolutionStrategy.check_convergence` of a nonlinear problem with a finite `nl_divergence_tol` and the
    default `nl_convergence_tol_res = inf`, on (increment norm, residual norm) — `none` = NaN in the
    increment: `diverged = residual_norm > div_tol`, `converged = increment_norm < tol` (the residual
    criterion is vacuous).  Nothing makes the two flags exclusive. -/
def checkConvRes (tol divTol : Rat) : Option (Rat × Rat) → Bool × Bool
  | none => (false, true)
  | some (incNorm, resNorm) => (decide (incNorm < tol), decide (resNorm > divTol))

/-! ### the time manager: C09's model as a `Clock` -/

def errName : C09.Err → String
  | .indexError => "IndexError"
  | _ => "ValueError"

/-- `increase_time(); increase_time_index()` / `after_nonlinear_convergence` (`if not is_constant:
    compute_time_step(iterations=k)`) / `after_nonlinear_failure` (constant dt raises, else
    `compute_time_step(recompute_solution=True)`) on C09's `TM`. -/
def tmClock (p : C09.Params) : Clock C09.TM :=
  { final := C09.finalTimeReached p
    advance := fun s => C09.increaseTimeIndex (C09.increaseTime s)
    accept := fun s k =>
      if p.constantDt then .ok s
      else match C09.computeTimeStep p s (some (k : Int)) false with
        | (s2, .ok _) => .ok s2
        | (_, .err e) => .error (errName e)
    retry := fun s =>
      if p.constantDt then .error "ValueError"
      else match C09.computeTimeStep p s none true with
        | (s2, .ok _) => .ok s2
        | (_, .err e) => .error (errName e)
    time := fun s => s.time }

end PorepyVerif.C10
