/- C10 line-protocol driver: `lake env lean --run PorepyVerif/C10/Driver.lean`

one op:
  {"op":"run",
   "tm":{"schedule":[q..],"dt_init":q,"constant_dt":b,"dt_min":q,"dt_max":q,"iter_low":i,"iter_upp":i,
         "under":q,"over":q,"recomp_factor":q,"recomp_max":i,"rtol":q,"atol":q},
   "max_it":n,"n_it":n,"n_ts":n,"init":q,"div_overrules":b,
   "check_tol":null|q,          -- q: flags are computed by the modelled check_convergence from the increments
   "tapes":[[{"inc":q|"nan","c":b,"d":b},...],...]}
  -> {"events":[{"e":tag,"k":n,"c":b,"d":b,"its":[v..],"tss":[v..],"bcit":q,"bcts":[q..],"t":q,"dt":q,"ti":i},...],
      "status":s,"err":null|kind,"last":s,"accepted":[v..],"acceptedT":[q..],"t":q,"dt":q,"ti":i}
-/
import PorepyVerif.Common.Wire
import PorepyVerif.C10.Model
open Lean PV PorepyVerif.C10

def jVal (j : Json) : R Val :=
  match j with
  | .str "nan" => pure .nan
  | _ => Val.num <$> jRat j

def ofVal : Val → Json
  | .num q => ofRat q
  | .nan => Json.str "nan"

def jIter (linear : Bool) (tol : Option Rat) (j : Json) : R (Iter Val) := do
  let inc ← field j "inc" >>= jVal
  if linear then
    let (c, d) := checkConvLinear inc
    pure ⟨inc, c, d⟩
  else
  match tol with
  | some t =>
    let (c, d) := checkConv t inc
    pure ⟨inc, c, d⟩
  | none =>
    let c ← fBool j "c"
    let d ← fBool j "d"
    pure ⟨inc, c, d⟩

def jParams (j : Json) : R PorepyVerif.C09.Params := do
  pure { schedule := ← fRats j "schedule", dtInit := ← fRat j "dt_init", constantDt := ← fBool j "constant_dt",
         dtMin := ← fRat j "dt_min", dtMax := ← fRat j "dt_max", iterMax := 15, iterLow := ← fInt j "iter_low",
         iterUpp := ← fInt j "iter_upp", underRelax := ← fRat j "under", overRelax := ← fRat j "over",
         recompFactor := ← fRat j "recomp_factor", recompMax := ← fInt j "recomp_max",
         rtol := ← fRat j "rtol", atol := ← fRat j "atol" }

def clockFields (s : PorepyVerif.C09.TM) : List (String × Json) :=
  [("t", ofRat s.time), ("dt", ofRat s.dt), ("ti", ofInt s.timeIndex)]

def ofEv (e : Ev Val PorepyVerif.C09.TM) : Json :=
  obj ([("e", Json.str e.tag), ("k", ofNat e.k), ("c", Json.bool e.conv), ("d", Json.bool e.div),
        ("its", ofList ofVal e.sol.its), ("tss", ofList ofVal e.sol.tss),
        ("bcit", ofRat e.bc.it), ("bcts", ofRats e.bc.ts)] ++ clockFields e.clock)

def statusName : Status → String × Json
  | .running => ("tape-end", Json.null)
  | .finished => ("finished", Json.null)
  | .raised e => ("raised", Json.str e)
  | .crashed e => ("crashed", Json.str e)
  | .outOfTape => ("out-of-tape", Json.null)

def lastName : Last → String
  | .none => "none" | .accepted => "accepted" | .retried => "retried" | .both => "both" | .other => "other"

def runOp (j : Json) : R Json := do
  let op ← fStr j "op"
  if op != "run" then throw s!"unknown op {op}" else
  let p ← field j "tm" >>= jParams
  let cfg : Cfg := { maxIt := ← fNat j "max_it", nIt := ← fNat j "n_it", nTs := ← fNat j "n_ts",
                     divOverrules := ← fBool j "div_overrules",
                     linear := ← (jBool (fieldD j "linear" (Json.bool false))) }
  let v0 ← field j "init" >>= jVal
  let tol ← field j "check_tol" >>= jOpt jRat
  let tapes ← field j "tapes" >>= jList (jList (jIter cfg.linear tol))
  -- the decidable hypotheses of `ends_at_final_time_or_raises_tm`, evaluated on this case
  let hyp := obj [("admissible", Json.bool (decide (PorepyVerif.C09.Admissible p))), ("dtmin_pos", Json.bool (decide (0 < p.dtMin))),
    ("nonlinear", Json.bool (!cfg.linear)), ("windows", Json.bool (decide (0 < cfg.nIt ∧ 0 < cfg.nTs))),
    ("tapes_long", Json.bool (tapes.all (fun t => decide (cfg.maxIt < t.length)))),
    ("bound", Json.bool (decide (((p.recompMax : Rat) + 1) *
        ((p.timeFinal - p.timeInit) + p.dtMin * ((p.schedule.length - 1 : Nat) : Rat)) ≤ p.dtMin * (tapes.length : Rat))))]
  let clk := tmClock p
  let r := runAll clk cfg (startRun clk cfg v0 (PorepyVerif.C09.init p)) tapes
  let (st, e) := statusName r.status
  pure (obj ([("events", ofList ofEv r.log), ("status", Json.str st), ("err", e), ("last", Json.str (lastName r.last)),
              ("accepted", ofList ofVal r.accepted), ("acceptedT", ofRats r.acceptedT), ("hyp", hyp)] ++ clockFields r.clock))

def main : IO Unit := runPure runOp
