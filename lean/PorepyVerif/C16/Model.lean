/-
C16 — executable model of the per-face expressions of `porepy.numerics.fv.tpsa.Tpsa.discretize`
(two-point stress approximation) and of the full TPSA system assembled from them (core Lean only).

What is modelled, line for line with tpsa.py (names of the python quantities in brackets):

* a face `f` carries its area [sd.face_areas], its area-weighted normal [sd.face_normals], the list of its
  sides = rows of `sparse_array_to_row_col_data(sd.cell_faces)` with that face index [numbering.fi / ci / sgn]
  (two for an interior face, one for a boundary face) and, per coordinate direction, the kind of boundary
  condition [bnd_disp.is_dir / is_neu / is_rob; all three false = `BC.int`];
* a side carries the cell index, the sign, the shear modulus of the cell and the distance `delta` between
  face centre and cell centre along the normal [dist.dist_fc_cc].  The distance involves a square root
  (division by the face area), so it is INPUT DATA of the model; `Side.m` is [dist.mu_by_dist_fc_cc];
* the coefficient functions `tShear` [t_shear_nd], `muSum` [mu_by_dist_fc_cc_nd_with_rob_bound_faces],
  `b2fRob`, `trmNd`/`trmBnd` [_vector_laplace_matrices], `c2fW` [c2f_maps.c2f, c2f_scalar_2_nd; their
  complements are `1 - c2fW` on the same pattern], `gammaB` [the diagonal factor of bound_mass_displacement,
  minus the one of bound_rotation_displacement], `arith` [arithmetic_average_shear_modulus],
  `dirScalar` [dir_scalar in _create_filters];
* the three generalised face fluxes as functions of the cell unknowns (u, r, p) and the boundary datum g of
  the face:  `stressFlux`  = rows of [stress | stress_rotation | stress_total_pressure] x + bound_stress g,
             `rotFlux3/2`  = rows of [rotation_displacement | rotation_rotation] x + bound_rotation_displacement g,
             `massFlux`    = rows of [solid_mass_displacement | 0 | solid_mass_total_pressure] x + bound_mass_displacement g.
  The nd = 2 and nd = 3 branches of the python code are separate definitions (the rotation is a scalar in 2-D,
  carried in the z-slot of a `Vec`).  The matrix entries of the real code are recovered from these functions
  by evaluating them on unit states (that is what the driver does for the correspondence check);
* the full system  `div (F x + R g) - accum x = 0`  as assembled in the class docstring / the test-suite:
  `cellSum` is one row of `sd.divergence(...)`, `Resid` collects the three balance equations of one cell.

Vectors are triples of rationals; in 2-D the z-slot is unused (direction z is not in `dirs false`).
Signs are stored as rationals (+1 / -1).
-/
namespace PorepyVerif.C16

structure Vec where
  x : Rat
  y : Rat
  z : Rat
deriving DecidableEq

inductive Dir where
  | x | y | z
deriving DecidableEq

def Vec.get (v : Vec) : Dir → Rat
  | .x => v.x
  | .y => v.y
  | .z => v.z

def Vec.zero : Vec := ⟨0, 0, 0⟩

def Vec.unit : Dir → Vec
  | .x => ⟨1, 0, 0⟩
  | .y => ⟨0, 1, 0⟩
  | .z => ⟨0, 0, 1⟩

/-- `cross n v = R^n v`, the matrix `[[0,-n2,n1],[n2,0,-n0],[-n1,n0,0]]` of the paper / of `Rn_hat` (3-D). -/
def cross (a b : Vec) : Vec :=
  ⟨a.y * b.z - a.z * b.y, a.z * b.x - a.x * b.z, a.x * b.y - a.y * b.x⟩

/-- active coordinate directions: `range(nd)` -/
def dirs (dim3 : Bool) : List Dir := if dim3 then [.x, .y, .z] else [.x, .y]

/-- kind of condition of one (face, direction) pair -/
inductive BC where
  | int                 -- interior face: is_dir = is_neu = is_rob = False
  | dir
  | neu
  | rob (alpha : Rat)   -- Robin with (diagonal) weight alpha in this direction
deriving DecidableEq

structure Side where
  cell : Nat
  sgn : Rat      -- entry of sd.cell_faces (+1: normal points out of the cell)
  mu : Rat       -- shear modulus of the cell
  delta : Rat    -- distance face centre - cell centre along the normal (input, see header)

/-- `mu_by_dist_fc_cc` -/
def Side.m (s : Side) : Rat := s.mu / s.delta

structure Face where
  area : Rat
  n : Vec
  sides : List Side
  bcx : BC
  bcy : BC
  bcz : BC

def Face.bc (f : Face) : Dir → BC
  | .x => f.bcx
  | .y => f.bcy
  | .z => f.bcz

/-- sum over the sides of a face (`np.bincount(fi, weights=...)` restricted to one face) -/
def sideSum : List Side → (Side → Rat) → Rat
  | [], _ => 0
  | s :: ss, φ => φ s + sideSum ss φ

def sgnSum (ss : List Side) : Rat := sideSum ss (fun s => s.sgn)
def sumInvM (ss : List Side) : Rat := sideSum ss (fun s => 1 / s.m)
def sumTwoM (ss : List Side) : Rat := sideSum ss (fun s => 2 * s.m)

def BC.isDir : BC → Bool
  | .dir => true
  | _ => false
def BC.isNeu : BC → Bool
  | .neu => true
  | _ => false
def BC.isRob : BC → Bool
  | .rob _ => true
  | _ => false
def BC.robW : BC → Rat
  | .rob a => a
  | _ => 0
/-- contribution to `t_shear_rob` -/
def BC.robInv : BC → Rat
  | .rob a => 1 / a
  | _ => 0

/-- `t_shear_nd[d, f] = 2 * area / (bincount(1 / mu_by_dist) + t_shear_rob)` -/
def tShear (f : Face) (d : Dir) : Rat := 2 * f.area / (sumInvM f.sides + (f.bc d).robInv)

/-- `mu_by_dist_fc_cc_nd_with_rob_bound_faces` (its reciprocal is the diagonal of `inv_mu_by_dist_array`) -/
def muSum (f : Face) (d : Dir) : Rat := sumTwoM f.sides + (f.bc d).robW

/-- diagonal of `c2f_maps.b2f_rob` -/
def b2fRob (f : Face) (d : Dir) : Rat :=
  match f.bc d with
  | .rob a => a / muSum f d
  | _ => 0

/-- `trm_nd` after `trm_nd[neu_faces] = 0` in `_vector_laplace_matrices` -/
def trmNd (f : Face) (d : Dir) : Rat :=
  match f.bc d with
  | .neu => 0
  | _ => tShear f d

/-- `trm_bnd` in `_vector_laplace_matrices` -/
def trmBnd (f : Face) (d : Dir) : Rat :=
  match f.bc d with
  | .int => 0
  | .dir => tShear f d
  | .neu => 1
  | .rob _ => (1 - b2fRob f d) + tShear f d

/-- entry of `c2f` (and of `c2f_scalar_2_nd`) in row (f, d), column of the cell of side `s`;
    explicitly zero on Dirichlet rows -/
def c2fW (f : Face) (d : Dir) (s : Side) : Rat :=
  match f.bc d with
  | .dir => 0
  | _ => 2 * s.m / muSum f d

/-- diagonal entry (f, d) of `inv_area_scaling @ neu_rob_pass_nd @ inv_mu_face + dir_pass_nd + b2f_rob` -/
def gammaB (f : Face) (d : Dir) : Rat :=
  (if (f.bc d).isNeu || (f.bc d).isRob then 1 / f.area * (1 / muSum f d) else 0)
    + (if (f.bc d).isDir then 1 else 0) + b2fRob f d

/-- `neu_notpass_nd` -/
def notNeu (f : Face) (d : Dir) : Rat := if (f.bc d).isNeu then 0 else 1
/-- `neu_rob_pass_nd` -/
def neuRob (f : Face) (d : Dir) : Rat := if (f.bc d).isNeu || (f.bc d).isRob then 1 else 0

def sq (q : Rat) : Rat := q * q
def absR (q : Rat) : Rat := if q < 0 then -q else q

/-- `rob_weight_projected`, summed over the active directions -/
def robProj (dim3 : Bool) (f : Face) : Rat :=
  f.bcx.robW * sq (f.n.x / f.area) + f.bcy.robW * sq (f.n.y / f.area)
    + (if dim3 then f.bcz.robW * sq (f.n.z / f.area) else 0)

/-- `arithmetic_average_shear_modulus` (Robin faces are recognised by direction 0, as in the code) -/
def arith (dim3 : Bool) (f : Face) : Rat :=
  sumTwoM f.sides + (if f.bcx.isRob then robProj dim3 f else 0)

/-- `np.argmax(np.abs(face_normals), axis=0)` (first maximum; all three rows, the z-row is 0 in 2-D) -/
def argmaxDir (n : Vec) : Dir :=
  if absR n.x ≥ absR n.y ∧ absR n.x ≥ absR n.z then .x
  else if absR n.y ≥ absR n.z then .y else .z

/-- diagonal of `filters.dir_notpass` -/
def dirNotpass (f : Face) : Rat := if (f.bc (argmaxDir f.n)).isDir then 0 else 1

/-! ### cell states -/

abbrev VField := Nat → Vec
abbrev SField := Nat → Rat

/-- component-wise "average" of a cell vector field with per-direction weights `w d s` -/
def sideVec (f : Face) (w : Dir → Side → Rat) (v : VField) : Vec :=
  ⟨sideSum f.sides (fun s => w .x s * (v s.cell).x),
   sideSum f.sides (fun s => w .y s * (v s.cell).y),
   sideSum f.sides (fun s => w .z s * (v s.cell).z)⟩

/-- the face displacement the rotation and mass fluxes act on:
    `c2f @ u + (inv_area neu_rob_pass inv_mu_face + dir_pass + b2f_rob) @ g` -/
def faceDisp (f : Face) (u : VField) (g : Vec) : Vec :=
  let a := sideVec f (c2fW f) u
  ⟨a.x + gammaB f .x * g.x, a.y + gammaB f .y * g.y, a.z + gammaB f .z * g.z⟩

/-! ### stress flux: rows (f, d) of `[stress | stress_rotation | stress_total_pressure] x + bound_stress g` -/

def stressU (f : Face) (u : VField) (d : Dir) : Rat :=
  sideSum f.sides (fun s => -(trmNd f d * s.sgn) * (u s.cell).get d)

def stressG (f : Face) (g : Vec) (d : Dir) : Rat :=
  sideSum f.sides (fun s => trmBnd f d * s.sgn) * g.get d

/-- `-neu_notpass_nd @ Rn_hat @ c2f_compl` (3-D) -/
def stressR3 (f : Face) (r : VField) (d : Dir) : Rat :=
  -(notNeu f d) * (cross f.n (sideVec f (fun e s => 1 - c2fW f e s) r)).get d

/-- `normal_vector_data = [n1, -n0]` (2-D), the diagonal of `Rn_hat` -/
def nvd (n : Vec) : Dir → Rat
  | .x => n.y
  | .y => -n.x
  | .z => 0

/-- `-neu_notpass_nd @ Rn_hat @ c2f_compl_scalar_2_nd` (2-D; `Rn_hat = diag(n1, -n0)`, rotation in the z-slot) -/
def stressR2 (f : Face) (r : VField) (d : Dir) : Rat :=
  -(notNeu f d) * nvd f.n d * sideSum f.sides (fun s => (1 - c2fW f d s) * (r s.cell).z)

/-- `neu_notpass_nd @ normal_vector_diag @ c2f_compl_scalar_2_nd` -/
def stressP (f : Face) (p : SField) (d : Dir) : Rat :=
  notNeu f d * f.n.get d * sideSum f.sides (fun s => (1 - c2fW f d s) * p s.cell)

def stressFlux (dim3 : Bool) (f : Face) (u r : VField) (p : SField) (g : Vec) (d : Dir) : Rat :=
  stressU f u d + (if dim3 then stressR3 f r d else stressR2 f r d) + stressP f p d + stressG f g d

/-! ### rotation flux -/

/-- jump `kron(cell_faces, I) @ r` on the face -/
def jumpV (f : Face) (r : VField) : Vec := sideVec f (fun _ s => s.sgn) r

/-- 3-D: `rotation_rotation = -neu_rob_pass_nd @ diag(1/(arith*area)) @ Rn_hat @ Rn_hat @ kron(cell_faces, I)` -/
def rotRot3 (f : Face) (r : VField) (d : Dir) : Rat :=
  -(neuRob f d) * (1 / (arith true f * f.area)) * (cross f.n (cross f.n (jumpV f r))).get d

/-- 3-D rows (f, d) of `[rotation_displacement | rotation_rotation] x + bound_rotation_displacement g`;
    `rotation_displacement = -Rn_bar @ c2f`, `bound_rotation_displacement = -Rn_bar @ (…)` -/
def rotFlux3 (f : Face) (u r : VField) (g : Vec) (d : Dir) : Rat :=
  -(cross f.n (faceDisp f u g)).get d + rotRot3 f r d

/-- 2-D: `-(Rn_bar @ neu_rob_pass_nd @ diag(1/(arith*area)) @ Rn_hat @ kron(cell_faces, [[1],[1]]))`,
    `Rn_bar = [-n1, n0]`, `Rn_hat = diag(n1, -n0)` -/
def rotRot2 (f : Face) (r : VField) : Rat :=
  -((-f.n.y) * neuRob f .x * (1 / (arith false f * f.area)) * f.n.y
      + f.n.x * neuRob f .y * (1 / (arith false f * f.area)) * (-f.n.x))
    * sideSum f.sides (fun s => s.sgn * (r s.cell).z)

/-- 2-D row f of the rotation flux (a scalar): `-Rn_bar @ faceDisp + rotation_rotation r` -/
def rotFlux2 (f : Face) (u r : VField) (g : Vec) : Rat :=
  -((-f.n.y) * (faceDisp f u g).x + f.n.x * (faceDisp f u g).y) + rotRot2 f r

/-! ### solid-mass flux -/

/-- `-dir_notpass @ diag(area / arith) @ cell_faces` -/
def massP (dim3 : Bool) (f : Face) (p : SField) : Rat :=
  -(dirNotpass f) * (f.area / arith dim3 f) * sideSum f.sides (fun s => s.sgn * p s.cell)

/-- row f of `[solid_mass_displacement | 0 | solid_mass_total_pressure] x + bound_mass_displacement g` -/
def massFlux (dim3 : Bool) (f : Face) (u : VField) (p : SField) (g : Vec) : Rat :=
  f.n.x * (faceDisp f u g).x + f.n.y * (faceDisp f u g).y
    + (if dim3 then f.n.z * (faceDisp f u g).z else 0) + massP dim3 f p

/-! ### the full system: `div (F x + R g) - accum x` -/

structure Cell where
  vol : Rat
  mu : Rat
  lam : Rat

/-- a grid with boundary data: every face together with the boundary value vector on it -/
abbrev Faces := List (Face × Vec)

/-- `cell_faces[f, c]` read off the sides of the face -/
def sgnOf (c : Nat) (f : Face) : Rat := sideSum f.sides (fun s => if s.cell = c then s.sgn else 0)

/-- one row of the divergence: `sum_f cell_faces[f, c] * flux f` -/
def cellSum (c : Nat) : Faces → (Face → Vec → Rat) → Rat
  | [], _ => 0
  | (f, g) :: fs, flux => sgnOf c f * flux f g + cellSum c fs flux

/-- `sum_f cell_faces[f, c] * n_f`: vanishes for a closed cell -/
def closure (c : Nat) (fs : Faces) : Vec :=
  ⟨cellSum c fs (fun f _ => f.n.x), cellSum c fs (fun f _ => f.n.y), cellSum c fs (fun f _ => f.n.z)⟩

structure State where
  u : VField
  r : VField
  p : SField

/-- residual of the three balance equations of cell `c` (momentum per direction, rotation, solid mass).
    In 2-D the momentum z-slot is 0 and the scalar rotation equation sits in the z-slot of `rot`. -/
structure Resid where
  mom : Vec
  rot : Vec
  mass : Rat
deriving DecidableEq

def Resid.zero : Resid := ⟨Vec.zero, Vec.zero, 0⟩

def resid (dim3 : Bool) (fs : Faces) (cells : Nat → Cell) (st : State) (c : Nat) : Resid :=
  let sF := fun d => cellSum c fs (fun f g => stressFlux dim3 f st.u st.r st.p g d)
  let acR := (cells c).vol / (cells c).mu
  let acP := (cells c).vol / (cells c).lam
  { mom := ⟨sF .x, sF .y, if dim3 then sF .z else 0⟩
    rot := if dim3 then
        ⟨cellSum c fs (fun f g => rotFlux3 f st.u st.r g .x) - acR * (st.r c).x,
         cellSum c fs (fun f g => rotFlux3 f st.u st.r g .y) - acR * (st.r c).y,
         cellSum c fs (fun f g => rotFlux3 f st.u st.r g .z) - acR * (st.r c).z⟩
      else ⟨0, 0, cellSum c fs (fun f g => rotFlux2 f st.u st.r g) - acR * (st.r c).z⟩
    mass := cellSum c fs (fun f g => massFlux dim3 f st.u st.p g) - acP * st.p c }

/-- the translated, rotation-free, pressure-free state -/
def translation (t : Vec) : State := ⟨fun _ => t, fun _ => Vec.zero, fun _ => 0⟩

/-! ### hypotheses of the theorems, as decidable predicates -/

/-- boundary datum consistent with the translation `t` in direction `d`:
    the translation on Dirichlet face-directions, zero traction on Neumann ones -/
def Consistent (f : Face) (t g : Vec) (d : Dir) : Prop :=
  (f.bc d = .dir → g.get d = t.get d) ∧ (f.bc d = .neu → g.get d = 0)

instance (f : Face) (t g : Vec) (d : Dir) : Decidable (Consistent f t g d) := by
  unfold Consistent; exact inferInstance

/-- well-formedness of one face for the property: no Robin direction; a direction without boundary
    condition (interior face) sees two sides of opposite sign; the weights `2 mu / delta` do not sum to 0
    (true whenever mu, delta > 0). -/
def FaceOK (dim3 : Bool) (f : Face) : Prop :=
  (∀ d ∈ dirs dim3, (f.bc d).isRob = false ∧ (f.bc d = .int → sgnSum f.sides = 0)) ∧ sumTwoM f.sides ≠ 0

instance (dim3 : Bool) (f : Face) : Decidable (FaceOK dim3 f) := by
  unfold FaceOK; exact inferInstance


/-! ### one-cell grids with Dirichlet data (hypotheses of `nonsingular_one_cell_dirichlet`) -/

/-- a boundary face of a one-cell grid (its only side is cell 0) with Dirichlet conditions in every direction -/
def DirFace0 (f : Face) : Prop :=
  (f.sides.length = 1 ∧ ∀ s ∈ f.sides, s.cell = 0) ∧ f.bcx = .dir ∧ f.bcy = .dir ∧ f.bcz = .dir

instance (f : Face) : Decidable (DirFace0 f) := by unfold DirFace0; exact inferInstance

/-- every face is a Dirichlet face of the single cell 0 -/
def OneCellDir (fs : Faces) : Prop := ∀ p ∈ fs, DirFace0 p.1

instance (fs : Faces) : Decidable (OneCellDir fs) := by unfold OneCellDir; exact inferInstance

/-- coefficients of `n.x`, `n.y`, `n.z` in the rotation + pressure part of the stress row `d` -/
def momCx (st : State) : Dir → Rat
  | .x => st.p 0
  | .y => (st.r 0).z
  | .z => -(st.r 0).y
def momCy (st : State) : Dir → Rat
  | .x => -(st.r 0).z
  | .y => st.p 0
  | .z => (st.r 0).x
def momCz (st : State) : Dir → Rat
  | .x => (st.r 0).y
  | .y => -(st.r 0).x
  | .z => st.p 0



/-! ### well-formed faces; parameter validation of `discretize`; `ndof` -/

/-- what `cell_faces` and the parameters provide: positive shear moduli and distances; an interior face has two
    sides of opposite sign and no boundary condition, a boundary face one side and Dirichlet / Neumann per direction -/
def FaceWF (dim3 : Bool) (f : Face) : Prop :=
  (∀ s ∈ f.sides, 0 < s.mu ∧ 0 < s.delta) ∧
  match f.sides with
  | [a, b] => a.sgn + b.sgn = 0 ∧ ∀ d ∈ dirs dim3, f.bc d = .int
  | [_] => ∀ d ∈ dirs dim3, f.bc d = .dir ∨ f.bc d = .neu
  | _ => False

instance (dim3 : Bool) (f : Face) : Decidable (FaceWF dim3 f) := by
  unfold FaceWF
  split <;> exact inferInstance

/-- what the sanity checks at the top of `discretize` read for one face -/
structure BcFace where
  isRob : List Bool      -- `bnd_disp.is_rob[:, f]`
  basisOff : List Rat    -- off-diagonal entries of `bnd_disp.basis[:, :, f]`
  basisDiag : List Rat   -- its diagonal
  robOff : List Rat      -- off-diagonal entries of `bnd_disp.robin_weight[:, :, f]`

/-- `false` models `raise NotImplementedError`.  As coded: off-diagonal entries are only rejected when POSITIVE;
    Robin must hold in all directions of a face or in none (`xor(any, not all)`). -/
def validFace (b : BcFace) : Bool :=
  !(b.basisOff.any (fun q => decide (0 < q))) && b.basisDiag.all (fun q => decide (q = 1))
    && !(b.robOff.any (fun q => decide (0 < q))) && (b.isRob.any id == b.isRob.all id)

def validate (bs : List BcFace) : Bool := bs.all validFace

/-- `Tpsa.ndof`; `none` models `NotImplementedError` -/
def ndof (dim nc : Nat) : Option Nat :=
  if dim = 2 then some (nc * (2 + dim)) else if dim = 3 then some (nc * (1 + 2 * dim)) else none


end PorepyVerif.C16
