/-
C16 — helper lemmas: sums over sides and over faces, the fluxes of a uniformly translated state.
-/
import PorepyVerif.C16.Model
import Mathlib.Algebra.Order.Field.Rat
import Mathlib.Tactic.Ring
import Mathlib.Tactic.FieldSimp
import Mathlib.Tactic.Linarith
import Mathlib.Tactic.NormNum

namespace PorepyVerif.C16

/-! ### `sideSum` -/

theorem sideSum_zero (ss : List Side) : sideSum ss (fun _ => 0) = 0 := by
  induction ss with
  | nil => rfl
  | cons s ss ih => simp only [sideSum, ih]; ring

theorem sideSum_congr {ss : List Side} {φ ψ : Side → Rat} (h : ∀ s ∈ ss, φ s = ψ s) :
    sideSum ss φ = sideSum ss ψ := by
  induction ss with
  | nil => rfl
  | cons s ss ih =>
    simp only [sideSum]
    rw [h s List.mem_cons_self, ih (fun s' hs' => h s' (List.mem_cons_of_mem _ hs'))]

theorem sideSum_eq_zero {ss : List Side} {φ : Side → Rat} (h : ∀ s ∈ ss, φ s = 0) : sideSum ss φ = 0 := by
  rw [sideSum_congr (ψ := fun _ => 0) h, sideSum_zero]

theorem sideSum_mul_right (ss : List Side) (φ : Side → Rat) (k : Rat) :
    sideSum ss (fun s => φ s * k) = sideSum ss φ * k := by
  induction ss with
  | nil => simp [sideSum]
  | cons s ss ih => simp only [sideSum, ih]; ring

theorem sideSum_mul_left (ss : List Side) (φ : Side → Rat) (k : Rat) :
    sideSum ss (fun s => k * φ s) = k * sideSum ss φ := by
  induction ss with
  | nil => simp [sideSum]
  | cons s ss ih => simp only [sideSum, ih]; ring

theorem sideSum_add (ss : List Side) (φ ψ : Side → Rat) :
    sideSum ss (fun s => φ s + ψ s) = sideSum ss φ + sideSum ss ψ := by
  induction ss with
  | nil => simp [sideSum]
  | cons s ss ih => simp only [sideSum, ih]; ring

/-- the averaging weights `2 m_s / Σ 2 m` sum to one -/
theorem sideSum_weights (ss : List Side) (h : sumTwoM ss ≠ 0) :
    sideSum ss (fun s => 2 * s.m / sumTwoM ss) = 1 := by
  have : sideSum ss (fun s => 2 * s.m / sumTwoM ss) = sideSum ss (fun s => 2 * s.m) * (1 / sumTwoM ss) := by
    rw [← sideSum_mul_right]
    exact sideSum_congr (fun s _ => by ring)
  rw [this]
  show sumTwoM ss * (1 / sumTwoM ss) = 1
  field_simp

/-! ### `sideVec` and vectors -/

theorem Vec.ext' {a b : Vec} (hx : a.x = b.x) (hy : a.y = b.y) (hz : a.z = b.z) : a = b := by
  cases a; cases b; simp_all

theorem sideVec_zero (f : Face) (w : Dir → Side → Rat) : sideVec f w (fun _ => Vec.zero) = Vec.zero := by
  unfold sideVec
  apply Vec.ext' <;> simp only [Vec.zero] <;>
    exact sideSum_eq_zero (fun s _ => by ring)

theorem cross_zero (a : Vec) : cross a Vec.zero = Vec.zero := by
  apply Vec.ext' <;> simp only [cross, Vec.zero] <;> ring

theorem zero_get (d : Dir) : Vec.zero.get d = 0 := by cases d <;> rfl

/-! ### the pieces of the fluxes for `u = t` everywhere, `r = 0`, `p = 0` -/

theorem stressU_const (f : Face) (t : Vec) (d : Dir) :
    stressU f (fun _ => t) d = -(trmNd f d * sgnSum f.sides) * t.get d := by
  unfold stressU sgnSum
  rw [sideSum_mul_right f.sides (fun s => -(trmNd f d * s.sgn)) (t.get d)]
  congr 1
  rw [← sideSum_mul_left]
  rw [show -(sideSum f.sides fun s => trmNd f d * s.sgn) = (sideSum f.sides fun s => trmNd f d * s.sgn) * (-1) by ring]
  rw [← sideSum_mul_right]
  exact sideSum_congr (fun s _ => by ring)

theorem stressG_eq (f : Face) (g : Vec) (d : Dir) :
    stressG f g d = trmBnd f d * sgnSum f.sides * g.get d := by
  unfold stressG sgnSum
  rw [sideSum_mul_left]

theorem stressR3_zero (f : Face) (d : Dir) : stressR3 f (fun _ => Vec.zero) d = 0 := by
  unfold stressR3
  rw [sideVec_zero, cross_zero, zero_get]; ring

theorem stressR2_zero (f : Face) (d : Dir) : stressR2 f (fun _ => Vec.zero) d = 0 := by
  unfold stressR2
  have : sideSum f.sides (fun s => (1 - c2fW f d s) * (Vec.zero).z) = 0 := by
    exact sideSum_eq_zero (fun s _ => by simp only [Vec.zero]; ring)
  simp only [this]; ring

theorem stressP_zero (f : Face) (d : Dir) : stressP f (fun _ => 0) d = 0 := by
  unfold stressP
  have : sideSum f.sides (fun s => (1 - c2fW f d s) * (0 : Rat)) = 0 := by
    exact sideSum_eq_zero (fun s _ => by ring)
  rw [this]; ring

theorem rotRot3_zero (f : Face) (d : Dir) : rotRot3 f (fun _ => Vec.zero) d = 0 := by
  unfold rotRot3 jumpV
  rw [sideVec_zero, cross_zero, cross_zero, zero_get]; ring

theorem rotRot2_zero (f : Face) : rotRot2 f (fun _ => Vec.zero) = 0 := by
  unfold rotRot2
  have : sideSum f.sides (fun s => s.sgn * (Vec.zero).z) = 0 := by
    exact sideSum_eq_zero (fun s _ => by simp only [Vec.zero]; ring)
  rw [this]; ring

theorem massP_zero (dim3 : Bool) (f : Face) : massP dim3 f (fun _ => 0) = 0 := by
  unfold massP
  have : sideSum f.sides (fun s => s.sgn * (0 : Rat)) = 0 := by
    exact sideSum_eq_zero (fun s _ => by ring)
  rw [this]; ring

/-- weighted average of a constant with the weights of a non-Dirichlet row -/
theorem avg_const (f : Face) (d : Dir) (c : Rat) (hw : sumTwoM f.sides ≠ 0)
    (hd : f.bc d ≠ .dir) (hr : (f.bc d).isRob = false) :
    sideSum f.sides (fun s => c2fW f d s * c) = c := by
  have hmu : muSum f d = sumTwoM f.sides := by
    unfold muSum
    cases h : f.bc d <;> simp_all [BC.robW, BC.isRob]
  have : ∀ s, c2fW f d s = 2 * s.m / sumTwoM f.sides := by
    intro s
    unfold c2fW
    rw [hmu]
    cases h : f.bc d <;> simp_all
  rw [sideSum_mul_right]
  rw [sideSum_congr (fun s _ => this s), sideSum_weights _ hw]; ring

/-- the face displacement of a translated state with consistent data is the translation (one direction) -/
theorem faceDisp_comp (f : Face) (t g : Vec) (d : Dir) (hw : sumTwoM f.sides ≠ 0)
    (hr : (f.bc d).isRob = false) (hc : Consistent f t g d) :
    sideSum f.sides (fun s => c2fW f d s * t.get d) + gammaB f d * g.get d = t.get d := by
  obtain ⟨hdir, hneu⟩ := hc
  cases h : f.bc d with
  | int =>
    have hg : gammaB f d = 0 := by simp [gammaB, b2fRob, h, BC.isNeu, BC.isRob, BC.isDir]
    rw [avg_const f d _ hw (by simp [h]) hr, hg]; ring
  | dir =>
    have hg : gammaB f d = 1 := by simp [gammaB, b2fRob, h, BC.isNeu, BC.isRob, BC.isDir]
    have hz : sideSum f.sides (fun s => c2fW f d s * t.get d) = 0 := by
      exact sideSum_eq_zero (fun s _ => by simp [c2fW, h])
    rw [hz, hg, hdir h]; ring
  | neu =>
    rw [avg_const f d _ hw (by simp [h]) hr, hneu h]; ring
  | rob a => simp [h, BC.isRob] at hr

/-! ### `cellSum` -/

theorem cellSum_congr (c : Nat) {fs : Faces} {φ ψ : Face → Vec → Rat}
    (h : ∀ p ∈ fs, φ p.1 p.2 = ψ p.1 p.2) : cellSum c fs φ = cellSum c fs ψ := by
  induction fs with
  | nil => rfl
  | cons p fs ih =>
    obtain ⟨f, g⟩ := p
    simp only [cellSum]
    rw [h (f, g) List.mem_cons_self, ih (fun q hq => h q (List.mem_cons_of_mem _ hq))]

theorem cellSum_zero (c : Nat) (fs : Faces) : cellSum c fs (fun _ _ => 0) = 0 := by
  induction fs with
  | nil => rfl
  | cons p fs ih => obtain ⟨f, g⟩ := p; simp only [cellSum, ih]; ring

theorem cellSum_eq_zero (c : Nat) {fs : Faces} {φ : Face → Vec → Rat}
    (h : ∀ p ∈ fs, φ p.1 p.2 = 0) : cellSum c fs φ = 0 := by
  rw [cellSum_congr c (ψ := fun _ _ => 0) h, cellSum_zero]

/-- a flux that is linear in the face normal sums, over a cell, to the same linear form of the closure -/
theorem cellSum_linear (c : Nat) (fs : Faces) (a b k : Rat) :
    cellSum c fs (fun f _ => a * f.n.x + b * f.n.y + k * f.n.z)
      = a * (closure c fs).x + b * (closure c fs).y + k * (closure c fs).z := by
  unfold closure
  induction fs with
  | nil => simp [cellSum]
  | cons p fs ih => obtain ⟨f, g⟩ := p; simp only [cellSum] at ih ⊢; rw [ih]; ring

theorem sideSum_div (ss : List Side) (k c : Rat) :
    sideSum ss (fun s => 2 * s.m / k * c) = sumTwoM ss / k * c := by
  unfold sumTwoM
  have : sideSum ss (fun s => 2 * s.m / k * c) = sideSum ss (fun s => 2 * s.m) * (1 / k * c) := by
    rw [← sideSum_mul_right]
    exact sideSum_congr (fun s _ => by ring)
  rw [this]; ring


/-! ### one-cell grids with Dirichlet data on every face -/


theorem cellSum_add (c : Nat) (fs : Faces) (φ ψ : Face → Vec → Rat) :
    cellSum c fs (fun f g => φ f g + ψ f g) = cellSum c fs φ + cellSum c fs ψ := by
  induction fs with
  | nil => simp [cellSum]
  | cons p fs ih => obtain ⟨f, g⟩ := p; simp only [cellSum, ih]; ring

theorem cellSum_mul_right (c : Nat) (fs : Faces) (φ : Face → Vec → Rat) (k : Rat) :
    cellSum c fs (fun f g => φ f g * k) = cellSum c fs φ * k := by
  induction fs with
  | nil => simp [cellSum]
  | cons p fs ih => obtain ⟨f, g⟩ := p; simp only [cellSum, ih]; ring

theorem DirFace0.side {f : Face} (h : DirFace0 f) : ∃ s, f.sides = [s] ∧ s.cell = 0 := by
  obtain ⟨⟨hl, hc⟩, _⟩ := h
  obtain ⟨s, hs⟩ := List.length_eq_one_iff.mp hl
  exact ⟨s, hs, hc s (by rw [hs]; exact List.mem_singleton_self s)⟩

theorem DirFace0.bc {f : Face} (h : DirFace0 f) (d : Dir) : f.bc d = .dir := by
  cases d
  · exact h.2.1
  · exact h.2.2.1
  · exact h.2.2.2

theorem DirFace0.sgnOf_eq {f : Face} (h : DirFace0 f) : PorepyVerif.C16.sgnOf 0 f = sgnSum f.sides := by
  obtain ⟨s, hs, hc⟩ := h.side
  simp [PorepyVerif.C16.sgnOf, sgnSum, hs, sideSum, hc]

/-- stress row of a Dirichlet face of a one-cell grid, for an arbitrary state -/
theorem stressFlux_dirFace0 (dim3 : Bool) {f : Face} (h : DirFace0 f) (st : State) (g : Vec) (d : Dir)
    (hd : d ∈ dirs dim3) :
    stressFlux dim3 f st.u st.r st.p g d
      = (-(tShear f d * sgnSum f.sides)) * (st.u 0).get d
        + (momCx st d * f.n.x + momCy st d * f.n.y + (if dim3 then momCz st d else 0) * f.n.z)
        + tShear f d * sgnSum f.sides * g.get d := by
  have hb := h.bc
  obtain ⟨s, hs, hc⟩ := h.side
  cases dim3 <;> cases d <;>
    simp [dirs] at hd <;>
    simp [stressFlux, stressU, stressG, stressR3, stressR2, stressP, sideVec, hs, sideSum, sgnSum, c2fW, hb,
      trmNd, trmBnd, notNeu, BC.isNeu, hc, cross, nvd, Vec.get, momCx, momCy, momCz] <;> ring

/-- on a Dirichlet face of a one-cell grid the rotation and mass fluxes do not depend on the state -/
theorem rotmass_dirFace0 (dim3 : Bool) {f : Face} (h : DirFace0 f) (a b : State) (g : Vec) :
    (∀ d, rotFlux3 f a.u a.r g d = rotFlux3 f b.u b.r g d)
    ∧ rotFlux2 f a.u a.r g = rotFlux2 f b.u b.r g
    ∧ massFlux dim3 f a.u a.p g = massFlux dim3 f b.u b.p g := by
  have hb := h.bc
  obtain ⟨s, hs, hc⟩ := h.side
  have hfd : ∀ u : VField, faceDisp f u g = g := by
    intro u
    apply Vec.ext' <;>
      simp [faceDisp, sideVec, hs, sideSum, c2fW, hb, gammaB, b2fRob, BC.isNeu, BC.isRob, BC.isDir]
  have hnr : ∀ d, neuRob f d = 0 := by intro d; simp [neuRob, hb, BC.isNeu, BC.isRob]
  have hdn : dirNotpass f = 0 := by simp [dirNotpass, hb, BC.isDir]
  refine ⟨?_, ?_, ?_⟩
  · intro d
    simp [rotFlux3, rotRot3, hfd, hnr]
  · simp [rotFlux2, rotRot2, hfd, hnr]
  · simp [massFlux, massP, hfd, hdn]

/-- momentum balance of a one-cell all-Dirichlet grid: `K_d u_d + G_d` (the rotation and pressure columns cancel
    over the closed cell) -/
theorem mom_one_cell (dim3 : Bool) (fs : Faces) (h1 : OneCellDir fs) (hcl : closure 0 fs = Vec.zero)
    (st : State) (d : Dir) (hd : d ∈ dirs dim3) :
    cellSum 0 fs (fun f g => stressFlux dim3 f st.u st.r st.p g d)
      = cellSum 0 fs (fun f _ => -(tShear f d * sgnSum f.sides)) * (st.u 0).get d
        + cellSum 0 fs (fun f g => tShear f d * sgnSum f.sides * g.get d) := by
  have hcx : (closure 0 fs).x = 0 := by rw [hcl]; rfl
  have hcy : (closure 0 fs).y = 0 := by rw [hcl]; rfl
  have hcz : (closure 0 fs).z = 0 := by rw [hcl]; rfl
  rw [cellSum_congr 0 (ψ := fun f g => (-(tShear f d * sgnSum f.sides)) * (st.u 0).get d
        + (momCx st d * f.n.x + momCy st d * f.n.y + (if dim3 then momCz st d else 0) * f.n.z)
        + tShear f d * sgnSum f.sides * g.get d)
      (fun p hp => stressFlux_dirFace0 dim3 (h1 p hp) st p.2 d hd)]
  rw [cellSum_add, cellSum_add, cellSum_mul_right, cellSum_linear, hcx, hcy, hcz]
  ring


end PorepyVerif.C16
