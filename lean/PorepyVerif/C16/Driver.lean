/- C16 line-protocol driver: `lake env lean --run PorepyVerif/C16/Driver.lean`

ops
  {"op":"face","dim":2|3,"area":q,"n":[q,q,q],"sides":[{"cell":k,"sgn":q,"mu":q,"delta":q},..],"bc":[b,b,b]}
      b = "int" | "dir" | "neu" | {"rob":q}
      -> {"rows":[[q..]..]}   the matrix entries of the face, obtained by evaluating the model's flux functions
         (the ones the theorems are about) on unit states.
         rows: stress d (d in dirs), rotation (x,y,z in 3-D / one scalar row in 2-D), solid mass
         cols: per side, in order: u_e (e in dirs), r (x,y,z in 3-D / scalar in 2-D), p;  then g_e (e in dirs)
  {"op":"resid","dim":..,"faces":[face + "g":[q,q,q]],"cells":[{"vol":q,"mu":q,"lam":q}..],"u":[[q,q,q]..],"r":[[q,q,q]..],"p":[q..]}
      -> {"res":[[mom (nd), rot (3 | 1), mass] per cell]}     = div (F x + R g) - accum x
  {"op":"matrix","dim":..,"faces":[face..],"cells":[..]}
      -> {"A":[[q..]..],"B":[[q..]..]}   the assembled system matrix A = div F - accum and B = div R (rows), unknowns and
         equations ordered as in the real code: u (cell-major), r (cell-major), p
-/
import PorepyVerif.Common.Wire
import PorepyVerif.C16.Model
open Lean PV PorepyVerif.C16

def jVec (j : Json) : R Vec := do
  let l ← jList jRat j
  match l with
  | [a, b, c] => pure ⟨a, b, c⟩
  | [a, b] => pure ⟨a, b, 0⟩
  | _ => throw "vector of length 2 or 3 expected"

def jBC (j : Json) : R BC :=
  match j with
  | .str "int" => pure .int
  | .str "dir" => pure .dir
  | .str "neu" => pure .neu
  | _ => do
    let a ← fRat j "rob"
    pure (.rob a)

def jSide (j : Json) : R Side := do
  pure ⟨← fNat j "cell", ← fRat j "sgn", ← fRat j "mu", ← fRat j "delta"⟩

def jFace (j : Json) : R Face := do
  let bcs ← field j "bc" >>= jList jBC
  match bcs with
  | [bx, by', bz] =>
    pure ⟨← fRat j "area", ← field j "n" >>= jVec, ← field j "sides" >>= jList jSide, bx, by', bz⟩
  | _ => throw "bc: three entries expected"

def jDim3 (j : Json) : R Bool := do
  let d ← fNat j "dim"
  if d == 3 then pure true else if d == 2 then pure false else throw "dim must be 2 or 3"

def zeroV : VField := fun _ => Vec.zero
def zeroS : SField := fun _ => 0
def unitV (c : Nat) (v : Vec) : VField := fun c' => if c' = c then v else Vec.zero
def unitS (c : Nat) : SField := fun c' => if c' = c then 1 else 0

/-- the flux rows of a face as functions of (u, r, p, g) -/
def fluxRows (dim3 : Bool) (f : Face) (u r : VField) (p : SField) (g : Vec) : List Rat :=
  (dirs dim3).map (fun d => stressFlux dim3 f u r p g d)
    ++ (if dim3 then [Dir.x, Dir.y, Dir.z].map (fun d => rotFlux3 f u r g d) else [rotFlux2 f u r g])
    ++ [massFlux dim3 f u p g]

/-- the unit states, column by column -/
def columns (dim3 : Bool) (f : Face) : List (VField × VField × SField × Vec) :=
  let rdirs : List Dir := if dim3 then [.x, .y, .z] else [.z]
  (f.sides.map (fun s =>
      (dirs dim3).map (fun e => (unitV s.cell (Vec.unit e), zeroV, zeroS, Vec.zero))
        ++ rdirs.map (fun e => (zeroV, unitV s.cell (Vec.unit e), zeroS, Vec.zero))
        ++ [(zeroV, zeroV, unitS s.cell, Vec.zero)])).flatten
    ++ (dirs dim3).map (fun e => (zeroV, zeroV, zeroS, Vec.unit e))

def transpose (nrows : Nat) (cols : List (List Rat)) : List (List Rat) :=
  (List.range nrows).map (fun i => cols.map (fun c => c.getD i 0))

def opFace (j : Json) : R Json := do
  let dim3 ← jDim3 j
  let f ← jFace j
  let cols := (columns dim3 f).map (fun (u, r, p, g) => fluxRows dim3 f u r p g)
  let nrows := (if dim3 then 3 else 2) + (if dim3 then 3 else 1) + 1
  pure (obj [("rows", ofList ofRats (transpose nrows cols))])

def opResid (j : Json) : R Json := do
  let dim3 ← jDim3 j
  let fjs ← field j "faces" >>= jList pure
  let fs : Faces ← fjs.mapM (fun fj => do
    let f ← jFace fj
    let g ← field fj "g" >>= jVec
    pure (f, g))
  let cjs ← field j "cells" >>= jList pure
  let cells : List Cell ← cjs.mapM (fun cj => do pure ⟨← fRat cj "vol", ← fRat cj "mu", ← fRat cj "lam"⟩)
  let us ← field j "u" >>= jList jVec
  let rs ← field j "r" >>= jList jVec
  let ps ← fRats j "p"
  let st : State := ⟨fun c => us.getD c Vec.zero, fun c => rs.getD c Vec.zero, fun c => ps.getD c 0⟩
  let cellF : Nat → Cell := fun c => cells.getD c ⟨0, 1, 1⟩
  let res := (List.range cells.length).map (fun c =>
    let r := resid dim3 fs cellF st c
    (if dim3 then [r.mom.x, r.mom.y, r.mom.z, r.rot.x, r.rot.y, r.rot.z] else [r.mom.x, r.mom.y, r.rot.z])
      ++ [r.mass])
  pure (obj [("res", ofList ofRats res)])

/-- all residuals in the ordering of the real system: momentum (cell-major, nd components), rotation
    (cell-major, 3 / 1 components), solid mass -/
def residVec (dim3 : Bool) (fs : Faces) (cellF : Nat → Cell) (nc : Nat) (st : State) : List Rat :=
  let rs := (List.range nc).map (fun c => resid dim3 fs cellF st c)
  (rs.map (fun r => if dim3 then [r.mom.x, r.mom.y, r.mom.z] else [r.mom.x, r.mom.y])).flatten
    ++ (rs.map (fun r => if dim3 then [r.rot.x, r.rot.y, r.rot.z] else [r.rot.z])).flatten
    ++ rs.map (fun r => r.mass)

/-- the assembled system: `resid = A x + B g` is affine, so the columns of `A = div F - accum` are the residuals of
    the unit states with zero boundary data and the columns of `B = div R` the residuals of the zero state with
    unit boundary data -/
def opMatrix (j : Json) : R Json := do
  let dim3 ← jDim3 j
  let fjs ← field j "faces" >>= jList pure
  let faces : List Face ← fjs.mapM jFace
  let cjs ← field j "cells" >>= jList pure
  let cells : List Cell ← cjs.mapM (fun cj => do pure ⟨← fRat cj "vol", ← fRat cj "mu", ← fRat cj "lam"⟩)
  let nc := cells.length
  let cellF : Nat → Cell := fun c => cells.getD c ⟨0, 1, 1⟩
  let fs0 : Faces := faces.map (fun f => (f, Vec.zero))
  let rdirs : List Dir := if dim3 then [.x, .y, .z] else [.z]
  let cs := List.range nc
  let ustates : List State :=
    (cs.map (fun c => (dirs dim3).map (fun e => (⟨unitV c (Vec.unit e), zeroV, zeroS⟩ : State)))).flatten
      ++ (cs.map (fun c => rdirs.map (fun e => (⟨zeroV, unitV c (Vec.unit e), zeroS⟩ : State)))).flatten
      ++ cs.map (fun c => (⟨zeroV, zeroV, unitS c⟩ : State))
  let acols := ustates.map (fun st => residVec dim3 fs0 cellF nc st)
  let zeroSt : State := ⟨zeroV, zeroV, zeroS⟩
  let gcols := ((List.range faces.length).map (fun k => (dirs dim3).map (fun e =>
      let fsk : Faces := faces.zipIdx.map (fun (f, i) => (f, if i = k then Vec.unit e else Vec.zero))
      residVec dim3 fsk cellF nc zeroSt))).flatten
  let n := acols.length
  pure (obj [("A", ofList ofRats (transpose n acols)), ("B", ofList ofRats (transpose n gcols))])

/-- {"op":"validate","faces":[{"isRob":[b..],"basisOff":[q..],"basisDiag":[q..],"robOff":[q..]}..]} -> "ok" | NotImplementedError -/
def opValidate (j : Json) : R Json := do
  let fjs ← field j "faces" >>= jList pure
  let bs : List BcFace ← fjs.mapM (fun fj => do
    pure ⟨← field fj "isRob" >>= jList jBool, ← fRats fj "basisOff", ← fRats fj "basisDiag", ← fRats fj "robOff"⟩)
  pure (if validate bs then Json.str "ok" else err "NotImplementedError")

/-- {"op":"ndof","dim":d,"nc":n} -> n | NotImplementedError;  {"op":"assemble_matrix_rhs"} -> NotImplementedError -/
def opNdof (j : Json) : R Json := do
  match ndof (← fNat j "dim") (← fNat j "nc") with
  | some n => pure (ofNat n)
  | none => pure (err "NotImplementedError")

def handle (j : Json) : R Json := do
  let op ← fStr j "op"
  match op with
  | "face" => opFace j
  | "resid" => opResid j
  | "matrix" => opMatrix j
  | "validate" => opValidate j
  | "ndof" => opNdof j
  | "assemble_matrix_rhs" => pure (err "NotImplementedError")
  | _ => throw s!"unknown op {op}"

def main : IO Unit := runPure handle
