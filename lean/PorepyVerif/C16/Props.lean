/-
C16 — property theorems: TPSA is invariant under rigid translations.

Property (properties.jsonl): for any grid and constant Lame parameters, a uniform displacement with matching
Dirichlet boundary data produces zero TPSA stress on every face; solving the full TPSA system with that
boundary data returns the translation in every cell with zero rotation and zero solid pressure (Dirichlet or
mixed Dirichlet/Neumann data consistent with the translation).

All statements are about the model of `Tpsa.discretize` in Model.lean, for EVERY face / every list of faces
(any number of sides, any positive or negative weights, any normals, any mix of Dirichlet / Neumann per
direction — "rolling" conditions included), every shear modulus per side (constant Lame parameters are a
special case) and every translation vector.  The hypotheses are explicit and decidable:
`FaceOK` (no Robin direction; an interior face sees opposite signs; the weights `2 mu/delta` do not sum to 0),
`Consistent` (datum = translation on Dirichlet directions, zero traction on Neumann directions), and, for the
cell balances, `closure c fs = 0` (the signed face normals of the cell sum to zero: the cell is closed).
-/
import PorepyVerif.C16.Lemmas
import Mathlib.Tactic.NormNum
import Mathlib.Tactic.Linarith

namespace PorepyVerif.C16

/-! ### one face -/

/-- Zero face stress.  For a uniform displacement `t` in the cell(s) of the face, zero rotation and zero solid
    pressure, and a datum consistent with `t` in direction `d`:
    (1) the displacement-difference contributions `stress @ u + bound_stress @ g` cancel,
    (2) the whole stress row (including the rotation and solid-pressure columns) vanishes,
    (3) the rotation-diffusion flux and the solid-pressure stabilisation flux vanish. -/
theorem tpsa_translation_zero_stress (dim3 : Bool) (f : Face) (t g : Vec) (d : Dir)
    (hrob : (f.bc d).isRob = false) (hint : f.bc d = .int → sgnSum f.sides = 0)
    (hc : Consistent f t g d) :
    stressU f (fun _ => t) d + stressG f g d = 0
    ∧ stressFlux dim3 f (translation t).u (translation t).r (translation t).p g d = 0
    ∧ rotRot3 f (translation t).r d = 0 ∧ rotRot2 f (translation t).r = 0
    ∧ massP dim3 f (translation t).p = 0 := by
  have h1 : stressU f (fun _ => t) d + stressG f g d = 0 := by
    rw [stressU_const, stressG_eq]
    obtain ⟨hdir, hneu⟩ := hc
    cases h : f.bc d with
    | int => simp [trmNd, trmBnd, h, hint h]
    | dir => simp only [trmNd, trmBnd, h]; rw [hdir h]; ring
    | neu => simp only [trmNd, trmBnd, h]; rw [hneu h]; ring
    | rob a => simp [h, BC.isRob] at hrob
  refine ⟨h1, ?_, rotRot3_zero f d, rotRot2_zero f, massP_zero dim3 f⟩
  show stressU f (fun _ => t) d
      + (if dim3 then stressR3 f (fun _ => Vec.zero) d else stressR2 f (fun _ => Vec.zero) d)
      + stressP f (fun _ => 0) d + stressG f g d = 0
  rw [stressR3_zero, stressR2_zero, stressP_zero]
  have : (if dim3 then (0 : Rat) else 0) = 0 := by split <;> rfl
  rw [this]
  calc stressU f (fun _ => t) d + 0 + 0 + stressG f g d
      = stressU f (fun _ => t) d + stressG f g d := by ring
    _ = 0 := h1

/-- The two sides of an interior face balance: the displacement coefficients of the stress row sum to zero
    (this is the statement that a perturbed weight would break). -/
theorem tpsa_stress_coefficients_balance (f : Face) (d : Dir) (hint : sgnSum f.sides = 0) :
    sideSum f.sides (fun s => -(trmNd f d * s.sgn)) = 0 := by
  have : sideSum f.sides (fun s => -(trmNd f d * s.sgn)) = -(trmNd f d) * sgnSum f.sides := by
    unfold sgnSum
    rw [← sideSum_mul_left]
    exact sideSum_congr (fun s _ => by ring)
  rw [this, hint]; ring

/-- The face displacement (average of the cell displacements + boundary contribution) of a translated state
    with consistent data is the translation itself, in every direction that is not Robin. -/
theorem tpsa_translation_face_disp (f : Face) (t g : Vec) (d : Dir) (hw : sumTwoM f.sides ≠ 0)
    (hr : (f.bc d).isRob = false) (hc : Consistent f t g d) :
    (faceDisp f (fun _ => t) g).get d = t.get d := by
  cases d
  · exact faceDisp_comp f t g .x hw hr hc
  · exact faceDisp_comp f t g .y hw hr hc
  · exact faceDisp_comp f t g .z hw hr hc

/-- Rotation and solid-mass fluxes of the translated state: not zero face by face, but the face normal applied
    to the constant `t` (`-n × t`, resp. `n · t`), which is what makes them cancel over a closed cell. -/
theorem tpsa_translation_face_fluxes (dim3 : Bool) (f : Face) (t g : Vec)
    (hf : FaceOK dim3 f) (hc : ∀ e ∈ dirs dim3, Consistent f t g e) :
    (dim3 = true → ∀ d, rotFlux3 f (translation t).u (translation t).r g d = -(cross f.n t).get d)
    ∧ (dim3 = false → rotFlux2 f (translation t).u (translation t).r g = -(f.n.x * t.y - f.n.y * t.x))
    ∧ massFlux dim3 f (translation t).u (translation t).p g
        = f.n.x * t.x + f.n.y * t.y + (if dim3 then f.n.z * t.z else 0) := by
  obtain ⟨hdirs, hw⟩ := hf
  have hx : (faceDisp f (fun _ => t) g).x = t.x :=
    tpsa_translation_face_disp f t g .x hw (hdirs .x (by cases dim3 <;> simp [dirs])).1
      (hc .x (by cases dim3 <;> simp [dirs]))
  have hy : (faceDisp f (fun _ => t) g).y = t.y :=
    tpsa_translation_face_disp f t g .y hw (hdirs .y (by cases dim3 <;> simp [dirs])).1
      (hc .y (by cases dim3 <;> simp [dirs]))
  refine ⟨?_, ?_, ?_⟩
  · intro h3 d
    subst h3
    have hz : (faceDisp f (fun _ => t) g).z = t.z :=
      tpsa_translation_face_disp f t g .z hw (hdirs .z (by simp [dirs])).1 (hc .z (by simp [dirs]))
    have hfd : faceDisp f (fun _ => t) g = t := Vec.ext' hx hy hz
    show -(cross f.n (faceDisp f (fun _ => t) g)).get d + rotRot3 f (fun _ => Vec.zero) d = _
    rw [hfd, rotRot3_zero]; ring
  · intro _
    show -((-f.n.y) * (faceDisp f (fun _ => t) g).x + f.n.x * (faceDisp f (fun _ => t) g).y)
        + rotRot2 f (fun _ => Vec.zero) = _
    rw [hx, hy, rotRot2_zero]; ring
  · show f.n.x * (faceDisp f (fun _ => t) g).x + f.n.y * (faceDisp f (fun _ => t) g).y
        + (if dim3 then f.n.z * (faceDisp f (fun _ => t) g).z else 0) + massP dim3 f (fun _ => 0) = _
    rw [hx, hy, massP_zero]
    cases dim3
    · simp
    · have hz : (faceDisp f (fun _ => t) g).z = t.z :=
        tpsa_translation_face_disp f t g .z hw (hdirs .z (by simp [dirs])).1 (hc .z (by simp [dirs]))
      rw [hz]; simp

/-! ### the full system -/

/-- hypotheses on the grid with its boundary data -/
def GridOK (dim3 : Bool) (fs : Faces) (t : Vec) : Prop :=
  ∀ p ∈ fs, FaceOK dim3 p.1 ∧ ∀ d ∈ dirs dim3, Consistent p.1 t p.2 d

instance (dim3 : Bool) (fs : Faces) (t : Vec) : Decidable (GridOK dim3 fs t) := by
  unfold GridOK; exact inferInstance

theorem mom_zero (dim3 : Bool) (fs : Faces) (t : Vec) (c : Nat) (d : Dir) (hd : d ∈ dirs dim3)
    (hG : GridOK dim3 fs t) :
    cellSum c fs (fun f g => stressFlux dim3 f (translation t).u (translation t).r (translation t).p g d) = 0 := by
  apply cellSum_eq_zero
  intro p hp
  obtain ⟨⟨hdirs, _⟩, hc⟩ := hG p hp
  exact (tpsa_translation_zero_stress dim3 p.1 t p.2 d (hdirs d hd).1 (hdirs d hd).2 (hc d hd)).2.1

/-- `(u, r, p) = (t, 0, 0)` satisfies every discrete equation of the full TPSA system
    `div (F x + R g) - accum x = 0` in every closed cell `c`: momentum balance in every direction, rotation
    balance (3 equations in 3-D, 1 in 2-D) and solid-mass balance — for any grid whose faces satisfy `FaceOK`,
    with the translation as Dirichlet datum and zero traction as Neumann datum (any mix, per direction). -/
theorem tpsa_translation_solves (dim3 : Bool) (fs : Faces) (cells : Nat → Cell) (t : Vec) (c : Nat)
    (hG : GridOK dim3 fs t) (hclosed : closure c fs = Vec.zero) :
    resid dim3 fs cells (translation t) c = Resid.zero := by
  have hcx : (closure c fs).x = 0 := by rw [hclosed]; rfl
  have hcy : (closure c fs).y = 0 := by rw [hclosed]; rfl
  have hcz : (closure c fs).z = 0 := by rw [hclosed]; rfl
  have hmx := mom_zero dim3 fs t c .x (by cases dim3 <;> simp [dirs]) hG
  have hmy := mom_zero dim3 fs t c .y (by cases dim3 <;> simp [dirs]) hG
  -- solid mass: n · t summed over the cell
  have hmass : cellSum c fs (fun f g => massFlux dim3 f (translation t).u (translation t).p g) = 0 := by
    rw [cellSum_congr c (ψ := fun f _ => t.x * f.n.x + t.y * f.n.y + (if dim3 then t.z else 0) * f.n.z)
      (fun p hp => by
        obtain ⟨hf, hc⟩ := hG p hp
        rw [(tpsa_translation_face_fluxes dim3 p.1 t p.2 hf hc).2.2]
        cases dim3 <;> simp <;> ring)]
    rw [cellSum_linear, hcx, hcy, hcz]; ring
  cases dim3 with
  | true =>
    have hmz := mom_zero true fs t c .z (by simp [dirs]) hG
    have hrot : ∀ d, cellSum c fs (fun f g => rotFlux3 f (translation t).u (translation t).r g d) = 0 := by
      intro d
      have hflux : ∀ p ∈ fs, rotFlux3 p.1 (translation t).u (translation t).r p.2 d = -(cross p.1.n t).get d :=
        fun p hp => (tpsa_translation_face_fluxes true p.1 t p.2 (hG p hp).1 (hG p hp).2).1 rfl d
      cases d
      · rw [cellSum_congr c (ψ := fun f _ => 0 * f.n.x + (-t.z) * f.n.y + t.y * f.n.z)
          (fun p hp => by rw [hflux p hp]; simp only [cross, Vec.get]; ring)]
        rw [cellSum_linear, hcx, hcy, hcz]; ring
      · rw [cellSum_congr c (ψ := fun f _ => t.z * f.n.x + 0 * f.n.y + (-t.x) * f.n.z)
          (fun p hp => by rw [hflux p hp]; simp only [cross, Vec.get]; ring)]
        rw [cellSum_linear, hcx, hcy, hcz]; ring
      · rw [cellSum_congr c (ψ := fun f _ => (-t.y) * f.n.x + t.x * f.n.y + 0 * f.n.z)
          (fun p hp => by rw [hflux p hp]; simp only [cross, Vec.get]; ring)]
        rw [cellSum_linear, hcx, hcy, hcz]; ring
    simp only [resid, hmx, hmy, hmz, hrot, hmass, if_true]
    simp [translation, Vec.zero, Resid.zero]
  | false =>
    have hrot : cellSum c fs (fun f g => rotFlux2 f (translation t).u (translation t).r g) = 0 := by
      rw [cellSum_congr c (ψ := fun f _ => (-t.y) * f.n.x + t.x * f.n.y + 0 * f.n.z)
        (fun p hp => by
          rw [(tpsa_translation_face_fluxes false p.1 t p.2 (hG p hp).1 (hG p hp).2).2.1 rfl]; ring)]
      rw [cellSum_linear, hcx, hcy, hcz]; ring
    simp only [resid, hmx, hmy, hrot, hmass]
    simp [translation, Vec.zero, Resid.zero]

/-! ### uniqueness: the solve returns the translation -/

/-- `st` satisfies all balance equations of the cells `0 .. nc-1` -/
def Solves (dim3 : Bool) (fs : Faces) (cells : Nat → Cell) (nc : Nat) (st : State) : Prop :=
  ∀ c, c < nc → resid dim3 fs cells st c = Resid.zero

/-- two states agree on the unknowns of the system (active displacement components, the rotation vector in
    3-D resp. the scalar rotation in 2-D, the solid pressure) -/
def AgreeOn (dim3 : Bool) (nc : Nat) (a b : State) : Prop :=
  ∀ c, c < nc → (∀ d ∈ dirs dim3, (a.u c).get d = (b.u c).get d)
    ∧ (if dim3 then a.r c = b.r c else (a.r c).z = (b.r c).z) ∧ a.p c = b.p c

/-- the system matrix `div F - accum` is nonsingular: the linear system has at most one solution
    (explicit hypothesis; on the real code it is observed: the sparse solve succeeds) -/
def Nonsingular (dim3 : Bool) (fs : Faces) (cells : Nat → Cell) (nc : Nat) : Prop :=
  ∀ a b, Solves dim3 fs cells nc a → Solves dim3 fs cells nc b → AgreeOn dim3 nc a b

/-- If the system is nonsingular, ANY solution of the full TPSA system with translation-consistent data is the
    translation in every cell, with zero rotation and zero solid pressure — i.e. this is what the solve returns. -/
theorem tpsa_translation_unique (dim3 : Bool) (fs : Faces) (cells : Nat → Cell) (nc : Nat) (t : Vec)
    (hG : GridOK dim3 fs t) (hclosed : ∀ c, c < nc → closure c fs = Vec.zero)
    (hns : Nonsingular dim3 fs cells nc) (st : State) (hst : Solves dim3 fs cells nc st) :
    ∀ c, c < nc → (∀ d ∈ dirs dim3, (st.u c).get d = t.get d)
      ∧ (if dim3 then st.r c = Vec.zero else (st.r c).z = 0) ∧ st.p c = 0 := by
  have hT : Solves dim3 fs cells nc (translation t) :=
    fun c hc => tpsa_translation_solves dim3 fs cells t c hG (hclosed c hc)
  intro c hc
  have := hns st (translation t) hst hT c hc
  simpa [translation, Vec.zero] using this

/-! ### non-vacuity: concrete grids -/

section Examples

/-- unit square, one cell, faces W E S N (normals +x +x +y +y, signs -1 +1 -1 +1), mu = 2, delta = 1/2 -/
def sq1 (bW bE bS bN : BC × BC) (gW gE gS gN : Vec) : Faces :=
  [ (⟨1, ⟨1, 0, 0⟩, [⟨0, -1, 2, 1/2⟩], bW.1, bW.2, .int⟩, gW),
    (⟨1, ⟨1, 0, 0⟩, [⟨0, 1, 2, 1/2⟩], bE.1, bE.2, .int⟩, gE),
    (⟨1, ⟨0, 1, 0⟩, [⟨0, -1, 2, 1/2⟩], bS.1, bS.2, .int⟩, gS),
    (⟨1, ⟨0, 1, 0⟩, [⟨0, 1, 2, 1/2⟩], bN.1, bN.2, .int⟩, gN) ]

def tEx : Vec := ⟨3, -5/2, 0⟩

/-- mixed data: west Dirichlet, east Neumann, south rolling (Dirichlet in x, Neumann in y), north Dirichlet -/
def sqMixed : Faces :=
  sq1 (.dir, .dir) (.neu, .neu) (.dir, .neu) (.dir, .dir) tEx Vec.zero ⟨3, 0, 0⟩ tEx

example : GridOK false sqMixed tEx ∧ closure 0 sqMixed = Vec.zero := by decide +kernel

example : resid false sqMixed (fun _ => ⟨1, 2, 3⟩) (translation tEx) 0 = Resid.zero :=
  tpsa_translation_solves false sqMixed _ tEx 0 (by decide +kernel) (by decide +kernel)

/-- the hypotheses are not redundant: a Dirichlet datum that differs from the translation leaves a residual -/
example : resid false (sq1 (.dir, .dir) (.neu, .neu) (.dir, .neu) (.dir, .dir) tEx Vec.zero ⟨3, 0, 0⟩ ⟨4, 0, 0⟩)
    (fun _ => ⟨1, 2, 3⟩) (translation tEx) 0 ≠ Resid.zero := by decide +kernel

/-- two cells in 3-D sharing one interior face (unit cubes side by side in x), different shear moduli on the
    two sides; only the faces needed for the per-face statements -/
def fInt : Face := ⟨1, ⟨1, 0, 0⟩, [⟨0, 1, 2, 1/2⟩, ⟨1, -1, 5, 1/4⟩], .int, .int, .int⟩
def fDir : Face := ⟨1, ⟨1, 0, 0⟩, [⟨1, 1, 5, 1/4⟩], .dir, .neu, .dir⟩

example : FaceOK true fInt ∧ FaceOK true fDir := by decide +kernel

example : stressFlux true fInt (translation ⟨1, -2, 3⟩).u (translation ⟨1, -2, 3⟩).r (translation ⟨1, -2, 3⟩).p
    Vec.zero .y = 0 :=
  (tpsa_translation_zero_stress true fInt ⟨1, -2, 3⟩ Vec.zero .y (by decide +kernel) (by decide +kernel)
    (by decide +kernel)).2.1

/-- the interior coefficients are not trivially zero: the x-row of `fInt` has entries -T, +T with T = 20/3 ≠ 0 -/
example : trmNd fInt .x = 20 / 3 := by decide +kernel

example : (faceDisp fDir (fun _ => ⟨1, -2, 3⟩) ⟨1, 0, 3⟩).get .y = -2 :=
  tpsa_translation_face_disp fDir ⟨1, -2, 3⟩ ⟨1, 0, 3⟩ .y (by decide +kernel) (by decide +kernel)
    (by decide +kernel)

/-! non-vacuity of the nonsingularity hypothesis: the one-cell all-Dirichlet grid, worked out symbolically -/

def sqDir : Faces := sq1 (.dir, .dir) (.dir, .dir) (.dir, .dir) (.dir, .dir) tEx tEx tEx tEx
def cellsEx : Nat → Cell := fun _ => ⟨1, 2, 1⟩

theorem resid_sqDir (st : State) :
    resid false sqDir cellsEx st 0 =
      ⟨⟨96 - 32 * (st.u 0).x, -80 - 32 * (st.u 0).y, 0⟩, ⟨0, 0, -(1/2) * (st.r 0).z⟩, -(st.p 0)⟩ := by
  simp only [resid, sqDir, sq1, cellSum, sgnOf, sideSum, stressFlux, stressU, stressG, stressR2, stressP, nvd,
    rotFlux2, rotRot2, massFlux, massP, faceDisp, sideVec, c2fW, gammaB, trmNd, trmBnd, tShear, muSum, b2fRob,
    sumInvM, sumTwoM, Side.m, Face.bc, BC.robInv, BC.robW, BC.isDir, BC.isNeu, BC.isRob, notNeu, neuRob, arith,
    dirNotpass, argmaxDir, absR, tEx, cellsEx, Vec.get, robProj]
  norm_num
  constructor <;> ring

/-- the nonsingularity hypothesis is satisfiable: the one-cell all-Dirichlet system has a unique solution -/
theorem nonsingular_sqDir : Nonsingular false sqDir cellsEx 1 := by
  intro a b ha hb c hc
  have hc0 : c = 0 := by omega
  subst hc0
  have h1 := ha 0 (by omega)
  have h2 := hb 0 (by omega)
  rw [resid_sqDir] at h1 h2
  simp only [Resid.zero, Vec.zero, Resid.mk.injEq, Vec.mk.injEq] at h1 h2
  obtain ⟨⟨hax, hay, _⟩, ⟨_, _, har⟩, hap⟩ := h1
  obtain ⟨⟨hbx, hby, _⟩, ⟨_, _, hbr⟩, hbp⟩ := h2
  refine ⟨?_, ?_, ?_⟩
  · intro d hd
    simp [dirs] at hd
    rcases hd with rfl | rfl
    · show (a.u 0).x = (b.u 0).x
      linarith
    · show (a.u 0).y = (b.u 0).y
      linarith
  · show (if false = true then a.r 0 = b.r 0 else (a.r 0).z = (b.r 0).z)
    simp only [Bool.false_eq_true, if_false]
    linarith
  · linarith

example (st : State) (hst : Solves false sqDir cellsEx 1 st) :
    (st.u 0).x = 3 ∧ (st.u 0).y = -5/2 ∧ (st.r 0).z = 0 ∧ st.p 0 = 0 := by
  have h := tpsa_translation_unique false sqDir cellsEx 1 tEx (by decide +kernel)
    (fun c hc => by have : c = 0 := by omega
                    subst this; decide +kernel) nonsingular_sqDir st hst 0 (by omega)
  obtain ⟨hu, hr, hp⟩ := h
  refine ⟨hu .x (by simp [dirs]), hu .y (by simp [dirs]), ?_, hp⟩
  simpa using hr
end Examples

end PorepyVerif.C16
