/-
C16 — property theorems: TPSA is invariant under rigid translations.

Property (properties.jsonl): for any grid and constant Lame parameters, a uniform displacement with matching
Dirichlet boundary data produces zero TPSA stress on every face; solving the full TPSA system with that
boundary data returns the translation in every cell with zero rotation and zero solid pressure (Dirichlet or
mixed Dirichlet/Neumann data consistent with the translation).

All statements are about the model of `Tpsa.discretize` in Model.lean, for EVERY face / every list of faces
(any number of sides, any positive or negative weights, any normals, any mix of Dirichlet / Neumann per
direction — "rolling" conditions included), every shear modulus per side (constant Lame parameters are a
special case) and every translation vector.  The hypotheses are explicit and decidable:
`FaceOK` (no Robin direction; an interior face sees opposite signs; the weights `2 mu/delta` do not sum to 0),
`Consistent` (datum = translation on Dirichlet directions, zero traction on Neumann directions), and, for the
cell balances, `closure c fs = 0` (the signed face normals of the cell sum to zero: the cell is closed).
-/
import PorepyVerif.C16.Lemmas
import Mathlib.Tactic.NormNum
import Mathlib.Tactic.Linarith

namespace PorepyVerif.C16

/-! ### one face -/

/-- Zero face stress.  For a uniform displacement `t` in the cell(s) of the face, zero rotation and zero solid
    pressure, and a datum consistent with `t` in direction `d`:
    (1) the displacement-difference contributions `stress @ u + bound_stress @ g` cancel,
    (2) the whole stress row (including the rotation and solid-pressure columns) vanishes,
    (3) the rotation-diffusion flux and the solid-pressure stabilisation flux vanish. -/
theorem tpsa_translation_zero_stress (dim3 : Bool) (f : Face) (t g : Vec) (d : Dir)
    (hrob : (f.bc d).isRob = false) (hint : f.bc d = .int → sgnSum f.sides = 0)
    (hc : Consistent f t g d) :
    stressU f (fun _ => t) d + stressG f g d = 0
    ∧ stressFlux dim3 f (translation t).u (translation t).r (translation t).p g d = 0
    ∧ rotRot3 f (translation t).r d = 0 ∧ rotRot2 f (translation t).r = 0
    ∧ massP dim3 f (translation t).p = 0 := by
  have h1 : stressU f (fun _ => t) d + stressG f g d = 0 := by
    rw [stressU_const, stressG_eq]
    obtain ⟨hdir, hneu⟩ := hc
    cases h : f.bc d with
    | int => simp [trmNd, trmBnd, h, hint h]
    | dir => simp only [trmNd, trmBnd, h]; rw [hdir h]; ring
    | neu => simp only [trmNd, trmBnd, h]; rw [hneu h]; ring
    | rob a => simp [h, BC.isRob] at hrob
  refine ⟨h1, ?_, rotRot3_zero f d, rotRot2_zero f, massP_zero dim3 f⟩
  show stressU f (fun _ => t) d
      + (if dim3 then stressR3 f (fun _ => Vec.zero) d else stressR2 f (fun _ => Vec.zero) d)
      + stressP f (fun _ => 0) d + stressG f g d = 0
  rw [stressR3_zero, stressR2_zero, stressP_zero]
  have : (if dim3 then (0 : Rat) else 0) = 0 := by split <;> rfl
  rw [this]
  calc stressU f (fun _ => t) d + 0 + 0 + stressG f g d
      = stressU f (fun _ => t) d + stressG f g d := by ring
    _ = 0 := h1

/-- The two sides of an interior face balance: the displacement coefficients of the stress row sum to zero
    (this is the statement that a perturbed weight would break). -/
theorem tpsa_stress_coefficients_balance (f : Face) (d : Dir) (hint : sgnSum f.sides = 0) :
    sideSum f.sides (fun s => -(trmNd f d * s.sgn)) = 0 := by
  have : sideSum f.sides (fun s => -(trmNd f d * s.sgn)) = -(trmNd f d) * sgnSum f.sides := by
    unfold sgnSum
    rw [← sideSum_mul_left]
    exact sideSum_congr (fun s _ => by ring)
  rw [this, hint]; ring

/-- The face displacement (average of the cell displacements + boundary contribution) of a translated state
    with consistent data is the translation itself, in every direction that is not Robin. -/
theorem tpsa_translation_face_disp (f : Face) (t g : Vec) (d : Dir) (hw : sumTwoM f.sides ≠ 0)
    (hr : (f.bc d).isRob = false) (hc : Consistent f t g d) :
    (faceDisp f (fun _ => t) g).get d = t.get d := by
  cases d
  · exact faceDisp_comp f t g .x hw hr hc
  · exact faceDisp_comp f t g .y hw hr hc
  · exact faceDisp_comp f t g .z hw hr hc

/-- Rotation and solid-mass fluxes of the translated state: not zero face by face, but the face normal applied
    to the constant `t` (`-n × t`, resp. `n · t`), which is what makes them cancel over a closed cell. -/
theorem tpsa_translation_face_fluxes (dim3 : Bool) (f : Face) (t g : Vec)
    (hf : FaceOK dim3 f) (hc : ∀ e ∈ dirs dim3, Consistent f t g e) :
    (dim3 = true → ∀ d, rotFlux3 f (translation t).u (translation t).r g d = -(cross f.n t).get d)
    ∧ (dim3 = false → rotFlux2 f (translation t).u (translation t).r g = -(f.n.x * t.y - f.n.y * t.x))
    ∧ massFlux dim3 f (translation t).u (translation t).p g
        = f.n.x * t.x + f.n.y * t.y + (if dim3 then f.n.z * t.z else 0) := by
  obtain ⟨hdirs, hw⟩ := hf
  have hx : (faceDisp f (fun _ => t) g).x = t.x :=
    tpsa_translation_face_disp f t g .x hw (hdirs .x (by cases dim3 <;> simp [dirs])).1
      (hc .x (by cases dim3 <;> simp [dirs]))
  have hy : (faceDisp f (fun _ => t) g).y = t.y :=
    tpsa_translation_face_disp f t g .y hw (hdirs .y (by cases dim3 <;> simp [dirs])).1
      (hc .y (by cases dim3 <;> simp [dirs]))
  refine ⟨?_, ?_, ?_⟩
  · intro h3 d
    subst h3
    have hz : (faceDisp f (fun _ => t) g).z = t.z :=
      tpsa_translation_face_disp f t g .z hw (hdirs .z (by simp [dirs])).1 (hc .z (by simp [dirs]))
    have hfd : faceDisp f (fun _ => t) g = t := Vec.ext' hx hy hz
    show -(cross f.n (faceDisp f (fun _ => t) g)).get d + rotRot3 f (fun _ => Vec.zero) d = _
    rw [hfd, rotRot3_zero]; ring
  · intro _
    show -((-f.n.y) * (faceDisp f (fun _ => t) g).x + f.n.x * (faceDisp f (fun _ => t) g).y)
        + rotRot2 f (fun _ => Vec.zero) = _
    rw [hx, hy, rotRot2_zero]; ring
  · show f.n.x * (faceDisp f (fun _ => t) g).x + f.n.y * (faceDisp f (fun _ => t) g).y
        + (if dim3 then f.n.z * (faceDisp f (fun _ => t) g).z else 0) + massP dim3 f (fun _ => 0) = _
    rw [hx, hy, massP_zero]
    cases dim3
    · simp
    · have hz : (faceDisp f (fun _ => t) g).z = t.z :=
        tpsa_translation_face_disp f t g .z hw (hdirs .z (by simp [dirs])).1 (hc .z (by simp [dirs]))
      rw [hz]; simp

/-! ### the full system -/

/-- hypotheses on the grid with its boundary data -/
def GridOK (dim3 : Bool) (fs : Faces) (t : Vec) : Prop :=
  ∀ p ∈ fs, FaceOK dim3 p.1 ∧ ∀ d ∈ dirs dim3, Consistent p.1 t p.2 d

instance (dim3 : Bool) (fs : Faces) (t : Vec) : Decidable (GridOK dim3 fs t) := by
  unfold GridOK; exact inferInstance

theorem mom_zero (dim3 : Bool) (fs : Faces) (t : Vec) (c : Nat) (d : Dir) (hd : d ∈ dirs dim3)
    (hG : GridOK dim3 fs t) :
    cellSum c fs (fun f g => stressFlux dim3 f (translation t).u (translation t).r (translation t).p g d) = 0 := by
  apply cellSum_eq_zero
  intro p hp
  obtain ⟨⟨hdirs, _⟩, hc⟩ := hG p hp
  exact (tpsa_translation_zero_stress dim3 p.1 t p.2 d (hdirs d hd).1 (hdirs d hd).2 (hc d hd)).2.1

/-- `(u, r, p) = (t, 0, 0)` satisfies every discrete equation of the full TPSA system
    `div (F x + R g) - accum x = 0` in every closed cell `c`: momentum balance in every direction, rotation
    balance (3 equations in 3-D, 1 in 2-D) and solid-mass balance — for any grid whose faces satisfy `FaceOK`,
    with the translation as Dirichlet datum and zero traction as Neumann datum (any mix, per direction). -/
theorem tpsa_translation_solves (dim3 : Bool) (fs : Faces) (cells : Nat → Cell) (t : Vec) (c : Nat)
    (hG : GridOK dim3 fs t) (hclosed : closure c fs = Vec.zero) :
    resid dim3 fs cells (translation t) c = Resid.zero := by
  have hcx : (closure c fs).x = 0 := by rw [hclosed]; rfl
  have hcy : (closure c fs).y = 0 := by rw [hclosed]; rfl
  have hcz : (closure c fs).z = 0 := by rw [hclosed]; rfl
  have hmx := mom_zero dim3 fs t c .x (by cases dim3 <;> simp [dirs]) hG
  have hmy := mom_zero dim3 fs t c .y (by cases dim3 <;> simp [dirs]) hG
  -- solid mass: n · t summed over the cell
  have hmass : cellSum c fs (fun f g => massFlux dim3 f (translation t).u (translation t).p g) = 0 := by
    rw [cellSum_congr c (ψ := fun f _ => t.x * f.n.x + t.y * f.n.y + (if dim3 then t.z else 0) * f.n.z)
      (fun p hp => by
        obtain ⟨hf, hc⟩ := hG p hp
        rw [(tpsa_translation_face_fluxes dim3 p.1 t p.2 hf hc).2.2]
        cases dim3 <;> simp <;> ring)]
    rw [cellSum_linear, hcx, hcy, hcz]; ring
  cases dim3 with
  | true =>
    have hmz := mom_zero true fs t c .z (by simp [dirs]) hG
    have hrot : ∀ d, cellSum c fs (fun f g => rotFlux3 f (translation t).u (translation t).r g d) = 0 := by
      intro d
      have hflux : ∀ p ∈ fs, rotFlux3 p.1 (translation t).u (translation t).r p.2 d = -(cross p.1.n t).get d :=
        fun p hp => (tpsa_translation_face_fluxes true p.1 t p.2 (hG p hp).1 (hG p hp).2).1 rfl d
      cases d
      · rw [cellSum_congr c (ψ := fun f _ => 0 * f.n.x + (-t.z) * f.n.y + t.y * f.n.z)
          (fun p hp => by rw [hflux p hp]; simp only [cross, Vec.get]; ring)]
        rw [cellSum_linear, hcx, hcy, hcz]; ring
      · rw [cellSum_congr c (ψ := fun f _ => t.z * f.n.x + 0 * f.n.y + (-t.x) * f.n.z)
          (fun p hp => by rw [hflux p hp]; simp only [cross, Vec.get]; ring)]
        rw [cellSum_linear, hcx, hcy, hcz]; ring
      · rw [cellSum_congr c (ψ := fun f _ => (-t.y) * f.n.x + t.x * f.n.y + 0 * f.n.z)
          (fun p hp => by rw [hflux p hp]; simp only [cross, Vec.get]; ring)]
        rw [cellSum_linear, hcx, hcy, hcz]; ring
    simp only [resid, hmx, hmy, hmz, hrot, hmass, if_true]
    simp [translation, Vec.zero, Resid.zero]
  | false =>
    have hrot : cellSum c fs (fun f g => rotFlux2 f (translation t).u (translation t).r g) = 0 := by
      rw [cellSum_congr c (ψ := fun f _ => (-t.y) * f.n.x + t.x * f.n.y + 0 * f.n.z)
        (fun p hp => by
          rw [(tpsa_translation_face_fluxes false p.1 t p.2 (hG p hp).1 (hG p hp).2).2.1 rfl]; ring)]
      rw [cellSum_linear, hcx, hcy, hcz]; ring
    simp only [resid, hmx, hmy, hrot, hmass]
    simp [translation, Vec.zero, Resid.zero]

/-! ### uniqueness: the solve returns the translation -/

/-- `st` satisfies all balance equations of the cells `0 .. nc-1` -/
def Solves (dim3 : Bool) (fs : Faces) (cells : Nat → Cell) (nc : Nat) (st : State) : Prop :=
  ∀ c, c < nc → resid dim3 fs cells st c = Resid.zero

/-- two states agree on the unknowns of the system (active displacement components, the rotation vector in
    3-D resp. the scalar rotation in 2-D, the solid pressure) -/
def AgreeOn (dim3 : Bool) (nc : Nat) (a b : State) : Prop :=
  ∀ c, c < nc → (∀ d ∈ dirs dim3, (a.u c).get d = (b.u c).get d)
    ∧ (if dim3 then a.r c = b.r c else (a.r c).z = (b.r c).z) ∧ a.p c = b.p c

/-- the system matrix `div F - accum` is nonsingular: the linear system has at most one solution
    (explicit hypothesis; on the real code it is observed: the sparse solve succeeds) -/
def Nonsingular (dim3 : Bool) (fs : Faces) (cells : Nat → Cell) (nc : Nat) : Prop :=
  ∀ a b, Solves dim3 fs cells nc a → Solves dim3 fs cells nc b → AgreeOn dim3 nc a b

/-- If the system is nonsingular, ANY solution of the full TPSA system with translation-consistent data is the
    translation in every cell, with zero rotation and zero solid pressure — i.e. this is what the solve returns. -/
theorem tpsa_translation_unique (dim3 : Bool) (fs : Faces) (cells : Nat → Cell) (nc : Nat) (t : Vec)
    (hG : GridOK dim3 fs t) (hclosed : ∀ c, c < nc → closure c fs = Vec.zero)
    (hns : Nonsingular dim3 fs cells nc) (st : State) (hst : Solves dim3 fs cells nc st) :
    ∀ c, c < nc → (∀ d ∈ dirs dim3, (st.u c).get d = t.get d)
      ∧ (if dim3 then st.r c = Vec.zero else (st.r c).z = 0) ∧ st.p c = 0 := by
  have hT : Solves dim3 fs cells nc (translation t) :=
    fun c hc => tpsa_translation_solves dim3 fs cells t c hG (hclosed c hc)
  intro c hc
  have := hns st (translation t) hst hT c hc
  simpa [translation, Vec.zero] using this

/-- translation vector used in the concrete instances below -/
def tEx : Vec := ⟨3, -5/2, 0⟩

/-! ### nonsingularity proved for classes of grids -/

/-- NONSINGULARITY FOR A CLASS: every one-cell grid (any number of faces, any normals, areas, distances, shear
    moduli; 2-D and 3-D) with Dirichlet conditions on all faces has at most one solution, provided the cell is
    closed, the sum of the face transmissibilities does not vanish (true for positive weights) and
    `vol/mu`, `vol/lambda` are non-zero. -/
theorem nonsingular_one_cell_dirichlet (dim3 : Bool) (fs : Faces) (cells : Nat → Cell)
    (h1 : OneCellDir fs) (hcl : closure 0 fs = Vec.zero)
    (hK : ∀ d ∈ dirs dim3, cellSum 0 fs (fun f _ => -(tShear f d * sgnSum f.sides)) ≠ 0)
    (hmu : (cells 0).vol / (cells 0).mu ≠ 0) (hlam : (cells 0).vol / (cells 0).lam ≠ 0) :
    Nonsingular dim3 fs cells 1 := by
  intro a b ha hb c hc
  have hc0 : c = 0 := by omega
  subst hc0
  have hab : resid dim3 fs cells a 0 = resid dim3 fs cells b 0 := by rw [ha 0 hc, hb 0 hc]
  have hu : ∀ d ∈ dirs dim3, cellSum 0 fs (fun f g => stressFlux dim3 f a.u a.r a.p g d)
      = cellSum 0 fs (fun f g => stressFlux dim3 f b.u b.r b.p g d) → (a.u 0).get d = (b.u 0).get d := by
    intro d hd h
    rw [mom_one_cell dim3 fs h1 hcl a d hd, mom_one_cell dim3 fs h1 hcl b d hd] at h
    have := add_right_cancel h
    exact mul_left_cancel₀ (hK d hd) this
  have hr3 : ∀ d, cellSum 0 fs (fun f g => rotFlux3 f a.u a.r g d) = cellSum 0 fs (fun f g => rotFlux3 f b.u b.r g d) :=
    fun d => cellSum_congr 0 (fun p hp => (rotmass_dirFace0 dim3 (h1 p hp) a b p.2).1 d)
  have hr2 : cellSum 0 fs (fun f g => rotFlux2 f a.u a.r g) = cellSum 0 fs (fun f g => rotFlux2 f b.u b.r g) :=
    cellSum_congr 0 (fun p hp => (rotmass_dirFace0 dim3 (h1 p hp) a b p.2).2.1)
  have hm : cellSum 0 fs (fun f g => massFlux dim3 f a.u a.p g) = cellSum 0 fs (fun f g => massFlux dim3 f b.u b.p g) :=
    cellSum_congr 0 (fun p hp => (rotmass_dirFace0 dim3 (h1 p hp) a b p.2).2.2)
  have cancel : ∀ (k x y s : Rat), k ≠ 0 → s - k * x = s - k * y → x = y := by
    intro k x y s hk h
    have : k * x = k * y := by linarith
    exact mul_left_cancel₀ hk this
  cases dim3 with
  | true =>
    simp only [resid, Resid.mk.injEq, Vec.mk.injEq, if_true] at hab
    obtain ⟨⟨hx, hy, hz⟩, ⟨rx, ry, rz⟩, hp⟩ := hab
    refine ⟨?_, ?_, ?_⟩
    · intro d hd
      cases d
      · exact hu .x hd hx
      · exact hu .y hd hy
      · exact hu .z hd hz
    · show a.r 0 = b.r 0
      rw [hr3 .x] at rx; rw [hr3 .y] at ry; rw [hr3 .z] at rz
      exact Vec.ext' (cancel _ _ _ _ hmu rx) (cancel _ _ _ _ hmu ry) (cancel _ _ _ _ hmu rz)
    · rw [hm] at hp
      exact cancel _ _ _ _ hlam hp
  | false =>
    simp only [resid, Resid.mk.injEq, Vec.mk.injEq, Bool.false_eq_true, if_false] at hab
    obtain ⟨⟨hx, hy, _⟩, ⟨_, _, rz⟩, hp⟩ := hab
    refine ⟨?_, ?_, ?_⟩
    · intro d hd
      cases d
      · exact hu .x hd hx
      · exact hu .y hd hy
      · simp [dirs] at hd
    · show (a.r 0).z = (b.r 0).z
      rw [hr2] at rz
      exact cancel _ _ _ _ hmu rz
    · rw [hm] at hp
      exact cancel _ _ _ _ hlam hp

/-- … hence on every such grid the solve returns the translation -/
theorem tpsa_translation_unique_one_cell (dim3 : Bool) (fs : Faces) (cells : Nat → Cell) (t : Vec)
    (hG : GridOK dim3 fs t) (h1 : OneCellDir fs) (hcl : closure 0 fs = Vec.zero)
    (hK : ∀ d ∈ dirs dim3, cellSum 0 fs (fun f _ => -(tShear f d * sgnSum f.sides)) ≠ 0)
    (hmu : (cells 0).vol / (cells 0).mu ≠ 0) (hlam : (cells 0).vol / (cells 0).lam ≠ 0)
    (st : State) (hst : Solves dim3 fs cells 1 st) :
    (∀ d ∈ dirs dim3, (st.u 0).get d = t.get d)
      ∧ (if dim3 then st.r 0 = Vec.zero else (st.r 0).z = 0) ∧ st.p 0 = 0 :=
  tpsa_translation_unique dim3 fs cells 1 t hG
    (fun c hc => by
      have h0 : c = 0 := Nat.lt_one_iff.mp hc
      subst h0
      exact hcl)
    (nonsingular_one_cell_dirichlet dim3 fs cells h1 hcl hK hmu hlam) st hst 0 (by omega)

/-- a triangle cell (vertices (0,0), (2,0), (0,1)); faces: bottom, hypotenuse, left; distances = inradius-type data -/
def triCell : Faces :=
  [ (⟨2, ⟨0, 2, 0⟩, [⟨0, -1, 3, 1/3⟩], .dir, .dir, .dir⟩, ⟨1, -1, 0⟩),
    (⟨9/4, ⟨1, 2, 0⟩, [⟨0, 1, 3, 2/5⟩], .dir, .dir, .dir⟩, ⟨1, -1, 0⟩),
    (⟨1, ⟨1, 0, 0⟩, [⟨0, -1, 3, 2/3⟩], .dir, .dir, .dir⟩, ⟨1, -1, 0⟩) ]

example (st : State) (hst : Solves false triCell (fun _ => ⟨1, 3, 7⟩) 1 st) :
    (st.u 0).x = 1 ∧ (st.u 0).y = -1 ∧ (st.r 0).z = 0 ∧ st.p 0 = 0 := by
  have h := tpsa_translation_unique_one_cell false triCell (fun _ => ⟨1, 3, 7⟩) ⟨1, -1, 0⟩
    (by decide +kernel) (by decide +kernel) (by decide +kernel) (by decide +kernel) (by decide +kernel)
    (by decide +kernel) st hst
  obtain ⟨hu, hr, hp⟩ := h
  refine ⟨hu .x (by simp [dirs]), hu .y (by simp [dirs]), ?_, hp⟩
  simpa using hr


/-! ### characterisation of the singular mixed case -/


/-- two different solutions refute nonsingularity -/
theorem not_nonsingular_of_two_solutions (dim3 : Bool) (fs : Faces) (cells : Nat → Cell) (nc : Nat) (a b : State)
    (ha : Solves dim3 fs cells nc a) (hb : Solves dim3 fs cells nc b) (c : Nat) (hc : c < nc) (d : Dir)
    (hd : d ∈ dirs dim3) (hne : (a.u c).get d ≠ (b.u c).get d) : ¬ Nonsingular dim3 fs cells nc :=
  fun h => hne ((h a b ha hb c hc).1 d hd)

/-- THE SINGULAR MIXED CASE: a strip one cell wide.  `column n t` is a column of `n` unit squares (mu = 1) stacked
    in y: the bottom face carries the Dirichlet datum `t`, the 2n lateral faces and the top face are traction free
    (Neumann, datum 0). -/
def column (n : Nat) (t : Vec) : Faces :=
  [(⟨1, ⟨0, 1, 0⟩, [⟨0, -1, 1, 1/2⟩], .dir, .dir, .int⟩, t)]
    ++ (List.range n).flatMap (fun k =>
        [(⟨1, ⟨1, 0, 0⟩, [⟨k, -1, 1, 1/2⟩], .neu, .neu, .int⟩, Vec.zero),
         (⟨1, ⟨1, 0, 0⟩, [⟨k, 1, 1, 1/2⟩], .neu, .neu, .int⟩, Vec.zero)])
    ++ (List.range (n - 1)).map (fun k =>
        (⟨1, ⟨0, 1, 0⟩, [⟨k, 1, 1, 1/2⟩, ⟨k + 1, -1, 1, 1/2⟩], .int, .int, .int⟩, Vec.zero))
    ++ [(⟨1, ⟨0, 1, 0⟩, [⟨n - 1, 1, 1, 1/2⟩], .neu, .neu, .int⟩, Vec.zero)]

/-- the discrete null mode added to the translation: horizontal displacement growing linearly with the height of
    the cell centre (`gamma * y_k`, `y_k = (2k+1)/2`), constant rotation `2 gamma`, zero solid pressure -/
def shearMode (t : Vec) (gamma : Rat) : State :=
  ⟨fun k => ⟨t.x + gamma * ((2 * (k : Rat) + 1) / 2), t.y, 0⟩, fun _ => ⟨0, 0, 2 * gamma⟩, fun _ => 0⟩

def unitCells : Nat → Cell := fun _ => ⟨1, 1, 1⟩

/-- both the translation and the translation plus the shear/rotation mode satisfy every balance equation -/
theorem strip_null_mode :
    (Solves false (column 1 tEx) unitCells 1 (translation tEx) ∧ Solves false (column 1 tEx) unitCells 1 (shearMode tEx 2))
    ∧ (Solves false (column 2 tEx) unitCells 2 (translation tEx) ∧ Solves false (column 2 tEx) unitCells 2 (shearMode tEx 2))
    ∧ (Solves false (column 3 tEx) unitCells 3 (translation tEx) ∧ Solves false (column 3 tEx) unitCells 3 (shearMode tEx (-1/3))) := by
  unfold Solves
  decide +kernel

theorem strip_singular_3 : ¬ Nonsingular false (column 3 tEx) unitCells 3 :=
  not_nonsingular_of_two_solutions false _ _ 3 (translation tEx) (shearMode tEx (-1/3))
    strip_null_mode.2.2.1 strip_null_mode.2.2.2 0 (by omega) .x (by simp [dirs]) (by decide +kernel)

theorem strip_singular_1 : ¬ Nonsingular false (column 1 tEx) unitCells 1 :=
  not_nonsingular_of_two_solutions false _ _ 1 (translation tEx) (shearMode tEx 2)
    strip_null_mode.1.1 strip_null_mode.1.2 0 (by omega) .x (by simp [dirs]) (by decide +kernel)

/-- the data of the strip satisfy all hypotheses of `tpsa_translation_solves` (only `Nonsingular` fails) -/
example : GridOK false (column 3 tEx) tEx ∧ ∀ c, c < 3 → closure c (column 3 tEx) = Vec.zero := by decide +kernel




/-! ### Robin faces -/

/-- Stress row of a Robin face-direction for the translated state (u = t, r = 0, p = 0), any datum `g`:
    `sgn * ((1 - b + T) g - T t)` with `T = tShear` (harmonic combination of `mu/delta` and the Robin weight)
    and `b = alpha / (2 mu/delta + alpha)`. -/
theorem tpsa_robin_stress (dim3 : Bool) (f : Face) (t g : Vec) (d : Dir) (alpha : Rat) (hb : f.bc d = .rob alpha) :
    stressFlux dim3 f (translation t).u (translation t).r (translation t).p g d
      = sgnSum f.sides * ((1 - b2fRob f d + tShear f d) * g.get d - tShear f d * t.get d) := by
  show stressU f (fun _ => t) d
      + (if dim3 then stressR3 f (fun _ => Vec.zero) d else stressR2 f (fun _ => Vec.zero) d)
      + stressP f (fun _ => 0) d + stressG f g d = _
  rw [stressR3_zero, stressR2_zero, stressP_zero, stressU_const, stressG_eq]
  have : (if dim3 then (0 : Rat) else 0) = 0 := by split <;> rfl
  rw [this]
  simp only [trmNd, trmBnd, hb]
  ring

/-- … hence the stress vanishes for exactly one datum, `g = T t / (1 - b + T)` — which is NOT the translation
    (Dirichlet-like) and not zero (Neumann-like) -/
theorem tpsa_robin_zero_stress_iff (dim3 : Bool) (f : Face) (t g : Vec) (d : Dir) (alpha : Rat)
    (hb : f.bc d = .rob alpha) (hs : sgnSum f.sides ≠ 0) (hk : 1 - b2fRob f d + tShear f d ≠ 0) :
    stressFlux dim3 f (translation t).u (translation t).r (translation t).p g d = 0
      ↔ g.get d = tShear f d * t.get d / (1 - b2fRob f d + tShear f d) := by
  rw [tpsa_robin_stress dim3 f t g d alpha hb]
  constructor
  · intro h
    have h2 : (1 - b2fRob f d + tShear f d) * g.get d - tShear f d * t.get d = 0 := by
      rcases mul_eq_zero.mp h with h | h
      · exact absurd h hs
      · exact h
    field_simp
    linarith
  · intro h
    rw [h]
    field_simp
    ring

/-- Face displacement on a Robin face-direction for the translated state: the weighted mean
    `(Σ 2mu/delta * t + (alpha + 1/area) g) / (Σ 2mu/delta + alpha)`. -/
theorem tpsa_robin_face_disp (f : Face) (t g : Vec) (d : Dir) (alpha : Rat) (hb : f.bc d = .rob alpha) :
    (faceDisp f (fun _ => t) g).get d
      = (sumTwoM f.sides * t.get d + (alpha + 1 / f.area) * g.get d) / (sumTwoM f.sides + alpha) := by
  have hmu : muSum f d = sumTwoM f.sides + alpha := by simp [muSum, hb, BC.robW]
  have hw : ∀ s, c2fW f d s = 2 * s.m / (sumTwoM f.sides + alpha) := by
    intro s; simp [c2fW, hb, hmu]
  have hg : gammaB f d = 1 / f.area * (1 / (sumTwoM f.sides + alpha)) + alpha / (sumTwoM f.sides + alpha) := by
    simp [gammaB, b2fRob, hb, hmu, BC.isNeu, BC.isRob, BC.isDir]
  have key : sideSum f.sides (fun s => c2fW f d s * t.get d) + gammaB f d * g.get d
      = (sumTwoM f.sides * t.get d + (alpha + 1 / f.area) * g.get d) / (sumTwoM f.sides + alpha) := by
    rw [sideSum_congr (fun s _ => by rw [hw s]), sideSum_div, hg]
    ring
  cases d
  · exact key
  · exact key
  · exact key

/-- a boundary face with Robin weight 1 (unit area, mu = 1, delta = 1/2) -/
def fRob : Face := ⟨1, ⟨1, 0, 0⟩, [⟨0, 1, 1, 1/2⟩], .rob 1, .rob 1, .rob 1⟩

/-- Robin data cannot be consistent with a translation: the datum that makes the stress vanish (5/8 t) is not the
    datum that makes the face displacement equal t (1/2 t).  This is why the property (and `FaceOK`) exclude Robin
    faces; the Robin entries of the matrices are still tied to the model by the correspondence check. -/
theorem robin_not_translation_consistent :
    ¬ ∃ g : Vec, stressFlux false fRob (translation ⟨1, 0, 0⟩).u (translation ⟨1, 0, 0⟩).r (translation ⟨1, 0, 0⟩).p g .x = 0
        ∧ (faceDisp fRob (fun _ => ⟨1, 0, 0⟩) g).get .x = 1 := by
  rintro ⟨g, h1, h2⟩
  rw [tpsa_robin_stress false fRob ⟨1, 0, 0⟩ g .x 1 rfl] at h1
  rw [tpsa_robin_face_disp fRob ⟨1, 0, 0⟩ g .x 1 rfl] at h2
  have e1 : sgnSum fRob.sides = 1 := by decide +kernel
  have e2 : b2fRob fRob .x = 1 / 5 := by decide +kernel
  have e3 : tShear fRob .x = 4 / 3 := by decide +kernel
  have e4 : sumTwoM fRob.sides = 4 := by decide +kernel
  have e5 : fRob.area = 1 := rfl
  rw [e1, e2, e3] at h1
  rw [e4, e5] at h2
  simp only [Vec.get] at h1 h2
  have h2' : (4 * 1 + (1 + 1 / 1) * g.x) = 1 * (4 + 1) := by
    have := h2
    field_simp at this
    linarith
  linarith




/-! ### well-formed faces: `FaceOK` from decidable input conditions -/

theorem sumTwoM_nonneg (ss : List Side) (h : ∀ s ∈ ss, 0 < s.mu ∧ 0 < s.delta) : 0 ≤ sumTwoM ss := by
  induction ss with
  | nil => simp [sumTwoM, sideSum]
  | cons s ss ih =>
    have hs := h s List.mem_cons_self
    have hm : 0 < s.m := div_pos hs.1 hs.2
    have := ih (fun s' hs' => h s' (List.mem_cons_of_mem _ hs'))
    simp only [sumTwoM, sideSum] at this ⊢
    linarith

theorem sumTwoM_pos (ss : List Side) (hne : ss ≠ []) (h : ∀ s ∈ ss, 0 < s.mu ∧ 0 < s.delta) : 0 < sumTwoM ss := by
  cases ss with
  | nil => exact absurd rfl hne
  | cons s ss =>
    have hs := h s List.mem_cons_self
    have hm : 0 < s.m := div_pos hs.1 hs.2
    have := sumTwoM_nonneg ss (fun s' hs' => h s' (List.mem_cons_of_mem _ hs'))
    simp only [sumTwoM, sideSum] at this ⊢
    linarith

/-- the face hypothesis of the translation theorems follows from well-formedness -/
theorem faceOK_of_wf (dim3 : Bool) (f : Face) (h : FaceWF dim3 f) : FaceOK dim3 f := by
  obtain ⟨hpos, hshape⟩ := h
  cases hs : f.sides with
  | nil => simp [hs] at hshape
  | cons a l =>
    cases l with
    | nil =>
      simp only [hs] at hshape
      refine ⟨fun d hd => ⟨?_, ?_⟩, ?_⟩
      · rcases hshape d hd with h | h <;> simp [h, BC.isRob]
      · intro hi; rcases hshape d hd with h | h <;> simp [h] at hi
      · exact ne_of_gt (sumTwoM_pos f.sides (by simp [hs]) hpos)
    | cons b l2 =>
      cases l2 with
      | nil =>
        simp only [hs] at hshape
        refine ⟨fun d hd => ⟨?_, ?_⟩, ?_⟩
        · simp [hshape.2 d hd, BC.isRob]
        · intro _; simp only [sgnSum, hs, sideSum]; linarith [hshape.1]
        · exact ne_of_gt (sumTwoM_pos f.sides (by simp [hs]) hpos)
      | cons c l3 => simp [hs] at hshape

/-- the translation solves the full system on every grid of well-formed faces with consistent data and closed
    cells: no hypothesis left that is not a decidable condition on the input data -/
theorem tpsa_translation_solves_wf (dim3 : Bool) (fs : Faces) (cells : Nat → Cell) (t : Vec) (c : Nat)
    (hwf : ∀ p ∈ fs, FaceWF dim3 p.1 ∧ ∀ d ∈ dirs dim3, Consistent p.1 t p.2 d)
    (hclosed : closure c fs = Vec.zero) :
    resid dim3 fs cells (translation t) c = Resid.zero :=
  tpsa_translation_solves dim3 fs cells t c
    (fun p hp => ⟨faceOK_of_wf dim3 p.1 (hwf p hp).1, (hwf p hp).2⟩) hclosed


/-! ### the transmissibility hypothesis of `nonsingular_one_cell_dirichlet` from positivity -/

theorem cellSum_nonpos (c : Nat) (fs : Faces) (φ : Face → Vec → Rat)
    (h : ∀ p ∈ fs, PorepyVerif.C16.sgnOf c p.1 * φ p.1 p.2 < 0) : cellSum c fs φ ≤ 0 := by
  induction fs with
  | nil => simp [cellSum]
  | cons p fs ih =>
    obtain ⟨f, g⟩ := p
    have h0 := h (f, g) List.mem_cons_self
    have := ih (fun q hq => h q (List.mem_cons_of_mem _ hq))
    simp only [cellSum]
    linarith

theorem cellSum_neg (c : Nat) (fs : Faces) (φ : Face → Vec → Rat) (hne : fs ≠ [])
    (h : ∀ p ∈ fs, PorepyVerif.C16.sgnOf c p.1 * φ p.1 p.2 < 0) : cellSum c fs φ < 0 := by
  cases fs with
  | nil => exact absurd rfl hne
  | cons p fs =>
    obtain ⟨f, g⟩ := p
    have h0 := h (f, g) List.mem_cons_self
    have := cellSum_nonpos c fs φ (fun q hq => h q (List.mem_cons_of_mem _ hq))
    simp only [cellSum]
    linarith

/-- positive areas, shear moduli and distances and signs ±1 make the sum of the face transmissibilities non-zero -/
theorem oneCell_K_ne_zero (fs : Faces) (hne : fs ≠ []) (h1 : OneCellDir fs)
    (hpos : ∀ p ∈ fs, 0 < p.1.area ∧ ∀ s ∈ p.1.sides, 0 < s.mu ∧ 0 < s.delta ∧ s.sgn * s.sgn = 1) (d : Dir) :
    cellSum 0 fs (fun f _ => -(tShear f d * sgnSum f.sides)) ≠ 0 := by
  apply ne_of_lt
  apply cellSum_neg 0 fs _ hne
  intro p hp
  have hD := h1 p hp
  obtain ⟨s, hs, hc⟩ := hD.side
  obtain ⟨hA, hS⟩ := hpos p hp
  obtain ⟨hmu, hdl, hsg⟩ := hS s (by rw [hs]; exact List.mem_singleton_self s)
  have hm : 0 < s.m := div_pos hmu hdl
  have hT : tShear p.1 d = 2 * p.1.area / (1 / s.m) := by
    simp [tShear, sumInvM, hs, sideSum, hD.bc d, BC.robInv]
  have hTpos : 0 < tShear p.1 d := by
    rw [hT]; exact div_pos (by linarith) (one_div_pos.mpr hm)
  rw [hD.sgnOf_eq]
  have hsum : sgnSum p.1.sides = s.sgn := by simp [sgnSum, hs, sideSum]
  rw [hsum]
  have : s.sgn * -(tShear p.1 d * s.sgn) = -(tShear p.1 d) * (s.sgn * s.sgn) := by ring
  rw [this, hsg]
  linarith

/-- … so on one-cell grids with positive data the solve provably returns the translation: every hypothesis is
    a decidable condition on the input data -/
theorem tpsa_translation_unique_one_cell_pos (dim3 : Bool) (fs : Faces) (cells : Nat → Cell) (t : Vec)
    (hne : fs ≠ []) (hG : GridOK dim3 fs t) (h1 : OneCellDir fs) (hcl : closure 0 fs = Vec.zero)
    (hpos : ∀ p ∈ fs, 0 < p.1.area ∧ ∀ s ∈ p.1.sides, 0 < s.mu ∧ 0 < s.delta ∧ s.sgn * s.sgn = 1)
    (hc : 0 < (cells 0).vol ∧ 0 < (cells 0).mu ∧ 0 < (cells 0).lam)
    (st : State) (hst : Solves dim3 fs cells 1 st) :
    (∀ d ∈ dirs dim3, (st.u 0).get d = t.get d)
      ∧ (if dim3 then st.r 0 = Vec.zero else (st.r 0).z = 0) ∧ st.p 0 = 0 :=
  tpsa_translation_unique_one_cell dim3 fs cells t hG h1 hcl (fun d _ => oneCell_K_ne_zero fs hne h1 hpos d)
    (ne_of_gt (div_pos hc.1 hc.2.1)) (ne_of_gt (div_pos hc.1 hc.2.2)) st hst

example (st : State) (hst : Solves false triCell (fun _ => ⟨1, 3, 7⟩) 1 st) : (st.u 0).x = 1 :=
  (tpsa_translation_unique_one_cell_pos false triCell (fun _ => ⟨1, 3, 7⟩) ⟨1, -1, 0⟩ (by decide) (by decide +kernel)
    (by decide +kernel) (by decide +kernel) (by decide +kernel) (by decide +kernel) st hst).1 .x (by simp [dirs])

/-! ### parameter validation and `ndof` -/

/-- the default `BoundaryConditionVectorial` data (identity basis, diagonal Robin weights) with no Robin direction —
    i.e. every input the property quantifies over — passes the checks: the property's inputs never reach an
    error branch -/
theorem validate_ok (bs : List BcFace)
    (h : ∀ b ∈ bs, b.isRob ≠ [] ∧ (∀ r ∈ b.isRob, r = false) ∧ (∀ q ∈ b.basisOff, q = 0) ∧ (∀ q ∈ b.basisDiag, q = 1)
      ∧ (∀ q ∈ b.robOff, q = 0)) : validate bs = true := by
  unfold validate
  rw [List.all_eq_true]
  intro b hb
  obtain ⟨h0, h1, h2, h3, h4⟩ := h b hb
  have e1 : b.basisOff.any (fun q => decide (0 < q)) = false := by
    rw [List.any_eq_false]; intro q hq; simp [h2 q hq]
  have e2 : b.basisDiag.all (fun q => decide (q = 1)) = true := by
    rw [List.all_eq_true]; intro q hq; simp [h3 q hq]
  have e3 : b.robOff.any (fun q => decide (0 < q)) = false := by
    rw [List.any_eq_false]; intro q hq; simp [h4 q hq]
  have e4 : b.isRob.any id = false := by
    rw [List.any_eq_false]; intro r hr; simp [h1 r hr]
  have e5 : b.isRob.all id = false := by
    cases hl : b.isRob with
    | nil => exact absurd hl h0
    | cons r l => have := h1 r (by rw [hl]; exact List.mem_cons_self); simp [this]
  unfold validFace
  simp [e1, e2, e3, e4, e5]

/-- a face that mixes Robin with another kind is rejected -/
theorem validate_rejects_mixed (b : BcFace) (bs : List BcFace) (hb : b ∈ bs)
    (h1 : true ∈ b.isRob) (h2 : false ∈ b.isRob) : validate bs = false := by
  have hany : b.isRob.any id = true := List.any_eq_true.mpr ⟨true, h1, rfl⟩
  have hall : b.isRob.all id = false := by
    rw [List.all_eq_false]; exact ⟨false, h2, by simp⟩
  have : validFace b = false := by simp [validFace, hany, hall]
  unfold validate
  rw [List.all_eq_false]
  exact ⟨b, hb, by simp [this]⟩

/-- `ndof` is the number of unknowns of the assembled system (displacement nd, rotation 1 / 3, pressure 1 per cell) -/
theorem ndof_counts_unknowns (nc : Nat) :
    ndof 2 nc = some (nc * (2 + 1 + 1)) ∧ ndof 3 nc = some (nc * (3 + 3 + 1))
      ∧ ∀ dim, dim ≠ 2 → dim ≠ 3 → ndof dim nc = none := by
  refine ⟨by simp [ndof], by simp [ndof], ?_⟩
  intro dim h2 h3
  simp [ndof, h2, h3]

example : validate [⟨[false, false], [0, 0], [1, 1], [0, -3]⟩, ⟨[true, true], [0, 0], [1, 1], [0, 0]⟩] = true := by decide
example : validate [⟨[true, false], [0, 0], [1, 1], [0, 0]⟩] = false := by decide
example : validate [⟨[false, false], [0, 0], [1, 1], [0, 2]⟩] = false := by decide


/-! ### non-vacuity: concrete grids -/

section Examples

/-- unit square, one cell, faces W E S N (normals +x +x +y +y, signs -1 +1 -1 +1), mu = 2, delta = 1/2 -/
def sq1 (bW bE bS bN : BC × BC) (gW gE gS gN : Vec) : Faces :=
  [ (⟨1, ⟨1, 0, 0⟩, [⟨0, -1, 2, 1/2⟩], bW.1, bW.2, .int⟩, gW),
    (⟨1, ⟨1, 0, 0⟩, [⟨0, 1, 2, 1/2⟩], bE.1, bE.2, .int⟩, gE),
    (⟨1, ⟨0, 1, 0⟩, [⟨0, -1, 2, 1/2⟩], bS.1, bS.2, .int⟩, gS),
    (⟨1, ⟨0, 1, 0⟩, [⟨0, 1, 2, 1/2⟩], bN.1, bN.2, .int⟩, gN) ]


/-- mixed data: west Dirichlet, east Neumann, south rolling (Dirichlet in x, Neumann in y), north Dirichlet -/
def sqMixed : Faces :=
  sq1 (.dir, .dir) (.neu, .neu) (.dir, .neu) (.dir, .dir) tEx Vec.zero ⟨3, 0, 0⟩ tEx

example : GridOK false sqMixed tEx ∧ closure 0 sqMixed = Vec.zero := by decide +kernel

example : resid false sqMixed (fun _ => ⟨1, 2, 3⟩) (translation tEx) 0 = Resid.zero :=
  tpsa_translation_solves false sqMixed _ tEx 0 (by decide +kernel) (by decide +kernel)

/-- the hypotheses are not redundant: a Dirichlet datum that differs from the translation leaves a residual -/
example : resid false (sq1 (.dir, .dir) (.neu, .neu) (.dir, .neu) (.dir, .dir) tEx Vec.zero ⟨3, 0, 0⟩ ⟨4, 0, 0⟩)
    (fun _ => ⟨1, 2, 3⟩) (translation tEx) 0 ≠ Resid.zero := by decide +kernel

/-- two cells in 3-D sharing one interior face (unit cubes side by side in x), different shear moduli on the
    two sides; only the faces needed for the per-face statements -/
def fInt : Face := ⟨1, ⟨1, 0, 0⟩, [⟨0, 1, 2, 1/2⟩, ⟨1, -1, 5, 1/4⟩], .int, .int, .int⟩
def fDir : Face := ⟨1, ⟨1, 0, 0⟩, [⟨1, 1, 5, 1/4⟩], .dir, .neu, .dir⟩

example : FaceOK true fInt ∧ FaceOK true fDir := by decide +kernel

example : stressFlux true fInt (translation ⟨1, -2, 3⟩).u (translation ⟨1, -2, 3⟩).r (translation ⟨1, -2, 3⟩).p
    Vec.zero .y = 0 :=
  (tpsa_translation_zero_stress true fInt ⟨1, -2, 3⟩ Vec.zero .y (by decide +kernel) (by decide +kernel)
    (by decide +kernel)).2.1

/-- the interior coefficients are not trivially zero: the x-row of `fInt` has entries -T, +T with T = 20/3 ≠ 0 -/
example : trmNd fInt .x = 20 / 3 := by decide +kernel

example : (faceDisp fDir (fun _ => ⟨1, -2, 3⟩) ⟨1, 0, 3⟩).get .y = -2 :=
  tpsa_translation_face_disp fDir ⟨1, -2, 3⟩ ⟨1, 0, 3⟩ .y (by decide +kernel) (by decide +kernel)
    (by decide +kernel)

/-! non-vacuity of the nonsingularity hypothesis: the one-cell all-Dirichlet grid, worked out symbolically -/

def sqDir : Faces := sq1 (.dir, .dir) (.dir, .dir) (.dir, .dir) (.dir, .dir) tEx tEx tEx tEx
def cellsEx : Nat → Cell := fun _ => ⟨1, 2, 1⟩

theorem resid_sqDir (st : State) :
    resid false sqDir cellsEx st 0 =
      ⟨⟨96 - 32 * (st.u 0).x, -80 - 32 * (st.u 0).y, 0⟩, ⟨0, 0, -(1/2) * (st.r 0).z⟩, -(st.p 0)⟩ := by
  simp only [resid, sqDir, sq1, cellSum, sgnOf, sideSum, stressFlux, stressU, stressG, stressR2, stressP, nvd,
    rotFlux2, rotRot2, massFlux, massP, faceDisp, sideVec, c2fW, gammaB, trmNd, trmBnd, tShear, muSum, b2fRob,
    sumInvM, sumTwoM, Side.m, Face.bc, BC.robInv, BC.robW, BC.isDir, BC.isNeu, BC.isRob, notNeu, neuRob, arith,
    dirNotpass, argmaxDir, absR, tEx, cellsEx, Vec.get, robProj]
  norm_num
  constructor <;> ring

/-- the nonsingularity hypothesis is satisfiable: the one-cell all-Dirichlet system has a unique solution -/
theorem nonsingular_sqDir : Nonsingular false sqDir cellsEx 1 := by
  intro a b ha hb c hc
  have hc0 : c = 0 := by omega
  subst hc0
  have h1 := ha 0 (by omega)
  have h2 := hb 0 (by omega)
  rw [resid_sqDir] at h1 h2
  simp only [Resid.zero, Vec.zero, Resid.mk.injEq, Vec.mk.injEq] at h1 h2
  obtain ⟨⟨hax, hay, _⟩, ⟨_, _, har⟩, hap⟩ := h1
  obtain ⟨⟨hbx, hby, _⟩, ⟨_, _, hbr⟩, hbp⟩ := h2
  refine ⟨?_, ?_, ?_⟩
  · intro d hd
    simp [dirs] at hd
    rcases hd with rfl | rfl
    · show (a.u 0).x = (b.u 0).x
      linarith
    · show (a.u 0).y = (b.u 0).y
      linarith
  · show (if false = true then a.r 0 = b.r 0 else (a.r 0).z = (b.r 0).z)
    simp only [Bool.false_eq_true, if_false]
    linarith
  · linarith

example (st : State) (hst : Solves false sqDir cellsEx 1 st) :
    (st.u 0).x = 3 ∧ (st.u 0).y = -5/2 ∧ (st.r 0).z = 0 ∧ st.p 0 = 0 := by
  have h := tpsa_translation_unique false sqDir cellsEx 1 tEx (by decide +kernel)
    (fun c hc => by have : c = 0 := by omega
                    subst this; decide +kernel) nonsingular_sqDir st hst 0 (by omega)
  obtain ⟨hu, hr, hp⟩ := h
  refine ⟨hu .x (by simp [dirs]), hu .y (by simp [dirs]), ?_, hp⟩
  simpa using hr
/-! a grid with an interior face: two cells, explicit computation -/


/-- two unit squares side by side (cells 0 and 1, shear moduli 2 and 5), faces in porepy's order:
    x-faces at x = 0, 1 (interior), 2; y-faces bottom of cell 0, bottom of cell 1, top of cell 0, top of cell 1;
    Dirichlet datum `tEx` on the whole boundary -/
def grid21 : Faces :=
  [ (⟨1, ⟨1, 0, 0⟩, [⟨0, -1, 2, 1/2⟩], .dir, .dir, .int⟩, tEx),
    (⟨1, ⟨1, 0, 0⟩, [⟨0, 1, 2, 1/2⟩, ⟨1, -1, 5, 1/2⟩], .int, .int, .int⟩, Vec.zero),
    (⟨1, ⟨1, 0, 0⟩, [⟨1, 1, 5, 1/2⟩], .dir, .dir, .int⟩, tEx),
    (⟨1, ⟨0, 1, 0⟩, [⟨0, -1, 2, 1/2⟩], .dir, .dir, .int⟩, tEx),
    (⟨1, ⟨0, 1, 0⟩, [⟨1, -1, 5, 1/2⟩], .dir, .dir, .int⟩, tEx),
    (⟨1, ⟨0, 1, 0⟩, [⟨0, 1, 2, 1/2⟩], .dir, .dir, .int⟩, tEx),
    (⟨1, ⟨0, 1, 0⟩, [⟨1, 1, 5, 1/2⟩], .dir, .dir, .int⟩, tEx) ]

def cells21 : Nat → Cell := fun c => if c = 0 then ⟨1, 2, 3⟩ else ⟨1, 5, 3⟩

/-- the four balance equations of cell 0 of `grid21`, written out (rows of `div F - accum` and of `div R g`) -/
theorem eqs21_cell0 (st : State) (h : resid false grid21 cells21 st 0 = Resid.zero) :
    (-208/7) * (st.u 0).x + (40/7) * (st.u 1).x + (-2/7) * st.p 0 + (2/7) * st.p 1 + 72 = 0
    ∧ (-208/7) * (st.u 0).y + (40/7) * (st.u 1).y + (-2/7) * (st.r 0).z + (2/7) * (st.r 1).z + (-60) = 0
    ∧ (-2/7) * (st.u 0).y + (-5/7) * (st.u 1).y + (-1/2) * (st.r 0).z + (-5/2) = 0
    ∧ (2/7) * (st.u 0).x + (5/7) * (st.u 1).x + (-31/84) * st.p 0 + (1/28) * st.p 1 + (-3) = 0 := by
  simp only [resid, grid21, cellSum, sgnOf, sideSum, stressFlux, stressU, stressG, stressR2, stressP, nvd,
    rotFlux2, rotRot2, massFlux, massP, faceDisp, sideVec, c2fW, gammaB, trmNd, trmBnd, tShear, muSum, b2fRob,
    sumInvM, sumTwoM, Side.m, Face.bc, BC.robInv, BC.robW, BC.isDir, BC.isNeu, BC.isRob, notNeu, neuRob, arith,
    dirNotpass, argmaxDir, absR, tEx, cells21, Vec.get, robProj, Resid.zero, Vec.zero, Resid.mk.injEq,
    Vec.mk.injEq] at h
  norm_num at h
  obtain ⟨⟨hx, hy⟩, hr, hp⟩ := h
  refine ⟨?_, ?_, ?_, ?_⟩ <;> linarith

theorem eqs21_cell1 (st : State) (h : resid false grid21 cells21 st 1 = Resid.zero) :
    (40/7) * (st.u 0).x + (-460/7) * (st.u 1).x + (-5/7) * st.p 0 + (5/7) * st.p 1 + 180 = 0
    ∧ (40/7) * (st.u 0).y + (-460/7) * (st.u 1).y + (-5/7) * (st.r 0).z + (5/7) * (st.r 1).z + (-150) = 0
    ∧ (2/7) * (st.u 0).y + (5/7) * (st.u 1).y + (-1/5) * (st.r 1).z + (5/2) = 0
    ∧ (-2/7) * (st.u 0).x + (-5/7) * (st.u 1).x + (1/28) * st.p 0 + (-31/84) * st.p 1 + 3 = 0 := by
  simp only [resid, grid21, cellSum, sgnOf, sideSum, stressFlux, stressU, stressG, stressR2, stressP, nvd,
    rotFlux2, rotRot2, massFlux, massP, faceDisp, sideVec, c2fW, gammaB, trmNd, trmBnd, tShear, muSum, b2fRob,
    sumInvM, sumTwoM, Side.m, Face.bc, BC.robInv, BC.robW, BC.isDir, BC.isNeu, BC.isRob, notNeu, neuRob, arith,
    dirNotpass, argmaxDir, absR, tEx, cells21, Vec.get, robProj, Resid.zero, Vec.zero, Resid.mk.injEq,
    Vec.mk.injEq] at h
  norm_num at h
  obtain ⟨⟨hx, hy⟩, hr, hp⟩ := h
  refine ⟨?_, ?_, ?_, ?_⟩ <;> linarith

/-- the 8 x 8 matrix of `grid21` is nonsingular: two solutions of the eight equations coincide -/
theorem lin21 (ax0 ay0 ax1 ay1 ar0 ar1 ap0 ap1 bx0 by0 bx1 by1 br0 br1 bp0 bp1 : Rat)
    (a1 : (-208/7) * ax0 + (40/7) * ax1 + (-2/7) * ap0 + (2/7) * ap1 + 72 = 0)
    (a2 : (-208/7) * ay0 + (40/7) * ay1 + (-2/7) * ar0 + (2/7) * ar1 + (-60) = 0)
    (a3 : (-2/7) * ay0 + (-5/7) * ay1 + (-1/2) * ar0 + (-5/2) = 0)
    (a4 : (2/7) * ax0 + (5/7) * ax1 + (-31/84) * ap0 + (1/28) * ap1 + (-3) = 0)
    (a5 : (40/7) * ax0 + (-460/7) * ax1 + (-5/7) * ap0 + (5/7) * ap1 + 180 = 0)
    (a6 : (40/7) * ay0 + (-460/7) * ay1 + (-5/7) * ar0 + (5/7) * ar1 + (-150) = 0)
    (a7 : (2/7) * ay0 + (5/7) * ay1 + (-1/5) * ar1 + (5/2) = 0)
    (a8 : (-2/7) * ax0 + (-5/7) * ax1 + (1/28) * ap0 + (-31/84) * ap1 + 3 = 0)
    (b1 : (-208/7) * bx0 + (40/7) * bx1 + (-2/7) * bp0 + (2/7) * bp1 + 72 = 0)
    (b2 : (-208/7) * by0 + (40/7) * by1 + (-2/7) * br0 + (2/7) * br1 + (-60) = 0)
    (b3 : (-2/7) * by0 + (-5/7) * by1 + (-1/2) * br0 + (-5/2) = 0)
    (b4 : (2/7) * bx0 + (5/7) * bx1 + (-31/84) * bp0 + (1/28) * bp1 + (-3) = 0)
    (b5 : (40/7) * bx0 + (-460/7) * bx1 + (-5/7) * bp0 + (5/7) * bp1 + 180 = 0)
    (b6 : (40/7) * by0 + (-460/7) * by1 + (-5/7) * br0 + (5/7) * br1 + (-150) = 0)
    (b7 : (2/7) * by0 + (5/7) * by1 + (-1/5) * br1 + (5/2) = 0)
    (b8 : (-2/7) * bx0 + (-5/7) * bx1 + (1/28) * bp0 + (-31/84) * bp1 + 3 = 0) :
    ax0 = bx0 ∧ ay0 = by0 ∧ ax1 = bx1 ∧ ay1 = by1 ∧ ar0 = br0 ∧ ar1 = br1 ∧ ap0 = bp0 ∧ ap1 = bp1 := by
  refine ⟨?_, ?_, ?_, ?_, ?_, ?_, ?_, ?_⟩ <;> linarith

/-- NONSINGULARITY BY EXPLICIT COMPUTATION for a grid with an interior face: the two-cell all-Dirichlet system
    (8 unknowns, heterogeneous shear modulus) has at most one solution. -/
theorem nonsingular_grid21 : Nonsingular false grid21 cells21 2 := by
  intro a b ha hb
  obtain ⟨a1, a2, a3, a4⟩ := eqs21_cell0 a (ha 0 (by omega))
  obtain ⟨a5, a6, a7, a8⟩ := eqs21_cell1 a (ha 1 (by omega))
  obtain ⟨b1, b2, b3, b4⟩ := eqs21_cell0 b (hb 0 (by omega))
  obtain ⟨b5, b6, b7, b8⟩ := eqs21_cell1 b (hb 1 (by omega))
  obtain ⟨k0x, k0y, k1x, k1y, kr0, kr1, kp0, kp1⟩ :=
    lin21 _ _ _ _ _ _ _ _ _ _ _ _ _ _ _ _ a1 a2 a3 a4 a5 a6 a7 a8 b1 b2 b3 b4 b5 b6 b7 b8
  intro c hc
  have hc' : c = 0 ∨ c = 1 := by omega
  rcases hc' with rfl | rfl
  · refine ⟨?_, ?_, kp0⟩
    · intro d hd
      simp [dirs] at hd
      rcases hd with rfl | rfl
      · exact k0x
      · exact k0y
    · show (if false = true then a.r 0 = b.r 0 else (a.r 0).z = (b.r 0).z)
      simp only [Bool.false_eq_true, if_false]
      exact kr0
  · refine ⟨?_, ?_, kp1⟩
    · intro d hd
      simp [dirs] at hd
      rcases hd with rfl | rfl
      · exact k1x
      · exact k1y
    · show (if false = true then a.r 1 = b.r 1 else (a.r 1).z = (b.r 1).z)
      simp only [Bool.false_eq_true, if_false]
      exact kr1

/-- … so on this grid the solve returns the translation in both cells -/
example (st : State) (hst : Solves false grid21 cells21 2 st) (c : Nat) (hc : c < 2) :
    (st.u c).x = 3 ∧ (st.u c).y = -5/2 ∧ (st.r c).z = 0 ∧ st.p c = 0 := by
  have h := tpsa_translation_unique false grid21 cells21 2 tEx (by decide +kernel)
    (by decide +kernel) nonsingular_grid21 st hst c hc
  obtain ⟨hu, hr, hp⟩ := h
  refine ⟨hu .x (by simp [dirs]), hu .y (by simp [dirs]), ?_, hp⟩
  simpa using hr


example : ∀ p ∈ sqMixed, FaceWF false p.1 := by decide +kernel

end Examples

end PorepyVerif.C16
