import PorepyVerif.C16.Props
#print axioms PorepyVerif.C16.tpsa_translation_zero_stress
#print axioms PorepyVerif.C16.tpsa_stress_coefficients_balance
#print axioms PorepyVerif.C16.tpsa_translation_face_disp
#print axioms PorepyVerif.C16.tpsa_translation_face_fluxes
#print axioms PorepyVerif.C16.tpsa_translation_solves
#print axioms PorepyVerif.C16.tpsa_translation_unique
#print axioms PorepyVerif.C16.nonsingular_one_cell_dirichlet
#print axioms PorepyVerif.C16.tpsa_translation_unique_one_cell
#print axioms PorepyVerif.C16.nonsingular_grid21
#print axioms PorepyVerif.C16.strip_null_mode
#print axioms PorepyVerif.C16.strip_singular_1
#print axioms PorepyVerif.C16.strip_singular_3
#print axioms PorepyVerif.C16.tpsa_robin_stress
#print axioms PorepyVerif.C16.tpsa_robin_zero_stress_iff
#print axioms PorepyVerif.C16.tpsa_robin_face_disp
#print axioms PorepyVerif.C16.robin_not_translation_consistent
