import PorepyVerif.C16.Props
#print axioms PorepyVerif.C16.tpsa_translation_zero_stress
#print axioms PorepyVerif.C16.tpsa_stress_coefficients_balance
#print axioms PorepyVerif.C16.tpsa_translation_face_disp
#print axioms PorepyVerif.C16.tpsa_translation_face_fluxes
#print axioms PorepyVerif.C16.tpsa_translation_solves
#print axioms PorepyVerif.C16.tpsa_translation_unique
