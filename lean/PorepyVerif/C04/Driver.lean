/- C04 line-protocol driver: `lake env lean --run PorepyVerif/C04/Driver.lean`

One op, `mdg`: the signed incidence matrices, integrated mortar projections, boundary
discretisation matrices (sparse triplets) and the term vectors of one balance equation of a real
porepy model at one state.  The answer contains the residual of the MODEL (`residual`), both sides
of the conservation identity, the extra terms of `total_residual_balance` and the decidable
versions of the hypotheses, all evaluated exactly over the rationals. -/
import Std.Data.HashMap
import PorepyVerif.Common.Wire
import PorepyVerif.C04.Model
open Lean PV PorepyVerif.C04

abbrev Trip := Nat × Nat × Rat

def jTrip (j : Json) : R Trip :=
  match j with
  | .arr a =>
    if a.size != 3 then throw "triplet needs 3 entries" else do
      let r ← jNat a[0]!
      let c ← jNat a[1]!
      let v ← jRat a[2]!
      pure (r, c, v)
  | _ => throw "triplet must be a list"

abbrev SpMap := Std.HashMap (Nat × Nat) Rat

/-- sparse triplets (duplicates are summed, as scipy does) → hash map (data, built once) -/
def mapOf (ts : List Trip) : SpMap :=
  ts.foldl (fun h (r, c, v) => h.insert (r, c) (h.getD (r, c) 0 + v)) {}

def look (h : SpMap) (r c : Nat) : Rat := h.getD (r, c) 0

def bit (a : Array Nat) (i : Nat) : Bool := a.getD i 0 != 0

def dflt : Subdomain :=
  { nc := 0, nf := 0, D := fun _ _ => 0, accNow := fun _ => 0, accPrev := fun _ => 0,
    F := fun _ => 0, src := fun _ => 0 }

def parseSd (j : Json) : R (Subdomain × (Nat → Bool)) := do
  let nc ← fNat j "nc"
  let nf ← fNat j "nf"
  let d ← field j "D" >>= jList jTrip
  let accNow ← fRats j "accNow"
  let accPrev ← fRats j "accPrev"
  let f ← fRats j "F"
  let src ← fRats j "src"
  let neu ← fNats j "neu"
  if accNow.length != nc || accPrev.length != nc || src.length != nc || f.length != nf || neu.length != nf then
    throw "vector length mismatch in subdomain"
  if d.any (fun (r, c, _) => r ≥ nc || c ≥ nf) then throw "D index out of range"
  let dm := mapOf d
  let a1 := accNow.toArray
  let a0 := accPrev.toArray
  let fa := f.toArray
  let sa := src.toArray
  let na := neu.toArray
  pure ({ nc := nc, nf := nf, D := look dm, accNow := rd a1, accPrev := rd a0, F := rd fa, src := rd sa }, bit na)

def parseCp (sds : Array (Subdomain × (Nat → Bool))) (j : Json) : R Coupling := do
  let prim ← fNat j "prim"
  let sec ← fNat j "sec"
  let nm ← fNat j "nm"
  if prim ≥ sds.size || sec ≥ sds.size then throw "coupling refers to a missing subdomain"
  let (sp, neu) := sds.getD prim (dflt, fun _ => false)
  let (ss, _) := sds.getD sec (dflt, fun _ => false)
  let ppm ← field j "Ppm" >>= jList jTrip
  let psm ← field j "Psm" >>= jList jTrip
  let lam ← fRats j "lam"
  if lam.length != nm then throw "lam length mismatch"
  if ppm.any (fun (r, c, _) => r ≥ sp.nf || c ≥ nm) then throw "Ppm index out of range"
  if psm.any (fun (r, c, _) => r ≥ ss.nc || c ≥ nm) then throw "Psm index out of range"
  let coded := match fieldD j "coded" (Json.str "") with
    | .str c => c
    | _ => ""
  let flags (k : String) : R (Nat → Bool) := do
    let l ← fNats j k
    if l.length != sp.nf then throw s!"flag vector {k} has the wrong length"
    let a := l.toArray
    pure (bit a)
  let rats (k : String) : R (Nat → Rat) := do
    let l ← fRats j k
    if l.length != sp.nf then throw s!"vector {k} has the wrong length"
    let a := l.toArray
    pure (rd a)
  let b ← match coded with
    | "upwind" => pure (upwindNeu sp.nc sp.D neu)
    | "tpfa" => do
      let bnd ← flags "bnd"
      let ne ← flags "neu"
      let td ← rats "tdir"
      pure (tpfaBoundFlux sp.nc sp.D bnd ne td)
    | "adtpfa" => do
      let en ← flags "extNeu"
      let ed ← flags "extDir"
      let ib ← flags "intb"
      let tf ← rats "tf"
      pure (adTpfaBound true sp.nc sp.D en ed ib tf)
    | "" => do
      let bt ← field j "B" >>= jList jTrip
      if bt.any (fun (r, c, _) => r ≥ sp.nf || c ≥ sp.nf) then throw "B index out of range"
      let bm := mapOf bt
      pure (look bm)
    | c => throw s!"unknown coded boundary matrix {c}"
  let pm := mapOf ppm
  let sm := mapOf psm
  let la := lam.toArray
  pure { prim := prim, sec := sec, nm := nm, Ppm := look pm, Psm := look sm, B := b, lam := rd la }

def run (j : Json) : R Json := do
  let op ← fStr j "op"
  match op with
  | "mdg" =>
    let dt ← fRat j "dt"
    if dt == 0 then throw "dt = 0"
    let sdl ← field j "sds" >>= jList parseSd
    let sds := sdl.toArray
    let cps ← field j "cps" >>= jList (parseCp sds)
    let g : MDG := { nsd := sds.size, sd := fun i => (sds.getD i (dflt, fun _ => false)).1, cps := cps, dt := dt }
    let idx := List.range g.nsd
    let res := idx.map (fun i => (residual g i).toList)
    -- the upwind Neumann matrix as coded, per subdomain (diagonal), for comparison with the real one
    let upw := idx.map (fun i =>
      let s := g.sd i
      let nb := (sds.getD i (dflt, fun _ => false)).2
      let b := upwindNeu s.nc s.D nb
      (List.range s.nf).map (fun f => b f f))
    pure (obj [
      ("res", ofList ofRats res),
      ("total", ofRat (totalResidual g)),
      ("acc", ofRat (totalAccRate g)),
      ("src", ofRat (totalSrc g)),
      ("outflow", ofRat (boundaryOutflow g)),
      ("net", ofRats (cps.map (netCoupling g))),
      ("h1", ofList Json.bool (idx.map (fun i => checkH1 (g.sd i)))),
      ("h2dev", ofRats (cps.map (h2Dev g))),
      ("targets", ofList Json.bool (cps.map (checkTargets g))),
      ("gaindev", ofRats (cps.map (gainDev g))),
      ("upwindB", ofList ofRats upw),
      ("exact", Json.bool (checkAll g)),
      ("Bdiag", ofList ofRats (cps.map (fun cp => (List.range (g.sd cp.prim).nf).map (fun f => cp.B f f))))])
  | "setproj" =>
    -- `MortarGrid._set_projections`: integrated projection = transpose of the averaged map
    let n ← fNat j "n"
    let ncols ← fNat j "ncols"
    let ts ← field j "avg" >>= jList jTrip
    if ts.any (fun (r, c, _) => r ≥ n || c ≥ ncols) then throw "avg index out of range"
    let am := mapOf ts
    let avg := look am
    let pint := setProjInt avg
    let dev := maxTo n (fun r => absR (rowSum ncols avg r - 1))
    let keys := (ts.map (fun (r, c, _) => (c, r))).eraseDups
    pure (obj [
      ("rowdev", ofRat dev),
      ("rowstochastic", Json.bool (allTo n (fun r => rowSum ncols avg r == 1))),
      ("colsums", ofRats ((List.range n).map (fun m => colSum ncols pint m))),
      ("int", ofList (fun (p : Nat × Nat) => Json.arr #[ofNat p.1, ofNat p.2, ofRat (pint p.1 p.2)]) keys)])
  | _ => throw s!"unknown op {op}"

def main : IO Unit := runPure run
