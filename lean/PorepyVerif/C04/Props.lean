/-
C04 — property theorems (statements only depend on Model.lean; helper lemmas in Lemmas.lean).

Property: for the mass balance and the energy balance on any fractured domain with closed
boundaries and no external sources, the sum of the balance-equation residuals over all cells of
all subdomains equals the total rate of change of the accumulated quantity, for every state:
inter-cell and interface fluxes cancel exactly.

The model (`residual`) is `balance_equation` as coded:
  r_i = (acc_i − acc_i^prev)/dt + D_i (F_i + Σ_{j : prim j = i} B_j P_pm,j λ_j)
        − (Σ_{j : sec j = i} P_sm,j λ_j + src_i)
for an ARBITRARY number of subdomains and an arbitrary list of interface fluxes.
-/
import PorepyVerif.C04.Lemmas

namespace PorepyVerif.C04

/-- General discrete balance (no hypothesis on the data, only that couplings refer to existing
    subdomains): the sum of all residuals is the accumulation rate, minus external sources, plus
    what the own fluxes carry through boundary faces, plus what every interface flux creates or
    destroys between leaving its primary and entering its secondary. -/
theorem total_residual_balance (g : MDG) (hv : ValidIdx g) :
    totalResidual g
      = totalAccRate g - totalSrc g + boundaryOutflow g + sumL g.cps (netCoupling g) := by
  unfold totalResidual totalAccRate totalSrc boundaryOutflow
  rw [sumTo_congr (fun i _ => residual_total g i)]
  rw [sumTo_sub, sumTo_add, sumTo_add, sumTo_add]
  rw [sum_over_subdomains g.nsd g.cps (fun cp => cp.prim)
        (fun i cp => sumTo (g.sd i).nf (fun f' => gain (g.sd i) cp.B f' * mulVec cp.nm cp.Ppm cp.lam f'))
        (fun cp h => (hv cp h).1)]
  rw [sum_over_subdomains g.nsd g.cps (fun cp => cp.sec)
        (fun i cp => sumTo (g.sd i).nc (mulVec cp.nm cp.Psm cp.lam))
        (fun cp h => (hv cp h).2)]
  have h : sumL g.cps (netCoupling g)
      = sumL g.cps (fun cp => sumTo (g.sd cp.prim).nf
            (fun f' => gain (g.sd cp.prim) cp.B f' * mulVec cp.nm cp.Ppm cp.lam f'))
        - sumL g.cps (fun cp => sumTo (g.sd cp.sec).nc (mulVec cp.nm cp.Psm cp.lam)) := by
    rw [← sumL_sub]
    exact sumL_congr (fun cp _ => netCoupling_eq g cp)
  rw [h]
  grind

/-- One interface flux neither creates nor destroys anything: under (H2) and Neumann consistency
    of the primary's boundary discretisation, what leaves the primary enters the secondary. -/
theorem coupling_cancels (g : MDG) (cp : Coupling) (h2 : H2 g cp) (hb : NeumannConsistent g cp) :
    netCoupling g cp = 0 := by
  rw [netCoupling_eq]
  have hp : sumTo (g.sd cp.prim).nf
        (fun f' => gain (g.sd cp.prim) cp.B f' * mulVec cp.nm cp.Ppm cp.lam f')
      = sumTo (g.sd cp.prim).nf (mulVec cp.nm cp.Ppm cp.lam) := by
    apply sumTo_congr
    intro f hf
    by_cases ht : Target cp f
    · rw [hb f hf ht]; grind
    · have hz : mulVec cp.nm cp.Ppm cp.lam f = 0 := by
        unfold mulVec
        rw [sumTo_congr (g := fun _ => 0), sumTo_zero]
        intro m hm
        have : cp.Ppm f m = 0 := Classical.byContradiction (fun hne => ht ⟨m, hm, hne⟩)
        rw [this]; grind
      rw [hz]; grind
  have e1 : sumTo cp.nm (fun m => colSum (g.sd cp.prim).nf cp.Ppm m * cp.lam m)
      = sumTo cp.nm (fun m => 1 * cp.lam m) :=
    sumTo_congr (fun m hm => by rw [h2.1 m hm])
  have e2 : sumTo cp.nm (fun m => colSum (g.sd cp.sec).nc cp.Psm m * cp.lam m)
      = sumTo cp.nm (fun m => 1 * cp.lam m) :=
    sumTo_congr (fun m hm => by rw [h2.2 m hm])
  rw [hp, sum_mulVec, sum_mulVec, e1, e2]
  grind

/-- **C04** (headline).  On ANY md-grid (any number of subdomains, any list of interface fluxes),
    if (H2) the integrated mortar projections have unit column sums, the boundary discretisation
    hands Neumann data on fracture faces completely to the neighbouring cell, and (H4) the boundary
    is closed, then  Σ_i 1ᵀ r_i = Σ_i 1ᵀ Δacc_i/dt − Σ_i 1ᵀ src_i  for EVERY state. -/
theorem total_residual_eq_total_accumulation (g : MDG) (hv : ValidIdx g)
    (h2 : ∀ cp, cp ∈ g.cps → H2 g cp)
    (hb : ∀ cp, cp ∈ g.cps → NeumannConsistent g cp)
    (h4 : ∀ i, i < g.nsd → ClosedBoundary (g.sd i)) :
    totalResidual g = totalAccRate g - totalSrc g := by
  rw [total_residual_balance g hv]
  have hn : sumL g.cps (netCoupling g) = 0 := by
    rw [sumL_congr (g := fun _ => 0) (fun cp hcp => coupling_cancels g cp (h2 cp hcp) (hb cp hcp))]
    exact sumL_zero _
  have ho : boundaryOutflow g = 0 := by
    unfold boundaryOutflow
    rw [sumTo_congr (g := fun _ => 0), sumTo_zero]
    intro i hi
    rw [sumTo_congr (g := fun _ => 0), sumTo_zero]
    intro f hf
    by_cases hc : colSum (g.sd i).nc (g.sd i).D f = 0
    · rw [hc]; grind
    · rw [h4 i hi f hf hc]; grind
  rw [hn, ho]
  grind

/-- The upwind Neumann matrix as coded (`diag(sgn_div[neumann_ind])`) is Neumann consistent on
    fracture faces whenever (H1) holds: `sgn_div²  = 1` on boundary faces. -/
theorem upwind_neumann_consistent (g : MDG) (cp : Coupling) (neu : Nat → Bool)
    (h1 : H1 (g.sd cp.prim)) (hu : UpwindCoded g cp neu) : NeumannConsistent g cp := by
  intro f hf ht
  obtain ⟨hB, htg⟩ := hu
  obtain ⟨hne, hneu⟩ := htg f hf ht
  rw [hB, upwindNeu_eq_diag, gain_diag _ _ _ hf]
  simp only [hneu, if_true]
  rcases h1 f hf with h | h | h
  · exact absurd h hne
  · rw [h]; grind
  · rw [h]; grind

/-- The Tpfa `bound_flux` as coded (`t_b = 1` on Neumann and internal faces, times the sign of
    the incident cell) is Neumann consistent on fracture faces under (H1). -/
theorem tpfa_neumann_consistent (g : MDG) (cp : Coupling) (bnd neu : Nat → Bool) (tdir : Nat → Rat)
    (h1 : H1 (g.sd cp.prim)) (hu : TpfaCoded g cp bnd neu tdir) : NeumannConsistent g cp := by
  intro f hf ht
  obtain ⟨hB, htg⟩ := hu
  obtain ⟨hne, hb, hneu⟩ := htg f hf ht
  rw [hB]
  unfold tpfaBoundFlux
  rw [gain_diag _ _ _ hf]
  simp only [hb, hneu, if_true]
  rcases h1 f hf with h | h | h
  · exact absurd h hne
  · rw [h]; grind
  · rw [h]; grind

/-- The differentiable-Tpfa boundary matrix WITH the internal boundary filter (the repaired
    `AdTpfaFlux.diffusive_flux`) is Neumann consistent on fracture faces under (H1). -/
theorem adtpfa_neumann_consistent (g : MDG) (cp : Coupling) (extNeu extDir intb : Nat → Bool)
    (tf : Nat → Rat) (h1 : H1 (g.sd cp.prim)) (hu : AdTpfaCoded g cp extNeu extDir intb tf) :
    NeumannConsistent g cp := by
  intro f hf ht
  obtain ⟨hB, htg⟩ := hu
  obtain ⟨hne, hi, hen, hed⟩ := htg f hf ht
  rw [hB]
  unfold adTpfaBound
  rw [gain_diag _ _ _ hf]
  simp only [hi, hen, hed]
  simp only [Bool.false_eq_true, if_false, false_or, if_true, and_self]
  rcases h1 f hf with h | h | h
  · exact absurd h hne
  · rw [h]; grind
  · rw [h]; grind

/-- … and WITHOUT it (the code as shipped, finding C04/FouriersLawAd) a fracture face receives
    nothing: `(1ᵀ D B)_f = 0`, so the interface flux that enters the fracture as a source is created
    out of nothing. -/
theorem adtpfa_shipped_gain_zero (s : Subdomain) (extNeu extDir intb : Nat → Bool) (tf : Nat → Rat)
    (f : Nat) (hf : f < s.nf) (hen : extNeu f = false) (hed : extDir f = false) :
    gain s (adTpfaBound false s.nc s.D extNeu extDir intb tf) f = 0 := by
  unfold adTpfaBound
  rw [gain_diag _ _ _ hf]
  simp only [hen, hed]
  simp only [Bool.false_eq_true, if_false, false_and]
  grind

/-- **C04** for purely advective balances as coded (mass balance): (H1) + (H2) + (H4) suffice. -/
theorem total_residual_eq_total_accumulation_upwind (g : MDG) (hv : ValidIdx g)
    (neu : Nat → Nat → Bool)
    (h1 : ∀ i, i < g.nsd → H1 (g.sd i))
    (h2 : ∀ cp, cp ∈ g.cps → H2 g cp)
    (hu : ∀ cp, cp ∈ g.cps → UpwindCoded g cp (neu cp.prim))
    (h4 : ∀ i, i < g.nsd → ClosedBoundary (g.sd i)) :
    totalResidual g = totalAccRate g - totalSrc g :=
  total_residual_eq_total_accumulation g hv h2
    (fun cp hcp => upwind_neumann_consistent g cp (neu cp.prim) (h1 cp.prim (hv cp hcp).1) (hu cp hcp)) h4

/-- **C04** with every boundary matrix as coded (upwind `bound_transport_neu`, Tpfa `bound_flux`,
    repaired differentiable Tpfa): (H1) + (H2) + (H4) suffice, for advective AND diffusive fluxes. -/
theorem total_residual_eq_total_accumulation_coded (g : MDG) (hv : ValidIdx g)
    (h1 : ∀ i, i < g.nsd → H1 (g.sd i))
    (h2 : ∀ cp, cp ∈ g.cps → H2 g cp)
    (hc : ∀ cp, cp ∈ g.cps → CodedBoundary g cp)
    (h4 : ∀ i, i < g.nsd → ClosedBoundary (g.sd i)) :
    totalResidual g = totalAccRate g - totalSrc g := by
  refine total_residual_eq_total_accumulation g hv h2 (fun cp hcp => ?_) h4
  have hp := h1 cp.prim (hv cp hcp).1
  rcases hc cp hcp with ⟨neu, h⟩ | ⟨bnd, neu, tdir, h⟩ | ⟨en, ed, ib, tf, h⟩
  · exact upwind_neumann_consistent g cp neu hp h
  · exact tpfa_neumann_consistent g cp bnd neu tdir hp h
  · exact adtpfa_neumann_consistent g cp en ed ib tf hp h

/-- … and without external sources the residuals sum to the accumulation rate alone. -/
theorem closed_no_source_conservation (g : MDG) (hv : ValidIdx g)
    (h2 : ∀ cp, cp ∈ g.cps → H2 g cp)
    (hb : ∀ cp, cp ∈ g.cps → NeumannConsistent g cp)
    (h4 : ∀ i, i < g.nsd → ClosedBoundary (g.sd i))
    (hs : ∀ i, i < g.nsd → NoSources (g.sd i)) :
    totalResidual g = totalAccRate g := by
  rw [total_residual_eq_total_accumulation g hv h2 hb h4]
  have : totalSrc g = 0 := by
    unfold totalSrc
    rw [sumTo_congr (g := fun _ => 0), sumTo_zero]
    intro i hi
    rw [sumTo_congr (g := fun _ => 0), sumTo_zero]
    intro c hc
    exact hs i hi c hc
  rw [this]; grind

/-- Physical reading: a converged time step (all residuals zero) of a closed system without
    sources conserves the total accumulated quantity exactly. -/
theorem converged_step_conserves (g : MDG) (hv : ValidIdx g)
    (h2 : ∀ cp, cp ∈ g.cps → H2 g cp)
    (hb : ∀ cp, cp ∈ g.cps → NeumannConsistent g cp)
    (h4 : ∀ i, i < g.nsd → ClosedBoundary (g.sd i))
    (hs : ∀ i, i < g.nsd → NoSources (g.sd i))
    (hdt : g.dt ≠ 0)
    (hr : ∀ i, i < g.nsd → ∀ c, c < (g.sd i).nc → rd (residual g i) c = 0) :
    sumTo g.nsd (fun i => sumTo (g.sd i).nc (g.sd i).accNow)
      = sumTo g.nsd (fun i => sumTo (g.sd i).nc (g.sd i).accPrev) := by
  have h := closed_no_source_conservation g hv h2 hb h4 hs
  have hz : totalResidual g = 0 := by
    unfold totalResidual
    rw [sumTo_congr (g := fun _ => 0), sumTo_zero]
    intro i hi
    unfold sumA
    rw [residual_size, sumTo_congr (g := fun _ => 0), sumTo_zero]
    intro c hc
    exact hr i hi c hc
  rw [hz] at h
  unfold totalAccRate at h
  rw [sumTo_congr (fun i _ => sum_div (g.sd i).nc _ g.dt), sum_div] at h
  rw [sumTo_congr (fun i _ => sumTo_sub (g.sd i).nc _ _), sumTo_sub] at h
  have h' : (sumTo g.nsd (fun i => sumTo (g.sd i).nc (g.sd i).accNow)
      - sumTo g.nsd (fun i => sumTo (g.sd i).nc (g.sd i).accPrev)) = 0 := by
    have := congrArg (· * g.dt) h
    simp only [Rat.zero_mul] at this
    rw [Rat.div_mul_cancel hdt] at this
    exact this.symm
  grind

/-! ### clause "inter-cell fluxes cancel exactly" -/

/-- Summing the divergence of ANY face field over all cells leaves only the faces with non-zero
    column sum: `1ᵀ (D q) = Σ_f (1ᵀ D)_f q_f`. -/
theorem divergence_sum_is_boundary_flux (s : Subdomain) (q : Nat → Rat) :
    sumTo s.nc (mulVec s.nf s.D q) = sumTo s.nf (fun f => colSum s.nc s.D f * q f) :=
  sum_mulVec s.nc s.nf s.D q

/-- … so a flux field that vanishes on the boundary faces sums to zero: whatever leaves a cell
    through an interior face enters its neighbour. -/
theorem intercell_fluxes_cancel (s : Subdomain) (q : Nat → Rat)
    (hq : ∀ f, f < s.nf → colSum s.nc s.D f ≠ 0 → q f = 0) :
    sumTo s.nc (mulVec s.nf s.D q) = 0 := by
  rw [divergence_sum_is_boundary_flux, sumTo_congr (g := fun _ => 0), sumTo_zero]
  intro f hf
  by_cases hc : colSum s.nc s.D f = 0
  · rw [hc]; grind
  · rw [hq f hf hc]; grind

/-- Under (H1) the sum of the divergence is the signed sum of the boundary values only. -/
theorem divergence_sum_signed_boundary (s : Subdomain) (q : Nat → Rat) (h1 : H1 s) :
    sumTo s.nc (mulVec s.nf s.D q)
      = sumTo s.nf (fun f => if colSum s.nc s.D f = 1 then q f
                            else if colSum s.nc s.D f = -1 then - q f else 0) := by
  rw [divergence_sum_is_boundary_flux]
  apply sumTo_congr
  intro f hf
  have e0 : ¬ ((0 : Rat) = 1) := by decide
  have e0' : ¬ ((0 : Rat) = -1) := by decide
  have e1 : ¬ ((-1 : Rat) = 1) := by decide
  rcases h1 f hf with h | h | h
  · rw [h]; simp only [e0, e0', if_false]; grind
  · rw [h]; simp only [if_true]; grind
  · rw [h]; simp only [e1, if_false, if_true]; grind

/-! ### (H2) follows from how `MortarGrid` builds the integrated projections -/

theorem colSum_transpose (n : Nat) (M : Nat → Nat → Rat) (c : Nat) :
    colSum n (transposeM M) c = rowSum n M c := rfl

/-- the product of two averaged maps is an averaged map -/
theorem rowStochastic_matMul (nr k nc : Nat) (A B : Nat → Nat → Rat)
    (hA : RowStochastic nr k A) (hB : RowStochastic k nc B) : RowStochastic nr nc (matMul k A B) := by
  intro r hr
  unfold rowSum matMul
  rw [sumTo_comm]
  have h : ∀ j, j < k → sumTo nc (fun c => A r j * B j c) = A r j := by
    intro j hj
    rw [sumTo_mul_left]
    have := hB j hj
    unfold rowSum at this
    rw [this]; grind
  rw [sumTo_congr h]
  exact hA r hr

/-- for EVERY history of mortar / primary / secondary grid replacements by averaged matchings the
    averaged map keeps unit row sums -/
theorem rowStochastic_applyUpdates (nf : Nat) (ups : List (Nat × (Nat → Nat → Rat)))
    (n : Nat) (avg : Nat → Nat → Rat) (h0 : RowStochastic n nf avg) (hu : UpdatesOK n ups) :
    RowStochastic (applyUpdates n avg ups).1 nf (applyUpdates n avg ups).2 := by
  induction ups generalizing n avg with
  | nil => exact h0
  | cons u rest ih =>
    obtain ⟨n', U⟩ := u
    exact ih n' (matMul n U avg) (rowStochastic_matMul n' n nf U avg hu.1 h0) hu.2

/-- (H2) for a coupling whose integrated projections are the transposed averaged maps
    (`_set_projections`) of row-stochastic averaged maps -/
theorem h2_of_set_projections (g : MDG) (cp : Coupling) (pAvg sAvg : Nat → Nat → Rat)
    (hp : cp.Ppm = setProjInt pAvg) (hs : cp.Psm = setProjInt sAvg)
    (hpa : RowStochastic cp.nm (g.sd cp.prim).nf pAvg) (hsa : RowStochastic cp.nm (g.sd cp.sec).nc sAvg) :
    H2 g cp := by
  constructor
  · intro m hm; rw [hp]; exact hpa m hm
  · intro m hm; rw [hs]; exact hsa m hm

/-! ### the hypotheses as decidable input conditions -/

theorem checkH1_sound (s : Subdomain) (h : checkH1 s = true) : H1 s := by
  intro f hf
  have := allTo_sound h f hf
  simp only [Bool.or_eq_true, beq_iff_eq] at this
  rcases this with (h0 | h0) | h0
  · exact Or.inl h0
  · exact Or.inr (Or.inl h0)
  · exact Or.inr (Or.inr h0)

theorem checkH2_sound (g : MDG) (cp : Coupling) (h : checkH2 g cp = true) : H2 g cp := by
  constructor
  · intro m hm
    have := allTo_sound h m hm
    simp only [Bool.and_eq_true, beq_iff_eq] at this
    exact this.1
  · intro m hm
    have := allTo_sound h m hm
    simp only [Bool.and_eq_true, beq_iff_eq] at this
    exact this.2

theorem checkNC_sound (g : MDG) (cp : Coupling) (h : checkNC g cp = true) : NeumannConsistent g cp := by
  intro f hf ht
  have := allTo_sound h f hf
  rw [isTarget_complete cp f ht] at this
  simpa using this

theorem checkClosed_sound (s : Subdomain) (h : checkClosed s = true) : ClosedBoundary s := by
  intro f hf hne
  have := allTo_sound h f hf
  simp only [Bool.or_eq_true, beq_iff_eq] at this
  rcases this with h0 | h0
  · exact absurd h0 hne
  · exact h0

/-- **C04 with every hypothesis a decidable input condition**: whenever the Boolean check that
    the driver evaluates on the matrices and vectors of a case succeeds, conservation holds for
    that case. -/
theorem checked_conservation (g : MDG) (h : checkAll g = true) :
    totalResidual g = totalAccRate g - totalSrc g := by
  unfold checkAll at h
  simp only [Bool.and_eq_true] at h
  obtain ⟨⟨hv, hc⟩, hcl⟩ := h
  unfold checkValid at hv
  rw [List.all_eq_true] at hv hc
  refine total_residual_eq_total_accumulation g ?_ ?_ ?_ ?_
  · intro cp hcp
    have := hv cp hcp
    simpa using this
  · intro cp hcp
    have := hc cp hcp
    simp only [Bool.and_eq_true] at this
    exact checkH2_sound g cp this.1
  · intro cp hcp
    have := hc cp hcp
    simp only [Bool.and_eq_true] at this
    exact checkNC_sound g cp this.2
  · intro i hi
    exact checkClosed_sound _ (allTo_sound hcl i hi)

/-! ### non-vacuity: a concrete fractured md-grid

Primary: 2 cells, 5 faces (f0, f2 external boundary; f1 interior; f3, f4 fracture faces, one on
each side of the fracture).  Secondary: the fracture, 1 cell, no faces.  One mortar grid with two
cells (one per side).  Non-zero interior flux, non-zero interface fluxes, non-zero accumulation. -/

def exD : Nat → Nat → Rat := fun c f =>
  match c, f with
  | 0, 0 => -1 | 0, 1 => 1 | 0, 3 => 1
  | 1, 1 => -1 | 1, 2 => 1 | 1, 4 => -1
  | _, _ => 0

def exPrim : Subdomain :=
  { nc := 2, nf := 5, D := exD
    accNow := fun c => if c = 0 then 3 else 5/2
    accPrev := fun c => if c = 0 then 1 else 2
    F := fun f => if f = 1 then 7/3 else 0
    src := fun _ => 0 }

def exSec : Subdomain :=
  { nc := 1, nf := 0, D := fun _ _ => 0
    accNow := fun _ => 1/4, accPrev := fun _ => 1/2, F := fun _ => 0, src := fun _ => 0 }

def exCp : Coupling :=
  { prim := 0, sec := 1, nm := 2
    Ppm := fun f m => if (f = 3 ∧ m = 0) ∨ (f = 4 ∧ m = 1) then 1 else 0
    Psm := fun c _ => if c = 0 then 1 else 0
    B := upwindNeu 2 exD (fun f => f != 1)
    lam := fun m => if m = 0 then 3/2 else -2 }

def exG : MDG :=
  { nsd := 2, sd := fun i => if i = 0 then exPrim else exSec, cps := [exCp], dt := 1/2 }

example : ValidIdx exG := by
  intro cp h
  have : cp = exCp := by simpa [exG] using h
  subst this
  decide

example : ∀ i, i < exG.nsd → H1 (exG.sd i) := by
  unfold H1; decide +kernel

example : ∀ i, i < exG.nsd → ClosedBoundary (exG.sd i) := by
  unfold ClosedBoundary; decide +kernel

example : H2 exG exCp := by
  unfold H2; decide +kernel

example : UpwindCoded exG exCp (fun f => f != 1) := by
  refine ⟨rfl, ?_⟩
  unfold Target; decide +kernel

/-- all hypotheses of the headline theorem hold simultaneously on this grid -/
example : totalResidual exG = totalAccRate exG - totalSrc exG := by
  have hv : ValidIdx exG := by
    intro cp h
    have : cp = exCp := by simpa [exG] using h
    subst this
    decide
  refine total_residual_eq_total_accumulation_upwind exG hv (fun _ f => f != 1) ?_ ?_ ?_ ?_
  · unfold H1; decide +kernel
  · intro cp h
    have : cp = exCp := by simpa [exG] using h
    subst this
    unfold H2; decide +kernel
  · intro cp h
    have : cp = exCp := by simpa [exG] using h
    subst this
    refine ⟨rfl, ?_⟩
    unfold Target; decide +kernel
  · unfold ClosedBoundary; decide +kernel

/-- the residuals themselves are not zero, their sum is the accumulation rate -/
example : residual exG 0 = #[47/6, -10/3] ∧ residual exG 1 = #[0] := by decide +kernel
example : totalResidual exG = 9/2 ∧ totalAccRate exG = 9/2 := by decide +kernel

/-- the hypotheses are needed: an AVERAGED secondary projection (rows instead of columns sum to
    one: entries 1/2) loses half of the interface flux -/
def exCpAvg : Coupling := { exCp with Psm := fun c _ => if c = 0 then 1/2 else 0 }
def exGAvg : MDG := { exG with cps := [exCpAvg] }
example : totalResidual exGAvg - totalAccRate exGAvg = -1/4 := by decide +kernel

/-- the same grid with the interface flux entering through the Tpfa `bound_flux` as coded -/
def exCpTpfa : Coupling := { exCp with B := tpfaBoundFlux 2 exD (fun f => f != 1) (fun f => f != 1) (fun _ => 0) }
def exGTpfa : MDG := { exG with cps := [exCpTpfa, exCp] }

example : TpfaCoded exGTpfa exCpTpfa (fun f => f != 1) (fun f => f != 1) (fun _ => 0) := by
  refine ⟨rfl, ?_⟩
  unfold Target; decide +kernel

/-- two interface fluxes on the same mortar grid (diffusive through Tpfa, advective through upwind) -/
example : totalResidual exGTpfa = totalAccRate exGTpfa := by decide +kernel

/-- finding C04/FouriersLawAd: with the differentiable-Tpfa matrix as shipped (no internal boundary
    filter) the sum of the residuals is off by minus the total interface flux, `-(3/2 - 2) = 1/2`;
    with the internal boundary filter it is conservative -/
def exCpAd (withInternal : Bool) : Coupling :=
  { exCp with B := adTpfaBound withInternal 2 exD (fun f => f == 0 || f == 2) (fun _ => false)
                     (fun f => f == 3 || f == 4) (fun _ => 1) }
example : totalResidual { exG with cps := [exCpAd false] } - totalAccRate exG = 1/2 := by decide +kernel
example : totalResidual { exG with cps := [exCpAd true] } - totalAccRate exG = 0 := by decide +kernel
example : AdTpfaCoded { exG with cps := [exCpAd true] } (exCpAd true) (fun f => f == 0 || f == 2)
    (fun _ => false) (fun f => f == 3 || f == 4) (fun _ => 1) := by
  refine ⟨rfl, ?_⟩
  unfold Target; decide +kernel

/-- the Boolean input condition holds on the example grid (and fails for the averaged projection) -/
example : checkAll exG = true ∧ checkAll exGTpfa = true ∧ checkAll exGAvg = false := by decide +kernel
example : checkH1 exPrim = true := by decide +kernel

/-- inter-cell cancellation on the example: the interior flux 7/3 through f1 does not appear -/
example : sumTo exPrim.nc (mulVec exPrim.nf exPrim.D exPrim.F) = 0 := by decide +kernel

/-- construction of (H2): a 2-to-1 averaged refinement of a 0-1 matching stays row-stochastic and
    its transpose has unit column sums -/
def exAvg0 : Nat → Nat → Rat := fun m f => if (m = 0 ∧ f = 3) ∨ (m = 1 ∧ f = 4) then 1 else 0
def exUpd : Nat → Nat → Rat := fun m' m => if m' / 2 = m then 1 else 0   -- 4 new mortar cells from 2
example : RowStochastic 2 5 exAvg0 := by unfold RowStochastic; decide +kernel
example : UpdatesOK 2 [(4, exUpd)] := by
  refine ⟨?_, trivial⟩
  unfold RowStochastic; decide +kernel
example : ∀ m, m < 4 → colSum 5 (setProjInt (applyUpdates 2 exAvg0 [(4, exUpd)]).2) m = 1 := by decide +kernel

end PorepyVerif.C04
