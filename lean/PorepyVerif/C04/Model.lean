/-
C04 — executable model of the discrete balance equations of the porepy flow / energy models on a
mixed-dimensional grid (core Lean only).

What is mirrored (branch for branch where the property depends on it):

* `BalanceEquation.balance_equation`  (models/abstract_equations.py)
      `dt_operator(accumulation, dt) + div @ surface_term - source`
  with `dt(op) = (op - op.previous_timestep()) / dt` (numerics/ad/time_derivatives.py) and
  `div = pp.ad.Divergence(subdomains)` = block diagonal of `sd.cell_faces.T`;
* the way an interface flux `λ` enters the higher-dimensional neighbour: as Neumann-type data on the
  fracture faces,  `… + B @ (mortar_to_primary_int @ λ)`  where `B` is `discr.bound_transport_neu()`
  for advective fluxes (`AdvectiveFlux.advective_flux`) and `discr.bound_flux()` for diffusive fluxes
  (`DarcysLaw.darcy_flux`, `FouriersLaw.fourier_flux`);
* the way it enters the lower-dimensional neighbour: as a source,
  `fluid_source / energy_source = mortar_to_secondary_int @ λ (+ external sources)`;
* `Upwind.discretize`'s Neumann matrix: `sgn_div = divergence.sum(axis=0)`,
  `bound_transport_neu = diag(sgn_div[neumann_ind])`  (numerics/fv/upwind.py).

Vectors are functions `Nat → Rat` used on `[0, n)`, matrices `Nat → Nat → Rat`; sums are `sumTo`.
Intermediate vectors are tabulated into arrays (`tabA`, data: computed once) and read back with `rd`;
`rd (tabA n f) i = f i` for `i < n`.
-/
namespace PorepyVerif.C04

/-- `Σ_{k<n} f k` -/
def sumTo : Nat → (Nat → Rat) → Rat
  | 0, _ => 0
  | n + 1, f => sumTo n f + f n

/-- sum over a list -/
def sumL {α : Type} : List α → (α → Rat) → Rat
  | [], _ => 0
  | a :: l, f => f a + sumL l f

/-- tabulate a vector of length `n` into an array (data: computed once, read in O(1)) -/
def tabA (n : Nat) (f : Nat → Rat) : Array Rat := ((List.range n).map f).toArray

/-- read an array as a vector (0 outside) -/
def rd (a : Array Rat) (i : Nat) : Rat := a.getD i 0

/-- sum of the entries of an array -/
def sumA (a : Array Rat) : Rat := sumTo a.size (rd a)

/-- matrix (with `n` columns) times vector -/
def mulVec (n : Nat) (M : Nat → Nat → Rat) (v : Nat → Rat) : Nat → Rat :=
  fun r => sumTo n (fun k => M r k * v k)

/-- column sum of a matrix with `nr` rows -/
def colSum (nr : Nat) (M : Nat → Nat → Rat) (c : Nat) : Rat := sumTo nr (fun r => M r c)

/-- One subdomain grid with the cell- and face-wise terms of one balance equation. -/
structure Subdomain where
  nc : Nat
  nf : Nat
  /-- `D c f`: `sd.divergence(dim=1)` = `cell_faces.T` (signed incidence) -/
  D : Nat → Nat → Rat
  /-- accumulation term (integrated over cells) at the current iterate / the previous time step -/
  accNow : Nat → Rat
  accPrev : Nat → Rat
  /-- face flux without the contributions of the interface fluxes -/
  F : Nat → Rat
  /-- external source (cells); the interface part of the source is added by the couplings -/
  src : Nat → Rat

/-- One interface flux: a mortar grid between `prim` (higher-dimensional) and `sec`
    (lower-dimensional) together with one flux field on it and the boundary discretisation matrix
    `B` of the primary through which it enters the face fluxes.  The energy balance has two of
    these per mortar grid (Fourier flux through `bound_flux`, enthalpy flux through
    `bound_transport_neu`). -/
structure Coupling where
  prim : Nat
  sec : Nat
  nm : Nat
  /-- `Ppm f m`: `mortar_to_primary_int` (faces of the primary × mortar cells) -/
  Ppm : Nat → Nat → Rat
  /-- `Psm c m`: `mortar_to_secondary_int` (cells of the secondary × mortar cells) -/
  Psm : Nat → Nat → Rat
  /-- `B f f'`: boundary-value-to-face-flux matrix of the primary's flux discretisation -/
  B : Nat → Nat → Rat
  lam : Nat → Rat

structure MDG where
  nsd : Nat
  sd : Nat → Subdomain
  cps : List Coupling
  dt : Rat

/-- `Upwind.discretize`: `sgn_div = sd.divergence(dim=1).sum(axis=0)`;
    `bc_discr_neu = coo_matrix((sgn_div[neumann_ind], (neumann_ind, neumann_ind)))`. -/
def upwindNeu (nc : Nat) (D : Nat → Nat → Rat) (neu : Nat → Bool) : Nat → Nat → Rat :=
  fun f f' => if f = f' ∧ neu f = true then colSum nc D f else 0

/-- diagonal matrix -/
def diagMat (d : Nat → Rat) : Nat → Nat → Rat := fun f f' => if f = f' then d f else 0

/-- `Tpfa.discretize` (numerics/fv/tpfa.py), boundary flux matrix as coded:
    `is_neu = bnd.is_neu | bnd.is_internal`; `t_b[is_dir] = -t[is_dir]`; `t_b[is_neu] = 1`;
    `bound_flux = coo((t_b * bndr_sgn, (bndr_ind, bndr_ind)))` where `bndr_ind` are all boundary faces
    (domain boundary, fracture and tip faces) and `bndr_sgn` is the sign of the single incident cell,
    i.e. the column sum of the divergence.  `neu` is the effective flag (`is_neu | is_internal`),
    `tdir` the transmissibility of the Dirichlet faces. -/
def tpfaBoundFlux (nc : Nat) (D : Nat → Nat → Rat) (bnd neu : Nat → Bool) (tdir : Nat → Rat) :
    Nat → Nat → Rat :=
  diagMat (fun f => if bnd f = true then (if neu f = true then 1 else -(tdir f)) * colSum nc D f else 0)

/-- `AdTpfaFlux.diffusive_flux` (models/constitutive_laws.py), the matrix that multiplies
    `boundary values + mortar_to_primary_int @ interface flux`:
      `bnd_sgn` = sign of the incident cell on domain-boundary and fracture faces, 0 elsewhere;
      `neu_bnd = (external_neu_filter + internal_boundary_filter) * bnd_sgn`;
      `dir_bnd = external_dir_filter * (-bnd_sgn * t_f)`;  `t_bnd = neu_bnd + dir_bnd`.
    `withInternal = false` is the code as shipped (`neu_bnd = external_neu_filter * bnd_sgn`, finding
    C04/FouriersLawAd: the interface flux never reaches the fracture faces); the property needs `true`. -/
def adTpfaBound (withInternal : Bool) (nc : Nat) (D : Nat → Nat → Rat)
    (extNeu extDir intb : Nat → Bool) (tf : Nat → Rat) : Nat → Nat → Rat :=
  diagMat (fun f =>
    let bsgn : Rat := if extNeu f = true ∨ extDir f = true ∨ intb f = true then colSum nc D f else 0
    ((if extNeu f = true then 1 else 0) + (if withInternal = true ∧ intb f = true then 1 else 0)) * bsgn
      + (if extDir f = true then 1 else 0) * (-bsgn * tf f))

/-- flux that the coupling adds on the faces of its primary (which has `nfp` faces):
    `B @ (mortar_to_primary_int @ λ)` -/
def Coupling.primFlux (cp : Coupling) (nfp : Nat) : Array Rat :=
  let y := tabA nfp (mulVec cp.nm cp.Ppm cp.lam)
  tabA nfp (mulVec nfp cp.B (rd y))

/-- source that the coupling adds in the cells of its secondary (which has `ncs` cells):
    `mortar_to_secondary_int @ λ` -/
def Coupling.secSource (cp : Coupling) (ncs : Nat) : Array Rat :=
  tabA ncs (mulVec cp.nm cp.Psm cp.lam)

/-- total face flux of subdomain `i`: own flux + Neumann-type contributions of all interfaces to
    lower-dimensional neighbours -/
def faceFlux (g : MDG) (i : Nat) : Array Rat :=
  let s := g.sd i
  let contribs := (g.cps.filter (fun cp => cp.prim == i)).map (fun cp => cp.primFlux s.nf)
  tabA s.nf (fun f => s.F f + sumL contribs (fun y => rd y f))

/-- interface part of the source of subdomain `i` (fluxes from higher-dimensional neighbours) -/
def intfSource (g : MDG) (i : Nat) : Array Rat :=
  let s := g.sd i
  let contribs := (g.cps.filter (fun cp => cp.sec == i)).map (fun cp => cp.secSource s.nc)
  tabA s.nc (fun c => sumL contribs (fun y => rd y c))

/-- `balance_equation`: `dt(accumulation) + div @ flux - source` on subdomain `i`, cell-wise -/
def residual (g : MDG) (i : Nat) : Array Rat :=
  let s := g.sd i
  let ff := faceFlux g i
  let so := intfSource g i
  let dv := tabA s.nc (mulVec s.nf s.D (rd ff))
  tabA s.nc (fun c => (s.accNow c - s.accPrev c) / g.dt + rd dv c - (rd so c + s.src c))

/-- `Σ_subdomains 1ᵀ r` -/
def totalResidual (g : MDG) : Rat :=
  sumTo g.nsd (fun i => sumA (residual g i))

/-- `Σ_subdomains 1ᵀ Δacc / dt` -/
def totalAccRate (g : MDG) : Rat :=
  sumTo g.nsd (fun i => sumTo (g.sd i).nc (fun c => ((g.sd i).accNow c - (g.sd i).accPrev c) / g.dt))

/-- `Σ_subdomains 1ᵀ src` (external sources) -/
def totalSrc (g : MDG) : Rat :=
  sumTo g.nsd (fun i => sumTo (g.sd i).nc (g.sd i).src)

/-- net flux of the own face fluxes out of the subdomains: `Σ_i Σ_f (1ᵀ D_i)_f F_i f`
    (interior faces have column sum 0, so only boundary faces contribute) -/
def boundaryOutflow (g : MDG) : Rat :=
  sumTo g.nsd (fun i => sumTo (g.sd i).nf (fun f => colSum (g.sd i).nc (g.sd i).D f * (g.sd i).F f))

/-- what one coupling adds to the sum of all residuals: what its flux takes out of the cells of the
    primary, `1ᵀ D (B P_pm λ)`, minus what enters the cells of the secondary, `1ᵀ P_sm λ` -/
def netCoupling (g : MDG) (cp : Coupling) : Rat :=
  let s := g.sd cp.prim
  let pf := cp.primFlux s.nf
  sumTo s.nf (fun f => colSum s.nc s.D f * rd pf f) - sumA (cp.secSource (g.sd cp.sec).nc)

/-- `(1ᵀ D B)_f'`: what a unit of Neumann data on face `f'` of subdomain `s` contributes to the sum
    of the divergence over all cells of `s` -/
def gain (s : Subdomain) (B : Nat → Nat → Rat) (f' : Nat) : Rat :=
  sumTo s.nf (fun f => colSum s.nc s.D f * B f f')

/-! ### the hypotheses of the conservation theorem (Prop versions) -/

/-- all couplings refer to existing subdomains -/
def ValidIdx (g : MDG) : Prop := ∀ cp, cp ∈ g.cps → cp.prim < g.nsd ∧ cp.sec < g.nsd

/-- (H1) every face has two incident cells with opposite signs (column sum 0: interior face) or one
    (column sum ±1: boundary face) -/
def H1 (s : Subdomain) : Prop :=
  ∀ f, f < s.nf → colSum s.nc s.D f = 0 ∨ colSum s.nc s.D f = 1 ∨ colSum s.nc s.D f = -1

/-- (H2) both INTEGRATED projections distribute the flux of every mortar cell completely -/
def H2 (g : MDG) (cp : Coupling) : Prop :=
  (∀ m, m < cp.nm → colSum (g.sd cp.prim).nf cp.Ppm m = 1) ∧
  (∀ m, m < cp.nm → colSum (g.sd cp.sec).nc cp.Psm m = 1)

/-- face `f` of the primary receives flux from some mortar cell -/
def Target (cp : Coupling) (f : Nat) : Prop := ∃ m, m < cp.nm ∧ cp.Ppm f m ≠ 0

/-- the flux discretisation of the primary puts Neumann data on a face that receives interface
    flux completely (and with the outward sign) into the neighbouring cell: `(1ᵀ D B)_f = 1` -/
def NeumannConsistent (g : MDG) (cp : Coupling) : Prop :=
  ∀ f, f < (g.sd cp.prim).nf → Target cp f → gain (g.sd cp.prim) cp.B f = 1

/-- (H4) closed boundary: the own flux vanishes on every boundary face (external boundary, fracture
    faces, fracture tips) -/
def ClosedBoundary (s : Subdomain) : Prop :=
  ∀ f, f < s.nf → colSum s.nc s.D f ≠ 0 → s.F f = 0

def NoSources (s : Subdomain) : Prop := ∀ c, c < s.nc → s.src c = 0

/-- the coupling enters through the upwind Neumann matrix as coded, and its projection hits only
    boundary faces of the primary that carry a Neumann condition (fracture faces) -/
def UpwindCoded (g : MDG) (cp : Coupling) (neu : Nat → Bool) : Prop :=
  cp.B = upwindNeu (g.sd cp.prim).nc (g.sd cp.prim).D neu ∧
  ∀ f, f < (g.sd cp.prim).nf → Target cp f →
    colSum (g.sd cp.prim).nc (g.sd cp.prim).D f ≠ 0 ∧ neu f = true

/-- the coupling enters through the Tpfa `bound_flux` as coded, and its projection hits only boundary
    faces of the primary that are (effectively) Neumann faces -/
def TpfaCoded (g : MDG) (cp : Coupling) (bnd neu : Nat → Bool) (tdir : Nat → Rat) : Prop :=
  cp.B = tpfaBoundFlux (g.sd cp.prim).nc (g.sd cp.prim).D bnd neu tdir ∧
  ∀ f, f < (g.sd cp.prim).nf → Target cp f →
    colSum (g.sd cp.prim).nc (g.sd cp.prim).D f ≠ 0 ∧ bnd f = true ∧ neu f = true

/-- the coupling enters through the (repaired) differentiable-Tpfa boundary matrix, and its
    projection hits only internal boundary (fracture) faces -/
def AdTpfaCoded (g : MDG) (cp : Coupling) (extNeu extDir intb : Nat → Bool) (tf : Nat → Rat) : Prop :=
  cp.B = adTpfaBound true (g.sd cp.prim).nc (g.sd cp.prim).D extNeu extDir intb tf ∧
  ∀ f, f < (g.sd cp.prim).nf → Target cp f →
    colSum (g.sd cp.prim).nc (g.sd cp.prim).D f ≠ 0 ∧ intb f = true ∧ extNeu f = false ∧ extDir f = false

/-- the boundary matrix of the coupling is one of the three coded ones -/
def CodedBoundary (g : MDG) (cp : Coupling) : Prop :=
  (∃ neu, UpwindCoded g cp neu) ∨ (∃ bnd neu tdir, TpfaCoded g cp bnd neu tdir) ∨
  (∃ extNeu extDir intb tf, AdTpfaCoded g cp extNeu extDir intb tf)

/-! ### decidable versions of the hypotheses (evaluated by the driver on the real matrices) -/

def allTo (n : Nat) (p : Nat → Bool) : Bool := (List.range n).all p

/-- H1: every column of `D` sums to 0 (interior face), 1 or -1 (boundary face) -/
def checkH1 (s : Subdomain) : Bool :=
  allTo s.nf (fun f => let x := colSum s.nc s.D f; x == 0 || x == 1 || x == -1)

def absR (x : Rat) : Rat := if x < 0 then -x else x

def maxTo (n : Nat) (f : Nat → Rat) : Rat := (List.range n).foldl (fun m k => if m < f k then f k else m) 0

/-- H2: largest deviation from 1 of the column sums of both integrated projections -/
def h2Dev (g : MDG) (cp : Coupling) : Rat :=
  maxTo cp.nm (fun m =>
    let a := absR (colSum (g.sd cp.prim).nf cp.Ppm m - 1)
    let b := absR (colSum (g.sd cp.sec).nc cp.Psm m - 1)
    if a < b then b else a)

/-- is face `f` of the primary a target of the projection? -/
def isTarget (cp : Coupling) (f : Nat) : Bool := (List.range cp.nm).any (fun m => cp.Ppm f m != 0)

/-- targets of `mortar_to_primary_int` are boundary faces of the primary (fracture faces) -/
def checkTargets (g : MDG) (cp : Coupling) : Bool :=
  let s := g.sd cp.prim
  allTo s.nf (fun f => !isTarget cp f || colSum s.nc s.D f != 0)

/-- largest deviation from 1 of `(1ᵀ D B)` on the target faces (`gain` with tabulated column sums) -/
def gainDev (g : MDG) (cp : Coupling) : Rat :=
  let s := g.sd cp.prim
  let cs := tabA s.nf (colSum s.nc s.D)
  maxTo s.nf (fun f => if isTarget cp f then absR (sumTo s.nf (fun k => rd cs k * cp.B k f) - 1) else 0)

/-! ### construction of the integrated projections (`MortarGrid._set_projections`, `update_mortar`) -/

def transposeM (M : Nat → Nat → Rat) : Nat → Nat → Rat := fun r c => M c r

/-- row sum of a matrix with `n` columns -/
def rowSum (n : Nat) (M : Nat → Nat → Rat) (r : Nat) : Rat := sumTo n (fun c => M r c)

/-- matrix product, inner dimension `k` -/
def matMul (k : Nat) (A B : Nat → Nat → Rat) : Nat → Nat → Rat :=
  fun r c => sumTo k (fun j => A r j * B j c)

/-- every one of the first `nr` rows sums to one (what `scaling="averaged"` / the initial 0-1
    matching establishes for `_primary_to_mortar_avg` and `_secondary_to_mortar_avg`) -/
def RowStochastic (nr nc : Nat) (M : Nat → Nat → Rat) : Prop := ∀ r, r < nr → rowSum nc M r = 1

/-- `_set_projections`: `_mortar_to_primary_int = _primary_to_mortar_avg.T` (and likewise for the
    secondary side) -/
def setProjInt (avg : Nat → Nat → Rat) : Nat → Nat → Rat := transposeM avg

/-- `update_mortar` / `update_secondary` / `update_primary` applied repeatedly: each update
    `(n', U)` replaces the averaged map by `U * avg` (`U` has `n'` rows, one per new mortar cell) -/
def applyUpdates (n : Nat) (avg : Nat → Nat → Rat) : List (Nat × (Nat → Nat → Rat)) → Nat × (Nat → Nat → Rat)
  | [] => (n, avg)
  | (n', U) :: rest => applyUpdates n' (matMul n U avg) rest

/-- every update matrix is an averaged matching (unit row sums over the cells it replaces) -/
def UpdatesOK (n : Nat) : List (Nat × (Nat → Nat → Rat)) → Prop
  | [] => True
  | (n', U) :: rest => RowStochastic n' n U ∧ UpdatesOK n' rest

/-! ### Boolean (exact) versions of all hypotheses: decidable input conditions, evaluated by the
    driver on the matrices and vectors of every case -/

def checkValid (g : MDG) : Bool := g.cps.all (fun cp => decide (cp.prim < g.nsd) && decide (cp.sec < g.nsd))

def checkH2 (g : MDG) (cp : Coupling) : Bool :=
  allTo cp.nm (fun m => colSum (g.sd cp.prim).nf cp.Ppm m == 1 && colSum (g.sd cp.sec).nc cp.Psm m == 1)

def checkNC (g : MDG) (cp : Coupling) : Bool :=
  allTo (g.sd cp.prim).nf (fun f => !isTarget cp f || gain (g.sd cp.prim) cp.B f == 1)

def checkClosed (s : Subdomain) : Bool :=
  allTo s.nf (fun f => colSum s.nc s.D f == 0 || s.F f == 0)

/-- all hypotheses of the headline theorem, exactly -/
def checkAll (g : MDG) : Bool :=
  checkValid g && g.cps.all (fun cp => checkH2 g cp && checkNC g cp) &&
    allTo g.nsd (fun i => checkClosed (g.sd i))

end PorepyVerif.C04
