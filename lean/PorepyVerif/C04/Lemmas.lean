/-
C04 — helper lemmas about finite sums, tabulation and the pieces of the residual
(property theorems are in Props.lean).
-/
import PorepyVerif.C04.Model

namespace PorepyVerif.C04

/-! ### `sumTo` -/

theorem sumTo_congr {n : Nat} {f g : Nat → Rat} (h : ∀ i, i < n → f i = g i) :
    sumTo n f = sumTo n g := by
  induction n with
  | zero => rfl
  | succ n ih =>
    simp only [sumTo]
    rw [ih (fun i hi => h i (Nat.lt_succ_of_lt hi)), h n (Nat.lt_succ_self n)]

theorem sumTo_zero (n : Nat) : sumTo n (fun _ => 0) = 0 := by
  induction n with
  | zero => rfl
  | succ n ih => simp only [sumTo, ih]; grind

theorem sumTo_add (n : Nat) (f g : Nat → Rat) :
    sumTo n (fun i => f i + g i) = sumTo n f + sumTo n g := by
  induction n with
  | zero => simp only [sumTo]; grind
  | succ n ih => simp only [sumTo, ih]; grind

theorem sumTo_sub (n : Nat) (f g : Nat → Rat) :
    sumTo n (fun i => f i - g i) = sumTo n f - sumTo n g := by
  induction n with
  | zero => simp only [sumTo]; grind
  | succ n ih => simp only [sumTo, ih]; grind

theorem sumTo_mul_left (n : Nat) (a : Rat) (f : Nat → Rat) :
    sumTo n (fun i => a * f i) = a * sumTo n f := by
  induction n with
  | zero => simp only [sumTo]; grind
  | succ n ih => simp only [sumTo, ih]; grind

theorem sumTo_mul_right (n : Nat) (a : Rat) (f : Nat → Rat) :
    sumTo n (fun i => f i * a) = sumTo n f * a := by
  induction n with
  | zero => simp only [sumTo]; grind
  | succ n ih => simp only [sumTo, ih]; grind

/-- Fubini for finite double sums -/
theorem sumTo_comm (n m : Nat) (f : Nat → Nat → Rat) :
    sumTo n (fun i => sumTo m (fun j => f i j)) = sumTo m (fun j => sumTo n (fun i => f i j)) := by
  induction n with
  | zero => simp only [sumTo]; exact (sumTo_zero m).symm
  | succ n ih =>
    simp only [sumTo, ih]
    exact (sumTo_add m _ _).symm

/-- `Σ_{i<n} [p = i] x i = [p < n] x p` -/
theorem sumTo_indicator (n p : Nat) (x : Nat → Rat) :
    sumTo n (fun i => if p = i then x i else 0) = if p < n then x p else 0 := by
  induction n with
  | zero => simp [sumTo]
  | succ n ih =>
    simp only [sumTo, ih]
    by_cases h1 : p < n
    · have h2 : ¬ p = n := Nat.ne_of_lt h1
      have h3 : p < n + 1 := Nat.lt_succ_of_lt h1
      simp only [h1, h2, h3, if_true, if_false]; grind
    · by_cases h2 : p = n
      · subst h2
        simp only [Nat.lt_irrefl, Nat.lt_succ_self, if_true, if_false]; grind
      · have h3 : ¬ p < n + 1 := by omega
        simp only [h1, h2, h3, if_false]; grind

/-! ### `sumL` -/

theorem sumL_add {α : Type} (l : List α) (f g : α → Rat) :
    sumL l (fun a => f a + g a) = sumL l f + sumL l g := by
  induction l with
  | nil => simp only [sumL]; grind
  | cons a l ih => simp only [sumL, ih]; grind

theorem sumL_sub {α : Type} (l : List α) (f g : α → Rat) :
    sumL l (fun a => f a - g a) = sumL l f - sumL l g := by
  induction l with
  | nil => simp only [sumL]; grind
  | cons a l ih => simp only [sumL, ih]; grind

theorem sumL_zero {α : Type} (l : List α) : sumL l (fun _ => (0 : Rat)) = 0 := by
  induction l with
  | nil => rfl
  | cons a l ih => simp only [sumL, ih]; grind

theorem sumL_congr {α : Type} {l : List α} {f g : α → Rat} (h : ∀ a, a ∈ l → f a = g a) :
    sumL l f = sumL l g := by
  induction l with
  | nil => rfl
  | cons a l ih =>
    simp only [sumL]
    rw [h a List.mem_cons_self, ih (fun b hb => h b (List.mem_cons_of_mem _ hb))]

theorem sumTo_sumL {α : Type} (n : Nat) (l : List α) (f : α → Nat → Rat) :
    sumTo n (fun k => sumL l (fun a => f a k)) = sumL l (fun a => sumTo n (f a)) := by
  induction l with
  | nil => simp only [sumL]; exact sumTo_zero n
  | cons a l ih =>
    simp only [sumL]
    rw [sumTo_add, ih]

theorem sumL_mul_left {α : Type} (l : List α) (c : Rat) (f : α → Rat) :
    sumL l (fun a => c * f a) = c * sumL l f := by
  induction l with
  | nil => simp only [sumL]; grind
  | cons a l ih => simp only [sumL, ih]; grind

/-- sum over the mapped, filtered list = indicator sum over the whole list -/
theorem sumL_filter_map {α β : Type} (l : List α) (p : α → Bool) (h : α → β) (φ : β → Rat) :
    sumL ((l.filter p).map h) φ = sumL l (fun a => if p a = true then φ (h a) else 0) := by
  induction l with
  | nil => rfl
  | cons a l ih =>
    by_cases hp : p a = true
    · simp only [List.filter_cons, hp, if_true, List.map_cons, sumL, ih]
    · simp only [List.filter_cons, hp, sumL]
      simp only [Bool.false_eq_true, if_false, ih]
      grind

/-! ### tabulation -/

theorem tabA_size (n : Nat) (f : Nat → Rat) : (tabA n f).size = n := by
  simp [tabA]

theorem rd_tabA (n : Nat) (f : Nat → Rat) (i : Nat) (h : i < n) : rd (tabA n f) i = f i := by
  simp [rd, tabA, Array.getD, h]

theorem sumA_tabA (n : Nat) (f : Nat → Rat) : sumA (tabA n f) = sumTo n f := by
  unfold sumA
  rw [tabA_size]
  exact sumTo_congr (fun i hi => rd_tabA n f i hi)

theorem sumTo_rd_tabA (n : Nat) (f : Nat → Rat) : sumTo n (rd (tabA n f)) = sumTo n f :=
  sumTo_congr (fun i hi => rd_tabA n f i hi)

/-! ### matrices -/

/-- `1ᵀ (M v) = (1ᵀ M) v` -/
theorem sum_mulVec (nr n : Nat) (M : Nat → Nat → Rat) (v : Nat → Rat) :
    sumTo nr (mulVec n M v) = sumTo n (fun k => colSum nr M k * v k) := by
  unfold mulVec colSum
  rw [sumTo_comm]
  exact sumTo_congr (fun k _ => sumTo_mul_right nr (v k) (fun r => M r k))

theorem mulVec_congr (n : Nat) (M : Nat → Nat → Rat) {v w : Nat → Rat}
    (h : ∀ k, k < n → v k = w k) (r : Nat) : mulVec n M v r = mulVec n M w r := by
  unfold mulVec
  exact sumTo_congr (fun k hk => by rw [h k hk])

/-- `(1ᵀ D) (B y) = Σ_f' (1ᵀ D B)_f' y_f'` -/
theorem colSum_mulVec (s : Subdomain) (B : Nat → Nat → Rat) (y : Nat → Rat) :
    sumTo s.nf (fun f => colSum s.nc s.D f * mulVec s.nf B y f)
      = sumTo s.nf (fun f' => gain s B f' * y f') := by
  unfold mulVec gain
  have h1 : ∀ f, colSum s.nc s.D f * sumTo s.nf (fun k => B f k * y k)
      = sumTo s.nf (fun k => colSum s.nc s.D f * B f k * y k) := by
    intro f
    rw [← sumTo_mul_left]
    exact sumTo_congr (fun k _ => by grind)
  rw [sumTo_congr (fun f _ => h1 f), sumTo_comm]
  exact sumTo_congr (fun k _ => sumTo_mul_right s.nf (y k) (fun f => colSum s.nc s.D f * B f k))

/-- `(1ᵀ D B)_f` for a diagonal `B` -/
theorem gain_diag (s : Subdomain) (d : Nat → Rat) (f : Nat) (hf : f < s.nf) :
    gain s (diagMat d) f = colSum s.nc s.D f * d f := by
  unfold gain diagMat
  have hrew : ∀ k, colSum s.nc s.D k * (if k = f then d k else 0)
      = (if f = k then colSum s.nc s.D k * d k else 0) := by
    intro k
    by_cases hk : f = k
    · subst hk; simp
    · have : ¬ k = f := fun e => hk e.symm
      simp only [this, hk, if_false]; grind
  rw [sumTo_congr (fun k _ => hrew k), sumTo_indicator]
  simp only [hf, if_true]

theorem upwindNeu_eq_diag (nc : Nat) (D : Nat → Nat → Rat) (neu : Nat → Bool) :
    upwindNeu nc D neu = diagMat (fun f => if neu f = true then colSum nc D f else 0) := by
  funext f f'
  unfold upwindNeu diagMat
  by_cases h1 : f = f' <;> by_cases h2 : neu f = true <;> simp [h1, h2]

/-! ### pieces of the residual -/

theorem sum_div (n : Nat) (f : Nat → Rat) (d : Rat) :
    sumTo n (fun c => f c / d) = sumTo n f / d := by
  have : ∀ c, f c / d = f c * d⁻¹ := fun c => Rat.div_def (f c) d
  rw [sumTo_congr (fun c _ => this c), sumTo_mul_right, Rat.div_def]

/-- what the coupling contributes to `1ᵀ D (face flux)` of its primary -/
theorem primFlux_total (s : Subdomain) (cp : Coupling) :
    sumTo s.nf (fun f => colSum s.nc s.D f * rd (cp.primFlux s.nf) f)
      = sumTo s.nf (fun f' => gain s cp.B f' * mulVec cp.nm cp.Ppm cp.lam f') := by
  unfold Coupling.primFlux
  have h1 : ∀ f, f < s.nf →
      colSum s.nc s.D f * rd (tabA s.nf (mulVec s.nf cp.B (rd (tabA s.nf (mulVec cp.nm cp.Ppm cp.lam))))) f
        = colSum s.nc s.D f * mulVec s.nf cp.B (mulVec cp.nm cp.Ppm cp.lam) f := by
    intro f hf
    rw [rd_tabA _ _ _ hf, mulVec_congr s.nf cp.B (fun k hk => rd_tabA _ _ k hk)]
  rw [sumTo_congr h1]
  exact colSum_mulVec s cp.B _

theorem secSource_total (n : Nat) (cp : Coupling) :
    sumA (cp.secSource n) = sumTo n (mulVec cp.nm cp.Psm cp.lam) := by
  unfold Coupling.secSource
  exact sumA_tabA n _

theorem secSource_total' (n : Nat) (cp : Coupling) :
    sumTo n (rd (cp.secSource n)) = sumTo n (mulVec cp.nm cp.Psm cp.lam) := by
  unfold Coupling.secSource
  exact sumTo_rd_tabA n _

/-- `netCoupling` in terms of the gain `(1ᵀ D B)` -/
theorem netCoupling_eq (g : MDG) (cp : Coupling) :
    netCoupling g cp
      = sumTo (g.sd cp.prim).nf (fun f' => gain (g.sd cp.prim) cp.B f' * mulVec cp.nm cp.Ppm cp.lam f')
        - sumTo (g.sd cp.sec).nc (mulVec cp.nm cp.Psm cp.lam) := by
  unfold netCoupling
  show sumTo (g.sd cp.prim).nf (fun f => colSum (g.sd cp.prim).nc (g.sd cp.prim).D f *
      rd (cp.primFlux (g.sd cp.prim).nf) f) - sumA (cp.secSource (g.sd cp.sec).nc) = _
  rw [primFlux_total, secSource_total]

/-- `1ᵀ (D · faceFlux)` of subdomain `i` -/
theorem div_total (g : MDG) (i : Nat) :
    sumTo (g.sd i).nc (mulVec (g.sd i).nf (g.sd i).D (rd (faceFlux g i)))
      = sumTo (g.sd i).nf (fun f => colSum (g.sd i).nc (g.sd i).D f * (g.sd i).F f)
        + sumL g.cps (fun cp => if cp.prim = i then
            sumTo (g.sd i).nf (fun f' => gain (g.sd i) cp.B f' * mulVec cp.nm cp.Ppm cp.lam f') else 0) := by
  rw [sum_mulVec]
  unfold faceFlux
  have h1 : ∀ f, f < (g.sd i).nf →
      colSum (g.sd i).nc (g.sd i).D f *
        rd (tabA (g.sd i).nf (fun f => (g.sd i).F f +
          sumL ((g.cps.filter (fun cp => cp.prim == i)).map (fun cp => cp.primFlux (g.sd i).nf))
            (fun y => rd y f))) f
      = colSum (g.sd i).nc (g.sd i).D f * (g.sd i).F f
        + sumL g.cps (fun cp => if cp.prim = i then
            colSum (g.sd i).nc (g.sd i).D f * rd (cp.primFlux (g.sd i).nf) f else 0) := by
    intro f hf
    rw [rd_tabA _ _ _ hf, sumL_filter_map]
    have : ∀ cp : Coupling, (if (cp.prim == i) = true then rd (cp.primFlux (g.sd i).nf) f else 0)
        = (if cp.prim = i then rd (cp.primFlux (g.sd i).nf) f else 0) := by
      intro cp; simp
    rw [sumL_congr (fun cp _ => this cp)]
    have h2 : ∀ cp : Coupling, (if cp.prim = i then
          colSum (g.sd i).nc (g.sd i).D f * rd (cp.primFlux (g.sd i).nf) f else 0)
        = colSum (g.sd i).nc (g.sd i).D f * (if cp.prim = i then rd (cp.primFlux (g.sd i).nf) f else 0) := by
      intro cp; split <;> grind
    rw [sumL_congr (fun cp _ => h2 cp), sumL_mul_left]
    grind
  rw [sumTo_congr h1, sumTo_add, sumTo_sumL]
  congr 1
  apply sumL_congr
  intro cp _
  by_cases h : cp.prim = i
  · simp only [h, if_true]
    exact primFlux_total (g.sd i) cp
  · simp only [h, if_false]
    exact sumTo_zero _

/-- `1ᵀ (interface source)` of subdomain `i` -/
theorem intfSource_total (g : MDG) (i : Nat) :
    sumTo (g.sd i).nc (rd (intfSource g i))
      = sumL g.cps (fun cp => if cp.sec = i then
          sumTo (g.sd i).nc (mulVec cp.nm cp.Psm cp.lam) else 0) := by
  unfold intfSource
  rw [sumTo_rd_tabA]
  have h1 : ∀ c, sumL ((g.cps.filter (fun cp => cp.sec == i)).map (fun cp => cp.secSource (g.sd i).nc))
        (fun y => rd y c)
      = sumL g.cps (fun cp => if cp.sec = i then rd (cp.secSource (g.sd i).nc) c else 0) := by
    intro c
    rw [sumL_filter_map]
    apply sumL_congr
    intro cp _
    simp
  rw [sumTo_congr (fun c _ => h1 c), sumTo_sumL]
  apply sumL_congr
  intro cp _
  by_cases h : cp.sec = i
  · simp only [h, if_true]
    exact secSource_total' _ cp
  · simp only [h, if_false]
    exact sumTo_zero _

/-- `1ᵀ r_i` -/
theorem residual_total (g : MDG) (i : Nat) :
    sumA (residual g i)
      = sumTo (g.sd i).nc (fun c => ((g.sd i).accNow c - (g.sd i).accPrev c) / g.dt)
        + (sumTo (g.sd i).nf (fun f => colSum (g.sd i).nc (g.sd i).D f * (g.sd i).F f)
          + sumL g.cps (fun cp => if cp.prim = i then
              sumTo (g.sd i).nf (fun f' => gain (g.sd i) cp.B f' * mulVec cp.nm cp.Ppm cp.lam f') else 0))
        - (sumL g.cps (fun cp => if cp.sec = i then
              sumTo (g.sd i).nc (mulVec cp.nm cp.Psm cp.lam) else 0)
          + sumTo (g.sd i).nc (g.sd i).src) := by
  unfold residual
  rw [sumA_tabA, sumTo_sub, sumTo_add, sumTo_add, sumTo_rd_tabA, div_total, intfSource_total]

/-- every entry of the residual array is `balance_equation` evaluated in that cell -/
theorem residual_entry (g : MDG) (i c : Nat) (hc : c < (g.sd i).nc) :
    rd (residual g i) c
      = ((g.sd i).accNow c - (g.sd i).accPrev c) / g.dt
        + mulVec (g.sd i).nf (g.sd i).D (rd (faceFlux g i)) c
        - (rd (intfSource g i) c + (g.sd i).src c) := by
  unfold residual
  rw [rd_tabA _ _ _ hc, rd_tabA _ _ _ hc]

theorem residual_size (g : MDG) (i : Nat) : (residual g i).size = (g.sd i).nc := by
  unfold residual
  exact tabA_size _ _

/-- summing an indicator sum over the couplings over all subdomains picks every coupling once -/
theorem sum_over_subdomains (n : Nat) (l : List Coupling) (sel : Coupling → Nat)
    (x : Nat → Coupling → Rat) (h : ∀ cp, cp ∈ l → sel cp < n) :
    sumTo n (fun i => sumL l (fun cp => if sel cp = i then x i cp else 0))
      = sumL l (fun cp => x (sel cp) cp) := by
  rw [sumTo_sumL]
  apply sumL_congr
  intro cp hcp
  rw [sumTo_indicator n (sel cp) (fun i => x i cp)]
  simp only [h cp hcp, if_true]

/-! ### soundness of the Boolean checks -/

theorem allTo_sound {n : Nat} {p : Nat → Bool} (h : allTo n p = true) : ∀ i, i < n → p i = true := by
  intro i hi
  unfold allTo at h
  rw [List.all_eq_true] at h
  exact h i (List.mem_range.mpr hi)

theorem isTarget_complete (cp : Coupling) (f : Nat) (h : Target cp f) : isTarget cp f = true := by
  obtain ⟨m, hm, hne⟩ := h
  unfold isTarget
  rw [List.any_eq_true]
  exact ⟨m, List.mem_range.mpr hm, by simpa using hne⟩

end PorepyVerif.C04
