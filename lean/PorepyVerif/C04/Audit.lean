import PorepyVerif.C04.Props
#print axioms PorepyVerif.C04.total_residual_balance
#print axioms PorepyVerif.C04.coupling_cancels
#print axioms PorepyVerif.C04.total_residual_eq_total_accumulation
#print axioms PorepyVerif.C04.upwind_neumann_consistent
#print axioms PorepyVerif.C04.total_residual_eq_total_accumulation_upwind
#print axioms PorepyVerif.C04.closed_no_source_conservation
#print axioms PorepyVerif.C04.converged_step_conserves
#print axioms PorepyVerif.C04.tpfa_neumann_consistent
#print axioms PorepyVerif.C04.adtpfa_neumann_consistent
#print axioms PorepyVerif.C04.adtpfa_shipped_gain_zero
#print axioms PorepyVerif.C04.total_residual_eq_total_accumulation_coded
