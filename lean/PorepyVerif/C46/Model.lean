/-
C46 — executable model of `porepy.utils.array_operations.SparseNdArray` (core Lean only).

Storage is a *list* of (coordinate, value) pairs in storage order — exactly the pair of
parallel arrays `_coords` / `_values` of the implementation — so that bugs that depend on the
storage order (finding F15) are expressible.  Values are rationals; a `value_dim = k` array is
`k` independent rows over the same coordinates (the driver keeps `k` copies).
-/
namespace PorepyVerif.C46

abbrev Coord := List Int
abbrev Store := List (Coord × Rat)

/-- Lexicographic order on columns, as used by `np.unique(..., axis=1)`. -/
def lexLe : Coord → Coord → Bool
  | [], _ => true
  | _ :: _, [] => false
  | a :: as, b :: bs => if a < b then true else if b < a then false else lexLe as bs

/-- Remove duplicates (keeps one copy of each element; on a sorted list the result is sorted). -/
def dedup : List Coord → List Coord
  | [] => []
  | c :: l => if c ∈ l then dedup l else c :: dedup l

/-- insertion sort by `lexLe` (structural recursion, so that concrete histories reduce by `decide`) -/
def insertSorted (c : Coord) : List Coord → List Coord
  | [] => [c]
  | a :: l => if lexLe c a then c :: a :: l else a :: insertSorted c l

def isort : List Coord → List Coord
  | [] => []
  | c :: l => insertSorted c (isort l)

/-- `np.unique(coord_array, axis=1)`: sorted, distinct columns. -/
def uniqueCoords (keys : List Coord) : List Coord := dedup (isort keys)

/-- values of the batch given for coordinate `c`, in batch order -/
def vals (c : Coord) (batch : List (Coord × Rat)) : List Rat :=
  (batch.filter (fun p => p.1 = c)).map (·.2)

/-- consolidated value of a unique coordinate: `np.bincount` sum (additive) or last occurrence -/
def combine (additive : Bool) (batch : List (Coord × Rat)) (u : Coord) : Rat :=
  if additive then (vals u batch).foldl (· + ·) 0 else (vals u batch).getLast?.getD 0

/-- first-match lookup of a coordinate in the storage -/
def get1 : Store → Coord → Option Rat
  | [], _ => none
  | p :: s, c => if p.1 = c then some p.2 else get1 s c

/-- write the consolidated value of one unique coordinate: update in place if stored, else append -/
def upsert (additive : Bool) : Store → Coord → Rat → Store
  | [], u, v => [(u, v)]
  | p :: s, u, v =>
    if p.1 = u then (p.1, if additive then p.2 + v else v) :: s
    else p :: upsert additive s u v

/-- `SparseNdArray.add`: new store and the returned index vector
    (`unique_2_all[~is_mem]`: first batch position of every coordinate that was new). -/
def add (s : Store) (batch : List (Coord × Rat)) (additive : Bool) : Store × List Nat :=
  let keys := batch.map (·.1)
  let us := uniqueCoords keys
  let s' := us.foldl (fun acc u => upsert additive acc u (combine additive batch u)) s
  let fresh := us.filter (fun u => (get1 s u).isNone)
  (s', fresh.map (fun u => keys.idxOf u))

/-- `SparseNdArray.get`: `none` models `ValueError("Inquiry on unassigned coordinate.")`. -/
def get (s : Store) (cs : List Coord) : Option (List Rat) := cs.mapM (get1 s)

/-! ### Specification: a plain dictionary -/

abbrev Dict := Coord → Option Rat

def Dict.ins (additive : Bool) (d : Dict) (p : Coord × Rat) : Dict :=
  fun c => if c = p.1 then
      some (match d c with
        | some e => if additive then e + p.2 else p.2
        | none => p.2)
    else d c

def Dict.addBatch (additive : Bool) (d : Dict) (batch : List (Coord × Rat)) : Dict :=
  batch.foldl (Dict.ins additive) d

def Dict.get (d : Dict) (cs : List Coord) : Option (List Rat) := cs.mapM d

/-- abstraction map -/
def abs (s : Store) : Dict := get1 s

/-! ### Programs (histories of calls) -/

inductive Op where
  | add (batch : List (Coord × Rat)) (additive : Bool)
  | get (cs : List Coord)

/-- observable output of an op on the model: `get` results only (what the property talks about) -/
def step (s : Store) : Op → Store × Option (Option (List Rat))
  | .add b a => ((add s b a).1, none)
  | .get cs => (s, some (get s cs))

def specStep (d : Dict) : Op → Dict × Option (Option (List Rat))
  | .add b a => (Dict.addBatch a d b, none)
  | .get cs => (d, some (Dict.get d cs))

def run (s : Store) : List Op → List (Option (Option (List Rat)))
  | [] => []
  | op :: ops => (step s op).2 :: run (step s op).1 ops

def specRun (d : Dict) : List Op → List (Option (Option (List Rat)))
  | [] => []
  | op :: ops => (specStep d op).2 :: specRun (specStep d op).1 ops

/-! ### Additions of the deepening round: return value of `add`, storage order, value_dim > 1 -/

/-- `unique_coords[:, ~is_mem]`: the distinct coordinates of the batch that are not stored yet,
    in lexicographic order.  `add` appends exactly these to the storage. -/
def freshCoords (s : Store) (keys : List Coord) : List Coord :=
  (uniqueCoords keys).filter (fun u => (get1 s u).isNone)

/-- the value an already stored pair `p` holds after `add … batch additive` -/
def updated (additive : Bool) (batch : List (Coord × Rat)) (p : Coord × Rat) : Rat :=
  if p.1 ∈ batch.map (·.1) then
    (if additive then p.2 + combine additive batch p.1 else combine additive batch p.1)
  else p.2

/-! #### value_dim = k: `k` value rows over the same coordinates (what the driver executes) -/

/-- one `Store` per value row; all rows hold the same coordinates in the same order -/
abbrev StoreK := List Store
/-- a batch for a `value_dim = k` array: every coordinate comes with its column of `k` values
    (`values[:, j]` of the implementation) -/
abbrev BatchK := List (Coord × List Rat)

/-- the scalar batch seen by value row `r` -/
def rowBatch (r : Nat) (B : BatchK) : List (Coord × Rat) := B.map (fun p => (p.1, p.2.getD r 0))

/-- `add` on every value row (row index counted from `r`) -/
def addRows (additive : Bool) (B : BatchK) : Nat → StoreK → StoreK
  | _, [] => []
  | r, s :: st => (add s (rowBatch r B) additive).1 :: addRows additive B (r + 1) st

/-- `SparseNdArray.add` for `value_dim = k`, with the early return on an empty coordinate list.
    The returned index vector is computed from the coordinates only (row 0 here). -/
def addK (st : StoreK) (B : BatchK) (additive : Bool) : StoreK × List Nat :=
  if B.isEmpty then (st, []) else
  (addRows additive B 0 st,
    match st with
    | [] => []
    | s :: _ => (add s (rowBatch 0 B) additive).2)

/-- `SparseNdArray.get` for `value_dim = k`: the `k × n` array `_values[:, ind]`, row by row;
    `none` (ValueError) as soon as one coordinate is missing. -/
def getK (st : StoreK) (cs : List Coord) : Option (List (List Rat)) := st.mapM (fun s => get s cs)

/-- Specification for `value_dim = k`: a dictionary whose values are lists of `k` rationals. -/
abbrev DictK := Coord → Option (List Rat)

def vadd (e v : List Rat) : List Rat := List.zipWith (· + ·) e v

def DictK.ins (additive : Bool) (d : DictK) (p : Coord × List Rat) : DictK :=
  fun c => if c = p.1 then
      some (match d c with
        | some e => if additive then vadd e p.2 else p.2
        | none => p.2)
    else d c

def DictK.addBatch (additive : Bool) (d : DictK) (B : BatchK) : DictK :=
  B.foldl (DictK.ins additive) d

/-- the `k × n` array (list of rows) made from `n` columns of `k` values -/
def rowsOf (k : Nat) (cols : List (List Rat)) : List (List Rat) :=
  (List.range k).map (fun r => cols.map (fun col => col.getD r 0))

/-- dictionary read, delivered in the implementation's layout (`k` rows of `n` values) -/
def DictK.get (k : Nat) (d : DictK) (cs : List Coord) : Option (List (List Rat)) :=
  (cs.mapM d).map (rowsOf k)

/-- abstraction map for `k` rows: a coordinate is held iff every row holds it -/
def absK (st : StoreK) : DictK := fun c => st.mapM (fun s => get1 s c)

/-- representation invariant of the `k`-row store: every row has the same coordinate list -/
def SameKeys (st : StoreK) : Prop := ∃ ks : List Coord, ∀ s ∈ st, s.map (·.1) = ks

inductive OpK where
  | add (B : BatchK) (additive : Bool)
  | get (cs : List Coord)

/-- every value column of every `add` has exactly `k` entries -/
def OpK.WF (k : Nat) : OpK → Prop
  | .add B _ => ∀ p ∈ B, p.2.length = k
  | .get _ => True

def stepK (st : StoreK) : OpK → StoreK × Option (Option (List (List Rat)))
  | .add B a => ((addK st B a).1, none)
  | .get cs => (st, some (getK st cs))

def specStepK (k : Nat) (d : DictK) : OpK → DictK × Option (Option (List (List Rat)))
  | .add B a => (DictK.addBatch a d B, none)
  | .get cs => (d, some (DictK.get k d cs))

def runK (st : StoreK) : List OpK → List (Option (Option (List (List Rat))))
  | [] => []
  | op :: ops => (stepK st op).2 :: runK (stepK st op).1 ops

def specRunK (k : Nat) (d : DictK) : List OpK → List (Option (Option (List (List Rat))))
  | [] => []
  | op :: ops => (specStepK k d op).2 :: specRunK k (specStepK k d op).1 ops

/-! ### Additions of deepening round B: the neighbouring entry points -/

/-- squared Euclidean distance of two integer columns (what the KDTree proximity query of
    `intersect_sets` compares with `tol² = 1e-20`) -/
def sqDist : Coord → Coord → Int
  | a :: as, b :: bs => (a - b) * (a - b) + sqDist as bs
  | _, _ => 0

/-- `AdaptiveInterpolationTable`: the sparse array `_table` (k value rows) together with the
    side array `_pt` (one column of parameter-space coordinates per stored index). -/
abbrev PtTable := StoreK × List (List Rat)

/-- the grid point of an index: `base_point + h * index` -/
def gridPoint (base h : List Rat) (c : Coord) : List Rat :=
  List.zipWith (· + ·) base (List.zipWith (· * ·) h (c.map (fun (i : Int) => (i : Rat))))

/-- `AdaptiveInterpolationTable.assign_values(val, coord, indices)`:
    `column_permutation = self._table.add(ind_list, val, additive=False)` followed by
    `self._pt = np.hstack((self._pt, coord[:, column_permutation]))`.
    `P[j]` is the coordinate column given with batch element `j`. -/
def assignValues (t : PtTable) (B : BatchK) (P : List (List Rat)) : PtTable :=
  let r := addK t.1 B false
  (r.1, t.2 ++ r.2.map (fun i => P.getD i []))

/-- the alignment invariant of the adaptive table: `_pt[:, j]` is the grid point of `_coords[:, j]` -/
def Aligned (g : Coord → List Rat) (t : PtTable) : Prop :=
  t.2 = ((t.1.headD []).map (·.1)).map g

/-- coordinates inserted by a list of `add` calls -/
def insertedBy (adds : List (List (Coord × Rat) × Bool)) (c : Coord) : Prop :=
  ∃ o ∈ adds, c ∈ o.1.map (·.1)

/-- the store reached from the empty array by a list of `add` calls -/
def reach (adds : List (List (Coord × Rat) × Bool)) : Store :=
  adds.foldl (fun s o => (add s o.1 o.2).1) []

end PorepyVerif.C46
