/- C46 line-protocol driver: `lake env lean --run PorepyVerif/C46/Driver.lean` -/
import PorepyVerif.Common.Wire
import PorepyVerif.C46.Model
open Lean PV PorepyVerif.C46

/-- state: the `k`-row store of the model (`StoreK`: one `Store` per value row, shared coordinates);
    every op is answered by the model functions `addK` / `getK` that the theorems
    `sparseK_refines_dictK`, `addK_ret` speak about -/
abbrev St := StoreK

def step (st : St) (j : Json) : R (St × Json) := do
  let op ← fStr j "op"
  match op with
  | "init" =>
    let k ← fNat j "value_dim"
    pure (List.replicate k [], Json.str "ok")
  | "add" =>
    let coords ← fIntss j "coords"
    -- value columns: `cols[j]` = the `k` values given for `coords[j]` (`values[:, j]`)
    let cols ← fRatss j "cols"
    let additive ← fBool j "additive"
    if cols.length != coords.length then throw "length mismatch" else
    if cols.any (fun col => col.length != st.length) then throw "value_dim mismatch" else
    let r := addK st (coords.zip cols) additive
    pure (r.1, obj [("ret", ofNats r.2)])
  | "get" =>
    let coords ← fIntss j "coords"
    match getK st coords with
    | none => pure (st, err "ValueError")
    | some rows => pure (st, obj [("vals", ofList ofRats rows)])
  | "dump" =>
    pure (st, obj [("coords", ofList ofInts ((st.headD []).map (·.1))),
                   ("values", ofList ofRats (st.map (fun s => s.map (·.2))))])
  | _ => throw s!"unknown op {op}"

def main : IO Unit := runDriver ([] : St) step
