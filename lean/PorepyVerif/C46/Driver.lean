/- C46 line-protocol driver: `lake env lean --run PorepyVerif/C46/Driver.lean` -/
import PorepyVerif.Common.Wire
import PorepyVerif.C46.Model
open Lean PV PorepyVerif.C46

/-- state: one `Store` per value row (value_dim rows share the coordinates) -/
abbrev St := List Store

def step (st : St) (j : Json) : R (St × Json) := do
  let op ← fStr j "op"
  match op with
  | "init" =>
    let k ← fNat j "value_dim"
    pure (List.replicate k [], Json.str "ok")
  | "add" =>
    let coords ← fIntss j "coords"
    let values ← fRatss j "values"
    let additive ← fBool j "additive"
    if values.length != st.length then throw "value_dim mismatch" else
    if values.any (fun row => row.length != coords.length) then throw "length mismatch" else
    if coords.isEmpty then pure (st, obj [("ret", ofNats [])]) else
    let res := (st.zip values).map (fun (s, row) => add s (coords.zip row) additive)
    let ret := match res with
      | [] => []
      | r :: _ => r.2
    pure (res.map (·.1), obj [("ret", ofNats ret)])
  | "get" =>
    let coords ← fIntss j "coords"
    let rows := st.map (fun s => get s coords)
    if rows.any (·.isNone) then pure (st, err "ValueError")
    else pure (st, obj [("vals", ofList ofRats (rows.map (·.getD [])))])
  | "dump" =>
    pure (st, obj [("coords", ofList ofInts ((st.headD []).map (·.1))),
                   ("values", ofList ofRats (st.map (fun s => s.map (·.2))))])
  | _ => throw s!"unknown op {op}"

def main : IO Unit := runDriver ([] : St) step
