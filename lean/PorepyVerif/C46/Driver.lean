/- C46 line-protocol driver: `lake env lean --run PorepyVerif/C46/Driver.lean` -/
import PorepyVerif.Common.Wire
import PorepyVerif.C46.Model
open Lean PV PorepyVerif.C46

/-- state: the adaptive table of the model (`PtTable`): the `k`-row store (`StoreK`: one `Store`
    per value row, shared coordinates) and the side array `_pt` (unused by plain SparseNdArray
    cases).  Every op is answered by the model functions `addK` / `getK` / `assignValues` that the
    theorems `sparseK_refines_dictK`, `addK_ret`, `assignValues_spec` speak about. -/
abbrev St := PtTable

def step (t : St) (j : Json) : R (St × Json) := do
  let st := t.1
  let op ← fStr j "op"
  match op with
  | "init" =>
    let k ← fNat j "value_dim"
    pure ((List.replicate k [], []), Json.str "ok")
  | "add" =>
    let coords ← fIntss j "coords"
    -- value columns: `cols[j]` = the `k` values given for `coords[j]` (`values[:, j]`)
    let cols ← fRatss j "cols"
    let additive ← fBool j "additive"
    -- the decidable input condition `OpK.WF` of the k-row theorems, evaluated on every case
    if cols.length != coords.length then throw "length mismatch" else
    if cols.any (fun col => col.length != st.length) then throw "value_dim mismatch" else
    let r := addK st (coords.zip cols) additive
    pure ((r.1, t.2), obj [("ret", ofNats r.2)])
  | "assign" =>
    -- AdaptiveInterpolationTable.assign_values(val, coord, indices) with coord = grid points
    let coords ← fIntss j "coords"
    let cols ← fRatss j "cols"
    let base ← fRats j "base"
    let h ← fRats j "h"
    if cols.length != coords.length then throw "length mismatch" else
    if cols.any (fun col => col.length != st.length) then throw "value_dim mismatch" else
    if coords.any (fun c => c.length != base.length) || h.length != base.length then throw "dim mismatch" else
    let B := coords.zip cols
    let t' := assignValues t B (B.map (fun p => gridPoint base h p.1))
    pure (t', obj [("pt", ofList ofRats t'.2)])
  | "get" =>
    let coords ← fIntss j "coords"
    match getK st coords with
    | none => pure (t, err "ValueError")
    | some rows => pure (t, obj [("vals", ofList ofRats rows)])
  | "dump" =>
    pure (t, obj [("coords", ofList ofInts ((st.headD []).map (·.1))),
                   ("values", ofList ofRats (st.map (fun s => s.map (·.2))))])
  | "dump_table" =>
    pure (t, obj [("coords", ofList ofInts ((st.headD []).map (·.1))),
                   ("values", ofList ofRats (st.map (fun s => s.map (·.2)))),
                   ("pt", ofList ofRats t.2)])
  | _ => throw s!"unknown op {op}"

def main : IO Unit := runDriver (([], []) : St) step
