/-
C46 — helper lemmas for `value_dim = k` (k value rows over shared coordinates): the k-row store
refines a dictionary whose values are lists of k rationals.  (Property theorems are in Props.lean.)
-/
import PorepyVerif.C46.LemmasOrder

namespace PorepyVerif.C46

/-! ### `mapM` in `Option`, spelled out -/

theorem mapM_cons_opt {α β : Type} (f : α → Option β) (a : α) (l : List α) :
    (a :: l).mapM f = match f a, l.mapM f with
      | some y, some ys => some (y :: ys)
      | _, _ => none := by
  simp only [List.mapM_cons]
  cases f a <;> cases l.mapM f <;> rfl

theorem mapM_some {α β : Type} (g : α → β) (l : List α) :
    l.mapM (fun x => some (g x)) = some (l.map g) := by
  induction l with
  | nil => rfl
  | cons a l ih => rw [mapM_cons_opt, ih]; rfl

theorem length_of_mapM {α β : Type} (f : α → Option β) :
    ∀ (l : List α) (ys : List β), l.mapM f = some ys → ys.length = l.length
  | [], ys, h => by
    have : ys = [] := by simpa using h.symm
    simp [this]
  | a :: l, ys, h => by
    rw [mapM_cons_opt] at h
    cases hfa : f a with
    | none => simp [hfa] at h
    | some y =>
      cases hl : l.mapM f with
      | none => simp [hfa, hl] at h
      | some ys' =>
        simp only [hfa, hl, Option.some.injEq] at h
        subst h
        simp [length_of_mapM f l ys' hl]

/-! ### vector-valued dictionary entries -/

/-- value columns of the batch given for coordinate `c`, in batch order -/
def valsK (c : Coord) (B : BatchK) : List (List Rat) := (B.filter (fun p => p.1 = c)).map (·.2)

def updK (additive : Bool) (old : Option (List Rat)) (v : List Rat) : List Rat :=
  match old with
  | some e => if additive then vadd e v else v
  | none => v

def specValK (additive : Bool) (old : Option (List Rat)) (vs : List (List Rat)) : Option (List Rat) :=
  vs.foldl (fun o v => some (updK additive o v)) old

theorem valsK_cons (c : Coord) (p : Coord × List Rat) (B : BatchK) :
    valsK c (p :: B) = if p.1 = c then p.2 :: valsK c B else valsK c B := by
  unfold valsK
  by_cases h : p.1 = c
  · simp [h]
  · simp [h]

theorem addBatchK_at (additive : Bool) (d : DictK) (B : BatchK) (c : Coord) :
    DictK.addBatch additive d B c = specValK additive (d c) (valsK c B) := by
  induction B generalizing d with
  | nil => simp [DictK.addBatch, specValK, valsK]
  | cons p B ih =>
    have := ih (DictK.ins additive d p)
    simp only [DictK.addBatch, List.foldl_cons] at this ⊢
    rw [this, valsK_cons]
    by_cases h : p.1 = c
    · subst h
      rw [if_pos rfl]
      simp only [specValK, List.foldl_cons, DictK.ins]
      rfl
    · have hc : ¬ c = p.1 := fun e => h e.symm
      rw [if_neg h]
      simp only [DictK.ins, if_neg hc]

theorem mem_valsK (c : Coord) (B : BatchK) (v : List Rat) (h : v ∈ valsK c B) : ∃ p ∈ B, p.2 = v := by
  unfold valsK at h
  rcases List.mem_map.mp h with ⟨p, hp, e⟩
  exact ⟨p, (List.mem_filter.mp hp).1, e⟩

/-! ### peeling the first value row -/

def tailB (B : BatchK) : BatchK := B.map (fun p => (p.1, p.2.tail))

theorem getD_succ_eq (l : List Rat) (r : Nat) : l.getD (r + 1) 0 = l.tail.getD r 0 := by
  cases l <;> simp

theorem rowBatch_succ (r : Nat) (B : BatchK) : rowBatch (r + 1) B = rowBatch r (tailB B) := by
  unfold rowBatch tailB
  rw [List.map_map]
  apply List.map_congr_left
  intro p _
  simp only [Function.comp, getD_succ_eq]

theorem addRows_succ (a : Bool) (B : BatchK) (r : Nat) (st : StoreK) :
    addRows a B (r + 1) st = addRows a (tailB B) r st := by
  induction st generalizing r with
  | nil => rfl
  | cons s st ih => simp only [addRows, rowBatch_succ, ih]

theorem length_addRows (a : Bool) (B : BatchK) (r : Nat) (st : StoreK) :
    (addRows a B r st).length = st.length := by
  induction st generalizing r with
  | nil => rfl
  | cons s st ih => simp [addRows, ih]

theorem keys_rowBatch (r : Nat) (B : BatchK) : (rowBatch r B).map (·.1) = B.map (·.1) := by
  unfold rowBatch
  rw [List.map_map]
  rfl

theorem vals_rowBatch0 (c : Coord) (B : BatchK) :
    vals c (rowBatch 0 B) = (valsK c B).map (fun v => v.getD 0 0) := by
  induction B with
  | nil => rfl
  | cons p B ih =>
    have : rowBatch 0 (p :: B) = (p.1, p.2.getD 0 0) :: rowBatch 0 B := rfl
    rw [this, vals_cons, valsK_cons, ih]
    by_cases h : p.1 = c
    · simp [h]
    · simp [h]

theorem valsK_tailB (c : Coord) (B : BatchK) : valsK c (tailB B) = (valsK c B).map List.tail := by
  induction B with
  | nil => rfl
  | cons p B ih =>
    have : tailB (p :: B) = (p.1, p.2.tail) :: tailB B := rfl
    rw [this, valsK_cons, valsK_cons, ih]
    by_cases h : p.1 = c
    · simp [h]
    · simp [h]

/-! ### head/tail decomposition of the dictionary entry -/

def consOpt (h : Option Rat) (t : Option (List Rat)) : Option (List Rat) :=
  match h, t with
  | some x, some xs => some (x :: xs)
  | _, _ => none

theorem absK_nil (c : Coord) : absK [] c = some [] := rfl

theorem absK_cons (s : Store) (st : StoreK) (c : Coord) :
    absK (s :: st) c = consOpt (get1 s c) (absK st c) := by
  unfold absK
  rw [mapM_cons_opt]
  cases get1 s c <;> cases (List.mapM (fun s => get1 s c) st) <;> rfl

theorem specValK_nil_all (a : Bool) (V : List (List Rat)) (h : ∀ v ∈ V, v = []) :
    specValK a (some []) V = some [] := by
  induction V with
  | nil => rfl
  | cons v V ih =>
    have hv : v = [] := h v List.mem_cons_self
    subst hv
    have : specValK a (some []) ([] :: V) = specValK a (some []) V := by
      cases a <;> simp [specValK, updK, vadd]
    rw [this]
    exact ih (fun v hv => h v (List.mem_cons_of_mem _ hv))

/-- key lemma: row 0 updated by the scalar rule and the remaining rows updated by the vector rule
    give the vector rule on the whole column, if presence is consistent between the rows -/
theorem consOpt_specVal (a : Bool) : ∀ (W : List (List Rat)) (ho : Option Rat) (to : Option (List Rat)),
    (∀ w ∈ W, w ≠ []) →
    (ho.isSome = to.isSome ∨ (to = some [] ∧ ∀ w ∈ W, w.tail = [])) →
    consOpt (specVal a ho (W.map (fun w => w.getD 0 0))) (specValK a to (W.map List.tail)) =
      specValK a (consOpt ho to) W
  | [], ho, to, _, _ => rfl
  | w :: W, ho, to, hne, hc => by
    have hW : ∀ w ∈ W, w ≠ [] := fun w hw => hne w (List.mem_cons_of_mem _ hw)
    cases w with
    | nil => exact absurd rfl (hne [] List.mem_cons_self)
    | cons x xs =>
      have ih := consOpt_specVal a W (some (upd a ho x)) (some (updK a to xs)) hW (Or.inl rfl)
      have e1 : specVal a ho (((x :: xs) :: W).map (fun w => w.getD 0 0)) =
          specVal a (some (upd a ho x)) (W.map (fun w => w.getD 0 0)) := by
        cases ho <;> simp [specVal, upd]
      have e2 : specValK a to (((x :: xs) :: W).map List.tail) =
          specValK a (some (updK a to xs)) (W.map List.tail) := by
        simp [specValK]
      have e3 : specValK a (consOpt ho to) ((x :: xs) :: W) =
          specValK a (some (updK a (consOpt ho to) (x :: xs))) W := by
        simp [specValK]
      rw [e1, e2, ih, e3]
      congr 2
      cases ho with
      | none =>
        cases to with
        | none => simp [consOpt, upd, updK]
        | some es =>
          rcases hc with hc | ⟨hes, hxs⟩
          · simp at hc
          · have hes' : es = [] := by simpa using hes
            have hx : xs = [] := hxs (x :: xs) List.mem_cons_self
            subst hes' hx
            cases a <;> simp [consOpt, upd, updK, vadd]
      | some e =>
        cases to with
        | none =>
          rcases hc with hc | ⟨hes, _⟩
          · simp at hc
          · simp at hes
        | some es =>
          cases a <;> simp [consOpt, upd, updK, vadd]

/-! ### the invariant: all rows hold the same coordinates -/

theorem get1_isSome_iff (s : Store) (c : Coord) : (get1 s c).isSome = true ↔ c ∈ s.map (·.1) := by
  have := get1_isNone_iff s c
  cases h : get1 s c with
  | none => simp [h] at this ⊢; exact this
  | some v => simp [h] at this ⊢; exact this

theorem absK_isSome (ks : List Coord) (c : Coord) : ∀ (s : Store) (st : StoreK),
    (∀ s' ∈ s :: st, s'.map (·.1) = ks) → (absK (s :: st) c).isSome = decide (c ∈ ks)
  | s, [], h => by
    have hs := h s List.mem_cons_self
    rw [absK_cons, absK_nil]
    cases hg : get1 s c with
    | none =>
      have : c ∉ ks := hs ▸ (get1_eq_none_iff s c).mp hg
      simp [consOpt, this]
    | some v =>
      have : c ∈ ks := hs ▸ (get1_isSome_iff s c).mp (by simp [hg])
      simp [consOpt, this]
  | s, s' :: st, h => by
    have hs := h s List.mem_cons_self
    have ih := absK_isSome ks c s' st (fun x hx => h x (List.mem_cons_of_mem _ hx))
    rw [absK_cons]
    cases hg : get1 s c with
    | none =>
      have : c ∉ ks := hs ▸ (get1_eq_none_iff s c).mp hg
      simp [consOpt, this]
    | some v =>
      have hc : c ∈ ks := hs ▸ (get1_isSome_iff s c).mp (by simp [hg])
      cases ha : absK (s' :: st) c with
      | none => simp [ha, hc] at ih
      | some es => simp [consOpt, hc]

theorem sameKeys_tail {s : Store} {st : StoreK} (h : SameKeys (s :: st)) : SameKeys st := by
  rcases h with ⟨ks, h⟩
  exact ⟨ks, fun x hx => h x (List.mem_cons_of_mem _ hx)⟩

theorem sameKeys_addRows (a : Bool) (B : BatchK) (ks : List Coord) : ∀ (r : Nat) (st : StoreK),
    (∀ s ∈ st, s.map (·.1) = ks) →
    ∀ s' ∈ addRows a B r st,
      s'.map (·.1) = ks ++ (uniqueCoords (B.map (·.1))).filter (fun u => decide (u ∉ ks))
  | _, [], _, s', hs' => by simp [addRows] at hs'
  | r, s :: st, h, s', hs' => by
    simp only [addRows, List.mem_cons] at hs'
    rcases hs' with e | hs'
    · subst e
      rw [keys_add, freshCoords_eq_filter_keys, keys_rowBatch, h s List.mem_cons_self]
    · exact sameKeys_addRows a B ks (r + 1) st (fun x hx => h x (List.mem_cons_of_mem _ hx)) s' hs'

/-! ### one `add` on k rows -/

theorem absK_addRows (a : Bool) (c : Coord) : ∀ (st : StoreK) (B : BatchK),
    (∀ p ∈ B, p.2.length = st.length) → SameKeys st →
    absK (addRows a B 0 st) c = specValK a (absK st c) (valsK c B)
  | [], B, hB, _ => by
    rw [addRows, absK_nil]
    symm
    apply specValK_nil_all
    intro v hv
    rcases mem_valsK c B v hv with ⟨p, hp, e⟩
    have := hB p hp
    rw [e] at this
    simpa using this
  | s :: st, B, hB, hk => by
    have hBt : ∀ p ∈ tailB B, p.2.length = st.length := by
      intro p hp
      rcases List.mem_map.mp hp with ⟨q, hq, e⟩
      subst e
      have := hB q hq
      simp only [List.length_cons] at this
      simp [this]
    have ih := absK_addRows a c st (tailB B) hBt (sameKeys_tail hk)
    have hrow : abs (add s (rowBatch 0 B) a).1 c =
        specVal a (abs s c) ((valsK c B).map (fun v => v.getD 0 0)) := by
      rw [abs_add_at, vals_rowBatch0]
    have hlen : ∀ w ∈ valsK c B, w.length = st.length + 1 := by
      intro w hw
      rcases mem_valsK c B w hw with ⟨p, hp, e⟩
      rw [← e]
      simpa using hB p hp
    rw [addRows, addRows_succ, absK_cons, ih, valsK_tailB, absK_cons]
    show consOpt (abs (add s (rowBatch 0 B) a).1 c) _ = _
    rw [hrow]
    apply consOpt_specVal
    · intro w hw e
      have := hlen w hw
      rw [e] at this
      simp at this
    · rcases hk with ⟨ks, hks⟩
      cases st with
      | nil =>
        right
        refine ⟨rfl, ?_⟩
        intro w hw
        have := hlen w hw
        cases w with
        | nil => rfl
        | cons x xs =>
          simp only [List.length_cons, List.length_nil] at this
          have : xs.length = 0 := by omega
          simpa using this
      | cons s' st =>
        left
        have h1 := absK_isSome ks c s' st (fun x hx => hks x (List.mem_cons_of_mem _ hx))
        rw [h1]
        have hs := hks s List.mem_cons_self
        by_cases hc : c ∈ ks
        · have : (get1 s c).isSome = true := (get1_isSome_iff s c).mpr (hs ▸ hc)
          simp [abs, this, hc]
        · have : get1 s c = none := (get1_eq_none_iff s c).mpr (hs ▸ hc)
          simp [abs, this, hc]

/-! ### `get` on k rows = dictionary read, transposed to the implementation's layout -/

theorem mapM_consOpt (f : Coord → Option Rat) (g : Coord → Option (List Rat)) (cs : List Coord) :
    cs.mapM (fun c => consOpt (f c) (g c)) = match cs.mapM f, cs.mapM g with
      | some hs, some ts => some (List.zipWith (· :: ·) hs ts)
      | _, _ => none := by
  induction cs with
  | nil => rfl
  | cons c cs ih =>
    rw [mapM_cons_opt, mapM_cons_opt, mapM_cons_opt, ih]
    cases f c <;> cases g c <;> cases cs.mapM f <;> cases cs.mapM g <;> rfl

theorem map_head_zipWith : ∀ (hs : List Rat) (ts : List (List Rat)), hs.length = ts.length →
    (List.zipWith (· :: ·) hs ts).map (fun col => col.getD 0 0) = hs
  | [], [], _ => rfl
  | [], _ :: _, h => by simp at h
  | _ :: _, [], h => by simp at h
  | x :: hs, t :: ts, h => by
    simp only [List.length_cons, Nat.add_right_cancel_iff] at h
    rw [List.zipWith_cons_cons, List.map_cons, map_head_zipWith hs ts h]
    simp

theorem map_succ_zipWith (r : Nat) : ∀ (hs : List Rat) (ts : List (List Rat)), hs.length = ts.length →
    (List.zipWith (· :: ·) hs ts).map (fun col => col.getD (r + 1) 0) = ts.map (fun col => col.getD r 0)
  | [], [], _ => rfl
  | [], _ :: _, h => by simp at h
  | _ :: _, [], h => by simp at h
  | x :: hs, t :: ts, h => by
    simp only [List.length_cons, Nat.add_right_cancel_iff] at h
    rw [List.zipWith_cons_cons, List.map_cons, List.map_cons, map_succ_zipWith r hs ts h]
    simp

theorem rowsOf_zipWith (k : Nat) (hs : List Rat) (ts : List (List Rat)) (h : hs.length = ts.length) :
    rowsOf (k + 1) (List.zipWith (· :: ·) hs ts) = hs :: rowsOf k ts := by
  unfold rowsOf
  rw [List.range_succ_eq_map, List.map_cons, map_head_zipWith hs ts h, List.map_map]
  congr 1
  apply List.map_congr_left
  intro r _
  simp only [Function.comp, map_succ_zipWith r hs ts h]

theorem getK_eq (st : StoreK) (cs : List Coord) : getK st cs = DictK.get st.length (absK st) cs := by
  induction st with
  | nil =>
    show some [] = _
    unfold DictK.get
    have : cs.mapM (absK []) = some (cs.map (fun _ => [])) := mapM_some (fun _ => []) cs
    rw [this]
    rfl
  | cons s st ih =>
    unfold getK at ih ⊢
    rw [mapM_cons_opt, ih]
    unfold DictK.get
    have e : absK (s :: st) = fun c => consOpt (get1 s c) (absK st c) := by
      funext c; exact absK_cons s st c
    rw [e, mapM_consOpt]
    have hg : get s cs = cs.mapM (get1 s) := rfl
    rw [hg]
    cases hh : cs.mapM (get1 s) with
    | none => rfl
    | some hs =>
      cases ht : cs.mapM (absK st) with
      | none => rfl
      | some ts =>
        have hl : hs.length = ts.length := by
          rw [length_of_mapM _ cs hs hh, length_of_mapM _ cs ts ht]
        simp only [Option.map_some, List.length_cons]
        rw [rowsOf_zipWith _ hs ts hl]

end PorepyVerif.C46
