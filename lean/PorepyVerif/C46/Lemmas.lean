/-
C46 — helper lemmas (property theorems are in Props.lean).
-/
import PorepyVerif.C46.Model

namespace PorepyVerif.C46

/-! ### helper lemmas -/

theorem mem_dedup (c : Coord) (l : List Coord) : c ∈ dedup l ↔ c ∈ l := by
  induction l with
  | nil => simp [dedup]
  | cons a l ih =>
    unfold dedup
    by_cases h : a ∈ l
    · simp only [h, if_true, ih, List.mem_cons]
      constructor
      · intro hc; exact Or.inr hc
      · rintro (rfl | hc)
        · exact h
        · exact hc
    · simp only [h, if_false, List.mem_cons, ih]

theorem nodup_dedup (l : List Coord) : (dedup l).Nodup := by
  induction l with
  | nil => simp [dedup]
  | cons a l ih =>
    unfold dedup
    by_cases h : a ∈ l
    · simp only [h, if_true]; exact ih
    · rw [if_neg h]
      refine List.nodup_cons.mpr ⟨?_, ih⟩
      rw [mem_dedup]; exact h

theorem mem_insertSorted (c a : Coord) (l : List Coord) : c ∈ insertSorted a l ↔ c = a ∨ c ∈ l := by
  induction l with
  | nil => simp [insertSorted]
  | cons b l ih =>
    unfold insertSorted
    split
    · simp
    · simp only [List.mem_cons, ih]
      constructor
      · rintro (h | h | h)
        · exact Or.inr (Or.inl h)
        · exact Or.inl h
        · exact Or.inr (Or.inr h)
      · rintro (h | h | h)
        · exact Or.inr (Or.inl h)
        · exact Or.inl h
        · exact Or.inr (Or.inr h)

theorem mem_isort (c : Coord) (l : List Coord) : c ∈ isort l ↔ c ∈ l := by
  induction l with
  | nil => simp [isort]
  | cons a l ih => simp [isort, mem_insertSorted, ih]

theorem mem_uniqueCoords (c : Coord) (keys : List Coord) : c ∈ uniqueCoords keys ↔ c ∈ keys := by
  unfold uniqueCoords
  rw [mem_dedup]
  exact mem_isort c keys

theorem nodup_uniqueCoords (keys : List Coord) : (uniqueCoords keys).Nodup := nodup_dedup _

/-- what one dictionary entry becomes when the values `vs` are written to it in order -/
def specVal (additive : Bool) (old : Option Rat) (vs : List Rat) : Option Rat :=
  vs.foldl (fun o v => some (match o with
    | some e => if additive then e + v else v
    | none => v)) old

theorem vals_cons (c : Coord) (p : Coord × Rat) (batch : List (Coord × Rat)) :
    vals c (p :: batch) = if p.1 = c then p.2 :: vals c batch else vals c batch := by
  unfold vals
  by_cases h : p.1 = c
  · simp [List.filter_cons, h]
  · simp [List.filter_cons, h]

theorem addBatch_at (additive : Bool) (d : Dict) (batch : List (Coord × Rat)) (c : Coord) :
    Dict.addBatch additive d batch c = specVal additive (d c) (vals c batch) := by
  induction batch generalizing d with
  | nil => simp [Dict.addBatch, specVal, vals]
  | cons p batch ih =>
    have := ih (Dict.ins additive d p)
    simp only [Dict.addBatch, List.foldl_cons] at this ⊢
    rw [this]
    rw [vals_cons]
    by_cases h : p.1 = c
    · subst h
      rw [if_pos rfl]
      simp only [specVal, List.foldl_cons, Dict.ins, if_pos rfl]
      rfl
    · have hc : ¬ c = p.1 := fun e => h e.symm
      rw [if_neg h]
      simp only [Dict.ins, if_neg hc]

theorem foldl_add_shift (a : Rat) (vs : List Rat) :
    vs.foldl (· + ·) a = a + vs.foldl (· + ·) 0 := by
  induction vs generalizing a with
  | nil => simp only [List.foldl_nil]; grind
  | cons v vs ih =>
    simp only [List.foldl_cons]
    rw [ih (a + v), ih (0 + v)]
    grind

/-- one update of an entry with an already consolidated value -/
def upd (additive : Bool) (old : Option Rat) (v : Rat) : Rat :=
  match old with
  | some e => if additive then e + v else v
  | none => v

theorem specVal_some_additive (e : Rat) (vs : List Rat) :
    specVal true (some e) vs = some (e + vs.foldl (· + ·) 0) := by
  induction vs generalizing e with
  | nil => simp only [specVal, List.foldl_nil]; congr 1; grind
  | cons v vs ih =>
    have h := ih (e + v)
    simp only [specVal, List.foldl_cons] at h ⊢
    simp only [if_true] at h ⊢
    rw [h, foldl_add_shift (0 + v)]
    grind

theorem specVal_overwrite' (old : Option Rat) (vs : List Rat) :
    specVal false old vs = match vs.getLast? with
      | some l => some l
      | none => old := by
  induction vs generalizing old with
  | nil => rfl
  | cons v vs ih =>
    have step : specVal false old (v :: vs) = specVal false (some v) vs := by
      cases old <;> simp [specVal]
    rw [step, ih (some v), List.getLast?_cons]
    cases vs.getLast? <;> rfl

theorem specVal_overwrite (old : Option Rat) (v : Rat) (vs : List Rat) :
    specVal false old (v :: vs) = some ((v :: vs).getLast?.getD 0) := by
  rw [specVal_overwrite', List.getLast?_cons]
  rfl

theorem specVal_nonempty (additive : Bool) (old : Option Rat) (vs : List Rat) (h : vs ≠ []) :
    specVal additive old vs =
      some (upd additive old (if additive then vs.foldl (· + ·) 0 else vs.getLast?.getD 0)) := by
  cases vs with
  | nil => exact absurd rfl h
  | cons v vs =>
    cases additive with
    | false =>
      rw [specVal_overwrite]
      cases old <;> simp [upd]
    | true =>
      cases old with
      | none =>
        have := specVal_some_additive v vs
        simp only [specVal, List.foldl_cons, if_true] at this ⊢
        simp only [this, upd, if_true]
        rw [foldl_add_shift (0 + v)]
        grind
      | some e =>
        rw [specVal_some_additive]
        simp [upd]

theorem abs_upsert (additive : Bool) (s : Store) (u : Coord) (v : Rat) (c : Coord) :
    abs (upsert additive s u v) c =
      if c = u then some (upd additive (abs s u) v) else abs s c := by
  unfold abs
  induction s with
  | nil =>
    by_cases hc : c = u
    · subst hc; simp [upsert, get1, upd]
    · have : ¬ u = c := fun e => hc e.symm
      simp [upsert, get1, hc, this]
  | cons p s ih =>
    unfold upsert
    by_cases hp : p.1 = u
    · rw [if_pos hp]
      by_cases hc : c = u
      · subst hc; simp [get1, hp, upd]
      · have : ¬ p.1 = c := fun e => hc (e ▸ hp)
        simp [get1, this, hc]
    · rw [if_neg hp]
      by_cases hpc : p.1 = c
      · have hc : ¬ c = u := fun e => hp (hpc ▸ e)
        simp [get1, hpc, hc]
      · simp only [get1, if_neg hpc, ih]
        by_cases hc : c = u
        · subst hc; simp [hp]
        · simp [hc]

theorem abs_foldl_upsert (additive : Bool) (f : Coord → Rat) (us : List Coord) (hn : us.Nodup)
    (s : Store) (c : Coord) :
    abs (us.foldl (fun acc u => upsert additive acc u (f u)) s) c =
      if c ∈ us then some (upd additive (abs s c) (f c)) else abs s c := by
  induction us generalizing s with
  | nil => simp
  | cons u us ih =>
    rw [List.nodup_cons] at hn
    rw [List.foldl_cons, ih hn.2, abs_upsert]
    by_cases hc : c = u
    · subst hc
      simp [hn.1]
    · simp [hc]

theorem vals_eq_nil_iff (c : Coord) (batch : List (Coord × Rat)) :
    vals c batch = [] ↔ c ∉ batch.map (·.1) := by
  induction batch with
  | nil => simp [vals]
  | cons p batch ih =>
    rw [vals_cons]
    by_cases h : p.1 = c
    · simp [h]
    · have : ¬ c = p.1 := fun e => h e.symm
      simp [h, ih, this]

theorem keys_upsert (additive : Bool) (s : Store) (u : Coord) (v : Rat) :
    (upsert additive s u v).map (·.1) =
      if u ∈ s.map (·.1) then s.map (·.1) else s.map (·.1) ++ [u] := by
  induction s with
  | nil => simp [upsert]
  | cons p s ih =>
    unfold upsert
    by_cases hp : p.1 = u
    · simp [hp]
    · have : ¬ u = p.1 := fun e => hp e.symm
      rw [if_neg hp]
      simp only [List.map_cons, ih, List.mem_cons, this, false_or]
      split <;> simp

theorem nodup_upsert (additive : Bool) (s : Store) (u : Coord) (v : Rat)
    (h : (s.map (·.1)).Nodup) : ((upsert additive s u v).map (·.1)).Nodup := by
  rw [keys_upsert]
  split
  · exact h
  · rename_i hu
    rw [List.nodup_append]
    refine ⟨h, by simp, ?_⟩
    intro a ha b hb
    simp only [List.mem_singleton] at hb
    subst hb
    intro e; subst e; exact hu ha

theorem nodup_foldl_upsert (additive : Bool) (f : Coord → Rat) (us : List Coord) (s : Store)
    (h : (s.map (·.1)).Nodup) :
    ((us.foldl (fun acc u => upsert additive acc u (f u)) s).map (·.1)).Nodup := by
  induction us generalizing s with
  | nil => exact h
  | cons u us ih => exact ih _ (nodup_upsert additive s u (f u) h)

end PorepyVerif.C46
