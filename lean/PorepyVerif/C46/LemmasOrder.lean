/-
C46 — helper lemmas of the deepening round: lexicographic order, sortedness of `isort` /
`uniqueCoords`, the returned index vector of `add`, the storage order after `add`.
(Property theorems are in Props.lean.)
-/
import PorepyVerif.C46.Lemmas

namespace PorepyVerif.C46

/-! ### `lexLe` is a total order -/

theorem lexLe_refl : ∀ (a : Coord), lexLe a a = true
  | [] => rfl
  | a :: as => by simp only [lexLe, Int.lt_irrefl, if_false]; exact lexLe_refl as

theorem lexLe_total : ∀ (a b : Coord), lexLe a b = true ∨ lexLe b a = true
  | [], _ => Or.inl rfl
  | _ :: _, [] => Or.inr rfl
  | a :: as, b :: bs => by
    simp only [lexLe]
    rcases Int.lt_trichotomy a b with h | h | h
    · left; simp [h]
    · subst h; simp only [Int.lt_irrefl, if_false]; exact lexLe_total as bs
    · right; simp [h]

theorem lexLe_trans : ∀ (a b c : Coord), lexLe a b = true → lexLe b c = true → lexLe a c = true
  | [], _, _, _, _ => rfl
  | _ :: _, [], _, h, _ => by simp [lexLe] at h
  | _ :: _, _ :: _, [], _, h => by simp [lexLe] at h
  | a :: as, b :: bs, c :: cs, h1, h2 => by
    simp only [lexLe] at h1 h2 ⊢
    by_cases hab : a < b
    · by_cases hbc : b < c
      · have : a < c := by omega
        simp [this]
      · by_cases hcb : c < b
        · simp [hbc, hcb] at h2
        · have : a < c := by omega
          simp [this]
    · by_cases hba : b < a
      · simp [hab, hba] at h1
      · have hab' : a = b := by omega
        subst hab'
        simp only [Int.lt_irrefl, if_false] at h1
        by_cases hbc : a < c
        · simp [hbc]
        · by_cases hcb : c < a
          · simp [hbc, hcb] at h2
          · simp only [hbc, hcb, if_false] at h2 ⊢
            exact lexLe_trans as bs cs h1 h2

theorem lexLe_antisymm : ∀ (a b : Coord), lexLe a b = true → lexLe b a = true → a = b
  | [], [], _, _ => rfl
  | [], _ :: _, _, h => by simp [lexLe] at h
  | _ :: _, [], h, _ => by simp [lexLe] at h
  | a :: as, b :: bs, h1, h2 => by
    simp only [lexLe] at h1 h2
    by_cases hab : a < b
    · have hba : ¬ b < a := by omega
      simp [hab, hba] at h2
    · by_cases hba : b < a
      · simp [hab, hba] at h1
      · have e : a = b := by omega
        subst e
        simp only [Int.lt_irrefl, if_false] at h1 h2
        rw [lexLe_antisymm as bs h1 h2]

/-! ### `isort` sorts, `uniqueCoords` is strictly increasing -/

/-- sorted (weakly increasing) w.r.t. `lexLe` -/
def SortedLe (l : List Coord) : Prop := l.Pairwise (fun a b => lexLe a b = true)

/-- strictly increasing w.r.t. `lexLe` -/
def SortedLt (l : List Coord) : Prop := l.Pairwise (fun a b => lexLe a b = true ∧ a ≠ b)

theorem sortedLe_insertSorted (c : Coord) : ∀ (l : List Coord), SortedLe l → SortedLe (insertSorted c l)
  | [], _ => by simp [insertSorted, SortedLe]
  | a :: l, h => by
    have h' := List.pairwise_cons.mp h
    unfold insertSorted
    by_cases hca : lexLe c a = true
    · rw [if_pos hca]
      refine List.pairwise_cons.mpr ⟨?_, h⟩
      intro b hb
      rcases List.mem_cons.mp hb with rfl | hb
      · exact hca
      · exact lexLe_trans c a b hca (h'.1 b hb)
    · rw [if_neg hca]
      have hac : lexLe a c = true := (lexLe_total a c).resolve_right hca
      refine List.pairwise_cons.mpr ⟨?_, sortedLe_insertSorted c l h'.2⟩
      intro b hb
      rcases (mem_insertSorted b c l).mp hb with rfl | hb
      · exact hac
      · exact h'.1 b hb

theorem sortedLe_isort : ∀ (l : List Coord), SortedLe (isort l)
  | [] => by simp [isort, SortedLe]
  | c :: l => sortedLe_insertSorted c _ (sortedLe_isort l)

theorem perm_insertSorted (c : Coord) : ∀ (l : List Coord), (insertSorted c l).Perm (c :: l)
  | [] => by simp [insertSorted]
  | a :: l => by
    unfold insertSorted
    split
    · exact List.Perm.refl _
    · exact ((perm_insertSorted c l).cons a).trans (List.Perm.swap c a l)

theorem perm_isort : ∀ (l : List Coord), (isort l).Perm l
  | [] => by simp [isort]
  | c :: l => (perm_insertSorted c (isort l)).trans ((perm_isort l).cons c)

theorem dedup_sublist : ∀ (l : List Coord), (dedup l).Sublist l
  | [] => by simp [dedup]
  | c :: l => by
    unfold dedup
    split
    · exact (dedup_sublist l).cons c
    · exact (dedup_sublist l).cons_cons c

theorem sortedLt_of (l : List Coord) (h : SortedLe l) (hn : l.Nodup) : SortedLt l := by
  unfold SortedLt
  unfold SortedLe at h
  induction l with
  | nil => exact List.Pairwise.nil
  | cons a l ih =>
    rw [List.pairwise_cons] at h
    rw [List.nodup_cons] at hn
    refine List.pairwise_cons.mpr ⟨?_, ih h.2 hn.2⟩
    intro b hb
    exact ⟨h.1 b hb, fun e => hn.1 (e ▸ hb)⟩

theorem SortedLt.sortedLe {l : List Coord} (h : SortedLt l) : SortedLe l :=
  List.Pairwise.imp (fun h => h.1) h

theorem SortedLt.nodup {l : List Coord} (h : SortedLt l) : l.Nodup :=
  List.Pairwise.imp (fun h => h.2) h

theorem sortedLt_uniqueCoords (keys : List Coord) : SortedLt (uniqueCoords keys) :=
  sortedLt_of _ ((sortedLe_isort keys).sublist (dedup_sublist _)) (nodup_uniqueCoords keys)

/-- a strictly increasing list is determined by its set of members -/
theorem sortedLt_unique : ∀ (l₁ l₂ : List Coord), SortedLt l₁ → SortedLt l₂ →
    (∀ c, c ∈ l₁ ↔ c ∈ l₂) → l₁ = l₂
  | [], [], _, _, _ => rfl
  | [], b :: _, _, _, h => by have := (h b).mpr List.mem_cons_self; simp at this
  | a :: _, [], _, _, h => by have := (h a).mp List.mem_cons_self; simp at this
  | a :: l₁, b :: l₂, h1, h2, h => by
    have h1' := List.pairwise_cons.mp h1
    have h2' := List.pairwise_cons.mp h2
    have hab : a = b := by
      have ha := (h a).mp List.mem_cons_self
      have hb := (h b).mpr List.mem_cons_self
      rcases List.mem_cons.mp ha with e | ha
      · exact e
      · rcases List.mem_cons.mp hb with e | hb
        · exact e.symm
        · exact lexLe_antisymm a b (h1'.1 b hb).1 (h2'.1 a ha).1
    subst hab
    congr 1
    refine sortedLt_unique l₁ l₂ h1'.2 h2'.2 ?_
    intro c
    constructor
    · intro hc
      rcases List.mem_cons.mp ((h c).mp (List.mem_cons_of_mem _ hc)) with e | hc'
      · subst e; exact absurd rfl (h1'.1 c hc).2
      · exact hc'
    · intro hc
      rcases List.mem_cons.mp ((h c).mpr (List.mem_cons_of_mem _ hc)) with e | hc'
      · subst e; exact absurd rfl (h2'.1 c hc).2
      · exact hc'

/-! ### `freshCoords` -/

theorem get1_isNone_iff (s : Store) (c : Coord) : (get1 s c).isNone = true ↔ c ∉ s.map (·.1) := by
  induction s with
  | nil => simp [get1]
  | cons p s ih =>
    unfold get1
    by_cases h : p.1 = c
    · simp [h]
    · have : ¬ c = p.1 := fun e => h e.symm
      simp [h, ih, this]

theorem get1_eq_none_iff (s : Store) (c : Coord) : get1 s c = none ↔ c ∉ s.map (·.1) := by
  rw [← get1_isNone_iff, Option.isNone_iff_eq_none]

theorem mem_freshCoords (s : Store) (keys : List Coord) (c : Coord) :
    c ∈ freshCoords s keys ↔ c ∈ keys ∧ abs s c = none := by
  unfold freshCoords abs
  rw [List.mem_filter, mem_uniqueCoords, Option.isNone_iff_eq_none]

theorem sortedLt_freshCoords (s : Store) (keys : List Coord) : SortedLt (freshCoords s keys) :=
  (sortedLt_uniqueCoords keys).sublist List.filter_sublist

theorem freshCoords_eq_filter_keys (s : Store) (keys : List Coord) :
    freshCoords s keys = (uniqueCoords keys).filter (fun u => decide (u ∉ s.map (·.1))) := by
  unfold freshCoords
  apply List.filter_congr
  intro u _
  by_cases h : u ∈ s.map (·.1)
  · have : ¬ (get1 s u).isNone = true := fun e => ((get1_isNone_iff s u).mp e) h
    simp [h, this]
  · have : (get1 s u).isNone = true := (get1_isNone_iff s u).mpr h
    simp [h, this]

/-! ### first occurrence -/

theorem idxOf_first (keys : List Coord) (u : Coord) (h : u ∈ keys) :
    keys[keys.idxOf u]? = some u ∧ ∀ i, i < keys.idxOf u → keys[i]? ≠ some u := by
  induction keys with
  | nil => cases h
  | cons a l ih =>
    by_cases hau : a = u
    · subst hau
      simp
    · have hu : u ∈ l := by
        rcases List.mem_cons.mp h with e | h
        · exact absurd e.symm hau
        · exact h
      have hb : (a == u) = false := by simpa using hau
      rw [List.idxOf_cons, hb, cond_false]
      refine ⟨by simpa using (ih hu).1, ?_⟩
      intro i hi
      cases i with
      | zero => simpa using hau
      | succ i =>
        simp only [List.getElem?_cons_succ]
        exact (ih hu).2 i (by omega)

/-! ### storage after `add` -/

theorem upsert_absent (a : Bool) (s : Store) (u : Coord) (v : Rat) (h : u ∉ s.map (·.1)) :
    upsert a s u v = s ++ [(u, v)] := by
  induction s with
  | nil => rfl
  | cons p s ih =>
    have hp : ¬ p.1 = u := fun e => h (by simp [e])
    have hs : u ∉ s.map (·.1) := fun e => h (by simp at e ⊢; exact Or.inr e)
    simp only [upsert, if_neg hp, List.cons_append, ih hs]

theorem upsert_present (a : Bool) (s : Store) (u : Coord) (v : Rat) (h : u ∈ s.map (·.1))
    (hn : (s.map (·.1)).Nodup) :
    upsert a s u v = s.map (fun p => if p.1 = u then (p.1, if a then p.2 + v else v) else p) := by
  induction s with
  | nil => simp at h
  | cons p s ih =>
    rw [List.map_cons, List.nodup_cons] at hn
    by_cases hp : p.1 = u
    · have hu : u ∉ s.map (·.1) := hp ▸ hn.1
      simp only [upsert, if_pos hp, List.map_cons]
      congr 1
      symm
      calc s.map (fun p => if p.1 = u then (p.1, if a then p.2 + v else v) else p)
          = s.map id := by
            apply List.map_congr_left
            intro q hq
            have : ¬ q.1 = u := fun e => hu (e ▸ List.mem_map_of_mem hq)
            simp [this]
        _ = s := List.map_id s
    · have hu : u ∈ s.map (·.1) := by
        rcases List.mem_cons.mp h with e | h
        · exact absurd e.symm hp
        · exact h
      simp only [upsert, if_neg hp, List.map_cons, ih hu hn.2]

/-- keys after a sequence of upserts: old keys, then the new ones in the given order -/
theorem keys_foldl_upsert (a : Bool) (f : Coord → Rat) (us : List Coord) (hu : us.Nodup) (s : Store) :
    (us.foldl (fun acc u => upsert a acc u (f u)) s).map (·.1) =
      s.map (·.1) ++ us.filter (fun u => decide (u ∉ s.map (·.1))) := by
  induction us generalizing s with
  | nil => simp
  | cons u us ih =>
    rw [List.nodup_cons] at hu
    rw [List.foldl_cons, ih hu.2, keys_upsert]
    by_cases h : u ∈ s.map (·.1)
    · rw [if_pos h, List.filter_cons]
      simp [h]
    · rw [if_neg h, List.filter_cons]
      simp only [h, not_false_eq_true, decide_true, if_true, List.append_assoc, List.singleton_append]
      congr 2
      apply List.filter_congr
      intro x hx
      have : ¬ x = u := fun e => hu.1 (e ▸ hx)
      simp [this]

theorem keys_add (s : Store) (batch : List (Coord × Rat)) (a : Bool) :
    ((add s batch a).1).map (·.1) = s.map (·.1) ++ freshCoords s (batch.map (·.1)) := by
  rw [freshCoords_eq_filter_keys]
  exact keys_foldl_upsert a _ _ (nodup_uniqueCoords _) s

/-- storage after a sequence of upserts of distinct coordinates into a duplicate-free store -/
theorem foldl_upsert_storage (a : Bool) (f : Coord → Rat) (us : List Coord) (hu : us.Nodup)
    (s : Store) (hs : (s.map (·.1)).Nodup) :
    us.foldl (fun acc u => upsert a acc u (f u)) s =
      s.map (fun p => (p.1, if p.1 ∈ us then (if a then p.2 + f p.1 else f p.1) else p.2)) ++
        (us.filter (fun u => decide (u ∉ s.map (·.1)))).map (fun u => (u, f u)) := by
  induction us generalizing s with
  | nil => simp
  | cons u us ih =>
    rw [List.nodup_cons] at hu
    rw [List.foldl_cons, ih hu.2 _ (nodup_upsert a s u (f u) hs), keys_upsert]
    by_cases h : u ∈ s.map (·.1)
    · rw [if_pos h, upsert_present a s u (f u) h hs, List.filter_cons]
      simp only [h, not_true_eq_false, decide_false, Bool.false_eq_true, if_false, List.map_map]
      congr 1
      apply List.map_congr_left
      intro p _
      by_cases hp : p.1 = u
      · simp only [Function.comp, hp, if_true, List.mem_cons, true_or, if_neg hu.1]
      · have : ¬ u = p.1 := fun e => hp e.symm
        simp [Function.comp, hp]
    · rw [if_neg h, upsert_absent a s u (f u) h, List.filter_cons]
      simp only [h, not_false_eq_true, decide_true, if_true, List.map_append, List.map_cons,
        List.map_nil, if_neg hu.1, List.append_assoc, List.singleton_append]
      congr 1
      · apply List.map_congr_left
        intro p hp
        have : ¬ p.1 = u := fun e => h (e ▸ List.mem_map_of_mem hp)
        simp [this]
      · congr 2
        apply List.filter_congr
        intro x hx
        have : ¬ x = u := fun e => hu.1 (e ▸ hx)
        simp [this]

theorem add_storage_eq (s : Store) (batch : List (Coord × Rat)) (a : Bool)
    (hs : (s.map (·.1)).Nodup) :
    (add s batch a).1 =
      s.map (fun p => (p.1, updated a batch p)) ++
        (freshCoords s (batch.map (·.1))).map (fun u => (u, combine a batch u)) := by
  rw [freshCoords_eq_filter_keys]
  show List.foldl _ s (uniqueCoords (batch.map (·.1))) = _
  rw [foldl_upsert_storage a (combine a batch) _ (nodup_uniqueCoords _) s hs]
  congr 1
  apply List.map_congr_left
  intro p _
  simp only [updated, mem_uniqueCoords]

/-! ### value of one coordinate after `add` (pointwise form of `add_refines`) -/

theorem abs_add_at (s : Store) (batch : List (Coord × Rat)) (a : Bool) (c : Coord) :
    abs (add s batch a).1 c = specVal a (abs s c) (vals c batch) := by
  show abs (List.foldl _ s (uniqueCoords (batch.map (·.1)))) c = _
  rw [abs_foldl_upsert a (combine a batch) _ (nodup_uniqueCoords _)]
  by_cases hc : c ∈ batch.map (·.1)
  · rw [if_pos ((mem_uniqueCoords c _).mpr hc)]
    have hne : vals c batch ≠ [] := fun e => ((vals_eq_nil_iff c batch).mp e) hc
    rw [specVal_nonempty a _ _ hne]
    rfl
  · rw [if_neg (fun h => hc ((mem_uniqueCoords c _).mp h))]
    rw [(vals_eq_nil_iff c batch).mpr hc]
    rfl

/-- the coordinates found at the returned positions are the appended coordinates, in order -/
theorem ret_map_getD (s : Store) (batch : List (Coord × Rat)) (a : Bool) :
    ((add s batch a).2).map (fun i => (batch.map (·.1)).getD i []) =
      freshCoords s (batch.map (·.1)) := by
  show ((freshCoords s (batch.map (·.1))).map (fun u => (batch.map (·.1)).idxOf u)).map _ = _
  rw [List.map_map]
  calc _ = (freshCoords s (batch.map (·.1))).map id := by
        apply List.map_congr_left
        intro u hu
        have hk := ((mem_freshCoords s _ u).mp hu).1
        simp only [Function.comp, List.getD_eq_getElem?_getD, (idxOf_first _ u hk).1, id]
        rfl
    _ = _ := List.map_id _

end PorepyVerif.C46
