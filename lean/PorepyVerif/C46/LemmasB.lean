/-
C46 — helper lemmas of deepening round B: which coordinates a history has inserted, integer
proximity = equality, the returned vector for sorted new batches, the `_pt` side array of the
adaptive interpolation table.  (Property theorems are in Props.lean.)
-/
import PorepyVerif.C46.LemmasK

namespace PorepyVerif.C46

/-! ### integer columns closer than 1 are equal -/

theorem int_mul_self_nonneg (x : Int) : 0 ≤ x * x := by
  rcases Int.le_total 0 x with h | h
  · exact Int.mul_nonneg h h
  · have := Int.mul_nonneg (Int.neg_nonneg_of_nonpos h) (Int.neg_nonneg_of_nonpos h)
    rwa [Int.neg_mul_neg] at this

theorem sqDist_nonneg : ∀ (a b : Coord), 0 ≤ sqDist a b
  | [], _ => by simp [sqDist]
  | _ :: _, [] => by simp [sqDist]
  | a :: as, b :: bs => by
    have h1 := sqDist_nonneg as bs
    have h2 : 0 ≤ (a - b) * (a - b) := int_mul_self_nonneg (a - b)
    simp only [sqDist]
    omega

theorem sqDist_lt_one : ∀ (a b : Coord), a.length = b.length → (sqDist a b < 1 ↔ a = b)
  | [], [], _ => by simp [sqDist]
  | [], _ :: _, h => by simp at h
  | _ :: _, [], h => by simp at h
  | a :: as, b :: bs, h => by
    have hl : as.length = bs.length := by simpa using h
    have ih := sqDist_lt_one as bs hl
    have h1 := sqDist_nonneg as bs
    have h2 : 0 ≤ (a - b) * (a - b) := int_mul_self_nonneg (a - b)
    simp only [sqDist, List.cons.injEq]
    constructor
    · intro hlt
      have hz : (a - b) * (a - b) = 0 := by omega
      have hab : a - b = 0 := by
        rcases Int.mul_eq_zero.mp hz with h | h <;> exact h
      exact ⟨by omega, ih.mp (by omega)⟩
    · rintro ⟨rfl, e⟩
      have := ih.mpr e
      simp only [Int.sub_self, Int.mul_zero, Int.zero_add]
      exact this

/-! ### which coordinates are stored after a history -/

theorem mem_keys_add (s : Store) (batch : List (Coord × Rat)) (a : Bool) (c : Coord) :
    c ∈ ((add s batch a).1).map (·.1) ↔ c ∈ s.map (·.1) ∨ c ∈ batch.map (·.1) := by
  rw [keys_add, List.mem_append, mem_freshCoords]
  unfold abs
  rw [get1_eq_none_iff]
  by_cases h : c ∈ s.map (·.1)
  · simp [h]
  · simp [h]

theorem mem_keys_foldl_add (adds : List (List (Coord × Rat) × Bool)) (c : Coord) : ∀ (s : Store),
    c ∈ (adds.foldl (fun s o => (add s o.1 o.2).1) s).map (·.1) ↔
      c ∈ s.map (·.1) ∨ insertedBy adds c := by
  induction adds with
  | nil => intro s; simp [insertedBy]
  | cons o adds ih =>
    intro s
    rw [List.foldl_cons, ih, mem_keys_add]
    unfold insertedBy
    constructor
    · rintro ((h | h) | ⟨o', ho', h⟩)
      · exact Or.inl h
      · exact Or.inr ⟨o, List.mem_cons_self, h⟩
      · exact Or.inr ⟨o', List.mem_cons_of_mem _ ho', h⟩
    · rintro (h | ⟨o', ho', h⟩)
      · exact Or.inl (Or.inl h)
      · rcases List.mem_cons.mp ho' with e | ho'
        · subst e; exact Or.inl (Or.inr h)
        · exact Or.inr ⟨o', ho', h⟩

theorem mem_keys_reach (adds : List (List (Coord × Rat) × Bool)) (c : Coord) :
    c ∈ (reach adds).map (·.1) ↔ insertedBy adds c := by
  unfold reach
  rw [mem_keys_foldl_add]
  simp

/-- the dictionary written by the same calls -/
def dictOf (adds : List (List (Coord × Rat) × Bool)) (d : Dict) : Dict :=
  adds.foldl (fun d o => Dict.addBatch o.2 d o.1) d

theorem abs_foldl_add (adds : List (List (Coord × Rat) × Bool)) : ∀ (s : Store),
    abs (adds.foldl (fun s o => (add s o.1 o.2).1) s) = dictOf adds (abs s) := by
  induction adds with
  | nil => intro s; rfl
  | cons o adds ih =>
    intro s
    rw [List.foldl_cons, ih]
    have : abs (add s o.1 o.2).1 = Dict.addBatch o.2 (abs s) o.1 := by
      funext c; rw [abs_add_at, addBatch_at]
    rw [this]
    rfl

/-! ### `range` -/

theorem map_getD_range (l : List Coord) :
    (List.range l.length).map (fun i => l.getD i []) = l := by
  apply List.ext_getElem
  · simp
  · intro i h1 h2
    simp [List.getD_eq_getElem?_getD, h2]

/-! ### the side array `_pt` -/

theorem getD_map_idxOf (g : Coord → List Rat) (keys : List Coord) (u : Coord) (h : u ∈ keys) :
    (keys.map g).getD (keys.idxOf u) [] = g u := by
  have := (idxOf_first keys u h).1
  simp [List.getD_eq_getElem?_getD, this]

theorem headD_addRows (a : Bool) (B : BatchK) (s : Store) (st : StoreK) :
    (addRows a B 0 (s :: st)).headD [] = (add s (rowBatch 0 B) a).1 := rfl

end PorepyVerif.C46
