import PorepyVerif.C46.Props
#print axioms PorepyVerif.C46.add_refines
#print axioms PorepyVerif.C46.sparse_refines_dict
#print axioms PorepyVerif.C46.sparse_refines_dict_from_empty
#print axioms PorepyVerif.C46.get_missing_errors
#print axioms PorepyVerif.C46.get_present
#print axioms PorepyVerif.C46.coords_nodup_reachable
