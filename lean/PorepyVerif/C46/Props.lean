/-
C46 — property theorems (statements only depend on Model.lean; helper lemmas in Lemmas.lean).

Property: after any sequence of additive or overwriting insertions (duplicates inside and across
batches), reading any inserted coordinate returns what a plain dictionary would hold, and reading
a coordinate never inserted raises.
-/
import PorepyVerif.C46.LemmasB

namespace PorepyVerif.C46

/-- One `add` call commutes with the abstraction to a dictionary: the stored array afterwards
    represents exactly the dictionary obtained by writing the batch entry by entry, in order. -/
theorem add_refines (s : Store) (batch : List (Coord × Rat)) (additive : Bool) :
    abs (add s batch additive).1 = Dict.addBatch additive (abs s) batch := by
  funext c
  rw [addBatch_at]
  show abs (List.foldl _ s (uniqueCoords (batch.map (·.1)))) c = _
  rw [abs_foldl_upsert additive (combine additive batch) _ (nodup_uniqueCoords _)]
  by_cases hc : c ∈ batch.map (·.1)
  · rw [if_pos ((mem_uniqueCoords c _).mpr hc)]
    have hne : vals c batch ≠ [] := fun e => ((vals_eq_nil_iff c batch).mp e) hc
    rw [specVal_nonempty additive _ _ hne]
    rfl
  · rw [if_neg (fun h => hc ((mem_uniqueCoords c _).mp h))]
    rw [(vals_eq_nil_iff c batch).mpr hc]
    rfl

/-- `get` on the array is `get` on the dictionary (including the error case). -/
theorem get_refines (s : Store) (cs : List Coord) : get s cs = Dict.get (abs s) cs := rfl

/-- Headline theorem: for EVERY history of add/get calls, started from any store, the observable
    outputs of the sparse array equal those of the dictionary specification. -/
theorem sparse_refines_dict (ops : List Op) (s : Store) : run s ops = specRun (abs s) ops := by
  induction ops generalizing s with
  | nil => rfl
  | cons op ops ih =>
    cases op with
    | add b a =>
      simp only [run, specRun, step, specStep]
      rw [ih, add_refines]
    | get cs =>
      simp only [run, specRun, step, specStep]
      rw [ih, get_refines]

/-- … in particular from the empty array (what `SparseNdArray(dim)` constructs). -/
theorem sparse_refines_dict_from_empty (ops : List Op) : run [] ops = specRun (fun _ => none) ops :=
  sparse_refines_dict ops []

/-- Reading a coordinate that the dictionary does not hold is an error (`ValueError`). -/
theorem get_missing_errors (s : Store) (cs : List Coord) (c : Coord) (hc : c ∈ cs)
    (hmiss : abs s c = none) : get s cs = none := by
  unfold get
  induction cs with
  | nil => cases hc
  | cons a cs ih =>
    rcases List.mem_cons.mp hc with rfl | h
    · simp [List.mapM_cons, show get1 s c = none from hmiss]
    · have := ih h
      simp only [List.mapM_cons, this]
      cases get1 s a <;> rfl

/-- Reading only stored coordinates succeeds and returns the stored values. -/
theorem get_present (s : Store) (cs : List Coord) (h : ∀ c ∈ cs, (abs s c).isSome) :
    get s cs = some (cs.map (fun c => (abs s c).getD 0)) := by
  unfold get
  induction cs with
  | nil => rfl
  | cons a cs ih =>
    have ha := h a (List.mem_cons_self)
    have := ih (fun c hc => h c (List.mem_cons_of_mem _ hc))
    simp only [List.mapM_cons, this]
    cases hg : get1 s a with
    | none => simp [abs, hg] at ha
    | some v => simp [abs, hg]

/-- Storage invariant: coordinates are stored at most once, in every reachable state. -/
theorem coords_nodup_step (s : Store) (batch : List (Coord × Rat)) (additive : Bool)
    (h : (s.map (·.1)).Nodup) : (((add s batch additive).1).map (·.1)).Nodup :=
  nodup_foldl_upsert additive _ _ s h

theorem coords_nodup_reachable (ops : List (List (Coord × Rat) × Bool)) :
    ((ops.foldl (fun s o => (add s o.1 o.2).1) []).map (·.1)).Nodup := by
  suffices ∀ s : Store, (s.map (·.1)).Nodup →
      ((ops.foldl (fun s o => (add s o.1 o.2).1) s).map (·.1)).Nodup from this [] (by simp)
  induction ops with
  | nil => intro s h; exact h
  | cons o ops ih => intro s h; exact ih _ (coords_nodup_step s o.1 o.2 h)

/-! ## Deepening round: order of `np.unique`, the vector returned by `add`, storage order,
    docstring corollaries, `value_dim = k` -/

/-- `lexLe` (column order of `np.unique(axis=1)`) is a total order on coordinates of any lengths:
    reflexive, total, transitive, antisymmetric. -/
theorem lexLe_total_order (a b c : Coord) :
    lexLe a a = true ∧ (lexLe a b = true ∨ lexLe b a = true) ∧
    (lexLe a b = true → lexLe b c = true → lexLe a c = true) ∧
    (lexLe a b = true → lexLe b a = true → a = b) :=
  ⟨lexLe_refl a, lexLe_total a b, lexLe_trans a b c, lexLe_antisymm a b⟩

/-- `isort` returns a sorted permutation of its input. -/
theorem isort_sorted_perm (l : List Coord) :
    (isort l).Pairwise (fun a b => lexLe a b = true) ∧ (isort l).Perm l :=
  ⟨sortedLe_isort l, perm_isort l⟩

/-- `uniqueCoords` (= `np.unique(coord_array, axis=1)`): strictly increasing, and exactly the
    coordinates of the batch. -/
theorem uniqueCoords_spec (keys : List Coord) :
    (uniqueCoords keys).Pairwise (fun a b => lexLe a b = true ∧ a ≠ b) ∧
    ∀ c, c ∈ uniqueCoords keys ↔ c ∈ keys :=
  ⟨sortedLt_uniqueCoords keys, fun c => mem_uniqueCoords c keys⟩

/-- The coordinates appended by `add`: strictly increasing, exactly the batch coordinates that
    were not stored before. -/
theorem freshCoords_spec (s : Store) (keys : List Coord) :
    (freshCoords s keys).Pairwise (fun a b => lexLe a b = true ∧ a ≠ b) ∧
    ∀ c, c ∈ freshCoords s keys ↔ (c ∈ keys ∧ abs s c = none) :=
  ⟨sortedLt_freshCoords s keys, mem_freshCoords s keys⟩

/-- Specification of the vector returned by `add` (`unique_2_all[~is_mem]`).  With `keys` the
    coordinates of the batch in the order given:
    (a) every returned position is a valid batch position, the coordinate there was not stored
        before, and it is the FIRST occurrence of that coordinate in the batch;
    (b) every coordinate that was new is listed;
    (c) the listed coordinates are strictly increasing lexicographically (so: one position per new
        distinct coordinate, in lexicographic order of the coordinates);
    (d) the positions are pairwise distinct. -/
theorem add_ret_spec (s : Store) (batch : List (Coord × Rat)) (additive : Bool) :
    (∀ i ∈ (add s batch additive).2, ∃ c, (batch.map (·.1))[i]? = some c ∧ abs s c = none ∧
        ∀ j, j < i → (batch.map (·.1))[j]? ≠ some c) ∧
    (∀ c ∈ batch.map (·.1), abs s c = none →
        ∃ i ∈ (add s batch additive).2, (batch.map (·.1))[i]? = some c) ∧
    (((add s batch additive).2).map (fun i => (batch.map (·.1)).getD i [])).Pairwise
        (fun a b => lexLe a b = true ∧ a ≠ b) ∧
    ((add s batch additive).2).Nodup := by
  have hr : (add s batch additive).2 =
      (freshCoords s (batch.map (·.1))).map (fun u => (batch.map (·.1)).idxOf u) := rfl
  have hmap := ret_map_getD s batch additive
  have hc : (((add s batch additive).2).map (fun i => (batch.map (·.1)).getD i [])).Pairwise
      (fun a b => lexLe a b = true ∧ a ≠ b) := by
    rw [hmap]; exact sortedLt_freshCoords s _
  refine ⟨?_, ?_, hc, ?_⟩
  · intro i hi
    rw [hr] at hi
    rcases List.mem_map.mp hi with ⟨u, hu, rfl⟩
    have hm := (mem_freshCoords s _ u).mp hu
    exact ⟨u, (idxOf_first _ u hm.1).1, hm.2, (idxOf_first _ u hm.1).2⟩
  · intro c hc hn
    refine ⟨(batch.map (·.1)).idxOf c, ?_, (idxOf_first _ c hc).1⟩
    rw [hr]
    exact List.mem_map.mpr ⟨c, (mem_freshCoords s _ c).mpr ⟨hc, hn⟩, rfl⟩
  · rw [List.pairwise_map] at hc
    exact List.Pairwise.imp (fun h e => h.2 (by rw [e])) hc

/-- Length of the returned vector = number of new distinct coordinates: it equals the length of
    ANY duplicate-free enumeration of the batch coordinates that were not stored before. -/
theorem add_ret_length (s : Store) (batch : List (Coord × Rat)) (additive : Bool) (l : List Coord)
    (hl : l.Nodup) (hm : ∀ c, c ∈ l ↔ (c ∈ batch.map (·.1) ∧ abs s c = none)) :
    ((add s batch additive).2).length = l.length := by
  show ((freshCoords s (batch.map (·.1))).map _).length = _
  rw [List.length_map]
  apply List.Perm.length_eq
  rw [List.perm_ext_iff_of_nodup (sortedLt_freshCoords s _).nodup hl]
  intro c
  rw [mem_freshCoords, hm]

/-- The specification (a)–(c) of `add_ret_spec` determines the returned vector uniquely. -/
theorem add_ret_unique (s : Store) (batch : List (Coord × Rat)) (additive : Bool) (r : List Nat)
    (ha : ∀ i ∈ r, ∃ c, (batch.map (·.1))[i]? = some c ∧ abs s c = none ∧
        ∀ j, j < i → (batch.map (·.1))[j]? ≠ some c)
    (hb : ∀ c ∈ batch.map (·.1), abs s c = none → ∃ i ∈ r, (batch.map (·.1))[i]? = some c)
    (hc : (r.map (fun i => (batch.map (·.1)).getD i [])).Pairwise
        (fun a b => lexLe a b = true ∧ a ≠ b)) :
    r = (add s batch additive).2 := by
  have hfresh : r.map (fun i => (batch.map (·.1)).getD i []) = freshCoords s (batch.map (·.1)) := by
    apply sortedLt_unique _ _ hc (sortedLt_freshCoords s _)
    intro x
    rw [mem_freshCoords, List.mem_map]
    constructor
    · rintro ⟨i, hi, rfl⟩
      rcases ha i hi with ⟨c, h1, h2, _⟩
      have : (batch.map (·.1)).getD i [] = c := by simp [List.getD_eq_getElem?_getD, h1]
      rw [this]
      exact ⟨List.mem_of_getElem? h1, h2⟩
    · rintro ⟨hx, hn⟩
      rcases hb x hx hn with ⟨i, hi, h1⟩
      exact ⟨i, hi, by simp [List.getD_eq_getElem?_getD, h1]⟩
  show r = (freshCoords s (batch.map (·.1))).map (fun u => (batch.map (·.1)).idxOf u)
  rw [← hfresh, List.map_map]
  symm
  calc _ = r.map id := by
        apply List.map_congr_left
        intro i hi
        rcases ha i hi with ⟨c, h1, _, h3⟩
        have hget : (batch.map (·.1)).getD i [] = c := by simp [List.getD_eq_getElem?_getD, h1]
        have hmem : c ∈ batch.map (·.1) := List.mem_of_getElem? h1
        have hf := idxOf_first _ c hmem
        simp only [Function.comp, hget, id]
        rcases Nat.lt_trichotomy ((batch.map (·.1)).idxOf c) i with h | h | h
        · exact absurd hf.1 (h3 _ h)
        · exact h
        · exact absurd h1 (hf.2 _ h)
    _ = r := List.map_id r

/-- Storage order after `add`: the old storage in its old order with the values updated in
    place, followed by the new distinct coordinates in lexicographic order (`freshCoords`, see
    `freshCoords_spec`) with their consolidated values. -/
theorem add_storage_order (s : Store) (batch : List (Coord × Rat)) (additive : Bool)
    (h : (s.map (·.1)).Nodup) :
    (add s batch additive).1 =
      s.map (fun p => (p.1, updated additive batch p)) ++
        (freshCoords s (batch.map (·.1))).map (fun u => (u, combine additive batch u)) :=
  add_storage_eq s batch additive h

/-- "Permutation vector applied before the coordinates and data were added to storage": the
    coordinates appended to the storage are the batch coordinates at the returned positions, in
    the order of the returned vector; the values stored with them are the consolidated values. -/
theorem add_ret_is_storage_permutation (s : Store) (batch : List (Coord × Rat)) (additive : Bool)
    (h : (s.map (·.1)).Nodup) :
    (add s batch additive).1 =
      s.map (fun p => (p.1, updated additive batch p)) ++
        ((add s batch additive).2).map (fun i =>
          ((batch.map (·.1)).getD i [], combine additive batch ((batch.map (·.1)).getD i []))) := by
  have e : ((add s batch additive).2).map (fun i =>
        ((batch.map (·.1)).getD i [], combine additive batch ((batch.map (·.1)).getD i []))) =
      (((add s batch additive).2).map (fun i => (batch.map (·.1)).getD i [])).map
        (fun u => (u, combine additive batch u)) := by
    rw [List.map_map]; rfl
  rw [e, ret_map_getD]
  exact add_storage_eq s batch additive h

/-- … in every reachable state (the duplicate-freeness hypothesis is an invariant). -/
theorem add_storage_order_reachable (ops : List (List (Coord × Rat) × Bool))
    (batch : List (Coord × Rat)) (additive : Bool) :
    let s := ops.foldl (fun s o => (add s o.1 o.2).1) []
    (add s batch additive).1 =
      s.map (fun p => (p.1, updated additive batch p)) ++
        (freshCoords s (batch.map (·.1))).map (fun u => (u, combine additive batch u)) :=
  add_storage_eq _ batch additive (coords_nodup_reachable ops)

/-! ### the docstring of `add`, sentence by sentence -/

/-- "If False, existing values will be overwritten by the new value (if there are duplicates in
    new coordinates the last of this coordinates are used)": the value read afterwards is the one
    given at the LAST occurrence of the coordinate in the batch, whatever was stored before. -/
theorem add_overwrite_last (s : Store) (pre post : List (Coord × Rat)) (c : Coord) (v : Rat)
    (h : c ∉ post.map (·.1)) :
    get (add s (pre ++ (c, v) :: post) false).1 [c] = some [v] := by
  have hv : vals c (pre ++ (c, v) :: post) = vals c pre ++ [v] := by
    unfold vals
    have : List.filter (fun p => decide (p.1 = c)) post = [] := by
      rw [List.filter_eq_nil_iff]
      intro p hp e
      exact h (List.mem_map.mpr ⟨p, hp, by simpa using e⟩)
    simp [List.filter_append, this]
  have : abs (add s (pre ++ (c, v) :: post) false).1 c = some v := by
    rw [abs_add_at, hv, specVal_overwrite']
    simp
  show List.mapM (get1 _) [c] = _
  rw [List.mapM_cons, show get1 (add s (pre ++ (c, v) :: post) false).1 c = some v from this]
  rfl

/-- "If True, values associated with duplicate coordinates (either between new and existing
    coordinates, or within the new coordinates) are added": the value read afterwards is the
    stored value (0 if the coordinate was new) plus the sum of ALL values given for it. -/
theorem add_additive_sum (s : Store) (batch : List (Coord × Rat)) (c : Coord)
    (h : c ∈ batch.map (·.1)) :
    get (add s batch true).1 [c] = some [(abs s c).getD 0 + (vals c batch).sum] := by
  have hsum : ∀ vs : List Rat, vs.foldl (· + ·) 0 = vs.sum := by
    intro vs
    induction vs with
    | nil => rfl
    | cons x xs ih => rw [List.foldl_cons, foldl_add_shift, ih, List.sum_cons]; grind
  have hne : vals c batch ≠ [] := fun e => ((vals_eq_nil_iff c batch).mp e) h
  have : abs (add s batch true).1 c = some ((abs s c).getD 0 + (vals c batch).sum) := by
    rw [abs_add_at, specVal_nonempty true _ _ hne, ← hsum]
    cases abs s c with
    | none => simp only [upd, if_true, Option.getD_none]; congr 1; grind
    | some e => simp [upd]
  show List.mapM (get1 _) [c] = _
  rw [List.mapM_cons, show get1 (add s batch true).1 c = _ from this]
  rfl

/-- Coordinates not mentioned in the batch keep their value (or stay absent). -/
theorem add_untouched (s : Store) (batch : List (Coord × Rat)) (additive : Bool) (c : Coord)
    (h : c ∉ batch.map (·.1)) : abs (add s batch additive).1 c = abs s c := by
  rw [abs_add_at, (vals_eq_nil_iff c batch).mpr h]
  rfl

/-! ### `value_dim = k`: what the driver executes (`addK`, `getK` on `k` value rows) -/

/-- The invariant "all rows hold the same coordinates" and the number of rows are preserved. -/
theorem addK_preserves (st : StoreK) (B : BatchK) (additive : Bool) (h : SameKeys st) :
    SameKeys (addK st B additive).1 ∧ (addK st B additive).1.length = st.length := by
  unfold addK
  split
  · exact ⟨h, rfl⟩
  · rcases h with ⟨ks, h⟩
    exact ⟨⟨_, sameKeys_addRows additive B ks 0 st h⟩, length_addRows additive B 0 st⟩

/-- One `add` on `k` rows commutes with the abstraction to a dictionary of value columns. -/
theorem addK_refines (st : StoreK) (B : BatchK) (additive : Bool)
    (hB : ∀ p ∈ B, p.2.length = st.length) (hk : SameKeys st) :
    absK (addK st B additive).1 = DictK.addBatch additive (absK st) B := by
  funext c
  unfold addK
  split
  · rename_i he
    have : B = [] := by simpa using he
    subst this
    rfl
  · rw [addBatchK_at]
    exact absK_addRows additive c st B hB hk

/-- `get` on `k` rows is the dictionary read, in the implementation's layout (`k` rows of `n`
    values), including the error case. -/
theorem getK_refines (st : StoreK) (cs : List Coord) :
    getK st cs = DictK.get st.length (absK st) cs := getK_eq st cs

/-- Headline theorem for `value_dim = k`: for EVERY history of well-formed add/get calls, started
    from any `k`-row store whose rows hold the same coordinates, the observable outputs equal
    those of a dictionary with `List Rat` values. -/
theorem sparseK_refines_dictK (ops : List OpK) (st : StoreK) (hk : SameKeys st)
    (hw : ∀ op ∈ ops, op.WF st.length) :
    runK st ops = specRunK st.length (absK st) ops := by
  induction ops generalizing st with
  | nil => rfl
  | cons op ops ih =>
    have hop := hw op List.mem_cons_self
    have hrest : ∀ o ∈ ops, o.WF st.length := fun o ho => hw o (List.mem_cons_of_mem _ ho)
    cases op with
    | add B a =>
      have hp := addK_preserves st B a hk
      simp only [runK, specRunK, stepK, specStepK]
      rw [ih _ hp.1 (by rw [hp.2]; exact hrest), addK_refines st B a hop hk, hp.2]
    | get cs =>
      simp only [runK, specRunK, stepK, specStepK]
      rw [ih _ hk hrest, getK_refines]

/-- … in particular from the empty array `SparseNdArray(dim, value_dim = k)`, `k ≥ 1`. -/
theorem sparseK_refines_dictK_from_empty (k : Nat) (hk : 0 < k) (ops : List OpK)
    (hw : ∀ op ∈ ops, op.WF k) :
    runK (List.replicate k []) ops = specRunK k (fun _ => none) ops := by
  have hs : SameKeys (List.replicate k ([] : Store)) :=
    ⟨[], fun s hs => by rw [(List.mem_replicate.mp hs).2]; rfl⟩
  have ha : absK (List.replicate k ([] : Store)) = fun _ => none := by
    funext c
    cases k with
    | zero => omega
    | succ k => rw [List.replicate_succ, absK_cons]; rfl
  have := sparseK_refines_dictK ops (List.replicate k []) hs (by simpa using hw)
  rwa [ha, List.length_replicate] at this

/-- The vector returned by `add` for `value_dim = k` depends on the coordinates only: it is the
    vector specified by `add_ret_spec` for the coordinate list of the batch. -/
theorem addK_ret (s : Store) (st : StoreK) (B : BatchK) (additive : Bool) :
    (addK (s :: st) B additive).2 =
      (freshCoords s (B.map (·.1))).map (fun u => (B.map (·.1)).idxOf u) := by
  unfold addK
  split
  · rename_i he
    have : B = [] := by simpa using he
    subst this
    rfl
  · show (freshCoords s ((rowBatch 0 B).map (·.1))).map
      (fun u => ((rowBatch 0 B).map (·.1)).idxOf u) = _
    rw [keys_rowBatch]


/-! ## Deepening round B: the property text clause by clause, neighbouring entry points -/

/-- Clause "reading a coordinate never inserted raises an error", for EVERY history: if `c`
    occurs in no batch of the `add` calls made so far, any `get` that asks for `c` raises. -/
theorem never_inserted_raises (adds : List (List (Coord × Rat) × Bool)) (cs : List Coord) (c : Coord)
    (hc : c ∈ cs) (h : ¬ insertedBy adds c) : get (reach adds) cs = none := by
  apply get_missing_errors _ cs c hc
  unfold abs
  rw [get1_eq_none_iff, mem_keys_reach]
  exact h

/-- Clause "reading any inserted coordinate returns the value a plain dictionary would hold under
    the same operations", for EVERY history: if every requested coordinate occurs in some earlier
    batch, `get` succeeds and returns the entries of the dictionary written by the same calls. -/
theorem inserted_reads_dict (adds : List (List (Coord × Rat) × Bool)) (cs : List Coord)
    (h : ∀ c ∈ cs, insertedBy adds c) :
    get (reach adds) cs = some (cs.map (fun c =>
      ((adds.foldl (fun d o => Dict.addBatch o.2 d o.1) (fun _ => none)) c).getD 0)) ∧
    ∀ c ∈ cs, ((adds.foldl (fun d o => Dict.addBatch o.2 d o.1) (fun _ => none)) c).isSome := by
  have ha : abs (reach adds) = adds.foldl (fun d o => Dict.addBatch o.2 d o.1) (fun _ => none) :=
    abs_foldl_add adds []
  have hs : ∀ c ∈ cs, (abs (reach adds) c).isSome := by
    intro c hc
    have := (mem_keys_reach adds c).mpr (h c hc)
    exact (get1_isSome_iff _ c).mpr this
  refine ⟨?_, fun c hc => ha ▸ hs c hc⟩
  rw [← ha]
  exact get_present _ cs hs

/-- Converse bookkeeping: a coordinate is stored after a history iff some `add` inserted it. -/
theorem stored_iff_inserted (adds : List (List (Coord × Rat) × Bool)) (c : Coord) :
    (abs (reach adds) c).isSome = true ↔ insertedBy adds c := by
  unfold abs
  rw [get1_isSome_iff, mem_keys_reach]

/-- `intersect_sets` matches columns by a proximity query with tolerance 1e-10; on integer
    columns of equal length, "squared distance below 1" already means equality, so the
    tolerance match is the exact match used by the model (`get1`, `upsert`). -/
theorem int_proximity_is_equality (a b : Coord) (h : a.length = b.length) :
    sqDist a b < 1 ↔ a = b := sqDist_lt_one a b h

/-- What `AdaptiveInterpolationTable._fill_values` relies on: for a batch of strictly increasing
    (hence distinct) coordinates none of which is stored, the returned vector is the identity
    `0, 1, …, n-1` (no permutation is applied), so `_pt` may be extended by `coord` as is. -/
theorem add_ret_sorted_fresh (s : Store) (batch : List (Coord × Rat)) (additive : Bool)
    (hs : (batch.map (·.1)).Pairwise (fun a b => lexLe a b = true ∧ a ≠ b))
    (hn : ∀ c ∈ batch.map (·.1), abs s c = none) :
    (add s batch additive).2 = List.range batch.length := by
  symm
  have hlen : (batch.map (·.1)).length = batch.length := List.length_map _
  apply add_ret_unique
  · intro i hi
    have hi' : i < (batch.map (·.1)).length := by rw [hlen]; exact List.mem_range.mp hi
    refine ⟨(batch.map (·.1))[i], List.getElem?_eq_getElem hi', hn _ (List.getElem_mem hi'), ?_⟩
    intro j hj e
    have hj' : j < (batch.map (·.1)).length := by omega
    rw [List.getElem?_eq_getElem hj', Option.some.injEq] at e
    exact (List.pairwise_iff_getElem.mp hs j i hj' hi' hj).2 e
  · intro c hc _
    rcases List.getElem_of_mem hc with ⟨i, hi, e⟩
    exact ⟨i, List.mem_range.mpr (by rw [← hlen]; exact hi), by rw [List.getElem?_eq_getElem hi, e]⟩
  · rw [← hlen, map_getD_range]
    exact hs

/-- `AdaptiveInterpolationTable.assign_values(val, coord, indices)` (the table's entry point to
    `SparseNdArray.add`): if `_pt` was aligned with the stored indices (`_pt[:, j]` is the grid
    point `g` of `_coords[:, j]`) and every given coordinate column is the grid point of its
    index, then afterwards
    (1) the table holds the dictionary overwritten with the batch,
    (2) `_pt` is still aligned — because `coord` is permuted by the vector that `add` returns —,
    (3) all value rows still share their coordinates. -/
theorem assignValues_spec (g : Coord → List Rat) (s : Store) (st : StoreK) (pts : List (List Rat))
    (B : BatchK) (hB : ∀ p ∈ B, p.2.length = (s :: st).length) (hk : SameKeys (s :: st))
    (hA : Aligned g (s :: st, pts)) :
    absK (assignValues (s :: st, pts) B (B.map (fun p => g p.1))).1 =
        DictK.addBatch false (absK (s :: st)) B ∧
    Aligned g (assignValues (s :: st, pts) B (B.map (fun p => g p.1))) ∧
    SameKeys (assignValues (s :: st, pts) B (B.map (fun p => g p.1))).1 := by
  refine ⟨addK_refines (s :: st) B false hB hk, ?_, (addK_preserves (s :: st) B false hk).1⟩
  unfold Aligned assignValues at *
  simp only [List.headD_cons] at hA
  show pts ++ ((addK (s :: st) B false).2).map _ = _
  rw [addK_ret]
  by_cases he : B.isEmpty = true
  · have : B = [] := by simpa using he
    subst this
    simp [addK, freshCoords, uniqueCoords, isort, dedup, hA]
  · have h1 : (addK (s :: st) B false).1 = addRows false B 0 (s :: st) := by
      unfold addK; rw [if_neg he]
    rw [h1, headD_addRows, keys_add, keys_rowBatch, List.map_append, ← hA, List.map_map]
    congr 1
    apply List.map_congr_left
    intro u hu
    have hk := ((mem_freshCoords s _ u).mp hu).1
    have e : B.map (fun p => g p.1) = (B.map (·.1)).map g := by rw [List.map_map]; rfl
    simp only [Function.comp, e]
    exact getD_map_idxOf g _ u hk


/-! ### non-vacuity: concrete histories (the replay of finding F15 among them) -/

/-- F15 history: add [2]→1, add [0]→5, add {[0]→10,[2]→20}, get [0],[2]  gives [10,20]. -/
example :
    run [] [.add [([2], 1)] false, .add [([0], 5)] false, .add [([0], 10), ([2], 20)] false,
            .get [[0], [2]]] = [none, none, none, some (some [10, 20])] := by decide +kernel

example : run [] [.add [([1, 2], 3), ([1, 2], 4)] true, .get [[1, 2]], .get [[0, 0]]]
    = [none, some (some [7]), some none] := by decide +kernel

/-! ### non-vacuity of the deepening-round theorems -/

example : lexLe [1, -5] [1, 2] = true ∧ lexLe [1, 2] [1, -5] = false ∧ lexLe [-1000000] [1000000] = true := by
  decide

example : isort [[2, 1], [0, 5], [2, -1], [0, 5]] = [[0, 5], [0, 5], [2, -1], [2, 1]] := by decide

example : uniqueCoords [[2, 1], [0, 5], [2, -1], [0, 5]] = [[0, 5], [2, -1], [2, 1]] := by decide

/-- stored: (0,5); batch: (2,1) (0,5) (2,1) (-1,7) (-1,7).  New are (-1,7) < (2,1); their first
    occurrences are at positions 3 and 0. -/
example : (add [([0, 5], 1)] [([2, 1], 1), ([0, 5], 2), ([2, 1], 3), ([-1, 7], 4), ([-1, 7], 5)] false).2
    = [3, 0] := by decide +kernel

/-- returned vector [3, 0] and appended storage (-1,7), (2,1) = batch[3], batch[0] -/
example : (add [([0, 5], 1)] [([2, 1], 1), ([0, 5], 2), ([2, 1], 3), ([-1, 7], 4), ([-1, 7], 5)] false).1
    = [([0, 5], 2), ([-1, 7], 5), ([2, 1], 3)] := by decide +kernel

/-- the hypotheses of `add_ret_length` are satisfiable for every input -/
example (s : Store) (batch : List (Coord × Rat)) :
    ∃ l : List Coord, l.Nodup ∧ ∀ c, c ∈ l ↔ (c ∈ batch.map (·.1) ∧ abs s c = none) :=
  ⟨freshCoords s (batch.map (·.1)), (sortedLt_freshCoords s _).nodup, mem_freshCoords s _⟩

/-- the hypotheses of `add_ret_unique` are satisfiable for every input (by the returned vector) -/
example (s : Store) (batch : List (Coord × Rat)) (a : Bool) :
    ∃ r : List Nat,
      (∀ i ∈ r, ∃ c, (batch.map (·.1))[i]? = some c ∧ abs s c = none ∧
        ∀ j, j < i → (batch.map (·.1))[j]? ≠ some c) ∧
      (∀ c ∈ batch.map (·.1), abs s c = none → ∃ i ∈ r, (batch.map (·.1))[i]? = some c) ∧
      (r.map (fun i => (batch.map (·.1)).getD i [])).Pairwise (fun a b => lexLe a b = true ∧ a ≠ b) :=
  ⟨_, (add_ret_spec s batch a).1, (add_ret_spec s batch a).2.1, (add_ret_spec s batch a).2.2.1⟩

/-- storage order: old entries keep their place (values updated), new ones follow sorted -/
example : (add [([2], 1), ([0], 5)] [([0], 10), ([3], 7), ([2], 20), ([1], 8), ([3], 9)] false).1
    = [([2], 20), ([0], 10), ([1], 8), ([3], 9)] := by decide +kernel

example : (([([2], (1 : Rat)), ([0], 5)] : Store).map (·.1)).Nodup := by decide

example : get (add [([1], 7)] ([([1], 2)] ++ ([1], 3) :: [([0], 4)]) false).1 [[1]] = some [3] :=
  add_overwrite_last _ _ _ _ _ (by decide)

example : get (add [([1], 7)] [([1], 2), ([0], 4), ([1], 3)] true).1 [[1]] = some [12] := by
  decide +kernel

example : get (add [] [([1], 2), ([0], 4), ([1], 3)] true).1 [[1]] = some [5] := by
  decide +kernel

example : abs (add [([1], 7)] [([0], 4)] true).1 [1] = abs [([1], 7)] [1] :=
  add_untouched _ _ _ _ (by decide)

/-- value_dim = 2: additive batch with an in-batch duplicate, overwrite of one coordinate, reads
    in both orders, read of a missing coordinate -/
example :
    runK (List.replicate 2 [])
      [.add [([1], [1, 10]), ([0], [2, 20]), ([1], [3, 30])] true, .get [[1], [0]],
       .add [([0], [5, 50])] false, .get [[0], [1]], .get [[7]]]
    = [none, some (some [[4, 2], [40, 20]]), none, some (some [[5, 4], [50, 40]]), some none] := by
  decide +kernel

/-- … and the hypotheses of the headline theorem hold for that history -/
example :
    runK (List.replicate 2 [])
      [.add [([1], [1, 10]), ([0], [2, 20]), ([1], [3, 30])] true, .get [[1], [0]]]
    = specRunK 2 (fun _ => none)
      [.add [([1], [1, 10]), ([0], [2, 20]), ([1], [3, 30])] true, .get [[1], [0]]] :=
  sparseK_refines_dictK_from_empty 2 (by decide) _ (by
    intro op h
    simp only [List.mem_cons, List.not_mem_nil, or_false] at h
    rcases h with rfl | rfl
    · intro p hp
      simp only [List.mem_cons, List.not_mem_nil, or_false] at hp
      rcases hp with rfl | rfl | rfl <;> rfl
    · trivial)

example : SameKeys [[([1], 2), ([0], 3)], [([1], 5), ([0], 7)]] := ⟨[[1], [0]], by simp⟩

example : (addK [[([0, 5], 1)], [([0, 5], 2)]]
    [([2, 1], [1, 1]), ([0, 5], [2, 2]), ([2, 1], [3, 3]), ([-1, 7], [4, 4])] false).2 = [3, 0] := by
  decide +kernel

/-! ### non-vacuity of the round-B theorems -/

example : get (reach [([([1], 2)], false), ([([0], 3), ([1], 4)], true)]) [[1], [5]] = none :=
  never_inserted_raises _ _ [5] (by decide) (by
    rintro ⟨o, ho, h⟩
    simp only [List.mem_cons, List.not_mem_nil, or_false] at ho
    rcases ho with rfl | rfl <;> simp at h)

example : get (reach [([([1], 2)], false), ([([0], 3), ([1], 4)], true)]) [[1], [0], [1]]
    = some [6, 3, 6] := by decide +kernel

/-- the hypothesis of `inserted_reads_dict` holds for that history and inquiry -/
example : ∀ c ∈ [[1], [0], [1]],
    insertedBy [([([1], 2)], false), ([([0], 3), ([1], (4 : Rat))], true)] c := by
  intro c hc
  refine ⟨([([0], 3), ([1], 4)], true), by simp, ?_⟩
  simp only [List.mem_cons, List.not_mem_nil, or_false] at hc
  rcases hc with rfl | rfl | rfl <;> simp

example : sqDist [1000000, -1] [999999, -1] = 1 ∧ sqDist [1000000, -1] [1000000, -1] = 0 := by decide

example : (add [([5], 1)] [([0], 1), ([2], 2), ([7], 3)] false).2 = List.range 3 :=
  add_ret_sorted_fresh _ _ _ (by decide) (by decide)

/-- adaptive table with base point 0, resolution 1/2: index 2 is stored with `_pt` column 1;
    assigning indices 3, 0, 3 with their grid points keeps `_pt` aligned (columns 0 and 3/2 are
    appended in the order of the sorted new indices) -/
example : Aligned (gridPoint [0] [1 / 2]) ([[([2], 5)]], [[1]]) := by
  unfold Aligned; decide +kernel

example : assignValues ([[([2], 5)]], [[1]]) [([3], [7]), ([0], [8]), ([3], [9])]
      ([([3], [7]), ([0], [8]), ([3], [(9 : Rat)])].map (fun p => gridPoint [0] [1 / 2] p.1))
    = ([[([2], 5), ([0], 8), ([3], 9)]], [[1], [0], [3 / 2]]) := by decide +kernel

end PorepyVerif.C46
