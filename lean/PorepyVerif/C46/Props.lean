/-
C46 — property theorems (statements only depend on Model.lean; helper lemmas in Lemmas.lean).

Property: after any sequence of additive or overwriting insertions (duplicates inside and across
batches), reading any inserted coordinate returns what a plain dictionary would hold, and reading
a coordinate never inserted raises.
-/
import PorepyVerif.C46.Lemmas

namespace PorepyVerif.C46

/-- One `add` call commutes with the abstraction to a dictionary: the stored array afterwards
    represents exactly the dictionary obtained by writing the batch entry by entry, in order. -/
theorem add_refines (s : Store) (batch : List (Coord × Rat)) (additive : Bool) :
    abs (add s batch additive).1 = Dict.addBatch additive (abs s) batch := by
  funext c
  rw [addBatch_at]
  show abs (List.foldl _ s (uniqueCoords (batch.map (·.1)))) c = _
  rw [abs_foldl_upsert additive (combine additive batch) _ (nodup_uniqueCoords _)]
  by_cases hc : c ∈ batch.map (·.1)
  · rw [if_pos ((mem_uniqueCoords c _).mpr hc)]
    have hne : vals c batch ≠ [] := fun e => ((vals_eq_nil_iff c batch).mp e) hc
    rw [specVal_nonempty additive _ _ hne]
    rfl
  · rw [if_neg (fun h => hc ((mem_uniqueCoords c _).mp h))]
    rw [(vals_eq_nil_iff c batch).mpr hc]
    rfl

/-- `get` on the array is `get` on the dictionary (including the error case). -/
theorem get_refines (s : Store) (cs : List Coord) : get s cs = Dict.get (abs s) cs := rfl

/-- Headline theorem: for EVERY history of add/get calls, started from any store, the observable
    outputs of the sparse array equal those of the dictionary specification. -/
theorem sparse_refines_dict (ops : List Op) (s : Store) : run s ops = specRun (abs s) ops := by
  induction ops generalizing s with
  | nil => rfl
  | cons op ops ih =>
    cases op with
    | add b a =>
      simp only [run, specRun, step, specStep]
      rw [ih, add_refines]
    | get cs =>
      simp only [run, specRun, step, specStep]
      rw [ih, get_refines]

/-- … in particular from the empty array (what `SparseNdArray(dim)` constructs). -/
theorem sparse_refines_dict_from_empty (ops : List Op) : run [] ops = specRun (fun _ => none) ops :=
  sparse_refines_dict ops []

/-- Reading a coordinate that the dictionary does not hold is an error (`ValueError`). -/
theorem get_missing_errors (s : Store) (cs : List Coord) (c : Coord) (hc : c ∈ cs)
    (hmiss : abs s c = none) : get s cs = none := by
  unfold get
  induction cs with
  | nil => cases hc
  | cons a cs ih =>
    rcases List.mem_cons.mp hc with rfl | h
    · simp [List.mapM_cons, show get1 s c = none from hmiss]
    · have := ih h
      simp only [List.mapM_cons, this]
      cases get1 s a <;> rfl

/-- Reading only stored coordinates succeeds and returns the stored values. -/
theorem get_present (s : Store) (cs : List Coord) (h : ∀ c ∈ cs, (abs s c).isSome) :
    get s cs = some (cs.map (fun c => (abs s c).getD 0)) := by
  unfold get
  induction cs with
  | nil => rfl
  | cons a cs ih =>
    have ha := h a (List.mem_cons_self)
    have := ih (fun c hc => h c (List.mem_cons_of_mem _ hc))
    simp only [List.mapM_cons, this]
    cases hg : get1 s a with
    | none => simp [abs, hg] at ha
    | some v => simp [abs, hg]

/-- Storage invariant: coordinates are stored at most once, in every reachable state. -/
theorem coords_nodup_step (s : Store) (batch : List (Coord × Rat)) (additive : Bool)
    (h : (s.map (·.1)).Nodup) : (((add s batch additive).1).map (·.1)).Nodup :=
  nodup_foldl_upsert additive _ _ s h

theorem coords_nodup_reachable (ops : List (List (Coord × Rat) × Bool)) :
    ((ops.foldl (fun s o => (add s o.1 o.2).1) []).map (·.1)).Nodup := by
  suffices ∀ s : Store, (s.map (·.1)).Nodup →
      ((ops.foldl (fun s o => (add s o.1 o.2).1) s).map (·.1)).Nodup from this [] (by simp)
  induction ops with
  | nil => intro s h; exact h
  | cons o ops ih => intro s h; exact ih _ (coords_nodup_step s o.1 o.2 h)

/-! ### non-vacuity: concrete histories (the replay of finding F15 among them) -/

/-- F15 history: add [2]→1, add [0]→5, add {[0]→10,[2]→20}, get [0],[2]  gives [10,20]. -/
example :
    run [] [.add [([2], 1)] false, .add [([0], 5)] false, .add [([0], 10), ([2], 20)] false,
            .get [[0], [2]]] = [none, none, none, some (some [10, 20])] := by decide +kernel

example : run [] [.add [([1, 2], 3), ([1, 2], 4)] true, .get [[1, 2]], .get [[0, 0]]]
    = [none, some (some [7]), some none] := by decide +kernel

end PorepyVerif.C46
