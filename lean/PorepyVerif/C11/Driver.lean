/- C11 line-protocol driver: `lake env lean --run PorepyVerif/C11/Driver.lean`

   op "region": one interaction region.
     {"op":"region","d":2,
      "cells":[{"x":[..],"K":[[..],..],"p":"r"}, ..],
      "faces":[{"kind":"int","i":0,"j":1,"n":[..],"xc":[..]},
               {"kind":"dir","i":0,"n":[..],"xc":[..],"val":"r"},
               {"kind":"neu","i":0,"sgn":"1","n":[..],"xc":[..],"val":"r"}, ..],
      optional "a":[..],"b":"r","K":[[..]]   -- overwrite the data by those of the affine field }
   answer: wf, solved, resid (computed gradients satisfy every row), flux / pres per sub-face, and for an
   affine field: consistent (g ≡ a satisfies every row — the executable `local_consistency`),
   is_a (computed gradients equal a), exact_flux, exact_pres. -/
import PorepyVerif.Common.Wire
import PorepyVerif.C11.Model
open Lean PV PorepyVerif.C11

def jCell (j : Json) : R SubCell := do
  let x ← fRats j "x"
  let K ← fRatss j "K"
  let p ← jRat (fieldD j "p" (Json.str "0"))
  pure { x := x, K := K, p := p }

def jFace (j : Json) : R SubFace := do
  let n ← fRats j "n"
  let xc ← fRats j "xc"
  let kind ← fStr j "kind"
  let i ← fNat j "i"
  let v ← jRat (fieldD j "val" (Json.str "0"))
  match kind with
  | "int" => do
      let k ← fNat j "j"
      pure { n := n, xc := xc, kind := .interior i k }
  | "dir" => pure { n := n, xc := xc, kind := .dirichlet i v }
  | "neu" => do
      let s ← fRat j "sgn"
      pure { n := n, xc := xc, kind := .neumann i s v }
  | _ => throw s!"unknown sub-face kind {kind}"

def regionOp (j : Json) : R Json := do
  let d ← fNat j "d"
  let cells ← field j "cells" >>= jList jCell
  let faces ← field j "faces" >>= jList jFace
  let R0 : Region := { cells := cells, faces := faces }
  let aff : Option (Mat × Vec × Rat) ←
    match j.getObjVal? "a" with
    | .ok _ => do
        let a ← fRats j "a"
        let b ← fRat j "b"
        let K ← fRatss j "K"
        pure (some (K, a, b))
    | .error _ => pure none
  let Rg : Region := match aff with
    | some (K, a, b) => R0.withAffine K a b
    | none => R0
  let wf := decide (Rg.WF d)
  let base : List (String × Json) :=
    [("wf", Json.bool wf), ("unknowns", ofNat (Rg.cells.length * d)), ("rows", ofNat (Rg.rows d).length)]
  let affOut : List (String × Json) := match aff with
    | some (K, a, b) =>
        [("affine_data", Json.bool (decide (Rg.AffineData K a b))),
         ("consistent", Json.bool (decide (Rg.Consistent (fun _ => a)))),
         ("exact_flux", ofRats (Rg.faces.map (fun f => -(nKg f.n K a)))),
         ("exact_pres", ofRats (Rg.faces.map (fun f => affine a b f.xc)))]
    | none => []
  match Rg.solve d with
  | none => pure (obj (base ++ affOut ++ [("solved", Json.bool false)]))
  | some s =>
    let G := gradFn s.G
    let isA : List (String × Json) := match aff with
      | some (_, a, _) => [("is_a", Json.bool (s.G.all (fun g => g == a)))]
      | none => []
    pure (obj (base ++ affOut ++ isA ++
      [("solved", Json.bool true),
       ("resid", Json.bool (decide (Rg.Consistent G))),
       ("flux", ofRats (Rg.faces.map (fun f => f.flux Rg G))),
       ("pres", ofRats (Rg.faces.map (fun f => f.pres Rg G)))]))

def jPair (j : Json) : R (Nat × Rat) := do
  match j with
  | .arr a =>
    if h : a.size = 2 then do
      let c ← jNat a[0]
      let s ← jRat a[1]
      pure (c, s)
    else throw "face_cells entry must be [cell, sign]"
  | _ => throw "face_cells entry must be [cell, sign]"

def colJson (c : List Rat × List Rat) : Json := obj [("flux", ofRats c.1), ("pres", ofRats c.2)]

/-- op "mpfa2d": the whole 2-D grid; answers the four matrices column by column -/
def mpfa2dOp (j : Json) : R Json := do
  let nodes ← fRatss j "nodes"
  let faceNodes ← fNatss j "face_nodes"
  let faceCells ← field j "face_cells" >>= jList (jList jPair)
  let cc ← fRatss j "cc"
  let fc ← fRatss j "fc"
  let fn ← fRatss j "fn"
  let perm ← field j "perm" >>= jList (jList (jList jRat))
  let isDir ← field j "is_dir" >>= jList jBool
  let eta ← fRat j "eta"
  let G : Grid2 := { nodes := nodes, faceNodes := faceNodes, faceCells := faceCells, cellCenters := cc,
                     faceCenters := fc, faceNormals := fn, perm := perm, isDir := isDir, eta := eta }
  let wf := decide G.WF
  match G.certs with
  | none => pure (obj [("wf", Json.bool wf), ("solved", Json.bool false)])
  | some Ls =>
    let cellCols := (List.range G.numCells).map (fun c => colJson (G.apply Ls (Grid2.unit G.numCells c) []))
    let faceCols := (List.range G.numFaces).map (fun f =>
      if G.isBoundary f then colJson (G.apply Ls [] (Grid2.unit G.numFaces f)) else Json.null)
    let affOut : List (String × Json) ←
      match j.getObjVal? "a" with
      | .ok _ => do
          let a ← fRats j "a"
          let b ← fRat j "b"
          let K ← fRatss j "K"
          let d := G.affineData K a b
          let r := G.apply Ls d.1 d.2
          pure [("aff", colJson r),
                ("exact_flux", ofRats ((List.range G.numFaces).map (fun f => -(nKg (G.fnAt f) K a)))),
                ("exact_pres", ofRats ((List.range G.numFaces).map (fun f => affine a b (G.fcAt f))))]
      | .error _ => pure []
    pure (obj ([("wf", Json.bool wf), ("solved", Json.bool true),
                ("cell_cols", Json.arr cellCols.toArray), ("face_cols", Json.arr faceCols.toArray)] ++ affOut))

def step (j : Json) : R Json := do
  let op ← fStr j "op"
  match op with
  | "region" => regionOp j
  | "mpfa2d" => mpfa2dOp j
  | _ => throw s!"unknown op {op}"

def main : IO Unit := runPure step
