/-
C11 — helper lemmas: bilinearity of the list dot product, block placement, the left-inverse
certificate, and the link between the propositional rows (`SubFace.holds`) and the assembled
linear system (`Region.rows`).  Core Lean only (no Mathlib): arithmetic goals are closed by `grind`.
-/
import PorepyVerif.C11.Model

namespace PorepyVerif.C11

/-! ## a few `simp` facts about `Rat` (core Lean only; arithmetic goals are closed by `grind`) -/

@[simp] theorem q_add_zero (a : Rat) : a + 0 = a := by grind
@[simp] theorem q_zero_add (a : Rat) : 0 + a = a := by grind
@[simp] theorem q_sub_zero (a : Rat) : a - 0 = a := by grind
@[simp] theorem q_mul_zero (a : Rat) : a * 0 = 0 := by grind
@[simp] theorem q_zero_mul (a : Rat) : 0 * a = 0 := by grind
@[simp] theorem q_neg_zero : -(0 : Rat) = 0 := by grind

/-! ## dot product -/

@[simp] theorem dot_nil_left (y : Vec) : dot [] y = 0 := by unfold dot; rfl
@[simp] theorem dot_nil_right (x : Vec) : dot x [] = 0 := by cases x <;> (unfold dot; rfl)
@[simp] theorem dot_cons (a b : Rat) (x y : Vec) : dot (a :: x) (b :: y) = a * b + dot x y := by
  rw [dot]

@[simp] theorem vsub_nil_left (y : Vec) : vsub [] y = [] := by unfold vsub; rfl
@[simp] theorem vsub_nil_right (x : Vec) : vsub x [] = [] := by cases x <;> (unfold vsub; rfl)
@[simp] theorem vsub_cons (a b : Rat) (x y : Vec) : vsub (a :: x) (b :: y) = (a - b) :: vsub x y := by
  rw [vsub]

@[simp] theorem vadd_nil_left (y : Vec) : vadd [] y = [] := by unfold vadd; rfl
@[simp] theorem vadd_nil_right (x : Vec) : vadd x [] = [] := by cases x <;> (unfold vadd; rfl)
@[simp] theorem vadd_cons (a b : Rat) (x y : Vec) : vadd (a :: x) (b :: y) = (a + b) :: vadd x y := by
  rw [vadd]

@[simp] theorem smul_nil (c : Rat) : smul c [] = [] := rfl
@[simp] theorem smul_cons (c a : Rat) (x : Vec) : smul c (a :: x) = (c * a) :: smul c x := rfl
@[simp] theorem length_smul (c : Rat) (x : Vec) : (smul c x).length = x.length := by simp [smul]
@[simp] theorem length_zeros (n : Nat) : (zeros n).length = n := by simp [zeros]
theorem zeros_succ (n : Nat) : zeros (n + 1) = 0 :: zeros n := rfl

theorem length_vsub (x y : Vec) (h : x.length = y.length) : (vsub x y).length = x.length := by
  induction x generalizing y with
  | nil => simp
  | cons a x ih =>
    cases y with
    | nil => simp at h
    | cons b y => simp at h; simp [ih y h]

theorem length_vadd (x y : Vec) (h : x.length = y.length) : (vadd x y).length = x.length := by
  induction x generalizing y with
  | nil => simp
  | cons a x ih =>
    cases y with
    | nil => simp at h
    | cons b y => simp at h; simp [ih y h]

theorem dot_comm (x y : Vec) : dot x y = dot y x := by
  induction x generalizing y with
  | nil => simp
  | cons a x ih =>
    cases y with
    | nil => simp
    | cons b y => simp [ih y]; grind

@[simp] theorem dot_zeros_left (n : Nat) (y : Vec) : dot (zeros n) y = 0 := by
  induction n generalizing y with
  | zero => simp [zeros]
  | succ n ih =>
    cases y with
    | nil => simp
    | cons b y => simp [zeros_succ, ih]

@[simp] theorem dot_zeros_right (n : Nat) (x : Vec) : dot x (zeros n) = 0 := by
  rw [dot_comm]; simp

theorem dot_smul_left (c : Rat) (x y : Vec) : dot (smul c x) y = c * dot x y := by
  induction x generalizing y with
  | nil => simp
  | cons a x ih =>
    cases y with
    | nil => simp
    | cons b y => simp [ih]; grind

/-- `a·(x − y) = a·x − a·y` for vectors `x`, `y` of equal length -/
theorem dot_vsub (a x y : Vec) (h : x.length = y.length) : dot a (vsub x y) = dot a x - dot a y := by
  induction a generalizing x y with
  | nil => simp
  | cons a0 a ih =>
    cases x with
    | nil => cases y with
      | nil => simp
      | cons _ _ => simp at h
    | cons x0 x =>
      cases y with
      | nil => simp at h
      | cons y0 y => simp at h; simp [ih x y h]; grind

theorem dot_vsub_left (u v y : Vec) (h : u.length = v.length) :
    dot (vsub u v) y = dot u y - dot v y := by
  rw [dot_comm, dot_vsub y u v h, dot_comm y u, dot_comm y v]

theorem dot_vadd_left (u v y : Vec) (h : u.length = v.length) :
    dot (vadd u v) y = dot u y + dot v y := by
  induction y generalizing u v with
  | nil => simp
  | cons y0 y ih =>
    cases u with
    | nil => cases v with
      | nil => simp
      | cons _ _ => simp at h
    | cons u0 u =>
      cases v with
      | nil => simp at h
      | cons v0 v => simp at h; simp [ih u v h]; grind

theorem dot_append (a a' b b' : Vec) (h : a.length = b.length) :
    dot (a ++ a') (b ++ b') = dot a b + dot a' b' := by
  induction a generalizing b with
  | nil =>
    cases b with
    | nil => simp
    | cons _ _ => simp at h
  | cons a0 a ih =>
    cases b with
    | nil => simp at h
    | cons b0 b => simp at h; simp [ih b h]; grind

/-! ## row vector times matrix -/

@[simp] theorem vecMat_nil_left (w : Nat) (A : Mat) : vecMat w [] A = zeros w := by
  unfold vecMat; rfl
@[simp] theorem vecMat_nil_right (w : Nat) (l : Vec) : vecMat w l [] = zeros w := by
  cases l <;> (unfold vecMat; rfl)
@[simp] theorem vecMat_cons (w : Nat) (b : Rat) (l : Vec) (r : Vec) (A : Mat) :
    vecMat w (b :: l) (r :: A) = vadd (smul b r) (vecMat w l A) := by rw [vecMat]

theorem length_vecMat (w : Nat) (l : Vec) (A : Mat) (hA : ∀ r ∈ A, r.length = w) :
    (vecMat w l A).length = w := by
  induction l generalizing A with
  | nil => simp
  | cons b l ih =>
    cases A with
    | nil => simp
    | cons r A =>
      have hr : r.length = w := hA r (by simp)
      have hrest := ih A (fun r' hr' => hA r' (by simp [hr']))
      rw [vecMat_cons, length_vadd _ _ (by simp [hr, hrest])]
      simp [hr]

@[simp] theorem mulVec_nil (y : Vec) : mulVec [] y = [] := rfl
@[simp] theorem mulVec_cons (r : Vec) (A : Mat) (y : Vec) : mulVec (r :: A) y = dot r y :: mulVec A y := rfl
@[simp] theorem length_mulVec (A : Mat) (y : Vec) : (mulVec A y).length = A.length := by simp [mulVec]

/-- `(l·A)·y = l·(A y)` for a matrix `A` of width `w` -/
theorem dot_vecMat (w : Nat) (l : Vec) (A : Mat) (y : Vec) (hA : ∀ r ∈ A, r.length = w) :
    dot (vecMat w l A) y = dot l (mulVec A y) := by
  induction l generalizing A with
  | nil => simp
  | cons b l ih =>
    cases A with
    | nil => simp
    | cons r A =>
      have hr : r.length = w := hA r (by simp)
      have hA' : ∀ r' ∈ A, r'.length = w := fun r' hr' => hA r' (by simp [hr'])
      rw [vecMat_cons, dot_vadd_left _ _ _ (by simp [hr, length_vecMat w l A hA']), dot_smul_left,
        ih A hA']
      simp

theorem mulVec_zeros (K : Mat) (n : Nat) : mulVec K (zeros n) = zeros K.length := by
  induction K with
  | nil => rfl
  | cons r K ih => simp [ih, zeros_succ]

theorem nKg_zeros (n : Vec) (K : Mat) (k : Nat) : nKg n K (zeros k) = 0 := by
  simp [nKg, mulVec_zeros]

/-- `n·(K g) = (n·K)·g` for a `d × d` permeability -/
theorem nKg_eq (d : Nat) (n : Vec) (K : Mat) (g : Vec) (hK : ∀ r ∈ K, r.length = d) :
    dot (vecMat d n K) g = nKg n K g := dot_vecMat d n K g hK

/-! ## identity matrix and the left-inverse certificate -/

theorem mulVec_map_cons_zero (A : Mat) (y0 : Rat) (y : Vec) :
    mulVec (A.map (fun r => 0 :: r)) (y0 :: y) = mulVec A y := by
  induction A with
  | nil => rfl
  | cons r A ih => simp [ih]

theorem mulVec_identity (n : Nat) (y : Vec) (h : y.length = n) : mulVec (identity n) y = y := by
  induction n generalizing y with
  | zero => cases y with
    | nil => rfl
    | cons _ _ => simp at h
  | succ n ih =>
    cases y with
    | nil => simp at h
    | cons y0 y =>
      simp at h
      rw [identity, mulVec_cons, mulVec_map_cons_zero, ih y h]
      simp

theorem mulVec_map_vecMat (w : Nat) (L A : Mat) (y : Vec) (hA : ∀ r ∈ A, r.length = w) :
    mulVec (L.map (fun l => vecMat w l A)) y = mulVec L (mulVec A y) := by
  induction L with
  | nil => rfl
  | cons l L ih => simp [ih, dot_vecMat w l A y hA]

/-- What a passing certificate means: `L (A y) = y` for every `y` with `n` components. -/
theorem leftInvOK_apply (n : Nat) (L A : Mat) (h : leftInvOK n L A = true) (y : Vec)
    (hy : y.length = n) : mulVec L (mulVec A y) = y := by
  unfold leftInvOK at h
  simp only [Bool.and_eq_true, List.all_eq_true, beq_iff_eq] at h
  obtain ⟨⟨_, hA⟩, hI⟩ := h
  have hA' : ∀ r ∈ A, r.length = n := fun r hr => by simpa using hA r hr
  rw [← mulVec_map_vecMat n L A y hA', hI, mulVec_identity n y hy]

/-! ## blocks -/

theorem length_place (d m i : Nat) (v : Vec) (hv : v.length = d) (hi : i < m) :
    (place d m i v).length = m * d := by
  induction m generalizing i with
  | zero => omega
  | succ m ih =>
    cases i with
    | zero => simp [place, hv]; grind
    | succ i =>
      simp [place, ih i (by omega)]; grind

/-- `(0,…,v,…,0)·(g_0,…,g_{m-1}) = v·g_i` -/
theorem dot_place (d m i : Nat) (v : Vec) (Gs : List Vec) (hlen : Gs.length = m)
    (hG : ∀ g ∈ Gs, g.length = d) (hv : v.length = d) (hi : i < m) :
    dot (place d m i v) Gs.flatten = dot v (Gs.getD i []) := by
  induction m generalizing i Gs with
  | zero => omega
  | succ m ih =>
    cases Gs with
    | nil => simp at hlen
    | cons g Gs =>
      have hg : g.length = d := hG g (by simp)
      simp at hlen
      cases i with
      | zero =>
        simp only [place, List.flatten_cons]
        rw [dot_append _ _ _ _ (by rw [hv, hg])]
        simp
      | succ i =>
        simp only [place, List.flatten_cons]
        rw [dot_append _ _ _ _ (by simp [hg])]
        rw [ih i Gs hlen (fun g' hg' => hG g' (by simp [hg'])) (by omega)]
        simp

theorem length_flatten_blocks (d : Nat) (Gs : List Vec) (hG : ∀ g ∈ Gs, g.length = d) :
    Gs.flatten.length = Gs.length * d := by
  induction Gs with
  | nil => simp
  | cons g Gs ih =>
    have hg : g.length = d := hG g (by simp)
    simp [hg, ih (fun g' hg' => hG g' (by simp [hg']))]; grind

theorem chunks_flatten (d : Nat) (Gs : List Vec) (hG : ∀ g ∈ Gs, g.length = d) :
    chunks d Gs.length Gs.flatten = Gs := by
  induction Gs with
  | nil => rfl
  | cons g Gs ih =>
    have hg : g.length = d := hG g (by simp)
    simp only [List.length_cons, chunks, List.flatten_cons]
    rw [List.take_left' hg, List.drop_left' hg, ih (fun g' hg' => hG g' (by simp [hg']))]

/-! ## cells -/

theorem cellAt_mem (R : Region) (i : Nat) (h : i < R.cells.length) : R.cellAt i ∈ R.cells := by
  unfold Region.cellAt
  rw [List.getD_eq_getElem?_getD, List.getElem?_eq_getElem h]
  exact List.getElem_mem h

theorem presAt_affine (c : SubCell) (a : Vec) (b : Rat) (xc : Vec) (hp : c.p = affine a b c.x)
    (hl : xc.length = c.x.length) : presAt c a xc = affine a b xc := by
  unfold presAt affine at *
  rw [hp, dot_vsub a xc c.x hl]; grind

/-- a row only looks at the gradients of the sub-cells it refers to -/
theorem holds_congr (R : Region) (G G' : Nat → Vec) (f : SubFace)
    (h : ∀ i ∈ f.kind.cells, G i = G' i) : f.holds R G ↔ f.holds R G' := by
  unfold SubFace.holds
  cases hk : f.kind with
  | interior i j =>
    rw [hk] at h
    simp only [Kind.cells, List.mem_cons, List.not_mem_nil, or_false, forall_eq_or_imp, forall_eq] at h
    simp only [h.1, h.2]
  | dirichlet i pD =>
    rw [hk] at h
    simp only [Kind.cells, List.mem_cons, List.not_mem_nil, or_false, forall_eq] at h
    simp only [h]
  | neumann i sgn qN =>
    rw [hk] at h
    simp only [Kind.cells, List.mem_cons, List.not_mem_nil, or_false, forall_eq] at h
    simp only [h]

theorem idxOK_cells (m : Nat) (k : Kind) (h : k.idxOK m) : ∀ i ∈ k.cells, i < m := by
  cases k with
  | interior i j =>
    simp only [Kind.idxOK] at h
    simp only [Kind.cells, List.mem_cons, List.not_mem_nil, or_false, forall_eq_or_imp, forall_eq]
    exact ⟨h.1, h.2.1⟩
  | dirichlet i pD =>
    simp only [Kind.idxOK] at h
    simpa [Kind.cells] using h
  | neumann i sgn qN =>
    simp only [Kind.idxOK] at h
    simpa [Kind.cells] using h

theorem idxOK_first (m : Nat) (k : Kind) (h : k.idxOK m) : k.first < m := by
  cases k with
  | interior i j => exact h.1
  | dirichlet i pD => exact h
  | neumann i sgn qN => exact h

theorem consistent_congr (d : Nat) (R : Region) (hwf : R.WF d) (G G' : Nat → Vec)
    (h : ∀ i < R.cells.length, G i = G' i) : R.Consistent G ↔ R.Consistent G' := by
  unfold Region.Consistent
  constructor
  · intro hc f hf
    exact (holds_congr R G G' f (fun i hi => h i (idxOK_cells _ _ (hwf.2 f hf).2.2 i hi))).mp (hc f hf)
  · intro hc f hf
    exact (holds_congr R G G' f (fun i hi => h i (idxOK_cells _ _ (hwf.2 f hf).2.2 i hi))).mpr (hc f hf)

/-! ## the assembled system -/

theorem mulVec_map_coef (rows : List LinRow) (y : Vec)
    (h : ∀ r ∈ rows, dot r.coef y = r.rhs) : mulVec (rows.map (·.coef)) y = rows.map (·.rhs) := by
  induction rows with
  | nil => rfl
  | cons r rows ih =>
    simp only [List.map_cons, mulVec_cons]
    rw [h r (by simp), ih (fun r' hr' => h r' (by simp [hr']))]

/-- every assembled row of a sub-face is satisfied by the flattened gradients iff … (only →) -/
theorem rows_of_holds (d : Nat) (R : Region) (hwf : R.WF d) (Gs : List Vec)
    (hlen : Gs.length = R.cells.length) (hG : ∀ g ∈ Gs, g.length = d)
    (f : SubFace) (hf : f ∈ R.faces) (hh : f.holds R (gradFn Gs)) :
    ∀ r ∈ f.rows d R, dot r.coef Gs.flatten = r.rhs := by
  obtain ⟨hn, hxc, hidx⟩ := hwf.2 f hf
  have cellWF : ∀ i, i < R.cells.length → (R.cellAt i).WF d := fun i hi => hwf.1 _ (cellAt_mem R i hi)
  have hplace : ∀ i v, i < R.cells.length → v.length = d →
      dot (place d R.cells.length i v) Gs.flatten = dot v (gradFn Gs i) := fun i v hi hv =>
    dot_place d R.cells.length i v Gs hlen hG hv hi
  unfold SubFace.holds at hh
  unfold SubFace.rows
  cases hk : f.kind with
  | interior i j =>
    rw [hk] at hh hidx
    obtain ⟨hi, hj, _⟩ := hidx
    obtain ⟨hxi, _, hKi⟩ := cellWF i hi
    obtain ⟨hxj, _, hKj⟩ := cellWF j hj
    have l1 : (vecMat d f.n (R.cellAt i).K).length = d := length_vecMat _ _ _ hKi
    have l2 : (vecMat d f.n (R.cellAt j).K).length = d := length_vecMat _ _ _ hKj
    have l3 : (vsub f.xc (R.cellAt i).x).length = d := by rw [length_vsub _ _ (by rw [hxc, hxi]), hxc]
    have l4 : (vsub f.xc (R.cellAt j).x).length = d := by rw [length_vsub _ _ (by rw [hxc, hxj]), hxc]
    intro r hr
    simp only [List.mem_cons, List.not_mem_nil, or_false] at hr
    rcases hr with rfl | rfl
    · simp only
      rw [dot_vsub_left _ _ _ (by rw [length_place d _ i _ l1 hi, length_place d _ j _ l2 hj]),
        hplace i _ hi l1, hplace j _ hj l2, nKg_eq d _ _ _ hKi, nKg_eq d _ _ _ hKj, hh.1]
      grind
    · simp only
      rw [dot_vsub_left _ _ _ (by rw [length_place d _ i _ l3 hi, length_place d _ j _ l4 hj]),
        hplace i _ hi l3, hplace j _ hj l4]
      have := hh.2
      unfold presAt at this
      rw [dot_comm (gradFn Gs i), dot_comm (gradFn Gs j)] at this
      grind
  | dirichlet i pD =>
    rw [hk] at hh hidx
    obtain ⟨hxi, _, _⟩ := cellWF i hidx
    have l3 : (vsub f.xc (R.cellAt i).x).length = d := by rw [length_vsub _ _ (by rw [hxc, hxi]), hxc]
    intro r hr
    simp only [List.mem_cons, List.not_mem_nil, or_false] at hr
    subst hr
    simp only
    rw [hplace i _ hidx l3]
    dsimp only at hh
    unfold presAt at hh
    rw [dot_comm (gradFn Gs i)] at hh
    grind
  | neumann i sgn qN =>
    rw [hk] at hh hidx
    obtain ⟨_, _, hKi⟩ := cellWF i hidx
    have l1 : (smul sgn (vecMat d f.n (R.cellAt i).K)).length = d := by
      rw [length_smul]; exact length_vecMat _ _ _ hKi
    intro r hr
    simp only [List.mem_cons, List.not_mem_nil, or_false] at hr
    subst hr
    simp only
    rw [hplace i _ hidx l1, dot_smul_left, nKg_eq d _ _ _ hKi]
    exact hh

/-- a solution of the rows (propositional form) solves the assembled system `A y = rhs` -/
theorem assemble_sound (d : Nat) (R : Region) (hwf : R.WF d) (Gs : List Vec)
    (hlen : Gs.length = R.cells.length) (hG : ∀ g ∈ Gs, g.length = d)
    (hc : R.Consistent (gradFn Gs)) : mulVec (R.matrix d) Gs.flatten = R.rhs d := by
  unfold Region.matrix Region.rhs
  apply mulVec_map_coef
  intro r hr
  unfold Region.rows at hr
  rw [List.mem_flatMap] at hr
  obtain ⟨f, hf, hrf⟩ := hr
  exact rows_of_holds d R hwf Gs hlen hG f hf (hc f hf) r hrf

/-- the list of the first `m` values of a gradient assignment -/
def tabulate (G : Nat → Vec) (m : Nat) : List Vec := (List.range m).map G

theorem gradFn_tabulate (G : Nat → Vec) (m i : Nat) (h : i < m) : gradFn (tabulate G m) i = G i := by
  unfold gradFn tabulate
  rw [List.getD_eq_getElem?_getD, List.getElem?_eq_getElem (by simpa using h)]
  simp

/-- Core of the certificate argument: with a passing certificate `L`, the vector `L · rhs` cut
    into blocks IS the table of any solution `G`. -/
theorem cert_solution (d : Nat) (R : Region) (L : Mat) (hwf : R.WF d)
    (hcert : certOK d R L = true) (G : Nat → Vec) (hG : ∀ i, (G i).length = d)
    (hc : R.Consistent G) :
    chunks d R.cells.length (mulVec L (R.rhs d)) = tabulate G R.cells.length := by
  have hlen : (tabulate G R.cells.length).length = R.cells.length := by simp [tabulate]
  have hblocks : ∀ g ∈ tabulate G R.cells.length, g.length = d := by
    intro g hg
    simp only [tabulate, List.mem_map] at hg
    obtain ⟨i, _, rfl⟩ := hg
    exact hG i
  have hc' : R.Consistent (gradFn (tabulate G R.cells.length)) :=
    (consistent_congr d R hwf _ _ (fun i hi => gradFn_tabulate G _ i hi)).mpr hc
  have hsys := assemble_sound d R hwf _ hlen hblocks hc'
  have hflat : (tabulate G R.cells.length).flatten.length = R.cells.length * d := by
    rw [length_flatten_blocks d _ hblocks, hlen]
  have := leftInvOK_apply _ L (R.matrix d) hcert _ hflat
  rw [hsys] at this
  rw [this]
  have h2 := chunks_flatten d _ hblocks
  rw [hlen] at h2
  exact h2

end PorepyVerif.C11
