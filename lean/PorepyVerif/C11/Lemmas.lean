/-
C11 — helper lemmas: bilinearity of the list dot product, block placement, the left-inverse
certificate, and the link between the propositional rows (`SubFace.holds`) and the assembled
linear system (`Region.rows`).  Core Lean only (no Mathlib): arithmetic goals are closed by `grind`.
-/
import PorepyVerif.C11.Model

namespace PorepyVerif.C11

/-! ## a few `simp` facts about `Rat` (core Lean only; arithmetic goals are closed by `grind`) -/

@[simp] theorem q_add_zero (a : Rat) : a + 0 = a := by grind
@[simp] theorem q_zero_add (a : Rat) : 0 + a = a := by grind
@[simp] theorem q_sub_zero (a : Rat) : a - 0 = a := by grind
@[simp] theorem q_mul_zero (a : Rat) : a * 0 = 0 := by grind
@[simp] theorem q_zero_mul (a : Rat) : 0 * a = 0 := by grind
@[simp] theorem q_neg_zero : -(0 : Rat) = 0 := by grind

/-! ## dot product -/

@[simp] theorem dot_nil_left (y : Vec) : dot [] y = 0 := by unfold dot; rfl
@[simp] theorem dot_nil_right (x : Vec) : dot x [] = 0 := by cases x <;> (unfold dot; rfl)
@[simp] theorem dot_cons (a b : Rat) (x y : Vec) : dot (a :: x) (b :: y) = a * b + dot x y := by
  rw [dot]

@[simp] theorem vsub_nil_left (y : Vec) : vsub [] y = [] := by unfold vsub; rfl
@[simp] theorem vsub_nil_right (x : Vec) : vsub x [] = [] := by cases x <;> (unfold vsub; rfl)
@[simp] theorem vsub_cons (a b : Rat) (x y : Vec) : vsub (a :: x) (b :: y) = (a - b) :: vsub x y := by
  rw [vsub]

@[simp] theorem vadd_nil_left (y : Vec) : vadd [] y = [] := by unfold vadd; rfl
@[simp] theorem vadd_nil_right (x : Vec) : vadd x [] = [] := by cases x <;> (unfold vadd; rfl)
@[simp] theorem vadd_cons (a b : Rat) (x y : Vec) : vadd (a :: x) (b :: y) = (a + b) :: vadd x y := by
  rw [vadd]

@[simp] theorem smul_nil (c : Rat) : smul c [] = [] := rfl
@[simp] theorem smul_cons (c a : Rat) (x : Vec) : smul c (a :: x) = (c * a) :: smul c x := rfl
@[simp] theorem length_smul (c : Rat) (x : Vec) : (smul c x).length = x.length := by simp [smul]
@[simp] theorem length_zeros (n : Nat) : (zeros n).length = n := by simp [zeros]
theorem zeros_succ (n : Nat) : zeros (n + 1) = 0 :: zeros n := rfl

theorem length_vsub (x y : Vec) (h : x.length = y.length) : (vsub x y).length = x.length := by
  induction x generalizing y with
  | nil => simp
  | cons a x ih =>
    cases y with
    | nil => simp at h
    | cons b y => simp at h; simp [ih y h]

theorem length_vadd (x y : Vec) (h : x.length = y.length) : (vadd x y).length = x.length := by
  induction x generalizing y with
  | nil => simp
  | cons a x ih =>
    cases y with
    | nil => simp at h
    | cons b y => simp at h; simp [ih y h]

theorem dot_comm (x y : Vec) : dot x y = dot y x := by
  induction x generalizing y with
  | nil => simp
  | cons a x ih =>
    cases y with
    | nil => simp
    | cons b y => simp [ih y]; grind

@[simp] theorem dot_zeros_left (n : Nat) (y : Vec) : dot (zeros n) y = 0 := by
  induction n generalizing y with
  | zero => simp [zeros]
  | succ n ih =>
    cases y with
    | nil => simp
    | cons b y => simp [zeros_succ, ih]

@[simp] theorem dot_zeros_right (n : Nat) (x : Vec) : dot x (zeros n) = 0 := by
  rw [dot_comm]; simp

theorem dot_smul_left (c : Rat) (x y : Vec) : dot (smul c x) y = c * dot x y := by
  induction x generalizing y with
  | nil => simp
  | cons a x ih =>
    cases y with
    | nil => simp
    | cons b y => simp [ih]; grind

/-- `a·(x − y) = a·x − a·y` for vectors `x`, `y` of equal length -/
theorem dot_vsub (a x y : Vec) (h : x.length = y.length) : dot a (vsub x y) = dot a x - dot a y := by
  induction a generalizing x y with
  | nil => simp
  | cons a0 a ih =>
    cases x with
    | nil => cases y with
      | nil => simp
      | cons _ _ => simp at h
    | cons x0 x =>
      cases y with
      | nil => simp at h
      | cons y0 y => simp at h; simp [ih x y h]; grind

theorem dot_vsub_left (u v y : Vec) (h : u.length = v.length) :
    dot (vsub u v) y = dot u y - dot v y := by
  rw [dot_comm, dot_vsub y u v h, dot_comm y u, dot_comm y v]

theorem dot_vadd_left (u v y : Vec) (h : u.length = v.length) :
    dot (vadd u v) y = dot u y + dot v y := by
  induction y generalizing u v with
  | nil => simp
  | cons y0 y ih =>
    cases u with
    | nil => cases v with
      | nil => simp
      | cons _ _ => simp at h
    | cons u0 u =>
      cases v with
      | nil => simp at h
      | cons v0 v => simp at h; simp [ih u v h]; grind

theorem dot_append (a a' b b' : Vec) (h : a.length = b.length) :
    dot (a ++ a') (b ++ b') = dot a b + dot a' b' := by
  induction a generalizing b with
  | nil =>
    cases b with
    | nil => simp
    | cons _ _ => simp at h
  | cons a0 a ih =>
    cases b with
    | nil => simp at h
    | cons b0 b => simp at h; simp [ih b h]; grind

/-! ## row vector times matrix -/

@[simp] theorem vecMat_nil_left (w : Nat) (A : Mat) : vecMat w [] A = zeros w := by
  unfold vecMat; rfl
@[simp] theorem vecMat_nil_right (w : Nat) (l : Vec) : vecMat w l [] = zeros w := by
  cases l <;> (unfold vecMat; rfl)
@[simp] theorem vecMat_cons (w : Nat) (b : Rat) (l : Vec) (r : Vec) (A : Mat) :
    vecMat w (b :: l) (r :: A) = vadd (smul b r) (vecMat w l A) := by rw [vecMat]

theorem length_vecMat (w : Nat) (l : Vec) (A : Mat) (hA : ∀ r ∈ A, r.length = w) :
    (vecMat w l A).length = w := by
  induction l generalizing A with
  | nil => simp
  | cons b l ih =>
    cases A with
    | nil => simp
    | cons r A =>
      have hr : r.length = w := hA r (by simp)
      have hrest := ih A (fun r' hr' => hA r' (by simp [hr']))
      rw [vecMat_cons, length_vadd _ _ (by simp [hr, hrest])]
      simp [hr]

@[simp] theorem mulVec_nil (y : Vec) : mulVec [] y = [] := rfl
@[simp] theorem mulVec_cons (r : Vec) (A : Mat) (y : Vec) : mulVec (r :: A) y = dot r y :: mulVec A y := rfl
@[simp] theorem length_mulVec (A : Mat) (y : Vec) : (mulVec A y).length = A.length := by simp [mulVec]

/-- `(l·A)·y = l·(A y)` for a matrix `A` of width `w` -/
theorem dot_vecMat (w : Nat) (l : Vec) (A : Mat) (y : Vec) (hA : ∀ r ∈ A, r.length = w) :
    dot (vecMat w l A) y = dot l (mulVec A y) := by
  induction l generalizing A with
  | nil => simp
  | cons b l ih =>
    cases A with
    | nil => simp
    | cons r A =>
      have hr : r.length = w := hA r (by simp)
      have hA' : ∀ r' ∈ A, r'.length = w := fun r' hr' => hA r' (by simp [hr'])
      rw [vecMat_cons, dot_vadd_left _ _ _ (by simp [hr, length_vecMat w l A hA']), dot_smul_left,
        ih A hA']
      simp

theorem mulVec_zeros (K : Mat) (n : Nat) : mulVec K (zeros n) = zeros K.length := by
  induction K with
  | nil => rfl
  | cons r K ih => simp [ih, zeros_succ]

theorem nKg_zeros (n : Vec) (K : Mat) (k : Nat) : nKg n K (zeros k) = 0 := by
  simp [nKg, mulVec_zeros]

/-- `n·(K g) = (n·K)·g` for a `d × d` permeability -/
theorem nKg_eq (d : Nat) (n : Vec) (K : Mat) (g : Vec) (hK : ∀ r ∈ K, r.length = d) :
    dot (vecMat d n K) g = nKg n K g := dot_vecMat d n K g hK

/-! ## identity matrix and the left-inverse certificate -/

theorem mulVec_map_cons_zero (A : Mat) (y0 : Rat) (y : Vec) :
    mulVec (A.map (fun r => 0 :: r)) (y0 :: y) = mulVec A y := by
  induction A with
  | nil => rfl
  | cons r A ih => simp [ih]

theorem mulVec_identity (n : Nat) (y : Vec) (h : y.length = n) : mulVec (identity n) y = y := by
  induction n generalizing y with
  | zero => cases y with
    | nil => rfl
    | cons _ _ => simp at h
  | succ n ih =>
    cases y with
    | nil => simp at h
    | cons y0 y =>
      simp at h
      rw [identity, mulVec_cons, mulVec_map_cons_zero, ih y h]
      simp

theorem mulVec_map_vecMat (w : Nat) (L A : Mat) (y : Vec) (hA : ∀ r ∈ A, r.length = w) :
    mulVec (L.map (fun l => vecMat w l A)) y = mulVec L (mulVec A y) := by
  induction L with
  | nil => rfl
  | cons l L ih => simp [ih, dot_vecMat w l A y hA]

/-- What a passing certificate means: `L (A y) = y` for every `y` with `n` components. -/
theorem leftInvOK_apply (n : Nat) (L A : Mat) (h : leftInvOK n L A = true) (y : Vec)
    (hy : y.length = n) : mulVec L (mulVec A y) = y := by
  unfold leftInvOK at h
  simp only [Bool.and_eq_true, List.all_eq_true, beq_iff_eq] at h
  obtain ⟨⟨_, hA⟩, hI⟩ := h
  have hA' : ∀ r ∈ A, r.length = n := fun r hr => by simpa using hA r hr
  rw [← mulVec_map_vecMat n L A y hA', hI, mulVec_identity n y hy]

/-! ## blocks -/

theorem length_place (d m i : Nat) (v : Vec) (hv : v.length = d) (hi : i < m) :
    (place d m i v).length = m * d := by
  induction m generalizing i with
  | zero => omega
  | succ m ih =>
    cases i with
    | zero => simp [place, hv]; grind
    | succ i =>
      simp [place, ih i (by omega)]; grind

/-- `(0,…,v,…,0)·(g_0,…,g_{m-1}) = v·g_i` -/
theorem dot_place (d m i : Nat) (v : Vec) (Gs : List Vec) (hlen : Gs.length = m)
    (hG : ∀ g ∈ Gs, g.length = d) (hv : v.length = d) (hi : i < m) :
    dot (place d m i v) Gs.flatten = dot v (Gs.getD i []) := by
  induction m generalizing i Gs with
  | zero => omega
  | succ m ih =>
    cases Gs with
    | nil => simp at hlen
    | cons g Gs =>
      have hg : g.length = d := hG g (by simp)
      simp at hlen
      cases i with
      | zero =>
        simp only [place, List.flatten_cons]
        rw [dot_append _ _ _ _ (by rw [hv, hg])]
        simp
      | succ i =>
        simp only [place, List.flatten_cons]
        rw [dot_append _ _ _ _ (by simp [hg])]
        rw [ih i Gs hlen (fun g' hg' => hG g' (by simp [hg'])) (by omega)]
        simp

theorem length_flatten_blocks (d : Nat) (Gs : List Vec) (hG : ∀ g ∈ Gs, g.length = d) :
    Gs.flatten.length = Gs.length * d := by
  induction Gs with
  | nil => simp
  | cons g Gs ih =>
    have hg : g.length = d := hG g (by simp)
    simp [hg, ih (fun g' hg' => hG g' (by simp [hg']))]; grind

theorem chunks_flatten (d : Nat) (Gs : List Vec) (hG : ∀ g ∈ Gs, g.length = d) :
    chunks d Gs.length Gs.flatten = Gs := by
  induction Gs with
  | nil => rfl
  | cons g Gs ih =>
    have hg : g.length = d := hG g (by simp)
    simp only [List.length_cons, chunks, List.flatten_cons]
    rw [List.take_left' hg, List.drop_left' hg, ih (fun g' hg' => hG g' (by simp [hg']))]

/-! ## cells -/

theorem cellAt_mem (R : Region) (i : Nat) (h : i < R.cells.length) : R.cellAt i ∈ R.cells := by
  unfold Region.cellAt
  rw [List.getD_eq_getElem?_getD, List.getElem?_eq_getElem h]
  exact List.getElem_mem h

theorem presAt_affine (c : SubCell) (a : Vec) (b : Rat) (xc : Vec) (hp : c.p = affine a b c.x)
    (hl : xc.length = c.x.length) : presAt c a xc = affine a b xc := by
  unfold presAt affine at *
  rw [hp, dot_vsub a xc c.x hl]; grind

/-- a row only looks at the gradients of the sub-cells it refers to -/
theorem holds_congr (R : Region) (G G' : Nat → Vec) (f : SubFace)
    (h : ∀ i ∈ f.kind.cells, G i = G' i) : f.holds R G ↔ f.holds R G' := by
  unfold SubFace.holds
  cases hk : f.kind with
  | interior i j =>
    rw [hk] at h
    simp only [Kind.cells, List.mem_cons, List.not_mem_nil, or_false, forall_eq_or_imp, forall_eq] at h
    simp only [h.1, h.2]
  | dirichlet i pD =>
    rw [hk] at h
    simp only [Kind.cells, List.mem_cons, List.not_mem_nil, or_false, forall_eq] at h
    simp only [h]
  | neumann i sgn qN =>
    rw [hk] at h
    simp only [Kind.cells, List.mem_cons, List.not_mem_nil, or_false, forall_eq] at h
    simp only [h]

theorem idxOK_cells (m : Nat) (k : Kind) (h : k.idxOK m) : ∀ i ∈ k.cells, i < m := by
  cases k with
  | interior i j =>
    simp only [Kind.idxOK] at h
    simp only [Kind.cells, List.mem_cons, List.not_mem_nil, or_false, forall_eq_or_imp, forall_eq]
    exact ⟨h.1, h.2.1⟩
  | dirichlet i pD =>
    simp only [Kind.idxOK] at h
    simpa [Kind.cells] using h
  | neumann i sgn qN =>
    simp only [Kind.idxOK] at h
    simpa [Kind.cells] using h

theorem idxOK_first (m : Nat) (k : Kind) (h : k.idxOK m) : k.first < m := by
  cases k with
  | interior i j => exact h.1
  | dirichlet i pD => exact h
  | neumann i sgn qN => exact h

theorem consistent_congr (d : Nat) (R : Region) (hwf : R.WF d) (G G' : Nat → Vec)
    (h : ∀ i < R.cells.length, G i = G' i) : R.Consistent G ↔ R.Consistent G' := by
  unfold Region.Consistent
  constructor
  · intro hc f hf
    exact (holds_congr R G G' f (fun i hi => h i (idxOK_cells _ _ (hwf.2 f hf).2.2 i hi))).mp (hc f hf)
  · intro hc f hf
    exact (holds_congr R G G' f (fun i hi => h i (idxOK_cells _ _ (hwf.2 f hf).2.2 i hi))).mpr (hc f hf)

/-! ## the assembled system -/

theorem mulVec_map_coef (rows : List LinRow) (y : Vec)
    (h : ∀ r ∈ rows, dot r.coef y = r.rhs) : mulVec (rows.map (·.coef)) y = rows.map (·.rhs) := by
  induction rows with
  | nil => rfl
  | cons r rows ih =>
    simp only [List.map_cons, mulVec_cons]
    rw [h r (by simp), ih (fun r' hr' => h r' (by simp [hr']))]

/-- every assembled row of a sub-face is satisfied by the flattened gradients iff … (only →) -/
theorem rows_of_holds (d : Nat) (R : Region) (hwf : R.WF d) (Gs : List Vec)
    (hlen : Gs.length = R.cells.length) (hG : ∀ g ∈ Gs, g.length = d)
    (f : SubFace) (hf : f ∈ R.faces) (hh : f.holds R (gradFn Gs)) :
    ∀ r ∈ f.rows d R, dot r.coef Gs.flatten = r.rhs := by
  obtain ⟨hn, hxc, hidx⟩ := hwf.2 f hf
  have cellWF : ∀ i, i < R.cells.length → (R.cellAt i).WF d := fun i hi => hwf.1 _ (cellAt_mem R i hi)
  have hplace : ∀ i v, i < R.cells.length → v.length = d →
      dot (place d R.cells.length i v) Gs.flatten = dot v (gradFn Gs i) := fun i v hi hv =>
    dot_place d R.cells.length i v Gs hlen hG hv hi
  unfold SubFace.holds at hh
  unfold SubFace.rows
  cases hk : f.kind with
  | interior i j =>
    rw [hk] at hh hidx
    obtain ⟨hi, hj, _⟩ := hidx
    obtain ⟨hxi, _, hKi⟩ := cellWF i hi
    obtain ⟨hxj, _, hKj⟩ := cellWF j hj
    have l1 : (vecMat d f.n (R.cellAt i).K).length = d := length_vecMat _ _ _ hKi
    have l2 : (vecMat d f.n (R.cellAt j).K).length = d := length_vecMat _ _ _ hKj
    have l3 : (vsub f.xc (R.cellAt i).x).length = d := by rw [length_vsub _ _ (by rw [hxc, hxi]), hxc]
    have l4 : (vsub f.xc (R.cellAt j).x).length = d := by rw [length_vsub _ _ (by rw [hxc, hxj]), hxc]
    intro r hr
    simp only [List.mem_cons, List.not_mem_nil, or_false] at hr
    rcases hr with rfl | rfl
    · simp only
      rw [dot_vsub_left _ _ _ (by rw [length_place d _ i _ l1 hi, length_place d _ j _ l2 hj]),
        hplace i _ hi l1, hplace j _ hj l2, nKg_eq d _ _ _ hKi, nKg_eq d _ _ _ hKj, hh.1]
      grind
    · simp only
      rw [dot_vsub_left _ _ _ (by rw [length_place d _ i _ l3 hi, length_place d _ j _ l4 hj]),
        hplace i _ hi l3, hplace j _ hj l4]
      have := hh.2
      unfold presAt at this
      rw [dot_comm (gradFn Gs i), dot_comm (gradFn Gs j)] at this
      grind
  | dirichlet i pD =>
    rw [hk] at hh hidx
    obtain ⟨hxi, _, _⟩ := cellWF i hidx
    have l3 : (vsub f.xc (R.cellAt i).x).length = d := by rw [length_vsub _ _ (by rw [hxc, hxi]), hxc]
    intro r hr
    simp only [List.mem_cons, List.not_mem_nil, or_false] at hr
    subst hr
    simp only
    rw [hplace i _ hidx l3]
    dsimp only at hh
    unfold presAt at hh
    rw [dot_comm (gradFn Gs i)] at hh
    grind
  | neumann i sgn qN =>
    rw [hk] at hh hidx
    obtain ⟨_, _, hKi⟩ := cellWF i hidx
    have l1 : (smul sgn (vecMat d f.n (R.cellAt i).K)).length = d := by
      rw [length_smul]; exact length_vecMat _ _ _ hKi
    intro r hr
    simp only [List.mem_cons, List.not_mem_nil, or_false] at hr
    subst hr
    simp only
    rw [hplace i _ hidx l1, dot_smul_left, nKg_eq d _ _ _ hKi]
    exact hh

/-- a solution of the rows (propositional form) solves the assembled system `A y = rhs` -/
theorem assemble_sound (d : Nat) (R : Region) (hwf : R.WF d) (Gs : List Vec)
    (hlen : Gs.length = R.cells.length) (hG : ∀ g ∈ Gs, g.length = d)
    (hc : R.Consistent (gradFn Gs)) : mulVec (R.matrix d) Gs.flatten = R.rhs d := by
  unfold Region.matrix Region.rhs
  apply mulVec_map_coef
  intro r hr
  unfold Region.rows at hr
  rw [List.mem_flatMap] at hr
  obtain ⟨f, hf, hrf⟩ := hr
  exact rows_of_holds d R hwf Gs hlen hG f hf (hc f hf) r hrf

/-- the list of the first `m` values of a gradient assignment -/
def tabulate (G : Nat → Vec) (m : Nat) : List Vec := (List.range m).map G

theorem gradFn_tabulate (G : Nat → Vec) (m i : Nat) (h : i < m) : gradFn (tabulate G m) i = G i := by
  unfold gradFn tabulate
  rw [List.getD_eq_getElem?_getD, List.getElem?_eq_getElem (by simpa using h)]
  simp

/-- Core of the certificate argument: with a passing certificate `L`, the vector `L · rhs` cut
    into blocks IS the table of any solution `G`. -/
theorem cert_solution (d : Nat) (R : Region) (L : Mat) (hwf : R.WF d)
    (hcert : certOK d R L = true) (G : Nat → Vec) (hG : ∀ i, (G i).length = d)
    (hc : R.Consistent G) :
    chunks d R.cells.length (mulVec L (R.rhs d)) = tabulate G R.cells.length := by
  have hlen : (tabulate G R.cells.length).length = R.cells.length := by simp [tabulate]
  have hblocks : ∀ g ∈ tabulate G R.cells.length, g.length = d := by
    intro g hg
    simp only [tabulate, List.mem_map] at hg
    obtain ⟨i, _, rfl⟩ := hg
    exact hG i
  have hc' : R.Consistent (gradFn (tabulate G R.cells.length)) :=
    (consistent_congr d R hwf _ _ (fun i hi => gradFn_tabulate G _ i hi)).mpr hc
  have hsys := assemble_sound d R hwf _ hlen hblocks hc'
  have hflat : (tabulate G R.cells.length).flatten.length = R.cells.length * d := by
    rw [length_flatten_blocks d _ hblocks, hlen]
  have := leftInvOK_apply _ L (R.matrix d) hcert _ hflat
  rw [hsys] at this
  rw [this]
  have h2 := chunks_flatten d _ hblocks
  rw [hlen] at h2
  exact h2

end PorepyVerif.C11

/-! ## consequences of "all gradients equal `a`" (shared by the region and the grid theorems) -/

namespace PorepyVerif.C11

theorem flux_of_const (d : Nat) (R : Region) (K : Mat) (a : Vec) (b : Rat) (hwf : R.WF d)
    (hdata : R.AffineData K a b) (Gf : Nat → Vec) (hgrad : ∀ i < R.cells.length, Gf i = a)
    (f : SubFace) (hf : f ∈ R.faces) : f.flux R Gf = -(nKg f.n K a) := by
  have hi := idxOK_first _ _ (hwf.2 f hf).2.2
  unfold SubFace.flux
  rw [hgrad _ hi, (hdata.1 _ (cellAt_mem R _ hi)).1]

theorem pres_of_const (d : Nat) (R : Region) (K : Mat) (a : Vec) (b : Rat) (hwf : R.WF d)
    (hdata : R.AffineData K a b) (Gf : Nat → Vec) (hgrad : ∀ i < R.cells.length, Gf i = a)
    (f : SubFace) (hf : f ∈ R.faces) : f.pres R Gf = affine a b f.xc := by
  obtain ⟨_, hxc, hidx⟩ := hwf.2 f hf
  have hP : ∀ i, i < R.cells.length → presAt (R.cellAt i) (Gf i) f.xc = affine a b f.xc := by
    intro i hi
    have hm := cellAt_mem R i hi
    rw [hgrad i hi]
    exact presAt_affine _ a b f.xc (hdata.1 _ hm).2 (by rw [hxc, (hwf.1 _ hm).1])
  unfold SubFace.pres SubFace.pres1
  cases hk : f.kind with
  | interior i j =>
    rw [hk] at hidx
    show (presAt (R.cellAt i) (Gf i) f.xc + presAt (R.cellAt j) (Gf j) f.xc) / 2 = _
    rw [hP i hidx.1, hP j hidx.2.1]; grind
  | dirichlet i pD => rw [hk] at hidx; exact hP i hidx
  | neumann i sgn qN => rw [hk] at hidx; exact hP i hidx

/-! ## the local matrix does not depend on the data -/

def SubCell.erase (c : SubCell) : SubCell := ⟨c.x, c.K, 0⟩
def Kind.erase : Kind → Kind
  | .interior i j => .interior i j
  | .dirichlet i _ => .dirichlet i 0
  | .neumann i s _ => .neumann i s 0
def SubFace.erase (f : SubFace) : SubFace := ⟨f.n, f.xc, f.kind.erase⟩
def Region.erase (R : Region) : Region := ⟨R.cells.map SubCell.erase, R.faces.map SubFace.erase⟩

theorem cellAt_erase (R : Region) (i : Nat) : R.erase.cellAt i = (R.cellAt i).erase := by
  unfold Region.cellAt Region.erase
  simp only [List.getD_eq_getElem?_getD, List.getElem?_map]
  cases R.cells[i]? <;> rfl

theorem erase_cells_length (R : Region) : R.erase.cells.length = R.cells.length := by
  simp [Region.erase]

theorem rows_erase (d : Nat) (R : Region) (f : SubFace) :
    (f.erase.rows d R.erase).map (·.coef) = (f.rows d R).map (·.coef) := by
  unfold SubFace.rows
  cases hk : f.kind <;>
    simp [SubFace.erase, Kind.erase, hk, cellAt_erase, SubCell.erase, erase_cells_length]

theorem matrix_erase (d : Nat) (R : Region) : R.erase.matrix d = R.matrix d := by
  unfold Region.matrix Region.rows
  have : ∀ fs : List SubFace,
      ((fs.map SubFace.erase).flatMap (fun f => f.rows d R.erase)).map (·.coef) =
        (fs.flatMap (fun f => f.rows d R)).map (·.coef) := by
    intro fs
    induction fs with
    | nil => rfl
    | cons f fs ih =>
      simp only [List.map_cons, List.flatMap_cons, List.map_append, ih, rows_erase]
  exact this R.faces

theorem certOK_of_erase_eq (d : Nat) (R R' : Region) (L : Mat) (h : R.erase = R'.erase) :
    certOK d R L = certOK d R' L := by
  unfold certOK
  have hm : R.matrix d = R'.matrix d := by rw [← matrix_erase d R, ← matrix_erase d R', h]
  have hl : R.cells.length = R'.cells.length := by
    have := congrArg (fun X => X.cells.length) h
    simpa [Region.erase] using this
  rw [hm, hl]

/-! ## the 2-D grid model -/

theorem getD_mem' {α : Type} (l : List α) (i : Nat) (d : α) (h : i < l.length) : l.getD i d ∈ l := by
  rw [List.getD_eq_getElem?_getD, List.getElem?_eq_getElem h]
  exact List.getElem_mem h

theorem getD_map_range {α : Type} (g : Nat → α) (n i : Nat) (d : α) (h : i < n) :
    ((List.range n).map g).getD i d = g i := by
  rw [List.getD_eq_getElem?_getD, List.getElem?_eq_getElem (by simpa using h)]
  simp

namespace Grid2
variable (G : Grid2)

theorem mem_facesOf (v f : Nat) : f ∈ G.facesOf v ↔ f < G.numFaces ∧ v ∈ G.fnodes f := by
  simp [facesOf, List.mem_filter]

theorem mem_cellsOf (v c : Nat) :
    c ∈ G.cellsOf v ↔ c < G.numCells ∧ ∃ f ∈ G.facesOf v, ∃ s, (c, s) ∈ G.fcells f := by
  simp [cellsOf, List.mem_filter]

theorem loc_lt (v c : Nat) (h : c ∈ G.cellsOf v) : G.loc v c < (G.cellsOf v).length :=
  List.idxOf_lt_length_of_mem h

theorem loc_inj (v c1 c2 : Nat) (h1 : c1 ∈ G.cellsOf v) (h2 : c2 ∈ G.cellsOf v)
    (h : G.loc v c1 = G.loc v c2) : c1 = c2 := by
  have e1 : (G.cellsOf v)[(G.cellsOf v).idxOf c1]? = some c1 := by
    rw [List.getElem?_eq_getElem (List.idxOf_lt_length_of_mem h1)]
    exact congrArg some (List.getElem_idxOf _)
  have e2 : (G.cellsOf v)[(G.cellsOf v).idxOf c2]? = some c2 := by
    rw [List.getElem?_eq_getElem (List.idxOf_lt_length_of_mem h2)]
    exact congrArg some (List.getElem_idxOf _)
  unfold loc at h
  rw [h, e2] at e1
  exact (Option.some.inj e1).symm

/-- shape of the cell list of a face in a well-formed grid -/
theorem fcells_cases (hwf : G.WF) (f : Nat) (hf : f < G.numFaces) :
    (∃ c s, G.fcells f = [(c, s)] ∧ c < G.numCells) ∨
    (∃ c1 s1 c2 s2, G.fcells f = [(c1, s1), (c2, s2)] ∧ c1 < G.numCells ∧ c2 < G.numCells ∧ c1 ≠ c2) := by
  obtain ⟨hfc, _, _, _, _, _, _, _, _, _, hfcells⟩ := hwf
  have h := hfcells _ (getD_mem' G.faceCells f [] (by rw [hfc]; exact hf))
  change fcOK G.numCells (G.fcells f) at h
  rcases hl : G.fcells f with _ | ⟨⟨c, s⟩, _ | ⟨⟨c2, s2⟩, _ | ⟨x, rest⟩⟩⟩
  · rw [hl] at h; simp [fcOK] at h
  · rw [hl] at h; left; exact ⟨c, s, rfl, by simpa [fcOK] using h⟩
  · rw [hl] at h; right; exact ⟨c, s, c2, s2, rfl, by simpa [fcOK] using h⟩
  · rw [hl] at h; simp [fcOK] at h

theorem mkFace_n (bc : List Rat) (v f : Nat) :
    (G.mkFace bc v f).n = smul (1 / G.nN f) (G.fnAt f) := by
  unfold mkFace
  split
  · split <;> rfl
  · rfl
  · rfl

theorem mkFace_bnd (bc : List Rat) (v f c : Nat) (s : Rat) (h : G.fcells f = [(c, s)]) :
    G.mkFace bc v f =
      if G.dirAt f then ⟨smul (1 / G.nN f) (G.fnAt f), G.fcAt f, .dirichlet (G.loc v c) (bc.getD f 0)⟩
      else ⟨smul (1 / G.nN f) (G.fnAt f), G.fcAt f, .neumann (G.loc v c) s (bc.getD f 0 / G.nN f)⟩ := by
  unfold mkFace; rw [h]

theorem mkFace_int (bc : List Rat) (v f c1 c2 : Nat) (s1 s2 : Rat)
    (h : G.fcells f = [(c1, s1), (c2, s2)]) :
    G.mkFace bc v f =
      ⟨smul (1 / G.nN f) (G.fnAt f), vadd (G.fcAt f) (smul G.eta (vsub (G.nodeAt v) (G.fcAt f))),
        .interior (G.loc v c1) (G.loc v c2)⟩ := by
  unfold mkFace; rw [h]

/-- the interaction region the model builds around any node of a well-formed grid is well-formed -/
theorem region_wf (hwf : G.WF) (p bc : List Rat) (v : Nat) (hv : v < G.numNodes) :
    (G.region p bc v).WF 2 := by
  have hwf' := hwf
  obtain ⟨hfc, hfcen, hfn, hperm, hnodes, hcc, hfcs, hfns, hK, hfnodes, hfcells⟩ := hwf
  constructor
  · intro c hc
    simp only [region, List.mem_map] at hc
    obtain ⟨c0, hc0, rfl⟩ := hc
    have hlt : c0 < G.numCells := ((G.mem_cellsOf v c0).mp hc0).1
    exact ⟨hcc _ (getD_mem' G.cellCenters c0 [] hlt),
      hK _ (getD_mem' G.perm c0 [] (by rw [hperm]; exact hlt))⟩
  · intro f hf
    simp only [region, List.mem_map, List.length_map] at hf ⊢
    obtain ⟨f0, hf0, rfl⟩ := hf
    obtain ⟨hflt, hvf⟩ := (G.mem_facesOf v f0).mp hf0
    have hn2 : (G.fnAt f0).length = 2 := hfns _ (getD_mem' G.faceNormals f0 [] (by rw [hfn]; exact hflt))
    have hc2 : (G.fcAt f0).length = 2 := hfcs _ (getD_mem' G.faceCenters f0 [] (by rw [hfcen]; exact hflt))
    have hx2 : (G.nodeAt v).length = 2 := hnodes _ (getD_mem' G.nodes v [] hv)
    have hmem : ∀ c s, (c, s) ∈ G.fcells f0 → c < G.numCells → c ∈ G.cellsOf v := fun c s hcs hlt =>
      (G.mem_cellsOf v c).mpr ⟨hlt, f0, hf0, s, hcs⟩
    rcases G.fcells_cases hwf' f0 hflt with ⟨c, s, hl, hc⟩ | ⟨c1, s1, c2, s2, hl, hc1, hc2', hne⟩
    · have hcm := hmem c s (by rw [hl]; simp) hc
      rw [G.mkFace_bnd bc v f0 c s hl]
      split
      · exact ⟨by simp [hn2], hc2, G.loc_lt v c hcm⟩
      · exact ⟨by simp [hn2], hc2, G.loc_lt v c hcm⟩
    · have hm1 := hmem c1 s1 (by rw [hl]; simp) hc1
      have hm2 := hmem c2 s2 (by rw [hl]; simp) hc2'
      rw [G.mkFace_int bc v f0 c1 c2 s1 s2 hl]
      refine ⟨by simp [hn2], ?_, G.loc_lt v c1 hm1, G.loc_lt v c2 hm2, ?_⟩
      · show (vadd (G.fcAt f0) (smul G.eta (vsub (G.nodeAt v) (G.fcAt f0)))).length = 2
        rw [length_vadd _ _ (by rw [length_smul, length_vsub _ _ (by rw [hx2, hc2]), hx2, hc2]), hc2]
      · intro h
        exact hne (G.loc_inj v c1 c2 hm1 hm2 h)

/-- … and carries the data of the affine field when the global data do -/
theorem region_affine (hwf : G.WF) (K : Mat) (a : Vec) (b : Rat) (p bc : List Rat)
    (hdata : G.AffineGlobal K a b p bc) (v : Nat) : (G.region p bc v).AffineData K a b := by
  constructor
  · intro c hc
    simp only [region, List.mem_map] at hc
    obtain ⟨c0, hc0, rfl⟩ := hc
    have hlt : c0 < G.numCells := ((G.mem_cellsOf v c0).mp hc0).1
    exact hdata.1 c0 hlt
  · intro f hf
    simp only [region, List.mem_map] at hf
    obtain ⟨f0, hf0, rfl⟩ := hf
    obtain ⟨hflt, _⟩ := (G.mem_facesOf v f0).mp hf0
    have hb := hdata.2 f0 hflt
    unfold bcOK at hb
    rcases G.fcells_cases hwf f0 hflt with ⟨c, s, hl, _⟩ | ⟨c1, s1, c2, s2, hl, _, _, _⟩
    · rw [G.mkFace_bnd bc v f0 c s hl]
      rw [hl] at hb
      by_cases hd : G.dirAt f0 = true
      · simp only [hd, if_true] at hb ⊢
        exact hb
      · simp only [hd] at hb ⊢
        show bc.getD f0 0 / G.nN f0 = -(s * nKg (smul (1 / G.nN f0) (G.fnAt f0)) K a)
        have : nKg (smul (1 / G.nN f0) (G.fnAt f0)) K a = 1 / G.nN f0 * nKg (G.fnAt f0) K a := by
          unfold nKg; rw [dot_smul_left]
        rw [this, hb]; grind
    · rw [G.mkFace_int bc v f0 c1 c2 s1 s2 hl]
      trivial

theorem erase_mkFace (bc bc' : List Rat) (v f : Nat) :
    (G.mkFace bc v f).erase = (G.mkFace bc' v f).erase := by
  unfold mkFace
  split
  · split <;> rfl
  · rfl
  · rfl

theorem erase_region (p bc p' bc' : List Rat) (v : Nat) :
    (G.region p bc v).erase = (G.region p' bc' v).erase := by
  simp only [region, Region.erase, List.map_map]
  congr 1
  apply List.map_congr_left
  intro f _
  exact G.erase_mkFace bc bc' v f

theorem allSome_getD {α : Type} (l : List (Option α)) (r : List α) (h : allSome l = some r)
    (i : Nat) (hi : i < l.length) (d : α) : l.getD i none = some (r.getD i d) := by
  induction l generalizing r i with
  | nil => simp at hi
  | cons x l ih =>
    cases x with
    | none => simp [allSome] at h
    | some a0 =>
      cases hrec : allSome l with
      | none => simp [allSome, hrec] at h
      | some as =>
        simp only [allSome, hrec, Option.some.injEq] at h
        subst h
        cases i with
        | zero => simp
        | succ i =>
          have := ih as hrec i (by simpa using hi)
          simpa using this

/-- every certificate of `certs` passes the check for the region WITH data -/
theorem certs_ok (Ls : List Mat) (h : G.certs = some Ls) (p bc : List Rat) (v : Nat)
    (hv : v < G.numNodes) : certOK 2 (G.region p bc v) (Ls.getD v []) = true := by
  unfold certs at h
  have h1 := allSome_getD _ Ls h v (by simpa using hv) []
  rw [getD_map_range G.certAt G.numNodes v none hv] at h1
  unfold certAt at h1
  rw [certOK_of_erase_eq 2 (G.region p bc v) (G.region [] [] v) _ (G.erase_region p bc [] [] v)]
  cases hL : leftInverse ((G.region [] [] v).matrix 2) with
  | none => rw [hL] at h1; simp at h1
  | some L =>
    rw [hL] at h1
    by_cases hc : certOK 2 (G.region [] [] v) L = true
    · simp only [hc, if_true, Option.some.injEq] at h1
      rw [← h1]; exact hc
    · simp [hc] at h1

theorem nodeSolAt_nodeSols (Ls : List Mat) (p bc : List Rat) (v : Nat) (hv : v < G.numNodes) :
    nodeSolAt (G.nodeSols Ls p bc) v =
      ⟨G.region p bc v, chunks 2 (G.region p bc v).cells.length
        (mulVec (Ls.getD v []) ((G.region p bc v).rhs 2))⟩ := by
  unfold nodeSolAt nodeSols
  rw [getD_map_range _ G.numNodes v _ hv]

end Grid2

end PorepyVerif.C11
